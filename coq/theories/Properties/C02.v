(* Properties/C02.v — Commit and tag codecs are faithful to git.
   G = Model/Commit, Model/Tag, Model/Ident (go-git's scanners and encoders as
   they are); S = Spec/GitFields (what git 2.39 reports); boolean
   well-formedness / agreement clauses in Spec/ObjWf.
   Only statements here; proofs live in Proofs/C02*.v. *)
From Coq Require Import List NArith ZArith Bool String.
From GoGit Require Import Base.Out Model.ObjLines Model.Ident Model.Commit Model.Tag
     Model.SigPayload Spec.GitFields Spec.ObjWf Spec.GitExtra Spec.GitSig Spec.SigGuards
     Proofs.ObjLinesFacts Proofs.C02Dec Proofs.C02Ident Proofs.C02Commit Proofs.C02Tag Proofs.C02Message Proofs.C02IdentGit
     Proofs.C02CommitGit Proofs.C02TagGit Proofs.C02Extra Proofs.C03CommitSig Proofs.C03CommitSig256.
Import ListNotations.
Local Open Scope N_scope.

(* ---- "Encoding any well-formed in-memory commit and decoding the result
        gives back the same field values" ---- *)
Theorem C02_ident_dec_enc : forall i, wf_ident i = true -> decode_ident (encode_ident i) = i.
Proof. exact ident_dec_enc. Qed.
Print Assumptions C02_ident_dec_enc.

Theorem C02_commit_dec_enc : forall c, wf_commit c = true -> decode_commit (encode_commit c true) = Ok c.
Proof. exact commit_dec_enc. Qed.
Print Assumptions C02_commit_dec_enc.

(* ---- "Decoding any commit git can store and re-encoding it reproduces the
        same bytes": true of the canonical objects (the image of the encoder on
        well-formed structs) ... ---- *)
Theorem C02_commit_enc_dec_bytes : forall c b, wf_commit c = true -> b = encode_commit c true ->
  exists d, decode_commit b = Ok d /\ encode_commit d true = b.
Proof. intros c b Hwf ->. exists c. split; [now apply commit_dec_enc|reflexivity]. Qed.
Print Assumptions C02_commit_enc_dec_bytes.

(* ... and FALSE of every stored object (full statement:
     forall b d, decode_commit b = Ok d -> encode_commit d true = b):
   duplicate / repeated headers, explicit "encoding UTF-8", zone -0000, a
   negative timestamp, gpgsig before encoding. *)
Definition reencode_differs (b : bytes) : Prop :=
  exists d, decode_commit b = Ok d /\ encode_commit d true <> b.

Theorem C02_commit_reencode_refuted :
  reencode_differs (unhex "7472656520346238323564633634326362366562396130363065353462663864363932383866626565343930340a617574686f722041203c6140623e2031202b303030300a636f6d6d69747465722043203c6340643e2032202d303133300a782d64757020760a782d64757020760a7472656520346238323564633634326362366562396130363065353462663864363932383866626565343930340a0a6d0a") /\
  reencode_differs (unhex "7472656520346238323564633634326362366562396130363065353462663864363932383866626565343930340a617574686f722041203c6140623e2031202b303030300a636f6d6d69747465722043203c6340643e2032202d303133300a656e636f64696e67205554462d380a0a6d0a") /\
  reencode_differs (unhex "7472656520346238323564633634326362366562396130363065353462663864363932383866626565343930340a617574686f722041203c6140623e2031202d303030300a636f6d6d69747465722043203c6340643e2032202d303133300a0a6d0a") /\
  reencode_differs (unhex "7472656520346238323564633634326362366562396130363065353462663864363932383866626565343930340a617574686f722041203c6140623e202d35202b303030300a636f6d6d69747465722043203c6340643e2032202d303133300a0a6d0a") /\
  reencode_differs (unhex "7472656520346238323564633634326362366562396130363065353462663864363932383866626565343930340a617574686f722041203c6140623e2031202b303030300a636f6d6d69747465722043203c6340643e2032202d303133300a67706773696720780a656e636f64696e67206c6174696e310a0a6d0a").
Proof.
  repeat split; (eexists; split; [vm_compute; reflexivity|vm_compute; discriminate]).
Qed.
Print Assumptions C02_commit_reencode_refuted.

(* ---- tags: same triple ---- *)
Theorem C02_tag_dec_enc : forall t, wf_tag t = true -> decode_tag (encode_tag t true) = Ok t.
Proof. exact tag_dec_enc. Qed.
Print Assumptions C02_tag_dec_enc.

Theorem C02_tag_enc_dec_bytes : forall t b, wf_tag t = true -> b = encode_tag t true ->
  exists d, decode_tag b = Ok d /\ encode_tag d true = b.
Proof. intros t b Hwf ->. exists t. split; [now apply tag_dec_enc|reflexivity]. Qed.
Print Assumptions C02_tag_enc_dec_bytes.

(* stored tags that do not re-encode byte-exactly: an unknown header (Tag keeps none), zone -0000 *)
Theorem C02_tag_reencode_refuted :
  (exists d, decode_tag (unhex "6f626a65637420346238323564633634326362366562396130363065353462663864363932383866626565343930340a7479706520747265650a7461672076310a7461676765722047203c6740683e2033202b303230300a782d657874726120760a0a6d0a") = Ok d /\
             encode_tag d true <> unhex "6f626a65637420346238323564633634326362366562396130363065353462663864363932383866626565343930340a7479706520747265650a7461672076310a7461676765722047203c6740683e2033202b303230300a782d657874726120760a0a6d0a") /\
  (exists d, decode_tag (unhex "6f626a65637420346238323564633634326362366562396130363065353462663864363932383866626565343930340a7479706520747265650a7461672076310a7461676765722047203c6740683e2033202d303030300a0a6d0a") = Ok d /\
             encode_tag d true <> unhex "6f626a65637420346238323564633634326362366562396130363065353462663864363932383866626565343930340a7479706520747265650a7461672076310a7461676765722047203c6740683e2033202d303030300a0a6d0a").
Proof. split; (eexists; split; [vm_compute; reflexivity|vm_compute; discriminate]). Qed.
Print Assumptions C02_tag_reencode_refuted.

(* ---- "the decoded fields are the ones git itself reports": FALSE of every
        stored object (author behind another header; several '<'), witnesses
        checked against git 2.39.5 by the C-git suite ---- *)
(* TRUE without any guard for the message: for every stored commit that
   go-git decodes and git parses, Commit.Message is the message git reports *)
Theorem C02_message_matches_git : forall raw c g m,
  decode_commit raw = Ok c -> git_log_fields raw = GOk g -> gl_body g = Some m -> c_msg c = m.
Proof. exact message_matches_git. Qed.
Print Assumptions C02_message_matches_git.

(* PARTIAL for identities: for every author/committer value that passes the
   boolean clauses person_ok (one '<', exactly one '>' after it — a '>' inside
   the name is harmless; the name is blank, or has no leading blank and no
   TAB/CR before its trailing blanks) and date_ok (no digit at all after the
   last '>', or exactly " <digits> [+-]hhmm" with digits < 2^63, mm < 60, not
   -00mm with mm > 0, no further digit), Signature.Decode yields the name,
   e-mail and raw date that git's split_ident_line / show_ident_date report.
   Each remaining conjunct of the clauses is needed: see the _refuted witnesses
   and the known-finding classes commit-ident-person / commit-ident-date. *)
Theorem C02_ident_matches_git_partial : forall v,
  no_lf v = true -> person_ok v = true -> date_ok v = true ->
  let i := decode_ident v in
  git_person (Some v) = (id_name i, id_email i, go_date i).
Proof. exact ident_matches_git. Qed.
Print Assumptions C02_ident_matches_git_partial.

(* the full statement (no clauses) is false: last-vs-first bracket, blanks around the date *)
Theorem C02_ident_matches_git_refuted :
  (let v := str "A <x> <y> 5 +0100" in let i := decode_ident v in
   git_person (Some v) <> (id_name i, id_email i, go_date i)) /\
  (let v := str "C <c@d>  7 +0530" in let i := decode_ident v in
   git_person (Some v) <> (id_name i, id_email i, go_date i)).
Proof. split; vm_compute; discriminate. Qed.
Print Assumptions C02_ident_matches_git_refuted.

(* the weaker clauses really reach further than the canonical shape: a '>' in
   the name, a blank name, a tail without any digit *)
Example C02_ident_clauses_weak :
  (let v := str "a>b <x@y> 5 +0100" in person_ok v = true /\ date_ok v = true /\
     git_person (Some v) = (str "a>b", str "x@y", str "5 +0100")) /\
  (let v := str "  <x@y> 5 +0100" in person_ok v = true /\ date_ok v = true /\
     git_person (Some v) = ([], str "x@y", str "5 +0100")) /\
  (let v := str "A <x@y> -x +y" in person_ok v = true /\ date_ok v = true /\
     git_person (Some v) = (str "A", str "x@y", [])).
Proof. vm_compute. repeat split. Qed.

Example C02_ident_clauses_nonvacuous :
  let v := str "A U Thor <author@example.com> 1234567890 -0330" in
  no_lf v = true /\ person_ok v = true /\ date_ok v = true /\
  git_person (Some v) = (str "A U Thor", str "author@example.com", str "1234567890 -0330").
Proof. vm_compute. repeat split. Qed.

Definition author_differs (b : bytes) : Prop :=
  exists d g, decode_commit b = Ok d /\ git_log_fields b = GOk g /\
              (id_name (c_author d), id_email (c_author d)) <> (gl_an g, gl_ae g).

Theorem C02_fields_match_git_refuted :
  author_differs (unhex "7472656520346238323564633634326362366562396130363065353462663864363932383866626565343930340a782d6e6f746520760a617574686f722041203c6140623e2031202b303030300a636f6d6d69747465722043203c6340643e2032202d303133300a0a6d0a") /\
  author_differs (unhex "7472656520346238323564633634326362366562396130363065353462663864363932383866626565343930340a617574686f722041203c783e203c793e2035202b303130300a636f6d6d69747465722043203c6340643e2032202d303133300a0a6d0a").
Proof.
  split; (do 2 eexists; split; [vm_compute; reflexivity|split; [vm_compute; reflexivity|vm_compute; discriminate]]).
Qed.
Print Assumptions C02_fields_match_git_refuted.

(* ---- PARTIAL, commit level: for EVERY stored commit that go-git decodes and
   git parses, the decoded tree and message are git's, and each further field
   is git's under the boolean clauses of Spec/ObjWf.commit_agree_of that
   concern it (each clause is the negation of a known-finding class):
   parents under ca_parents (the leading "parent " block is one git reads the
   same way), author / committer identity, date and zone under ca_position
   (author, committer directly after the parents, no stray one later) and the
   person / date clauses of that line, encoding under ca_encoding (no bare
   "encoding" line; go-git's default "UTF-8" is git's "no encoding header"). *)
Theorem C02_commit_fields_match_git_partial : forall raw c g,
  decode_commit raw = Ok c -> git_log_fields raw = GOk g ->
  let a := commit_agree_of raw in
  hex_encode (c_tree c) = gl_tree g /\
  (ca_parents a = true -> map hex_encode (c_parents c) = gl_parents g) /\
  (ca_position a = true -> ca_aperson a = true -> ca_adate a = true ->
     (id_name (c_author c), id_email (c_author c), go_date (c_author c)) = (gl_an g, gl_ae g, gl_ad g)) /\
  (ca_position a = true -> ca_cperson a = true -> ca_cdate a = true ->
     (id_name (c_committer c), id_email (c_committer c), go_date (c_committer c)) = (gl_cn g, gl_ce g, gl_cd g)) /\
  (ca_encoding a = true -> enc_agrees (c_enc c) (gl_enc g)) /\
  (forall m, gl_body g = Some m -> c_msg c = m).
Proof. exact commit_fields_match_git. Qed.
Print Assumptions C02_commit_fields_match_git_partial.

(* non-vacuity: a merge commit with a '>' in the author name, a date-less
   committer, an encoding header and a later extra header passes every clause *)
Example C02_commit_clauses_nonvacuous :
  let raw := str "tree 4b825dc642cb6eb9a060e54bf8d69288fbee4904" ++ [10] ++
             str "parent 1111111111111111111111111111111111111111" ++ [10] ++
             str "parent 2222222222222222222222222222222222222222" ++ [10] ++
             str "author a>b <x@y> 5 +0100" ++ [10] ++ str "committer C <c@d>" ++ [10] ++
             str "encoding latin1" ++ [10] ++ str "x-k v" ++ [10; 10] ++ str "msg" ++ [10] in
  let a := commit_agree_of raw in
  ca_parents a = true /\ ca_position a = true /\ ca_aperson a = true /\ ca_adate a = true /\
  ca_cperson a = true /\ ca_cdate a = true /\ ca_encoding a = true /\
  exists c g, decode_commit raw = Ok c /\ git_log_fields raw = GOk g /\
              List.length (gl_parents g) = 2%nat /\ gl_an g = str "a>b" /\ gl_cd g = [] /\ gl_enc g = str "latin1".
Proof. vm_compute. repeat split. do 2 eexists. repeat split. Qed.

(* ---- extra headers.  git has no output format for them; what git takes them
   to be is commit.c read_commit_extra_headers (gpgsig excluded), observable
   through `git commit --amend`, which re-writes them (S = Spec/GitExtra,
   compared with the binary on every check).  FULL STATEMENT
     decode_commit raw = Ok c -> c_extra c = map extra_norm (git_extras raw)
   (go-git keeps each value without its trailing LFs) is FALSE: a header line
   without a space, a continuation line behind a standard header, an extra
   header cut off by the end of the object *)
Theorem C02_extras_match_git_refuted :
  (exists c, decode_commit (str "tree 4b825dc642cb6eb9a060e54bf8d69288fbee4904" ++ [10] ++ str "x-flag" ++ [10; 10]) = Ok c /\
             c_extra c <> map extra_norm (git_extras (str "tree 4b825dc642cb6eb9a060e54bf8d69288fbee4904" ++ [10] ++ str "x-flag" ++ [10; 10]))) /\
  (exists c, decode_commit (str "tree 4b825dc642cb6eb9a060e54bf8d69288fbee4904" ++ [10] ++ str "encoding x" ++ [10] ++ str " y" ++ [10; 10]) = Ok c /\
             c_extra c <> map extra_norm (git_extras (str "tree 4b825dc642cb6eb9a060e54bf8d69288fbee4904" ++ [10] ++ str "encoding x" ++ [10] ++ str " y" ++ [10; 10]))) /\
  (exists c, decode_commit (str "tree 4b825dc642cb6eb9a060e54bf8d69288fbee4904" ++ [10] ++ str "x-k v") = Ok c /\
             c_extra c <> map extra_norm (git_extras (str "tree 4b825dc642cb6eb9a060e54bf8d69288fbee4904" ++ [10] ++ str "x-k v"))).
Proof. repeat split; (eexists; split; [vm_compute; reflexivity|vm_compute; discriminate]). Qed.
Print Assumptions C02_extras_match_git_refuted.

(* PARTIAL: under the boolean clause extras_guard (every header line is
   LF-terminated, every header line that is not a continuation has a space, no
   continuation line behind tree / parent / author / committer / encoding),
   Commit.ExtraHeaders are git's extra headers — any keys, any number of
   continuation lines, empty values, duplicates, gpgsig headers in between *)
Theorem C02_extras_match_git_partial : forall raw c,
  decode_commit raw = Ok c -> extras_guard raw = true ->
  c_extra c = map extra_norm (git_extras raw).
Proof. exact extras_match_git. Qed.
Print Assumptions C02_extras_match_git_partial.

Example C02_extras_guard_nonvacuous :
  let raw := str "tree 4b825dc642cb6eb9a060e54bf8d69288fbee4904" ++ [10] ++ str "author A <a@b> 1 +0000" ++ [10] ++
             str "mergetag object 1" ++ [10] ++ str " type commit" ++ [10] ++ str " " ++ [10] ++ str " sig" ++ [10] ++
             str "gpgsig x" ++ [10] ++ str " y" ++ [10] ++ str "x-empty " ++ [10] ++ str "mergetag again" ++ [10; 10] ++ str "m" in
  extras_guard raw = true /\
  git_extras raw = [(str "mergetag", str "object 1" ++ [10] ++ str "type commit" ++ [10; 10] ++ str "sig" ++ [10]);
                    (str "x-empty", [10]); (str "mergetag", str "again" ++ [10])].
Proof. vm_compute. split; reflexivity. Qed.

(* ---- signatures: Commit.Signature / Commit.SignatureSHA256 are git's
   signature buffers of a SHA-1 / SHA-256 repository (statement and proof
   shared with C03: Proofs/C03CommitSig, C03CommitSig256) ---- *)
Theorem C02_commit_sigs_match_git_partial : forall raw c,
  decode_commit raw = Ok c -> commit_sig_guard raw = true -> hdr_terminated raw = true ->
  c_sig c = snd (fst (git_commit_payload_fmt SHA1 raw)) /\
  c_sig256 c = snd (fst (git_commit_payload_fmt SHA256 raw)).
Proof. intros raw c Hd Hg Ht. split; [exact (sig_eq_pbsh _ _ Hd Hg Ht)|exact (sig256_eq_pbsh _ _ Hd Hg Ht)]. Qed.
Print Assumptions C02_commit_sigs_match_git_partial.

(* ---- the commit-level statement in one piece: when ALL boolean clauses hold,
   EVERY decoded field of the commit — tree, parents, author and committer
   identities with dates and zones, encoding, extra headers, both signatures,
   message — is the one git itself reports / extracts ---- *)
Definition commit_all_clauses (raw : bytes) : bool :=
  let a := commit_agree_of raw in
  ca_parents a && ca_position a && ca_aperson a && ca_adate a && ca_cperson a && ca_cdate a && ca_encoding a &&
  extras_guard raw && commit_sig_guard raw && hdr_terminated raw.

Theorem C02_commit_all_fields_match_git_partial : forall raw c g,
  decode_commit raw = Ok c -> git_log_fields raw = GOk g -> commit_all_clauses raw = true ->
  hex_encode (c_tree c) = gl_tree g /\
  map hex_encode (c_parents c) = gl_parents g /\
  (id_name (c_author c), id_email (c_author c), go_date (c_author c)) = (gl_an g, gl_ae g, gl_ad g) /\
  (id_name (c_committer c), id_email (c_committer c), go_date (c_committer c)) = (gl_cn g, gl_ce g, gl_cd g) /\
  enc_agrees (c_enc c) (gl_enc g) /\
  c_extra c = map extra_norm (git_extras raw) /\
  c_sig c = snd (fst (git_commit_payload_fmt SHA1 raw)) /\
  c_sig256 c = snd (fst (git_commit_payload_fmt SHA256 raw)) /\
  (forall m, gl_body g = Some m -> c_msg c = m).
Proof.
  intros raw c g Hd Hg H. unfold commit_all_clauses in H.
  repeat (apply andb_true_iff in H; destruct H as [H ?]).
  destruct (commit_fields_match_git raw c g Hd Hg) as [F1 [F2 [F3 [F4 [F5 F6]]]]].
  repeat split; auto.
  - now apply extras_match_git.
  - now apply sig_eq_pbsh.
  - now apply sig256_eq_pbsh.
Qed.
Print Assumptions C02_commit_all_fields_match_git_partial.

(* non-vacuity: a commit with a parent, a '>' in the author name, an encoding,
   a multi-line mergetag, both signature headers and a later extra header
   passes all clauses *)
Example C02_commit_all_clauses_nonvacuous :
  let raw := str "tree 4b825dc642cb6eb9a060e54bf8d69288fbee4904" ++ [10] ++
             str "parent 1111111111111111111111111111111111111111" ++ [10] ++
             str "author a>b <x@y> 5 +0100" ++ [10] ++ str "committer C <c@d> 7 -0130" ++ [10] ++
             str "encoding latin1" ++ [10] ++ str "mergetag object 1" ++ [10] ++ str " type commit" ++ [10] ++
             str "gpgsig -----BEGIN PGP SIGNATURE-----" ++ [10] ++ str " x" ++ [10] ++
             str "gpgsig-sha256 -----BEGIN PGP SIGNATURE-----" ++ [10] ++ str " y" ++ [10] ++
             str "x-k v" ++ [10; 10] ++ str "msg" ++ [10] in
  commit_all_clauses raw = true /\
  exists c g, decode_commit raw = Ok c /\ git_log_fields raw = GOk g /\
              List.length (c_parents c) = 1%nat /\ List.length (c_extra c) = 2%nat /\ c_sig c <> [] /\ c_sig256 c <> [].
Proof. vm_compute. split; [reflexivity|]. do 2 eexists. repeat split; discriminate. Qed.

(* ---- PARTIAL, tag level (git = `git for-each-ref`: tag.c parse_tag_buffer,
   ref-filter.c find_wholine / copy_name / copy_email / grab_date /
   find_subpos): for EVERY stored tag that go-git decodes and git parses,
   object, type, tag name and contents (message + signature) are git's; the
   tagger's name and e-mail under ta_position (a "tagger " line only as the
   fourth line) and ta_person; its date and zone under ta_date in addition *)
Theorem C02_tag_fields_match_git_partial : forall raw t g,
  decode_tag raw = Ok t -> git_tag_fields raw = GOk g ->
  let a := tag_agree_of raw in
  hex_encode (t_target t) = gt_object g /\ t_type t = gt_type g /\ t_name t = gt_tag g /\
  (ta_position a = true -> ta_person a = true ->
     id_name (t_tagger t) = gt_tn g /\
     (gt_te g = LT :: id_email (t_tagger t) ++ [GT] \/ (gt_te g = [] /\ id_email (t_tagger t) = []))) /\
  (ta_position a = true -> ta_person a = true -> ta_date a = true ->
     gt_td g = Some (go_date_t (t_tagger t))) /\
  drop_while (N.eqb LF) (t_msg t ++ t_sig t) = gt_contents g.
Proof. exact tag_fields_match_git. Qed.
Print Assumptions C02_tag_fields_match_git_partial.

(* the full statement (no clauses) is false: tagger behind another header *)
Theorem C02_tag_fields_match_git_refuted : exists raw t g,
  decode_tag raw = Ok t /\ git_tag_fields raw = GOk g /\ id_name (t_tagger t) <> gt_tn g.
Proof.
  exists (str "object 4b825dc642cb6eb9a060e54bf8d69288fbee4904" ++ [10] ++ str "type tree" ++ [10] ++ str "tag v1" ++ [10] ++
          str "x-k v" ++ [10] ++ str "tagger G <g@h> 3 +0200" ++ [10; 10] ++ str "m" ++ [10]).
  do 2 eexists. split; [vm_compute; reflexivity|]. split; [vm_compute; reflexivity|]. vm_compute. discriminate.
Qed.
Print Assumptions C02_tag_fields_match_git_refuted.

Example C02_tag_clauses_nonvacuous :
  let raw := str "object 4b825dc642cb6eb9a060e54bf8d69288fbee4904" ++ [10] ++ str "type commit" ++ [10] ++ str "tag v1.0" ++ [10] ++
             str "tagger T U <t@u> 1234567890 -0330" ++ [10] ++ str "gpgsig-sha256 x" ++ [10; 10; 10] ++ str "notes" ++ [10] in
  let a := tag_agree_of raw in
  ta_position a = true /\ ta_person a = true /\ ta_date a = true /\
  exists g, git_tag_fields raw = GOk g /\ gt_tn g = str "T U" /\ gt_td g = Some (str "1234567890 -0330") /\ gt_contents g = str "notes" ++ [10].
Proof. vm_compute. repeat split. eexists. repeat split. Qed.

(* non-vacuity: a merge commit with two parents, a non-default encoding, a
   multi-line mergetag, an extra header with an empty line in its value, and
   both signatures is well-formed *)
Example C02_wf_example :
  let i := mk_ident (str "A U Thor") (str "a@example.org") 1234567890 (-330) in
  let c := mk_commit (repeat 17 20) [repeat 1 20; repeat 255 32] i (mk_ident [] (str "x") 0 5999)
             (str "ISO-8859-1")
             [(str "mergetag", str "object 1" ++ [10] ++ str "type commit" ++ [10; 10] ++ str "sig");
              (str "x-flag", [])]
             (str "-----BEGIN PGP SIGNATURE-----" ++ [10; 10] ++ str "abc" ++ [10] ++ str "-----END PGP SIGNATURE-----" ++ [10])
             (str "-----BEGIN SSH SIGNATURE-----" ++ [10])
             (str "subject" ++ [10; 10] ++ str "gpgsig body" ++ [10]) in
  wf_commit c = true /\ decode_commit (encode_commit c true) = Ok c.
Proof. vm_compute. split; reflexivity. Qed.

Example C02_wf_tag_example :
  let t := mk_tag (repeat 9 20) (str "commit") (str "v1.0 rc") (mk_ident (str "T") (str "t@x") 7 (-90))
             (str "-----BEGIN PGP SIGNATURE-----" ++ [10] ++ str "zz" ++ [10])
             (str "release" ++ [10; 10] ++ str "notes" ++ [10])
             (str "-----BEGIN SSH SIGNATURE-----" ++ [10] ++ str "abc" ++ [10] ++ str "-----END SSH SIGNATURE-----" ++ [10]) in
  wf_tag t = true /\ decode_tag (encode_tag t true) = Ok t.
Proof. vm_compute. split; reflexivity. Qed.
