(* Properties/C43.v — History traversal visits each reachable commit exactly once.
   Statements only; proofs in Proofs/Worklist.v (one invariant proof for every
   container discipline), Proofs/C43.v, Proofs/C43Heap.v, Proofs/C43Limit.v.

   g ranges over ALL finite commit graphs (topologically numbered, every
   parent present), with ARBITRARY committer timestamps; s over its commits.
   [walk_fuel g] is the fuel the entry points use: the theorems say in
   particular that it never runs out. *)
From Coq Require Import List Arith ZArith Bool Permutation.
From GoGit Require Import Base.Out Spec.Dag Model.CommitWalk Model.LogWalk
  Proofs.Worklist Proofs.C43 Proofs.C43Heap Proofs.C43Limit Proofs.C43Bfs Proofs.C43HeapOrd.
Import ListNotations.

(* "every yielded commit except the start was discovered through a commit yielded before it" *)
Definition children_first (g : dag) (s : node) (l : list node) : Prop :=
  forall l1 x l2, l = l1 ++ x :: l2 -> x = s \/ exists y, In y l1 /\ In x (parents g y).

(* LogOrderDefault / LogOrderDFS (commitPreIterator), LogOrderDFSPost (commitPostIterator),
   LogOrderBSF (bfsCommitIterator), LogOrderCommitterTime (commitIteratorByCTime + gods heap):
   the walk ends normally, yields a permutation of the commits reachable from s — each exactly
   once — and respects the discovery order. *)
Theorem C43_walk_perm : forall g s order, order <= 4 ->
  dag_ok g = true -> dag_closed g = true -> s < nnodes g ->
  exists l, walk_by_order order g nostop (walk_fuel g) s [] = (l, WEof) /\
            Permutation l (ancs g s) /\ children_first g s l.
Proof. exact walk_perm. Qed.
Print Assumptions C43_walk_perm.

Theorem C43_pre_perm : forall g s, dag_ok g = true -> dag_closed g = true -> s < nnodes g ->
  exists l, pre_walk g nostop (walk_fuel g) s [] = (l, WEof) /\ NoDup l /\ (forall x, In x l <-> reach g s x).
Proof. exact pre_perm. Qed.
Print Assumptions C43_pre_perm.

Theorem C43_post_perm : forall g s, dag_ok g = true -> dag_closed g = true -> s < nnodes g ->
  exists l, post_walk g nostop (walk_fuel g) s [] = (l, WEof) /\ NoDup l /\ (forall x, In x l <-> reach g s x).
Proof. exact post_perm. Qed.
Print Assumptions C43_post_perm.

Theorem C43_bfs_perm : forall g s, dag_ok g = true -> dag_closed g = true -> s < nnodes g ->
  exists l, bfs_walk g nostop (walk_fuel g) s [] = (l, WEof) /\ NoDup l /\ (forall x, In x l <-> reach g s x).
Proof. exact bfs_perm. Qed.
Print Assumptions C43_bfs_perm.

Theorem C43_ctime_perm : forall g s, dag_ok g = true -> dag_closed g = true -> s < nnodes g ->
  exists l, ctime_walk g nostop (walk_fuel g) s [] = (l, WEof) /\ NoDup l /\ (forall x, In x l <-> reach g s x).
Proof. exact ctime_perm. Qed.
Print Assumptions C43_ctime_perm.

(* LogOrderBSF is a level order: label the start 0 and every other commit 1 + the label of the
   earlier-yielded commit whose parent list it was taken from; labels never decrease along the
   output (for every graph, present or missing parents, any fuel) *)
Theorem C43_bfs_level_order : forall g s fuel,
  exists ll, fst (bfs_walk g nostop fuel s []) = map fst ll /\ level_ordered g s ll.
Proof. exact bfs_level_order. Qed.
Print Assumptions C43_bfs_level_order.

(* LogOrderCommitterTime is NOT a sort by committer time; the contract it meets: every yielded commit
   is at least as recent as every pending one — every not yet yielded (and not ignored) parent of
   an earlier yielded commit.  Rests on the proof that the gods binary heap with go-git's
   comparator is a max-heap on committer time (bubbleUp / bubbleDown restore the heap order). *)
Theorem C43_ctime_newest_first : forall g stop (I : list node) (s : node) fuel,
  (forall x : node, In x [s] -> x < nnodes g) -> dag_closed g = true ->
  newest_first g I (fst (ctime_walk g stop fuel s I)).
Proof. exact ctime_walk_newest_first. Qed.
Print Assumptions C43_ctime_newest_first.

(* LogOrderDFSPostFirstParent: exactly the first-parent chain, each commit once *)
Theorem C43_first_parent_perm : forall g s, dag_closed g = true -> s < nnodes g ->
  exists l, postfp_walk g nostop (walk_fuel g) s [] = (l, WEof) /\ NoDup l /\ (forall x, In x l <-> fp_reach g s x).
Proof. exact postfp_perm. Qed.
Print Assumptions C43_first_parent_perm.

(* Since / Until / To: pulling lazily from the walker and stopping it at the tail commit selects
   exactly [limit_list] of the complete walk: the commits inside the time window, in walk order,
   up to and including the first one that is the tail *)
Theorem C43_limit : forall g order (from : node) since until tail,
  dag_closed g = true -> from < nnodes g ->
  fst (log_from g order from since until tail)
  = limit_list g since until tail (fst (walk_by_order order g nostop (walk_fuel g) from [])).
Proof. exact log_limit. Qed.
Print Assumptions C43_limit.

(* The "post-order" walker is NOT a topological order (the name suggests parents after all
   children): on the diamond 3=[1,2], 1=[0], 2=[0] it yields 0 before its child 1.  The contract it
   does meet is [children_first] (C43_walk_perm). *)
Theorem C43_post_topological_refuted :
  exists g s l, dag_ok g = true /\ dag_closed g = true /\
    post_walk g nostop (walk_fuel g) s [] = (l, WEof) /\
    exists l1 p l2 c l3, l = l1 ++ p :: l2 ++ c :: l3 /\ In p (parents g c).
Proof.
  exists (mkDag [[]; [0]; [0]; [1; 2]] [0; 0; 0; 0]%Z), 3, [3; 2; 0; 1].
  repeat split; try reflexivity.
  exists [3; 2], 0, [], 1, []. split; [reflexivity | simpl; auto].
Qed.
Print Assumptions C43_post_topological_refuted.

(* Log(All) (NewCommitAllIter): FULL statement "every commit reachable from a listed tip is yielded"
   is false of the code as it is: addReference stops at the first commit already listed. *)
Theorem C43_all_refuted :
  exists g order tips l x, dag_ok g = true /\ dag_closed g = true /\
    all_walk order g [] tips = Some l /\ (exists t, In t tips /\ reach g t x) /\ ~ In x l.
Proof.
  exists (mkDag [[]; [0]; [0]; [1; 2]] [0; 10; 20; 30]%Z), 3, [1; 3], [3; 1; 0], 2.
  split; [reflexivity|]. split; [reflexivity|]. split; [vm_compute; reflexivity|].
  split.
  - exists 3. split; [simpl; auto|]. eapply reach_step; [|constructor]. simpl. auto.
  - simpl. intros [H|[H|[H|[]]]]; discriminate.
Qed.
Print Assumptions C43_all_refuted.

(* ... and the strongest statement that holds: with a single tip Log(All) is the plain walk *)
Theorem C43_all_partial : forall g order t, order <= 4 ->
  dag_ok g = true -> dag_closed g = true -> t < nnodes g ->
  exists l, all_walk order g [] [t] = Some l /\ Permutation l (ancs g t).
Proof. exact all_single. Qed.
Print Assumptions C43_all_partial.

(* non-vacuity *)
Example C43_criss_cross :
  let g := mkDag [[]; [0]; [0]; [1; 2]; [2; 1]; [3; 4]] [5; 4; 3; 2; 1; 0]%Z in
  dag_ok g = true /\ dag_closed g = true /\
  fst (pre_walk g nostop (walk_fuel g) 5 []) = [5; 3; 1; 0; 2; 4] /\
  fst (post_walk g nostop (walk_fuel g) 5 []) = [5; 4; 1; 0; 2; 3] /\
  fst (bfs_walk g nostop (walk_fuel g) 5 []) = [5; 3; 4; 1; 2; 0] /\
  fst (ctime_walk g nostop (walk_fuel g) 5 []) = [5; 3; 1; 0; 2; 4] /\
  fst (postfp_walk g nostop (walk_fuel g) 5 []) = [5; 3; 1; 0].
Proof. vm_compute. repeat split. Qed.
