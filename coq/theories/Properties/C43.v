(* Properties/C43.v — History traversal visits each reachable commit exactly once. *)
From Coq Require Import List Arith ZArith Bool.
From GoGit Require Import Base.Out Spec.Dag Model.CommitWalk Model.LogWalk.
Import ListNotations.

Theorem C43_spec_reach : forall g c a, dag_ok g = true -> dag_closed g = true -> c < nnodes g ->
  (In a (ancs g c) <-> reach g c a).
Proof. exact ancs_spec. Qed.
Print Assumptions C43_spec_reach.
