(* Properties/C08.v — placeholder while the proofs are being developed *)
From GoGit Require Import Base.Out Model.PackBytes Model.Idx Model.PackParse.
