(* Properties/C08.v — Packs git writes are indexed exactly as git indexes them.
   Only statements here; proofs live in Proofs/C08.v, C09.v, C10Create.v, C10Main.v.
   Model: Model/PackParse.v (Scanner + Parser, after the `fix:` of findings/C08.json)
   and Model/Idx.v (idxfile.Writer / Encode).  S: Spec/IdxFormat.v, git's idx v2
   layout (validated against `git index-pack` on every case of the suite). *)
From Coq Require Import List NArith ZArith Bool String Sorting.Permutation.
From GoGit Require Import Base.Out Model.PackBytes Model.Idx Model.PackParse Spec.IdxFormat
  Proofs.C10Order Proofs.C10Layout Proofs.C10Main Proofs.C09 Proofs.C08 Proofs.C08Unique.
Import ListNotations.
Local Open Scope N_scope.

(* C08_resolution: the objects Parser.Parse announces are exactly what the declarative
   resolution relation assigns to the pack's entries, whatever the order of the walk:
   (sound) every announced object satisfies [Resolves] — with external (thin-pack) bases
   taken from the store — and (complete) every entry of the pack has an announced object. *)
Theorem C08_resolution_sound : forall hs Hsz inflate crc32 ext pack objs sum,
  parse hs Hsz inflate crc32 ext pack = Some (objs, sum) ->
  exists es, scan_pack hs Hsz inflate crc32 pack = Some (es, sum) /\
  forall o, In o objs ->
    Resolves hs Hsz es ext (r_off o) (r_type o) (r_content o) /\
    r_id o = obj_id hs Hsz (r_type o) (blen (r_content o)) (r_content o).
Proof.
  intros hs Hsz inflate crc32 ext pack objs sum E.
  destruct (parse_sound hs Hsz inflate crc32 ext pack objs sum E) as (es & Es & Ho).
  exists es. split; [exact Es|]. intros o Hin. destruct (Ho o Hin) as (A & _ & _ & D). split; assumption.
Qed.
Print Assumptions C08_resolution_sound.

Theorem C08_resolution_complete : forall hs Hsz ext es s,
  resolve hs Hsz ext es = Some s ->
  forall e, In e es -> exists o, In o (p_oi s) /\ r_off o = oh_off e.
Proof. exact resolve_complete. Qed.
Print Assumptions C08_resolution_complete.

(* C08_resolution_unique: the relation is a function of the pack — the offsets the scanner
   announces are distinct, and if the store files objects under their own ids and no two objects of
   this pack and store share an id ([no_collision], the assumption every git implementation makes),
   an offset resolves to at most one (type, content).  With sound + complete: the announced objects
   are THE resolution of the pack, in whatever order the walk produced them. *)
Theorem C08_resolution_unique : forall hs Hsz inflate crc32 ext pack es sum,
  scan_pack hs Hsz inflate crc32 pack = Some (es, sum) ->
  NoDup (map oh_off es) /\
  (store_ok hs Hsz ext -> no_collision hs Hsz es ext ->
   forall off t c t' c', Resolves hs Hsz es ext off t c -> Resolves hs Hsz es ext off t' c' -> t = t' /\ c = c').
Proof.
  intros hs Hsz inflate crc32 ext pack es sum E.
  pose proof (scan_pack_offsets hs Hsz inflate crc32 pack es sum E) as Hnd.
  split; [exact Hnd|]. intros Hst Hnc off t c t' c' R R'.
  exact (resolves_functional hs Hsz es ext Hnd Hst Hnc off t c R t' c' R').
Qed.
Print Assumptions C08_resolution_unique.

(* C08_idx_is_git: for every list of (id, offset, crc) the observer receives (ids of the format's
   size, 64-bit offsets, 32-bit CRCs, fewer than 2^31 objects), Writer.createIndex + Encode write
   git's idx v2 layout of the table — fanout counts, ids, CRCs, 31-bit offsets or indices into the
   64-bit table, pack checksum, digest *)
Theorem C08_idx_is_git : forall hs Hsz es pack,
  wf_entries hs es = true ->
  exists m, create_index hs (writer_add es [] []) pack = Ok m /\
            encode hs Hsz m = Ok (idx_file (Hsz hs) (table es) pack).
Proof. exact written_idx_is_git_layout. Qed.
Print Assumptions C08_idx_is_git.

(* C08_idx_canonical: the table, hence the idx bytes, do not depend on the order in which the
   walk announced the objects *)
Theorem C08_idx_canonical : forall l1 l2,
  distinct_hashes l1 -> Permutation l1 l2 -> sort_entries l1 = sort_entries l2.
Proof. exact sort_entries_perm_eq. Qed.
Print Assumptions C08_idx_canonical.

(* ---- non-vacuity ---- *)
Example C08_wf_example :
  wf_entries 20 [E "aa00000000000000000000000000000000000001" 12 7;
                 E "0100000000000000000000000000000000000000" 2147483648 9;
                 E "aa00000000000000000000000000000000000002" 4294967296 8] = true.
Proof. vm_compute. reflexivity. Qed.

Example C08_example_parse :
  render (c08_parse 20
    "5041434b00000002000000033b789ccb48cdc9c95728484ccee60200192703de6a14789ce31698c0cd9a9b5f94ca05000bfa027976fce672dc7cc326631c266fd6d879e8ba786bbe80789c13109c20c0a80800034e00e47466a0871b57794ddf9ead793ed60ef4e7c149aa"
    [Z3 13 "68656c6c6f207061636b0a" 19; Z3 34 "0b10900b056d6f72650a" 18; Z3 73 "101190100121" 14] [])
  = "( ok x7466a0871b57794ddf9ead793ed60ef4e7c149aa ( ( 12 blob 11 xa100066be52779fa28f31d8ef9860baf1ae87acf 1925455504 ) ( 32 blob 16 xfce672dc7cc326631c266fd6d879e8ba786bbe80 205891337 ) ( 52 blob 17 x24ac75e23aee11060f476420464e1ba986fbc2a2 714845278 ) ) x91f659dddb627cc332439ab5086ca056ad4e130b x97e71925cbeefbb5db0facf556c20aae0f136842 )"%string.
Proof. vm_compute. reflexivity. Qed.
