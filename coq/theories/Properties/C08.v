(* Properties/C08.v — Packs git writes are indexed exactly as git indexes them.
   Only statements here; proofs live in Proofs/C08.v, C09.v, C10Create.v, C10Main.v.
   Model: Model/PackParse.v (Scanner + Parser, after the `fix:` of findings/C08.json)
   and Model/Idx.v (idxfile.Writer / Encode).  S: Spec/IdxFormat.v, git's idx v2
   layout (validated against `git index-pack` on every case of the suite). *)
From Coq Require Import List NArith ZArith Bool String Sorting.Permutation.
From GoGit Require Import Base.Out Model.PackBytes Model.Idx Model.PackParse Spec.IdxFormat
  Proofs.C10Order Proofs.C10Layout Proofs.C10Main Proofs.C09 Proofs.C08 Proofs.C08Unique.
Import ListNotations.
Local Open Scope N_scope.

(* C08_resolution: the objects Parser.Parse announces are exactly what the declarative
   resolution relation assigns to the pack's entries, whatever the order of the walk:
   (sound) every announced object satisfies [Resolves] — with external (thin-pack) bases
   taken from the store — and (complete) every entry of the pack has an announced object. *)
Theorem C08_resolution_sound : forall hs Hsz inflate crc32 ext pack objs sum,
  parse hs Hsz inflate crc32 ext pack = Some (objs, sum) ->
  exists es, scan_pack hs Hsz inflate crc32 pack = Some (es, sum) /\
  forall o, In o objs ->
    Resolves hs Hsz es ext (r_off o) (r_type o) (r_content o) (r_depth o) /\
    r_id o = obj_id hs Hsz (r_type o) (blen (r_content o)) (r_content o).
Proof.
  intros hs Hsz inflate crc32 ext pack objs sum E.
  destruct (parse_sound hs Hsz inflate crc32 ext pack objs sum E) as (es & Es & Ho).
  exists es. split; [exact Es|]. intros o Hin. destruct (Ho o Hin) as (A & _ & _ & D). split; assumption.
Qed.
Print Assumptions C08_resolution_sound.

Theorem C08_resolution_complete : forall hs Hsz ext es s,
  resolve hs Hsz ext es = Some s ->
  forall e, In e es -> exists o, In o (p_oi s) /\ r_off o = oh_off e.
Proof. exact resolve_complete. Qed.
Print Assumptions C08_resolution_complete.

(* C08_resolution_unique: the relation is a function of the pack — the offsets the scanner
   announces are distinct, and if the store files objects under their own ids and no two objects of
   this pack and store share an id ([no_collision], the assumption every git implementation makes),
   an offset resolves to at most one (type, content).  With sound + complete: the announced objects
   are THE resolution of the pack, in whatever order the walk produced them. *)
Theorem C08_resolution_unique : forall hs Hsz inflate crc32 ext pack es sum,
  scan_pack hs Hsz inflate crc32 pack = Some (es, sum) ->
  NoDup (map oh_off es) /\
  (store_ok hs Hsz ext -> no_collision hs Hsz es ext ->
   forall off t c d t' c' d', Resolves hs Hsz es ext off t c d -> Resolves hs Hsz es ext off t' c' d' -> t = t' /\ c = c').
Proof.
  intros hs Hsz inflate crc32 ext pack es sum E.
  pose proof (scan_pack_offsets hs Hsz inflate crc32 pack es sum E) as Hnd.
  split; [exact Hnd|]. intros Hst Hnc off t c d t' c' d' R R'.
  exact (resolves_functional hs Hsz es ext Hnd Hst Hnc off t c d R t' c' d' R').
Qed.
Print Assumptions C08_resolution_unique.

(* C08_depth_boundary: the chain-depth rule at its exact boundary.  The limit is the constant
   regenerated from the source (maxDeltaChainDepth = 4095, git's own --depth maximum).
   (rule)     checkDeltaChainDepth, on the uncached and on the cached path alike, takes a delta whose
              parent has depth pd iff pd + 1 <= maxDeltaChainDepth;
   (walk)     resolving a chain of n links on a whole object link by link succeeds iff n <= maxDeltaChainDepth
              ([chain_walk], the model expression of the suite's 4094/4095/4096-link packs);
   (link)     so the link completing a chain of exactly maxDeltaChainDepth is taken — its object gets
              that depth — and the link after it is refused;
   (accepted) in an accepted pack every object's [r_depth] is the number of links of its chain
              ([Resolves] counts them) and is at most maxDeltaChainDepth;
   (rejected) a pack holding a chain of more than maxDeltaChainDepth OFS links is never accepted,
              for any chain and any order of the walk (the scanner's offsets are distinct, so the chain
              under an offset has one length). *)
Theorem C08_depth_boundary :
  MAX_DEPTH = 4095 /\
  (forall pd, chain_depth pd = if pd + 1 <=? MAX_DEPTH then Some (pd + 1) else None) /\
  (forall n, chain_walk n 0 = if N.of_nat n <=? MAX_DEPTH then Some (N.of_nat n) else None) /\
  (forall hs Hsz ext s d p, oh_type d = TOfs -> by_offset s (oh_base_off d) = Some p ->
     (MAX_DEPTH < r_depth p + 1 -> process_delta hs Hsz ext s d = None) /\
     (r_depth p + 1 <= MAX_DEPTH -> oh_data d <> [] ->
      forall tsz out, apply_delta (r_content p) (oh_data d) = Some (tsz, out) ->
      exists s' o, process_delta hs Hsz ext s d = Some s' /\ by_offset s' (oh_off d) = Some o /\
                   r_depth o = r_depth p + 1 /\ r_content o = out)) /\
  (forall hs Hsz inflate crc32 ext pack objs sum,
     parse hs Hsz inflate crc32 ext pack = Some (objs, sum) ->
     exists es, scan_pack hs Hsz inflate crc32 pack = Some (es, sum) /\
     forall o, In o objs -> Resolves hs Hsz es ext (r_off o) (r_type o) (r_content o) (r_depth o) /\
                            r_depth o <= MAX_DEPTH) /\
  (forall hs Hsz inflate crc32 ext pack es sum off n,
     scan_pack hs Hsz inflate crc32 pack = Some (es, sum) ->
     OfsChain es off n -> MAX_DEPTH < n ->
     parse hs Hsz inflate crc32 ext pack = None).
Proof.
  split; [reflexivity|]. split; [intros pd; exact (chain_depth_spec 0%nat (fun _ b => b) pd)|].
  split; [exact chain_walk_spec|].
  split; [intros hs Hsz ext s d p; exact (process_delta_ofs_depth hs Hsz (fun _ => None) (fun _ => 0) ext s d p)|].
  split.
  - intros hs Hsz inflate crc32 ext pack objs sum E.
    destruct (parse_sound hs Hsz inflate crc32 ext pack objs sum E) as (es & Es & Ho).
    exists es. split; [exact Es|]. intros o Hin. destruct (Ho o Hin) as (_ & _ & B & D). split; assumption.
  - intros hs Hsz inflate crc32 ext pack es sum off n.
    exact (deep_chain_rejected hs Hsz inflate crc32 ext pack es sum off n).
Qed.
Print Assumptions C08_depth_boundary.

(* C08_idx_is_git: for every list of (id, offset, crc) the observer receives (ids of the format's
   size, 64-bit offsets, 32-bit CRCs, fewer than 2^31 objects), Writer.createIndex + Encode write
   git's idx v2 layout of the table — fanout counts, ids, CRCs, 31-bit offsets or indices into the
   64-bit table, pack checksum, digest *)
Theorem C08_idx_is_git : forall hs Hsz es pack,
  wf_entries hs es = true ->
  exists m, create_index hs (writer_add es [] []) pack = Ok m /\
            encode hs Hsz m = Ok (idx_file (Hsz hs) (table es) pack).
Proof. exact written_idx_is_git_layout. Qed.
Print Assumptions C08_idx_is_git.

(* C08_idx_canonical: the table, hence the idx bytes, do not depend on the order in which the
   walk announced the objects *)
Theorem C08_idx_canonical : forall l1 l2,
  distinct_hashes l1 -> Permutation l1 l2 -> sort_entries l1 = sort_entries l2.
Proof. exact sort_entries_perm_eq. Qed.
Print Assumptions C08_idx_canonical.

(* ---- non-vacuity ---- *)
Example C08_wf_example :
  wf_entries 20 [E "aa00000000000000000000000000000000000001" 12 7;
                 E "0100000000000000000000000000000000000000" 2147483648 9;
                 E "aa00000000000000000000000000000000000002" 4294967296 8] = true.
Proof. vm_compute. reflexivity. Qed.

Example C08_example_parse :
  render (c08_parse 20
    "5041434b00000002000000033b789ccb48cdc9c95728484ccee60200192703de6a14789ce31698c0cd9a9b5f94ca05000bfa027976fce672dc7cc326631c266fd6d879e8ba786bbe80789c13109c20c0a80800034e00e47466a0871b57794ddf9ead793ed60ef4e7c149aa"
    [Z3 13 "68656c6c6f207061636b0a" 19; Z3 34 "0b10900b056d6f72650a" 18; Z3 73 "101190100121" 14] [])
  = "( ok x7466a0871b57794ddf9ead793ed60ef4e7c149aa ( ( 12 blob 11 xa100066be52779fa28f31d8ef9860baf1ae87acf 1925455504 ) ( 32 blob 16 xfce672dc7cc326631c266fd6d879e8ba786bbe80 205891337 ) ( 52 blob 17 x24ac75e23aee11060f476420464e1ba986fbc2a2 714845278 ) ) x91f659dddb627cc332439ab5086ca056ad4e130b x97e71925cbeefbb5db0facf556c20aae0f136842 )"%string.
Proof. vm_compute. reflexivity. Qed.
