(* Properties/C22.v — Garbage collection never deletes reachable or staged
   objects.  Only statements here; proofs live in Proofs/C22.v.

   [live r h] (Spec/Reach.v): h is reachable from a hash reference, from a
   detached HEAD or from a (non-gitlink) index entry, through commit -> tree,
   parents (not below a shallow root), tree -> entries (gitlinks excluded),
   tag -> target.
   The model is the code AFTER the repair "fix: keep objects staged in the
   index when pruning and repacking" (objectWalker.walkIndex); before it, the
   statements below were false for a staged-only blob (findings/C22.json).

   wf_modes / wf_index are boolean well-formedness conditions on repository
   CONTENT: an entry with a file mode, and an index entry, name a blob. *)
From Coq Require Import List NArith ZArith Bool String.
From GoGit Require Import Base.Out Gen.C22 Model.Gc Spec.Reach Proofs.C22 Proofs.C22Fuel.
Import ListNotations.
Local Open Scope N_scope.

(* Whenever the walk succeeds its seen set covers every live object that
   exists, and what it records as missing is indeed not stored. *)
Theorem C22_walk_covers_live : forall fuel r st,
  wf_modes r = true -> wf_index r = true ->
  walk_all fuel r = Ok st ->
  (forall h, live r h -> In h st.(seen) \/ get r h = None) /\
  (forall x, In x st.(missing) -> has r x = false).
Proof. exact walk_all_live. Qed.
Print Assumptions C22_walk_covers_live.

(* Prune (handler DeleteObject, with or without age limit): every live
   object that was readable is readable afterwards, with the same content. *)
Theorem C22_prune_keeps_live : forall fuel r lim r',
  wf_modes r = true -> wf_index r = true ->
  prune fuel r lim = Ok r' ->
  forall h, live r h -> has r h = true -> has r' h = true /\ get r' h = get r h.
Proof. exact prune_keeps_live. Qed.
Print Assumptions C22_prune_keeps_live.

(* RepackObjects (with or without age limit for old packs), whatever name the
   encoder gives the new pack — also when a pack of that name is already on disk
   (PackWriter.save keeps it, `if h == nh { continue }` must not delete it).
   wf_names: content addressing, a pack's name determines its object set. *)
Theorem C22_repack_keeps_live : forall fuel r lim variant r',
  wf_modes r = true -> wf_index r = true -> wf_names r = true ->
  repack fuel r lim variant = Ok r' ->
  forall h, live r h -> has r h = true -> has r' h = true /\ get r' h = get r h.
Proof. exact repack_keeps_live. Qed.
Print Assumptions C22_repack_keeps_live.

(* Arbitrary HISTORIES of prune / repack rounds (any age limits, any encoder
   variants, the same name produced twice included), with new loose objects
   and newly staged blobs in between: at every point of the history, every
   object that is live and readable then is readable, with the same content, at
   the end.  A failed round changes nothing.
   op_ok: a staged object is a blob (boolean). *)
Theorem C22_history_keeps_live : forall a b r,
  wf_modes r = true /\ wf_index r = true /\ wf_names r = true ->
  forallb (op_ok r) (a ++ b) = true ->
  forall h, live (run_seq a r) h -> has (run_seq a r) h = true ->
  has (run_seq (a ++ b) r) h = true /\ get (run_seq (a ++ b) r) h = get (run_seq a r) h.
Proof. exact history_keeps_live. Qed.
Print Assumptions C22_history_keeps_live.

(* The fuel the model gives the walker (one unit per object id it can ever
   meet, plus one) always suffices: exhaustion is never reported, for every
   repository content, well-formed or not. *)
Theorem C22_walk_fuel_sufficient : forall r, walk_all (gc_fuel r) r <> Err EFuel.
Proof. exact walk_all_fuel. Qed.
Print Assumptions C22_walk_fuel_sufficient.

(* ---- non-vacuity ---- *)

(* blob 0 committed (tree 1, commit 2, branch -> 2), blob 3 staged only and
   loose, blob 4 dangling; blob 5 staged only and living in an old pack *)
Definition ex_repo : repo :=
  {| objs := [(0, OBlob); (1, OTree [(33188%Z, 0)]); (2, OCommit 1 []); (3, OBlob); (4, OBlob); (5, OBlob)];
     loose := [(0, true); (1, true); (2, true); (3, true); (4, true)];
     packs := [{| p_name := ([0; 5], 7); p_old := true; p_promisor := false; p_objs := [5; 0] |}];
     roots := [2]; shallow := []; index := [(false, 0); (false, 3); (false, 5)] |}.

Example C22_ex_wf : wf_modes ex_repo = true /\ wf_index ex_repo = true /\ wf_names ex_repo = true.
Proof. vm_compute. repeat split. Qed.

Example C22_ex_prune :
  c22_run [GPrune false] ex_repo
  = OList [OOk [OList (map ON [0; 1; 2; 3]); OList (map ON [0; 5])]].
Proof. vm_compute. reflexivity. Qed.

(* three repacks in a row: the second and the third produce the name of the pack
   the first one wrote; nothing is lost (blob 4 is dangling and loose) *)
Example C22_ex_repack_thrice :
  c22_run [GRepack false 0; GRepack false 0; GRepack false 0] ex_repo
  = OList [OOk [OList (map ON [4]); OList (map ON [0; 1; 2; 3; 5])];
           OOk [OList (map ON [4]); OList (map ON [0; 1; 2; 3; 5])];
           OOk [OList (map ON [4]); OList (map ON [0; 1; 2; 3; 5])]].
Proof. vm_compute. reflexivity. Qed.

Example C22_ex_same_name_twice :
  map p_name (packs (run_seq [GRepack false 0; GRepack false 0] ex_repo)) = [([0; 1; 2; 3; 5], 0)] /\
  map p_name (packs (run_seq [GRepack false 0] ex_repo)) = [([0; 1; 2; 3; 5], 0)].
Proof. vm_compute. split; reflexivity. Qed.

(* recorded observation: a tree entry of mode symlink reaches walkObjectTree's
   default branch ("unknown object") and aborts the whole operation — nothing
   is deleted, so this is not a violation of the property *)
Example C22_symlink_aborts :
  c22_run [GPrune false]
    {| objs := [(0, OBlob); (1, OTree [(40960%Z, 0)]); (2, OCommit 1 [])];
       loose := [(0, true); (1, true); (2, true)]; packs := []; roots := [2]; shallow := []; index := [] |}
  = OList [OErr "walk"].
Proof. vm_compute. reflexivity. Qed.
