(* Properties/C10.v — Pack index lookups agree across implementations and with a map.
   Only statements here; proofs live in Proofs/C10*.v.  [hs] is the object-id size,
   [Hsz] the digest (the theorems hold for every digest function). *)
From Coq Require Import List NArith ZArith Bool String.
From GoGit Require Import Base.Out Model.PackBytes Model.Idx Proofs.C10Basic.
Import ListNotations.
Local Open Scope N_scope.

(* ---- C10_reject: malformed files are rejected by Decoder.Decode ---- *)
Theorem C10_reject_magic : forall hs Hsz file,
  bytes_eqb (firstn 4 file) IDX_MAGIC = false -> decode hs Hsz file = Err EReject.
Proof. exact decode_bad_magic. Qed.
Print Assumptions C10_reject_magic.

Theorem C10_reject_version : forall hs Hsz file,
  (get32 (firstn 4 (skipn 4 file)) =? IDX_VERSION) = false -> decode hs Hsz file = Err EReject.
Proof. exact decode_bad_version. Qed.
Print Assumptions C10_reject_version.

(* anything Decode accepts has a 256-entry non-decreasing fanout table ... *)
Theorem C10_reject_fanout : forall hs Hsz file m,
  decode hs Hsz file = Ok m ->
  List.length (m_fanout m) = NFANOUT /\
  forall a b pre post, m_fanout m = pre ++ a :: b :: post -> a <= b.
Proof. exact decode_fanout_monotone. Qed.
Print Assumptions C10_reject_fanout.

(* ... and a length inside git's [min,max] for its object count (overflow-checked leaves from Gen) *)
Theorem C10_reject_size : forall hs Hsz file m,
  decode hs Hsz file = Ok m -> size_ok hs (last (m_fanout m) 0) (blen file) = true.
Proof. exact decode_size_ok. Qed.
Print Assumptions C10_reject_size.

(* ---- C10_o64_range: a 64-bit offset is answered from inside the table or not at all ---- *)
Theorem C10_o64_range_memory : forall m b i o,
  mem_get_offset m b i = Ok o ->
  let ofs := get32 (slice (b_off32 b) (4 * i) 4) in
  (N.land ofs O64MASK = 0 /\ o = ofs) \/
  (N.land ofs O64MASK <> 0 /\ 8 * N.ldiff ofs O64MASK + 8 <= blen (m_off64 m) /\
   o = get64 (slice (m_off64 m) (8 * N.ldiff ofs O64MASK) 8)).
Proof. exact mem_get_offset_in_range. Qed.
Print Assumptions C10_o64_range_memory.

Theorem C10_o64_range_lazy : forall s pos o,
  lazy_offset s pos = Ok o ->
  exists b, read_at (l_file s) (l_off32 s + pos * L_OFF32) L_OFF32 = Some b /\
  ((N.land (get32 b) L_MASK = 0 /\ o = get32 b) \/
   (N.land (get32 b) L_MASK <> 0 /\ N.ldiff (get32 b) L_MASK < l_count64 s /\
    exists b64, read_at (l_file s) (l_off64 s + N.ldiff (get32 b) L_MASK * L_OFF64) L_OFF64 = Some b64 /\ o = get64 b64)).
Proof. exact lazy_offset_in_range. Qed.
Print Assumptions C10_o64_range_lazy.

Theorem C10_o64_range_mmap : forall s pos o,
  scan_offset s pos = Ok o ->
  let start := s_off32 s + pos * S_OFF32 in
  start + S_OFF32 <= blen (s_idx s) /\
  let off32 := get32 (slice (s_idx s) start S_OFF32) in
  ((N.land off32 S_MASK = 0 /\ o = off32) \/
   (N.land off32 S_MASK <> 0 /\ s_off64 s + N.ldiff off32 S_MASK * S_OFF64 + S_OFF64 <= s_trailer s)).
Proof. exact scan_offset_in_range. Qed.
Print Assumptions C10_o64_range_mmap.

(* PackScanner (after the fix): the tables announced by the object count fit before the trailer *)
Theorem C10_mmap_count_fits : forall hs idx rev s,
  scan_load hs idx rev = Ok s ->
  s_off64 s <= s_trailer s /\ s_trailer s + 2 * N.of_nat hs = blen idx /\ S_IDXMIN <= blen idx.
Proof. exact scan_load_fits. Qed.
Print Assumptions C10_mmap_count_fits.
