(* Properties/C10.v — Pack index lookups agree across implementations and with a map.
   Only statements here; proofs live in Proofs/C10*.v.  Model: Model/Idx.v (after the
   three `fix:` commits of findings/C10.json).  [hs] is the object-id size, [H]/[Hsz]
   the digest: the theorems hold for every digest function.
   S: Spec/IdxFormat.v — git's idx v2 layout [idx_file] of the table sorted by id, and the
   plain map [lookup].  [table es] = what idxfile.Writer keeps of the objects [es] it is
   given (first occurrence of every non-zero id), sorted by id. *)
From Coq Require Import List NArith ZArith Bool String.
From GoGit Require Import Base.Out Base.GoInt Model.PackBytes Model.Idx Spec.IdxFormat
  Proofs.C10Basic Proofs.C10Order Proofs.C10Table Proofs.C10Layout Proofs.C10Lazy Proofs.C10Main
  Proofs.C10Decode Proofs.C10Memory Proofs.C10Mmap Proofs.C10Rev Proofs.C10MemHash
  Proofs.C10MmapHash Proofs.C10Prefix.
Import ListNotations.
Local Open Scope N_scope.

(* ---- the written index is git's layout (C08_idx_is_git restated: C10_roundtrip, encode half) ---- *)
Theorem C10_written_idx_is_git_layout : forall hs Hsz es pack,
  wf_entries hs es = true ->
  exists m, create_index hs (writer_add es [] []) pack = Ok m /\
            encode hs Hsz m = Ok (idx_file (Hsz hs) (table es) pack).
Proof. exact written_idx_is_git_layout. Qed.
Print Assumptions C10_written_idx_is_git_layout.

(* the table is a map over the writer's input: an id is found iff it was given, with the
   offset and CRC of its first occurrence *)
Theorem C10_table_is_map : forall es h e,
  lookup (table es) h = Some e -> In e es /\ e_hash e = h.
Proof. exact table_lookup_in. Qed.
Print Assumptions C10_table_is_map.

(* ---- C10_lookup_is_map, LazyIndex: opened on the written idx (and a .rev with the v1 header),
   Contains / FindOffset / FindCRC32 / Entries / Count answer exactly like the map; offsets up to
   2^64-1 go through the 64-bit table; the binary search never runs out of the model's fuel ---- *)
Theorem C10_lazy_lookup_is_map : forall hs H es pack rev,
  wf_entries hs es = true -> List.length pack = hs ->
  (exists hf t, rev = ([82; 73; 68; 88] ++ be32 1 ++ hf) ++ t /\ List.length hf = 4%nat) ->
  let tbl := table es in
  let L := the_lazy hs H tbl pack rev in
  lazy_init hs (idx_file H tbl pack) rev pack = Ok L /\
  (forall h, wf_hash hs h ->
     lazy_contains hs L h = Ok (match lookup tbl h with Some _ => true | None => false end) /\
     lazy_find_offset hs L h = match lookup tbl h with Some e => Ok (to_i64 (e_off e)) | None => Err ENotFound end /\
     lazy_find_crc hs L h = match lookup tbl h with Some e => Ok (e_crc e) | None => Err ENotFound end) /\
  lazy_entries hs L = (tbl, None) /\
  l_count L = N.of_nat (List.length tbl).
Proof.
  intros hs H es pack rev W Hp Hr tbl L.
  pose proof (wf_entries_tbl hs es W) as WF.
  split; [exact (lazy_init_ok hs H tbl pack rev WF Hp Hr)|].
  split; [|split; [exact (lazy_entries_map hs H tbl pack rev WF Hp Hr)|reflexivity]].
  intros h Hh. split; [exact (lazy_contains_map hs H tbl pack rev WF Hp Hr h Hh)|].
  split; [exact (lazy_find_offset_map hs H tbl pack rev WF Hp Hr h Hh)|exact (lazy_find_crc_map hs H tbl pack rev WF Hp Hr h Hh)].
Qed.
Print Assumptions C10_lazy_lookup_is_map.

(* ---- C10_roundtrip: the index go-git writes decodes back.  Decoder.Decode accepts the written
   bytes and builds the bucketed MemoryIndex of the table ([spec_index]), provided the digest has
   the id size, hs <= 64 and — git's size bound, also enforced by go-git — not every offset needs
   the 64-bit table (a pack's first object is at offset 12) ---- *)
Theorem C10_roundtrip : forall hs Hsz es pack,
  wf_entries hs es = true -> List.length pack = hs -> (hs <= 64)%nat ->
  (forall b, List.length (Hsz hs b) = hs) ->
  (N.of_nat (List.length (table es)) = 0 \/ n_big (table es) + 1 <= N.of_nat (List.length (table es))) ->
  exists m bytes_, create_index hs (writer_add es [] []) pack = Ok m /\ encode hs Hsz m = Ok bytes_ /\
    decode hs Hsz bytes_ = Ok (spec_index (table es) pack (S_SUM (Hsz hs) (table es) pack)).
Proof.
  intros hs Hsz es pack W Hp Hh Hd Hb.
  destruct (written_idx_is_git_layout hs Hsz es pack W) as (m & Ec & Ee).
  exists m, (idx_file (Hsz hs) (table es) pack). split; [exact Ec|]. split; [exact Ee|].
  exact (decode_layout hs Hsz (table es) pack (wf_entries_tbl hs es W) Hp Hh Hd Hb).
Qed.
Print Assumptions C10_roundtrip.

(* ---- C10_lookup_is_map, MemoryIndex (as decoded): Contains / FindOffset (for every state of
   its offset cache) / FindCRC32 / Entries / EntriesByOffset / Count answer like the map ---- *)
Theorem C10_memory_lookup_is_map : forall hs (Hsz : nat -> bytes -> bytes) es pack sum,
  wf_entries hs es = true -> List.length pack = hs ->
  let tbl := table es in
  let m := spec_index tbl pack sum in
  (forall h, wf_hash hs h ->
     mem_contains hs m h = Ok (match lookup tbl h with Some _ => true | None => false end) /\
     (forall st, fst (mem_find_offset hs m st h)
                 = match lookup tbl h with Some e => Ok (to_i64 (e_off e)) | None => Err ENotFound end) /\
     mem_find_crc hs m h = match lookup tbl h with Some e => Ok (e_crc e) | None => Err ENotFound end) /\
  mem_entries hs m = (tbl, None) /\
  mem_by_offset hs m = (sort_by_off tbl, None) /\
  mem_count m = N.of_nat (List.length tbl).
Proof.
  intros hs Hsz es pack sum W Hp tbl m.
  pose proof (wf_entries_tbl hs es W) as WF.
  split; [|split; [exact (mem_entries_map hs Hsz tbl pack sum WF Hp)|
           split; [exact (mem_by_offset_map hs Hsz tbl pack sum WF Hp)|exact (mem_count_map hs Hsz tbl pack sum WF Hp)]]].
  intros h Hh. split; [exact (mem_contains_map hs Hsz tbl pack sum WF Hp h Hh)|].
  split; [intros st; exact (mem_find_offset_map hs Hsz tbl pack sum WF Hp st h Hh)|
          exact (mem_find_crc_map hs Hsz tbl pack sum WF Hp h Hh)].
Qed.
Print Assumptions C10_memory_lookup_is_map.

(* ---- C10_lookup_is_map, mmap.PackScanner: loaded on the written idx, FindOffset answers like the map ---- *)
Theorem C10_mmap_lookup_is_map : forall hs H es pack rev,
  wf_entries hs es = true -> List.length pack = hs -> (20 <= hs)%nat ->
  (forall b, List.length (H b) = hs) ->
  (exists hf t, rev = ([82; 73; 68; 88] ++ be32 1 ++ hf) ++ t /\ List.length hf = 4%nat) -> 16 <= blen rev ->
  let tbl := table es in
  let S := the_scanner hs H tbl pack rev in
  scan_load hs (idx_file H tbl pack) rev = Ok S /\
  forall h, wf_hash hs h ->
    scan_find_offset S h = match lookup tbl h with Some e => Ok (e_off e) | None => Err ENotFound end.
Proof.
  intros hs H es pack rev W Hp H20 Hd Hr H16 tbl S.
  pose proof (wf_entries_tbl hs es W) as WF.
  assert (Hsum : blen (S_SUM H tbl pack) = N.of_nat hs) by (unfold S_SUM, blen; now rewrite Hd).
  split; [exact (scan_load_ok hs H tbl pack rev WF Hp Hr H16 H20 Hsum)|].
  intros h Hh. exact (scan_find_offset_map hs H tbl pack rev WF Hp Hr H16 H20 Hsum h Hh).
Qed.
Print Assumptions C10_mmap_lookup_is_map.

(* ---- C10_impls_equal: on the index go-git writes, the three readers give the same FindOffset
   answer for every well-formed id (uint64 for the scanner, int64 for the other two) ---- *)
Theorem C10_impls_equal : forall hs H (Hsz : nat -> bytes -> bytes) es pack rev sum st h,
  wf_entries hs es = true -> List.length pack = hs -> (20 <= hs)%nat ->
  (forall b, List.length (H b) = hs) ->
  (exists hf t, rev = ([82; 73; 68; 88] ++ be32 1 ++ hf) ++ t /\ List.length hf = 4%nat) -> 16 <= blen rev ->
  wf_hash hs h ->
  let tbl := table es in
  fst (mem_find_offset hs (spec_index tbl pack sum) st h) = lazy_find_offset hs (the_lazy hs H tbl pack rev) h /\
  match scan_find_offset (the_scanner hs H tbl pack rev) h with
  | Ok o => lazy_find_offset hs (the_lazy hs H tbl pack rev) h = Ok (to_i64 o)
  | Err e => lazy_find_offset hs (the_lazy hs H tbl pack rev) h = Err e
  end.
Proof.
  intros hs H Hsz es pack rev sum st h W Hp H20 Hd Hr H16 Hh tbl.
  pose proof (wf_entries_tbl hs es W) as WF.
  assert (Hsum : blen (S_SUM H tbl pack) = N.of_nat hs) by (unfold S_SUM, blen; now rewrite Hd).
  rewrite (mem_find_offset_map hs Hsz tbl pack sum WF Hp st h Hh).
  rewrite (lazy_find_offset_map hs H tbl pack rev WF Hp Hr h Hh).
  rewrite (scan_find_offset_map hs H tbl pack rev WF Hp Hr H16 H20 Hsum h Hh).
  split; [reflexivity|]. destruct (lookup tbl h); reflexivity.
Qed.
Print Assumptions C10_impls_equal.

(* ---- offset-to-id.  Domain: distinct offsets below 2^63 ([offsets_okb], decidable).
   S: git's rev v1 layout [rev_file] of the table (positions in offset order). ---- *)

(* revfile.Encode of the decoded index writes git's rev layout *)
Theorem C10_rev_is_git_layout : forall hs Hsz es pack sum,
  wf_entries hs es = true -> List.length pack = hs ->
  rev_encode hs Hsz (spec_index (table es) pack sum)
  = Ok (rev_file (Hsz hs) (rev_hf hs) (table es) pack).
Proof.
  intros hs Hsz es pack sum W Hp.
  exact (rev_encode_layout hs Hsz (spec_index (table es) pack sum) (table es)
           (mem_entries_map hs Hsz (table es) pack sum (wf_entries_tbl hs es W) Hp)).
Qed.
Print Assumptions C10_rev_is_git_layout.

(* LazyIndex.FindHash (binary search through the .rev) and EntriesByOffset *)
Theorem C10_lazy_findhash_is_map : forall hs H es pack hf,
  wf_entries hs es = true -> List.length pack = hs -> offsets_okb (table es) = true ->
  let tbl := table es in
  let L := the_lazy hs H tbl pack (rev_file H hf tbl pack) in
  (forall o, o < 9223372036854775808 ->
     lazy_find_hash hs L (Z.of_N o) = match lookup_off tbl o with Some e => Ok (e_hash e) | None => Err ENotFound end) /\
  lazy_by_offset hs L = (sort_by_off tbl, None).
Proof.
  intros hs H es pack hf W Hp Ho tbl L.
  pose proof (wf_entries_tbl hs es W) as WF. destruct (offsets_okb_spec _ Ho) as [Hd Hs].
  split; [intros o Hlt; exact (lazy_find_hash_map hs H tbl pack hf WF Hp Hd Hs o Hlt)|
          exact (lazy_by_offset_map hs H tbl pack hf WF Hp Hd Hs)].
Qed.
Print Assumptions C10_lazy_findhash_is_map.

(* MemoryIndex.FindHash, for every history: the cache invariant [st_ok] holds initially, is kept by
   FindOffset and FindHash, and under it FindHash answers like the map by offset *)
Theorem C10_memory_findhash_history : forall hs (Hsz : nat -> bytes -> bytes) es pack sum,
  wf_entries hs es = true -> List.length pack = hs -> offsets_okb (table es) = true ->
  let tbl := table es in
  let m := spec_index tbl pack sum in
  st_ok tbl ms_init /\
  (forall st h, st_ok tbl st -> wf_hash hs h -> st_ok tbl (snd (mem_find_offset hs m st h))) /\
  (forall st o, st_ok tbl st -> o < 9223372036854775808 ->
     fst (mem_find_hash hs m st (Z.of_N o))
     = match lookup_off tbl o with Some e => Ok (e_hash e) | None => Err ENotFound end /\
     st_ok tbl (snd (mem_find_hash hs m st (Z.of_N o)))).
Proof.
  intros hs Hsz es pack sum W Hp Ho tbl m.
  pose proof (wf_entries_tbl hs es W) as WF. destruct (offsets_okb_spec _ Ho) as [Hd Hs].
  split; [exact (st_ok_init hs Hsz tbl pack sum WF Hp Hd Hs)|]. split.
  - intros st h Hst Hh. exact (mem_find_offset_keeps hs Hsz tbl pack sum WF Hp Hd Hs st h Hst Hh).
  - intros st o Hst Hlt. exact (mem_find_hash_map hs Hsz tbl pack sum WF Hp Hd Hs st o Hst Hlt).
Qed.
Print Assumptions C10_memory_findhash_history.

(* mmap.PackScanner.FindHash (closed-interval binary search through the .rev, uint64 offsets):
   for every offset the id of the map by offset; needs distinct offsets only *)
Theorem C10_mmap_findhash_is_map : forall hs H es pack hf o,
  wf_entries hs es = true -> List.length pack = hs -> (20 <= hs)%nat ->
  (forall b, List.length (H b) = hs) -> distinct_offsets (table es) ->
  let tbl := table es in
  scan_find_hash hs (the_scanner hs H tbl pack (rev_file H hf tbl pack)) o
  = match lookup_off tbl o with Some e => Ok (e_hash e) | None => Err ENotFound end.
Proof.
  intros hs H es pack hf o W Hp H20 Hd Hdist tbl.
  exact (scan_find_hash_map hs H tbl pack hf (wf_entries_tbl hs es W) Hp H20 Hd Hdist o).
Qed.
Print Assumptions C10_mmap_findhash_is_map.

(* ---- EntriesWithPrefix (abbreviated-id resolution): LazyIndex and MemoryIndex enumerate exactly
   the entries whose id starts with the prefix, in id order; S = [with_prefix] (a filter) ---- *)
Theorem C10_prefix_is_filter : forall hs H (Hsz : nat -> bytes -> bytes) es pack rev sum p,
  wf_entries hs es = true -> List.length pack = hs ->
  (exists hf t, rev = ([82; 73; 68; 88] ++ be32 1 ++ hf) ++ t /\ List.length hf = 4%nat) ->
  wf_prefix p ->
  let tbl := table es in
  lazy_prefix hs (the_lazy hs H tbl pack rev) p = (with_prefix tbl p, None) /\
  mem_prefix hs (spec_index tbl pack sum) p = (with_prefix tbl p, None).
Proof.
  intros hs H Hsz es pack rev sum p W Hp Hr Hwp tbl.
  pose proof (wf_entries_tbl hs es W) as WF.
  split; [exact (lazy_prefix_map hs H tbl pack rev WF Hp Hr p Hwp)|
          exact (mem_prefix_map hs Hsz tbl pack sum WF Hp p Hwp)].
Qed.
Print Assumptions C10_prefix_is_filter.

(* ---- C10_reject: malformed files are rejected by Decoder.Decode ---- *)
Theorem C10_reject_magic : forall hs Hsz file,
  bytes_eqb (firstn 4 file) IDX_MAGIC = false -> decode hs Hsz file = Err EReject.
Proof. exact decode_bad_magic. Qed.
Print Assumptions C10_reject_magic.

Theorem C10_reject_version : forall hs Hsz file,
  (get32 (firstn 4 (skipn 4 file)) =? IDX_VERSION) = false -> decode hs Hsz file = Err EReject.
Proof. exact decode_bad_version. Qed.
Print Assumptions C10_reject_version.

(* anything Decode accepts has a 256-entry non-decreasing fanout table ... *)
Theorem C10_reject_fanout : forall hs Hsz file m,
  decode hs Hsz file = Ok m ->
  List.length (m_fanout m) = NFANOUT /\
  forall a b pre post, m_fanout m = pre ++ a :: b :: post -> a <= b.
Proof. exact decode_fanout_monotone. Qed.
Print Assumptions C10_reject_fanout.

(* ... and a length inside git's [min,max] for its object count (overflow-checked leaves from Gen) *)
Theorem C10_reject_size : forall hs Hsz file m,
  decode hs Hsz file = Ok m -> size_ok hs (last (m_fanout m) 0) (blen file) = true.
Proof. exact decode_size_ok. Qed.
Print Assumptions C10_reject_size.

(* ---- C10_o64_range: a 64-bit offset is answered from inside the table or not at all ---- *)
Theorem C10_o64_range_memory : forall m b i o,
  mem_get_offset m b i = Ok o ->
  let ofs := get32 (slice (b_off32 b) (4 * i) 4) in
  (N.land ofs O64MASK = 0 /\ o = ofs) \/
  (N.land ofs O64MASK <> 0 /\ 8 * N.ldiff ofs O64MASK + 8 <= blen (m_off64 m) /\
   o = get64 (slice (m_off64 m) (8 * N.ldiff ofs O64MASK) 8)).
Proof. exact mem_get_offset_in_range. Qed.
Print Assumptions C10_o64_range_memory.

Theorem C10_o64_range_lazy : forall s pos o,
  lazy_offset s pos = Ok o ->
  exists b, read_at (l_file s) (l_off32 s + pos * L_OFF32) L_OFF32 = Some b /\
  ((N.land (get32 b) L_MASK = 0 /\ o = get32 b) \/
   (N.land (get32 b) L_MASK <> 0 /\ N.ldiff (get32 b) L_MASK < l_count64 s /\
    exists b64, read_at (l_file s) (l_off64 s + N.ldiff (get32 b) L_MASK * L_OFF64) L_OFF64 = Some b64 /\ o = get64 b64)).
Proof. exact lazy_offset_in_range. Qed.
Print Assumptions C10_o64_range_lazy.

Theorem C10_o64_range_mmap : forall s pos o,
  scan_offset s pos = Ok o ->
  let start := s_off32 s + pos * S_OFF32 in
  start + S_OFF32 <= blen (s_idx s) /\
  let off32 := get32 (slice (s_idx s) start S_OFF32) in
  ((N.land off32 S_MASK = 0 /\ o = off32) \/
   (N.land off32 S_MASK <> 0 /\ s_off64 s + N.ldiff off32 S_MASK * S_OFF64 + S_OFF64 <= s_trailer s)).
Proof. exact scan_offset_in_range. Qed.
Print Assumptions C10_o64_range_mmap.

(* PackScanner (after the fix): the tables announced by the object count fit before the trailer *)
Theorem C10_mmap_count_fits : forall hs idx rev s,
  scan_load hs idx rev = Ok s ->
  s_off64 s <= s_trailer s /\ s_trailer s + 2 * N.of_nat hs = blen idx /\ S_IDXMIN <= blen idx.
Proof. exact scan_load_fits. Qed.
Print Assumptions C10_mmap_count_fits.

(* ---- non-vacuity: a set with a 31-bit, a 2^31 and a 2^32 offset is in the domain, and the
   model evaluates the whole build on it ---- *)
Example C10_wf_example :
  wf_entries 20 [E "aa00000000000000000000000000000000000001" 12 7;
                 E "0100000000000000000000000000000000000000" 2147483648 9;
                 E "aa00000000000000000000000000000000000002" 4294967296 8] = true.
Proof. vm_compute. reflexivity. Qed.

Example C10_table_example :
  map e_off (table [E "aa00000000000000000000000000000000000001" 12 7;
                    E "0100000000000000000000000000000000000000" 2147483648 9;
                    E "aa00000000000000000000000000000000000001" 99 1;
                    E "0000000000000000000000000000000000000000" 5 5;
                    E "aa00000000000000000000000000000000000002" 4294967296 8])
  = [2147483648; 12; 4294967296].
Proof. vm_compute. reflexivity. Qed.
