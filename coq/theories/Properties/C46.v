(* Properties/C46.v — stub, replaced below *)
From Coq Require Import List NArith.
From GoGit Require Import Base.Out Model.Blame.
Import ListNotations.
Example C46_stub : blame [] [] 0 = [].
Proof. reflexivity. Qed.
