(* Properties/C46.v — Blame attributes lines the way git does.  PARTIAL BY DESIGN (DESIGN.md §4.C46).

   Full statement of the property: for any file history, every line of go-git's blame is attributed
   to the same commit git blame attributes it to, and the attributed commit's version of the file
   contains that line.  The first half is not a theorem about go-git alone: go-git aligns versions
   with sergi/go-diff, git with xdiff, and on versions with repeated or moved lines both alignments
   are legitimate and differ.  What is proved here, for EVERY history (any DAG, parents first) and
   EVERY line-diff oracle satisfying the boolean contract [oracle_ok], about the attribution function
   [blame_pos] of Model/Blame.v (tied to blame.go by the correspondence on linear and merge
   histories): soundness and totality.  Equality with git blame is checked by the correspondence on
   histories whose alignment is unique.  Only statements here; proofs live in Proofs/C46.v. *)
From Coq Require Import List NArith Bool Arith.
From GoGit Require Import Base.Out Model.Blame Proofs.C46.
Import ListNotations.

(* every line of every version is attributed to exactly one (commit, line) — the function is total *)
Theorem C46_total : forall h dt c i fc,
  dag_ok h = true -> oracle_ok h dt = true ->
  file_of h c = Some fc -> i < length fc ->
  exists k j, blame_pos (S c) h dt c i = Some (k, j).
Proof. intros; eapply blame_pos_total; eauto. Qed.
Print Assumptions C46_total.

(* the attributed commit k is c or an ancestor reached through parents, its version holds the very
   same line at index j, and none of k's parents takes that line: every parent either lacks the
   path, or has a different blob in which the oracle does not mark the line Equal *)
Theorem C46_sound : forall h dt fuel c i fc k j,
  dag_ok h = true -> oracle_ok h dt = true ->
  file_of h c = Some fc ->
  blame_pos fuel h dt c i = Some (k, j) ->
  k <= c /\
  exists kc fk, get_commit h k = Some kc /\ kc.(c_file) = Some fk /\ j < length fk /\
    nth_error fk j = nth_error fc i /\
    forall p, In p kc.(c_parents) -> to_parent h dt k fk j p = None.
Proof.
  intros h dt fuel c i fc k j Hd Ho Hf Hb.
  destruct (blame_pos_sound h dt Hd Ho fuel c i fc k j Hf Hb) as (Hle & kc & fk & H1 & H2 & H3 & H4 & H5).
  split; [exact Hle|]. exists kc, fk. repeat split; auto. now apply taker_none.
Qed.
Print Assumptions C46_sound.

(* a line is handed to a parent only where the parent holds the same line (one propagation step) *)
Theorem C46_step : forall h dt c k fc i p j,
  oracle_ok h dt = true -> get_commit h c = Some k -> k.(c_file) = Some fc -> In p k.(c_parents) ->
  i < length fc -> to_parent h dt c fc i p = Some j ->
  exists fp, file_of h p = Some fp /\ j < length fp /\ nth_error fp j = nth_error fc i.
Proof. exact to_parent_sound. Qed.
Print Assumptions C46_step.

(* the blame result has one entry per line of the blamed version, each of them a commit *)
Theorem C46_result : forall h dt head fc,
  dag_ok h = true -> oracle_ok h dt = true -> file_of h head = Some fc ->
  length (blame h dt head) = length fc /\
  forall i, i < length fc -> exists k, nth_error (blame h dt head) i = Some (Some k) /\ k <= head.
Proof.
  intros h dt head fc Hd Ho Hf. split; [now apply blame_length|].
  intros i Hi. rewrite (blame_nth h dt head fc i Hf Hi).
  destruct (blame_pos_total h dt Hd Ho (S head) head i fc (Nat.lt_succ_diag_r head) Hf Hi) as (k & j & Hb).
  rewrite Hb. exists k. split; [reflexivity|].
  now destruct (blame_pos_sound h dt Hd Ho _ _ _ _ _ _ Hf Hb).
Qed.
Print Assumptions C46_result.

(* non-vacuity: a merge history (0 <- 1, 0 <- 2, merge 3 of 1 and 2) satisfying both guards;
   line 0 survives from the root, line 1 comes from parent 2, line 2 is new in the merge *)
Definition ex_l (n : N) : line := [n; 10%N].
Definition ex_hist : history :=
  [ {| c_parents := []; c_file := Some [ex_l 1; ex_l 2] |};
    {| c_parents := [0]; c_file := Some [ex_l 1; ex_l 3] |};
    {| c_parents := [0]; c_file := Some [ex_l 1; ex_l 4; ex_l 2] |};
    {| c_parents := [1; 2]; c_file := Some [ex_l 1; ex_l 4; ex_l 5] |} ].
Definition ex_dt : dtable :=
  [ (0, 1, [(Equal, 1); (Delete, 1); (Add, 1)]);
    (0, 2, [(Equal, 1); (Add, 1); (Equal, 1)]);
    (1, 3, [(Equal, 1); (Delete, 1); (Add, 2)]);
    (2, 3, [(Equal, 2); (Delete, 1); (Add, 1)]) ].
Example C46_guards_hold : dag_ok ex_hist = true /\ oracle_ok ex_hist ex_dt = true.
Proof. vm_compute. split; reflexivity. Qed.
Example C46_merge_blame : blame ex_hist ex_dt 3 = [Some 0; Some 2; Some 3].
Proof. vm_compute. reflexivity. Qed.
(* The deviation from git that was repaired in /repo ("fix: blame passes all lines to a parent with an
   identical blob, as git does"): merge 3 of parents [2; 1] whose file equals parent 1's.  The unrepaired
   rule (first parent in which the line is Equal: first_taker) sends line 1 to parent 2, the repaired
   attribution (taker) sends every line to the identical parent 1, as git blame does. *)
Definition ex_hist2 : history :=
  [ {| c_parents := []; c_file := Some [ex_l 1] |};
    {| c_parents := [0]; c_file := Some [ex_l 1; ex_l 7; ex_l 9] |};
    {| c_parents := [0]; c_file := Some [ex_l 1; ex_l 9] |};
    {| c_parents := [2; 1]; c_file := Some [ex_l 1; ex_l 7; ex_l 9] |} ].
Definition ex_dt2 : dtable :=
  [ (0, 1, [(Equal, 1); (Add, 2)]); (0, 2, [(Equal, 1); (Add, 1)]); (2, 3, [(Equal, 1); (Add, 1); (Equal, 1)]) ].
Example C46_identical_parent_takes_all :
  oracle_ok ex_hist2 ex_dt2 = true /\
  first_taker ex_hist2 ex_dt2 3 [ex_l 1; ex_l 7; ex_l 9] 2 [2; 1] = Some (2, 1) /\
  taker ex_hist2 ex_dt2 3 [ex_l 1; ex_l 7; ex_l 9] 2 [2; 1] = Some (1, 2) /\
  blame ex_hist2 ex_dt2 3 = [Some 0; Some 1; Some 1].
Proof. vm_compute. repeat split; reflexivity. Qed.

(* the contract matters: an oracle that calls different lines Equal is rejected by the guard *)
Example C46_guard_rejects : oracle_ok ex_hist [(0, 1, [(Equal, 2)])] = false.
Proof. vm_compute. reflexivity. Qed.
