(* Properties/C11.v — Every stored object reads back identically on every read path.
   Only statements here; proofs live in Proofs/C11.v.

   G = Model/ObjStore.v (pack-first routing, findObjectInPackfile with the MRU
   hint, object cache with ANY eviction policy [pol], delta resolution through
   the cache, loose objects, alternates).  S = Spec/ObjContent.v: [content r id],
   the object named id in the content-addressed store.  [store_ok r] is the
   boolean well-formedness of the repository as data: distinct offsets within a
   pack, every pack entry resolves, all copies of an id agree.  [cache_ok] says the
   cache holds only (id, content of id) pairs — true of the empty cache and kept
   by every read. *)
From Coq Require Import List NArith Bool String.
From GoGit Require Import Base.Out Model.ObjStore Spec.ObjContent Proofs.C11.
Import ListNotations.
Local Open Scope N_scope.

Definition evicts_only (pol : cache -> cache) : Prop := forall c x, In x (pol c) -> In x c.

(* EncodedObject(t, id) = the content of id (not found when absent or of another
   type) — for every cache content, every MRU hint, every eviction policy — and
   the cache stays truthful *)
Theorem C11_get_is_content : forall pol r st t id st' res,
  evicts_only pol -> store_ok r = true -> cache_ok (content r) (rs_cache st) ->
  get_object pol r st t id = (st', res) ->
  res = spec_get r t id /\ cache_ok (content r) (rs_cache st').
Proof. intros pol r st t id st' res P OK. exact (get_object_ok pol P r OK st t id st' res). Qed.
Print Assumptions C11_get_is_content.

Theorem C11_size_is_content : forall pol r st id st' res,
  evicts_only pol -> store_ok r = true -> cache_ok (content r) (rs_cache st) ->
  size_object pol r st id = (st', res) ->
  res = spec_get r None id /\ cache_ok (content r) (rs_cache st').
Proof. intros pol r st id st' res P OK. exact (size_object_ok pol P r OK st id st' res). Qed.
Print Assumptions C11_size_is_content.

Theorem C11_has_is_content : forall r st id st' b,
  store_ok r = true -> has_object r st id = (st', b) ->
  b = spec_has r id /\ rs_cache st' = rs_cache st.
Proof. intros r st id st' b OK. exact (has_object_ok r OK st id st' b). Qed.
Print Assumptions C11_has_is_content.

(* Packfile.GetByOffset on any pack of the repository, at any offset *)
Theorem C11_by_offset_is_content : forall pol r s p c off c' res,
  evicts_only pol -> store_ok r = true -> In s (stores r) -> In p (s_packs s) ->
  cache_ok (content r) c -> get_by_offset pol p c off = (c', res) ->
  cache_ok (content r) c' /\
  res = match find_entry p off with Some e => content r (e_id e) | None => None end.
Proof. intros pol r s p c off c' res P OK. exact (by_offset_ok pol P r OK s p c off c' res). Qed.
Print Assumptions C11_by_offset_is_content.

(* HashesWithPrefix = exactly the stored ids with that prefix, each once *)
Theorem C11_prefix_complete : forall r pre, store_ok r = true ->
  NoDup (prefix_ids r pre) /\
  forall id, In id (prefix_ids r pre) <-> is_prefix pre id = true /\ content r id <> None.
Proof. exact prefix_ids_ok. Qed.
Print Assumptions C11_prefix_complete.

(* IterEncodedObjects(t) succeeds; everything it lists is the content of its id and
   of type t; the cache stays truthful *)
Theorem C11_iter_sound : forall pol r st t st' res,
  evicts_only pol -> store_ok r = true -> cache_ok (content r) (rs_cache st) ->
  iter_objects pol r st t = (st', res) ->
  cache_ok (content r) (rs_cache st') /\
  exists l, res = Some l /\ forall id o, In (id, o) l -> content r id = Some o /\ typed t o = RFound o.
Proof. intros pol r st t st' res P OK. exact (iter_objects_ok pol P r OK st t st' res). Qed.
Print Assumptions C11_iter_sound.

(* ... and the listing is exactly the ids stored in the repository's OWN loose
   directory and packs whose object has type t, each once (the loose directory
   listing has no duplicate names) *)
Theorem C11_iter_complete : forall pol r t st st' res,
  evicts_only pol -> store_ok r = true ->
  nodup_ids (map fst (s_loose (r_main r))) = true -> cache_ok (content r) (rs_cache st) ->
  iter_objects pol r st t = (st', res) ->
  exists l, res = Some l /\ NoDup (map fst l) /\
  forall id, In id (map fst l) <-> (has_copy (r_main r) id /\ wanted r t id).
Proof. intros pol r t st st' res P OK. exact (iter_objects_full pol P r OK t st st' res). Qed.
Print Assumptions C11_iter_complete.

(* the FULL statement of the property also wants the objects of the alternates
   listed (git cat-file --batch-all-objects does): false of the code as it is —
   known finding iter-omits-alternates.  Witness: ex_repo below stores [9] in its
   alternate; every lookup finds it, the iteration does not list it. *)

(* any sequence of reads, from any truthful cache and any hints: every answer
   (except the listing of RdIter, see above) is the specification's *)
Theorem C11_any_order : forall pol r rds st,
  evicts_only pol -> store_ok r = true -> cache_ok (content r) (rs_cache st) ->
  Forall2 (fun rd o => forall x, spec_read r rd = Some x -> o = x) rds (snd (do_reads pol r st rds)).
Proof. intros pol r rds st P OK. exact (do_reads_ok pol P r OK rds st). Qed.
Print Assumptions C11_any_order.

(* hence neither the MRU hints, nor what the cache holds, nor its eviction
   policy, nor what was read before can change an answer *)
Theorem C11_hint_irrelevant : forall pol1 pol2 r st1 st2 rds,
  evicts_only pol1 -> evicts_only pol2 -> store_ok r = true ->
  cache_ok (content r) (rs_cache st1) -> cache_ok (content r) (rs_cache st2) ->
  Forall (fun rd => spec_read r rd <> None) rds ->
  snd (do_reads pol1 r st1 rds) = snd (do_reads pol2 r st2 rds).
Proof. exact reads_independent. Qed.
Print Assumptions C11_hint_irrelevant.

(* ---- non-vacuity ---- *)

(* a repository with a base blob, an OFS delta on it and a REF delta on that, a
   second pack duplicating the base, a loose copy and an alternate *)
Definition ex_base : bytes := [104; 101; 108; 108; 111; 32; 119; 111; 114; 108; 100; 44; 32; 104; 101; 108; 108; 111; 32; 103; 105; 116; 10].
Definition ex_pack : pack :=
  [ Entry [1] 12 (KBase TBlob ex_base);
    Entry [2] 40 (KOfs 12 [23; 17; 144; 13; 4; 99; 111; 113; 10]);
    Entry [3] 70 (KRef [2] [17; 12; 145; 6; 6; 1; 33; 144; 5]) ].
Definition ex_repo : repo :=
  Repo (Store [([1], Obj TBlob ex_base)] [ex_pack; [Entry [1] 12 (KBase TBlob ex_base)]])
       [Store [([9], Obj TTree [1; 2; 3])] []].

Example C11_example_ok : store_ok ex_repo = true.
Proof. vm_compute. reflexivity. Qed.

Example C11_example_reads :
  c11_run ex_repo [RdGet None [3]; RdGet (Some TTree) [3]; RdSize [2]; RdHas [9]; RdHas [7]; RdOff 0 70;
                   RdPrefix []; RdGet None [9]]
  = c11_run_nocache ex_repo [RdGet None [3]; RdGet (Some TTree) [3]; RdSize [2]; RdHas [9]; RdHas [7]; RdOff 0 70;
                             RdPrefix []; RdGet None [9]]
  /\ spec_get ex_repo None [3] = RFound (Obj TBlob [119; 111; 114; 108; 100; 44; 33; 104; 101; 108; 108; 111])
  /\ prefix_ids ex_repo [] = [[1]; [2]; [3]; [9]].
Proof. vm_compute. repeat split. Qed.

Example C11_iter_alternates_refuted :
  spec_has ex_repo [9] = true /\
  match snd (iter_objects keep_all ex_repo (init_rstate ex_repo) None) with
  | Some l => map fst l = [[1]; [2]; [3]]
  | None => False
  end.
Proof. vm_compute. split; reflexivity. Qed.

(* content addressing is needed: two copies of an id that disagree are rejected *)
Example C11_disagreeing_copies_rejected :
  store_ok (Repo (Store [([1], Obj TBlob [0])] [[Entry [1] 12 (KBase TBlob [1])]]) []) = false.
Proof. vm_compute. reflexivity. Qed.

(* the delta interpreter on a hand-made delta: copy 3 bytes from offset 1, insert "XY", copy 2 from 0 *)
Example C11_delta_example :
  apply_delta [97; 98; 99; 100; 101] [5; 7; 145; 1; 3; 2; 88; 89; 144; 2] = Some [98; 99; 100; 88; 89; 97; 98].
Proof. vm_compute. reflexivity. Qed.
