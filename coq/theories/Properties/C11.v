(* Properties/C11.v — Every stored object reads back identically on every read path.
   (statements are added below as the proofs in Proofs/C11.v land) *)
From Coq Require Import List NArith Bool.
From GoGit Require Import Base.Out Model.ObjStore.
Import ListNotations.
Local Open Scope N_scope.

(* the delta interpreter on a hand-made delta: copy 3 bytes from offset 1, insert "XY", copy 2 from 0 *)
Example C11_delta_example :
  apply_delta [97; 98; 99; 100; 101] [5; 7; 145; 1; 3; 2; 88; 89; 144; 2] = Some [98; 99; 100; 88; 89; 97; 98].
Proof. vm_compute. reflexivity. Qed.
