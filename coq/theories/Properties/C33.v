(* Properties/C33.v — Linked worktrees are isolated and recognised by git.
   Only statements here; proofs live in Proofs/C33.v.
   G = Model/WtRoute.v (mapToRepositoryFsByPath and the dual filesystem it
   induces, worktree.Add's files), S = Spec/GitCommonDir.v (git's common_list).

   FULL STATEMENT of the routing part:  forall p, go_common p = git_common p.
   It is FALSE of the faithful model (C33_*_refuted below: refs/bisect/<x>,
   refs/worktree/<x>, refs/rewritten/<x> and their reflogs are shared instead of
   per-worktree; info/sparse-checkout is shared; lock files of shared files and
   a few more common names are private).  The isolation theorems below are
   proved for ALL paths in terms of go_common; the agreement with git outside the
   refuted shapes is proved for whole families of paths (C33_routing_eq_families:
   every suffix below objects/, refs/heads/, refs/tags/, refs/remotes/, hooks/,
   worktrees/, logs/refs/heads/) but NOT for all paths at once (that needs a normal
   form of both classifiers over the first three path components and the .lock
   suffix); the remaining names are checked by C33_routing_named and exercised on
   generated paths on every run (G = implementation, S = `git rev-parse --git-path`). *)
From Coq Require Import List NArith Bool String.
From GoGit Require Import Base.Out Model.WtRoute Spec.GitCommonDir Proofs.C33.
Import ListNotations.
Local Open Scope N_scope.

(* --- isolation: whatever one worktree writes at a per-worktree path is
   invisible to every other worktree, at every path *)
Theorem C33_isolated : forall f a b p d q,
  a <> b -> go_common p = false -> fs_read (fs_write f a p d) b q = fs_read f b q.
Proof. exact isolated. Qed.
Print Assumptions C33_isolated.

(* --- sharing: what one worktree writes at a common path is what all read there *)
Theorem C33_shared : forall f a b p d, go_common p = true -> fs_read (fs_write f a p d) b p = Some d.
Proof. exact shared. Qed.
Print Assumptions C33_shared.

Theorem C33_own_read : forall f a p d, fs_read (fs_write f a p d) a p = Some d.
Proof. exact own_read. Qed.
Print Assumptions C33_own_read.

(* writing shared data never disturbs private files *)
Theorem C33_common_keeps_private : forall f a b p d q,
  go_common p = true -> go_common q = false -> fs_read (fs_write f a p d) b q = fs_read f b q.
Proof. exact common_keeps_private. Qed.
Print Assumptions C33_common_keeps_private.

(* --- which paths: HEAD, index, ORIG_HEAD, logs/HEAD (and the other
   pseudo-refs) are per-worktree; objects/**, refs/heads|tags|remotes/**,
   packed-refs, config are shared — for EVERY suffix *)
Theorem C33_private_paths :
  go_common (s "HEAD") = false /\ go_common (s "index") = false /\ go_common (s "ORIG_HEAD") = false /\
  go_common (s "logs/HEAD") = false /\ go_common (s "FETCH_HEAD") = false /\ go_common (s "MERGE_HEAD") = false /\
  go_common (s "index.lock") = false /\ go_common (s "HEAD.lock") = false.
Proof. vm_compute. repeat split. Qed.
Print Assumptions C33_private_paths.

Theorem C33_common_paths : forall sfx,
  go_common (s "objects/" ++ sfx) = true /\ go_common (s "refs/heads/" ++ sfx) = true /\
  go_common (s "refs/tags/" ++ sfx) = true /\ go_common (s "refs/remotes/" ++ sfx) = true /\
  go_common (s "packed-refs") = true /\ go_common (s "config") = true.
Proof.
  intros sfx. split; [apply common_objects|]. split; [apply common_heads|]. split; [apply common_tags|].
  split; [apply common_remotes|]. split; reflexivity.
Qed.
Print Assumptions C33_common_paths.

(* --- agreement with git on whole families: for EVERY suffix (any depth, any
   bytes, with or without a .lock ending) both put the path in the common directory *)
Theorem C33_routing_eq_families : forall rest,
  (go_common (s "objects/" ++ rest) = true /\ git_common (s "objects/" ++ rest) = true) /\
  (go_common (s "refs/heads/" ++ rest) = true /\ git_common (s "refs/heads/" ++ rest) = true) /\
  (go_common (s "refs/tags/" ++ rest) = true /\ git_common (s "refs/tags/" ++ rest) = true) /\
  (go_common (s "refs/remotes/" ++ rest) = true /\ git_common (s "refs/remotes/" ++ rest) = true) /\
  (go_common (s "hooks/" ++ rest) = true /\ git_common (s "hooks/" ++ rest) = true) /\
  (go_common (s "worktrees/" ++ rest) = true /\ git_common (s "worktrees/" ++ rest) = true) /\
  (go_common (s "logs/refs/heads/" ++ rest) = true /\ git_common (s "logs/refs/heads/" ++ rest) = true).
Proof.
  intros rest.
  split; [split; [reflexivity|apply fam_objects]|]. split; [split; [reflexivity|apply fam_heads]|].
  split; [split; [reflexivity|apply fam_tags]|]. split; [split; [reflexivity|apply fam_remotes]|].
  split; [split; [reflexivity|apply fam_hooks]|]. split; [split; [reflexivity|apply fam_worktrees]|].
  split; [reflexivity|apply fam_logs_heads].
Qed.
Print Assumptions C33_routing_eq_families.

(* ... and disagreement on whole families: every ref (and reflog) below
   refs/bisect, refs/worktree, refs/rewritten is per-worktree for git, shared by go-git *)
Theorem C33_per_worktree_refs_refuted : forall rest,
  (go_common (s "refs/bisect/" ++ rest) = true /\ git_common (s "refs/bisect/" ++ rest) = false) /\
  (go_common (s "refs/worktree/" ++ rest) = true /\ git_common (s "refs/worktree/" ++ rest) = false) /\
  (go_common (s "refs/rewritten/" ++ rest) = true /\ git_common (s "refs/rewritten/" ++ rest) = false) /\
  (go_common (s "logs/refs/bisect/" ++ rest) = true /\ git_common (s "logs/refs/bisect/" ++ rest) = false).
Proof.
  intros rest.
  split; [split; [reflexivity|apply fam_bisect]|]. split; [split; [reflexivity|apply fam_worktree_refs]|].
  split; [split; [reflexivity|apply fam_rewritten]|]. split; [reflexivity|apply fam_logs_bisect].
Qed.
Print Assumptions C33_per_worktree_refs_refuted.

(* --- where the routing departs from git *)
(* bisect / worktree / rewritten refs: per-worktree for git, shared by go-git;
   hence a bisect in one worktree overwrites the other's *)
Theorem C33_bisect_refuted : forall x,
  x <> [] -> negb (existsb (fun c => c =? SL) x) = true ->
  go_common (s "refs/bisect/" ++ x) = true /\
  (forall f a b d, fs_read (fs_write f a (s "refs/bisect/" ++ x) d) b (s "refs/bisect/" ++ x) = Some d).
Proof.
  intros x Hx Hs. assert (H : go_common (s "refs/bisect/" ++ x) = true) by reflexivity.
  split; [exact H|]. intros. now apply shared.
Qed.
Print Assumptions C33_bisect_refuted.

Theorem C33_routing_refuted :
  (* per-worktree for git, shared by go-git *)
  (go_common (s "refs/bisect/bad") = true /\ git_common (s "refs/bisect/bad") = false) /\
  (go_common (s "refs/worktree/foo") = true /\ git_common (s "refs/worktree/foo") = false) /\
  (go_common (s "refs/rewritten/onto") = true /\ git_common (s "refs/rewritten/onto") = false) /\
  (go_common (s "logs/refs/bisect/bad") = true /\ git_common (s "logs/refs/bisect/bad") = false) /\
  (go_common (s "info/sparse-checkout") = true /\ git_common (s "info/sparse-checkout") = false) /\
  (* shared for git, per-worktree for go-git *)
  (go_common (s "config.lock") = false /\ git_common (s "config.lock") = true) /\
  (go_common (s "packed-refs.lock") = false /\ git_common (s "packed-refs.lock") = true) /\
  (go_common (s "gc.pid") = false /\ git_common (s "gc.pid") = true) /\
  (go_common (s "rr-cache/x") = false /\ git_common (s "rr-cache/x") = true) /\
  (go_common (s "common/x") = false /\ git_common (s "common/x") = true).
Proof. vm_compute. repeat split. Qed.
Print Assumptions C33_routing_refuted.

(* --- worktree.Add: names accepted, and the files it lays down are the ones
   git's own `worktree add` writes (gitdir, commondir, HEAD, .git) *)
Theorem C33_add_files : forall name wt common commit,
  add_files name wt common commit false =
  [ s "../.." ++ [10]; wt ++ s "/.git" ++ [10]; s "ref: refs/heads/" ++ name ++ [10];
    s "gitdir: " ++ common ++ s "/worktrees/" ++ name ++ [10] ].
Proof. intros. unfold add_files, LFb. rewrite <- !app_assoc. reflexivity. Qed.
Print Assumptions C33_add_files.

(* --- Worktree.Open: a directory whose .git file is a gitdir pointer (absolute
   or relative, any target) is NEVER served from the main repository's storage:
   either its own admin directory is used, or Open fails.  In particular the
   leftover directory of a removed linked worktree cannot be used to move the
   main worktree's HEAD or index.  (Full since the repair "fix: resolve a relative
   gitdir pointer of a linked worktree against the worktree root": before it a
   relative pointer made filepath.Rel fail and Open fell back to the main storage.) *)
Theorem C33_open_pointer_never_main : forall wtroot file p admin_ok,
  parse_dotgit file = Some p -> go_open wtroot (Some file) admin_ok <> OpenMain.
Proof. exact open_pointer_never_main. Qed.
Print Assumptions C33_open_pointer_never_main.

Theorem C33_open_gone_fails : forall wtroot file p admin_ok,
  parse_dotgit file = Some p -> admin_ok (resolve wtroot p) = false ->
  go_open wtroot (Some file) admin_ok = OpenErr.
Proof. exact open_gone_fails. Qed.
Print Assumptions C33_open_gone_fails.

(* every .git file "gitdir: <anything non-empty>" is such a pointer *)
Theorem C33_gitdir_files_are_pointers : forall rest,
  (1 <= List.length rest)%nat -> exists p, parse_dotgit (s "gitdir: " ++ rest) = Some p.
Proof. exact parse_gitdir_prefix. Qed.
Print Assumptions C33_gitdir_files_are_pointers.

Example C33_open_inhabited :
  let gone := fun _ : bytes => false in let there := fun _ : bytes => true in
  go_open (s "/r/wa") (Some (s "gitdir: /r/w/.git/worktrees/wa
")) gone = OpenErr /\
  go_open (s "/r/wa") (Some (s "gitdir: ../w/.git/worktrees/wa
")) gone = OpenErr /\
  go_open (s "/r/wa") (Some (s "gitdir: ../w/.git/worktrees/wa
")) there = OpenDual /\
  parse_dotgit (s "gitdir: ../w/.git/worktrees/wa 
") = Some (s "../w/.git/worktrees/wa") /\
  resolve (s "/r/wa") (s "../w/x") = s "/r/wa/../w/x" /\
  go_open (s "/r/wa") None gone = OpenMain /\ go_open (s "/r/wa") (Some (s "garbage!!!")) gone = OpenMain.
Proof. vm_compute. repeat split. Qed.

(* ------------------------------------------------------------ non-vacuity / finite agreement *)

(* on the paths git documents and go-git uses, the two routings agree except
   for the refuted shapes *)
Definition named_paths : list bytes :=
  map s ["HEAD"; "index"; "ORIG_HEAD"; "FETCH_HEAD"; "MERGE_HEAD"; "logs/HEAD"; "logs/refs/heads/x"; "refs/heads/x";
         "refs/heads/a/b"; "refs/tags/v1"; "refs/remotes/origin/main"; "refs/bisect"; "refs/worktree"; "refs/rewritten";
         "refs/stash"; "refs/notes/commits"; "objects/ab/cdef"; "objects/info/alternates"; "objects/pack/p.pack";
         "info/exclude"; "info/grafts"; "info/attributes"; "hooks/pre-commit"; "config"; "config.worktree"; "packed-refs";
         "shallow"; "branches/x"; "remotes/x"; "worktrees/w/HEAD"; "description"; "modules/sub/HEAD";
         "rebase-merge/head-name"; "sequencer/todo"; "index.lock"; "HEAD.lock"; "COMMIT_EDITMSG"; "BISECT_LOG";
         "logs/refs/remotes/o/m"; "refs/heads"; "logs"; "refs"; "objects"; "info"]%string.
Example C33_routing_named : forallb (fun p => Bool.eqb (go_common p) (git_common p)) named_paths = true.
Proof. vm_compute. reflexivity. Qed.

Example C33_isolation_inhabited :
  let f0 := mkFS [] [] in
  let f1 := fs_write (fs_write f0 1 (s "HEAD") (s "ref: refs/heads/a")) 2 (s "HEAD") (s "ref: refs/heads/b") in
  let f2 := fs_write f1 1 (s "refs/heads/a") (s "c1") in
  fs_read f2 1 (s "HEAD") = Some (s "ref: refs/heads/a") /\ fs_read f2 2 (s "HEAD") = Some (s "ref: refs/heads/b") /\
  fs_read f2 2 (s "refs/heads/a") = Some (s "c1") /\ add_ok (s "feature-1") false = true /\ add_ok (s "a/b") false = false.
Proof. vm_compute. repeat split. Qed.
