(* Properties/C01.v — Object IDs and loose objects are identical to git's.
   Only statements here; proofs are in Proofs/C01.v, Proofs/C01main.v, Proofs/SHA.v.

   G = Model/ObjFile.v (go-git as it is), S = Spec/LooseGit.v (git 2.39's
   header writer / reader), H = Spec/SHA.v (executable SHA-1 / SHA-256).
   All statements are over the inflated byte stream (zlib round trip assumed,
   exercised by the correspondence).  Sizes are bounded by int64 because
   go-git's API takes an int64; there is no other bound. *)
From Coq Require Import List NArith ZArith Bool.
From GoGit Require Import Base.Out Spec.SHA Gen.C01 Model.ObjFile Spec.LooseGit
  Proofs.SHA Proofs.C01 Proofs.C01main.
Import ListNotations.
Local Open Scope N_scope.

(* The reader reads back every header the writer can produce: every valid type,
   every int64 size, any following bytes. *)
Theorem C01_header_roundtrip : forall t z r,
  type_valid t = true -> int64_size z = true -> read_header (hdr t z ++ r) = Ok (t, z, r).
Proof. exact thm_header_roundtrip. Qed.
Print Assumptions C01_header_roundtrip.

(* ... and no such header exceeds the reader's byte budget, which is the
   constant regenerated from plumbing/format/objfile (maxHeaderLen): lowering
   it below 30 breaks this proof. *)
Theorem C01_budget : forall t z,
  int64_size z = true -> (List.length (hdr t z) <= max_header_len)%nat.
Proof. exact thm_budget. Qed.
Print Assumptions C01_budget.

Theorem C01_writer_accepts : forall t z,
  type_valid t = true -> int64_size z = true -> w_header t z = Ok (mkW (hdr t z) (hdr t z) z).
Proof. exact thm_writer_accepts. Qed.
Print Assumptions C01_writer_accepts.

(* go-git's ID function IS git's: same header bytes, same hash, for every
   type name, content and both object formats (no guard at all). *)
Theorem C01_oid_is_git : forall f t c,
  oid f t c = git_oid f t c /\ compute f t c = git_oid f t c /\ hdr t (blen c) = git_hdr t (nlen c).
Proof. exact thm_oid_is_git. Qed.
Print Assumptions C01_oid_is_git.

(* Every write path, for every chunking of the content, when the declared size
   equals the bytes written: returns git's ID, stores the file under that ID,
   and the file is exactly what git would write (header ++ content). *)
Theorem C01_paths_agree : forall f t chunks,
  type_git t = true -> int64_size (blen (concat chunks)) = true ->
  let c := concat chunks in let size := blen c in
  path_raw f t size chunks = good_write f t c /\
  path_lazy f t size chunks = good_write f t c /\
  path_set f (m_fill t size chunks) = Some (good_write f t c) /\
  path_set f (m_fill TBlob size [c]) = Some (good_write f TBlob c) /\      (* worktree Add *)
  path_mem f (m_fill t size chunks) = mkR (Some (git_oid f t c)) None None /\
  hasher_sum f (fold_left hasher_write chunks (hasher_new t size)) = git_oid f t c.
Proof. exact thm_paths_agree. Qed.
Print Assumptions C01_paths_agree.

(* git reads what go-git writes: S's reader (parse_loose_header + size check)
   on go-git's file gives back type and content, for every content < 2^63. *)
Theorem C01_git_reads : forall f t chunks,
  type_git t = true -> int64_size (blen (concat chunks)) = true ->
  match r_file (path_raw f t (blen (concat chunks)) chunks) with
  | Some (name, raw) => git_read raw = Some (t, concat chunks) /\ name = H f raw
  | None => False
  end.
Proof. exact thm_git_reads. Qed.
Print Assumptions C01_git_reads.

(* go-git reads what git writes: type, size, bytes and ID. *)
Theorem C01_reads_git : forall f t c,
  type_git t = true -> nlen c < two63 ->
  read_loose f (git_loose t c) = Ok (t, blen c, c, git_oid f t c).
Proof. exact read_loose_git. Qed.
Print Assumptions C01_reads_git.

(* Stronger than "what git writes": every header git ACCEPTS (size < 2^63) is
   read by go-git with the same type, size and content ... *)
Theorem C01_reads_all_git_accepts : forall raw t n c,
  git_parse raw = Some (t, n, c) -> n < two63 -> read_header raw = Ok (t, Z.of_N n, c).
Proof. exact read_header_of_git. Qed.
Print Assumptions C01_reads_all_git_accepts.

(* ... the converse (go-git accepts only what git accepts) is false of the
   faithful model: strconv.ParseInt takes "03", "+3", "-3"; ParseObjectType
   takes ofs-delta / ref-delta.  Not a violation of the property (git never
   writes these); recorded as a leniency of the reader. *)
Theorem C01_reader_lenient_refuted :
  ~ (forall raw x, read_header raw = Ok x -> git_parse raw <> None).
Proof. exact thm_reader_lenient_refuted. Qed.
Print Assumptions C01_reader_lenient_refuted.

(* Declared size larger than what is written: the writer reports no error and
   saves a file git refuses (size mismatch) ... *)
Theorem C01_short_write : forall f t size chunks,
  type_git t = true -> (blen (concat chunks) < size)%Z -> (size < Z.of_N two63)%Z ->
  let raw := hdr t size ++ concat chunks in
  path_raw f t size chunks = mkR (Some (H f raw)) None (Some (H f raw, raw)) /\ git_read raw = None.
Proof. exact path_raw_short. Qed.
Print Assumptions C01_short_write.

(* ... declared size smaller: ErrOverflow, and the saved file is the valid
   object of the first [size] bytes. *)
Theorem C01_overflow_truncates : forall f t size chunks,
  type_git t = true -> (0 <= size)%Z -> (size < blen (concat chunks))%Z -> (size < Z.of_N two63)%Z ->
  let c' := firstn (Z.to_nat size) (concat chunks) in
  path_raw f t size chunks = mkR (Some (git_oid f t c')) (Some EOverflow) (Some (git_oid f t c', git_loose t c')).
Proof. exact path_raw_over. Qed.
Print Assumptions C01_overflow_truncates.

(* For EVERY declared size (matching, short, over, negative, oversized): what
   the raw / lazy writer returns and stores depends only on the concatenation
   of the chunks, never on how the caller split them. *)
Theorem C01_chunking_independent : forall f t size c1 c2,
  concat c1 = concat c2 -> path_raw f t size c1 = path_raw f t size c2.
Proof. exact thm_chunking_independent. Qed.
Print Assumptions C01_chunking_independent.

(* Exactly which streams objfile.Reader.Header accepts: a type name without
   space that ParseObjectType knows, one space, a size text without NUL that
   strconv.ParseInt(…, 10, 64) accepts, a NUL, all within maxHeaderLen bytes. *)
Theorem C01_read_header_spec : forall raw t n c,
  read_header raw = Ok (t, n, c) <-> header_shape raw t n c.
Proof. exact thm_read_header_spec. Qed.
Print Assumptions C01_read_header_spec.

(* Which hash function: for every constructor option, pre-existing config file
   and sequence of SetObjectFormat calls (the run-time switch a clone of a
   SHA-256 remote performs), all fields the write paths read — the DotGit object
   writer's format, the storage's ObjectHasher, the reader's option — hold the
   repository's current format, so every write path names and stores the object
   as git does in a repository of that format.  Same for the memory storage. *)
Theorem C01_format_current : forall opt file ofs t chunks,
  type_git t = true -> int64_size (blen (concat chunks)) = true ->
  let c := concat chunks in let size := blen c in
  let st := fs_run opt file ofs in let f := repo_format opt file ofs in
  st_raw st t size chunks = good_write f t c /\
  st_set st (m_fill t size chunks) = Some (good_write f t c) /\
  st_set st (m_fill TBlob size [c]) = Some (good_write f TBlob c) /\
  st_mem (ms_run opt ofs) (m_fill t size chunks) = mkR (Some (git_oid (hfmt_of (last_format ofs opt)) t c)) None None.
Proof. exact thm_format_current. Qed.
Print Assumptions C01_format_current.

Theorem C01_format_fields : forall opt file ofs,
  let st := fs_run opt file ofs in
  fs_dir st = repo_format opt file ofs /\ fs_oh st = repo_format opt file ofs /\ fs_opts st = repo_format opt file ofs.
Proof. exact fs_run_format. Qed.
Print Assumptions C01_format_fields.

(* MemoryObject.Hash of a freshly filled object is git's ID ... *)
Theorem C01_memobj_fresh : forall f t chunks,
  snd (m_hash f (m_fill t (blen (concat chunks)) chunks)) = Some (git_oid f t (concat chunks)).
Proof. exact thm_memobj_fresh. Qed.
Print Assumptions C01_memobj_fresh.

(* ... but the hash is cached: Hash(), Write, SetEncodedObject returns the OLD
   ID while the file is stored under the ID of the real content (full statement
   "SetEncodedObject returns the ID the object is stored under" refuted). *)
Theorem C01_memobj_stale_refuted :
  ~ (forall f o r, path_set f o = Some r -> r_err r = None ->
       match r_file r with Some (name, _) => r_id r = Some name | None => True end).
Proof. exact thm_memobj_stale_refuted. Qed.
Print Assumptions C01_memobj_stale_refuted.

(* Spec/SHA facts other properties reuse: digest sizes, and the Merkle–Damgard
   extension property of both functions. *)
Theorem C01_digest_shape : forall f m,
  List.length (H f m) = hsize f /\ Forall (fun b => b < 256) (H f m).
Proof. exact thm_digest_shape. Qed.
Print Assumptions C01_digest_shape.

Theorem C01_sha_extend : forall k a1 a2,
  List.length a1 = (64 * k)%nat -> List.length a2 = (64 * k)%nat ->
  (sha1_state a1 = sha1_state a2 -> forall s, sha1 (a1 ++ s) = sha1 (a2 ++ s)) /\
  (sha256_state a1 = sha256_state a2 -> forall s, sha256 (a1 ++ s) = sha256 (a2 ++ s)).
Proof. exact thm_sha_extend. Qed.
Print Assumptions C01_sha_extend.

(* ---------- non-vacuity ---------- *)
From Coq Require Import String.
Example C01_ex_guard : int64_size 0 = true /\ int64_size 9223372036854775807 = true /\
  type_git TBlob = true /\ type_valid TOfsDelta = true /\ type_git TOfsDelta = false.
Proof. vm_compute. repeat split. Qed.

(* "hello\n" as a blob, written in two chunks: git's well-known ID ce013625… *)
Example C01_ex_hello :
  path_raw FSha1 TBlob 6 [[104;101]; [108;108;111;10]]
  = mkR (Some (unhex "ce013625030ba8dba906f756967f9e9ca394464a"%string))
        None
        (Some (unhex "ce013625030ba8dba906f756967f9e9ca394464a"%string,
               [98;108;111;98;32;54;0;104;101;108;108;111;10])).
Proof. vm_compute. reflexivity. Qed.

Example C01_ex_hello_sha256 :
  oid FSha256 TBlob [104;101;108;108;111;10]
  = unhex "2cf8d83d9ee29543b34a87727421fdecb7e3f3a183d337639025de576db9ebb4"%string.
Proof. vm_compute. reflexivity. Qed.

(* the clone path: default storage, then SetObjectFormat(sha256) *)
Example C01_ex_switch : repo_format CUnset None [CSha256] = FSha256 /\ repo_format CSha256 (Some CUnset) [] = FSha1.
Proof. split; reflexivity. Qed.

(* non-vacuity of C01_format_current: a hasher that lags behind is observable *)
Example C01_ex_lagging_hasher :
  let st := mkFS CSha256 FSha256 FSha1 FSha256 in
  match st_set st (m_fill TBlob 1 [[97]]) with
  | Some r => r_err r = None /\
              r_id r = Some (git_oid FSha1 TBlob [97]) /\
              r_file r = Some (git_oid FSha256 TBlob [97], git_loose TBlob [97])
  | None => False
  end.
Proof. exact lagging_hasher. Qed.

(* the largest header: "ofs-delta 9223372036854775807\0" is 30 bytes *)
Example C01_ex_longest : List.length (hdr TOfsDelta 9223372036854775807) = 30%nat.
Proof. vm_compute. reflexivity. Qed.

Example C01_ex_overflow :
  path_raw FSha1 TBlob 2 [[97;98;99]] =
  mkR (Some (git_oid FSha1 TBlob [97;98])) (Some EOverflow) (Some (git_oid FSha1 TBlob [97;98], git_loose TBlob [97;98])).
Proof. vm_compute. reflexivity. Qed.
