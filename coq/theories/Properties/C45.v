(* Properties/C45.v — stub, replaced below *)
From Coq Require Import List NArith.
From GoGit Require Import Base.Out Model.Unified.
Import ListNotations.
Example C45_stub : generate 3 [] = [].
Proof. reflexivity. Qed.
