(* Properties/C45.v — Unified patches apply and reproduce the target: FULL on hunk generation for every
   context size >= 1; for context size 0 the faithful model REFUTES the statement (replacement hunks get
   a new-side start one too small — known finding ctx0-replace-newpos) and the strongest true statement
   is proved as _partial.  Only statements here; proofs live in Proofs/C45_{apply,gen,stats}.v.

   Model (Model/Unified.v): hunksGenerator + hunk.writeTo + file headers + getFileStatsFromFilePatches.
   The line-diff chunk list is universally quantified; its contract: the chunk list IS the pair of
   versions (old = concat of Equal+Delete chunks, new = concat of Equal+Add chunks — by definition of
   old_lines/new_lines below) and it is normal: no empty chunk, adjacent chunks of different type
   (boolean guard [normal]; checked on every go-diff answer the check sees).
   Spec (Spec/HunkApply.v): strict-position application of hunks (positions on both sides, every
   context/deleted line compared, header counts checked). *)
From Coq Require Import List NArith ZArith Bool Arith.
From GoGit Require Import Base.Out Gen.C45 Model.Unified Spec.HunkApply Proofs.C45_apply Proofs.C45_gen Proofs.C45_stats.
Import ListNotations.

(* the hunks generated for ANY normal chunk list and ANY context size >= 1, applied strictly to the old
   lines, give exactly the new lines *)
Theorem C45_applies : forall ctx cs,
  (1 <= ctx)%nat -> normal cs = true ->
  strict_apply (generate ctx cs) (old_lines cs) = Some (new_lines cs).
Proof. intros ctx cs Hc Hn. apply generate_applies; [exact Hn|left; intros ->; inversion Hc]. Qed.
Print Assumptions C45_applies.

(* Patch.Encode uses DefaultContextLines (regenerated from the source): it is in the range of C45_applies *)
Theorem C45_default_context : forall cs,
  normal cs = true ->
  strict_apply (generate (Z.to_nat diff_DefaultContextLines) cs) (old_lines cs) = Some (new_lines cs).
Proof. intros cs Hn. apply C45_applies; [vm_compute; repeat constructor | exact Hn]. Qed.
Print Assumptions C45_default_context.

(* the line lists are the two versions: their concatenations are utils/diff Src and Dst of the chunks *)
Theorem C45_lines_are_the_versions : forall cs,
  concat (old_lines cs) = src_bytes cs /\ concat (new_lines cs) = dst_bytes cs.
Proof.
  intros cs. unfold old_lines, new_lines, src_bytes, dst_bytes.
  split; induction cs as [|[t s] r IH]; cbn [flat_map fst snd]; try reflexivity;
    rewrite concat_app, IH; destruct t; cbn [concat app]; rewrite ?split_lines_concat; reflexivity.
Qed.
Print Assumptions C45_lines_are_the_versions.

(* context size 0 (needs git apply --unidiff-zero): the full statement is FALSE of the code as it is *)
Definition ctx0_witness : list chunk := [(Equal, [97; 10]); (Delete, [98; 10]); (Add, [99; 10]); (Equal, [100; 10])]%N.
Theorem C45_applies_ctx0_refuted :
  normal ctx0_witness = true /\
  strict_apply (generate 0 ctx0_witness) (old_lines ctx0_witness) <> Some (new_lines ctx0_witness) /\
  map (fun h => (h_from h, h_fromc h, h_to h, h_toc h)) (generate 0 ctx0_witness) = [(2, 1, 1, 1)]%Z.
Proof. vm_compute. repeat split; discriminate. Qed.
Print Assumptions C45_applies_ctx0_refuted.

(* ... and holds whenever no hunk replaces lines (no Delete chunk next to an Add chunk) *)
Theorem C45_applies_ctx0_partial : forall cs,
  normal cs = true -> no_replace cs = true ->
  strict_apply (generate 0 cs) (old_lines cs) = Some (new_lines cs).
Proof. intros cs Hn Hr. apply generate_applies; auto. Qed.
Print Assumptions C45_applies_ctx0_partial.

(* the ranges printed in the hunk headers equal the number of old-side / new-side lines of the body *)
Theorem C45_counts : forall ctx cs,
  normal cs = true -> (ctx <> 0%nat \/ no_replace cs = true) ->
  Forall (fun h => h_fromc h = Z.of_nat (length (oldside (h_ops h))) /\
                   h_toc h = Z.of_nat (length (newside (h_ops h)))) (generate ctx cs).
Proof. intros ctx cs Hn Hc. eapply strict_apply_counts. apply generate_applies; eauto. Qed.
Print Assumptions C45_counts.

(* every added / deleted line of the chunk list is exactly one '+' / '-' line of the hunks, in order
   (ALL chunk lists, ALL context sizes) ... *)
Theorem C45_changes_preserved : forall ctx cs,
  changes (flat_map h_ops (generate ctx cs)) = flat_map chunk_changes cs.
Proof. exact generate_changes. Qed.
Print Assumptions C45_changes_preserved.

(* ... so the per-file statistics (additions, deletions) are the numbers of '+' and '-' lines of the patch *)
Theorem C45_numstat : forall ctx cs,
  stat_of Add cs = count_op Add (flat_map h_ops (generate ctx cs)) /\
  stat_of Delete cs = count_op Delete (flat_map h_ops (generate ctx cs)).
Proof. intros ctx cs. split; apply stats_count_patch_lines; discriminate. Qed.
Print Assumptions C45_numstat.

(* ---------- non-vacuity *)
Local Open Scope N_scope.
Definition L (n : N) : bytes := [64 + n; 10].
Definition ex_chunks : list chunk :=
  [(Equal, L 1 ++ L 2 ++ L 3 ++ L 4 ++ L 5); (Delete, L 6); (Add, L 7 ++ L 8);
   (Equal, L 9 ++ L 10 ++ L 11 ++ L 12 ++ L 13 ++ L 14 ++ L 15 ++ L 16); (Add, [81])].
Example C45_guard_holds : normal ex_chunks = true.
Proof. vm_compute. reflexivity. Qed.
Example C45_example_headers :
  map (fun h => (h_from h, h_fromc h, h_to h, h_toc h)) (generate 3 ex_chunks) = [(3, 7, 3, 8); (12, 3, 13, 4)]%Z.
Proof. vm_compute. reflexivity. Qed.
Example C45_example_applies :
  strict_apply (generate 3 ex_chunks) (old_lines ex_chunks) = Some (new_lines ex_chunks).
Proof. vm_compute. reflexivity. Qed.
(* the guard matters: an abnormal stream (two Delete chunks at the start) gets a wrong new-side start *)
Example C45_abnormal_fails :
  let cs := [(Delete, L 1); (Delete, L 2); (Equal, L 3)] in
  normal cs = false /\ strict_apply (generate 3 cs) (old_lines cs) = None.
Proof. vm_compute. split; reflexivity. Qed.
(* text of a hunk "@@ -2 +1,0 @@ a / -b / \ No newline at end of file" for old = "a\nb", new = "a\n" *)
Example C45_example_text :
  flat_map write_hunk (generate 0 [(Equal, [97; 10]); (Delete, [98])])
  = [64; 64; 32; 45; 50; 32; 43; 49; 44; 48; 32; 64; 64; 32; 97; 10; 45; 98; 10; 92; 32; 78; 111; 32; 110; 101; 119; 108; 105; 110; 101; 32; 97; 116; 32; 101; 110; 100; 32; 111; 102; 32; 102; 105; 108; 101; 10].
Proof. vm_compute. reflexivity. Qed.
