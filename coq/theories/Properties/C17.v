(* Properties/C17.v — All storage backends behave like the same abstract
   repository.  Only statements here; proofs live in Proofs/C17.v.

   G = Model/StorageAPI.v: mem_step (storage/memory) and fs_step
   (storage/filesystem + dotgit at API level; one model for every Options value
   and object format), S = spec_sstep (the abstract store of Spec/AStore.v).
   Answers are compared with [res_equiv]: listings up to order.

   Full statement (FALSE of the faithful models, see the _refuted theorems):
     forall U ops, the answers of run_ops (mem_step U), of run_ops (fs_step U)
     and of run_ops (spec_sstep U) from the empty repository are pairwise equal. *)
From Coq Require Import List NArith Bool Permutation.
From GoGit Require Import Base.Out Spec.AStore Model.StorageAPI Proofs.AStoreFacts Proofs.C17 Proofs.C17Loose.
Import ListNotations.
Local Open Scope N_scope.

(* memory: equal to the abstract store — state and answers — on every history
   whose CheckAndSetReference calls use one name for the new and the old
   reference (mem_ok) *)
Theorem C17_memory_refines_partial : forall U ops,
  mem_guards U st_empty ops = true ->
  run_ops (mem_step U) st_empty ops = run_ops (spec_sstep U) st_empty ops.
Proof. intros U ops. apply mem_run_spec. Qed.
Print Assumptions C17_memory_refines_partial.

(* ... with two names memory compares the value stored under the NEW name *)
Theorem C17_memory_guard_tight : forall U s n v on ov cn co,
  fm_get n (s_refs s) = Some cn -> fm_get on (s_refs s) = Some co ->
  rv_hash_eqb cn ov = false -> rv_hash_eqb co ov = true ->
  snd (mem_step U s (SBase (OCas n v on ov))) = RErr EChanged
  /\ snd (spec_sstep U s (SBase (OCas n v on ov))) = ROk.
Proof. exact mem_guard_tight. Qed.
Print Assumptions C17_memory_guard_tight.

(* filesystem: every answer equals the abstract store's, and the final state
   represents the abstract final state (FsRel: every name resolves to the
   abstract value, objects/index/config/shallow/reflogs are equal, no empty
   reference file, packed-refs well formed), on every history that passes
   fs_ok call by call; the only guarded call is
     CheckAndSetReference  a reference file exists, or the packed value matches old
   (PackRefs is unguarded since it keeps symbolic references loose) *)
Theorem C17_filesystem_refines_partial : forall U ops,
  fs_guards U fs_empty ops = true ->
  FsRel (fst (run_ops (fs_step U) fs_empty ops)) (fst (run_ops (spec_sstep U) st_empty ops))
  /\ Forall2 res_equiv (snd (run_ops (fs_step U) fs_empty ops)) (snd (run_ops (spec_sstep U) st_empty ops)).
Proof. intros U ops. apply fs_run_spec. apply FsRel_empty. Qed.
Print Assumptions C17_filesystem_refines_partial.

(* hence the two backends agree with each other on those histories *)
Theorem C17_backends_agree_partial : forall U ops,
  mem_guards U st_empty ops = true -> fs_guards U fs_empty ops = true ->
  Forall2 res_equiv (snd (run_ops (mem_step U) st_empty ops)) (snd (run_ops (fs_step U) fs_empty ops)).
Proof.
  intros U ops Hm Hf. rewrite (mem_run_spec U ops st_empty Hm).
  apply Forall2_equiv_sym. apply (fs_run_spec U ops fs_empty st_empty FsRel_empty Hf).
Qed.
Print Assumptions C17_backends_agree_partial.

(* ---- the full statement is false: witnesses (replayed on the real code by
   corpus/C17/witnesses.json) *)
Definition U1 : universe := fun _ => (3, 1).
Definition answers {St} (step : St -> sop -> St * res) (s : St) ops := snd (run_ops step s ops).

(* memory: CheckAndSetReference(new = a, old = (b, value of b)) is refused
   because a holds something else; the documented contract looks at old.Name() *)
Theorem C17_memory_refuted :
  exists ops, ~ Forall2 res_equiv (answers (mem_step U1) st_empty ops) (answers (spec_sstep U1) st_empty ops).
Proof.
  exists [SBase (OSetRef 0 (RHash 0)); SBase (OSetRef 1 (RHash 1)); SBase (OCas 0 (RHash 2) 1 (RHash 1))].
  vm_compute. intro H.
  inversion H as [|? ? ? ? _ H2]; subst. inversion H2 as [|? ? ? ? _ H3]; subst.
  inversion H3 as [|? ? ? ? HP _]; subst. discriminate.
Qed.
Print Assumptions C17_memory_refuted.

(* filesystem: the failed CheckAndSetReference leaves an empty reference file
   and the next listing fails *)
Theorem C17_filesystem_refuted_cas :
  exists ops, ~ Forall2 res_equiv (answers (fs_step U1) fs_empty ops) (answers (spec_sstep U1) st_empty ops).
Proof.
  exists [SBase (OCas 0 (RHash 1) 0 (RHash 0)); SBase OIterRefs]. vm_compute. intro H.
  inversion H as [|? ? ? ? _ H2]; subst. inversion H2 as [|? ? ? ? HP _]; subst. discriminate.
Qed.
Print Assumptions C17_filesystem_refuted_cas.

(* the former PackRefs witness (a loose symbolic reference used to be written
   into packed-refs as an unparsable line) now behaves like the abstract store *)
Example C17_packrefs_witness_repaired :
  let ops := [SBase (OSetRef 0 (RHash 0)); SBase (OSetRef 1 (RSym 0)); SPackRefs;
              SBase (OGetRef 0); SBase (OGetRef 1); SBase OIterRefs; SBase (ODelRef 0); SBase OIterRefs] in
  fs_guards U1 fs_empty ops = true
  /\ map o_res (answers (fs_step U1) fs_empty ops) = map o_res (answers (spec_sstep U1) st_empty ops).
Proof. vm_compute. split; reflexivity. Qed.

(* the two backends answer the same calls differently: after a refused
   CheckAndSetReference on an absent name the filesystem storer cannot list *)
Theorem C17_backends_agree_refuted :
  exists ops, ~ Forall2 res_equiv (answers (mem_step U1) st_empty ops) (answers (fs_step U1) fs_empty ops).
Proof.
  exists [SBase (OCas 0 (RHash 1) 0 (RHash 0)); SBase OIterRefs]. vm_compute. intro H.
  inversion H as [|? ? ? ? _ H2]; subst. inversion H2 as [|? ? ? ? HP _]; subst. discriminate.
Qed.
Print Assumptions C17_backends_agree_refuted.

(* ---- non-vacuity: a history with writes of every kind, packing, a CAS on a
   packed-only reference and a removal passes both guards *)
Example C17_guards_nonvacuous :
  let ops := [SBase (OSetRef 0 (RHash 0)); SBase (OSetRef 2 (RHash 1)); SPackRefs;
              SBase (OCas 0 (RHash 2) 0 (RHash 0)); SBase (OSetRef 1 (RSym 0)); SPackRefs; SBase OIterRefs;
              SBase (ODelRef 2); SBase (OGetRef 2); SBase (OSetObj 3); SAddPack [3; 4]; SBase (OIterObjs 0);
              SBase (OSetIdx 2); SBase (OSetCfg 1); SBase (OSetShallow [4]); SBase (OAppendLog 0 5);
              SReopen; SBase (OGetLog 0); SBase (OCas 1 (RHash 3) 1 (RSym 2));
              (* HEAD (name 4): set, CAS hash -> symbolic, PackRefs leaves it loose, listing *)
              SBase (OSetRef 4 (RHash 1)); SBase (OCas 4 (RSym 0) 4 (RHash 1)); SPackRefs; SBase (OGetRef 4);
              SBase OIterRefs; SBase (OCas 4 (RHash 2) 4 (RSym 5)); SBase (ODelRef 4)] in
  mem_guards U1 st_empty ops = true /\ fs_guards U1 fs_empty ops = true.
Proof. vm_compute. split; reflexivity. Qed.

(* ---- loose objects (storer.LooseObjectStorer: DeleteLooseObject, ForEachObjectHash)
   over the extended alphabet xop = storer call | XDelLoose k | XEachHash.
   The abstract store keeps the sets of loose and of packed copies next to the
   set of objects present (lw_step over spec_sstep); the filesystem model is
   lw_step over fs_step: the same guards as above are enough, deletion and
   enumeration are unguarded. *)
Theorem C17_loose_filesystem_refines_partial : forall U ops,
  xfs_guards U (lw_init fs_empty) ops = true ->
  LwRel (fst (run_xops (fs_step U) fs_del_obj (lw_init fs_empty) ops))
        (fst (run_xops (spec_sstep U) st_del_obj (lw_init st_empty) ops))
  /\ Forall2 res_equiv (snd (run_xops (fs_step U) fs_del_obj (lw_init fs_empty) ops))
                       (snd (run_xops (spec_sstep U) st_del_obj (lw_init st_empty) ops)).
Proof. intros U ops. apply xfs_run_spec. apply LwRel_empty. Qed.
Print Assumptions C17_loose_filesystem_refines_partial.

(* in every instance of the layer (abstract store, filesystem model): after a
   successful DeleteLooseObject(k) the next ForEachObjectHash does not see k *)
Theorem C17_loose_delete_then_enumerate : forall St (step : St -> sop -> St * res) del w k w',
  lw_step step del w (XDelLoose k) = (w', ROk) ->
  exists l, snd (lw_step step del w' XEachHash) = RIds l /\ nmem k l = false.
Proof. exact @lw_del_then_each. Qed.
Print Assumptions C17_loose_delete_then_enumerate.

(* memory has no loose objects: deletion is refused and changes nothing, the
   enumeration is the abstract store's listing of every object *)
Theorem C17_loose_memory : forall U s k,
  xmem_step U s (XDelLoose k) = (s, RErr ENotSupported)
  /\ xmem_step U s XEachHash = (s, snd (spec_sstep U s (SBase (OIterObjs 0)))).
Proof. exact xmem_loose. Qed.
Print Assumptions C17_loose_memory.

(* non-vacuity: write, pack, delete the loose copies (object 1 stays present
   through its pack, object 0 disappears), enumerate, delete again (refused) *)
Example C17_loose_nonvacuous :
  let ops := [XOp (SBase (OSetObj 0)); XOp (SBase (OSetObj 1)); XOp (SAddPack [1; 2]); XOp (SBase (OHasObj 0));
              XDelLoose 0; XEachHash; XOp (SBase (OIterObjs 0)); XDelLoose 1; XEachHash; XOp (SBase (OHasObj 1));
              XDelLoose 2; XDelLoose 0] in
  xfs_guards U1 (lw_init fs_empty) ops = true
  /\ map o_res (snd (run_xops (fs_step U1) fs_del_obj (lw_init fs_empty) ops))
     = [o_res (RNum 0); o_res (RNum 1); o_res ROk; o_res ROk; o_res ROk; o_res (RIds [1]); o_res (RIds [1; 2]);
        o_res ROk; o_res (RIds []); o_res ROk; o_res (RErr ENotExist); o_res (RErr ENotExist)].
Proof. vm_compute. split; reflexivity. Qed.
