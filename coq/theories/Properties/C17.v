(* Properties/C17.v — placeholder while the harness is brought up *)
From Coq Require Import List NArith Bool.
From GoGit Require Import Base.Out Spec.AStore Model.StorageAPI.
Import ListNotations.
Local Open Scope N_scope.

Theorem C17_placeholder : forall U s, spec_sstep U s SReopen = (s, ROk).
Proof. reflexivity. Qed.
Print Assumptions C17_placeholder.
