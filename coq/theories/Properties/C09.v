(* Properties/C09.v — Corrupt or malicious packs never yield wrong objects.
   Only statements here; proofs live in Proofs/C09.v.  The model is
   Model/PackParse.v (go-git's Scanner + Parser after the two `fix:` commits
   recorded in findings/C09.json).  [hs] is the object-id size, [Hsz] the digest,
   [inflate] zlib applied to the input at a content offset, [crc32] the CRC:
   the theorems hold for every instance of these four. *)
From Coq Require Import List NArith ZArith Bool String.
From GoGit Require Import Base.Out Model.PackBytes Model.Idx Model.PackParse Proofs.C09.
Import ListNotations.
Local Open Scope N_scope.

(* C09_sound: whatever Parser.Parse accepts, every object it announces
   - is named by the digest of "<type> <length>\0" ++ its own content (the length is
     the real one: equal to the size announced for it),
   - lies on a delta chain of exactly [r_depth o] links ([Resolves] counts them), at most maxDeltaChainDepth,
   - is what the declared delta structure says ([Resolves]: whole entries stand for their
     inflated bytes, an OFS/REF delta for apply_delta of what its base stands for, external
     bases come from the store). *)
Theorem C09_sound : forall hs Hsz inflate crc32 ext pack objs sum,
  parse hs Hsz inflate crc32 ext pack = Some (objs, sum) ->
  exists es, scan_pack hs Hsz inflate crc32 pack = Some (es, sum) /\
  forall o, In o objs ->
    r_id o = obj_id hs Hsz (r_type o) (blen (r_content o)) (r_content o) /\
    r_size o = blen (r_content o) /\ r_depth o <= MAX_DEPTH /\
    Resolves hs Hsz es ext (r_off o) (r_type o) (r_content o) (r_depth o).
Proof. exact parse_sound. Qed.
Print Assumptions C09_sound.

(* C09_rejects_what_git_rejects, structural part: an accepted pack has the signature, version 2,
   a trailer equal to the digest of everything before it, and every entry
   - inflates to exactly its declared size (neither longer nor shorter),
   - if OFS delta: names a base strictly between the pack start and itself (no cycles, no forward
     or out-of-pack references),
   - if REF delta: carries an id of the format's size,
   - if whole: got the id of its content.
   Contrapositive: a pack violating any of these is rejected. *)
Theorem C09_accepted_is_wellformed : forall hs Hsz inflate crc32 pack es sum,
  scan_pack hs Hsz inflate crc32 pack = Some (es, sum) ->
  firstn 4 pack = PACK_SIG /\ get32 (firstn 4 (skipn 4 pack)) = PACK_VERSION /\
  Forall (entry_ok hs Hsz) es /\
  exists pos, sum = Hsz hs (firstn (N.to_nat pos) pack) /\ firstn hs (skipn (N.to_nat pos) pack) = sum.
Proof. exact scan_pack_wellformed. Qed.
Print Assumptions C09_accepted_is_wellformed.

(* patchDeltaWriter (after the fix) writes exactly the number of bytes the delta announces *)
Theorem C09_delta_exact_length : forall src delta tsz out,
  apply_delta src delta = Some (tsz, out) -> blen out = tsz.
Proof. exact apply_delta_length. Qed.
Print Assumptions C09_delta_exact_length.

(* C09_depth: the limit is the regenerated constant; a chain one link longer is refused because
   [r_depth o <= MAX_DEPTH] holds for every announced object (C09_sound) *)
Example C09_depth_limit : MAX_DEPTH = 4095.
Proof. reflexivity. Qed.

(* ---- non-vacuity: a three-entry pack (blob, OFS delta, REF delta on the OFS delta) is accepted
   by the model instantiated with SHA-1, CRC-32 and the zlib table of the case ---- *)
Example C09_example_accepts :
  render (c08_parse 20
    "5041434b00000002000000033b789ccb48cdc9c95728484ccee60200192703de6a14789ce31698c0cd9a9b5f94ca05000bfa027976fce672dc7cc326631c266fd6d879e8ba786bbe80789c13109c20c0a80800034e00e47466a0871b57794ddf9ead793ed60ef4e7c149aa"
    [Z3 13 "68656c6c6f207061636b0a" 19; Z3 34 "0b10900b056d6f72650a" 18; Z3 73 "101190100121" 14] [])
  = "( ok x7466a0871b57794ddf9ead793ed60ef4e7c149aa ( ( 12 blob 11 xa100066be52779fa28f31d8ef9860baf1ae87acf 1925455504 ) ( 32 blob 16 xfce672dc7cc326631c266fd6d879e8ba786bbe80 205891337 ) ( 52 blob 17 x24ac75e23aee11060f476420464e1ba986fbc2a2 714845278 ) ) x91f659dddb627cc332439ab5086ca056ad4e130b x97e71925cbeefbb5db0facf556c20aae0f136842 )"%string.
Proof. vm_compute. reflexivity. Qed.

(* the witness of the repaired defect: an entry declaring 10 bytes that inflates to 5 is now rejected *)
Example C09_short_inflate_rejected :
  render (c08_parse 20
    "5041434b00000002000000013a789c3334323631050002f801008b4314809b556bf8d158e333f570e0e4732f4f42"
    [Z3 13 "3132333435" 13] [])
  = "( err reject )"%string.
Proof. vm_compute. reflexivity. Qed.
