(* Properties/C38.v — Push transfers complete history and respects update
   rules: the decision logic (partial by design: transports and servers are
   exercised, not proved).  Only statements here; proofs live in Proofs/C38.v.

   Model: Model/PushRules.push = PushOptions.Validate (refspecs) + Remote.sendPack
   up to the request handed to the transport (commands + objects packed). *)
From Coq Require Import List NArith ZArith Bool String.
From GoGit Require Import Base.Out Model.RefSpec Model.RevList Model.PushRules Spec.ObjReach Proofs.C37 Proofs.C38.
Import ListNotations.
Local Open Scope string_scope.
Local Open Scope N_scope.

(* Every command of a push that goes out
   - carries the value the remote advertised (or zero for a name it does not have);
   - if it deletes: an explicit delete refspec names it, or prune is on and the
     reversed refspec maps it to no local reference;
   - otherwise: it is what some refspec in effect asks for (a matching local
     reference, or an object named by hash), and that refspec is forced, or a
     force-with-lease covering this very name holds, or the tag rule and the
     fast-forward check both pass. *)
Theorem C38_rules : forall st sh hexes local remote o cmds hs,
  push st sh hexes local remote o = POk (cmds, hs) ->
  Forall (cmd_ok st sh hexes local remote (eff_specs o) (po_prune o) (po_lease o)) cmds.
Proof. exact push_cmds_ok. Qed.
Print Assumptions C38_rules.

(* In a repository that is not shallow, a passed fast-forward check means what
   it says: the reference is new on the remote, or the advertised commit is an
   ancestor (through stored commits) of the commit being pushed. *)
Theorem C38_ff_partial : forall st remote c,
  check_ff st [] remote c = true ->
  (k_old c = 0 /\ ref_get remote (k_name c) = None) \/ anc st (k_new c) (k_old c).
Proof.
  intros st remote c H. unfold check_ff in H. destruct (k_old c =? 0) eqn:E.
  - left. apply N.eqb_eq in E. split; [exact E|]. destruct (ref_get remote (k_name c)); [discriminate | reflexivity].
  - right. destruct (is_ff st [] (k_old c) (k_new c)) as [b|] eqn:F; [|discriminate]. subst b. now apply is_ff_sound.
Qed.
Print Assumptions C38_ff_partial.

(* ... and the full statement (for every repository) is false of the code: in a
   shallow repository isFastForward answers yes when the walk meets a shallow
   commit without finding the advertised one.  Z(7) -> X(4, shallow) -> P(3,
   not stored); the remote is at 8, a commit this repository has never seen. *)
Definition shallow_store : store :=
  [(1, Blob); (2, Tree [mkE 97 KFile 1]); (4, Commit 2 [3] 1000%Z);
   (5, Blob); (6, Tree [mkE 97 KFile 5]); (7, Commit 6 [4] 1010%Z)].

Theorem C38_shallow_ff_refuted :
  check_ff shallow_store [4] [(s2b "refs/heads/main", RHash 8)] (mkCmd (s2b "refs/heads/main") 8 7) = true /\
  ~ anc shallow_store 7 8.
Proof.
  split; [vm_compute; reflexivity|].
  intro H. inversion H as [|a t ps tm p b G Hp Hr]; subst.
  vm_compute in G. inversion G; subst. destruct Hp as [<-|[]].
  inversion Hr as [|a t ps tm p b G' Hp' Hr']; subst.
  vm_compute in G'. inversion G'; subst. destruct Hp' as [<-|[]].
  inversion Hr' as [|a t ps tm p b G'' _ _]; subst. vm_compute in G''. discriminate.
Qed.
Print Assumptions C38_shallow_ff_refuted.

(* force-with-lease: an update let through by the lease has the advertised
   value the lease expects — the explicit hash, or the remote-tracking reference *)
Theorem C38_lease : forall local ln c l,
  check_lease local ln c l = true ->
  beq_bytes (l_ref l) [] = true \/ beq_bytes (l_ref l) (k_name c) = true ->
  exists tracked,
    resolve_ref (S (Datatypes.length local)) local (REMOTES_ORIGIN ++ remove_all HEADS O ln)%list = Some tracked /\
    k_old c = (if l_hash l =? 0 then tracked else l_hash l).
Proof.
  intros local ln c l H Hc. unfold check_lease in H.
  destruct (resolve_ref (S (Datatypes.length local)) local (REMOTES_ORIGIN ++ remove_all HEADS O ln)%list) as [tr|]; [|discriminate].
  exists tr. split; [reflexivity|].
  assert (E : beq_bytes (l_ref l) [] || beq_bytes (l_ref l) (k_name c) = true) by (apply orb_true_iff; exact Hc).
  rewrite E in H. now apply N.eqb_eq in H.
Qed.
Print Assumptions C38_lease.

(* the objects packed cover the pushed history (C37 on the push side): every
   object reachable from a pushed value and not from what the remote advertised
   (or, as the code has it, from a local shallow commit) is in the pack *)
Theorem C38_objects_complete : forall st sh hexes local remote o cmds hs,
  wf_store st = true ->
  push st sh hexes local remote o = POk (cmds, hs) ->
  forallb rs_delete (match po_specs o with [] => [DEFAULT_PUSH] | l => l end) = false ->
  forall x, reach_set st sh (cmd_news cmds) x -> ~ reach_set st sh (remote_hashes remote ++ sh)%list x -> In x hs.
Proof.
  intros st sh hexes local remote o cmds hs Hwf H ND x Hx Hn.
  eapply complete; eauto. eapply push_objects; eauto.
Qed.
Print Assumptions C38_objects_complete.

(* "exactly the requested updates, each once" is false of the code when two
   refspecs map to one destination: two commands for refs/heads/x *)
Theorem C38_duplicate_dst_refuted :
  exists cmds hs,
    push [(1, Blob); (2, Tree [mkE 97 KFile 1]); (3, Commit 2 [] 1%Z); (4, Commit 2 [3] 2%Z)] [] []
         [(s2b "refs/heads/a", RHash 3); (s2b "refs/heads/b", RHash 4)] []
         (mkPO [s2b "refs/heads/a:refs/heads/x"; s2b "refs/heads/b:refs/heads/x"] false false None true)
    = POk (cmds, hs) /\ ~ NoDup (map k_name cmds).
Proof.
  eexists. eexists. split; [vm_compute; reflexivity|].
  intro H. inversion H as [|x l Hn _]; subst. apply Hn. now left.
Qed.
Print Assumptions C38_duplicate_dst_refuted.

(* ---- non-vacuity and the two repaired defects ---- *)
(* A(3) <- B(6), A <- C(9): the remote is at B, the local branch at C *)
Definition div_store : store :=
  [(1, Blob); (2, Tree [mkE 97 KFile 1]); (3, Commit 2 [] 1000%Z);
   (4, Blob); (5, Tree [mkE 97 KFile 4]); (6, Commit 5 [3] 1010%Z);
   (7, Blob); (8, Tree [mkE 97 KFile 7]); (9, Commit 8 [3] 1020%Z)].
Definition MAIN : bytes := s2b "refs/heads/main".

(* an unforced non-fast-forward is refused ... *)
Example C38_nonff_refused :
  push div_store [] [] [(MAIN, RHash 9)] [(MAIN, RHash 6)]
       (mkPO [s2b "refs/heads/main:refs/heads/main"] false false None true) = PErr PRejected.
Proof. vm_compute. reflexivity. Qed.

(* ... also when a force-with-lease names ANOTHER reference (repaired: it used to go through) ... *)
Example C38_lease_other_ref_refused :
  push div_store [] [] [(MAIN, RHash 9); (s2b "refs/remotes/origin/main", RHash 3)] [(MAIN, RHash 6)]
       (mkPO [s2b "refs/heads/main:refs/heads/main"] false false (Some (mkLease (s2b "refs/heads/other") 0)) true)
  = PErr PRejected.
Proof. vm_compute. reflexivity. Qed.

(* ... a fast-forward goes out with the objects the remote lacks ... *)
Example C38_ff_pushed :
  push div_store [] [] [(MAIN, RHash 9)] [(MAIN, RHash 3)]
       (mkPO [s2b "refs/heads/main:refs/heads/main"] false false None true)
  = POk ([mkCmd MAIN 3 9], [7; 8; 9]).
Proof. vm_compute. reflexivity. Qed.

(* ... and prune with a forced wildcard deletes only what is gone locally (repaired:
   RefSpec.Reverse used to move the '+' into the destination and every branch was deleted) *)
Example C38_prune_forced :
  push div_store [] [] [(MAIN, RHash 6); (s2b "refs/heads/dev", RHash 9)]
       [(MAIN, RHash 3); (s2b "refs/heads/dev", RHash 9); (s2b "refs/heads/old", RHash 3)]
       (mkPO [s2b "+refs/heads/*:refs/heads/*"] false true None true)
  = POk ([mkCmd MAIN 3 6; mkCmd (s2b "refs/heads/old") 3 0], [4; 5; 6]).
Proof. vm_compute. reflexivity. Qed.
