(* Properties/C28.v — Add, remove, move, clean and commit produce git's index and trees.
   Only statements here; proofs live in Proofs/C28.v.
   G = Model/IndexOps.v (go-git as it is, on the flattened state of Model/Status.v),
   S = Spec/GitIndexOps.v (the equivalent git commands).

   FULL STATEMENT: for every state s and operation,
     g_add s p = s_add s p,  g_add_all s = s_add_all s,  g_rm s p = s_rm s p,
     g_mv s a b = s_mv s a b,  g_clean s d = s_clean s d  (index entries and remaining files),
     g_commit_files s = s_tree_files s  (the tree git write-tree would record).
   It is FALSE of the faithful model: every *_refuted theorem below exhibits a
   state (replayed on the implementation, known findings of C28).  Proved here:
   write-tree / commit for arbitrary nesting (C28_write_tree), and the operations
   whose guard is simple (rm of a file, mv, clean -d), add (file / directory /
   All / any list of names) up to cached stat data, rm of a directory, clean
   without -d under explicit boolean guards. *)
From Coq Require Import List NArith ZArith Bool String.
From Coq Require Import Permutation.
From GoGit Require Import Base.Out Model.Status Model.IndexOps Spec.GitStatus Spec.GitIndexOps Proofs.C27 Proofs.C28 Proofs.C28Tree.
From GoGit Require Import Proofs.C28Add Proofs.C28AddCor.
From GoGit Require Import Model.CommitHead Spec.GitCommitHead Proofs.C28Head.
From GoGit Require Model.TreeObj Model.WriteTree Spec.GitWriteTree Proofs.C28Order.
From GoGit Require Import Model.IndexGlob Spec.GitIndexGlob Proofs.C28Glob.
From GoGit Require Proofs.C28IdFlat.
From GoGit Require Import Proofs.C28Mv.
Import ListNotations.
Local Open Scope N_scope.

(* --- commit: for EVERY index whose paths are normal (non-empty components, the
   path is its own last joined prefix) and where no entry's path is a directory
   of another entry (no D/F conflict), the files recorded in the trees BuildTree
   builds are exactly the index entries with a non-zero id — any nesting depth,
   any number of entries, duplicates (stages) included *)
Theorem C28_write_tree : forall s,
  tree_guard (st_index s) = true ->
  Permutation (g_commit_files s) (map proj (filter nonzero (st_index s))).
Proof. exact write_tree_nested. Qed.
Print Assumptions C28_write_tree.

(* ... hence git's write-tree content when no entry is intent-to-add *)
Theorem C28_write_tree_git_partial : forall s,
  tree_guard (st_index s) = true ->
  forallb (fun e => nonzero e && negb (ie_ita e)) (st_index s) = true ->
  Permutation (g_commit_files s) (s_tree_files s).
Proof.
  intros s G H. eapply perm_trans; [apply write_tree_nested; exact G|].
  unfold s_tree_files. apply Permutation_refl'. clear G.
  induction (st_index s) as [|e i IH]; [reflexivity|].
  cbn [forallb] in H. apply andb_true_iff in H as [He H]. apply andb_true_iff in He as [H1 H2].
  cbn [filter]. rewrite H1, H2. cbn [map]. f_equal. now apply IH.
Qed.
Print Assumptions C28_write_tree_git_partial.

(* --- commit: for an index of top-level entries BuildTree records exactly the
   entries with a non-zero id, in index order (duplicates included: h.entries is never written) *)
Theorem C28_write_tree_flat_partial : forall s,
  forallb flat_entry (st_index s) = true ->
  g_commit_files s = map proj (filter nonzero (st_index s)).
Proof. exact write_tree_flat. Qed.
Print Assumptions C28_write_tree_flat_partial.

(* ... which is git's write-tree when no entry is intent-to-add *)
Theorem C28_write_tree_flat_git_partial : forall s,
  forallb flat_entry (st_index s) = true ->
  forallb (fun e => nonzero e && negb (ie_ita e)) (st_index s) = true ->
  g_commit_files s = s_tree_files s.
Proof. exact write_tree_flat_git. Qed.
Print Assumptions C28_write_tree_flat_git_partial.

Definition pa : path := [97].
Definition pd : path := [100].
Definition pdx : path := [100; 47; 120].
Definition pdy : path := [100; 47; 121].
Definition st0 (filemode : bool) (h : list tentry) (i : list ientry) (w : list wfile) : state :=
  mkState 0 filemode 100 h i w.

(* intent-to-add entry: go-git commits the empty blob, git leaves the path out *)
Theorem C28_ita_refuted : exists s,
  g_commit_files s = [(pa, MReg, mkHash 0 0)] /\ s_tree_files s = [].
Proof. exists (st0 true [] [mkI pa MReg (mkHash 0 0) 0 1 true] [mkW pa MReg 1 2 5 false false]). split; reflexivity. Qed.
Print Assumptions C28_ita_refuted.

(* a symbolic link named .gitignore (.gitattributes, .mailmap, .gitmodules): go-git
   refuses to write the tree, git write-tree records it *)
Theorem C28_commit_symlink_refuted : exists s, g_commit s = None /\ List.length (s_tree_files s) = 1%nat.
Proof.
  exists (st0 true [] [mkI (bytes_of_string ".gitignore") MLink (mkHash 0 1) 3 5 false] []). split; reflexivity.
Qed.
Print Assumptions C28_commit_symlink_refuted.

(* otherwise Commit records the tree of C28_write_tree *)
Theorem C28_commit_files : forall s,
  existsb symlink_meta (st_index s) = false -> g_commit s = Some (g_commit_files s).
Proof. intros s H. unfold g_commit. now rewrite H. Qed.
Print Assumptions C28_commit_files.

(* --- commit: the trees in LIST form.  Model/WriteTree.v: every directory's entries are
   sorted by sortName (TreeObj.sort_entries), the sub-trees written first, the tree encoded by
   Tree.Encode and named by SHA-1 — g_write_tree computes the root id from the contents of the
   case; Spec/GitWriteTree.v transcribes cache-tree.c and computes git's id.  Both ids are
   compared with the implementation and with `git write-tree` on every commit case.
   Proved: for entries whose names git can store (no NUL, no '/') the order BuildTree gives a
   directory is the order git's base_name_compare requires, for every directory of every tree *)
Theorem C28_tree_order : forall es,
  forallb C28Order.entry_plain es = true -> C28Order.ordered_git (TreeObj.sort_entries es) = true.
Proof. exact C28Order.sort_ordered. Qed.
Print Assumptions C28_tree_order.

(* base_name_compare is the byte order of the sort names (name, plus '/' for a directory) *)
Theorem C28_base_name_compare : forall n1 n2 m1 m2,
  C28Order.plain n1 = true -> C28Order.plain n2 = true ->
  C28Order.mode_plain m1 = true -> C28Order.mode_plain m2 = true ->
  GitWriteTree.base_name_compare n1 m1 n2 m2 =
  C28Order.lexcmp (n1 ++ C28Order.suffix_of m1) (n2 ++ C28Order.suffix_of m2).
Proof. exact C28Order.bnc_lex. Qed.
Print Assumptions C28_base_name_compare.

(* tree ids: for an index of distinct top-level entries (non-zero ids, none intent-to-add) the id
   BuildTree returns — per-directory sort, Tree.Validate, Tree.Encode, SHA-1 — is the id the
   transcription of git's cache-tree computes.  For nested directories the two ids are computed by
   the model and by the spec on every commit case and compared with the implementation and with
   `git write-tree`; their equality is not proved *)
Theorem C28_write_tree_id_flat_partial : forall tbl i gid,
  C28IdFlat.flat_id_guard i = true ->
  WriteTree.g_write_tree tbl i = Some gid -> GitWriteTree.s_write_tree tbl i = Some gid.
Proof. exact C28IdFlat.write_tree_id_flat. Qed.
Print Assumptions C28_write_tree_id_flat_partial.

(* two files "b" and "a" (contents "1\n", "2\n") staged in that order: the tree id is git's *)
Example C28_write_tree_id_inhabited :
  let tbl := [[]; [49; 10]; [50; 10]] in
  let i := [mkI [98] MReg (mkHash 0 1) 2 5 false; mkI [97] MExec (mkHash 0 2) 2 5 false] in
  C28IdFlat.flat_id_guard i = true /\
  option_map hex_of_bytes (WriteTree.g_write_tree tbl i) = option_map hex_of_bytes (GitWriteTree.s_write_tree tbl i) /\
  (exists id, WriteTree.g_write_tree tbl i = Some id /\ List.length id = 20%nat).
Proof. vm_compute. repeat split; try reflexivity. eexists. split; reflexivity. Qed.

(* a.b < a/ (directory a) < a0 : the classic case where the directory does not sort as "a" *)
Example C28_tree_order_inhabited :
  let es := [TreeObj.mkT 16384%Z [97] [1]; TreeObj.mkT 33188%Z [97; 48] [2]; TreeObj.mkT 33188%Z [97; 46; 98] [3]] in
  forallb C28Order.entry_plain es = true /\
  map TreeObj.t_name (TreeObj.sort_entries es) = [[97; 46; 98]; [97]; [97; 48]].
Proof. vm_compute. split; reflexivity. Qed.

(* --- commit: parents and the reference update.  For every repository state (HEAD
   symbolic or detached, branch born or not, any commit table) and options
   without explicit parents: Commit fails / creates the commit with exactly the
   parents git commit records, and advances the branch HEAD names (creating it
   when unborn) or HEAD itself when detached — under the guard: no merge in
   progress, the index is empty iff its tree is the empty tree, an amended
   commit is not a merge *)
Theorem C28_commit_head : forall r o tree idx_empty,
  commit_head_guard r o tree idx_empty = true ->
  g_commit_head r o tree idx_empty = s_commit_head r o tree.
Proof. exact commit_head_eq. Qed.
Print Assumptions C28_commit_head.

(* what a successful Commit does to the references: the commit's first parent is
   the old HEAD (or HEAD's parents when amending), and only the reference HEAD
   designates changes *)
Theorem C28_commit_head_update : forall r o tree e t ps r',
  g_commit_head r o tree e = COk t ps r' ->
  t = tree /\ r' = update_head r NEW /\ head_of r' = Some NEW /\
  (r_sym r = true -> r_detached r' = r_detached r) /\ (r_sym r = false -> r_branch r' = r_branch r) /\
  (o_amend o = false -> o_parents o = [] -> ps = match head_of r with Some h => [h] | None => [] end).
Proof.
  intros r o tree e t ps r'. unfold g_commit_head.
  destruct (o_all o && o_amend o); [discriminate|].
  destruct (o_amend o && negb (is_nil (o_parents o))); [discriminate|].
  set (P := if o_amend o then _ else _). destruct P as [err|ps0] eqn:EP; [discriminate|].
  destruct (is_nil ps0 && e && negb (o_allow_empty o)); [discriminate|].
  set (Q := match ps0 with [] => _ | _ => _ end). destruct Q as [err|pt]; [discriminate|].
  destruct ((tree =? pt) && negb (o_allow_empty o)); [discriminate|].
  intros H. inversion H; subst. repeat split.
  - unfold update_head, head_of. destruct (r_sym r); reflexivity.
  - intros S. unfold update_head. rewrite S. reflexivity.
  - intros S. unfold update_head. rewrite S. reflexivity.
  - intros A Pn. subst P. rewrite A, Pn in EP. now inversion EP.
Qed.
Print Assumptions C28_commit_head_update.

(* a merge in progress: go-git records one parent, git two *)
Theorem C28_commit_merge_head_refuted : exists r o tree,
  g_commit_head r o tree false = COk tree [1] (update_head r NEW) /\
  s_commit_head r o tree = COk tree [1; 3] (update_head r NEW).
Proof. exists (mk_repo 1 1 1 true), (mkOpts false false false []), 2. split; reflexivity. Qed.
Print Assumptions C28_commit_merge_head_refuted.

(* amending a merge commit without changing its tree: go-git refuses, git accepts *)
Theorem C28_commit_amend_merge_refuted : exists r o tree,
  g_commit_head r o tree false = CErr EEmpty /\ s_commit_head r o tree = COk tree [2; 4] (update_head r NEW).
Proof. exists (mk_repo 1 3 1 false), (mkOpts false true false []), 1. split; reflexivity. Qed.
Print Assumptions C28_commit_amend_merge_refuted.

Example C28_commit_head_inhabited :
  commit_head_guard (mk_repo 0 0 1 false) (mkOpts false false false []) 2 false = true /\
  commit_head_guard (mk_repo 2 2 1 false) (mkOpts false true false []) 2 false = true /\
  g_commit_head (mk_repo 0 0 1 false) (mkOpts false false false []) 2 false =
    COk 2 [] (mkRepo true (Some NEW) None [] None) /\
  (exists r', g_commit_head (mk_repo 2 2 1 false) (mkOpts false true false []) 2 false = COk 2 [2] r' /\
              r_detached r' = Some NEW /\ r_branch r' = Some 1).
Proof. vm_compute. repeat split; try reflexivity. eexists. repeat split; reflexivity. Qed.

(* --- rm of a tracked file that is not a directory in the worktree *)
Theorem C28_rm_file_eq : forall s p,
  is_some (find_i (st_index s) p) = true ->
  is_dir_wt s p && negb (has_file s p) = false ->
  existsb (fun f => under (wf_path f) p) (st_wt s) = false ->
  g_rm s p = s_rm s p.
Proof. exact rm_file_eq. Qed.
Print Assumptions C28_rm_file_eq.

(* rm of a directory: an entry whose file is already gone survives *)
Theorem C28_rm_dir_missing_refuted : exists s,
  (exists s', g_rm s pd = ROk s' /\ is_some (find_i (st_index s') pdy) = true) /\
  (exists s', s_rm s pd = ROk s' /\ st_index s' = []).
Proof.
  exists (st0 true [] [mkI pdx MReg (mkHash 0 1) 2 5 false; mkI pdy MReg (mkHash 0 2) 2 5 false]
              [mkW pdx MReg 1 2 5 false false]).
  split; eexists; split; reflexivity.
Qed.
Print Assumptions C28_rm_dir_missing_refuted.

(* rm of an entry whose parent directory has been replaced by a file: go-git fails and keeps it *)
Theorem C28_rm_below_file_refuted : exists s s', g_rm s [97; 47; 98] = RErr s /\ s_rm s [97; 47; 98] = ROk s' /\ st_index s' = [].
Proof.
  eexists (st0 true [] [mkI [97; 47; 98] MReg (mkHash 0 1) 2 5 false] [mkW pa MReg 2 2 9 false false]), _.
  repeat split; reflexivity.
Qed.
Print Assumptions C28_rm_below_file_refuted.

(* rm of a tracked directory that is already gone from the worktree: go-git fails, git unstages its entries *)
Theorem C28_rm_deleted_dir_refuted : exists s s', g_rm s pd = RErr s /\ s_rm s pd = ROk s' /\ st_index s' = [].
Proof.
  eexists (st0 true [] [mkI pdx MReg (mkHash 0 1) 2 5 false] []), _. repeat split; reflexivity.
Qed.
Print Assumptions C28_rm_deleted_dir_refuted.

(* rm of a directory without tracked files: go-git succeeds, git fails *)
Theorem C28_rm_untracked_dir_refuted : exists s s', g_rm s pd = ROk s' /\ s_rm s pd = RErr s.
Proof. eexists (st0 true [] [] [mkW pdx MReg 1 2 5 false false]), _. split; reflexivity. Qed.
Print Assumptions C28_rm_untracked_dir_refuted.

(* --- mv of a file that is as staged, into an existing directory: equal to git mv *)
Theorem C28_mv_eq_partial : forall s from to, mv_guard s from to = true -> g_mv s from to = s_mv s from to.
Proof. exact mv_eq. Qed.
Print Assumptions C28_mv_eq_partial.

(* mv onto a destination that Lstat does not find but the index still holds (tracked file deleted from the
   worktree, deletion not staged): the entry of `to` is replaced, not doubled — an index with one entry per
   path keeps one entry per path, exactly one named `to` (with the id of the source entry), none named `from`,
   every other path untouched, and the index is one entry shorter when `to` was tracked *)
Theorem C28_mv_replaces_tracked_dest : forall s from to s',
  uniq_idx (st_index s) -> g_mv s from to = ROk s' ->
  uniq_idx (st_index s') /\ count_path (st_index s') to = 1%nat /\ count_path (st_index s') from = 0%nat /\
  (exists e e', find_i (st_index s) from = Some e /\ find_i (st_index s') to = Some e' /\ ie_hash e' = ie_hash e) /\
  (forall q, bytes_eqb from q = false -> bytes_eqb to q = false -> find_i (st_index s') q = find_i (st_index s) q) /\
  List.length (st_index s') = (if IndexOps.is_some (find_i (st_index s) to) then List.length (st_index s) - 1 else List.length (st_index s))%nat.
Proof. exact mv_replaces_tracked_dest. Qed.
Print Assumptions C28_mv_replaces_tracked_dest.

(* mv of a modified file: the entry keeps the old id but takes the new file's
   stat data, so the metadata shortcut then calls the modified file clean *)
Theorem C28_mv_stat_refuted : exists s s' e f,
  g_mv s pa [98] = ROk s' /\ find_i (st_index s') [98] = Some e /\ find_w (st_wt s') [98] = Some f /\
  metadata_matches s' e f = true /\ (h_cid (ie_hash e) =? wf_cid f) = false.
Proof.
  eexists (st0 true [mkT pa MReg (mkHash 0 1)] [mkI pa MReg (mkHash 0 1) 2 5 false] [mkW pa MReg 2 2 9 false false]), _, _, _.
  repeat split; reflexivity.
Qed.
Print Assumptions C28_mv_stat_refuted.

(* mv into a directory that does not exist: go-git creates it, git refuses *)
Theorem C28_mv_mkdir_refuted : exists s s', g_mv s pa pdx = ROk s' /\ s_mv s pa pdx = RErr s.
Proof.
  eexists (st0 true [] [mkI pa MReg (mkHash 0 1) 2 5 false] [mkW pa MReg 1 2 5 false false]), _.
  split; reflexivity.
Qed.
Print Assumptions C28_mv_mkdir_refuted.

(* --- clean -d removes exactly what git clean -f -d removes, when the ignore
   verdicts agree (no .git/info/exclude effect) and no index entry names a
   directory of the worktree *)
Theorem C28_clean_d_eq_partial : forall s, clean_guard s = true -> g_clean s true = s_clean s true.
Proof. exact clean_d_eq. Qed.
Print Assumptions C28_clean_d_eq_partial.

(* clean without Dir: untracked files inside tracked directories stay *)
Theorem C28_clean_subdir_refuted : exists s s1 s2,
  g_clean s false = ROk s1 /\ s_clean s false = ROk s2 /\ st_wt s1 = st_wt s /\ List.length (st_wt s2) = 1%nat.
Proof.
  eexists (st0 true [] [mkI pdx MReg (mkHash 0 1) 2 5 false] [mkW pdx MReg 1 2 5 false false; mkW pdy MReg 2 2 9 false false]), _, _.
  repeat split; reflexivity.
Qed.
Print Assumptions C28_clean_subdir_refuted.

(* an empty directory excluded by .gitignore is removed by Clean{Dir}, kept by git clean -f -d *)
Theorem C28_clean_ignored_dir_refuted : exists dirs,
  g_clean_empty_dirs dirs = [] /\ s_clean_empty_dirs dirs = [[98; 117; 105; 108; 100; 47; 101]].
Proof. exists [([98; 117; 105; 108; 100; 47; 101], true); ([101], false)]. split; reflexivity. Qed.
Print Assumptions C28_clean_ignored_dir_refuted.

(* --- add *)
(* a file below a path that is an index entry: go-git keeps the stale entry
   (directory/file conflict in the index), git drops it *)
Theorem C28_add_below_tracked_file_refuted : exists s s1 s2,
  g_add s [97; 47; 98] = ROk s1 /\ s_add s [97; 47; 98] = ROk s2 /\
  map ie_path (st_index s1) = [pa; [97; 47; 98]] /\ map ie_path (st_index s2) = [[97; 47; 98]].
Proof.
  eexists (st0 true [mkT pa MReg (mkHash 0 1)] [mkI pa MReg (mkHash 0 1) 2 5 false] [mkW [97; 47; 98] MReg 2 1 9 false false]), _, _.
  repeat split; reflexivity.
Qed.
Print Assumptions C28_add_below_tracked_file_refuted.

(* (C28_rm_untracked_dir_refuted above differs from git only in the result tag —
   neither side changes anything — and is not a finding: the property is about
   index entries and remaining files) *)

(* an ignored untracked file named explicitly is staged; git refuses *)
Theorem C28_add_ignored_refuted : exists s s', g_add s pa = ROk s' /\ st_index s' <> [] /\ s_add s pa = RErr s.
Proof.
  eexists (st0 true [] [] [mkW pa MReg 1 2 5 true true]), _. split; [reflexivity|]. split; [discriminate|reflexivity].
Qed.
Print Assumptions C28_add_ignored_refuted.

(* core.fileMode=false: the executable bit found on disk is recorded *)
Theorem C28_add_filemode_refuted : exists s s1 s2,
  g_add s pa = ROk s1 /\ s_add s pa = ROk s2 /\
  option_map ie_mode (find_i (st_index s1) pa) = Some MExec /\ option_map ie_mode (find_i (st_index s2) pa) = Some MReg.
Proof.
  eexists (st0 false [mkT pa MReg (mkHash 0 1)] [mkI pa MReg (mkHash 0 1) 2 5 false] [mkW pa MExec 2 2 9 false false]), _, _.
  repeat split; reflexivity.
Qed.
Print Assumptions C28_add_filemode_refuted.

(* a tracked file replaced by a directory: add -A fails in go-git *)
Theorem C28_add_replaced_dir_refuted : exists s s2,
  g_add_all s = RErr s /\ s_add_all s = ROk s2 /\ option_map ie_path (hd_error (st_index s2)) = Some [97; 47; 98].
Proof.
  eexists (st0 true [mkT pa MReg (mkHash 0 1)] [mkI pa MReg (mkHash 0 1) 2 5 false] [mkW [97; 47; 98] MReg 1 2 9 false false]), _.
  repeat split; reflexivity.
Qed.
Print Assumptions C28_add_replaced_dir_refuted.

(* --- add equals git add under a guard.  Index equality is per path and up to the
   cached stat data (size, mtime) of UNCHANGED files, which `git ls-files -s`, a
   tree and a commit do not show: go-git leaves such an entry alone, git refreshes
   it (res_equiv / idx_sem_eq in Proofs/C28Add.v).
   add_guard s: core.fileMode is on; no path of the worktree is a directory of /
   lies below an index entry or another file; worktree paths are distinct; every
   entry with a file has an id of the repository's format, is not intent-to-add
   and is not falsely matched by the metadata shortcut; the ignore verdicts of
   untracked files agree (no .git/info/exclude effect). *)

(* the general statement: go-git runs doAddFile on [names], git stages the scope
   [sc]; they agree whenever the names lie in the scope, are acceptable, and cover
   every path of the scope whose worktree side shows a change *)
Theorem C28_add_scope_eq : forall s sc names,
  add_guard s = true ->
  nodup_b names = true ->
  (forall q, mem_path q names = true -> sc q = true /\ name_ok s q = true) ->
  (forall q, sc q = true -> IndexOps.is_some (right_change s q) = true -> mem_path q names = true) ->
  res_equiv (add_names s names) (ROk (with_index s (git_add_scope s sc))).
Proof. exact add_scope_eq. Qed.
Print Assumptions C28_add_scope_eq.

(* Add(file): tracked, or untracked and not ignored *)
Theorem C28_add_file_eq : forall s p, add_file_guard s p = true -> res_equiv (g_add s p) (s_add s p).
Proof. exact add_file_eq. Qed.
Print Assumptions C28_add_file_eq.

(* Add(path) of a tracked file that is gone: exact equality *)
Theorem C28_add_deleted_eq : forall s p e,
  noconf s = true -> find_i (st_index s) p = Some e -> find_w (st_wt s) p = None -> g_add s p = s_add s p.
Proof. exact add_deleted_eq. Qed.
Print Assumptions C28_add_deleted_eq.

(* Add(directory) *)
Theorem C28_add_dir_eq : forall s p, add_dir_guard s p = true -> res_equiv (g_add s p) (s_add s p).
Proof. exact add_dir_eq. Qed.
Print Assumptions C28_add_dir_eq.

(* AddWithOptions{All} = git add -A *)
Theorem C28_add_all_eq : forall s, add_guard s = true -> res_equiv (g_add_all s) (s_add_all s).
Proof. exact add_all_eq. Qed.
Print Assumptions C28_add_all_eq.

(* AddGlob: for EVERY list of matches (whatever the pattern matcher returns): matched files
   acceptable, matched directories real directories, the resulting names distinct *)
Theorem C28_add_glob_eq : forall s ms,
  add_guard s = true -> matches_guard s ms = true -> res_equiv (g_add_matches s ms) (s_add_matches s ms).
Proof. exact add_matches_eq. Qed.
Print Assumptions C28_add_glob_eq.

(* RemoveGlob = git rm -r -f <pattern> when every matched entry still has its file *)
Theorem C28_rm_glob_eq : forall s pat, rm_glob_guard s pat = true -> g_rm_glob s pat = s_rm_glob s pat.
Proof. exact rm_glob_eq. Qed.
Print Assumptions C28_rm_glob_eq.

(* RemoveGlob of an entry whose directory is already gone: go-git fails (ReadDir of the missing
   directory) and leaves the index alone, git removes the entry *)
Theorem C28_rm_glob_missing_dir_refuted : exists s pat s',
  g_rm_glob s pat = RErr s /\ s_rm_glob s pat = ROk s' /\ st_index s' = [].
Proof.
  eexists (st0 true [] [mkI pdx MReg (mkHash 0 1) 2 5 false] []), [100; 47; 42], _. repeat split; reflexivity.
Qed.
Print Assumptions C28_rm_glob_missing_dir_refuted.

(* --- rm of a directory all of whose entries still have their files: exact equality *)
Theorem C28_rm_dir_eq : forall s p, rm_dir_guard s p = true -> g_rm s p = s_rm s p.
Proof. exact rm_dir_eq. Qed.
Print Assumptions C28_rm_dir_eq.

(* --- clean without Dir: equal to git clean -f when no untracked file lies in a
   directory git enters (one whose ancestors all hold tracked files) *)
Theorem C28_clean_nod_eq_partial : forall s, clean_nod_guard s = true -> g_clean s false = s_clean s false.
Proof. exact clean_nod_eq. Qed.
Print Assumptions C28_clean_nod_eq_partial.

(* ------------------------------------------------------------ non-vacuity *)
Example C28_add_guards_inhabited :
  let s := st0 true [mkT pa MReg (mkHash 0 1)]
                [mkI pa MReg (mkHash 0 1) 2 5 false; mkI [98] MExec (mkHash 0 2) 2 5 false; mkI pdy MReg (mkHash 0 4) 1 5 false;
                 mkI [103] MReg (mkHash 0 1) 2 5 false]
                [mkW pa MReg 5 2 9 false false; mkW [98] MExec 2 2 5 false false; mkW [117] MReg 3 1 9 false false;
                 mkW pdx MReg 3 1 9 false false; mkW pdy MReg 4 1 5 false false; mkW [111] MReg 3 1 9 true true] in
  add_guard s = true /\ add_file_guard s pa = true /\ add_file_guard s [117] = true /\ add_dir_guard s pd = true /\
  rm_dir_guard s pd = true /\ clean_nod_guard s = false /\
  g_glob s [100; 42] = [pd] /\ g_glob s [42] = [pa; [98]; [117]; pd; [111]] /\ g_glob s [42; 47; 63] = [pdx; pdy] /\
  matches_guard s (g_glob s [100; 42]) = true /\ matches_guard s (g_glob s [42; 47; 63]) = true /\
  rm_glob_guard s [100; 47; 42] = true /\
  clean_nod_guard (with_both s (st_index s) [mkW pa MReg 5 2 9 false false; mkW [117] MReg 3 1 9 false false]) = true /\
  (exists s', g_add_all s = ROk s' /\ map ie_path (st_index s') = [pa; [98]; pdy; [117]; pdx]) /\
  (exists s', g_add s pd = ROk s' /\ map ie_path (st_index s') = [pa; [98]; pdy; [103]; pdx]) /\
  (exists s', g_rm s pd = ROk s' /\ map ie_path (st_index s') = [pa; [98]; [103]] /\ map wf_path (st_wt s') = [pa; [98]; [117]; pdx; [111]]).
Proof. vm_compute. repeat split; try reflexivity; eexists; repeat split; reflexivity. Qed.

Example C28_guards_inhabited :
  let s := st0 true [mkT pa MReg (mkHash 0 1)]
                [mkI pa MReg (mkHash 0 1) 2 5 false; mkI [98] MExec (mkHash 0 2) 2 5 false]
                [mkW pa MReg 1 2 5 false false; mkW [98] MExec 2 2 5 false false; mkW [117] MReg 3 1 9 false false;
                 mkW pdx MReg 3 1 9 false false; mkW [111] MReg 3 1 9 true true] in
  forallb flat_entry (st_index s) = true /\ tree_guard (st_index s) = true /\
  mv_guard s pa [99] = true /\ clean_guard s = true /\
  (exists s', g_clean s true = ROk s' /\ map wf_path (st_wt s') = [pa; [98]; [111]]) /\
  (exists s', g_mv s pa [99] = ROk s' /\ map ie_path (st_index s') = [[98]; [99]]) /\
  g_commit_files s = [(pa, MReg, mkHash 0 1); ([98], MExec, mkHash 0 2)].
Proof. vm_compute. repeat split; try reflexivity; eexists; split; reflexivity. Qed.
