From GoGit Require Import Base.Out Model.Status Model.IndexOps Spec.GitIndexOps.
