(* Properties/C03.v — Signature verification payload equals git's (work in progress). *)
From Coq Require Import List NArith ZArith Bool String.
From GoGit Require Import Base.Out Model.ObjLines Model.Ident Model.Commit Model.Tag Model.SigPayload Spec.GitSig.
Import ListNotations.
