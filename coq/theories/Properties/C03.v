(* Properties/C03.v — Signature verification payload equals git's.
   G = Model/SigPayload (go-git: stripHeaderSignatures, parseSignedBytes,
   EncodeWithoutSignature / matchesSource) and Model/Commit, Model/Tag (the
   scanners that fill Commit.Signature / Tag.Signature);
   S = Spec/GitSig (git 2.39: parse_buffer_signed_by_header for commits,
   parse_signature = parse_signed_buffer + two-slot remove_signature for tags).
   Only statements here; proofs live in Proofs/C03*.v. *)
From Coq Require Import List NArith ZArith Bool String.
From GoGit Require Import Base.Out Model.ObjLines Model.Ident Model.Commit Model.Tag Model.SigPayload
     Spec.GitSig Spec.ObjWf Spec.SigGuards Proofs.C03Commit Proofs.C03CommitSig Proofs.C03CommitSig256 Proofs.C03Mutated Proofs.C03Tag Proofs.C03TagSig.
Import ListNotations.
Local Open Scope N_scope.

(* FULL STATEMENT (property text): for every stored commit b that go-git decodes,
     commit_payload b true c = S_payload b   and   c_sig c = S_sig b.
   It is FALSE of the code as it is: *)
Theorem C03_payload_commit_refuted : exists raw c,
  decode_commit raw = Ok c /\ commit_payload raw true c <> fst (fst (git_commit_payload raw)).
Proof.
  exists (unhex "7472656520346238323564633634326362366562396130363065353462663864363932383866626565343930340a6770677369677820790a0a6d0a").
  eexists. split; [vm_compute; reflexivity|]. vm_compute. discriminate.
Qed.
Print Assumptions C03_payload_commit_refuted.

Theorem C03_sig_commit_refuted : exists raw c,
  decode_commit raw = Ok c /\ c_sig c <> snd (fst (git_commit_payload raw)).
Proof.
  exists (unhex "7472656520346238323564633634326362366562396130363065353462663864363932383866626565343930340a67706773696720780a6770677369670a0a6d0a").
  eexists. split; [vm_compute; reflexivity|]. vm_compute. discriminate.
Qed.
Print Assumptions C03_sig_commit_refuted.

(* PARTIAL: for ALL byte strings (any number of gpgsig / gpgsig-sha256 headers in
   any header position, continuation lines, any body) whose gpgsig-prefixed
   header lines are "gpgsig " / "gpgsig-sha256 " headers, the bytes go-git's
   stripHeaderSignatures emits are git's payload ... *)
Theorem C03_strip_commit_partial : forall raw,
  commit_sig_guard raw = true ->
  strip_header_sigs raw = fst (fst (git_commit_payload raw)).
Proof. exact strip_eq_pbsh. Qed.
Print Assumptions C03_strip_commit_partial.

(* ... hence the payload EncodeWithoutSignature hands to a verifier for a
   freshly decoded commit is git's *)
Theorem C03_payload_commit_partial : forall raw c,
  decode_commit raw = Ok c -> commit_sig_guard raw = true ->
  commit_payload raw true c = fst (fst (git_commit_payload raw)).
Proof. intros raw c Hd Hg. rewrite (payload_fresh _ _ Hd). now apply strip_eq_pbsh. Qed.
Print Assumptions C03_payload_commit_partial.

(* ... and the signature the scanner accumulates in Commit.Signature is git's
   signature buffer (additionally: every header line is LF-terminated) *)
Theorem C03_sig_commit_partial : forall raw c,
  decode_commit raw = Ok c -> commit_sig_guard raw = true -> hdr_terminated raw = true ->
  c_sig c = snd (fst (git_commit_payload raw)).
Proof. exact sig_eq_pbsh. Qed.
Print Assumptions C03_sig_commit_partial.

(* consequence: with the same verifier go-git and git reach the same verdict *)
Theorem C03_accepts_iff_commit : forall (V : bytes -> bytes -> bool) raw c,
  decode_commit raw = Ok c -> commit_sig_guard raw = true -> hdr_terminated raw = true ->
  V (commit_payload raw true c) (c_sig c) =
  V (fst (fst (git_commit_payload raw))) (snd (fst (git_commit_payload raw))).
Proof.
  intros V raw c Hd Hg Ht. rewrite (payload_fresh _ _ Hd), (strip_eq_pbsh _ Hg), (sig_eq_pbsh _ _ Hd Hg Ht). reflexivity.
Qed.
Print Assumptions C03_accepts_iff_commit.

(* ... including Commit.Verify's own rule: a Signature with more than one
   armored block is refused before the verifier is asked (git: gpg reports one
   status per block and parse_gpg_output refuses a second one) *)
Theorem C03_verify_commit : forall (V : bytes -> bytes -> bool) raw c,
  decode_commit raw = Ok c -> commit_sig_guard raw = true -> hdr_terminated raw = true ->
  let '(p, s, _) := git_commit_payload raw in
  commit_verify V raw true c = (if Nat.ltb 1 (count_sig_blocks s) then false else V p s).
Proof.
  intros V raw c Hd Hg Ht. pose proof (strip_eq_pbsh _ Hg) as P. pose proof (sig_eq_pbsh _ _ Hd Hg Ht) as S.
  destruct (git_commit_payload raw) as [[p s] f]. cbn [fst snd] in P, S.
  unfold commit_verify. now rewrite (payload_fresh _ _ Hd), P, S.
Qed.
Print Assumptions C03_verify_commit.

(* ---- SHA-256 repositories: `git verify-commit` checks the "gpgsig-sha256"
   header (the "gpgsig" header is then just another gpgsig-prefixed header).
   The payload is the same byte string ... *)
Theorem C03_payload_commit_sha256_partial : forall raw c,
  decode_commit raw = Ok c -> commit_sig_guard raw = true ->
  commit_payload raw true c = fst (fst (git_commit_payload_fmt SHA256 raw)).
Proof. intros raw c Hd Hg. rewrite (payload_fresh _ _ Hd). now apply strip_eq_pbsh_fmt. Qed.
Print Assumptions C03_payload_commit_sha256_partial.

(* ... and git's signature is what the scanner accumulates in Commit.SignatureSHA256 *)
Theorem C03_sig_commit_sha256_partial : forall raw c,
  decode_commit raw = Ok c -> commit_sig_guard raw = true -> hdr_terminated raw = true ->
  c_sig256 c = snd (fst (git_commit_payload_fmt SHA256 raw)).
Proof. exact sig256_eq_pbsh. Qed.
Print Assumptions C03_sig_commit_sha256_partial.

(* FULL STATEMENT for SHA-256 repositories (go-git accepts exactly when git
   does) is FALSE of the code as it is: Commit.Verify always checks
   Commit.Signature ("gpgsig"), never Commit.SignatureSHA256.  Witness: a
   commit as `git commit -S` writes it in a SHA-256 repository, and a verifier
   that accepts exactly git's (payload, signature) pair *)
Theorem C03_accepts_iff_commit_sha256_refuted : exists (V : bytes -> bytes -> bool) raw c,
  decode_commit raw = Ok c /\ commit_sig_guard raw = true /\ hdr_terminated raw = true /\
  (let '(p, s, f) := git_commit_payload_fmt SHA256 raw in f = true /\ V p s = true) /\
  commit_verify V raw true c = false.
Proof.
  exists (fun _ s => beqb s (unhex "2d2d2d2d2d424547494e20504750205349474e41545552452d2d2d2d2d0a780a2d2d2d2d2d454e4420504750205349474e41545552452d2d2d2d2d0a")).
  exists (unhex "7472656520366566313962343132323563353336396631633130346434356438643835656661396230353762353362313462346239623933396464373464656363353332310a617574686f722041203c6140623e2031202b303030300a636f6d6d69747465722041203c6140623e2031202b303030300a6770677369672d736861323536202d2d2d2d2d424547494e20504750205349474e41545552452d2d2d2d2d0a20780a202d2d2d2d2d454e4420504750205349474e41545552452d2d2d2d2d0a0a6d0a").
  eexists. split; [vm_compute; reflexivity|]. vm_compute. repeat split; reflexivity.
Qed.
Print Assumptions C03_accepts_iff_commit_sha256_refuted.

(* PARTIAL: what is missing is only the choice of the field — a verifier that
   were handed Commit.SignatureSHA256 would reach git's verdict *)
Theorem C03_accepts_iff_commit_sha256_partial : forall (V : bytes -> bytes -> bool) raw c,
  decode_commit raw = Ok c -> commit_sig_guard raw = true -> hdr_terminated raw = true ->
  V (commit_payload raw true c) (c_sig256 c) =
  V (fst (fst (git_commit_payload_fmt SHA256 raw))) (snd (fst (git_commit_payload_fmt SHA256 raw))).
Proof.
  intros V raw c Hd Hg Ht. rewrite (payload_fresh _ _ Hd), (strip_eq_pbsh_fmt SHA256 _ Hg), (sig256_eq_pbsh _ _ Hd Hg Ht). reflexivity.
Qed.
Print Assumptions C03_accepts_iff_commit_sha256_partial.

(* a freshly decoded commit always takes the raw-source path *)
Theorem C03_fresh_matches_source : forall raw c,
  decode_commit raw = Ok c -> commit_matches_source raw true c = true.
Proof. exact matches_source_fresh. Qed.
Print Assumptions C03_fresh_matches_source.

(* a decoded object whose exported fields were changed: EncodeWithoutSignature
   uses the raw source iff the source, decoded again, has the same fields
   other than Signature / SignatureSHA256 (and the same Hash); otherwise the
   payload is the struct encoding without signatures *)
Theorem C03_mutated_commit : forall src c,
  ((exists f, decode_commit src = Ok f /\ without_sigs c = without_sigs f) ->
   commit_payload src true c = strip_header_sigs src) /\
  (~ (exists f, decode_commit src = Ok f /\ without_sigs c = without_sigs f) ->
   commit_payload src true c = encode_commit c false) /\
  commit_payload src false c = encode_commit c false.
Proof.
  intros src c. unfold commit_payload. repeat split.
  - intros H. apply matches_source_iff in H. now rewrite H.
  - intros H. destruct (commit_matches_source src true c) eqn:E; [|reflexivity].
    apply matches_source_iff in E. contradiction.
  - unfold commit_matches_source. destruct (decode_commit src); reflexivity.
Qed.
Print Assumptions C03_mutated_commit.

Theorem C03_mutated_tag : forall src t,
  ((exists f, decode_tag src = Ok f /\ tag_without_sigs t = tag_without_sigs f) ->
   tag_payload src true t = strip_tag src) /\
  (~ (exists f, decode_tag src = Ok f /\ tag_without_sigs t = tag_without_sigs f) ->
   tag_payload src true t = encode_tag t false) /\
  tag_payload src false t = encode_tag t false.
Proof.
  intros src t. unfold tag_payload. repeat split.
  - intros H. apply tag_matches_source_iff in H. now rewrite H.
  - intros H. destruct (tag_matches_source src true t) eqn:E; [|reflexivity].
    apply tag_matches_source_iff in E. contradiction.
  - unfold tag_matches_source. destruct (decode_tag src); reflexivity.
Qed.
Print Assumptions C03_mutated_tag.

(* tags: witnesses of the divergences forced by git's two-slot remove_signature *)
Theorem C03_payload_tag_refuted : exists raw t p s,
  decode_tag raw = Ok t /\ git_tag_payload raw = Some (Some (p, s)) /\ tag_payload raw true t <> p.
Proof.
  exists (unhex "6f626a65637420346238323564633634326362366562396130363065353462663864363932383866626565343930340a7479706520747265650a7461672076310a67706773696720610a67706773696720620a0a6d73670a2d2d2d2d2d424547494e20504750205349474e41545552452d2d2d2d2d0a").
  do 3 eexists. split; [vm_compute; reflexivity|]. split; [vm_compute; reflexivity|]. vm_compute. discriminate.
Qed.
Print Assumptions C03_payload_tag_refuted.

(* PARTIAL (tags): when the gpgsig regions of buf[:match] are at most two, not
   adjacent, and no other gpgsig-prefixed header occurs (the guard the two-slot
   rule forces), go-git's stripHeaderSignatures is git's remove_signature, so
   the payload handed to a verifier for a freshly decoded tag is git's *)
Theorem C03_strip_tag_partial : forall buf,
  tag_regions_ok false 0 (split_lines buf) = true ->
  git_remove_signature buf = Some (strip_header_sigs buf).
Proof. exact strip_eq_remove_signature. Qed.
Print Assumptions C03_strip_tag_partial.

Theorem C03_payload_tag_partial : forall raw m,
  parse_signed_bytes raw = Some m -> tag_sig_guard raw = true ->
  exists s, git_tag_payload raw = Some (Some (strip_tag raw, s)).
Proof. exact tag_payload_eq. Qed.
Print Assumptions C03_payload_tag_partial.

(* ---- Tag.Signature.  FULL STATEMENT (the extracted signature is the one git
   extracts) is FALSE: git looks for the last block start in the WHOLE object,
   go-git in the message only *)
Theorem C03_sig_tag_refuted : exists raw t p s,
  decode_tag raw = Ok t /\ git_tag_payload raw = Some (Some (p, s)) /\ t_sig t <> s.
Proof.
  exists (unhex "6f626a65637420346238323564633634326362366562396130363065353462663864363932383866626565343930340a7479706520747265650a7461672076310a7461676765722047203c6740683e2033202b303230300a2d2d2d2d2d424547494e20504750205349474e41545552452d2d2d2d2d0a0a6d73670a").
  do 3 eexists. split; [vm_compute; reflexivity|]. split; [vm_compute; reflexivity|]. vm_compute. discriminate.
Qed.
Print Assumptions C03_sig_tag_refuted.

(* PARTIAL: when no header line starts a signature block (tag_marker_guard),
   Tag.Signature is git's signature: the bytes from the last block start on ... *)
Theorem C03_sig_tag_partial : forall raw t m,
  decode_tag raw = Ok t -> tag_marker_guard raw = true -> parse_signed_bytes raw = Some m ->
  t_sig t = skipn m raw.
Proof. intros raw t m Hd Hk Hm. now rewrite (tag_sig_eq _ _ Hd Hk), Hm. Qed.
Print Assumptions C03_sig_tag_partial.

(* ... and empty exactly when git says "no signature found" *)
Theorem C03_nosig_tag_partial : forall raw t,
  decode_tag raw = Ok t -> tag_marker_guard raw = true -> parse_signed_bytes raw = None ->
  git_tag_payload raw = None /\ t_sig t = [].
Proof. intros raw t Hd Hk Hm. now apply tag_nosig. Qed.
Print Assumptions C03_nosig_tag_partial.

(* consequence: under both tag guards go-git hands a verifier exactly git's
   (payload, signature) pair, so with the same verifier the verdicts agree.
   Nothing here depends on the object format: git's verify-tag takes the
   trailing inline signature in SHA-1 and SHA-256 repositories alike (C-git
   runs the same cases in a SHA-256 repository) *)
Theorem C03_accepts_iff_tag : forall (V : bytes -> bytes -> bool) raw t m,
  decode_tag raw = Ok t -> parse_signed_bytes raw = Some m ->
  tag_sig_guard raw = true -> tag_marker_guard raw = true ->
  exists p s, git_tag_payload raw = Some (Some (p, s)) /\ tag_verify V raw true t = V p s.
Proof.
  intros V raw t m Hd Hm Hg Hk. exists (tag_payload raw true t), (t_sig t).
  split; [exact (tag_pair_eq _ _ _ Hd Hm Hg Hk)|reflexivity].
Qed.
Print Assumptions C03_accepts_iff_tag.

(* non-vacuity: a tag of a SHA-256 repository (64-digit object id) with a
   gpgsig-sha256 header, continuation line and inline signature *)
Example C03_tag_sig_nonvacuous :
  let raw := unhex "6f626a65637420366566313962343132323563353336396631633130346434356438643835656661396230353762353362313462346239623933396464373464656363353332310a7479706520747265650a7461672076310a7461676765722047203c6740683e2033202b303230300a6770677369672d73686132353620610a20620a0a6d73670a2d2d2d2d2d424547494e20504750205349474e41545552452d2d2d2d2d0a6162630a2d2d2d2d2d454e4420504750205349474e41545552452d2d2d2d2d0a" in
  tag_sig_guard raw = true /\ tag_marker_guard raw = true /\
  exists t, decode_tag raw = Ok t /\ t_sig t = unhex "2d2d2d2d2d424547494e20504750205349474e41545552452d2d2d2d2d0a6162630a2d2d2d2d2d454e4420504750205349474e41545552452d2d2d2d2d0a" /\
            git_tag_payload raw = Some (Some (tag_payload raw true t, t_sig t)).
Proof. vm_compute. repeat split; try reflexivity. eexists. repeat split; reflexivity. Qed.

Example C03_tag_guard_nonvacuous :
  let raw := unhex "6f626a65637420346238323564633634326362366562396130363065353462663864363932383866626565343930340a7479706520747265650a7461672076310a6770677369672d73686132353620610a20620a782d6b20760a67706773696720630a0a6d73670a2d2d2d2d2d424547494e20504750205349474e41545552452d2d2d2d2d0a" in
  tag_sig_guard raw = true /\ strip_tag raw <> raw /\
  git_tag_payload raw = Some (Some (strip_tag raw, unhex "2d2d2d2d2d424547494e20504750205349474e41545552452d2d2d2d2d0a")).
Proof. vm_compute. repeat split; discriminate. Qed.

(* non-vacuity: a commit with three separated gpgsig regions, a gpgsig-sha256
   region and continuation lines satisfies both guards, has a non-empty
   signature, and its payload differs from the raw bytes *)
Example C03_guards_nonvacuous :
  let raw := unhex "7472656520346238323564633634326362366562396130363065353462663864363932383866626565343930340a67706773696720610a20620a617574686f722041203c6140623e2031202b303030300a67706773696720630a636f6d6d69747465722041203c6140623e2031202b303030300a6770677369672d73686132353620780a20790a67706773696720640a0a6d0a" in
  commit_sig_guard raw = true /\ hdr_terminated raw = true /\
  (exists c, decode_commit raw = Ok c /\ c_sig c = unhex "610a620a630a640a") /\
  strip_header_sigs raw <> raw.
Proof. vm_compute. repeat split; try reflexivity; [eexists; split; reflexivity|discriminate]. Qed.
