(* Properties/C03.v — Signature verification payload equals git's.
   G = Model/SigPayload (go-git: stripHeaderSignatures, parseSignedBytes,
   EncodeWithoutSignature / matchesSource) and Model/Commit, Model/Tag (the
   scanners that fill Commit.Signature / Tag.Signature);
   S = Spec/GitSig (git 2.39: parse_buffer_signed_by_header for commits,
   parse_signature = parse_signed_buffer + two-slot remove_signature for tags).
   Only statements here; proofs live in Proofs/C03*.v. *)
From Coq Require Import List NArith ZArith Bool String.
From GoGit Require Import Base.Out Model.ObjLines Model.Ident Model.Commit Model.Tag Model.SigPayload
     Spec.GitSig Spec.ObjWf Spec.SigGuards Proofs.C03Commit Proofs.C03CommitSig.
Import ListNotations.
Local Open Scope N_scope.

(* FULL STATEMENT (property text): for every stored commit b that go-git decodes,
     commit_payload b true c = S_payload b   and   c_sig c = S_sig b.
   It is FALSE of the code as it is: *)
Theorem C03_payload_commit_refuted : exists raw c,
  decode_commit raw = Ok c /\ commit_payload raw true c <> fst (fst (git_commit_payload raw)).
Proof.
  exists (unhex "7472656520346238323564633634326362366562396130363065353462663864363932383866626565343930340a6770677369677820790a0a6d0a").
  eexists. split; [vm_compute; reflexivity|]. vm_compute. discriminate.
Qed.
Print Assumptions C03_payload_commit_refuted.

Theorem C03_sig_commit_refuted : exists raw c,
  decode_commit raw = Ok c /\ c_sig c <> snd (fst (git_commit_payload raw)).
Proof.
  exists (unhex "7472656520346238323564633634326362366562396130363065353462663864363932383866626565343930340a67706773696720780a6770677369670a0a6d0a").
  eexists. split; [vm_compute; reflexivity|]. vm_compute. discriminate.
Qed.
Print Assumptions C03_sig_commit_refuted.

(* PARTIAL: for ALL byte strings (any number of gpgsig / gpgsig-sha256 headers in
   any header position, continuation lines, any body) whose gpgsig-prefixed
   header lines are "gpgsig " / "gpgsig-sha256 " headers, the bytes go-git's
   stripHeaderSignatures emits are git's payload ... *)
Theorem C03_strip_commit_partial : forall raw,
  commit_sig_guard raw = true ->
  strip_header_sigs raw = fst (fst (git_commit_payload raw)).
Proof. exact strip_eq_pbsh. Qed.
Print Assumptions C03_strip_commit_partial.

(* ... hence the payload EncodeWithoutSignature hands to a verifier for a
   freshly decoded commit is git's *)
Theorem C03_payload_commit_partial : forall raw c,
  decode_commit raw = Ok c -> commit_sig_guard raw = true ->
  commit_payload raw true c = fst (fst (git_commit_payload raw)).
Proof. intros raw c Hd Hg. rewrite (payload_fresh _ _ Hd). now apply strip_eq_pbsh. Qed.
Print Assumptions C03_payload_commit_partial.

(* ... and the signature the scanner accumulates in Commit.Signature is git's
   signature buffer (additionally: every header line is LF-terminated) *)
Theorem C03_sig_commit_partial : forall raw c,
  decode_commit raw = Ok c -> commit_sig_guard raw = true -> hdr_terminated raw = true ->
  c_sig c = snd (fst (git_commit_payload raw)).
Proof. exact sig_eq_pbsh. Qed.
Print Assumptions C03_sig_commit_partial.

(* consequence: with the same verifier go-git and git reach the same verdict *)
Theorem C03_accepts_iff_commit : forall (V : bytes -> bytes -> bool) raw c,
  decode_commit raw = Ok c -> commit_sig_guard raw = true -> hdr_terminated raw = true ->
  V (commit_payload raw true c) (c_sig c) =
  V (fst (fst (git_commit_payload raw))) (snd (fst (git_commit_payload raw))).
Proof.
  intros V raw c Hd Hg Ht. rewrite (payload_fresh _ _ Hd), (strip_eq_pbsh _ Hg), (sig_eq_pbsh _ _ Hd Hg Ht). reflexivity.
Qed.
Print Assumptions C03_accepts_iff_commit.

(* a freshly decoded commit always takes the raw-source path *)
Theorem C03_fresh_matches_source : forall raw c,
  decode_commit raw = Ok c -> commit_matches_source raw true c = true.
Proof. exact matches_source_fresh. Qed.
Print Assumptions C03_fresh_matches_source.

(* tags: witnesses of the divergences forced by git's two-slot remove_signature *)
Theorem C03_payload_tag_refuted : exists raw t p s,
  decode_tag raw = Ok t /\ git_tag_payload raw = Some (Some (p, s)) /\ tag_payload raw true t <> p.
Proof.
  exists (unhex "6f626a65637420346238323564633634326362366562396130363065353462663864363932383866626565343930340a7479706520747265650a7461672076310a67706773696720610a67706773696720620a0a6d73670a2d2d2d2d2d424547494e20504750205349474e41545552452d2d2d2d2d0a").
  do 3 eexists. split; [vm_compute; reflexivity|]. split; [vm_compute; reflexivity|]. vm_compute. discriminate.
Qed.
Print Assumptions C03_payload_tag_refuted.

(* non-vacuity: a commit with three separated gpgsig regions, a gpgsig-sha256
   region and continuation lines satisfies both guards, has a non-empty
   signature, and its payload differs from the raw bytes *)
Example C03_guards_nonvacuous :
  let raw := unhex "7472656520346238323564633634326362366562396130363065353462663864363932383866626565343930340a67706773696720610a20620a617574686f722041203c6140623e2031202b303030300a67706773696720630a636f6d6d69747465722041203c6140623e2031202b303030300a6770677369672d73686132353620780a20790a67706773696720640a0a6d0a" in
  commit_sig_guard raw = true /\ hdr_terminated raw = true /\
  (exists c, decode_commit raw = Ok c /\ c_sig c = unhex "610a620a630a640a") /\
  strip_header_sigs raw <> raw.
Proof. vm_compute. repeat split; try reflexivity; [eexists; split; reflexivity|discriminate]. Qed.
