(* Properties/C37.v — Object selection for transfer covers exactly the missing
   history.  Only statements here; proofs live in Proofs/C37*.v. *)
From Coq Require Import List NArith ZArith Bool Sorting.Sorted.
From GoGit Require Import Model.RevList Proofs.C37Queue.
Import ListNotations.

(* the time-ordered commit queue is always sorted newest first, whatever the
   committer times are; hence sort.Search in insertSorted and the model's
   linear scan pick the same slot *)
Theorem C37_queue_sorted : forall q c,
  StronglySorted newer_eq q ->
  StronglySorted newer_eq (insert_sorted q c) /\
  insert_sorted q c = firstn (first_older q c) q ++ c :: skipn (first_older q c) q /\
  (forall x, In x (firstn (first_older q c) q) -> (c_time x <? c_time c)%Z = false) /\
  (forall x, In x (skipn (first_older q c) q) -> (c_time x <? c_time c)%Z = true).
Proof.
  intros q c H. split; [now apply insert_sorted_sorted|]. split; [apply insert_sorted_at|].
  now apply search_pred_monotone.
Qed.
Print Assumptions C37_queue_sorted.
