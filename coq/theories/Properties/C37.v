(* Properties/C37.v — Object selection for transfer covers exactly the missing
   history.  Only statements here; proofs live in Proofs/C37*.v.

   Model: Model/RevList.objects = revlist.Objects (seedHaves, seedWants, the
   painted time-ordered walk with its early stop and deferred missing-parent
   check, walkFull, processCommitTrees, collectChangedTreeObjects, ...).
   Spec: Spec/ObjReach.reach_set — reachability over parents (cut at shallow
   commits), commit trees, tree entries except gitlinks, tag targets.
   Committer times are arbitrary integers in every statement: nothing relates
   the time of a commit to the times of its parents. *)
From Coq Require Import List NArith ZArith Bool Sorting.Sorted.
From GoGit Require Import Model.RevList Spec.ObjReach Proofs.C37Queue Proofs.C37 Proofs.C37Term.
Import ListNotations.
Local Open Scope N_scope.

(* Completeness: whenever the selection succeeds, every object reachable from
   the wants and not reachable from the haves is selected — for every
   well-formed store (ids typed like hashes, parents older in creation order),
   every timestamp assignment, every shallow set, every want/have list
   (tags, trees, blobs, ids that name nothing).  The early stop of the painted
   walk and the parent-diff pruning are inside the model; that they only ever
   over-select is what this theorem establishes. *)
Theorem C37_complete : forall st sh wants haves res,
  wf_store st = true -> objects st sh wants haves = Ok res ->
  forall o, reach_set st sh wants o -> ~ reach_set st sh haves o -> In o res.
Proof. intros st sh wants haves res Hwf H. exact (complete st sh wants haves Hwf res H). Qed.
Print Assumptions C37_complete.

(* Only wanted history: everything selected is reachable from the wants, even
   with the shallow cut (hence also in the plain graph: reach_cut_full). *)
Theorem C37_only_wanted : forall st sh wants haves res,
  wf_store st = true -> objects st sh wants haves = Ok res ->
  forall o, In o res -> reach_set st sh wants o /\ exists w, In w wants /\ reach_full st w o.
Proof.
  intros st sh wants haves res Hwf H o Ho.
  pose proof (only_wanted st sh wants haves Hwf res H o Ho) as W. split; [exact W|].
  destruct W as (w & Hw & Hr). exists w. split; [exact Hw | eapply reach_cut_full; eauto].
Qed.
Print Assumptions C37_only_wanted.

(* no object is selected twice *)
Theorem C37_nodup : forall st sh wants haves res,
  wf_store st = true -> objects st sh wants haves = Ok res -> NoDup res.
Proof. intros st sh wants haves res Hwf H. exact (nodup st sh wants haves Hwf res H). Qed.
Print Assumptions C37_nodup.

(* the model never runs out of fuel: on a store whose sub-directories are older
   than the trees that list them (hashes are acyclic), revlist.Objects of the
   model answers with a selection or with one of the errors the Go code returns
   (wanted object missing, parent missing, tree missing) — so the theorems above
   speak about every run that succeeds *)
Theorem C37_terminates : forall st sh wants haves,
  wf_store st = true -> tree_ranked st = true -> objects st sh wants haves <> Err EFuel.
Proof. intros st sh wants haves Hwf Hr. exact (objects_fuel st Hr sh haves Hwf wants). Qed.
Print Assumptions C37_terminates.

(* the time-ordered commit queue is always sorted newest first, whatever the
   committer times are; hence sort.Search in insertSorted and the model's
   linear scan pick the same slot *)
Theorem C37_queue_sorted : forall q c,
  StronglySorted newer_eq q ->
  StronglySorted newer_eq (insert_sorted q c) /\
  insert_sorted q c = firstn (first_older q c) q ++ c :: skipn (first_older q c) q /\
  (forall x, In x (firstn (first_older q c) q) -> (c_time x <? c_time c)%Z = false) /\
  (forall x, In x (skipn (first_older q c) q) -> (c_time x <? c_time c)%Z = true).
Proof.
  intros q c H. split; [now apply insert_sorted_sorted|]. split; [apply insert_sorted_at|].
  now apply search_pred_monotone.
Qed.
Print Assumptions C37_queue_sorted.

(* ---- non-vacuity ----
   a store with clocks running backwards (the merge 12 is OLDER than its
   parents), a sub-tree shared between paths, content reverted to an old blob,
   a gitlink, a tag on a commit and a tag on a tag:
     1,2,3 blobs   4 = tree{a:1}   5 = tree{a:1, p:4(dir), s:99(gitlink)}
     6 = commit(4; no parent; t=50)      7 = tree{a:2, p:4}   8 = commit(7; 6; t=40)
     9 = tree{a:3, p:4}  10 = commit(9; 6; t=90)   11 = tree{a:1, p:4, q:4}
     12 = commit(11; 8,10; t=10)   13 = tag -> 12   14 = tag -> 13 *)
Definition ex_store : store :=
  [(1, Blob); (2, Blob); (3, Blob);
   (4, Tree [mkE 97 KFile 1]);
   (5, Tree [mkE 97 KFile 1; mkE 112 KDir 4; mkE 115 KSub 99]);
   (6, Commit 5 [] 50%Z);
   (7, Tree [mkE 97 KFile 2; mkE 112 KDir 4]);
   (8, Commit 7 [6] 40%Z);
   (9, Tree [mkE 97 KFile 3; mkE 112 KDir 4]);
   (10, Commit 9 [6] 90%Z);
   (11, Tree [mkE 97 KFile 1; mkE 112 KDir 4; mkE 113 KDir 4]);
   (12, Commit 11 [8; 10] 10%Z);
   (13, Tag 12); (14, Tag 13)].

Example C37_ex_wf : wf_store ex_store = true /\ tree_ranked ex_store = true.
Proof. vm_compute. split; reflexivity. Qed.

(* want the outer tag, have one side of the merge: the other side, the merge,
   its tree and both tags are selected; blob 1 and tree 4 (held) are not *)
Example C37_ex_select :
  objects ex_store [] [14] [8] = Ok [3; 9; 10; 11; 12; 13; 14].
Proof. vm_compute. reflexivity. Qed.

(* no have at all: everything reachable, each object once *)
Example C37_ex_full :
  option_map (fun l => List.length l) (match objects ex_store [] [14] [] with Ok l => Some l | Err _ => None end)
  = Some 14%nat.
Proof. vm_compute. reflexivity. Qed.

(* the shallow witness of the repaired defect: commit 6 is shallow, its parent 3
   happens to be stored, an unrelated commit 9 is held; blob 1 (shared with the
   parent's tree) is selected *)
Example C37_ex_shallow :
  objects [(1, Blob); (2, Tree [mkE 97 KFile 1]); (3, Commit 2 [] 1000%Z); (4, Blob);
           (5, Tree [mkE 97 KFile 1; mkE 98 KFile 4]); (6, Commit 5 [3] 1010%Z);
           (7, Blob); (8, Tree [mkE 99 KFile 7]); (9, Commit 8 [] 1005%Z)] [6] [6] [9]
  = Ok [4; 1; 5; 6].
Proof. vm_compute. reflexivity. Qed.
