(* Properties/C07.v — Packs go-git writes contain exactly the requested objects.
   Statements only; proofs in Proofs/C07.v (encoder) and Proofs/C06*.v (delta payloads).

   The encoder is given the object list 0..n-1 with ANY base-pointer function
   base0 (cyclic or not, as DeltaSelector may produce when it reuses stored
   deltas) and ANY positive entry sizes (header + deflated payload). *)
From Coq Require Import List NArith Arith Bool.
From Coq Require Import ZArith Lia.
From GoGit Require Import Base.Out Model.Delta Model.PackEnc Model.DeltaSel Proofs.C06Apply Proofs.C06Diff Proofs.C07 Proofs.C07Varint Proofs.C07Acyclic
  Proofs.C07Select Proofs.C07SelResolves.
Import ListNotations.

(* every requested node is written exactly once; the header count (= n, what head() writes) is the
   number of entries; entries start after the 12-byte header *)
Theorem C07_each_once : forall n base0 esize es,
  (forall o, (0 < esize o)%N) -> (forall k b, base0 k = Some b -> b < n) ->
  encode n base0 esize = Some es ->
  NoDup (map e_node es) /\ (forall k, k < n <-> In k (map e_node es)) /\ List.length es = n /\
  (forall k b off, In (k, b, off) es -> (12 <= off)%N).
Proof.
  intros n base0 esize es Hp Hc H. destruct (encode_spec n base0 esize Hp Hc es H) as (A & B & C & _ & D & _).
  auto.
Qed.
Print Assumptions C07_each_once.

(* every delta entry keeps the base it was computed against, and that base is an entry at a strictly
   smaller offset: writeOfsDeltaHeader never sees a non-positive distance and a reader can resolve it *)
Theorem C07_base_before_delta : forall n base0 esize es,
  (forall o, (0 < esize o)%N) -> (forall k b, base0 k = Some b -> b < n) ->
  encode n base0 esize = Some es ->
  forall k b off, In (k, Some b, off) es ->
    base0 k = Some b /\ exists bb ob, In (b, bb, ob) es /\ (ob < off)%N.
Proof.
  intros n base0 esize es Hp Hc H. destruct (encode_spec n base0 esize Hp Hc es H) as (_ & _ & _ & B & _).
  exact B.
Qed.
Print Assumptions C07_base_before_delta.

(* going through the file and applying each delta to the already reconstructed object of its base entry
   (patchDelta = git's patch-delta by C06) yields, for every entry, the object of its node.
   deltas_ok is what DeltaSelector guarantees: a new delta is diffDelta's output (C07_new_deltas_ok below),
   a reused one is stored against that very base. *)
Theorem C07_resolves : forall n base0 esize (orig delta : nat -> bytes) es,
  (forall o, (0 < esize o)%N) -> (forall k b, base0 k = Some b -> b < n) ->
  (forall k b, base0 k = Some b -> patch_delta (orig b) (delta k) = Ok (orig k)) ->
  encode n base0 esize = Some es ->
  resolved orig delta (rev es) = Some (map (fun e => (e_node e, orig (e_node e))) (rev es)).
Proof. intros n base0 esize orig delta es Hp Hc Hd H. eapply encode_resolves; eassumption. Qed.
Print Assumptions C07_resolves.

(* deltas computed by getDelta (any candidate function) satisfy the hypothesis of C07_resolves *)
Theorem C07_new_deltas_ok : forall pick (orig : nat -> bytes) k b,
  (len (orig b) <= 2 ^ 32)%N -> (len (orig k) < 2 ^ 63)%N ->
  exists d, diff_delta pick (orig b) (orig k) = Some d /\ patch_delta (orig b) d = Ok (orig k).
Proof. intros. apply diff_roundtrip; assumption. Qed.
Print Assumptions C07_new_deltas_ok.

(* on an acyclic graph (a rank decreasing along base pointers: what the selector produces without
   reuse, bases having smaller indices) nothing is un-deltified: every entry keeps its chosen base *)
Theorem C07_acyclic_keeps_deltas : forall n base0 esize (rank : nat -> nat) es,
  (forall k b, base0 k = Some b -> rank b < rank k) ->
  encode n base0 esize = Some es ->
  forall k b off, In (k, b, off) es -> b = base0 k.
Proof. intros n base0 esize rank es Hr H. eapply encode_acyclic; eassumption. Qed.
Print Assumptions C07_acyclic_keeps_deltas.

(* the recursion of Encoder.entry always terminates within the fuel of the model (n + 2) *)
Theorem C07_fuel_sufficient : forall n base0 esize,
  (forall o, (0 < esize o)%N) -> (forall k b, base0 k = Some b -> b < n) ->
  encode n base0 esize <> None.
Proof. intros. apply encode_fuel; assumption. Qed.
Print Assumptions C07_fuel_sufficient.

(* the entry header and the OFS_DELTA distance are read back by git's decoders *)
Theorem C07_entry_head_roundtrip : forall typ size rest,
  (typ < 8)%N -> parse_head (entry_head typ size ++ rest) = Some (typ, size, rest).
Proof. exact entry_head_roundtrip. Qed.
Print Assumptions C07_entry_head_roundtrip.

Theorem C07_ofs_roundtrip : forall n rest, ofs_decode (ofs_encode n ++ rest) = Some (n, rest).
Proof. exact ofs_roundtrip. Qed.
Print Assumptions C07_ofs_roundtrip.

(* ---- DeltaSelector (Model/DeltaSel.v).  The selector is run with ANY permutation [order] that sort.Sort may
   leave (the model rejects one that is not ordered by byTypeAndSize) and ANY function [dsz] giving the size of
   getDelta's output for a (base, target) pair — the chooser's nondeterminism; delta and object sizes are
   lengths, hence non-negative.  [select] returns the final Base / Depth fields and the returned order. *)
Definition sizes_ok (objs : list sobj) : bool := forallb (fun o => (0 <=? so_size o)%Z) objs.
Definition no_reuse_b (objs : list sobj) : bool :=
  forallb (fun o => match so_stored o with None => true | Some _ => false end) objs.

Lemma sizes_ok_spec : forall objs, sizes_ok objs = true -> forall u, (0 <= so_size (obj_at objs u))%Z.
Proof.
  intros objs H u. unfold sizes_ok in H. rewrite forallb_forall in H. unfold obj_at.
  destruct (Nat.lt_ge_cases u (List.length objs)) as [Hlt|Hge].
  - apply Z.leb_le. apply H. now apply nth_In.
  - rewrite nth_overflow by exact Hge. cbn. apply Z.le_refl.
Qed.

Lemma no_reuse_b_spec : forall objs, no_reuse_b objs = true -> no_reuse objs.
Proof.
  intros objs H u. unfold no_reuse_b in H. rewrite forallb_forall in H. unfold obj_at.
  destruct (Nat.lt_ge_cases u (List.length objs)) as [Hlt|Hge].
  - specialize (H _ (nth_In objs (mkSObj 0 0 0 None) Hlt)). destruct (so_stored (nth u objs (mkSObj 0 0 0 None))); [discriminate | reflexivity].
  - now rewrite nth_overflow by exact Hge.
Qed.

(* the depth guard, for EVERY selection (stored deltas reused or not): Depth is never negative, and every delta
   the selector itself creates has Depth <= maxDepth (deltaSizeLimit grants no size above 8 against a base whose
   Depth has reached maxDepth); every Base is an object of the returned list, and a reused delta's Base is the
   object whose id the stored delta names as its base (fixAndBreakChains) *)
Theorem C07_depth_bound : forall window objs order dsz st ord,
  (forall b t, (0 <= dsz b t)%Z) -> sizes_ok objs = true ->
  select window objs order dsz = inl (st, ord) ->
  exists reused : nat -> bool,
    (forall u, (0 <= sd st u)%Z /\ (reused u = false -> (sd st u <= maxDepth)%Z)) /\
    (forall u b, sb st u = Some b ->
       In b ord /\
       (reused u = true -> exists bk asz, so_stored (obj_at objs u) = Some (bk, asz) /\ so_key (obj_at objs b) = bk)).
Proof.
  intros window objs order dsz st ord Hd Hs H.
  destruct (select_edges window objs order dsz st ord Hd (sizes_ok_spec objs Hs) H) as [reused [A B]].
  exists reused. split; assumption.
Qed.
Print Assumptions C07_depth_bound.

(* chains <= maxDepth: when no stored delta is reused (any window; memory storage, or nothing stored as a delta)
   every delta points to an object of the same (blob or tree) type in the returned list whose Depth is below maxDepth,
   the recorded Depth of every object is the true length of its delta chain, at most maxDepth; the graph handed to
   the encoder is acyclic (Depth decreases along Base), so the encoder keeps every chosen base
   (C07_acyclic_keeps_deltas) and the chains IN THE PACK are at most maxDepth long *)
Theorem C07_depth_bound_chains_partial : forall window objs order dsz st ord,
  (forall b t, (0 <= dsz b t)%Z) -> sizes_ok objs = true -> no_reuse_b objs = true ->
  select window objs order dsz = inl (st, ord) ->
  let base0 := base_fun (sel_nodes objs st ord) in
  (forall u b, sb st u = Some b ->
     In u ord /\ In b ord /\ sd st u = (sd st b + 1)%Z /\ (sd st b < maxDepth)%Z /\
     so_typ (obj_at objs b) = so_typ (obj_at objs u) /\ deltable (so_typ (obj_at objs u)) = true) /\
  (forall fuel u, (Z.of_nat (chain_len (sb st) fuel u) <= maxDepth)%Z) /\
  (forall fuel u, (Z.to_nat (sd st u) <= fuel)%nat -> Z.of_nat (chain_len (sb st) fuel u) = sd st u) /\
  (forall fuel k, (Z.of_nat (chain_len base0 fuel k) <= maxDepth)%Z) /\
  (forall esize es, encode (List.length ord) base0 esize = Some es -> forall k b off, In (k, b, off) es -> b = base0 k).
Proof.
  intros window objs order dsz st ord Hd Hs Hn H base0.
  pose proof (select_noreuse_inv window objs order dsz st ord Hd (sizes_ok_spec objs Hs) (no_reuse_b_spec objs Hn) H) as HI.
  destruct (select_noreuse_graph window objs order dsz st ord Hd (sizes_ok_spec objs Hs) (no_reuse_b_spec objs Hn) H) as [Hr Hc].
  split; [|split; [|split; [|split]]].
  - intros u b Hb. destruct HI as [Ha [Hb' _]]. destruct (in_dec Nat.eq_dec u ord) as [Hi|Hi].
    + destruct (Hb' u Hi) as [[_ Hu] Hm]. rewrite Hb in Hm. destruct Hm as [M1 [M2 [M3 M4]]].
      repeat split; auto. rewrite M2 in Hu. lia.
    + destruct (Ha u Hi) as [E _]. rewrite E in Hb. discriminate.
  - intros fuel u. pose proof (chain_len_le_depth objs ord st HI fuel u) as L.
    destruct HI as [Ha [Hb _]]. destruct (in_dec Nat.eq_dec u ord) as [Hi|Hi].
    + destruct (Hb u Hi) as [[_ Hu] _]. eapply Z.le_trans; eassumption.
    + destruct (Ha u Hi) as [_ E]. rewrite E in L. eapply Z.le_trans; [exact L|]. apply Z.lt_le_incl. exact maxDepth_pos.
  - intros fuel u Hf. now apply (chain_len_eq_depth objs ord st HI).
  - exact Hc.
  - intros esize es He k b off Hin.
    exact (encode_acyclic base0 esize (fun k => Z.to_nat (sd st (nth k ord 0%nat))) Hr (List.length ord) es He k b off Hin).
Qed.
Print Assumptions C07_depth_bound_chains_partial.

(* the full statement (chains <= maxDepth for every selection) is false once stored deltas are reused: Depth is
   computed when fixAndBreakChains assigns the stored bases and is not updated when the walk later deltifies the
   root of a stored chain.  Witness (window 2): x0..x20 each a delta of its predecessor, r a delta of x20 (Depth 21),
   c1..c30 a stored chain on r with recorded Depth 1..30: c30 is 51 deltas deep, every recorded Depth <= 30 *)
Theorem C07_depth_bound_chains_refuted :
  ~ (forall window objs order dsz st ord,
       (forall b t, (0 <= dsz b t)%Z) -> sizes_ok objs = true ->
       select window objs order dsz = inl (st, ord) ->
       forall fuel u, (Z.of_nat (chain_len (sb st) fuel u) <= maxDepth)%Z).
Proof.
  intros H. destruct reuse_depth_witness as [E [_ [W _]]].
  assert (D : forall b t : nat, (0 <= 20)%Z) by (intros; discriminate).
  assert (S : sizes_ok wit_objs = true) by (vm_compute; reflexivity).
  pose proof (H 2%nat wit_objs (seq 0 52) (fun _ _ => 20%Z) wit_st (seq 0 52) D S E 100%nat 51%nat) as H1.
  rewrite W in H1. vm_compute in H1. apply H1. reflexivity.
Qed.
Print Assumptions C07_depth_bound_chains_refuted.

(* every graph the selector can produce satisfies the hypotheses of C07_resolves, so the pack the encoder writes
   from it resolves, entry by entry, to the requested objects: bases are entries of the list; a new delta is
   diffDelta's output against its final base (C07_new_deltas_ok); a reused delta is the stored one, applied to the
   object carrying the id of its base (storer consistency, the only assumption) *)
Theorem C07_selector_resolves : forall window objs order dsz st ord (content stored : nat -> bytes) (pick : nat -> option nat) esize es,
  (forall b t, (0 <= dsz b t)%Z) -> sizes_ok objs = true ->
  select window objs order dsz = inl (st, ord) ->
  (forall u b bk asz, so_stored (obj_at objs u) = Some (bk, asz) -> so_key (obj_at objs b) = bk ->
     patch_delta (content b) (stored u) = Ok (content u)) ->
  (forall u, (len (content u) <= 2 ^ 32)%N) ->
  (forall o, (0 < esize o)%N) ->
  let base0 := base_fun (sel_nodes objs st ord) in
  let orig := fun k => content (nth k ord 0%nat) in
  (exists delta, (forall k b, base0 k = Some b -> b < List.length ord) /\
                 (forall k b, base0 k = Some b -> patch_delta (orig b) (delta k) = Ok (orig k))) /\
  (encode (List.length ord) base0 esize = Some es ->
   exists delta, resolved orig delta (rev es) = Some (map (fun e => (e_node e, orig (e_node e))) (rev es))).
Proof.
  intros window objs order dsz st ord content stored pick esize es Hd Hs H Hst Hsm Hp base0 orig. split.
  - exact (select_hyps window objs order dsz st ord Hd (sizes_ok_spec objs Hs) H content stored pick Hst Hsm).
  - intros He.
    exact (select_resolves window objs order dsz st ord Hd (sizes_ok_spec objs Hs) H content stored pick Hst Hsm esize es Hp He).
Qed.
Print Assumptions C07_selector_resolves.

(* window 0 and window 1: no delta is created; with window 0 nothing is reused either and the request order is kept *)
Theorem C07_window_0_1 : forall objs order dsz,
  (exists st, select 0 objs order dsz = inl (st, seq 0 (List.length objs)) /\ forall u, sb st u = None) /\
  (forall st ord, no_reuse_b objs = true -> select 1 objs order dsz = inl (st, ord) -> forall u, sb st u = None).
Proof.
  intros objs order dsz. split.
  - eexists. split; [reflexivity | reflexivity].
  - intros st ord Hn H u. unfold select in H. rewrite (fix_all_noreuse objs _ (no_reuse_b_spec objs Hn)) in H.
    destruct (is_perm (List.length objs) order && sorted_by objs (init_state objs) order); [|discriminate].
    cbn [negb] in H. injection H as <- <-.
    assert (G : forall gs s, (forall x, sb s x = None) ->
              forall x, sb (fold_left (fun s g => walk_go objs dsz 1 [] g s) gs s) x = None).
    { induction gs as [|g r IH]; intros s Hs x; [apply Hs|]. cbn [fold_left]. apply IH.
      assert (W : forall rest before s', (forall y, sb s' y = None) -> forall y, sb (walk_go objs dsz 1 before rest s') y = None).
      { induction rest as [|t r' IHr]; intros before s' Hs' y; [apply Hs'|]. cbn [walk_go]. apply IHr.
        rewrite (Hs' t). cbn [Nat.sub firstn fold_left]. destruct (negb (deltable (so_typ (obj_at objs t)))); exact Hs'. }
      apply W. exact Hs. }
    apply G. intros x. reflexivity.
Qed.
Print Assumptions C07_window_0_1.

(* ---- non-vacuity: a 3-cycle plus a node hanging off it; the cycle is broken at node 0 *)
Example C07_cycle_example :
  encode 4 (fun k => match k with 0 => Some 1 | 1 => Some 2 | 2 => Some 0 | 3 => Some 2 | _ => None end) (fun _ => 10%N)
  = Some [(0, None, 12%N); (2, Some 0, 22%N); (1, Some 2, 32%N); (3, Some 2, 42%N)].
Proof. vm_compute. reflexivity. Qed.

Example C07_chain_example :
  encode 3 (fun k => match k with 2 => Some 1 | 1 => Some 0 | _ => None end) (fun k => N.of_nat (5 + k))
  = Some [(0, None, 12%N); (1, Some 0, 17%N); (2, Some 1, 23%N)].
Proof. vm_compute. reflexivity. Qed.

Example C07_varint_example :
  entry_head 3 300 = [188; 18]%N /\ ofs_encode 300 = [129; 44]%N /\ ofs_encode 128 = [128; 0]%N.
Proof. vm_compute. repeat split. Qed.

(* non-vacuity of the selector theorems: three similar blobs, window 10: a chain of two deltas *)
Example C07_select_example :
  match select 10 [mkSObj 0 3 300 None; mkSObj 1 3 310 None; mkSObj 2 3 290 None] [1; 0; 2]%nat (fun _ _ => 12%Z) with
  | inl (st, ord) => ord = [1; 0; 2]%nat /\ sb st 1%nat = None /\ sb st 0%nat = Some 1%nat /\ sb st 2%nat = Some 0%nat /\
                     sd st 2%nat = 2%Z /\ chain_len (sb st) 10 2 = 2%nat
  | inr _ => False
  end.
Proof. vm_compute. repeat split. Qed.

(* ---- DeltaSelector.deltaSizeLimit is regenerated from delta_selector.go on every run
   (Gen/C07.v, with Go's int64 wrap-around explicit): on every argument the selector
   can pass it is the model's delta_size_limit *)
From GoGit Require Import Base.GoInt Gen.C07 Proofs.C07Leaf.
Theorem C07_delta_size_limit_tied : forall n bd td isd,
  (0 <= n < 2 ^ 50)%Z -> (0 <= bd <= pk7_maxDepth)%Z -> (0 <= td < 2 ^ 31)%Z ->
  pk7_DeltaSelector_deltaSizeLimit n bd td isd = delta_size_limit n bd td isd.
Proof. exact deltaSizeLimit_gen_spec. Qed.
Print Assumptions C07_delta_size_limit_tied.
