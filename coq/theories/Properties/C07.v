(* Properties/C07.v — Packs go-git writes contain exactly the requested objects.
   Statements only; proofs in Proofs/C07.v (encoder) and Proofs/C06*.v (delta payloads).

   The encoder is given the object list 0..n-1 with ANY base-pointer function
   base0 (cyclic or not, as DeltaSelector may produce when it reuses stored
   deltas) and ANY positive entry sizes (header + deflated payload). *)
From Coq Require Import List NArith Arith Bool.
From GoGit Require Import Base.Out Model.Delta Model.PackEnc Proofs.C06Apply Proofs.C06Diff Proofs.C07 Proofs.C07Varint Proofs.C07Acyclic.
Import ListNotations.

(* every requested node is written exactly once; the header count (= n, what head() writes) is the
   number of entries; entries start after the 12-byte header *)
Theorem C07_each_once : forall n base0 esize es,
  (forall o, (0 < esize o)%N) -> (forall k b, base0 k = Some b -> b < n) ->
  encode n base0 esize = Some es ->
  NoDup (map e_node es) /\ (forall k, k < n <-> In k (map e_node es)) /\ List.length es = n /\
  (forall k b off, In (k, b, off) es -> (12 <= off)%N).
Proof.
  intros n base0 esize es Hp Hc H. destruct (encode_spec n base0 esize Hp Hc es H) as (A & B & C & _ & D & _).
  auto.
Qed.
Print Assumptions C07_each_once.

(* every delta entry keeps the base it was computed against, and that base is an entry at a strictly
   smaller offset: writeOfsDeltaHeader never sees a non-positive distance and a reader can resolve it *)
Theorem C07_base_before_delta : forall n base0 esize es,
  (forall o, (0 < esize o)%N) -> (forall k b, base0 k = Some b -> b < n) ->
  encode n base0 esize = Some es ->
  forall k b off, In (k, Some b, off) es ->
    base0 k = Some b /\ exists bb ob, In (b, bb, ob) es /\ (ob < off)%N.
Proof.
  intros n base0 esize es Hp Hc H. destruct (encode_spec n base0 esize Hp Hc es H) as (_ & _ & _ & B & _).
  exact B.
Qed.
Print Assumptions C07_base_before_delta.

(* going through the file and applying each delta to the already reconstructed object of its base entry
   (patchDelta = git's patch-delta by C06) yields, for every entry, the object of its node.
   deltas_ok is what DeltaSelector guarantees: a new delta is diffDelta's output (C07_new_deltas_ok below),
   a reused one is stored against that very base. *)
Theorem C07_resolves : forall n base0 esize (orig delta : nat -> bytes) es,
  (forall o, (0 < esize o)%N) -> (forall k b, base0 k = Some b -> b < n) ->
  (forall k b, base0 k = Some b -> patch_delta (orig b) (delta k) = Ok (orig k)) ->
  encode n base0 esize = Some es ->
  resolved orig delta (rev es) = Some (map (fun e => (e_node e, orig (e_node e))) (rev es)).
Proof. intros n base0 esize orig delta es Hp Hc Hd H. eapply encode_resolves; eassumption. Qed.
Print Assumptions C07_resolves.

(* deltas computed by getDelta (any candidate function) satisfy the hypothesis of C07_resolves *)
Theorem C07_new_deltas_ok : forall pick (orig : nat -> bytes) k b,
  (len (orig b) <= 2 ^ 32)%N -> (len (orig k) < 2 ^ 63)%N ->
  exists d, diff_delta pick (orig b) (orig k) = Some d /\ patch_delta (orig b) d = Ok (orig k).
Proof. intros. apply diff_roundtrip; assumption. Qed.
Print Assumptions C07_new_deltas_ok.

(* on an acyclic graph (a rank decreasing along base pointers: what the selector produces without
   reuse, bases having smaller indices) nothing is un-deltified: every entry keeps its chosen base *)
Theorem C07_acyclic_keeps_deltas : forall n base0 esize (rank : nat -> nat) es,
  (forall k b, base0 k = Some b -> rank b < rank k) ->
  encode n base0 esize = Some es ->
  forall k b off, In (k, b, off) es -> b = base0 k.
Proof. intros n base0 esize rank es Hr H. eapply encode_acyclic; eassumption. Qed.
Print Assumptions C07_acyclic_keeps_deltas.

(* the recursion of Encoder.entry always terminates within the fuel of the model (n + 2) *)
Theorem C07_fuel_sufficient : forall n base0 esize,
  (forall o, (0 < esize o)%N) -> (forall k b, base0 k = Some b -> b < n) ->
  encode n base0 esize <> None.
Proof. intros. apply encode_fuel; assumption. Qed.
Print Assumptions C07_fuel_sufficient.

(* the entry header and the OFS_DELTA distance are read back by git's decoders *)
Theorem C07_entry_head_roundtrip : forall typ size rest,
  (typ < 8)%N -> parse_head (entry_head typ size ++ rest) = Some (typ, size, rest).
Proof. exact entry_head_roundtrip. Qed.
Print Assumptions C07_entry_head_roundtrip.

Theorem C07_ofs_roundtrip : forall n rest, ofs_decode (ofs_encode n ++ rest) = Some (n, rest).
Proof. exact ofs_roundtrip. Qed.
Print Assumptions C07_ofs_roundtrip.

(* ---- non-vacuity: a 3-cycle plus a node hanging off it; the cycle is broken at node 0 *)
Example C07_cycle_example :
  encode 4 (fun k => match k with 0 => Some 1 | 1 => Some 2 | 2 => Some 0 | 3 => Some 2 | _ => None end) (fun _ => 10%N)
  = Some [(0, None, 12%N); (2, Some 0, 22%N); (1, Some 2, 32%N); (3, Some 2, 42%N)].
Proof. vm_compute. reflexivity. Qed.

Example C07_chain_example :
  encode 3 (fun k => match k with 2 => Some 1 | 1 => Some 0 | _ => None end) (fun k => N.of_nat (5 + k))
  = Some [(0, None, 12%N); (1, Some 0, 17%N); (2, Some 1, 23%N)].
Proof. vm_compute. reflexivity. Qed.

Example C07_varint_example :
  entry_head 3 300 = [188; 18]%N /\ ofs_encode 300 = [129; 44]%N /\ ofs_encode 128 = [128; 0]%N.
Proof. vm_compute. repeat split. Qed.
