(* Properties/C14.v — Reference and reflog storage cannot escape the refs namespace.
   Only statements here; proofs live in Proofs/C14.v.
   G = Model/RefGuard.valid_reference_name (dotgit.validReferenceName,
       ReferenceName.IsSafe, pathutil.IsHFSDot / IsNTFSDot with needle ".") and
       Model/RefPaths.footprint (the paths SetRef, Ref, RemoveRef, Refs, PackRefs,
       ReflogReader, ReflogWriter, DeleteReflog hand to the filesystem);
   S = Spec/PathRes (lexical resolution; how NTFS and HFS+ see a component). *)
From Coq Require Import List NArith Bool String.
From GoGit Require Import Base.Out Model.RefStrings Model.RefName Model.RefGuard Model.RefStore Model.RefPaths
  Spec.PathRes Proofs.C14.
Import ListNotations.
Local Open Scope N_scope.

(* Names that could resolve elsewhere are refused before any filesystem call:
   every entry point that takes a name touches nothing when the guard says no. *)
Theorem C14_refused : forall o pop n,
  guarded o = true -> valid_reference_name n = false -> footprint o pop n = None.
Proof. intros o pop n Hg Hv. unfold footprint. now rewrite Hg, Hv. Qed.
Print Assumptions C14_refused.

(* FULL lexical statement.  For any name (valid or not), any entry point and
   either repository state: every path handed to the filesystem is the
   packed-refs temp file, or a '/'-separated path without backslash whose
   components — even when each is read the way NTFS (trailing spaces / periods,
   alternate data streams) or HFS+ (ignorable code points) would read it —
   resolve lexically to the very same component list (nothing is skipped,
   nothing climbs), and that list lies in refs/**, logs/**, packed-refs or an
   all-caps pseudo-ref slot. *)
Theorem C14_confined : forall o pop n l p,
  footprint o pop n = Some l -> In p l ->
  p = TMP \/
  (mem 92 p = false /\
   resolve (map view (split_on 47 p)) [] = Some (split_on 47 p) /\
   slot (split_on 47 p) = true).
Proof.
  intros o pop n l p Hf Hin. destruct (footprint_confined o pop n l p Hf Hin) as [->|H]; [now left|].
  right. now apply path_ok_resolves.
Qed.
Print Assumptions C14_confined.

(* the guard alone: an accepted name is such a path *)
Theorem C14_guard_sound : forall n, valid_reference_name n = true ->
  mem 92 n = false /\
  resolve (map view (split_on 47 n)) [] = Some (split_on 47 n) /\
  slot (split_on 47 n) = true.
Proof. intros n H. apply path_ok_resolves. now apply valid_path_ok. Qed.
Print Assumptions C14_guard_sound.

(* what the two pathutil predicates mean: the component IS ".." for the filesystem *)
Theorem C14_hfs_fold_spec : forall c, is_hfs_dot c = beqb (hfs_fold c) [46; 46].
Proof. exact is_hfs_dot_fold. Qed.
Print Assumptions C14_hfs_fold_spec.
Theorem C14_ntfs_fold_spec : forall c,
  is_ntfs_dot c = has_prefix [46; 46] c && beqb (ntfs_stem c) [].
Proof. exact is_ntfs_dot_fold. Qed.
Print Assumptions C14_ntfs_fold_spec.

(* non-vacuity *)
Example C14_ok_names :
  valid_reference_name (bytes_of_string "refs/heads/feature/x"%string) = true /\
  valid_reference_name (bytes_of_string "FETCH_HEAD"%string) = true /\
  footprint RLogWrite true (bytes_of_string "refs/heads/a"%string)
  = Some [bytes_of_string "logs/refs/heads"%string; bytes_of_string "logs/refs/heads/a"%string].
Proof. vm_compute. repeat split. Qed.
Example C14_escapes_refused :
  map (fun s => valid_reference_name (bytes_of_string s))
    ["../config"; "refs/heads/../../config"; "config"; "refs/heads/.. "; "refs/heads/..:x"; "refs\..\config";
     "/etc/passwd"; "refs/heads/a/."; "refs//a"]%string
  = [false; false; false; false; false; false; false; false; false].
Proof. vm_compute. reflexivity. Qed.
(* ".." hidden behind a ZERO WIDTH NON-JOINER (E2 80 8C) *)
Example C14_hfs_disguise :
  let c := [46; 226; 128; 140; 46] in
  is_hfs_dot c = true /\ hfs_fold c = [46; 46] /\
  valid_reference_name (bytes_of_string "refs/heads/"%string ++ c) = false /\
  resolve [bytes_of_string "refs"%string; view c; view c; bytes_of_string "config"%string] [] = None.
Proof. vm_compute. repeat split. Qed.
