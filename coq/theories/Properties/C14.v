(* Properties/C14.v — placeholder while the correspondence is brought up *)
From Coq Require Import List NArith Bool String.
From GoGit Require Import Base.Out Model.RefStrings Model.RefGuard Model.RefPaths.
Import ListNotations.
Local Open Scope N_scope.

Theorem C14_refused : forall o pop n,
  guarded o = true -> valid_reference_name n = false -> footprint o pop n = None.
Proof. intros o pop n Hg Hv. unfold footprint. now rewrite Hg, Hv. Qed.
Print Assumptions C14_refused.
