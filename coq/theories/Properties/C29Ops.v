(* Properties/C29Ops.v — A refused porcelain operation changes nothing:
   Restore, Add, Commit, Merge, Pull (the part of C29 that Properties/C29.v,
   Checkout and Reset, does not cover).  Statements only; proofs in
   Proofs/C29Ops.v.  Model: Model/PorcelainOps.v — worktree.go Restore,
   worktree_status.go Add / AddWithOptions, worktree_commit.go Commit,
   repository.go Merge, worktree.go PullContext, with every error exit the code
   has on flattened, directory/file-conflict-free states.

   The full statement, for every operation op of the model:
       xstep op s = (Some e, s') -> observable s' = observable s
   where observable = (HEAD, every reference outside refs/remotes/, index,
   worktree files).  It holds for Restore, Add and Merge with s' = s; it is
   REFUTED for Commit{All} (C29_commit_atomic_refuted) and for Pull on a HEAD that
   names something that is no branch (C29_pull_atomic_refuted), both replayed on
   the real code, and proved under the boolean guards that exclude exactly those
   shapes (C29_commit_atomic_partial, C29_pull_atomic_partial).  Pull is modelled
   in the order of the repaired code ("fix: decide the unstaged-changes refusal of
   Pull before the branch is moved"); the order before the repair refutes the
   statement on an ordinary dirty worktree (C29_pull_unrepaired_refuted). *)
From Coq Require Import List NArith ZArith Bool.
From GoGit Require Import Base.Out Model.Porcelain Model.PorcelainOps Proofs.PorcelainMaps Proofs.C29Ops Proofs.C29OpsFault.
Import ListNotations.

(* Restore (staged / staged+worktree, any path list): every error exit — no
   paths, worktree-only, unborn HEAD, dangling HEAD, HEAD naming no branch —
   leaves the WHOLE state as it was; in particular there is no error exit after
   the first store (the FindEntry failure of checkoutChange is unreachable). *)
Theorem C29_restore_atomic : forall staged worktree files s e s',
  restore staged worktree files s = (Some e, s') -> s' = s.
Proof. exact restore_err_unchanged. Qed.
Print Assumptions C29_restore_atomic.

(* Add(path) for a file, a directory or "." (= AddWithOptions{All}): a failing
   name (index.ErrEntryNotFound) or a dangling HEAD leaves the WHOLE state as it
   was — the in-memory index is stored only when every name succeeded *)
Theorem C29_add_atomic : forall p s e s', add_path p s = (Some e, s') -> s' = s.
Proof. exact add_path_err_unchanged. Qed.
Print Assumptions C29_add_atomic.

(* Merge (fast-forward only): unsupported strategy, unborn HEAD, unknown
   target, not a fast-forward — nothing is written before the last test *)
Theorem C29_merge_atomic : forall target ff s e s', merge target ff s = (Some e, s') -> s' = s.
Proof. exact merge_err_unchanged. Qed.
Print Assumptions C29_merge_atomic.

(* Commit without All: option validation, missing author, empty commit (both
   tests), Amend on an unborn or dangling HEAD, dangling parent — the WHOLE state
   is as before *)
Theorem C29_commit_atomic_partial : forall o s e s',
  cm_all o = false -> commit o s = (Some e, s') -> s' = s.
Proof. exact commit_err_unchanged_partial. Qed.
Print Assumptions C29_commit_atomic_partial.

(* Commit{All} stores the index (autoAddModifiedAndDeleted) BEFORE the empty-commit
   and parent tests: with a staged change and the worktree back at HEAD's version
   it returns ErrEmptyCommit and the staged change is gone from the index *)
Theorem C29_commit_atomic_refuted :
  exists o s e s', commit o s = (Some e, s') /\ observable s' <> observable s.
Proof. exact commit_all_refuted. Qed.
Print Assumptions C29_commit_atomic_refuted.

(* … but nothing else: HEAD, every reference, the commits and the worktree
   survive every refused Commit *)
Theorem C29_commit_keeps_refs_worktree : forall o s e s',
  commit o s = (Some e, s') ->
  r_commits s' = r_commits s /\ r_refs s' = r_refs s /\ r_head s' = r_head s /\ r_wt s' = r_wt s.
Proof. exact commit_err_keeps. Qed.
Print Assumptions C29_commit_keeps_refs_worktree.

(* Pull (repaired order), HEAD on a branch or detached, every advertised
   reference naming a commit: unknown remote, unreachable or empty remote,
   unknown reference, dangling HEAD, already up to date, non-fast-forward,
   unstaged changes — HEAD, every local reference, index and worktree are as
   before (the remote-tracking references keep what the fetch half stored) *)
Theorem C29_pull_atomic_partial : forall e s x s',
  pull_guard e s = true -> pull e s = (Some x, s') -> observable s' = observable s.
Proof. exact pull_err_observable. Qed.
Print Assumptions C29_pull_atomic_partial.

(* without the guard: HEAD names a tag; updateHEAD moves the tag, then
   setHEADCommit refuses ("invalid HEAD target should be a branch") *)
Theorem C29_pull_atomic_refuted :
  exists e s x s', pull e s = (Some x, s') /\ observable s' <> observable s.
Proof. exact pull_head_not_branch_refuted. Qed.
Print Assumptions C29_pull_atomic_refuted.

(* the order of the code before the repair: ErrUnstagedChanges after the branch moved *)
Theorem C29_pull_unrepaired_refuted :
  exists e s s', pull_guard e s = true /\ pull_unrepaired e s = (Some XUnstaged, s') /\ observable s' <> observable s.
Proof. exact pull_unrepaired_refuted. Qed.
Print Assumptions C29_pull_unrepaired_refuted.

(* once the tests of Pull have passed, its final Reset cannot refuse *)
Theorem C29_pull_no_late_refusal : forall e s rc s1,
  pull_guard e s = true -> pull_pre e s = (None, (rc, s1)) -> runstaged s1 = false ->
  exists s', reset_merge rc (rupdate_head rc s1) = (None, s').
Proof. exact pull_no_late_refusal. Qed.
Print Assumptions C29_pull_no_late_refusal.

(* any op of a case *)
Theorem C29_xstep_atomic_partial : forall o s x s',
  op_guard o s = true -> xstep o s = (Some x, s') -> observable s' = observable s.
Proof. exact xstep_err_observable. Qed.
Print Assumptions C29_xstep_atomic_partial.

(* ---------- injected faults, at the granularity of the stores an operation
   performs (Storer.SetReference / SetIndex, worktree file written / removed;
   object-store writes are not observable).  [effects o s] lists them in program
   order; a filesystem fault between two stores leaves [after_fault j o s]. *)

(* the store list is the operation, refused or not: replayed on s it gives the
   state the operation returns (so its prefixes are the states a fault between
   stores can leave) *)
Theorem C29_effects_sound : forall o s,
  is_porcelain o = true -> apply_effs (effects o s) s = snd (xstep o s).
Proof. exact effects_sound. Qed.
Print Assumptions C29_effects_sound.

(* a refused operation (under the guards of the atomicity theorems) has made no
   observable store at all: a fault anywhere in it changes nothing either *)
Theorem C29_fault_refused_atomic : forall o s x j,
  op_guard o s = true -> fst (xstep o s) = Some x -> observable (after_fault j o s) = observable s.
Proof. exact fault_refused_atomic. Qed.
Print Assumptions C29_fault_refused_atomic.

(* Add, Merge and Commit without All perform ONE observable store: whatever
   number of stores a fault lets through, the repository is observably the old
   one or exactly the one the undisturbed operation returns *)
Theorem C29_fault_single_store_atomic : forall o s j,
  single_store o = true ->
  observable (after_fault j o s) = observable s \/ after_fault j o s = snd (xstep o s).
Proof. exact fault_single_store_atomic. Qed.
Print Assumptions C29_fault_single_store_atomic.

(* the same statement is false of Restore{Staged, Worktree} (index stored, first
   file rewritten, second not) … *)
Theorem C29_fault_prefix_refuted :
  exists o s j, fst (xstep o s) = None /\
    observable (after_fault j o s) <> observable s /\
    observable (after_fault j o s) <> observable (snd (xstep o s)).
Proof. exact fault_prefix_refuted. Qed.
Print Assumptions C29_fault_prefix_refuted.

(* … and of Commit{All} (index stored, no commit) *)
Theorem C29_fault_commit_all_refuted :
  exists o s j, fst (xstep o s) = None /\
    observable (after_fault j o s) <> observable s /\
    observable (after_fault j o s) <> observable (snd (xstep o s)).
Proof. exact fault_commit_all_refuted. Qed.
Print Assumptions C29_fault_commit_all_refuted.

From Coq Require Import String.

(* non-vacuity: each class of refusal occurs *)
Example C29_ops_refusals :
  restore true true [] pu_state = (Some XNoRestorePaths, pu_state) /\
  restore false true [bs "a"%string] pu_state = (Some XWorktreeOnly, pu_state) /\
  add_path (bs "nosuch"%string) pu_state = (Some XEntryNotFound, pu_state) /\
  commit (mkCO false false true false) (w_wt pu_state (r_idx pu_state)) = (Some XEmptyCommit, w_wt pu_state (r_idx pu_state)) /\
  commit (mkCO false false false false) (mkR (r_commits pu_state) (r_refs pu_state) (r_head pu_state) (r_idx pu_state) (r_wt pu_state) false)
    = (Some XMissingAuthor, mkR (r_commits pu_state) (r_refs pu_state) (r_head pu_state) (r_idx pu_state) (r_wt pu_state) false) /\
  merge 0 true (w_refs pu_state [(master, 1%Z)]) = (Some XMergeNotPossible, w_refs pu_state [(master, 1%Z)]) /\
  merge 1 false pu_state = (Some XUnsupportedStrategy, pu_state) /\
  fst (pull (mkPE false true [] None []) pu_state) = Some XRemoteNotFound /\
  fst (pull pt_env pu_state) = Some XUnstaged /\
  fst (pull (mkPE true true [(master, 0%Z)] (Some master) []) (w_refs pu_state [(master, 1%Z)])) = Some XNonFastForward.
Proof. vm_compute. repeat split. Qed.

(* the guards are satisfiable and the guarded statements are not vacuous *)
Example C29_ops_guards :
  pull_guard pt_env pu_state = true /\ pull_guard pt_env pt_state = false /\
  op_guard (XCommit (mkCO false false true false)) pu_state = true.
Proof. vm_compute. repeat split. Qed.

(* a pull that goes through *)
Example C29_fault_states :
  List.length (effects fr_op fr_state) = 7%nat /\
  single_store fr_op = false /\ single_store (XMerge 1 true) = true.
Proof. vm_compute. repeat split. Qed.

Example C29_pull_ok :
  fst (pull pt_env (w_wt pu_state (r_idx pu_state))) = None /\
  lookup master (r_refs (snd (pull pt_env (w_wt pu_state (r_idx pu_state))))) = Some 1%Z.
Proof. vm_compute. split; reflexivity. Qed.
