(* Properties/C29.v — A refused porcelain operation changes nothing.
   Statements only; proofs in Proofs/Porcelain.v.
   Model: Model/Porcelain.v — Checkout and Reset of worktree.go with every
   error exit the code has on flattened, directory/file-conflict-free states;
   filesystem errors in the middle of a worktree update are OUTSIDE the model
   (they do break the property on the real code when a directory sits where
   the target has a file: known finding partial-failure-on-df-conflict). *)
From Coq Require Import List NArith ZArith Bool String.
From GoGit Require Import Base.Out Model.Porcelain Proofs.PorcelainMaps Proofs.Porcelain Proofs.C25 Proofs.C29.
Import ListNotations.

(* Reset, every mode, every error exit (unknown commit, unborn HEAD, unstaged
   changes in Merge mode, local changes in Keep mode, HEAD not on a branch):
   the WHOLE state — HEAD, every ref, index, worktree — is as before. *)
Theorem C29_reset_atomic : forall commit m from s e s',
  reset commit m from s = (Some e, s') -> s' = s.
Proof. exact reset_err_unchanged. Qed.
Print Assumptions C29_reset_atomic.

(* Checkout, every option combination, every error exit (option validation,
   unstaged changes, dangling HEAD, existing branch, unborn HEAD with Create,
   target that is no commit (missing object, a tree or blob hash, a commit
   whose tree is missing), unknown reference): the WHOLE state is as before.
   True of the code since the repair "fix: decide every refusal of Checkout
   before the branch is created and HEAD is moved"; before it the model refuted
   the statement (HEAD moved / branch created, then ErrUnstagedChanges). *)
Theorem C29_checkout_atomic : forall o s e s',
  checkout o s = (Some e, s') -> s' = s.
Proof. exact checkout_err_unchanged. Qed.
Print Assumptions C29_checkout_atomic.

(* once the checks of Checkout have passed, its final Reset cannot refuse: there
   is no error exit after the first write *)
Theorem C29_checkout_no_late_refusal : forall o s c m from s2,
  checkout_pre o s = (None, ((c, m, from), s2)) -> exists s', reset c m from s2 = (None, s').
Proof. exact reset_after_pre_succeeds. Qed.
Print Assumptions C29_checkout_no_late_refusal.

(* any op sequence: a refused step is a no-op *)
Theorem C29_step_atomic : forall o s e s', step o s = (Some e, s') -> s' = s.
Proof.
  intros o s e s' H. destruct o; cbn [step] in H.
  - eapply checkout_err_unchanged; eauto.
  - eapply reset_err_unchanged; eauto.
  - discriminate.
  - discriminate.
Qed.
Print Assumptions C29_step_atomic.

(* non-vacuity: every class of refusal occurs, on the very state that exposed the defect *)
Example C29_refusals :
  checkout (mkCopts o_other (-1) false false false) c29_state = (Some EUnstaged, c29_state) /\
  checkout (mkCopts o_new 1 true false false) c29_state = (Some EUnstaged, c29_state) /\
  checkout (mkCopts o_new 7 true true false) c29_state = (Some EObjectNotFound, c29_state) /\
  checkout (mkCopts o_other 1 false false false) c29_state = (Some EBranchHashExclusive, c29_state) /\
  checkout (mkCopts o_other (-1) true true false) c29_state = (Some EBranchExists, c29_state).
Proof. exact refusals_leave_state. Qed.

Example C29_missing_object_refusals :
  checkout (mkCopts o_new (-1) true false false) (with_head c29_clean (HDet 9)) = (Some EObjectNotFound, with_head c29_clean (HDet 9)) /\
  checkout (mkCopts [] 100 false false false) c29_clean = (Some EOther, c29_clean) /\
  checkout (mkCopts o_new 1 true true false) (without_tree c29_clean [1%Z]) = (Some EObjectNotFound, without_tree c29_clean [1%Z]) /\
  reset 1 Soft None (with_head c29_clean (HSym (b "refs/tags/t"))) = (Some EOther, with_head c29_clean (HSym (b "refs/tags/t"))).
Proof. vm_compute. repeat split. Qed.

Example C29_reset_refusals :
  reset 1 Merge None c29_state = (Some EUnstaged, c29_state) /\
  reset 1 Keep None c29_state = (Some ELocalChanges, c29_state) /\
  reset 9 Hard None c29_state = (Some EObjectNotFound, c29_state).
Proof. vm_compute. repeat split. Qed.

(* Restore, Add, Commit, Merge, Pull and the injected-fault statements live in Properties/C29Ops.v *)
From GoGit Require Export Properties.C29Ops.
