(* Properties/C29.v — A refused porcelain operation changes nothing.
   Statements only; proofs in Proofs/C29.v and Proofs/Porcelain.v. *)
From Coq Require Import List NArith ZArith Bool String.
From GoGit Require Import Base.Out Model.Porcelain Proofs.PorcelainMaps Proofs.Porcelain Proofs.C25 Proofs.C29.
Import ListNotations.

(* Reset, every mode, every error exit (unknown commit, unborn HEAD, unstaged
   changes in Merge mode, local changes in Keep mode, HEAD not on a branch):
   the WHOLE state — HEAD, every ref, index, worktree — is as before. *)
Theorem C29_reset_atomic : forall commit m from s e s',
  reset commit m from s = (Some e, s') -> s' = s.
Proof. exact reset_err_unchanged. Qed.
Print Assumptions C29_reset_atomic.

(* FULL statement for Checkout:
     forall o s e s', checkout o s = (Some e, s') -> s' = s
   is FALSE of the code: createBranch and the HEAD update run before Reset's
   unstaged-changes check. *)
Theorem C29_checkout_refuted :
  exists o s e s', checkout o s = (Some e, s') /\ head s' <> head s.
Proof.
  destruct checkout_moves_head_then_refuses as (s' & H1 & H2 & H3).
  eexists _, c29_state, _, s'. split; [exact H1|]. rewrite H2, H3. discriminate.
Qed.
Print Assumptions C29_checkout_refuted.

Theorem C29_checkout_create_refuted :
  exists o s e s', checkout o s = (Some e, s') /\
    lookup (co_branch_name o) (refs s) = None /\ lookup (co_branch_name o) (refs s') <> None.
Proof.
  destruct checkout_creates_branch_then_refuses as (s' & H1 & H2 & H3 & _).
  eexists _, c29_state, _, s'. split; [exact H1|]. cbn [co_branch_name co_branch o_new].
  split; [exact H2|]. change (co_branch_name (mkCopts o_new 1 true false false)) with o_new.
  rewrite H3. discriminate.
Qed.
Print Assumptions C29_checkout_create_refuted.

(* strongest true statement: a refused Checkout never touches the index, the
   worktree or any ref other than the branch it was asked about; when the
   refusal comes from the phase before Reset ([pre_ok] = false: option
   validation, existing branch, unknown reference, object that is no commit,
   dangling HEAD) the whole state is unchanged provided Create is off, or the
   error is one of the three validation errors; otherwise ([pre_ok] = true, the
   refusal comes from Reset) the state is exactly the one Checkout had reached
   before Reset: branch created, HEAD moved — the defect. *)
Theorem C29_checkout_partial : forall o s e s', checkout o s = (Some e, s') ->
  commits s' = commits s /\ idx s' = idx s /\ wt s' = wt s /\
  (forall n, n <> co_branch_name o -> lookup n (refs s') = lookup n (refs s)) /\
  (pre_ok o s = false -> co_create o = false -> s' = s) /\
  (pre_ok o s = false -> early_err e = true -> s' = s) /\
  (pre_ok o s = true -> exists x, checkout_pre o s = (None, (x, s'))).
Proof. exact checkout_err_frame. Qed.
Print Assumptions C29_checkout_partial.

(* non-vacuity: both guards are satisfiable; a refusal before Reset (branch
   and hash given together) leaves the witness state alone *)
Example C29_pre_error_example :
  pre_ok (mkCopts o_other 1 false false false) c29_state = false /\
  checkout (mkCopts o_other 1 false false false) c29_state = (Some EBranchHashExclusive, c29_state) /\
  pre_ok (mkCopts o_other (-1) false false false) c29_state = true.
Proof. vm_compute. repeat split. Qed.

Example C29_reset_refusals :
  reset 1 Merge None c29_state = (Some EUnstaged, c29_state) /\
  reset 1 Keep None c29_state = (Some ELocalChanges, c29_state) /\
  reset 9 Hard None c29_state = (Some EObjectNotFound, c29_state).
Proof. vm_compute. repeat split. Qed.
