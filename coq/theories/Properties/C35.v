(* Properties/C35.v — Protocol messages round-trip.
   Only statements here; proofs live in Proofs/C35{Base,Msgs,Caps,Adv}.v.
   Shape of every round trip: for a well-formed value m (boolean guard), if the
   packets written by Encode fit pkt-lines (enc_pkts = Some s), then for EVERY
   chunking r of the byte stream s, Decode returns the canonical form of m.
   [src_of (scan_all r)] is what a decoder sees through pktline.Scanner. *)
From Coq Require Import List NArith ZArith Bool.
From GoGit Require Import Base.Out Model.PktLine Model.C35Utf8 Model.Packp Model.PackpV2
  Proofs.C34Pkt Proofs.C35Base Proofs.C35Msgs Proofs.C35Caps Proofs.C35Adv Proofs.C35Upd Proofs.C35Ul
  Proofs.C35V2Base Proofs.C35V2Caps Proofs.C35V2Fetch Proofs.C35V2Ls Proofs.C35V2Out
  Spec.GitProto Proofs.C35Git Proofs.C35GitV2 Proofs.C35GitV0 Proofs.C35GitAdv Proofs.C35GitUpd Proofs.C35GitCmd Proofs.C35GitOut.
Import ListNotations.

(* capability.List: DecodeList (l.String()) = l for lists with distinct,
   non-empty keys of graphic non-blank ASCII without '=', values likewise
   (values may be empty and may contain '=') *)
Theorem C35_caps_roundtrip : forall l, caps_ok l = true -> cap_decode (cap_encode l) [] = l.
Proof. exact caps_roundtrip. Qed.
Print Assumptions C35_caps_roundtrip.

(* object ids, SHA-1 and SHA-256: FromHex (h.String()) = h *)
Theorem C35_hash_roundtrip : forall h, hash_ok h = true ->
  from_hex (hash_str h) = (h, true) /\ List.length (hash_str h) = (if h256 h then 64 else 40)%nat.
Proof.
  intros h H. split; [now apply from_hex_str|]. rewrite (hash_str_length h H).
  unfold hash_hexsize, hash_size. destruct (h256 h); reflexivity.
Qed.
Print Assumptions C35_hash_roundtrip.

(* transport of a packet-level round trip to every chunking of the byte stream *)
Lemma on_stream {T} (dec : src -> T + derr) ps s r v :
  enc_pkts ps = Some s -> concat r = s -> forallb no_errline ps = true ->
  dec (mksrc (map item_of ps) None) = inl v -> dec (src_of (scan_all r)) = inl v.
Proof. intros He Hr Hn Hd. now rewrite (src_enc ps s r He Hn Hr). Qed.

(* ReportStatus: any unpack status, any command statuses; reference names without blanks *)
Theorem C35_report_roundtrip : forall m s r, rs_ok m = true ->
  enc_pkts (rs_encode m) = Some s -> concat r = s ->
  rs_decode (src_of (scan_all r)) = inl m.
Proof. intros m s r H He Hr. eapply on_stream; eauto using rs_no_errline, rs_roundtrip. Qed.
Print Assumptions C35_report_roundtrip.

(* ShallowUpdate (after "fix: packp: accept SHA-256 ids in a shallow-update"; the
   unchanged tree rejected its own encoding of SHA-256 ids): every list of
   valid ids, SHA-1 or SHA-256 *)
Theorem C35_shupd_roundtrip : forall m s r,
  forallb hash_ok (su_shallows m) = true -> forallb hash_ok (su_unshallows m) = true ->
  enc_pkts (su_encode m) = Some s -> concat r = s ->
  su_decode (src_of (scan_all r)) = inl m.
Proof. intros m s r H1 H2 He Hr. eapply on_stream; eauto using su_no_errline, su_roundtrip. Qed.
Print Assumptions C35_shupd_roundtrip.

(* UploadHaves (SHA-1 and SHA-256): the haves come back sorted and without
   duplicates, Done is preserved *)
Theorem C35_uphav_roundtrip : forall m s r, forallb hash_ok (uh_haves m) = true ->
  enc_pkts (uh_encode m) = Some s -> concat r = s ->
  uh_decode (src_of (scan_all r)) = inl (uh_canon m).
Proof. intros m s r H He Hr. eapply on_stream; eauto using uh_no_errline, uh_roundtrip. Qed.
Print Assumptions C35_uphav_roundtrip.

(* PushOptions: every list of options that Encode accepts (every rune graphic in
   the sense of unicode.IsGraphic — any UTF-8, invalid bytes count as U+FFFD — and
   at most MaxPayloadSize bytes) and none of which starts with "ERR " *)
Theorem C35_pushopts_roundtrip : forall opts ps s r,
  po_encode opts = Some ps -> forallb (fun o => negb (has_prefix errPrefix o)) opts = true ->
  enc_pkts ps = Some s -> concat r = s ->
  po_decode (src_of (scan_all r)) = inl opts.
Proof.
  intros opts ps s r Hp Hn He Hr. eapply on_stream; eauto using po_roundtrip.
  unfold po_encode in Hp.
  destruct (forallb (fun o => graphic_str o && (zlen o <=? Gen.C34.pktline_MaxPayloadSize)%Z) opts); [|discriminate].
  injection Hp as <-.
  rewrite forallb_app. cbn [forallb]. rewrite andb_true_r.
  rewrite forallb_forall in *. intros p Hp. apply in_map_iff in Hp. destruct Hp as (o & <- & Ho). now apply Hn.
Qed.
Print Assumptions C35_pushopts_roundtrip.

(* ServerResponse (after the fix of the plain-ACK hash): statuses 1..3, the last
   ACK may be a plain one; NAK for the empty list *)
Theorem C35_srvresp_roundtrip : forall acks s r, sr_ok acks = true ->
  enc_pkts (sr_encode acks) = Some s -> concat r = s ->
  sr_decode (src_of (scan_all r)) = inl acks.
Proof. intros acks s r H He Hr. eapply on_stream; eauto using sr_no_errline, sr_roundtrip. Qed.
Print Assumptions C35_srvresp_roundtrip.

(* AdvRefs (after the fix of the first reference's peeled line): versions 0/1,
   well-formed capabilities, references with non-empty names free of SP / NUL
   and valid ids (first id not zero), shallows: decoding returns version,
   capabilities, the references in wire order (adv_wire) and the sorted shallows *)
Theorem C35_advrefs_roundtrip : forall a ps s r, adv_ok a = true ->
  adv_encode a = Some ps -> enc_pkts ps = Some s -> concat r = s ->
  adv_decode (src_of (scan_all r)) = inl (adv_canon a).
Proof. intros a ps s r H Ha He Hr. eapply on_stream; eauto using adv_no_errline, adv_roundtrip. Qed.
Print Assumptions C35_advrefs_roundtrip.

(* ... in particular the peeled line of the FIRST advertised reference is not
   lost (the defect found in the unchanged tree and repaired): when the first
   reference (n, h) has an entry n^{} in the message, the decoded references
   start with (n, h); (n^{}, ph) *)
Theorem C35_advrefs_first_peeled : forall a n h ph,
  first_ref (ar_refs a) = Some (n, h) -> peeled_lookup (ar_refs a) n None = Some ph ->
  exists rest, ar_refs (adv_canon a) = (n, h) :: (n ++ peeled_suffix, ph) :: rest.
Proof.
  intros a n h ph Hf Hp. unfold adv_canon, adv_wire. cbn [ar_refs]. rewrite Hf. unfold wire_of at 1. cbn [fst]. rewrite Hp.
  eexists. reflexivity.
Qed.
Print Assumptions C35_advrefs_first_peeled.

(* UpdateRequests: capabilities, shallows, commands (create / update / delete)
   with names of graphic non-blank ASCII and valid ids, not both zero *)
Theorem C35_updreq_roundtrip : forall m ps s r, ur_ok m = true ->
  ur_encode m = Some ps -> enc_pkts ps = Some s -> concat r = s ->
  ur_decode (src_of (scan_all r)) = URok m.
Proof.
  intros m ps s r H Hu He Hr. rewrite (src_enc ps s r He (ur_no_errline m ps H Hu) Hr). now apply ur_roundtrip.
Qed.
Print Assumptions C35_updreq_roundtrip.

(* UploadRequest (after "fix: packp: decode the filter line of an upload-request";
   the unchanged tree could not decode a request with Filter set): capabilities,
   wants and shallows (sorted, de-duplicated), every depth form (deepen n /
   deepen-since t / deepen-not refs) and the filter round-trip *)
Theorem C35_ulreq_roundtrip : forall m, ul_ok m = true ->
  exists ps, ul_encode m = ULok ps /\
    forall s r, enc_pkts ps = Some s -> concat r = s ->
      ul_decode (src_of (scan_all r)) = inl (ul_canon m).
Proof.
  intros m H. destruct (ul_roundtrip m H) as (ps & He & Hn & Hd). exists ps. split; [assumption|].
  intros s r Hs Hr. now rewrite (src_enc ps s r Hs Hn Hr).
Qed.
Print Assumptions C35_ulreq_roundtrip.

(* ================= protocol v2 =================
   The v2 decoders call pktline.ReadLine themselves: [map fst (rl_all r)] is the
   sequence of ReadLine results on the reader r (any chunking of the bytes),
   [val] drops the unread rest.  Guards: capability keys and values, commands,
   ref-prefixes, reference names, deepen-not references and filters are words
   of graphic non-blank ASCII (keys without '='); ids are valid SHA-1 / SHA-256. *)
Lemma on_lines {A} (dec : lines -> (A * lines) + v2err) ps s r v :
  enc_pkts ps = Some s -> concat r = s -> forallb no_errline ps = true ->
  dec (map rdp ps ++ [rd_fail PEeof]) = inl (v, [rd_fail PEeof]) -> val (dec (map fst (rl_all r))) = inl v.
Proof. intros He Hr Hn Hd. rewrite (rl_all_fst ps s r He Hn Hr), Hd. reflexivity. Qed.

(* CapabilityAdv: "version 2", one capability per line, flush-pkt *)
Theorem C35_capadv_roundtrip : forall l ps s r, caps2_ok l = true ->
  capadv_encode 2 l = Some ps -> enc_pkts ps = Some s -> concat r = s ->
  val (capadv_decode (map fst (rl_all r))) = inl (2%Z, l).
Proof.
  intros l ps s r H Hc He Hr. destruct (capadv_roundtrip l ps [rd_fail PEeof] H Hc) as [Hn Hd].
  rewrite (rl_all_fst ps s r He Hn Hr), Hd. reflexivity.
Qed.
Print Assumptions C35_capadv_roundtrip.

(* CommandRequest: command=, capabilities, delim-pkt, the arguments of ls-refs
   (peel / symrefs / unborn / ref-prefix) or fetch (want, have, done, thin-pack,
   no-progress, include-tag, ofs-delta, shallow, deepen, deepen-relative,
   deepen-since, deepen-not, filter, wait-for-done) or none, flush-pkt.
   The fetch arguments come back with wants, haves and shallows sorted. *)
Theorem C35_cmdreq_roundtrip : forall c ps s r, cmdreq_ok c = true ->
  cmdreq_encode c = Some ps -> enc_pkts ps = Some s -> concat r = s ->
  val (cmdreq_decode (cargs_zero (cr_args c)) (map fst (rl_all r))) = inl (cmdreq_canon c).
Proof.
  intros c ps s r H Hc He Hr. destruct (cmdreq_roundtrip c ps [rd_fail PEeof] H Hc) as [Hn Hd].
  rewrite (rl_all_fst ps s r He Hn Hr), Hd. reflexivity.
Qed.
Print Assumptions C35_cmdreq_roundtrip.

(* the argument encoders alone (the caller writes the flush-pkt) *)
Theorem C35_lsargs_roundtrip : forall a ps s r, lsargs_ok a = true ->
  lsargs_encode a = Some ps -> enc_pkts (ps ++ [PFlush]) = Some s -> concat r = s ->
  val (lsargs_decode (map fst (rl_all r)) lsargs_zero) = inl a.
Proof.
  intros a ps s r H Hc He Hr. destruct (lsargs_roundtrip a ps [rd_fail PEeof] H Hc) as [Hn Hd].
  rewrite (rl_all_fst (ps ++ [PFlush]) s r He) by (first [assumption | rewrite forallb_app, Hn; reflexivity]). now rewrite Hd.
Qed.
Print Assumptions C35_lsargs_roundtrip.

Theorem C35_fetchargs_roundtrip : forall a ps s r, fetchargs_ok a = true ->
  fetchargs_encode a = Some ps -> enc_pkts (ps ++ [PFlush]) = Some s -> concat r = s ->
  val (fetchargs_decode (map fst (rl_all r)) fetchargs_zero) = inl (fetchargs_canon a).
Proof.
  intros a ps s r H Hc He Hr. destruct (fetchargs_roundtrip a ps [rd_fail PEeof] H Hc) as [Hn Hd].
  rewrite (rl_all_fst (ps ++ [PFlush]) s r He) by (first [assumption | rewrite forallb_app, Hn; reflexivity]). now rewrite Hd.
Qed.
Print Assumptions C35_fetchargs_roundtrip.

(* LsRefsOutput: "<oid> <name>", " symref-target:<t>" for a symbolic reference
   (its oid is that of the target, or "unborn"), " peeled:<oid>" for a name
   that has a ^{} entry, which comes back as its own reference right after *)
Theorem C35_lsout_roundtrip : forall refs s r, forallb lsref_ok refs = true ->
  enc_pkts (lsout_encode refs ++ [PFlush]) = Some s -> concat r = s ->
  val (lsout_decode (map fst (rl_all r)) []) = inl (lsout_canon refs).
Proof.
  intros refs s r H He Hr. destruct (lsout_roundtrip refs [rd_fail PEeof] H) as [Hn Hd].
  rewrite (rl_all_fst _ s r He) by (first [assumption | rewrite forallb_app, Hn; reflexivity]). now rewrite Hd.
Qed.
Print Assumptions C35_lsout_roundtrip.

(* FetchOutput: a negotiation round (acknowledgments without ready, flush-pkt), or
   the sections acknowledgments (with ready) / shallow-info / wanted-refs /
   packfile-uris, each closed by a delim-pkt, and the packfile header.
   Guard fetchout_ok: with a packfile, acknowledgments must be ready (Encode does
   not check it; go-git's and git's decoders refuse such a response). *)
Theorem C35_fetchout_roundtrip : forall o ps s r, fetchout_ok o = true ->
  fetchout_encode o = Some ps -> enc_pkts ps = Some s -> concat r = s ->
  val (fetchout_decode (map fst (rl_all r))) = inl o.
Proof.
  intros o ps s r H Hc He Hr. destruct (fetchout_roundtrip o ps [rd_fail PEeof] H Hc) as [Hn Hd].
  rewrite (rl_all_fst ps s r He Hn Hr), Hd. reflexivity.
Qed.
Print Assumptions C35_fetchout_roundtrip.

(* the full statement for Encode-accepted values is false of the code: Encode
   writes acknowledgments without "ready" in front of a packfile, Decode refuses it *)
Theorem C35_fetchout_noready_refuted : exists o ps,
  fetchout_encode o = Some ps /\ forallb no_errline ps = true /\
  fetchout_decode (map rdp ps ++ [rd_fail PEeof]) = inr V2Malformed.
Proof.
  exists (mkfetchout (Some ([], false)) None None None true). eexists. split; [reflexivity|]. vm_compute. split; reflexivity.
Qed.
Print Assumptions C35_fetchout_noready_refuted.

(* ... and Decode leaves the reader right behind the packfile header: whatever
   bytes t follow (the packfile data), exactly |t| bytes are unread *)
Theorem C35_fetchout_position : forall o ps s t r, fetchout_ok o = true -> fo_packfile o = true ->
  fetchout_encode o = Some ps -> enc_pkts ps = Some s -> concat r = s ++ t ->
  exists ls', fetchout_decode (map fst (rl_all r)) = inl (o, ls') /\ rl_rest (rlen r) (rl_all r) ls' = List.length t.
Proof. exact fetchout_position. Qed.
Print Assumptions C35_fetchout_position.

(* ================= go-git's encodings in git's grammars =================
   S = Spec/GitProto.v: the pkt-level grammars of git's protocol documents, one
   parser per message, validated against git 2.39.5 on every run (suite "git").
   git_<msg> (Encode m) = Some (what git learns) — and that is m.
   hexsz: the hex length of the conversation's object format; [sized hexsz h]:
   h is a valid id of that format. *)
Theorem C35_shupd_git : forall hexsz m,
  forallb (sized hexsz) (su_shallows m) = true -> forallb (sized hexsz) (su_unshallows m) = true ->
  git_shupd hexsz (su_encode m) false [] [] = Some (su_shallows m, su_unshallows m).
Proof. exact git_shupd_enc. Qed.
Print Assumptions C35_shupd_git.

Theorem C35_uphav_git : forall hexsz m, forallb (sized hexsz) (uh_haves m) = true ->
  git_haves hexsz (uh_encode m) [] = Some (uh_haves (uh_canon m), uh_done m).
Proof. exact git_haves_enc. Qed.
Print Assumptions C35_uphav_git.

Theorem C35_srvresp_git : forall hexsz acks, sr_ok acks = true -> forallb (fun a => sized hexsz (fst a)) acks = true ->
  git_srvresp hexsz (sr_encode acks) [] = Some acks.
Proof. exact git_srvresp_enc. Qed.
Print Assumptions C35_srvresp_git.

(* reference names non-empty and free of blanks (report_ok) *)
Theorem C35_report_git : forall m, report_ok m = true -> git_report (rs_encode m) = Some (rs_unpack m, rs_cmds m).
Proof. exact git_report_enc. Qed.
Print Assumptions C35_report_git.

(* options that do not end in LF (git strips one) *)
Theorem C35_pushopts_git : forall opts ps, po_encode opts = Some ps ->
  forallb (fun o => negb (N.eqb NL (last o 0%N))) opts = true -> git_pushopts ps [] = Some opts.
Proof.
  intros opts ps He H. unfold po_encode in He.
  destruct (forallb (fun o => graphic_str o && (zlen o <=? Gen.C34.pktline_MaxPayloadSize)%Z) opts); [|discriminate].
  injection He as <-. now rewrite (git_pushopts_lines opts [] H).
Qed.
Print Assumptions C35_pushopts_git.

(* upload-request: first want with the capabilities, further wants, shallow lines, the depth request, the filter —
   in the order of the grammar; beyond ul_ok, ul_git_ok asks for one object format, a depth below 2^31,
   a positive deepen-since and non-empty deepen-not references (what git's grammar and integer types hold) *)
Theorem C35_ulreq_git : forall hexsz u, ul_ok u = true -> ul_git_ok hexsz u = true ->
  exists ps, ul_encode u = ULok ps /\ git_ulreq hexsz ps = Some (ul_abs (ul_canon u)).
Proof. exact git_ulreq_enc. Qed.
Print Assumptions C35_ulreq_git.

(* advertised-refs (v0 / v1): the capability words, the references in wire order, the sorted shallows.
   adv_git_ok: one object format, no reference called capabilities^{} *)
Theorem C35_advrefs_git : forall hexsz a ps, adv_ok a = true -> adv_git_ok hexsz a = true -> adv_encode a = Some ps ->
  git_advrefs hexsz ps = Some (adv_abs a).
Proof. exact git_advrefs_enc. Qed.
Print Assumptions C35_advrefs_git.

(* update-requests: shallow lines, the first command with the capabilities behind a NUL, the other commands, flush-pkt *)
Theorem C35_updreq_git : forall hexsz u ps, ur_ok u = true -> ur_git_ok hexsz u = true -> ur_encode u = Some ps ->
  git_updreq hexsz ps = Some (ur_abs u).
Proof. exact git_updreq_enc. Qed.
Print Assumptions C35_updreq_git.

(* v2 command request: the frame (command=, capabilities, delim-pkt), then the arguments up to the flush-pkt *)
Theorem C35_cmdreq_git : forall c ps, cmdreq_ok c = true -> cmdreq_encode c = Some ps ->
  exists al, cargs_encode (cr_args c) = Some al /\
             git_cmdreq ps = Some (Some (cr_command c, map cap2_abs (cr_caps c), al ++ [PFlush])).
Proof. exact git_cmdreq_enc. Qed.
Print Assumptions C35_cmdreq_git.

Theorem C35_lsargs_git : forall a al, lsargs_ok a = true -> lsargs_encode a = Some al ->
  git_lsargs (al ++ [PFlush]) (mkglsargs false false false []) = Some (ls_abs a).
Proof. exact git_lsargs_enc. Qed.
Print Assumptions C35_lsargs_git.

(* fetch arguments: fa_git_ok asks for one object format, a depth below 2^31 and a positive deepen-since *)
Theorem C35_fetchargs_git : forall hexsz a al, fetchargs_ok a = true -> fa_git_ok hexsz a = true -> fetchargs_encode a = Some al ->
  git_fetchargs hexsz (al ++ [PFlush]) (mkgfetchargs [] [] [] [] None None [] None) = Some (fa_abs (fetchargs_canon a)).
Proof. exact git_fetchargs_enc. Qed.
Print Assumptions C35_fetchargs_git.

(* v2: git reads each capability line as key[=value]; the values of a key are one blank-separated value *)
Theorem C35_capadv_git : forall l ps, caps2_ok l = true -> capadv_encode 2 l = Some ps -> git_capadv ps = Some (map cap2_abs l).
Proof. exact git_capadv_enc. Qed.
Print Assumptions C35_capadv_git.

(* v2 ls-refs output: per line the name, the oid (none for "unborn"), the symref target, the peeled oid *)
Theorem C35_lsout_git : forall hexsz refs, forallb lsref_ok refs = true -> forallb (lsref_sized hexsz) refs = true ->
  git_lsout hexsz (lsout_encode refs ++ [PFlush]) [] = Some (flat_map (gls_of refs) refs).
Proof. exact git_lsout_enc. Qed.
Print Assumptions C35_lsout_git.

(* v2 fetch output up to the packfile data: the sections in the order of the grammar, acknowledgments with
   "ready" exactly in front of a delim-pkt, the packfile header last — or acknowledgments and a flush-pkt *)
Theorem C35_fetchout_git : forall hexsz o ps, fetchout_ok o = true -> fo_git_ok hexsz o = true -> fetchout_encode o = Some ps ->
  git_fetchout hexsz ps = Some (fo_abs o).
Proof. exact git_fetchout_enc. Qed.
Print Assumptions C35_fetchout_git.

(* ---------- non-vacuity ---------- *)
From Coq Require Import String.
Definition h1 : hash := mkhash (repeat 17%N 20 ++ repeat 0%N 12) false.
Definition h2 : hash := mkhash (repeat 34%N 20 ++ repeat 0%N 12) false.
Definition h3 : hash := mkhash (repeat 171%N 32) true.

Example C35_ex_guards :
  hash_ok h1 = true /\ hash_ok h3 = true /\
  caps_ok [(B "multi_ack", []); (B "symref", [B "HEAD:refs/heads/main"]); (B "x", [[]; B "a=b"])] = true /\
  sr_ok [(h1, 1%N); (h2, 0%N)] = true /\ rs_ok (mkreport (B "ok") [(B "refs/heads/m", B "ok"); (B "refs/x", B "non fast forward")]) = true.
Proof. vm_compute. repeat split. Qed.

(* the confirmed defect, on the repaired model: a tag advertised first keeps its peeled line *)
Example C35_ex_first_peeled :
  let a := mkadv 0 [(B "ofs-delta", [])] [(B "refs/tags/v1", h1); (B "refs/tags/v1^{}", h2)] [] in
  adv_ok a = true /\
  match adv_encode a with
  | Some ps => adv_decode (mksrc (map item_of ps) None) = inl a /\ List.length ps = 3%nat
  | None => False
  end.
Proof. vm_compute. repeat split. Qed.

Example C35_ex_requests :
  ur_ok (mkupdreq [(B "report-status", [])] [(B "refs/heads/main", zero_hash, h1); (B "refs/tags/v1", h1, h2)] [h2]) = true /\
  ul_ok (mkulreq [(B "ofs-delta", [])] [h2; h1; h2] [h1] 0 (Some 1700000000%Z) [B "refs/heads/old"] []) = true /\
  ul_ok (mkulreq [] [h1] [] 3 None [] (B "blob:none")) = true /\
  ul_ok (mkulreq [] [h3] [h3] 0 None [B "refs/heads/x"] (B "tree:0")) = true /\
  ul_wants (ul_canon (mkulreq [] [h2; h1; h2] [] 0 None [] [])) = [h1; h2].
Proof. vm_compute. repeat split. Qed.

Example C35_ex_v2 :
  caps2_ok [(B "agent", [B "git/2.39.5"]); (B "ls-refs", [B "unborn"]); (B "fetch", [B "shallow"; B "wait-for-done"; B "filter"]); (B "server-option", [])] = true /\
  cmdreq_ok (mkcmdreq (B "ls-refs") [(B "agent", [B "go-git"])] (CALs (mklsargs true true false [B "refs/heads/"; B "HEAD"]))) = true /\
  cmdreq_ok (mkcmdreq (B "fetch") [(B "object-format", [B "sha1"])]
     (CAFetch (mkfetchargs [h2; h1] [h1] true true false true true [h2] 3 false (Some 1700000000%Z) [B "refs/heads/old"] (B "blob:none") false))) = true /\
  forallb lsref_ok [(B "HEAD", RSym (B "refs/heads/main")); (B "refs/heads/main", RHash h1); (B "refs/tags/v1", RHash h2); (B "refs/tags/v1^{}", RHash h1)] = true /\
  lsout_canon [(B "refs/tags/v1^{}", RHash h1); (B "refs/tags/v1", RHash h2)] = [(B "refs/tags/v1", RHash h2); (B "refs/tags/v1^{}", RHash h1)] /\
  fetchout_ok (mkfetchout (Some ([h1], true)) (Some ([h2], [])) (Some [(B "refs/heads/main", h1)]) (Some [B "https://x/y.pack"]) true) = true /\
  fetchout_ok (mkfetchout (Some ([], false)) None None None false) = true /\
  fetchout_ok (mkfetchout (Some ([h1], false)) None None None true) = false.
Proof. vm_compute. repeat split. Qed.

Example C35_ex_git :
  sized 40 h1 = true /\ sized 40 h3 = false /\ sized 64 h3 = true /\
  ul_git_ok 40 (mkulreq [(B "ofs-delta", [])] [h2; h1; h2] [h1] 0 (Some 1700000000%Z) [B "refs/heads/old"] (B "blob:none")) = true /\
  git_ulreq 40 [PData (B "want " ++ hash_str h1 ++ B " multi_ack ofs-delta" ++ [NL]); PData (B "deepen 3" ++ [NL]); PFlush]
    = Some (mkgulreq [B "multi_ack"; B "ofs-delta"] [h1] [] (Some 3%Z) None [] None) /\
  git_ulreq 40 [PData (B "want " ++ hash_str h1 ++ [NL]); PData (B "deepen 3" ++ [NL]); PData (B "deepen-since 5" ++ [NL]); PFlush] = None /\
  report_ok (mkreport (B "ok") [(B "refs/heads/m", B "ok"); (B "refs/x", B "non fast forward")]) = true.
Proof. vm_compute. repeat split. Qed.

Example C35_ex_srvresp :
  sr_decode (mksrc (map item_of (sr_encode [(h1, 1%N); (h2, 0%N)])) None) = inl [(h1, 1%N); (h2, 0%N)].
Proof. vm_compute. reflexivity. Qed.
