(* Properties/C35.v — temporary stub while the correspondence is brought up *)
From Coq Require Import List NArith ZArith Bool.
From GoGit Require Import Base.Out Model.PktLine Model.Packp.
Import ListNotations.
Theorem C35_tmp : cap_decode [] [] = [].
Proof. reflexivity. Qed.
