(* Properties/C25.v — Checkout and hard reset materialise exactly the target
   commit.  Statements only; proofs in Proofs/C25.v (model: Model/Porcelain.v,
   flattened trees, guard df_free checked by the correspondence). *)
From Coq Require Import List NArith ZArith Bool String.
From GoGit Require Import Base.Out Model.Porcelain Proofs.PorcelainMaps Proofs.Porcelain Proofs.C25.
Import ListNotations.

(* Reset(Hard) that succeeds: HEAD resolves to the requested commit, the index
   is its tree, every path of the tree is on disk with the tree's kind and
   content; and every path outside the target AND outside the previous HEAD tree
   keeps what it had (untracked files survive). *)
Theorem C25_reset_hard : forall commit s s',
  reset commit Hard None s = (None, s') ->
  exists c t, reset_target commit s = Some c /\ tree_of s' c = Some t /\ materialised s' c t /\
    (forall p, lookup p t = None -> lookup p (tree_or_empty (head_tree s)) = None ->
               lookup p (wt s') = lookup p (wt s)).
Proof. exact reset_hard_materialises. Qed.
Print Assumptions C25_reset_hard.

(* the same for Checkout with Force — by branch, by hash, with Create *)
Theorem C25_checkout_force : forall o s s',
  co_force o = true -> checkout o s = (None, s') ->
  exists c t, checkout_target o s = Some c /\ tree_of s' c = Some t /\ materialised s' c t /\
    (forall p, lookup p t = None -> lookup p (tree_or_empty (head_tree s)) = None ->
               lookup p (wt s') = lookup p (wt s)).
Proof. exact checkout_force_materialises. Qed.
Print Assumptions C25_checkout_force.

(* hence git status has no tracked change to report *)
Theorem C25_clean_status : forall s' c t,
  tree_of s' c = Some t -> materialised s' c t -> tracked_clean s'.
Proof. exact materialised_clean. Qed.
Print Assumptions C25_clean_status.

(* FULL statement for untracked files (property text: "files that were
   untracked and not in C are still present unchanged"):
     forall p, lookup p (idx s) = None -> lookup p t = None -> lookup p (wt s') = lookup p (wt s)
   is FALSE of the code: a path of HEAD's tree that was dropped from the index
   only (rm --cached) and is absent from the target is deleted by step 1 of
   resetWorktreeToTree (tree-to-tree diff).  Witness replayed on the real code
   (corpus/C25/untracked_in_head.json); the guarded form is the last conjunct of
   C25_reset_hard / C25_checkout_force (guard: p not in HEAD's tree). *)
Theorem C25_untracked_refuted :
  exists s commit s' p,
    reset commit Hard None s = (None, s') /\
    lookup p (idx s) = None /\
    (exists t, tree_of s commit = Some t /\ lookup p t = None) /\
    lookup p (wt s) <> None /\ lookup p (wt s') = None.
Proof.
  destruct hard_deletes_untracked as (s' & H1 & H2 & H3 & H4 & H5).
  exists w_state, 1%Z, s', (b "n"). repeat split; auto.
  - exists w_tree1. split; [reflexivity | exact H3].
  - rewrite H4. discriminate.
Qed.
Print Assumptions C25_untracked_refuted.

Theorem C25_untracked_partial : forall commit s s' c t p,
  reset commit Hard None s = (None, s') ->
  reset_target commit s = Some c -> tree_of s' c = Some t ->
  lookup p t = None -> lookup p (tree_or_empty (head_tree s)) = None ->
  lookup p (wt s') = lookup p (wt s).
Proof.
  intros commit s s' c t p H Hc Ht Hp Hh.
  destruct (reset_hard_materialises _ _ _ H) as (c' & t' & A1 & A2 & _ & A4).
  assert (c' = c) by congruence. subst c'. assert (t' = t) by congruence. subst t'. auto.
Qed.
Print Assumptions C25_untracked_partial.

(* "the worktree is EXACTLY the target plus what was untracked": also false in
   the other direction — a staged new file is left behind as an untracked file
   (git reset --hard removes it); witness replayed (corpus/C25/staged_new_kept.json) *)
Theorem C25_staged_new_refuted :
  exists s commit s' p e,
    reset commit Hard None s = (None, s') /\
    lookup p (idx s) = Some e /\ lookup p (idx s') = None /\ lookup p (wt s') = Some e.
Proof.
  destruct hard_keeps_staged_new as (s' & H1 & H2 & H3 & H4).
  exists w_state2, 1%Z, s', (b "s"), (KReg, b "S"). repeat split; auto.
Qed.
Print Assumptions C25_staged_new_refuted.

(* non-vacuity: a forced checkout by branch over a dirty worktree with an
   untracked file; the result is the target tree plus the untracked file *)
Example C25_example :
  let t0 : fmap := [(b "a", (KReg, b "A")); (b "d/x", (KExec, b "X"))] in
  let t1 : fmap := [(b "a", (KLink, b "d/x")); (b "k", (KReg, b "K"))] in
  let other := (refs_heads ++ b "other")%list in
  let s := mkState [t0; t1] [(master, 0%Z); (other, 1%Z)] (HSym master)
                   t0 [(b "a", (KReg, b "dirty")); (b "d/x", (KExec, b "X")); (b "u", (KReg, b "U"))] [] in
  checkout (mkCopts other (-1) false true false) s
  = (None, mkState [t0; t1] [(master, 0%Z); (other, 1%Z)] (HSym other)
                   t1 [(b "a", (KLink, b "d/x")); (b "k", (KReg, b "K")); (b "u", (KReg, b "U"))] []).
Proof. vm_compute. reflexivity. Qed.
