(* Properties/C12.v — Index files interoperate with git in both directions.
   Only statements here; proofs live in Proofs/C12.v.

   G = Model/IndexFile.v (Encoder.Encode, Decoder.Decode of plumbing/format/index),
   parametrised by the checksum function H and its size hs (SHA-1: 20, SHA-256: 32).
   S = Spec/GitIndex.v: git 2.39's read-cache.c / cache-tree.c / resolve-undo.c /
   varint.c as git_decode (normal read, fsck read, index.threads > 1) and git_encode,
   validated against the git 2.39.5 binary on every run (C-git, props/C12.py).
   Proved here, for versions 2, 3 and 4, any hash size (SHA-1: 20, SHA-256: 32), any
   names (short, >= 0xFFF bytes, shared prefixes), stages, flags and timestamps:
   go-git's decoder inverts go-git's encoder (C12_roundtrip); git reads what go-git
   writes (C12_git_reads_ours, C12_git_fsck_reads_ours); go-git reads what git writes,
   entries and the extensions TREE / REUC / EOIE, skipping UNTR / FSMN (C12_we_read_git),
   and refuses git's mandatory sdir extension (C12_we_read_git_sparse_refused). *)
From Coq Require Import List NArith ZArith Bool String.
From GoGit Require Import Base.Out Model.IndexFile Spec.GitIndex Proofs.C12 Proofs.C12Size Proofs.C12Git Proofs.C12Digits
  Proofs.C12WeReadExt Proofs.C12WeRead Proofs.C12Eoie.
Import ListNotations.
Local Open Scope N_scope.

(* decoding go-git's output gives back what was encoded (sorted by name and stage),
   whatever the hash function, with or without index.skipHash on either side *)
Theorem C12_roundtrip : forall hs H skip_enc skip_dec ver entries,
  ver = 2 \/ ver = 3 \/ ver = 4 ->
  forallb (wf_entry hs) entries = true ->
  N.of_nat (List.length entries) < 4294967296 ->
  exists file, encode hs H skip_enc ver entries = Ok file /\
               decode hs H skip_dec file = Ok (mkIndex ver (sort_entries entries) None None None).
Proof. exact roundtrip. Qed.
Print Assumptions C12_roundtrip.

(* one entry at a time, with arbitrary bytes following (what the V4 prefix compression
   and the V2/V3 padding rule have to get right) *)
Theorem C12_entry_roundtrip : forall hs ver last e rest,
  wf_entry hs e = true -> ver = 2 \/ ver = 3 \/ ver = 4 -> last_ok last ->
  exists b, encode_entry hs ver last e = Ok b /\ read_entry hs ver last (b ++ rest) = Ok (e, rest) /\ (1 <= List.length b)%nat.
Proof. exact entry_roundtrip. Qed.
Print Assumptions C12_entry_roundtrip.

(* a V2/V3 entry occupies exactly git's ondisk_ce_size: (40 + hash + flags [+ flags2] + namelen + 8) & ~7,
   so git finds the next entry where go-git put it (1..8 NULs of padding, long names included) *)
Theorem C12_entry_size_git : forall hs ver last e b,
  ver = 2 \/ ver = 3 -> List.length (e_hash e) = hs ->
  encode_entry hs ver last e = Ok b ->
  List.length b = git_ondisk_size hs (e_ita e || e_skip e) (List.length (e_name e)).
Proof. exact encode_entry_v23_size. Qed.
Print Assumptions C12_entry_size_git.

(* git's offset varint (V4 strip lengths): ReadVariableWidthInt inverts WriteVariableWidthInt *)
Theorem C12_varint : forall n rest, n < 4294967296 -> read_varint (varint n ++ rest) = Ok (n, rest).
Proof. exact read_varint_varint. Qed.
Print Assumptions C12_varint.

(* resolve-undo: the stored object names go to the present stages in stage order
   (what git ls-files --resolve-undo reports) ... *)
Theorem C12_reuc_stage_order : forall hs present (names : list bytes) (rest : bytes) acc,
  List.length present = List.length names -> (0 < hs)%nat ->
  Forall (fun n => List.length n = hs) names ->
  read_reuc_hashes hs present (List.concat names ++ rest) acc = Some (Ok (rev acc ++ combine present names, rest)).
Proof. exact reuc_stage_order. Qed.
Print Assumptions C12_reuc_stage_order.

(* ... which was FALSE of the decoder in the tree as found (it ranged over a Go map:
   two iteration orders give two different decodings of the same bytes) *)
Theorem C12_reuc_maporder_refuted :
  exists order1 order2 data,
    reuc_hashes_maporder 2 order1 data <> reuc_hashes_maporder 2 order2 data /\
    reuc_hashes_maporder 2 order1 data = read_reuc_hashes 2 [1; 2] data [].
Proof. exact reuc_maporder_refuted. Qed.
Print Assumptions C12_reuc_maporder_refuted.

(* ---- git reads ours ---- *)
(* do_read_index (no checksum verification: what every git command but fsck does; index.threads unset or 1)
   on the file go-git wrote yields exactly the encoded entries, sorted, with git's ce_flags
   (stage, CE_EXTENDED iff intent-to-add or skip-worktree), no extension; also for a version-2 file
   with extended flags, which git itself never writes *)
Theorem C12_git_reads_ours : forall hs H skip null_ok ver entries,
  ver = 2 \/ ver = 3 \/ ver = 4 ->
  forallb (wf_entry hs) entries = true ->
  N.of_nat (List.length entries) < 4294967296 ->
  exists file, encode hs H skip ver entries = Ok file /\
               git_decode hs H (mkGM false null_ok false) file = GOk (git_view ver (sort_entries entries)).
Proof. exact git_reads_ours. Qed.
Print Assumptions C12_git_reads_ours.

(* git fsck (verify_index_checksum, verify_ce_order): the trailer go-git writes is the checksum git
   recomputes, and the sorted entries pass check_ce_order as long as no merged entry shares its name
   with another entry.  A null trailer (skip_hash) passes only under git >= 2.40's rule (null_ok);
   git 2.39.5 rejects it, as the binary confirms on every run. *)
Theorem C12_git_fsck_reads_ours : forall hs H skip null_ok ver entries,
  (forall x, List.length (H x) = hs) ->
  ver = 2 \/ ver = 3 \/ ver = 4 ->
  forallb (wf_entry hs) entries = true ->
  N.of_nat (List.length entries) < 4294967296 ->
  no_merged_dup (sort_entries entries) = true ->
  skip = false \/ null_ok = true ->
  exists file, encode hs H skip ver entries = Ok file /\
               git_decode hs H (mkGM true null_ok false) file = GOk (git_view ver (sort_entries entries)).
Proof. exact git_fsck_reads_ours. Qed.
Print Assumptions C12_git_fsck_reads_ours.

(* ---- we read git ---- *)
(* whatever state git holds (entries with any 32-bit stat fields, nsec >= 10^9 included, assume-valid bit,
   cache tree, resolve-undo, untracked cache, fsmonitor), with or without the EOIE extension and a null
   trailer, go-git decodes the file do_write_index produces into: the version git wrote (2 <-> 3 by the
   extended flags), the entries, the valid cache-tree nodes in pre-order, the resolve-undo records in
   file order, and the EOIE offset and hash *)
Theorem C12_we_read_git : forall hs H,
  (0 < hs)%nat -> N.of_nat hs < 4294967000 -> (forall x, List.length (H x) = hs) ->
  forall eoie skip_w skip_r g,
  wf_gindex hs eoie g = true ->
  decode hs H skip_r (git_encode hs H eoie skip_w g) = Ok (go_view hs H eoie g).
Proof. exact we_read_git. Qed.
Print Assumptions C12_we_read_git.

(* the limit of "the extensions go-git understands": a sparse index (mandatory sdir extension), which
   git reads, is refused with ErrUnknownExtension (as is a split index's `link`, by the same rule) *)
Theorem C12_we_read_git_sparse_refused : forall hs H,
  (0 < hs)%nat -> N.of_nat hs < 4294967000 -> (forall x, List.length (H x) = hs) ->
  forall eoie skip_w skip_r g,
  wf_gstate hs eoie g = true -> gi_sparse g = true ->
  decode hs H skip_r (git_encode hs H eoie skip_w g) = Err EUnknownExtension.
Proof. exact mandatory_refused. Qed.
Print Assumptions C12_we_read_git_sparse_refused.

(* the cache tree: git's recursive write_one against go-git's flat reader *)
Theorem C12_we_read_git_tree : forall hs, (0 < hs)%nat -> forall t, wf_ct hs t = true ->
  read_tree_ext hs (S (List.length (g_write_ct [] t))) (g_write_ct [] t) [] = Ok (ct_flat [] t).
Proof. exact tree_ext_whole. Qed.
Print Assumptions C12_we_read_git_tree.

(* resolve-undo: resolve_undo_write against resolveUndoDecoder *)
Theorem C12_we_read_git_reuc : forall hs, (0 < hs)%nat -> forall l, forallb (wf_reuc hs) l = true ->
  read_reuc_ext hs (S (List.length (g_write_reuc l))) (g_write_reuc l) [] = Ok (map reuc_view l).
Proof. exact reuc_ext_whole. Qed.
Print Assumptions C12_we_read_git_reuc.

(* EOIE: in a SHA-1 repository read_eoie_extension accepts the extension do_write_index emits (when another
   extension precedes it) and returns the offset go-git reports; C12_eoie_sha256 below: in a SHA-256
   repository git's reader never accepts git's own EOIE (it insists on 4 + 20 bytes) *)
Theorem C12_git_eoie_accepts_own : forall H, (forall x, List.length (H x) = 20%nat) ->
  forall skip_w g,
  forallb ext_ok (g_ext_list g) = true -> g_ext_list g <> [] ->
  git_eoie_offset 20 g < 4294967296 ->
  g_read_eoie 20 H (git_encode 20 H true skip_w g) = git_eoie_offset 20 g.
Proof. exact eoie_accepts_own. Qed.
Print Assumptions C12_git_eoie_accepts_own.

(* varint.c and utils/binary agree: same bytes written; where go-git's reader succeeds git's returns the same *)
Theorem C12_git_varint_agree :
  (forall n, g_encode_varint n = varint n) /\
  (forall b r, read_varint b = Ok r -> g_decode_varint b = GOk r).
Proof. split; [exact g_encode_varint_eq|exact g_decode_varint_of_read]. Qed.
Print Assumptions C12_git_varint_agree.

(* non-vacuity *)
Example C12_varint_examples :
  varint 0 = [0] /\ varint 127 = [127] /\ varint 128 = [128; 0] /\ varint 16511 = [255; 127] /\ varint 16512 = [128; 128; 0].
Proof. vm_compute. repeat split. Qed.

Example C12_wf_example :
  let e1 := mkEntry [97; 47; 98] 0 (TUnix 1700000000 5) TZero 1 2 33188 3 4 5 (repeat 7 20) true false in
  let e2 := mkEntry [97] 2 TZero (TUnix 1 0) 0 0 40960 0 0 0 (repeat 9 20) false true in
  forallb (wf_entry 20) [e1; e2] = true /\
  match encode 20 (fun _ => repeat 1 20) false 4 [e1; e2] with
  | Ok f => decode 20 (fun _ => repeat 1 20) false f = Ok (mkIndex 4 [e2; e1] None None None)
  | Err _ => False
  end.
Proof. vm_compute. split; reflexivity. Qed.

(* a git state with everything in it: version 2 promoted to 3 by a skip-worktree entry, assume-valid bit,
   nsec >= 10^9, conflict stages, nested cache tree with an invalidated node, resolve-undo, UNTR, EOIE *)
Definition C12_example_state : gindex :=
  let oid k := repeat k 20 in
  mkGI 2
    [mkGE 1 2000000000 3 4 5 6 33188 7 8 9 (oid 1) 0 false true false true [97; 47; 98];
     mkGE 0 0 0 0 0 0 33261 0 0 0 (oid 2) 1 false false false false [97; 47; 99];
     mkGE 0 0 0 0 0 0 33261 0 0 0 (oid 3) 3 false false false false [97; 47; 99]]
    (Some (CT 2 (oid 4) (CCons [97] (CT (-1) [] (CCons [120] (CT 1 (oid 5) CNil) CNil)) CNil)))
    (Some [mkGR [122] 33188 0 40960 (oid 6) [] (oid 7)])
    (Some [1; 2; 3]) None false.

Example C12_we_read_git_example :
  let Hf := fun _ : bytes => repeat 9 20 in
  wf_gindex 20 true C12_example_state = true /\
  decode 20 Hf false (git_encode 20 Hf true false C12_example_state) = Ok (go_view 20 Hf true C12_example_state) /\
  i_version (go_view 20 Hf true C12_example_state) = 3 /\
  i_cache (go_view 20 Hf true C12_example_state) =
    Some [mkTE [] 2 1 (repeat 4 20); mkTE [120] 1 0 (repeat 5 20)] /\
  g_read_eoie 20 Hf (git_encode 20 Hf true false C12_example_state) = git_eoie_offset 20 C12_example_state.
Proof. vm_compute. repeat split; reflexivity. Qed.

Example C12_git_reads_ours_example :
  let e1 := mkEntry [97; 47; 98] 0 (TUnix 1700000000 5) TZero 1 2 33188 3 4 5 (repeat 7 20) true false in
  let e2 := mkEntry [97] 2 TZero (TUnix 1 0) 0 0 40960 0 0 0 (repeat 9 20) false true in
  let Hf := fun _ : bytes => repeat 1 20 in
  no_merged_dup (sort_entries [e1; e2]) = true /\
  match encode 20 Hf false 2 [e1; e2] with
  | Ok f => git_decode 20 Hf (mkGM true false false) f = GOk (git_view 2 [e2; e1]) /\
            map ge_flags (gi_entries (git_view 2 [e2; e1])) = [536895488; 1073758208]
  | Err _ => False
  end.
Proof. vm_compute. repeat split; reflexivity. Qed.

(* SHA-256: the extension git writes is 4 + 32 bytes long, the reader looks for one of 4 + 20 *)
Example C12_eoie_sha256 :
  let Hf := fun _ : bytes => repeat 7 32 in
  let g := mkGI 2 [] None None (Some [1; 2; 3]) None false in
  g_read_eoie 32 Hf (git_encode 32 Hf true false g) = 0 /\
  g_read_eoie 20 (fun _ => repeat 7 20) (git_encode 20 (fun _ => repeat 7 20) true false g) = 12.
Proof. exact eoie_sha256_example. Qed.
