(* Properties/C12.v — Index files interoperate with git in both directions.
   Only statements here; proofs live in Proofs/C12*.v. *)
From Coq Require Import List NArith ZArith Bool String.
From GoGit Require Import Base.Out Model.IndexFile.
Import ListNotations.
Local Open Scope N_scope.

Example C12_varint_examples :
  varint 0 = [0] /\ varint 127 = [127] /\ varint 128 = [128; 0] /\ varint 16511 = [255; 127] /\ varint 16512 = [128; 128; 0].
Proof. vm_compute. repeat split. Qed.
