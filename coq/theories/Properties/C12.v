(* Properties/C12.v — Index files interoperate with git in both directions.
   Only statements here; proofs live in Proofs/C12.v.

   G = Model/IndexFile.v (Encoder.Encode, Decoder.Decode of plumbing/format/index),
   parametrised by the checksum function H and its size hs (SHA-1: 20, SHA-256: 32).
   "git reads ours" and "we read git" are decided on every run by the git 2.39.5
   binary (C-git, props/C12.py); what is proved here is the part that quantifies over
   all indexes: go-git's decoder inverts go-git's encoder, for versions 2, 3 and 4,
   any names (short, >= 0xFFF bytes, shared prefixes), stages, flags and timestamps. *)
From Coq Require Import List NArith ZArith Bool String.
From GoGit Require Import Base.Out Model.IndexFile Proofs.C12 Proofs.C12Size.
Import ListNotations.
Local Open Scope N_scope.

(* decoding go-git's output gives back what was encoded (sorted by name and stage),
   whatever the hash function, with or without index.skipHash on either side *)
Theorem C12_roundtrip : forall hs H skip_enc skip_dec ver entries,
  ver = 2 \/ ver = 3 \/ ver = 4 ->
  forallb (wf_entry hs) entries = true ->
  N.of_nat (List.length entries) < 4294967296 ->
  exists file, encode hs H skip_enc ver entries = Ok file /\
               decode hs H skip_dec file = Ok (mkIndex ver (sort_entries entries) None None None).
Proof. exact roundtrip. Qed.
Print Assumptions C12_roundtrip.

(* one entry at a time, with arbitrary bytes following (what the V4 prefix compression
   and the V2/V3 padding rule have to get right) *)
Theorem C12_entry_roundtrip : forall hs ver last e rest,
  wf_entry hs e = true -> ver = 2 \/ ver = 3 \/ ver = 4 -> last_ok last ->
  exists b, encode_entry hs ver last e = Ok b /\ read_entry hs ver last (b ++ rest) = Ok (e, rest) /\ (1 <= List.length b)%nat.
Proof. exact entry_roundtrip. Qed.
Print Assumptions C12_entry_roundtrip.

(* a V2/V3 entry occupies exactly git's ondisk_ce_size: (40 + hash + flags [+ flags2] + namelen + 8) & ~7,
   so git finds the next entry where go-git put it (1..8 NULs of padding, long names included) *)
Theorem C12_entry_size_git : forall hs ver last e b,
  ver = 2 \/ ver = 3 -> List.length (e_hash e) = hs ->
  encode_entry hs ver last e = Ok b ->
  List.length b = git_ondisk_size hs (e_ita e || e_skip e) (List.length (e_name e)).
Proof. exact encode_entry_v23_size. Qed.
Print Assumptions C12_entry_size_git.

(* git's offset varint (V4 strip lengths): ReadVariableWidthInt inverts WriteVariableWidthInt *)
Theorem C12_varint : forall n rest, n < 4294967296 -> read_varint (varint n ++ rest) = Ok (n, rest).
Proof. exact read_varint_varint. Qed.
Print Assumptions C12_varint.

(* resolve-undo: the stored object names go to the present stages in stage order
   (what git ls-files --resolve-undo reports) ... *)
Theorem C12_reuc_stage_order : forall hs present (names : list bytes) (rest : bytes) acc,
  List.length present = List.length names -> (0 < hs)%nat ->
  Forall (fun n => List.length n = hs) names ->
  read_reuc_hashes hs present (List.concat names ++ rest) acc = Some (Ok (rev acc ++ combine present names, rest)).
Proof. exact reuc_stage_order. Qed.
Print Assumptions C12_reuc_stage_order.

(* ... which was FALSE of the decoder in the tree as found (it ranged over a Go map:
   two iteration orders give two different decodings of the same bytes) *)
Theorem C12_reuc_maporder_refuted :
  exists order1 order2 data,
    reuc_hashes_maporder 2 order1 data <> reuc_hashes_maporder 2 order2 data /\
    reuc_hashes_maporder 2 order1 data = read_reuc_hashes 2 [1; 2] data [].
Proof. exact reuc_maporder_refuted. Qed.
Print Assumptions C12_reuc_maporder_refuted.

(* non-vacuity *)
Example C12_varint_examples :
  varint 0 = [0] /\ varint 127 = [127] /\ varint 128 = [128; 0] /\ varint 16511 = [255; 127] /\ varint 16512 = [128; 128; 0].
Proof. vm_compute. repeat split. Qed.

Example C12_wf_example :
  let e1 := mkEntry [97; 47; 98] 0 (TUnix 1700000000 5) TZero 1 2 33188 3 4 5 (repeat 7 20) true false in
  let e2 := mkEntry [97] 2 TZero (TUnix 1 0) 0 0 40960 0 0 0 (repeat 9 20) false true in
  forallb (wf_entry 20) [e1; e2] = true /\
  match encode 20 (fun _ => repeat 1 20) false 4 [e1; e2] with
  | Ok f => decode 20 (fun _ => repeat 1 20) false f = Ok (mkIndex 4 [e2; e1] None None None)
  | Err _ => False
  end.
Proof. vm_compute. split; reflexivity. Qed.
