(* Properties/C42.v — Ancestry and merge-base queries agree with git. *)
From Coq Require Import List Arith ZArith Bool.
From GoGit Require Import Base.Out Spec.Dag Model.CommitWalk Model.MergeBase.
Import ListNotations.

Theorem C42_spec_reach : forall g a c, dag_ok g = true -> (is_anc g a c = true <-> reach g c a).
Proof. exact is_anc_spec. Qed.
Print Assumptions C42_spec_reach.
