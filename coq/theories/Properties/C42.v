(* Properties/C42.v — Ancestry and merge-base queries agree with git.
   Statements only; proofs in Proofs/C42.v (IsAncestor, isFastForward, via the
   walker theorem of Proofs/Worklist.v), Proofs/C42Indep.v (Independents: inner
   limited walk + outer candidate loop) and Proofs/C42Top.v (MergeBase).

   g ranges over ALL finite commit graphs (topologically numbered, parents
   present) and ALL committer timestamps — including children older than
   their parents: the theorems do not mention [ctime] at all.  The proof
   attempt settled the question left open by the design: the shared [seen] set
   and the date-ordered candidate scan do NOT break MergeBase / Independents
   under skewed clocks (every set in [seen] is the full history of a walked
   candidate, so a candidate hidden behind a seen commit was already removed),
   hence full theorems and no `_refuted`. *)
From Coq Require Import List Arith ZArith Bool Permutation.
From GoGit Require Import Base.Out Spec.Dag Model.CommitWalk Model.MergeBase
  Proofs.Worklist Proofs.C42 Proofs.C42Indep Proofs.C42Top Proofs.C42Shallow.
Import ListNotations.

(* the specification side: [is_anc] (fuel = node count) decides reachability *)
Theorem C42_spec_reach : forall g a c, dag_ok g = true -> (is_anc g a c = true <-> reach g c a).
Proof. exact is_anc_spec. Qed.
Print Assumptions C42_spec_reach.

(* Commit.IsAncestor = git merge-base --is-ancestor *)
Theorem C42_is_ancestor : forall g (a b : node),
  dag_ok g = true -> dag_closed g = true -> b < nnodes g ->
  is_ancestor g a b = BOk (is_anc g a b).
Proof. exact is_ancestor_spec. Qed.
Print Assumptions C42_is_ancestor.

(* Commit.MergeBase = git merge-base --all: exactly the common ancestors that are not a proper
   ancestor of another common ancestor, each once *)
Theorem C42_merge_base : forall g (a b : node),
  dag_ok g = true -> dag_closed g = true -> a < nnodes g -> b < nnodes g ->
  exists l, merge_base g a b = MOk l /\ NoDup l /\ forall x, In x l <-> is_merge_base g a b x.
Proof. exact merge_base_correct. Qed.
Print Assumptions C42_merge_base.

Theorem C42_merge_base_spec : forall g (a b : node),
  dag_ok g = true -> dag_closed g = true -> a < nnodes g -> b < nnodes g ->
  exists l, merge_base g a b = MOk l /\ Permutation l (merge_bases g a b).
Proof. exact merge_base_perm. Qed.
Print Assumptions C42_merge_base_spec.

(* Independents = git merge-base --independent: the commits of the input not reachable from another one *)
Theorem C42_independents : forall g X,
  dag_ok g = true -> dag_closed g = true -> (forall x, In x X -> x < nnodes g) ->
  exists l, independents g X = MOk l /\ NoDup l /\ forall x, In x l <-> undominated g X x.
Proof. exact independents_correct. Qed.
Print Assumptions C42_independents.

Theorem C42_independents_spec : forall g X,
  dag_ok g = true -> dag_closed g = true -> (forall x, In x X -> x < nnodes g) ->
  exists l, independents g X = MOk l /\ Permutation l (independent g X).
Proof. exact independents_perm. Qed.
Print Assumptions C42_independents_spec.

(* isFastForward on a complete (non-shallow) history = old is an ancestor of new *)
Theorem C42_ff : forall g (old new : node),
  dag_ok g = true -> dag_closed g = true -> new < nnodes g ->
  is_fast_forward g old new [] = BOk (is_anc g old new).
Proof. exact is_fast_forward_spec. Qed.
Print Assumptions C42_ff.

(* isFastForward on a shallow history (parents of shallow commits absent from the store, every
   absent parent belonging to a commit listed as shallow): the parents of the shallow commits are
   ignored; the answer is true exactly when old is reached from new through the remaining history,
   or some shallow commit is (the documented relaxation: ancestry cannot be disproved locally) *)
Theorem C42_ff_shallow : forall g (old new : node) (shallows : list node),
  new < nnodes g ->
  (forall c p : node, c < nnodes g -> In p (parents g c) -> nnodes g <= p -> In c shallows) ->
  let I := ff_ignore g shallows in
  exists b, is_fast_forward g old new shallows = BOk b /\
    (b = true <-> ra (succ_I g I) I new old \/ exists s, In s shallows /\ ra (succ_I g I) I new s).
Proof. exact is_fast_forward_shallow. Qed.
Print Assumptions C42_ff_shallow.

(* non-vacuity: a criss-cross history whose clocks run backwards (children older than parents) *)
Example C42_criss_cross_skewed :
  let g := mkDag [[]; [0]; [0]; [1; 2]; [2; 1]; [3]; [4]] [60; 50; 40; 30; 20; 10; 0]%Z in
  dag_ok g = true /\ dag_closed g = true /\ dag_monotone g = false /\
  merge_base g 5 6 = MOk [1; 2] /\ merge_bases g 5 6 = [1; 2] /\
  independents g [0; 1; 5; 3; 6] = MOk [5; 6] /\ independent g [0; 1; 5; 3; 6] = [5; 6] /\
  is_ancestor g 1 6 = BOk true /\ is_ancestor g 3 6 = BOk false /\
  is_fast_forward g 2 5 [] = BOk true.
Proof. vm_compute. repeat split. Qed.
