(* Properties/C27.v — Status agrees with git status.
   Only statements here; proofs live in Proofs/C27.v.
   G = Model/Status.v (Worktree.status as it is, on flattened path maps),
   S = Spec/GitStatus.v (git's porcelain v1 records per path).

   FULL STATEMENT:  forall s ps,  status s ps = git_status s ps.
   It is FALSE of the faithful model; each way it fails is a *_refuted theorem
   below (witnesses replayed on the implementation, known findings of the same
   names), and C27_status_eq_partial is the full statement under the boolean
   per-path guard [ok_path] that excludes exactly those shapes. *)
From Coq Require Import List NArith Bool String.
From GoGit Require Import Base.Out Model.Status Spec.GitStatus Proofs.C27.
From GoGit Require Import Model.StatTime Proofs.C27Time.
From GoGit Require Import Model.StatusTrie Spec.GitStatusTrie Proofs.C27Trie Proofs.C27TrieMain.
From GoGit Require Model.DiffTree Proofs.C27Small Proofs.C27Unflat.
Import ListNotations.
Local Open Scope N_scope.

(* Worktree.status — two change lists folded into a map, Status.File creating
   entries, right changes overriding left ones — is a per-path function of the
   two per-path changes, for every state and every list of paths *)
Theorem C27_status_pointwise : forall s ps,
  status s ps = flat_map (fun p => list_of p (g_class (left_change s p) (right_change s p))) ps.
Proof. exact status_pointwise. Qed.
Print Assumptions C27_status_pointwise.

(* under the guard, go-git's listing is git's, for every state (any number of
   paths, any mix of HEAD / index / worktree entries, modes, ignore verdicts,
   stat data, index time) *)
Theorem C27_status_eq_partial : forall s ps,
  forallb (ok_path s) ps = true -> status s ps = git_status s ps.
Proof. exact status_eq_git. Qed.
Print Assumptions C27_status_eq_partial.

(* --- the guard is necessary: one witness per excluded shape.  Path "a" = [97];
   content ids: 0 = empty, 1, 2; times: 5 staged, 9 touched, index written at 100 *)
Definition pa : path := [97].
Definition wit (fmt : N) (filemode : bool) (h : list tentry) (i : list ientry) (w : list wfile) : state :=
  mkState fmt filemode 100 h i w.

(* SHA-256 repository, file rewritten with identical content: go-git " M", git clean *)
Theorem C27_sha256_refuted : exists s, status s [pa] <> git_status s [pa] /\ git_status s [pa] = [].
Proof.
  exists (wit 1 true [mkT pa MReg (mkHash 1 1)] [mkI pa MReg (mkHash 1 1) 2 5 false] [mkW pa MReg 1 2 9 false false]).
  split; [vm_compute; discriminate|reflexivity].
Qed.
Print Assumptions C27_sha256_refuted.

(* intent-to-add entry: git " A", go-git "AM" *)
Theorem C27_ita_refuted : exists s,
  status s [pa] = [(pa, CAdd, CMod)] /\ git_status s [pa] = [(pa, CUnmod, CAdd)].
Proof.
  exists (wit 0 true [] [mkI pa MReg (mkHash 0 0) 0 1 true] [mkW pa MReg 1 2 5 false false]).
  split; reflexivity.
Qed.
Print Assumptions C27_ita_refuted.

(* core.fileMode=false, tracked executable file untouched: git clean, go-git " M" *)
Theorem C27_filemode_refuted : exists s,
  status s [pa] = [(pa, CUnmod, CMod)] /\ git_status s [pa] = [].
Proof.
  exists (wit 0 false [mkT pa MExec (mkHash 0 1)] [mkI pa MExec (mkHash 0 1) 2 5 false] [mkW pa MExec 1 2 5 false false]).
  split; reflexivity.
Qed.
Print Assumptions C27_filemode_refuted.

(* git rm --cached, file kept: git "D " and "??", go-git only "??" *)
Theorem C27_staged_delete_refuted : exists s,
  status s [pa] = [(pa, CUntracked, CUntracked)] /\
  git_status s [pa] = [(pa, CDel, CUnmod); (pa, CUntracked, CUntracked)].
Proof.
  exists (wit 0 true [mkT pa MReg (mkHash 0 1)] [] [mkW pa MReg 1 2 5 false false]).
  split; reflexivity.
Qed.
Print Assumptions C27_staged_delete_refuted.

(* symlink replaced by a regular file: git " T", go-git " M" *)
Theorem C27_typechange_refuted : exists s,
  status s [pa] = [(pa, CUnmod, CMod)] /\ git_status s [pa] = [(pa, CUnmod, CType)].
Proof.
  exists (wit 0 true [mkT pa MLink (mkHash 0 1)] [mkI pa MLink (mkHash 0 1) 2 5 false] [mkW pa MReg 2 9 9 false false]).
  split; reflexivity.
Qed.
Print Assumptions C27_typechange_refuted.

(* same-size edit with restored mtime, index written later: go-git clean, git " M" *)
Theorem C27_samestat_refuted : exists s,
  status s [pa] = [] /\ git_status s [pa] = [(pa, CUnmod, CMod)].
Proof.
  exists (wit 0 true [mkT pa MReg (mkHash 0 1)] [mkI pa MReg (mkHash 0 1) 2 5 false] [mkW pa MReg 2 2 5 false false]).
  split; reflexivity.
Qed.
Print Assumptions C27_samestat_refuted.

(* .git/info/exclude is not read: a file excluded only there is reported "??" *)
Theorem C27_info_exclude_refuted : exists s,
  status s [pa] = [(pa, CUntracked, CUntracked)] /\ git_status s [pa] = [].
Proof.
  exists (wit 0 true [] [] [mkW pa MReg 1 2 5 false true]).
  split; reflexivity.
Qed.
Print Assumptions C27_info_exclude_refuted.

(* --- the metadata shortcut over time (the racy-git argument): for every
   history of writes, stagings and clock ticks of any granularity in which the
   index is only rewritten by staging the file itself, a metadata match implies
   the staged content is the file's content *)
Theorem C27_shortcut_sound_partial : forall c sz h,
  tl_no_touch h = true ->
  tl_matches (tl_run (tl_init c sz) h) = true -> tl_same_content (tl_run (tl_init c sz) h) = true.
Proof. exact tl_shortcut_sound. Qed.
Print Assumptions C27_shortcut_sound_partial.

(* without the guard it fails: write, stage, same-tick same-size rewrite, then
   the index is rewritten later for another path without smudging the entry *)
Theorem C27_shortcut_sound_refuted : exists c sz h,
  tl_matches (tl_run (tl_init c sz) h) = true /\ tl_same_content (tl_run (tl_init c sz) h) = false.
Proof. exists 1, 2, [TStage; TWrite 2 2; TTick; TTouchIndex]. split; reflexivity. Qed.
Print Assumptions C27_shortcut_sound_refuted.

(* --- from (HEAD tree, index, worktree).  Model/StatusTrie.v: the three noder trees
   (tree noder; index noder with upholdExecutableBit; filesystem noder with the
   metadata shortcut and the ignore pruning, the ignore verdict computed by the
   gitignore model of C49 from the .gitignore files of the worktree), the two
   merkletrie walks (Model/DiffTree.v, C44) and the fold into the Status map.
   For every well-formed state (names distinct per directory, non-empty and free
   of '/'; any depth, any number of entries) the walk terminates and its listing
   is Worktree.status of the flattened maps (Model/Status.v) *)
Theorem C27_walk_flat : forall ts ig ps,
  C27TrieMain.ts_wf ts = true -> status_rec ts ps = Some (status (flat_of ts ig) ps).
Proof. intros ts ig ps W. exact (status_rec_flat ts ig W ps). Qed.
Print Assumptions C27_walk_flat.

(* ... hence git's listing (ignore verdict of dir.c with .git/info/exclude,
   Spec/GitIgnore.v), when no entry is skip-worktree and the guard ok_path holds *)
Theorem C27_status_eq : forall ts ps,
  C27TrieMain.ts_wf ts = true -> ts_skip ts = [] -> forallb (ok_path (flat_git ts)) ps = true ->
  status_rec ts ps = Some (git_status_ts ts ps).
Proof. exact status_rec_git. Qed.
Print Assumptions C27_status_eq.

(* the index tree is the one mindex.NewRootNode infers from the entries in index order
   (Model/StatusTrie.v unflat): when the insertion never meets a file where it needs a directory
   nor an existing node where it puts a file (boolean guard unflat_ok: no entry path is equal to,
   or a leading directory of, another), that tree holds exactly the entries and its names are
   distinct per directory — so C27_status_eq applies to the state whose index tree is built
   from the flat index *)
Theorem C27_index_tree : forall entries,
  C27Unflat.unflat_ok entries [] = true ->
  (forall q l, In (q, l) (fl (unflat entries)) <-> In (q, l) entries) /\ MapDiff.tree_ok (unflat entries) = true.
Proof. exact C27Unflat.unflat_spec. Qed.
Print Assumptions C27_index_tree.

Theorem C27_status_eq_entries : forall ts entries ps,
  let ts' := mkTS (ts_fmt ts) (ts_filemode ts) (ts_idxtime ts) (ts_head ts) (unflat entries) (ts_wt ts)
                  [] (ts_ign ts) (ts_ign_idx ts) (ts_excl ts) in
  C27Unflat.unflat_ok entries [] = true -> C27TrieMain.ts_wf ts' = true ->
  forallb (ok_path (flat_git ts')) ps = true ->
  status_rec ts' ps = Some (git_status_ts ts' ps) /\
  (forall q l, In (q, l) (fl (ts_index ts')) <-> In (q, l) entries).
Proof.
  intros ts entries ps ts' U W G. split.
  - apply status_rec_git; [exact W|reflexivity|exact G].
  - apply (proj1 (C27Unflat.unflat_spec entries U)).
Qed.
Print Assumptions C27_status_eq_entries.

(* the walk of the theorems above is the recursive merge (C44's formulation); the code runs two
   iterators.  The two-iterator loop of Model/StatusTrie.v — the one compared with the
   implementation on every case, where its listing is also compared with the recursive merge's —
   returns the same change list as the recursive merge for every pair of trees of a small scope
   (two names, two leaf values, depth <= 2: 144 x 144 pairs), by computation *)
Theorem C27_walks_agree_small :
  List.length C27Small.all_trees = 144%nat /\
  forallb (fun x => forallb (fun y => C27Small.agree x y) C27Small.all_trees) C27Small.all_trees = true.
Proof. exact C27Small.walks_agree_small. Qed.
Print Assumptions C27_walks_agree_small.

(* --- skip-worktree entries (the two-iterator walk with Skip(), status_flat).
   Names: a = [97], d = [100], e = [101], u = [117], x = [120], y = [121] *)
Definition fileH (n : N) (c : N) : DiffTree.name * DiffTree.node := ([n], DiffTree.File (M_REG, [0; c])).
Definition fileI (n : N) (c : N) : DiffTree.name * DiffTree.node := ([n], DiffTree.File (M_REG, [0; c; 2; 5; 0])).
Definition fileW (n : N) (c : N) : DiffTree.name * DiffTree.node := ([n], DiffTree.File (M_REG, [c; 2; 5])).
Definition dirN (n : N) (cs : DiffTree.tree) : DiffTree.name * DiffTree.node := ([n], DiffTree.Dir cs).
Definition tsw (h i w : DiffTree.tree) (skip : list path) : tstate := mkTS 0 true 100 h i w skip [] [] None.

(* a staged change of a skip-worktree entry is invisible to go-git; git reports 'M ' *)
Theorem C27_skip_staged_refuted : exists ts ps,
  status_flat ts ps = Some [] /\ git_status_ts ts ps = [([101], CMod, CUnmod)].
Proof.
  exists (tsw [fileH 97 1; fileH 101 1] [fileI 97 1; fileI 101 2] [fileW 97 1] [[101]]), [[97]; [101]].
  split; vm_compute; reflexivity.
Qed.
Print Assumptions C27_skip_staged_refuted.

(* untracked files in a directory all of whose entries are skip-worktree are hidden; git lists them *)
Theorem C27_skip_dir_untracked_refuted : exists ts ps,
  status_flat ts ps = Some [] /\ git_status_ts ts ps = [([100; 47; 117], CUntracked, CUntracked)].
Proof.
  exists (tsw [fileH 97 1; dirN 100 [fileH 120 1]] [fileI 97 1; dirN 100 [fileI 120 1]]
              [fileW 97 1; dirN 100 [fileW 117 2]] [[100; 47; 120]]), [[97]; [100; 47; 117]; [100; 47; 120]].
  split; vm_compute; reflexivity.
Qed.
Print Assumptions C27_skip_dir_untracked_refuted.

(* the code before the repair compared NAMES when passing over a skipped noder: with the two
   iterators at different depths a tracked skip-worktree file was listed as untracked; the
   repaired walk (paths compared) agrees with git here *)
Theorem C27_skip_names_unrepaired_refuted : exists ts ps,
  status_flat_gen false ts ps = Some [([100; 47; 121], CUntracked, CUntracked); ([101], CUntracked, CUntracked)] /\
  status_flat ts ps = Some [([100; 47; 121], CUntracked, CUntracked)] /\
  git_status_ts ts ps = [([100; 47; 121], CUntracked, CUntracked)].
Proof.
  exists (tsw [dirN 100 [fileH 120 1]; fileH 101 1] [dirN 100 [fileI 120 1]; fileI 101 1]
              [dirN 100 [fileW 120 1; fileW 121 2]; fileW 101 1] [[101]]),
         [[100; 47; 120]; [100; 47; 121]; [101]].
  repeat split; vm_compute; reflexivity.
Qed.
Print Assumptions C27_skip_names_unrepaired_refuted.

(* a skip-worktree entry whose file is gone, or present and different, is passed over as in git *)
Example C27_skip_plain :
  let ts1 := tsw [fileH 97 1; fileH 101 1] [fileI 97 1; fileI 101 1] [fileW 97 1] [[101]] in
  let ts2 := tsw [fileH 97 1; fileH 101 1] [fileI 97 1; fileI 101 1] [fileW 97 1; fileW 101 2] [[101]] in
  status_flat ts1 [[97]; [101]] = Some (git_status_ts ts1 [[97]; [101]]) /\
  status_flat ts2 [[97]; [101]] = Some (git_status_ts ts2 [[97]; [101]]).
Proof. split; vm_compute; reflexivity. Qed.

(* --- sub-second time stamps.  metadataMatches compares time.Time values (whole
   seconds and nanoseconds) with Equal and Before; Model/Status.v keeps one number per
   stamp.  For well-formed stamps (nanoseconds < 10^9) the code's two comparisons are
   = and < on the nanosecond counts, so metadata_matches above is the code's test *)
Theorem C27_ts_compare : forall a b, StatTime.ts_wf a = true -> StatTime.ts_wf b = true ->
  ts_eqb a b = (ts_ns a =? ts_ns b) /\ ts_ltb a b = (ts_ns a <? ts_ns b).
Proof. intros a b Ha Hb. split; [now apply ts_eqb_ns|now apply ts_ltb_ns]. Qed.
Print Assumptions C27_ts_compare.

(* the racy-git argument over two-part stamps: the clock may jump to any later
   (seconds, nanoseconds) value, whatever the granularity of the file system *)
Theorem C27_shortcut_sound_ns_partial : forall c sz h,
  no_touch h = true ->
  tls_matches (tls_run (tls_init c sz) h) = true -> tls_same (tls_run (tls_init c sz) h) = true.
Proof. exact tls_shortcut_sound. Qed.
Print Assumptions C27_shortcut_sound_ns_partial.

(* comparing the mtime at whole-second granularity while the racy check keeps
   nanoseconds is NOT equivalent: a same-second, same-size rewrite followed by a
   later rewrite of the index (for another path) matches under the coarse test
   and does not under the code's; the contents differ *)
Theorem C27_shortcut_seconds_refuted : exists c sz h,
  tls_matches (tls_run (tls_init c sz) h) = false /\
  tls_matches_sec (tls_run (tls_init c sz) h) = true /\
  tls_same (tls_run (tls_init c sz) h) = false.
Proof.
  exists 1, 2, [ETo (mkTs 7 500); EWrite 1 2; EStage; ETo (mkTs 7 900); EWrite 2 2; ETo (mkTs 8 0); ETouchIdx].
  repeat split; reflexivity.
Qed.
Print Assumptions C27_shortcut_seconds_refuted.

(* ------------------------------------------------------------ non-vacuity *)

(* a state with staged and unstaged changes, an untracked and an ignored file,
   a deleted file and a directory replacing a file satisfies the guard, and the
   listing is the expected one *)
Definition ex_state : state :=
  mkState 0 true 100
    [mkT [97] MReg (mkHash 0 1); mkT [98] MExec (mkHash 0 2); mkT [99] MLink (mkHash 0 3); mkT [100] MReg (mkHash 0 4)]
    [mkI [97] MReg (mkHash 0 5) 2 5 false; mkI [98] MExec (mkHash 0 2) 2 5 false; mkI [99] MLink (mkHash 0 3) 3 5 false;
     mkI [101] MReg (mkHash 0 1) 2 5 false]
    [mkW [97] MReg 5 2 5 false false; mkW [98] MReg 2 2 9 false false; mkW [99] MLink 6 3 9 false false;
     mkW [101; 47; 120] MReg 1 2 9 false false; mkW [117] MReg 1 2 9 false false; mkW [111] MReg 1 2 9 true true].
Example C27_guard_inhabited :
  forallb (ok_path ex_state) (sort_paths (all_paths ex_state)) = true /\
  status ex_state (sort_paths (all_paths ex_state)) =
  [([97], CMod, CUnmod); ([98], CUnmod, CMod); ([99], CUnmod, CMod); ([100], CDel, CUnmod);
   ([101], CAdd, CDel); ([101; 47; 120], CUntracked, CUntracked); ([117], CUntracked, CUntracked)].
Proof. vm_compute. split; reflexivity. Qed.

(* a nested state with a .gitignore ("*.o" and "build/"), staged and unstaged changes, an
   untracked file in a tracked directory, ignored files and an ignored directory: well-formed,
   inside the guard, and the walk's listing is the expected one *)
Definition ex_ts : tstate :=
  mkTS 0 true 100
    [fileH 97 1; dirN 100 [fileH 120 1; fileH 121 1]]
    [fileI 97 2; dirN 100 [fileI 120 1; fileI 121 1]]
    [([46; 103; 105; 116; 105; 103; 110; 111; 114; 101], DiffTree.File (M_REG, [7; 11; 9]));
     fileW 97 2; dirN 100 [fileW 120 1; ([121], DiffTree.File (M_REG, [3; 2; 9])); fileW 117 4; ([122; 46; 111], DiffTree.File (M_REG, [4; 2; 9]))];
     dirN 98 [fileW 113 4]; ([98; 46; 111], DiffTree.File (M_REG, [4; 2; 9]))]
    [] [([], [42; 46; 111; 10; 98; 47; 10])] [] None.
Example C27_trie_inhabited :
  C27TrieMain.ts_wf ex_ts = true /\ forallb (ok_path (flat_git ex_ts)) (all_paths_ts ex_ts) = true /\
  status_rec ex_ts (all_paths_ts ex_ts) =
  Some [([46; 103; 105; 116; 105; 103; 110; 111; 114; 101], CUntracked, CUntracked); ([97], CMod, CUnmod);
        ([100; 47; 117], CUntracked, CUntracked); ([100; 47; 121], CUnmod, CMod)] /\
  status_flat ex_ts (all_paths_ts ex_ts) = status_rec ex_ts (all_paths_ts ex_ts).
Proof. vm_compute. repeat split; reflexivity. Qed.

Example C27_index_tree_inhabited :
  let entries := [([[97]], (M_REG, [0; 2; 2; 5; 0])); ([[100]; [120]], (M_REG, [0; 1; 2; 5; 0])); ([[100]; [121]], (M_REG, [0; 1; 2; 5; 0]))] in
  C27Unflat.unflat_ok entries [] = true /\ unflat entries = ts_index ex_ts.
Proof. vm_compute. split; reflexivity. Qed.

Example C27_timeline_ns_inhabited :
  let h := [ETo (mkTs 7 500); EWrite 1 2; EStage; ETo (mkTs 7 900); EWrite 2 2; ETo (mkTs 8 0); EStage; ETo (mkTs 8 1)] in
  no_touch h = true /\ tls_matches (tls_run (tls_init 0 0) h) = true.
Proof. vm_compute. split; reflexivity. Qed.

Example C27_timeline_inhabited :
  let h := [TWrite 1 2; TStage; TTick; TWrite 2 2; TTick; TStage; TTick] in
  tl_no_touch h = true /\ tl_matches (tl_run (tl_init 0 0) h) = true.
Proof. vm_compute. split; reflexivity. Qed.
