From GoGit Require Import Base.Out Model.Status Spec.GitStatus.
