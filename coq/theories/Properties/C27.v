(* Properties/C27.v — Status agrees with git status.
   Only statements here; proofs live in Proofs/C27.v.
   G = Model/Status.v (Worktree.status as it is, on flattened path maps),
   S = Spec/GitStatus.v (git's porcelain v1 records per path).

   FULL STATEMENT:  forall s ps,  status s ps = git_status s ps.
   It is FALSE of the faithful model; each way it fails is a *_refuted theorem
   below (witnesses replayed on the implementation, known findings of the same
   names), and C27_status_eq_partial is the full statement under the boolean
   per-path guard [ok_path] that excludes exactly those shapes. *)
From Coq Require Import List NArith Bool String.
From GoGit Require Import Base.Out Model.Status Spec.GitStatus Proofs.C27.
From GoGit Require Import Model.StatTime Proofs.C27Time.
Import ListNotations.
Local Open Scope N_scope.

(* Worktree.status — two change lists folded into a map, Status.File creating
   entries, right changes overriding left ones — is a per-path function of the
   two per-path changes, for every state and every list of paths *)
Theorem C27_status_pointwise : forall s ps,
  status s ps = flat_map (fun p => list_of p (g_class (left_change s p) (right_change s p))) ps.
Proof. exact status_pointwise. Qed.
Print Assumptions C27_status_pointwise.

(* under the guard, go-git's listing is git's, for every state (any number of
   paths, any mix of HEAD / index / worktree entries, modes, ignore verdicts,
   stat data, index time) *)
Theorem C27_status_eq_partial : forall s ps,
  forallb (ok_path s) ps = true -> status s ps = git_status s ps.
Proof. exact status_eq_git. Qed.
Print Assumptions C27_status_eq_partial.

(* --- the guard is necessary: one witness per excluded shape.  Path "a" = [97];
   content ids: 0 = empty, 1, 2; times: 5 staged, 9 touched, index written at 100 *)
Definition pa : path := [97].
Definition wit (fmt : N) (filemode : bool) (h : list tentry) (i : list ientry) (w : list wfile) : state :=
  mkState fmt filemode 100 h i w.

(* SHA-256 repository, file rewritten with identical content: go-git " M", git clean *)
Theorem C27_sha256_refuted : exists s, status s [pa] <> git_status s [pa] /\ git_status s [pa] = [].
Proof.
  exists (wit 1 true [mkT pa MReg (mkHash 1 1)] [mkI pa MReg (mkHash 1 1) 2 5 false] [mkW pa MReg 1 2 9 false false]).
  split; [vm_compute; discriminate|reflexivity].
Qed.
Print Assumptions C27_sha256_refuted.

(* intent-to-add entry: git " A", go-git "AM" *)
Theorem C27_ita_refuted : exists s,
  status s [pa] = [(pa, CAdd, CMod)] /\ git_status s [pa] = [(pa, CUnmod, CAdd)].
Proof.
  exists (wit 0 true [] [mkI pa MReg (mkHash 0 0) 0 1 true] [mkW pa MReg 1 2 5 false false]).
  split; reflexivity.
Qed.
Print Assumptions C27_ita_refuted.

(* core.fileMode=false, tracked executable file untouched: git clean, go-git " M" *)
Theorem C27_filemode_refuted : exists s,
  status s [pa] = [(pa, CUnmod, CMod)] /\ git_status s [pa] = [].
Proof.
  exists (wit 0 false [mkT pa MExec (mkHash 0 1)] [mkI pa MExec (mkHash 0 1) 2 5 false] [mkW pa MExec 1 2 5 false false]).
  split; reflexivity.
Qed.
Print Assumptions C27_filemode_refuted.

(* git rm --cached, file kept: git "D " and "??", go-git only "??" *)
Theorem C27_staged_delete_refuted : exists s,
  status s [pa] = [(pa, CUntracked, CUntracked)] /\
  git_status s [pa] = [(pa, CDel, CUnmod); (pa, CUntracked, CUntracked)].
Proof.
  exists (wit 0 true [mkT pa MReg (mkHash 0 1)] [] [mkW pa MReg 1 2 5 false false]).
  split; reflexivity.
Qed.
Print Assumptions C27_staged_delete_refuted.

(* symlink replaced by a regular file: git " T", go-git " M" *)
Theorem C27_typechange_refuted : exists s,
  status s [pa] = [(pa, CUnmod, CMod)] /\ git_status s [pa] = [(pa, CUnmod, CType)].
Proof.
  exists (wit 0 true [mkT pa MLink (mkHash 0 1)] [mkI pa MLink (mkHash 0 1) 2 5 false] [mkW pa MReg 2 9 9 false false]).
  split; reflexivity.
Qed.
Print Assumptions C27_typechange_refuted.

(* same-size edit with restored mtime, index written later: go-git clean, git " M" *)
Theorem C27_samestat_refuted : exists s,
  status s [pa] = [] /\ git_status s [pa] = [(pa, CUnmod, CMod)].
Proof.
  exists (wit 0 true [mkT pa MReg (mkHash 0 1)] [mkI pa MReg (mkHash 0 1) 2 5 false] [mkW pa MReg 2 2 5 false false]).
  split; reflexivity.
Qed.
Print Assumptions C27_samestat_refuted.

(* .git/info/exclude is not read: a file excluded only there is reported "??" *)
Theorem C27_info_exclude_refuted : exists s,
  status s [pa] = [(pa, CUntracked, CUntracked)] /\ git_status s [pa] = [].
Proof.
  exists (wit 0 true [] [] [mkW pa MReg 1 2 5 false true]).
  split; reflexivity.
Qed.
Print Assumptions C27_info_exclude_refuted.

(* --- the metadata shortcut over time (the racy-git argument): for every
   history of writes, stagings and clock ticks of any granularity in which the
   index is only rewritten by staging the file itself, a metadata match implies
   the staged content is the file's content *)
Theorem C27_shortcut_sound_partial : forall c sz h,
  tl_no_touch h = true ->
  tl_matches (tl_run (tl_init c sz) h) = true -> tl_same_content (tl_run (tl_init c sz) h) = true.
Proof. exact tl_shortcut_sound. Qed.
Print Assumptions C27_shortcut_sound_partial.

(* without the guard it fails: write, stage, same-tick same-size rewrite, then
   the index is rewritten later for another path without smudging the entry *)
Theorem C27_shortcut_sound_refuted : exists c sz h,
  tl_matches (tl_run (tl_init c sz) h) = true /\ tl_same_content (tl_run (tl_init c sz) h) = false.
Proof. exists 1, 2, [TStage; TWrite 2 2; TTick; TTouchIndex]. split; reflexivity. Qed.
Print Assumptions C27_shortcut_sound_refuted.

(* --- sub-second time stamps.  metadataMatches compares time.Time values (whole
   seconds and nanoseconds) with Equal and Before; Model/Status.v keeps one number per
   stamp.  For well-formed stamps (nanoseconds < 10^9) the code's two comparisons are
   = and < on the nanosecond counts, so metadata_matches above is the code's test *)
Theorem C27_ts_compare : forall a b, ts_wf a = true -> ts_wf b = true ->
  ts_eqb a b = (ts_ns a =? ts_ns b) /\ ts_ltb a b = (ts_ns a <? ts_ns b).
Proof. intros a b Ha Hb. split; [now apply ts_eqb_ns|now apply ts_ltb_ns]. Qed.
Print Assumptions C27_ts_compare.

(* the racy-git argument over two-part stamps: the clock may jump to any later
   (seconds, nanoseconds) value, whatever the granularity of the file system *)
Theorem C27_shortcut_sound_ns_partial : forall c sz h,
  no_touch h = true ->
  tls_matches (tls_run (tls_init c sz) h) = true -> tls_same (tls_run (tls_init c sz) h) = true.
Proof. exact tls_shortcut_sound. Qed.
Print Assumptions C27_shortcut_sound_ns_partial.

(* comparing the mtime at whole-second granularity while the racy check keeps
   nanoseconds is NOT equivalent: a same-second, same-size rewrite followed by a
   later rewrite of the index (for another path) matches under the coarse test
   and does not under the code's; the contents differ *)
Theorem C27_shortcut_seconds_refuted : exists c sz h,
  tls_matches (tls_run (tls_init c sz) h) = false /\
  tls_matches_sec (tls_run (tls_init c sz) h) = true /\
  tls_same (tls_run (tls_init c sz) h) = false.
Proof.
  exists 1, 2, [ETo (mkTs 7 500); EWrite 1 2; EStage; ETo (mkTs 7 900); EWrite 2 2; ETo (mkTs 8 0); ETouchIdx].
  repeat split; reflexivity.
Qed.
Print Assumptions C27_shortcut_seconds_refuted.

(* ------------------------------------------------------------ non-vacuity *)

(* a state with staged and unstaged changes, an untracked and an ignored file,
   a deleted file and a directory replacing a file satisfies the guard, and the
   listing is the expected one *)
Definition ex_state : state :=
  mkState 0 true 100
    [mkT [97] MReg (mkHash 0 1); mkT [98] MExec (mkHash 0 2); mkT [99] MLink (mkHash 0 3); mkT [100] MReg (mkHash 0 4)]
    [mkI [97] MReg (mkHash 0 5) 2 5 false; mkI [98] MExec (mkHash 0 2) 2 5 false; mkI [99] MLink (mkHash 0 3) 3 5 false;
     mkI [101] MReg (mkHash 0 1) 2 5 false]
    [mkW [97] MReg 5 2 5 false false; mkW [98] MReg 2 2 9 false false; mkW [99] MLink 6 3 9 false false;
     mkW [101; 47; 120] MReg 1 2 9 false false; mkW [117] MReg 1 2 9 false false; mkW [111] MReg 1 2 9 true true].
Example C27_guard_inhabited :
  forallb (ok_path ex_state) (sort_paths (all_paths ex_state)) = true /\
  status ex_state (sort_paths (all_paths ex_state)) =
  [([97], CMod, CUnmod); ([98], CUnmod, CMod); ([99], CUnmod, CMod); ([100], CDel, CUnmod);
   ([101], CAdd, CDel); ([101; 47; 120], CUntracked, CUntracked); ([117], CUntracked, CUntracked)].
Proof. vm_compute. split; reflexivity. Qed.

Example C27_timeline_ns_inhabited :
  let h := [ETo (mkTs 7 500); EWrite 1 2; EStage; ETo (mkTs 7 900); EWrite 2 2; ETo (mkTs 8 0); EStage; ETo (mkTs 8 1)] in
  no_touch h = true /\ tls_matches (tls_run (tls_init 0 0) h) = true.
Proof. vm_compute. split; reflexivity. Qed.

Example C27_timeline_inhabited :
  let h := [TWrite 1 2; TStage; TTick; TWrite 2 2; TTick; TStage; TTick] in
  tl_no_touch h = true /\ tl_matches (tl_run (tl_init 0 0) h) = true.
Proof. vm_compute. split; reflexivity. Qed.
