(* Properties/C30.v — Non-forced checkout and merge/keep resets never lose
   local changes.  Statements only; proofs in Proofs/C30.v.
   "Local content at p" = the worktree file at p when it is not what HEAD
   commits there (modified, staged-only or untracked).
   FULL statement (property text):
     op in {Checkout without Force, Reset Merge, Reset Keep} ->
     op s = (None, s') -> forall p, local content at p in s -> lookup p (wt s') = lookup p (wt s)
   is FALSE of the code; three witnesses below, each replayed on the real code. *)
From Coq Require Import List NArith ZArith Bool String.
From GoGit Require Import Base.Out Model.Porcelain Proofs.PorcelainMaps Proofs.Porcelain Proofs.C25 Proofs.C29 Proofs.C30.
Import ListNotations.

(* (i) staged new file, absent from the target: resetIndex drops the entry and
   resetWorktree then deletes the (now untracked) file; Checkout returns nil *)
Theorem C30_staged_new_refuted :
  exists o s s' p, co_force o = false /\ checkout o s = (None, s') /\
    lookup p (wt s) <> None /\ lookup p (tree_or_empty (head_tree s)) = None /\
    lookup p (wt s') = None /\ lookup p (idx s') = None.
Proof.
  destruct checkout_deletes_staged_new as (s' & H1 & H2 & H3 & H4).
  exists (co_plain o_other), c30_staged, s', (b "s"). repeat split; auto.
  rewrite H2. discriminate.
Qed.
Print Assumptions C30_staged_new_refuted.

(* (ii) untracked file at a path the target adds: overwritten; Checkout returns nil *)
Theorem C30_untracked_refuted :
  exists o s s' p, co_force o = false /\ checkout o s = (None, s') /\
    lookup p (idx s) = None /\ lookup p (wt s) <> None /\ lookup p (wt s') <> lookup p (wt s).
Proof.
  destruct checkout_overwrites_untracked as (s' & H1 & H2 & H3 & H4).
  exists (co_plain o_other), c30_untracked, s', (b "n"). repeat split; auto.
  - rewrite H3. discriminate.
  - rewrite H3, H4. discriminate.
Qed.
Print Assumptions C30_untracked_refuted.

(* (iii) KeepReset overwrites an unstaged modification of a file that the
   reset does not touch (HEAD and target agree on it) *)
Theorem C30_keep_refuted :
  exists s commit s' p t0 t1,
    reset commit Keep None s = (None, s') /\
    head_tree s = HTTree t0 /\ tree_of s commit = Some t1 /\ lookup p t0 = lookup p t1 /\
    lookup p (wt s) <> lookup p (idx s) /\ lookup p (wt s') <> lookup p (wt s).
Proof.
  destruct keep_overwrites_untouched as (s' & H1 & H2 & H3 & H4).
  exists c30_keep, 1%Z, s', (b "u"), c30_k0, c30_k1. repeat split; auto.
  - rewrite H3. vm_compute. discriminate.
  - rewrite H3, H4. discriminate.
Qed.
Print Assumptions C30_keep_refuted.

(* ---------- what does hold *)

(* unstaged modifications and deletions of tracked files — also of files the
   switch would not touch — make MergeReset / non-forced Checkout refuse, and
   the refusal leaves index and worktree alone (C29 for the rest) *)
Theorem C30_unstaged_refused_reset : forall commit from s p e,
  In (p, e) (idx s) -> lookup p (wt s) <> Some e ->
  exists er, reset commit Merge from s = (Some er, s).
Proof. exact merge_reset_refuses_unstaged. Qed.
Print Assumptions C30_unstaged_refused_reset.

Theorem C30_unstaged_refused_checkout : forall o s p e,
  co_force o = false -> co_keep o = false ->
  In (p, e) (idx s) -> lookup p (wt s) <> Some e ->
  exists er, checkout o s = (Some er, s).
Proof. exact checkout_merge_refuses_unstaged. Qed.
Print Assumptions C30_unstaged_refused_checkout.

(* partial: after a successful merge-mode Reset / non-forced Checkout every
   path whose index entry equals the target's entry (boolean guard
   [ofent_eqb (lookup p (idx s)) (lookup p t)]; both absent = an untracked file
   the target does not have) keeps its worktree content.  Missing for the full
   statement: the paths where index and target differ — exactly witnesses (i), (ii). *)
Theorem C30_merge_partial : forall commit from s s',
  reset commit Merge from s = (None, s') ->
  exists c t, reset_target commit s = Some c /\ tree_of s c = Some t /\
    forall p, lookup p (idx s) = lookup p t -> lookup p (wt s') = lookup p (wt s).
Proof. exact merge_reset_preserves. Qed.
Print Assumptions C30_merge_partial.

Theorem C30_checkout_partial : forall o s s',
  co_force o = false -> co_keep o = false -> checkout o s = (None, s') ->
  exists c t, checkout_target o s = Some c /\ tree_of s c = Some t /\
    forall p, lookup p (idx s) = lookup p t -> lookup p (wt s') = lookup p (wt s).
Proof. exact checkout_merge_preserves. Qed.
Print Assumptions C30_checkout_partial.

(* KeepReset, partial: it writes like HardReset — every path of the target is
   overwritten, every path outside the target and outside HEAD's tree survives.
   Missing: paths of the target that the reset does not touch — witness (iii). *)
Theorem C30_keep_partial : forall commit s s',
  reset commit Keep None s = (None, s') ->
  exists c t, reset_target commit s = Some c /\ tree_of s c = Some t /\
    (forall p e, lookup p t = Some e -> lookup p (wt s') = Some e) /\
    (forall p, lookup p t = None -> lookup p (tree_or_empty (head_tree s)) = None ->
               lookup p (wt s') = lookup p (wt s)).
Proof. exact keep_reset_effect. Qed.
Print Assumptions C30_keep_partial.

(* full for the modes that never write files *)
Theorem C30_mixed_keeps_worktree : forall commit from s r,
  reset commit Mixed from s = r -> wt (snd r) = wt s.
Proof. exact reset_mixed_wt. Qed.
Print Assumptions C30_mixed_keeps_worktree.

Theorem C30_soft_keeps_all : forall commit from s r,
  reset commit Soft from s = r -> idx (snd r) = idx s /\ wt (snd r) = wt s.
Proof. exact reset_soft. Qed.
Print Assumptions C30_soft_keeps_all.

Theorem C30_checkout_keep : forall o s r,
  co_force o = false -> co_keep o = true -> checkout o s = r ->
  idx (snd r) = idx s /\ wt (snd r) = wt s.
Proof. exact checkout_keep_untouched. Qed.
Print Assumptions C30_checkout_keep.

(* non-vacuity of the partial theorems: a non-forced checkout that succeeds
   with an untracked file (kept) and a staged copy of what the target has (kept) *)
Example C30_example :
  let s := c30_base [(b "a", (KReg, b "A1"))] [(b "a", (KReg, b "A1")); (b "u", (KExec, b "U"))] in
  exists s', checkout (co_plain o_other) s = (None, s') /\
    lookup (b "u") (wt s') = Some (KExec, b "U") /\ lookup (b "a") (wt s') = Some (KReg, b "A1").
Proof. eexists. vm_compute. repeat split. Qed.
