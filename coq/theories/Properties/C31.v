(* Properties/C31.v — Line-ending conversion matches git and round-trips.
   Only statements here; proofs live in Proofs/C31Stat.v, C31Writers.v, C31Flows.v.
   G = Model/Eol.v (go-git as it is), S = Spec/GitConvert.v (git's convert.c).

   FULL STATEMENT of the property (for every content, every chunking of the
   copies, every core.autocrlf, every staged blob `prior` at the path):
       checkout_conv ac chunks = Some (git_checkout ac (concat chunks))
    /\ add_conv ac chunks      = Some (git_add ac prior (concat chunks))
    /\ (checkout_conv ac c1 = Some f -> concat c2 = f -> add_conv ac c2 = Some (concat c1))
   The first conjunct is proved in full (C31_checkout_eq_git, after the repair of
   the mixed-line-ending defect).  The second and third are FALSE of the faithful
   model (theorems *_refuted below, witnesses replayed on the implementation:
   finding add-index-crlf); the *_partial theorems are the strongest true parts,
   under boolean guards. *)
From Coq Require Import List NArith Bool String.
From GoGit Require Import Base.Out Model.Eol Spec.GitConvert
  Proofs.C31Stat Proofs.C31Writers Proofs.C31Flows.
Import ListNotations.
Local Open Scope N_scope.

(* --- statistics and the binary verdict are git's (inputs shorter than 2^64
   bytes: Go's counters are 64-bit) *)
Theorem C31_stat_eq_git : forall bs, short bs = true ->
  let g := get_stat bs in let s := git_stats bs in
  s_nul g = s_nul s /\ s_lonecr g = s_lonecr s /\ s_lonelf g = s_lonelf s /\
  s_crlf g = s_crlf s /\ s_print g = s_print s /\ s_nonprint g + s_nul g = s_nonprint s.
Proof.
  intros bs H. pose proof (get_stat_git bs H) as E. cbv zeta. rewrite <- E.
  repeat split; reflexivity.
Qed.
Print Assumptions C31_stat_eq_git.

Theorem C31_is_binary_eq_git : forall bs, short bs = true ->
  is_binary (get_stat bs) = git_is_binary (git_stats bs).
Proof. exact is_binary_get_stat. Qed.
Print Assumptions C31_is_binary_eq_git.

(* --- one Write never runs out of fuel, emits [lf_chunk]/[crlf_chunk] and
   returns len(data) (so io.Copy never sees a short write) *)
Theorem C31_lf_write_total : forall d, lf_write d = Some (lf_chunk d, List.length d).
Proof. exact lf_write_spec. Qed.
Print Assumptions C31_lf_write_total.

Theorem C31_crlf_write_total : forall h d,
  crlf_write h d = Some (crlf_chunk h d, List.length d, next_h h d).
Proof. exact crlf_write_spec. Qed.
Print Assumptions C31_crlf_write_total.

(* --- crlfToLFWriter: with no lone CR in the stream (what IsBinary guarantees
   when the writer is installed) the output is git's CR-stripping loop on the
   concatenation, for EVERY chunking *)
Theorem C31_lf_chunk_free : forall chunks,
  lcf (List.concat chunks) = true ->
  lf_writer chunks = Some (strip_cr (List.concat chunks), map (@List.length N) chunks).
Proof. exact lf_writer_chunk_free. Qed.
Print Assumptions C31_lf_chunk_free.

(* the guard is necessary: a chunk-final lone CR is swallowed *)
Theorem C31_lf_chunk_free_refuted : exists c1 c2,
  List.concat c1 = List.concat c2 /\ option_map fst (lf_writer c1) <> option_map fst (lf_writer c2).
Proof. exists [[97; 13]; [98]], [[97; 13; 98]]. split; [reflexivity|]. vm_compute. discriminate. Qed.
Print Assumptions C31_lf_chunk_free_refuted.

(* --- lfToCRLFWriter: "no lone CR" is NOT enough (DESIGN's C31_chunk_free):
   hadCR is refreshed only at the end of Write, so an LF right after an LF
   consults the previous chunk's flag *)
Theorem C31_crlf_chunk_free_refuted : exists c1 c2,
  List.concat c1 = List.concat c2 /\ lcf (List.concat c1) = true /\
  option_map fst (crlf_writer false c1) <> option_map fst (crlf_writer false c2).
Proof.
  exists [[97; 13]; [10; 10; 98]], [[97; 13; 10; 10; 98]].
  split; [reflexivity|]. split; [reflexivity|]. vm_compute. discriminate.
Qed.
Print Assumptions C31_crlf_chunk_free_refuted.

(* strongest chunk-freedom: whenever no chunk ends with CR the output is git's
   crlf_to_worktree loop on the concatenation *)
Theorem C31_crlf_chunk_free_partial : forall chunks,
  forallb no_final_cr chunks = true ->
  crlf_writer false chunks = Some (git_lf_to_crlf false (List.concat chunks), map (@List.length N) chunks).
Proof. exact crlf_writer_no_final_cr. Qed.
Print Assumptions C31_crlf_chunk_free_partial.

(* in particular for CR-free content (the only content git converts) *)
Theorem C31_crlf_nocr : forall chunks,
  has_cr (List.concat chunks) = false ->
  crlf_writer false chunks = Some (git_lf_to_crlf false (List.concat chunks), map (@List.length N) chunks).
Proof. exact crlf_writer_nocr. Qed.
Print Assumptions C31_crlf_nocr.

(* --- checkout equals git for every content, every autocrlf and every
   chunking of the copy (FULL; holds since the repair "fix: leave content that
   already has CRLF untouched on autocrlf checkout" — before it, text with both
   CRLF and lone LF, e.g. "a\r\nb\nc\n", had its lone LFs converted) *)
Theorem C31_checkout_eq_git : forall ac chunks,
  short (List.concat chunks) = true ->
  checkout_conv ac chunks = Some (git_checkout ac (List.concat chunks)).
Proof. exact checkout_eq_git. Qed.
Print Assumptions C31_checkout_eq_git.

(* --- add equals git unless the staged blob has CRLF and the file is text with CRLF *)
Theorem C31_add_eq_git_partial : forall ac prior chunks,
  short (List.concat chunks) = true ->
  has_crlf_in_index prior && text_crlf (List.concat chunks) = false ->
  add_conv ac chunks = Some (git_add ac prior (List.concat chunks)).
Proof. exact add_eq_git. Qed.
Print Assumptions C31_add_eq_git_partial.

Theorem C31_add_index_crlf_refuted : exists prior file,
  add_conv ACTrue [file] <> Some (git_add ACTrue (Some prior) file).
Proof. exists [97; 13; 10], [97; 13; 10; 98; 13; 10]. vm_compute. discriminate. Qed.
Print Assumptions C31_add_index_crlf_refuted.

(* --- checkout then re-add stores the same blob, for all chunkings of both
   copies, unless the blob is text containing CRLF *)
Theorem C31_roundtrip_partial : forall ac c1 c2 f,
  short2 (List.concat c1) = true -> text_crlf (List.concat c1) = false ->
  checkout_conv ac c1 = Some f -> List.concat c2 = f ->
  add_conv ac c2 = Some (List.concat c1).
Proof. exact roundtrip. Qed.
Print Assumptions C31_roundtrip_partial.

Theorem C31_roundtrip_refuted : exists blob f,
  checkout_conv ACTrue [blob] = Some f /\ add_conv ACTrue [f] <> Some blob.
Proof. exists [97; 13; 10], [97; 13; 10]. split; [reflexivity|]. vm_compute. discriminate. Qed.
Print Assumptions C31_roundtrip_refuted.

(* git's own algorithm round-trips every blob (this is what has_crlf_in_index is for) *)
Theorem C31_git_roundtrip : forall ac blob, git_add ac (Some blob) (git_checkout ac blob) = blob.
Proof. exact git_roundtrip. Qed.
Print Assumptions C31_git_roundtrip.

(* --- the status hasher declares exactly the number of bytes it hashes *)
Theorem C31_node_size : forall ac chunks sz content,
  short (List.concat chunks) = true ->
  node_hash_input ac chunks = Some (sz, content) -> sz = N.of_nat (List.length content).
Proof. exact node_size. Qed.
Print Assumptions C31_node_size.

(* ------------------------------------------------------------ non-vacuity *)

(* guards are satisfiable by interesting content: LF text, pure CRLF text, binary *)
Example C31_guards_inhabited :
  let lf := [97; 10; 98; 10] in let crlf := [97; 13; 10; 98; 13; 10] in let bin := [97; 13; 98; 0; 10] in
  short lf = true /\ short bin = true /\
  text_crlf lf = false /\ text_crlf crlf = true /\ short2 crlf = true /\
  lcf crlf = true /\ has_cr lf = false /\
  checkout_conv ACTrue [[97; 10]; [98; 10]] = Some [97; 13; 10; 98; 13; 10] /\
  add_conv ACInput [[97; 13]; [10; 98; 13; 10]] = Some lf /\
  checkout_conv ACTrue [[97; 13]; [10; 98; 10]] = Some [97; 13; 10; 98; 10].
Proof. vm_compute. repeat split; reflexivity. Qed.

(* GetStat trusts its reader: an answer (1, io.EOF) loses the byte, and a
   first answer (1 byte ^Z, io.EOF) wraps the non-printable counter *)
Example C31_stat_reader_contract :
  get_stat_ev [RByteEOF 0] stat0 false 0 = stat0 /\
  s_nonprint (get_stat_ev [RByteEOF SUB] stat0 false 0) = 2 ^ 64 - 1.
Proof. vm_compute. split; reflexivity. Qed.

(* ---- Stat.IsBinary is regenerated from utils/convert/stat.go on every run (Gen/C31.v):
   the model's is_binary is exactly that function *)
From Coq Require Import ZArith.
From GoGit Require Import Gen.C31 Proofs.C31Leaf.
Theorem C31_is_binary_tied : forall s,
  convert_Stat_IsBinary (Z.of_N (s_nul s)) (Z.of_N (s_lonecr s))
                        (Z.of_N (s_print s)) (Z.of_N (s_nonprint s))
  = is_binary s.
Proof. exact is_binary_gen_spec. Qed.
Print Assumptions C31_is_binary_tied.
