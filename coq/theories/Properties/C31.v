From GoGit Require Import Base.Out Model.Eol Spec.GitConvert.
