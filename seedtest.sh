#!/bin/sh
# development-time helper: confirm a seeded mutation and run the property's check against it.
#   ./seedtest.sh C41 /tmp/mut-out/C41 "<demo cmd run at the worktree root>" [pkg-to-test ...]
# 1. scratch worktree: demo passes without the patch, fails with it; listed package tests pass with it
# 2. apply to /repo, run ./check <id>, revert
ID=$1; DIR=$2; DEMO=$3; shift 3
export GOFLAGS=-mod=mod GOPROXY=off
WT=/tmp/seedchk-$ID
git -C /repo worktree remove --force $WT 2>/dev/null; git -C /repo branch -D seedchk-$ID 2>/dev/null
git -C /repo worktree add -q $WT -b seedchk-$ID || exit 2
cd $WT
echo "== demo WITHOUT patch (must pass)"; sh -c "$DEMO" >/tmp/seedchk-$ID.nopatch.log 2>&1; echo "rc=$?"
git apply $DIR/patch.diff || { echo "PATCH DOES NOT APPLY"; exit 2; }
echo "== build"; go build ./... 2>&1 | tail -3
echo "== demo WITH patch (must fail)"; sh -c "$DEMO" >/tmp/seedchk-$ID.patch.log 2>&1; echo "rc=$?"
for p in "$@"; do echo "== go test $p (with patch)"; go test -vet=off -count=1 -timeout 25m $p 2>&1 | tail -3; done
cd /verif
git -C /repo worktree remove --force $WT; git -C /repo branch -D seedchk-$ID -q
echo "== ./check $ID against /repo with the patch applied"
git -C /repo apply $DIR/patch.diff && ./check $ID; echo "check rc=$?"
git -C /repo checkout -- . ; git -C /repo status --short | head
