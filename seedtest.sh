#!/bin/sh
# development-time helper: confirm a seeded mutation and run the property's check against it, in isolation.
#   ./seedtest.sh C41 /tmp/mut-out/C41 "<demo cmd run at the worktree root>" [pkg-to-test ...]
# Uses a scratch worktree of /repo main (patch applied) and a scratch worktree of /verif main (/work/v-seed),
# so neither /repo nor /verif/coq is disturbed.  Official confirmation = git -C /repo apply; ./check; checkout.
ID=$1; DIR=$2; DEMO=$3; shift 3
export GOFLAGS=-mod=mod GOPROXY=off
WT=/tmp/seedchk-$ID
SV=/work/v-seed-$ID
git -C /repo worktree remove --force $WT 2>/dev/null; git -C /repo branch -D seedchk-$ID 2>/dev/null
git -C /repo worktree add -q $WT -b seedchk-$ID main || exit 2
git -C /verif worktree remove --force $SV 2>/dev/null; git -C /verif branch -D seed-$ID 2>/dev/null
git -C /verif worktree add -q $SV -b seed-$ID main || exit 2
cd $WT
echo "== demo WITHOUT patch (must pass)"; sh -c "$DEMO" >/tmp/seedchk-$ID.nopatch.log 2>&1; echo "rc=$?"
git apply $DIR/patch.diff || { echo "PATCH DOES NOT APPLY"; exit 2; }
echo "== build"; go build ./... 2>&1 | tail -3
echo "== demo WITH patch (must fail)"; sh -c "$DEMO" >/tmp/seedchk-$ID.patch.log 2>&1; echo "rc=$?"
git status --short | grep '^??' | awk '{print $2}' | xargs -r rm -rf
for p in "$@"; do echo "== go test $p (with patch, demo removed)"; go test -vet=off -count=1 -timeout 25m $p 2>&1 | tail -3; done
# remove the demo file(s) again so the check sees only the source change
git status --short | grep '^??' | awk '{print $2}' | xargs -r rm -rf
cd $SV
echo "== ./check $ID against the patched tree"
VERIF_REPO=$WT ./check ${CHECK:-$ID} > /tmp/seedchk-$ID.check.log 2>&1; echo "check rc=$?"; grep -E "^VIOLATION|^KNOWN" /tmp/seedchk-$ID.check.log; tail -1 /tmp/seedchk-$ID.check.log
ls $SV/replay 2>/dev/null | head -3
cp $SV/replay/*.json /tmp/seedchk-$ID.replay.json 2>/dev/null
cd /verif
git -C /repo worktree remove --force $WT; git -C /repo branch -q -D seedchk-$ID
git -C /verif worktree remove --force $SV; git -C /verif branch -q -D seed-$ID
