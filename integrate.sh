#!/bin/sh
# development-time helper: merge an agent batch (branch bNN in /verif and /repo) into main.
#   ./integrate.sh b09            merge + cherry-pick, no checks
set -e
B=$1
cd /verif
echo "== /repo: commits on $B not on main"
git -C /repo log --oneline main..$B || true
for c in $(git -C /repo rev-list --reverse --no-merges main..$B); do
  subj=$(git -C /repo log -1 --format=%s $c)
  if git -C /repo log --format=%s main | grep -qxF "$subj"; then echo "already on main: $subj"; continue; fi
  case "$subj" in Merge*) continue;; esac
  if git -C /repo cherry-pick -x $c >/dev/null 2>&1; then echo "picked $subj"; else echo "CONFLICT on $c ($subj)"; git -C /repo cherry-pick --abort; exit 1; fi
done
echo "== /verif: merging $B"
git merge --no-edit $B >/tmp/merge.$$ 2>&1 || { git checkout --ours known_findings.json MANIFEST.json harness/go.mod evidence/ 2>/dev/null; ./mkmanifest.py; git add -A; git commit --no-edit -q || { cat /tmp/merge.$$; exit 1; }; }
tail -3 /tmp/merge.$$; rm -f /tmp/merge.$$
# MANIFEST.hooks = every commit of /repo main after the pinned snapshot
git -C /repo log --format='%H %s' 74be39e..main | grep ' verif hook' | awk '{print $1}' > MANIFEST.hooks
./mkmanifest.py
