#!/usr/bin/env python3
"""development helper: record a confirmed seeded mutation under seeded/<id>/ from /tmp/mut-out/<id> and the seedtest logs"""
import json, os, re, shutil, sys
pid = sys.argv[1]; note = sys.argv[2] if len(sys.argv) > 2 else ""
src = "/tmp/mut-out/" + pid; dst = "/verif/seeded/" + pid
os.makedirs(dst, exist_ok=True)
shutil.copy(src + "/patch.diff", dst + "/patch.diff")
if os.path.isdir(dst + "/demo"): shutil.rmtree(dst + "/demo")
shutil.copytree(src + "/demo", dst + "/demo", ignore=shutil.ignore_patterns("go.sum", "*.test"))
m = json.load(open(src + "/meta.json"))
out = open("/tmp/checks/seed-%s.out" % pid).read()
chk = open("/tmp/seedchk-%s.check.log" % pid).read() if os.path.exists("/tmp/seedchk-%s.check.log" % pid) else ""
rep = {}
try: rep = json.load(open("/tmp/seedchk-%s.replay.json" % pid))
except Exception: pass
rcs = re.findall(r"rc=(\d+)", out)
m["breaks_property"] = pid[:3]
m["confirmed_by_integrator"] = {
  "procedure": "seedtest.sh: scratch worktree of /repo main; demo run without and with patch.diff; package tests with the patch; ./check run against the patched tree",
  "demo_without_patch_rc": rcs[0] if rcs else None, "demo_with_patch_rc": rcs[1] if len(rcs) > 1 else None,
  "package_tests_with_patch": re.findall(r"^(?:ok|FAIL|---)\s.*$", out, re.M)[:12],
  "check_rc": rcs[2] if len(rcs) > 2 else None,
  "check_output": [l for l in chk.splitlines() if l.startswith(("VIOLATION", "KNOWN-FINDING")) or " quick: " in l][:6],
  "replay": {"kind": rep.get("kind"), "suite": rep.get("suite"), "case": rep.get("case"), "why": str(rep.get("why"))[:600],
             "broken": [str(b)[:300] for b in (rep.get("broken") or [])[:3]]},
  "note": note}
json.dump(m, open(dst + "/meta.json", "w"), indent=1)
print(pid, m["confirmed_by_integrator"]["check_output"][:1], m["confirmed_by_integrator"]["replay"]["kind"])
