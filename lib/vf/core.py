"""Shared machinery of the go-git verification checks (see DESIGN.md §2).

A property module (props/Cxx.py) declares its theorems, its suites (case
generator, Coq model expression, implementation command, direct oracle) and its
known-finding classes; `run_property` does the rest:

  1. gotrans  -> coq/theories/Gen/*.v   (regenerated from /repo's working tree)
  2. make the .vo closure of Properties/Cxx.vo (full build), scan it for
     forbidden constructs, count obligations, collect Print Assumptions
  3. build the Go harness command with -tags verif against /repo, run corpus +
     generated cases through implementation and model, compare observables
  4. evaluate the direct oracle of the property on the implementation
  5. classify: known finding / violation (with failing input) / broken tie
     without a failing input; write evidence/Cxx.json and, on violation, a replay
"""
import fcntl
import hashlib
import json
import os
import random
import re
import shutil
import subprocess
import sys
import tempfile
import time
from concurrent.futures import ThreadPoolExecutor

ROOT = os.path.dirname(os.path.dirname(os.path.dirname(os.path.abspath(__file__))))
REPO = os.environ.get("VERIF_REPO", "/repo")
COQ = os.path.join(ROOT, "coq")
HARNESS = os.path.join(ROOT, "harness")
CACHE = os.path.join(ROOT, ".cache")
FORBIDDEN = re.compile(
    r"\b(Admitted|admit|Axiom|Axioms|Parameter|Parameters|Conjecture|Conjectures|Hypothesis|Hypotheses|Variable|Variables"
    r"|Admit\s+Obligations|bypass_check|native_compute)\b|Unset\s+Guard|Unset\s+Positivity|Unset\s+Universe|type-in-type|impredicative-set")
# Variable/Hypothesis are allowed inside a Section only; checked separately.
OBLIGATION = re.compile(r"^\s*(?:Local\s+|Global\s+|#\[[^\]]*\]\s*)*(Theorem|Lemma|Corollary|Example|Fact|Proposition|Remark)\s+([A-Za-z0-9_']+)", re.M)

GOENV = dict(os.environ, GOFLAGS="-mod=mod", GOPROXY="off")
GOENV.pop("GOTOOLCHAIN", None)
GOENV.pop("GOSUMDB", None)


def log(*a):
    print(*a, file=sys.stderr, flush=True)


class Lock:
    def __init__(self, name):
        os.makedirs(CACHE, exist_ok=True)
        self.path = os.path.join(CACHE, name + ".lock")

    def __enter__(self):
        self.f = open(self.path, "w")
        fcntl.flock(self.f, fcntl.LOCK_EX)
        return self

    def __exit__(self, *a):
        fcntl.flock(self.f, fcntl.LOCK_UN)
        self.f.close()


def sh(cmd, timeout=600, cwd=None, env=None, input=None):
    """run a command; returns (rc, stdout+stderr)"""
    try:
        p = subprocess.run(cmd, cwd=cwd, env=env, input=input, timeout=timeout,
                           stdout=subprocess.PIPE, stderr=subprocess.STDOUT,
                           shell=isinstance(cmd, str))
        return p.returncode, p.stdout.decode("utf-8", "replace") if isinstance(p.stdout, bytes) else p.stdout
    except subprocess.TimeoutExpired as e:
        out = e.stdout.decode("utf-8", "replace") if e.stdout else ""
        return 124, out + "\n[timeout after %ss]" % timeout


# ---------------------------------------------------------------- Coq side

def coq_str(b):
    """bytes -> Coq expression of type `bytes` (list N) via a hex string literal"""
    if isinstance(b, str):
        b = b.encode()
    return '(unhex "%s")' % b.hex()


def coq_hex(b):
    """bytes -> Coq string literal holding the hex text (for models taking hex strings)"""
    if isinstance(b, str):
        b = b.encode()
    return '"%s"' % b.hex()


def coq_list(xs):
    return "[" + "; ".join(xs) + "]"


def coq_N(n):
    return "%d%%N" % n


def coq_Z(n):
    return "(%d)%%Z" % n


def coq_bool(b):
    return "true" if b else "false"


def coq_opt(x):
    return "None" if x is None else "(Some %s)" % x


def gotrans():
    """regenerate coq/theories/Gen from /repo's working tree; returns (ok, text, info)"""
    src = os.path.join(HARNESS, "cmd", "gotrans")
    if not os.path.isdir(src):
        return True, "", {"skipped": True}
    with Lock("gotrans"):
        rc, out = go_build("gotrans", tags=False)
        if rc != 0:
            return False, out, {}
        rc, out = sh([os.path.join(HARNESS, "bin", "gotrans"), "-repo", REPO,
                      "-out", os.path.join(COQ, "theories", "Gen"),
                      "-cache", os.path.join(CACHE, "gotrans")], timeout=600, env=GOENV)
        info = {}
        try:
            info = json.loads(out.strip().splitlines()[-1])
        except Exception:
            pass
        return rc == 0, out, info


def coq_make(targets):
    """full .vo build of the given targets (relative to coq/). returns (ok, output)"""
    with Lock("coq"):
        rc, out = sh(["./mkproject.sh"], cwd=COQ, timeout=120)
        if rc != 0:
            return False, out
        rc, out = sh(["timeout", "3000", "make", "-j16", "-k"] + targets, cwd=COQ, timeout=3100)
        return rc == 0, out


def coq_deps():
    """parse coq/.Makefile.d -> {vfile: [vfile deps]}"""
    deps = {}
    p = os.path.join(COQ, ".Makefile.d")
    if not os.path.exists(p):
        return deps
    for line in open(p):
        if ":" not in line:
            continue
        lhs, rhs = line.split(":", 1)
        tgt = [t for t in lhs.split() if t.endswith(".vo")]
        if not tgt:
            continue
        v = tgt[0][:-1]
        deps[v] = [d[:-1] for d in rhs.split() if d.endswith(".vo") and d.startswith("theories/")]
    return deps


def closure(vfile):
    deps = coq_deps()
    seen, todo = [], [vfile]
    while todo:
        f = todo.pop()
        if f in seen:
            continue
        seen.append(f)
        todo.extend(deps.get(f, []))
    return sorted(seen)


def strip_comments(src):
    out, depth, i, n = [], 0, 0, len(src)
    instr = False
    while i < n:
        if not instr and src.startswith("(*", i):
            depth += 1
            i += 2
            continue
        if not instr and depth and src.startswith("*)", i):
            depth -= 1
            i += 2
            continue
        c = src[i]
        if depth == 0:
            if c == '"':
                instr = not instr
            out.append(c)
        i += 1
    return "".join(out)


def strip_strings(src):
    return re.sub(r'"(?:[^"]|"")*"', '""', src)


def scan_sources(files):
    """returns (forbidden hits, obligations list)"""
    hits, obligations = [], []
    for f in files:
        p = os.path.join(COQ, f)
        if not os.path.exists(p):
            continue
        src = strip_strings(strip_comments(open(p).read()))
        depth = 0
        for ln, line in enumerate(src.splitlines(), 1):
            if re.match(r"\s*(Section|Module\s+Type)\b", line):
                depth += 1
            for m in FORBIDDEN.finditer(line):
                w = m.group(0)
                if re.match(r"Variable|Variables|Hypothesis|Hypotheses", w) and depth > 0:
                    continue
                hits.append("%s:%d: %s" % (f, ln, w))
            if re.match(r"\s*End\b", line) and depth > 0:
                depth -= 1
        for m in OBLIGATION.finditer(src):
            obligations.append("%s:%s" % (os.path.basename(f), m.group(2)))
    return hits, obligations


def scratch_dir():
    d = os.path.join(COQ, "cases")
    os.makedirs(d, exist_ok=True)
    return d


def coqc_file(path, timeout=900):
    return sh(["timeout", str(timeout), "coqc", "-R", os.path.join(COQ, "theories"), "GoGit",
               "-w", "-notation-overridden,-deprecated-hint-without-locality,-deprecated-instance-without-locality",
               path], cwd=os.path.dirname(path), timeout=timeout + 10)


STD_AXIOMS = {
    # axioms declared by Coq's standard library; allowed when named in the trusted base
    "Coq.Logic.FunctionalExtensionality.functional_extensionality_dep": "functional_extensionality_dep",
    "functional_extensionality_dep": "functional_extensionality_dep",
    "Coq.Logic.Classical_Prop.classic": "classic",
    "classic": "classic",
    "Coq.Logic.ProofIrrelevance.proof_irrelevance": "proof_irrelevance",
    "proof_irrelevance": "proof_irrelevance",
    "Coq.Logic.JMeq.JMeq_eq": "JMeq_eq",
    "JMeq_eq": "JMeq_eq",
    "Eqdep.Eq_rect_eq.eq_rect_eq": "eq_rect_eq",
    "Coq.Logic.Eqdep.Eq_rect_eq.eq_rect_eq": "eq_rect_eq",
}


def print_assumptions(pid, module, theorems):
    """returns {theorem: 'closed' | [axioms] | 'MISSING: ...'}"""
    d = scratch_dir()
    path = os.path.join(d, "assume_%s_%d.v" % (pid, os.getpid()))
    with open(path, "w") as f:
        f.write("From GoGit Require Import %s.\n" % module)
        for t in theorems:
            f.write('Goal True. idtac "@@BEGIN %s". Abort.\nPrint Assumptions %s.\nGoal True. idtac "@@END". Abort.\n' % (t, t))
    rc, out = coqc_file(path)
    for ext in (".v", ".vo", ".glob", ".vok", ".vos"):
        try:
            os.remove(path[:-2] + ext)
        except OSError:
            pass
    try:
        os.remove(os.path.join(d, ".assume_%s_%d.aux" % (pid, os.getpid())))
    except OSError:
        pass
    res = {}
    for t in theorems:
        m = re.search(r"@@BEGIN %s\n(.*?)@@END" % re.escape(t), out, re.S)
        if not m:
            res[t] = "MISSING: " + out.strip()[-300:]
            continue
        body = m.group(1).strip()
        if "Closed under the global context" in body:
            res[t] = "closed"
        else:
            axs = re.findall(r"^([A-Za-z_][A-Za-z0-9_.']*)\s*:", body, re.M)
            res[t] = axs or ["UNPARSED: " + body[:200]]
    return res


def coq_eval(pid, imports, exprs, chunk=400, timeout=900):
    """evaluate Coq expressions of type `out`; returns list of rendered strings
    (None where evaluation failed).  One coqc per chunk, chunks in parallel."""
    if not exprs:
        return []
    d = scratch_dir()
    chunks = [exprs[i:i + chunk] for i in range(0, len(exprs), chunk)]

    def run(k):
        base = os.path.join(d, "cases_%s_%d_%d" % (pid, os.getpid(), k))
        with open(base + ".v", "w") as f:
            f.write("From Coq Require Import List NArith ZArith String.\nImport ListNotations.\n")
            f.write("From GoGit Require Import Base.Out.\n%s\n" % imports)
            f.write("Open Scope string_scope.\nSet Printing Width 1000000.\nSet Printing Depth 1000000.\n")
            for e in chunks[k]:
                f.write("Eval vm_compute in (render (%s)).\n" % e)
        rc, out = coqc_file(base + ".v", timeout=timeout)
        for ext in (".v", ".vo", ".glob", ".vok", ".vos"):
            try:
                os.remove(base + ext)
            except OSError:
                pass
        try:
            os.remove(os.path.join(d, "." + os.path.basename(base) + ".aux"))
        except OSError:
            pass
        vals = re.findall(r'=\s*"([^"]*)"\s*(?:%string)?\s*:\s*string', out)
        if rc != 0 or len(vals) != len(chunks[k]):
            return [None] * len(chunks[k]), out[-2000:]
        return vals, ""

    with ThreadPoolExecutor(max_workers=8) as ex:
        res = list(ex.map(run, range(len(chunks))))
    outs, errs = [], []
    for v, e in res:
        outs.extend(v)
        if e:
            errs.append(e)
    if errs:
        log("coq_eval errors:", errs[0])
    return outs


# ---------------------------------------------------------------- Go side

def go_build(cmd, tags=True):
    """build harness/cmd/<cmd> against REPO's working tree (go.mod says `replace => /repo`;
    for a development run with VERIF_REPO set, an alternative modfile redirects the replace)"""
    os.makedirs(os.path.join(HARNESS, "bin"), exist_ok=True)
    gosum = os.path.join(HARNESS, "go.sum")
    try:
        shutil.copyfile(os.path.join(REPO, "go.sum"), gosum)
    except OSError:
        pass
    args = ["go", "build"]
    if os.path.realpath(REPO) != "/repo":
        alt = os.path.join(HARNESS, "alt.mod")
        src = open(os.path.join(HARNESS, "go.mod")).read().replace("=> /repo", "=> " + os.path.realpath(REPO))
        if not os.path.exists(alt) or open(alt).read() != src:
            open(alt, "w").write(src)
        shutil.copyfile(gosum, os.path.join(HARNESS, "alt.sum"))
        args += ["-modfile", alt]
    if tags:
        args += ["-tags", "verif"]
    args += ["-o", os.path.join("bin", cmd), "./cmd/" + cmd]
    return sh(args, cwd=HARNESS, env=GOENV, timeout=900)


def run_impl(cmd, cases, timeout=900, env=None):
    """feed cases (dicts with 'id') to harness/bin/<cmd>; returns {id: reply}"""
    data = "".join(json.dumps(c) + "\n" for c in cases).encode()
    e = dict(GOENV)
    if env:
        e.update(env)
    try:
        p = subprocess.run([os.path.join(HARNESS, "bin", cmd)], input=data, stdout=subprocess.PIPE,
                           stderr=subprocess.PIPE, timeout=timeout, env=e)
        out, err, rc = p.stdout, p.stderr, p.returncode
    except subprocess.TimeoutExpired as ex:
        out, err, rc = ex.stdout or b"", b"timeout", 124
    res = {}
    for line in out.decode("utf-8", "replace").splitlines():
        try:
            r = json.loads(line)
            res[r["id"]] = r
        except Exception:
            pass
    if rc != 0 or len(res) != len(cases):
        log("run_impl %s: rc=%s replies=%d/%d stderr=%s" % (cmd, rc, len(res), len(cases), err[-1500:].decode("utf-8", "replace")))
    return res


# ---------------------------------------------------------------- suites

class Suite:
    """One correspondence suite of a property.  Subclass or instantiate with
    callables.  Cases are JSON-able dicts; the framework adds 'id'."""
    name = "main"
    go_cmd = None            # harness/cmd/<go_cmd>
    coq_imports = ""         # Require lines for the model expressions
    quick_n = 300
    thorough_n = 5000
    coq_chunk = 400
    impl_env = None

    def gen(self, rng, n, tier):
        """-> list of case dicts (each with a 'bucket' key)"""
        raise NotImplementedError

    def model_expr(self, case):
        """-> Coq term of type `out` computing G's observable, or None (no model for this case)"""
        return None

    def nontrivial(self, case):
        return True

    def key(self, case):
        c = dict(case)
        c.pop("id", None)
        return json.dumps(c, sort_keys=True)

    def oracle(self, ctx, cases, impl, model):
        """direct check of the property on the implementation.
        -> {case id: reason} for cases on which the property FAILS on the impl"""
        return {}

    def finding_class(self, case, reason, reply):
        """-> known-finding class id for a failing case, or None"""
        return None

    def extra(self, ctx, cases, impl, model):
        """-> dict merged into the evidence (e.g. C-git statistics)"""
        return {}

    def show(self, case):
        return case


class Ctx:
    def __init__(self, pid, tier, seed):
        self.pid, self.tier, self.seed = pid, tier, seed
        self.rng = random.Random(seed)
        self.tmp = tempfile.mkdtemp(prefix="verif-%s-" % pid)
        self.notes = []

    def cleanup(self):
        shutil.rmtree(self.tmp, ignore_errors=True)

    def coq_eval(self, imports, exprs, **kw):
        return coq_eval(self.pid, imports, exprs, **kw)


def load_known(pid):
    p = os.path.join(ROOT, "known_findings.json")
    if not os.path.exists(p):
        return {}, []
    data = json.load(open(p))
    known = {f["class"]: f for f in data.get("findings", []) if f["property"] == pid and f.get("status", "known") == "known"}
    fixed = [f for f in data.get("findings", []) if f["property"] == pid and f.get("status") == "fixed"]
    return known, fixed


def load_corpus(pid, suite):
    d = os.path.join(ROOT, "corpus", pid)
    cases = []
    if os.path.isdir(d):
        for fn in sorted(os.listdir(d)):
            if fn.endswith(".json"):
                try:
                    data = json.load(open(os.path.join(d, fn)))
                except Exception:
                    continue
                for c in (data if isinstance(data, list) else [data]):
                    if c.get("suite", "main") == suite:
                        c = dict(c)
                        c.setdefault("bucket", "corpus")
                        cases.append(c)
    return cases


def write_replay(pid, seed, payload):
    d = os.path.join(ROOT, "replay")
    os.makedirs(d, exist_ok=True)
    p = os.path.join(d, "%s-%s.json" % (pid, seed))
    payload = dict(payload)
    payload["property"] = pid
    payload["replay_cmd"] = "./check %s --replay %s" % (pid, p)
    with open(p, "w") as f:
        json.dump(payload, f, indent=1, default=str)
    return p


def write_evidence(pid, ev):
    d = os.path.join(ROOT, "evidence")
    os.makedirs(d, exist_ok=True)
    with open(os.path.join(d, pid + ".json"), "w") as f:
        json.dump(ev, f, indent=1, default=str)


def run_suite(ctx, mod, suite, n, model_ok, extra_cases=None):
    """returns dict with cases, impl, model outs, mismatches, failures"""
    res = {"suite": suite.name}
    cases = load_corpus(mod.ID, suite.name) if extra_cases is None else list(extra_cases)
    if extra_cases is None:
        cases += suite.gen(ctx.rng, n, ctx.tier)
    for i, c in enumerate(cases):
        c["id"] = i
        c.setdefault("bucket", "?")
    res["cases"] = cases
    impl = {}
    if suite.go_cmd:
        impl = run_impl(suite.go_cmd, cases, env=suite.impl_env)
    res["impl"] = impl
    model = {}
    if model_ok:
        idx, exprs = [], []
        for c in cases:
            e = suite.model_expr(c)
            if e is not None:
                idx.append(c["id"])
                exprs.append(e)
        outs = ctx.coq_eval(suite.coq_imports, exprs, chunk=suite.coq_chunk)
        model = dict(zip(idx, outs))
    res["model"] = model
    mism = []
    for c in cases:
        i = c["id"]
        if i in model:
            r = impl.get(i)
            if model[i] is None:
                mism.append((i, "model evaluation failed"))
            elif r is None:
                mism.append((i, "implementation gave no reply"))
            elif r["out"] != model[i]:
                mism.append((i, "impl %s != model %s" % (r["out"][:300], model[i][:300])))
    res["mismatches"] = mism
    t0 = time.time()
    fails = suite.oracle(ctx, cases, impl, model) or {}
    res["oracle_s"] = round(time.time() - t0, 2)
    # a panic of the implementation is always a failure of the property's totality side
    res["failures"] = fails
    res["extra"] = suite.extra(ctx, cases, impl, model) or {}
    return res


def run_property(mod, tier, seed, replay=None):
    t0 = time.time()
    pid = mod.ID
    ctx = Ctx(pid, tier, seed)
    known, fixed = load_known(pid)
    broken = []          # (obligation, detail)
    violations = []      # failing inputs outside known classes
    known_hits = {}      # class -> first case
    ev_suites = []
    try:
        # 1-2: model side
        ok_t, out_t, tinfo = gotrans()
        if not ok_t:
            broken.append(("gotrans", out_t[-1500:]))
        target = "theories/Properties/%s.vo" % pid
        # the model expressions may import modules outside the closure of the property file:
        # build those too, so that a regenerated Gen/ file never leaves a stale .vo behind
        extra_targets = []
        for s_ in getattr(mod, "SUITES", []):
            for imp in re.findall(r"Require\s+(?:Import|Export)\s+(.*?)\.(?:\s|$)", getattr(s_, "coq_imports", "") or "", re.S):
                for name in imp.split():
                    t = "theories/" + name.replace(".", "/") + ".vo"
                    if os.path.exists(os.path.join(COQ, t[:-1])) and t not in extra_targets:
                        extra_targets.append(t)
        ok_b, out_b = coq_make([target] + extra_targets)
        model_ok = True
        if not ok_b:
            err = "\n".join(l for l in out_b.splitlines() if not l.startswith("COQ"))[-2500:]
            broken.append(("coq build of the closure of %s" % target, err))
            # model may still be usable if only a proof file failed
            ok_m, _ = coq_make(["theories/Model/%s" % os.path.basename(f) + "o" for f in getattr(mod, "MODEL_FILES", [])]) if getattr(mod, "MODEL_FILES", None) else (False, "")
            model_ok = ok_m
        files = closure(target[:-1])
        hits, obligations = scan_sources(files)
        if hits:
            broken.append(("forbidden construct in the development", "; ".join(hits[:10])))
        assumptions = {}
        axioms_used = set()
        if ok_b:
            assumptions = print_assumptions(pid, "Properties." + pid, mod.THEOREMS)
            for t, a in assumptions.items():
                if a == "closed":
                    continue
                if isinstance(a, str):
                    broken.append(("theorem %s" % t, a))
                    continue
                for ax in a:
                    if ax in STD_AXIOMS:
                        axioms_used.add(STD_AXIOMS[ax])
                    else:
                        broken.append(("theorem %s depends on non-standard axiom" % t, ax))
        coqchk_out = None
        if tier == "thorough" and ok_b and os.environ.get("VERIF_NO_COQCHK") != "1":
            with Lock("coq"):
                rcc, outc = sh(["timeout", "3000", "coqchk", "-silent", "-o", "-R", "theories", "GoGit", "GoGit.Properties." + pid], cwd=COQ, timeout=3100)
            coqchk_out = outc[-3000:]
            if rcc != 0:
                broken.append(("coqchk re-check of Properties.%s" % pid, coqchk_out))
        # 3-4: implementation side
        suites = mod.SUITES
        built = set()
        for s in suites:
            if s.go_cmd and s.go_cmd not in built:
                rc, out = go_build(s.go_cmd)
                built.add(s.go_cmd)
                if rc != 0:
                    broken.append(("go build of harness/cmd/%s against /repo" % s.go_cmd, out[-2000:]))
        results = []
        for s in suites:
            if replay is not None and replay.get("suite") not in (None, s.name):
                continue
            n = s.quick_n if tier == "quick" else s.thorough_n
            extra_cases = [replay["case"]] if replay is not None and replay.get("case") else None
            if replay is not None and extra_cases is None:
                continue
            r = run_suite(ctx, mod, s, n, model_ok, extra_cases)
            results.append((s, r))
        # search mode: a tie is broken -> explore more inputs with the direct oracle
        tie_broken = bool(broken) or any(r["mismatches"] for _, r in results)
        if tie_broken and replay is None:
            for s, r in list(results):
                if any(f for f in r["failures"]):
                    continue
                n = (s.quick_n if tier == "quick" else s.thorough_n) * 4
                ctx.rng = random.Random(seed + 7919)
                r2 = run_suite(ctx, mod, s, n, model_ok)
                r2["search"] = True
                results.append((s, r2))
        # 5: classify
        total = nontriv = 0
        distinct = set()
        samples = []
        buckets = {}
        for s, r in results:
            cases = {c["id"]: c for c in r["cases"]}
            for c in r["cases"]:
                total += 1
                buckets[c["bucket"]] = buckets.get(c["bucket"], 0) + 1
                if s.nontrivial(c):
                    k = hashlib.sha1((s.name + s.key(c)).encode()).hexdigest()
                    if k not in distinct:
                        distinct.add(k)
            if r["cases"] and len(samples) < 6 and not r.get("search"):
                for c in r["cases"][: 2] + r["cases"][-1:]:
                    samples.append({"suite": s.name, "case": s.show(c),
                                    "impl": (r["impl"].get(c["id"]) or {}).get("out", "")[:400],
                                    "model": (r["model"].get(c["id"]) or "")[:400] if c["id"] in r["model"] else "n/a"})
            for i, why in r["mismatches"]:
                broken.append(("correspondence %s/%s impl-vs-model" % (pid, s.name),
                               {"case": s.show(cases[i]), "detail": why}))
            mism_ids = set(i for i, _ in r["mismatches"])
            for i, why in sorted(r["failures"].items()):
                cls = s.finding_class(cases[i], why, r["impl"].get(i))
                # a known finding is the behaviour of the pristine model G: if the implementation
                # departs from G on this very case, the failure is not (only) the listed finding
                if cls is not None and cls in known and i in mism_ids:
                    why = why + " [inside known class %s, but the implementation differs from the model here]" % cls
                    cls = None
                if cls is not None and cls in known:
                    known_hits.setdefault(cls, (s, cases[i], why))
                else:
                    violations.append((s, cases[i], why, r["impl"].get(i), r["model"].get(i)))
            for i, rep in r["impl"].items():
                if rep.get("panic") and i not in r["failures"]:
                    cls = s.finding_class(cases[i], "panic", rep)
                    if cls is not None and cls in known:
                        known_hits.setdefault(cls, (s, cases[i], "panic"))
                    else:
                        violations.append((s, cases[i], "implementation panicked: " + rep["panic"][:300], rep, r["model"].get(i)))
            ev_suites.append({"suite": s.name, "search": bool(r.get("search")), "cases": len(r["cases"]),
                              "impl_replies": len(r["impl"]), "model_evaluated": len(r["model"]),
                              "mismatches": len(r["mismatches"]), "property_failures": len(r["failures"]),
                              "oracle_s": r["oracle_s"], **r["extra"]})
        # output
        for cls, f in sorted(known.items()):
            if cls in known_hits:
                print("KNOWN-FINDING: property=%s %s" % (pid, f["what"]))
            else:
                ctx.notes.append("known finding %s not reproduced by this run's cases" % cls)
        rc = 0
        replay_path = None
        if violations:
            violations.sort(key=lambda v: len(json.dumps(v[0].show(v[1]))))
            s, c, why, rep, mo = violations[0]
            replay_path = write_replay(pid, seed, {
                "kind": "failing-input", "suite": s.name, "case": c, "why": why,
                "impl": rep, "model": mo,
                "broken": [{"obligation": o, "detail": d} for o, d in broken[:5]],
                "other_failing_cases": len(violations) - 1})
            print("VIOLATION property=%s replay=%s" % (pid, replay_path))
            rc = 1
        elif broken:
            replay_path = write_replay(pid, seed, {
                "kind": "no-failing-input-found",
                "broken": [{"obligation": o, "detail": d} for o, d in broken[:8]],
                "explored": total})
            print("VIOLATION property=%s replay=%s no-failing-input-found" % (pid, replay_path))
            rc = 1
        n_obl = len(obligations) + len(ev_suites)
        discharged = (len(obligations) if ok_b and not hits else 0) + sum(1 for e in ev_suites if e["mismatches"] == 0 and not e["search"])
        trusted = [
            "Coq 8.16.1 kernel (coqc, full .vo build); vm_compute used for witnesses/examples and for evaluating the model in the correspondence; native_compute not used",
            "Print Assumptions: " + "; ".join("%s: %s" % (t, a if isinstance(a, str) else ",".join(a)) for t, a in sorted(assumptions.items())),
            "standard-library axioms used: " + (", ".join(sorted(axioms_used)) or "none"),
            "no Extraction is used by this check (model evaluated inside Coq)",
            "gotrans (harness/cmd/gotrans): " + json.dumps(tinfo)[:300],
            "correspondence harness: lib/vf (python), harness/lib + harness/cmd/* (Go glue, built -tags verif against /repo working tree)",
        ] + list(getattr(mod, "TRUSTED", []))
        ev = {
            "property_id": pid, "tier": tier, "seed": seed, "level": "proof",
            "coverage": {
                "obligations": n_obl, "discharged": discharged,
                "checker_cmd": "make -C /verif/coq -j16 %s  (coqc 8.16.1) + ./check %s --tier %s" % (target, pid, tier),
                "trusted_base": trusted,
                "evaluations": total, "distinct_nontrivial": len(distinct),
                "rule": getattr(mod, "RULE", "cases from the suite generators; non-trivial by the suite's rule; distinct by content"),
                "samples": samples or [{"note": "no cases"}],
                "buckets": buckets, "suites": ev_suites,
                "theorems": mod.THEOREMS, "lemmas_in_closure": obligations[:400],
                "closure_files": files,
                "known_findings_replayed": sorted(known_hits), "fixed_findings": [f.get("what") for f in fixed],
                "broken": [str(b)[:500] for b in broken[:10]],
                "modelled": getattr(mod, "MODELLED", ""),
                "coqchk": coqchk_out,
                "notes": ctx.notes,
            },
            "assumptions": list(getattr(mod, "ASSUMPTIONS", [])),
            "wall_s": round(time.time() - t0, 2),
            "violations": len(violations) + (1 if broken and not violations else 0),
        }
        if replay is None:
            write_evidence(pid, ev)
        else:
            print(json.dumps({"replay_results": [
                {"suite": s.name, "case": s.show(c), "impl": r["impl"].get(c["id"]), "model": r["model"].get(c["id"]),
                 "property_failure": r["failures"].get(c["id"])} for s, r in results for c in r["cases"]]}, indent=1, default=str))
        log("%s %s: %d cases, %d obligations, %d broken, %d violations, %d known, %.1fs" %
            (pid, tier, total, n_obl, len(broken), len(violations), len(known_hits), time.time() - t0))
        return rc
    finally:
        ctx.cleanup()
