"""generator helpers: every random choice comes from the rng passed in"""

GRID = [0, 1, 2, 15, 16, 17, 126, 127, 128, 255, 256, 65535, 65536, 65537,
        2**31 - 1, 2**31, 2**32 - 1, 2**32]


def rbytes(rng, n, alphabet=None):
    if alphabet is None:
        return bytes(rng.randrange(256) for _ in range(n))
    return bytes(rng.choice(alphabet) for _ in range(n))


def rlen(rng, small=8, big=64):
    """mostly small sizes, sometimes larger"""
    r = rng.random()
    if r < 0.1:
        return 0
    if r < 0.7:
        return rng.randrange(1, small + 1)
    return rng.randrange(small, big + 1)


def pick_weighted(rng, table):
    """table: list of (weight, value)"""
    tot = sum(w for w, _ in table)
    x = rng.random() * tot
    for w, v in table:
        x -= w
        if x <= 0:
            return v
    return table[-1][1]


def all_strings(alphabet, maxlen):
    """all byte strings over alphabet with length <= maxlen (small-scope exhaustion)"""
    level = [b""]
    yield b""
    for _ in range(maxlen):
        nxt = []
        for s in level:
            for a in alphabet:
                t = s + bytes([a])
                nxt.append(t)
                yield t
        level = nxt
