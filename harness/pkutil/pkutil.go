// Package pkutil holds the helpers shared by the C34 / C35 / C53 harness
// commands: byte strings described by pieces, chunked readers, digests of long
// byte strings (mirrors Model/PktLine.v o_bytes) and pkt-line error classes.
package pkutil

import (
	"bufio"
	"crypto/sha1"
	"encoding/hex"
	"errors"
	"io"

	"github.com/go-git/go-git/v6/plumbing/format/pktline"

	"verif/harness/lib"
)

// Pieces decodes [{"hex":"…"} | {"rep":[b,n]}] into bytes.
func Pieces(v []any) []byte {
	var out []byte
	for _, x := range v {
		m := lib.AsCase(x)
		if h, ok := m["hex"].(string); ok {
			out = append(out, lib.Unhex(h)...)
			continue
		}
		rep := m.L("rep")
		if len(rep) == 2 {
			b := byte(num(rep[0]))
			n := int(num(rep[1]))
			for i := 0; i < n; i++ {
				out = append(out, b)
			}
		}
	}
	return out
}

func num(x any) int64 {
	c := lib.Case{"v": x}
	return c.I("v")
}

// Ints reads a JSON list of numbers.
func Ints(v []any) []int {
	var r []int
	for _, x := range v {
		r = append(r, int(num(x)))
	}
	return r
}

// ChunkReader delivers data in chunks of the given sizes (then one final
// chunk with the rest), never more than the caller's buffer; the unread part
// of a chunk is delivered by the next Read (Model/PktLine.v chunk_by + take).
type ChunkReader struct {
	data  []byte
	sizes []int
	cur   int
	Reads int
}

func NewChunkReader(data []byte, sizes []int) *ChunkReader {
	return &ChunkReader{data: data, sizes: sizes}
}

func (c *ChunkReader) Remaining() int { return len(c.data) }

func (c *ChunkReader) Read(p []byte) (int, error) {
	c.Reads++
	if len(c.data) == 0 {
		return 0, io.EOF
	}
	if len(p) == 0 {
		return 0, nil
	}
	for c.cur == 0 {
		if len(c.sizes) > 0 {
			c.cur = c.sizes[0]
			c.sizes = c.sizes[1:]
		} else {
			c.cur = len(c.data)
		}
	}
	if c.cur > len(c.data) {
		c.cur = len(c.data)
	}
	n := min(len(p), c.cur)
	copy(p, c.data[:n])
	c.data = c.data[n:]
	c.cur -= n
	return n, nil
}

func adler(b []byte) uint64 {
	x, y := uint64(1), uint64(0)
	for _, c := range b {
		x = (x + uint64(c)) % 65521
		y = (y + x) % 65521
	}
	return y*65536 + x
}

// OBytes mirrors o_bytes: short strings verbatim, long ones by digest.
func OBytes(b []byte) lib.Out {
	if len(b) <= 64 {
		return lib.Bytes(b)
	}
	return lib.List(lib.Sym("big"), lib.Int(int64(len(b))), lib.Bytes(b[:16]), lib.Bytes(b[len(b)-16:]), lib.Uint(adler(b)))
}

func Sha(b []byte) string {
	h := sha1.Sum(b)
	return hex.EncodeToString(h[:])
}

func ascii(b []byte) bool {
	for _, c := range b {
		if c >= 0x80 {
			return false
		}
	}
	return true
}

// PErr classifies an error of the pkt-line layer (o_perr); payload is the
// packet payload when the caller has it (ErrorLine text is only projected for
// ASCII payloads).
func PErr(err error, payload []byte, withText bool) lib.Out {
	var el *pktline.ErrorLine
	switch {
	case err == nil:
		return lib.Sym("nil")
	case errors.As(err, &el):
		if !withText {
			return lib.Sym("errline")
		}
		if !ascii(payload) {
			return lib.Sym("errline_nonascii")
		}
		return lib.List(lib.Sym("errline"), lib.Bytes([]byte(el.Text)))
	case errors.Is(err, io.ErrUnexpectedEOF):
		return lib.Sym("unexpected_eof")
	case errors.Is(err, io.EOF):
		return lib.Sym("eof")
	case errors.Is(err, pktline.ErrInvalidPktLen):
		return lib.Sym("invalid_pktlen")
	case errors.Is(err, bufio.ErrBufferFull):
		return lib.Sym("buffer_full")
	}
	return lib.Sym("other")
}

// PErrName is PErr as a plain class name for oracles.
func PErrName(err error) string {
	return lib.Render(PErr(err, nil, false))
}
