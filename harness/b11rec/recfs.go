// Package b11rec is a recording billy.Filesystem wrapper: every mutating
// filesystem call made by the code under test (create / truncating open,
// temp file, write, truncate, rename, remove, mkdir, chmod, symlink) is
// appended to a log, with the data written, so that any prefix of the
// mutation sequence — optionally with a torn last write — can be
// materialised again in another directory.  No change to go-git is needed.
package b11rec

import (
	gofs "io/fs"
	"io"
	"os"
	"path/filepath"
	"sync"

	"github.com/go-git/go-billy/v6"
)

// Event is one recorded mutation.
type Event struct {
	Op    string // tempfile create write truncate rename remove mkdir chmod symlink
	H     int    // file handle number (tempfile/create/write/truncate)
	Path  string // relative to the recorded root
	Path2 string // rename target / symlink target
	Flag  int
	Perm  gofs.FileMode
	Off   int64
	Data  []byte
	Size  int64
}

type Rec struct {
	mu     sync.Mutex
	Events []Event
	next   int
	On     bool
}

func (r *Rec) add(e Event) {
	r.mu.Lock()
	defer r.mu.Unlock()
	if r.On {
		r.Events = append(r.Events, e)
	}
}

func (r *Rec) handle() int {
	r.mu.Lock()
	defer r.mu.Unlock()
	r.next++
	return r.next
}

// FS wraps a billy filesystem; rel is the position of this (chrooted)
// filesystem below the recorded root.
type FS struct {
	billy.Filesystem
	rec *Rec
	rel string
}

func New(fs billy.Filesystem, rec *Rec) *FS { return &FS{fs, rec, ""} }

func (f *FS) p(name string) string { return filepath.Join(f.rel, name) }

func (f *FS) Capabilities() billy.Capability { return billy.Capabilities(f.Filesystem) }

func (f *FS) Chroot(p string) (billy.Filesystem, error) {
	c, err := f.Filesystem.Chroot(p)
	if err != nil {
		return nil, err
	}
	return &FS{c, f.rec, f.p(p)}, nil
}

func (f *FS) Create(name string) (billy.File, error) {
	return f.OpenFile(name, os.O_RDWR|os.O_CREATE|os.O_TRUNC, 0o666)
}

func (f *FS) OpenFile(name string, flag int, perm gofs.FileMode) (billy.File, error) {
	writable := flag&(os.O_WRONLY|os.O_RDWR|os.O_APPEND|os.O_CREATE|os.O_TRUNC) != 0
	if !writable {
		return f.Filesystem.OpenFile(name, flag, perm)
	}
	_, statErr := f.Filesystem.Lstat(name)
	bf, err := f.Filesystem.OpenFile(name, flag, perm)
	if err != nil {
		return nil, err
	}
	h := f.rec.handle()
	mutates := flag&os.O_TRUNC != 0 || (flag&os.O_CREATE != 0 && statErr != nil)
	op := "open"
	if mutates {
		op = "create"
	}
	f.rec.add(Event{Op: op, H: h, Path: f.p(name), Flag: flag, Perm: perm})
	var off int64
	if flag&os.O_APPEND != 0 {
		if fi, err := f.Filesystem.Stat(name); err == nil {
			off = fi.Size()
		}
	}
	return &file_{File: bf, rec: f.rec, h: h, path: f.p(name), off: off, app: flag&os.O_APPEND != 0}, nil
}

func (f *FS) TempFile(dir, prefix string) (billy.File, error) {
	bf, err := f.Filesystem.TempFile(dir, prefix)
	if err != nil {
		return nil, err
	}
	h := f.rec.handle()
	f.rec.add(Event{Op: "tempfile", H: h, Path: f.p(bf.Name()), Path2: prefix})
	return &file_{bf, f.rec, h, f.p(bf.Name()), 0, false}, nil
}

func (f *FS) Rename(from, to string) error {
	err := f.Filesystem.Rename(from, to)
	if err == nil {
		f.rec.add(Event{Op: "rename", Path: f.p(from), Path2: f.p(to)})
	}
	return err
}

func (f *FS) Remove(name string) error {
	err := f.Filesystem.Remove(name)
	if err == nil {
		f.rec.add(Event{Op: "remove", Path: f.p(name)})
	}
	return err
}

func (f *FS) MkdirAll(name string, perm gofs.FileMode) error {
	_, statErr := f.Filesystem.Lstat(name)
	err := f.Filesystem.MkdirAll(name, perm)
	if err == nil && statErr != nil {
		f.rec.add(Event{Op: "mkdir", Path: f.p(name), Perm: perm})
	}
	return err
}

func (f *FS) Symlink(target, link string) error {
	err := f.Filesystem.Symlink(target, link)
	if err == nil {
		f.rec.add(Event{Op: "symlink", Path: f.p(link), Path2: target})
	}
	return err
}

func (f *FS) Chmod(name string, mode gofs.FileMode) error {
	c, ok := f.Filesystem.(billy.Chmod)
	if !ok {
		return billy.ErrNotSupported
	}
	err := c.Chmod(name, mode)
	if err == nil {
		f.rec.add(Event{Op: "chmod", Path: f.p(name), Perm: mode})
	}
	return err
}

type file_ struct {
	billy.File
	rec  *Rec
	h    int
	path string
	off  int64
	app  bool
}

func (f *file_) Write(p []byte) (int, error) {
	n, err := f.File.Write(p)
	if n > 0 {
		f.rec.add(Event{Op: "write", H: f.h, Path: f.path, Off: f.off, Data: append([]byte(nil), p[:n]...)})
		f.off += int64(n)
	}
	return n, err
}

func (f *file_) WriteAt(p []byte, off int64) (int, error) {
	n, err := f.File.WriteAt(p, off)
	if n > 0 {
		f.rec.add(Event{Op: "write", H: f.h, Path: f.path, Off: off, Data: append([]byte(nil), p[:n]...)})
	}
	return n, err
}

func (f *file_) Read(p []byte) (int, error) {
	n, err := f.File.Read(p)
	f.off += int64(n)
	return n, err
}

func (f *file_) Seek(offset int64, whence int) (int64, error) {
	p, err := f.File.Seek(offset, whence)
	if err == nil {
		f.off = p
	}
	return p, err
}

func (f *file_) Truncate(size int64) error {
	err := f.File.Truncate(size)
	if err == nil {
		f.rec.add(Event{Op: "truncate", H: f.h, Path: f.path, Size: size})
	}
	return err
}

func (f *file_) Lock() error {
	if l, ok := f.File.(billy.Locker); ok {
		return l.Lock()
	}
	return nil
}

func (f *file_) Unlock() error {
	if l, ok := f.File.(billy.Locker); ok {
		return l.Unlock()
	}
	return nil
}

func (f *file_) Sync() error {
	if s, ok := f.File.(billy.Syncer); ok {
		return s.Sync()
	}
	return nil
}

// ---- replay ----

// Replayer applies recorded events to a directory, one at a time.
type Replayer struct {
	Dir   string
	files map[int]*os.File
}

func NewReplayer(dir string) *Replayer { return &Replayer{Dir: dir, files: map[int]*os.File{}} }

func (r *Replayer) abs(p string) string { return filepath.Join(r.Dir, p) }

// Apply applies e; for a write event only data[from:to] is written.
func (r *Replayer) Apply(e Event, from, to int) error {
	switch e.Op {
	case "tempfile":
		os.MkdirAll(filepath.Dir(r.abs(e.Path)), 0o755)
		f, err := os.OpenFile(r.abs(e.Path), os.O_RDWR|os.O_CREATE|os.O_EXCL, 0o600)
		if err != nil {
			return err
		}
		r.files[e.H] = f
	case "create", "open":
		os.MkdirAll(filepath.Dir(r.abs(e.Path)), 0o755)
		f, err := os.OpenFile(r.abs(e.Path), e.Flag&^os.O_EXCL, 0o666)
		if err != nil {
			return err
		}
		r.files[e.H] = f
	case "write":
		f := r.files[e.H]
		if f == nil {
			return os.ErrInvalid
		}
		_, err := f.WriteAt(e.Data[from:to], e.Off+int64(from))
		return err
	case "truncate":
		f := r.files[e.H]
		if f == nil {
			return os.ErrInvalid
		}
		return f.Truncate(e.Size)
	case "rename":
		os.MkdirAll(filepath.Dir(r.abs(e.Path2)), 0o755)
		return os.Rename(r.abs(e.Path), r.abs(e.Path2))
	case "remove":
		return os.Remove(r.abs(e.Path))
	case "mkdir":
		return os.MkdirAll(r.abs(e.Path), 0o755)
	case "chmod":
		return os.Chmod(r.abs(e.Path), e.Perm)
	case "symlink":
		return os.Symlink(e.Path2, r.abs(e.Path))
	}
	return nil
}

func (r *Replayer) Close() {
	for _, f := range r.files {
		f.Close()
	}
}

// CopyTree copies a directory tree (regular files, directories, symlinks).
func CopyTree(src, dst string) error {
	return filepath.Walk(src, func(p string, fi os.FileInfo, err error) error {
		if err != nil {
			return err
		}
		rel, _ := filepath.Rel(src, p)
		t := filepath.Join(dst, rel)
		switch {
		case fi.IsDir():
			return os.MkdirAll(t, 0o755)
		case fi.Mode()&os.ModeSymlink != 0:
			l, err := os.Readlink(p)
			if err != nil {
				return err
			}
			return os.Symlink(l, t)
		default:
			in, err := os.Open(p)
			if err != nil {
				return err
			}
			defer in.Close()
			out, err := os.OpenFile(t, os.O_WRONLY|os.O_CREATE|os.O_TRUNC, fi.Mode().Perm()|0o200)
			if err != nil {
				return err
			}
			_, err = io.Copy(out, in)
			out.Close()
			if err == nil {
				os.Chtimes(t, fi.ModTime(), fi.ModTime())
				os.Chmod(t, fi.Mode().Perm())
			}
			return err
		}
	})
}
