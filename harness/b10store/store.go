// Package b10store is the implementation-side interpreter of the abstract
// storer API used by the C17 / C19 / C39 correspondences: a case names a small
// universe of reference names and objects, and a list of API calls; each call
// is executed on a storage.Storer and answered as a canonical observable
// (mirrors coq/theories/Spec/AStore.v o_res / o_store).
package b10store

import (
	"bytes"
	_ "crypto/sha256"
	"encoding/hex"
	"errors"
	"fmt"
	"io"
	"os"
	"sort"
	"strconv"
	"strings"
	"time"

	"github.com/go-git/go-billy/v6"
	"github.com/go-git/go-billy/v6/memfs"
	"github.com/go-git/go-billy/v6/osfs"

	"github.com/go-git/go-git/v6/config"
	"github.com/go-git/go-git/v6/plumbing"
	"github.com/go-git/go-git/v6/plumbing/cache"
	"github.com/go-git/go-git/v6/plumbing/filemode"
	formatcfg "github.com/go-git/go-git/v6/plumbing/format/config"
	"github.com/go-git/go-git/v6/plumbing/format/index"
	"github.com/go-git/go-git/v6/plumbing/format/packfile"
	"github.com/go-git/go-git/v6/plumbing/format/reflog"
	"github.com/go-git/go-git/v6/plumbing/storer"
	"github.com/go-git/go-git/v6/storage"
	"github.com/go-git/go-git/v6/storage/filesystem"
	"github.com/go-git/go-git/v6/storage/filesystem/dotgit"
	"github.com/go-git/go-git/v6/storage/memory"

	"verif/harness/lib"
)

// Universe is the small world of one case.
type Universe struct {
	Names  []string
	Types  []plumbing.ObjectType
	Bodies [][]byte
	Hashes []plumbing.Hash
	byHash map[plumbing.Hash]int
	byName map[string]int
	Format formatcfg.ObjectFormat
}

// NewUniverse reads "names" and "objs" ([[type, hexbody], ...]) of a case.
func NewUniverse(c lib.Case, format formatcfg.ObjectFormat) *Universe {
	u := &Universe{byHash: map[plumbing.Hash]int{}, byName: map[string]int{}, Format: format}
	for i, n := range c.SL("names") {
		u.Names = append(u.Names, n)
		u.byName[n] = i
	}
	oh := plumbing.FromObjectFormat(format)
	for i, x := range c.L("objs") {
		p, _ := x.([]any)
		t := plumbing.ObjectType(int8(num(p[0])))
		s, _ := p[1].(string)
		body := lib.Unhex(s)
		o := plumbing.NewMemoryObject(oh)
		o.SetType(t)
		o.Write(body)
		u.Types = append(u.Types, t)
		u.Bodies = append(u.Bodies, body)
		u.Hashes = append(u.Hashes, o.Hash())
		u.byHash[o.Hash()] = i
	}
	return u
}

func num(x any) int64 {
	switch v := x.(type) {
	case float64:
		return int64(v)
	case interface{ Int64() (int64, error) }:
		n, _ := v.Int64()
		return n
	case string:
		n, _ := strconv.ParseInt(v, 10, 64)
		return n
	}
	return 0
}

// Obj builds a fresh EncodedObject for universe object k.
func (u *Universe) Obj(k int) plumbing.EncodedObject {
	o := plumbing.NewMemoryObject(plumbing.FromObjectFormat(u.Format))
	o.SetType(u.Types[k])
	o.Write(u.Bodies[k])
	return o
}

// Hash returns the id of universe object k (ids outside the universe map to
// a fixed non-zero dummy so that a dangling value can still be expressed).
func (u *Universe) Hash(k int) plumbing.Hash {
	if k >= 0 && k < len(u.Hashes) {
		return u.Hashes[k]
	}
	return plumbing.NewHash(fmt.Sprintf("%040x", 0xdead0000+k))
}

// IdxOf maps an object id back to its universe index (dangling ids included).
func (u *Universe) IdxOf(h plumbing.Hash) (int, bool) {
	if i, ok := u.byHash[h]; ok {
		return i, true
	}
	for k := len(u.Hashes); k < len(u.Hashes)+8; k++ {
		if u.Hash(k) == h {
			return k, true
		}
	}
	return 0, false
}

// compact observables (mirrors Spec/AStore.v o_res): every result is one symbol
//   ok | e<class> | h<k> / s<n> | L(_<name><h|s><k>)* | n<k> | o<k>_<t>_<sz> | I(_<k>)* | Q(_<k>)*
// anything outside the universe is spelled out with an X marker so that it can
// never coincide with a model observable.
func (u *Universe) hashIdx(h plumbing.Hash) string {
	if i, ok := u.IdxOf(h); ok {
		return strconv.Itoa(i)
	}
	return "Xhash" + h.String()
}

func (u *Universe) nameIdx(n string) string {
	if i, ok := u.byName[n]; ok {
		return strconv.Itoa(i)
	}
	return "Xname" + hex.EncodeToString([]byte(n))
}

// Ref builds the reference (name index, value) where value is ["h",k] or ["s",n].
func (u *Universe) Ref(n int, v any) *plumbing.Reference {
	p, _ := v.([]any)
	kind, _ := p[0].(string)
	if kind == "s" {
		return plumbing.NewSymbolicReference(plumbing.ReferenceName(u.Names[n]), plumbing.ReferenceName(u.Names[num(p[1])]))
	}
	return plumbing.NewHashReference(plumbing.ReferenceName(u.Names[n]), u.Hash(int(num(p[1]))))
}

func (u *Universe) refval(r *plumbing.Reference) string {
	if r.Type() == plumbing.SymbolicReference {
		return "s" + u.nameIdx(string(r.Target()))
	}
	return "h" + u.hashIdx(r.Hash())
}

// ErrClass maps an error of the storer API to the model's error classes.
func ErrClass(err error) lib.Out {
	switch {
	case errors.Is(err, plumbing.ErrReferenceNotFound):
		return lib.Sym("eNF")
	case errors.Is(err, storage.ErrReferenceHasChanged):
		return lib.Sym("eCH")
	case errors.Is(err, plumbing.ErrObjectNotFound):
		return lib.Sym("eON")
	case errors.Is(err, dotgit.ErrEmptyRefFile):
		return lib.Sym("eEF")
	case errors.Is(err, dotgit.ErrPackedRefsBadFormat):
		return lib.Sym("ePB")
	case errors.Is(err, memory.ErrUnsupportedObjectType), errors.Is(err, plumbing.ErrInvalidType):
		return lib.Sym("eIT")
	}
	return lib.Sym("eOT")
}

// ---------------------------------------------------------------- values

// Index i: the empty index for 0, else one entry named f<i>.
func (u *Universe) Index(i int) *index.Index {
	idx := &index.Index{Version: 2}
	if i > 0 {
		idx.Entries = append(idx.Entries, &index.Entry{
			Name: "f" + strconv.Itoa(i), Mode: filemode.Regular, Hash: u.Hash(0),
			CreatedAt: time.Unix(1700000000, 0), ModifiedAt: time.Unix(1700000000, 0),
		})
	}
	return idx
}

func indexVal(idx *index.Index) lib.Out {
	if idx == nil {
		return lib.Sym("nXnil")
	}
	if len(idx.Entries) == 0 {
		return lib.Sym("n0")
	}
	if len(idx.Entries) == 1 && strings.HasPrefix(idx.Entries[0].Name, "f") {
		if n, err := strconv.Atoi(idx.Entries[0].Name[1:]); err == nil {
			return lib.Sym("n" + strconv.Itoa(n))
		}
	}
	return lib.Sym("nXentries" + strconv.Itoa(len(idx.Entries)))
}

// Config c: the default config for 0, else user.name = u<c>.  The base
// config is taken from the storer so that object-format settings survive.
func cfgWith(base *config.Config, c int) *config.Config {
	cfg := config.NewConfig()
	if base != nil {
		cfg.Core = base.Core
		cfg.Extensions = base.Extensions
	}
	if c > 0 {
		cfg.User.Name = "u" + strconv.Itoa(c)
	}
	return cfg
}

func cfgVal(cfg *config.Config) lib.Out {
	if cfg == nil {
		return lib.Sym("nXnil")
	}
	if cfg.User.Name == "" {
		return lib.Sym("n0")
	}
	if strings.HasPrefix(cfg.User.Name, "u") {
		if n, err := strconv.Atoi(cfg.User.Name[1:]); err == nil {
			return lib.Sym("n" + strconv.Itoa(n))
		}
	}
	return lib.Sym("nXuser" + hex.EncodeToString([]byte(cfg.User.Name)))
}

func (u *Universe) logEntry(e int) *reflog.Entry {
	return &reflog.Entry{
		OldHash: plumbing.ZeroHash, NewHash: u.Hash(0),
		Committer: reflog.Signature{Name: "v", Email: "v@example.org", When: time.Unix(1700000000, 0).UTC()},
		Message:   "m" + strconv.Itoa(e),
	}
}

func logVal(e *reflog.Entry) string {
	if e != nil && strings.HasPrefix(e.Message, "m") {
		if n, err := strconv.Atoi(e.Message[1:]); err == nil {
			return strconv.Itoa(n)
		}
	}
	return "Xentry"
}

// ---------------------------------------------------------------- listings

func join(prefix string, parts []string) lib.Out {
	var b strings.Builder
	b.WriteString(prefix)
	for _, p := range parts {
		b.WriteByte('_')
		b.WriteString(p)
	}
	return lib.Sym(b.String())
}

func (u *Universe) refList(it storer.ReferenceIter, err error) lib.Out {
	if err != nil {
		return ErrClass(err)
	}
	type ent struct {
		n    int
		code int64
		o    string
	}
	var l []ent
	err = it.ForEach(func(r *plumbing.Reference) error {
		n, ok := u.byName[string(r.Name())]
		if !ok {
			n = 1 << 20
		}
		var code int64
		if r.Type() == plumbing.SymbolicReference {
			code = 2*int64(u.byName[string(r.Target())]) + 1
		} else {
			k, _ := u.IdxOf(r.Hash())
			code = 2 * int64(k)
		}
		l = append(l, ent{n, code, u.nameIdx(string(r.Name())) + u.refval(r)})
		return nil
	})
	if err != nil {
		return ErrClass(err)
	}
	sort.SliceStable(l, func(i, j int) bool {
		if l[i].n != l[j].n {
			return l[i].n < l[j].n
		}
		return l[i].code < l[j].code
	})
	outs := make([]string, len(l))
	for i := range l {
		outs[i] = l[i].o
	}
	return join("L", outs)
}

func (u *Universe) objList(it storer.EncodedObjectIter, err error) lib.Out {
	if err != nil {
		return ErrClass(err)
	}
	var ids []int
	var unknown int
	err = it.ForEach(func(o plumbing.EncodedObject) error {
		if i, ok := u.byHash[o.Hash()]; ok {
			ids = append(ids, i)
		} else {
			unknown++
		}
		return nil
	})
	if err != nil {
		return ErrClass(err)
	}
	sort.Ints(ids)
	outs := make([]string, 0, len(ids))
	for _, i := range ids {
		outs = append(outs, strconv.Itoa(i))
	}
	for i := 0; i < unknown; i++ {
		outs = append(outs, "Xunknown")
	}
	return join("I", outs)
}

func (u *Universe) hashSeq(hs []plumbing.Hash, err error) lib.Out {
	if err != nil {
		return ErrClass(err)
	}
	outs := make([]string, len(hs))
	for i, h := range hs {
		outs[i] = u.hashIdx(h)
	}
	return join("Q", outs)
}

func logSeq(es []*reflog.Entry, err error) lib.Out {
	if err != nil {
		return ErrClass(err)
	}
	outs := make([]string, len(es))
	for i, e := range es {
		outs[i] = logVal(e)
	}
	return join("Q", outs)
}

func okOr(err error) lib.Out {
	if err != nil {
		return ErrClass(err)
	}
	return lib.Sym("ok")
}

// ---------------------------------------------------------------- one call

// Step executes one API call (a JSON array, first element the call name).
func (u *Universe) Step(st storage.Storer, op []any) lib.Out {
	name, _ := op[0].(string)
	i := func(k int) int { return int(num(op[k])) }
	rn := func(k int) plumbing.ReferenceName { return plumbing.ReferenceName(u.Names[i(k)]) }
	switch name {
	case "setref":
		return okOr(st.SetReference(u.Ref(i(1), op[2])))
	case "cas":
		return okOr(st.CheckAndSetReference(u.Ref(i(1), op[2]), u.Ref(i(3), op[4])))
	case "casnil":
		return okOr(st.CheckAndSetReference(u.Ref(i(1), op[2]), nil))
	case "getref":
		r, err := st.Reference(rn(1))
		if err != nil {
			return ErrClass(err)
		}
		return lib.Sym(u.refval(r))
	case "iterrefs":
		return u.refList(st.IterReferences())
	case "delref":
		return okOr(st.RemoveReference(rn(1)))
	case "packrefs":
		return okOr(st.PackRefs())
	case "setobj":
		h, err := st.SetEncodedObject(u.Obj(i(1)))
		if err != nil {
			return ErrClass(err)
		}
		return lib.Sym("n" + u.hashIdx(h))
	case "addpack":
		// a packfile holding the listed objects, through packfile.UpdateObjectStorage
		l, _ := op[1].([]any)
		src := memory.NewStorage(memory.WithObjectFormat(u.Format))
		var hs []plumbing.Hash
		for _, x := range l {
			h, err := src.SetEncodedObject(u.Obj(int(num(x))))
			if err != nil {
				panic(err)
			}
			hs = append(hs, h)
		}
		var buf bytes.Buffer
		if _, err := packfile.NewEncoder(&buf, src, false).Encode(hs, 10); err != nil {
			panic(err)
		}
		return okOr(packfile.UpdateObjectStorage(st, &buf))
	case "hasobj":
		return okOr(st.HasEncodedObject(u.Hash(i(1))))
	case "sizeobj":
		sz, err := st.EncodedObjectSize(u.Hash(i(1)))
		if err != nil {
			return ErrClass(err)
		}
		return lib.Sym("n" + strconv.FormatInt(sz, 10))
	case "getobj":
		o, err := st.EncodedObject(qtype(i(1)), u.Hash(i(2)))
		if err != nil {
			return ErrClass(err)
		}
		// the content is part of the observable: it must be the universe's body
		rd, err := o.Reader()
		if err != nil {
			return lib.Sym("eXreader")
		}
		body, err := io.ReadAll(rd)
		rd.Close()
		if err != nil {
			return lib.Sym("eXread")
		}
		k, ok := u.byHash[o.Hash()]
		if !ok || string(body) != string(u.Bodies[k]) {
			return lib.Sym("eXwrongcontent")
		}
		return lib.Sym(fmt.Sprintf("o%d_%d_%d", k, int(o.Type()), o.Size()))
	case "iterobjs":
		return u.objList(st.IterEncodedObjects(qtype(i(1))))
	case "setidx":
		return okOr(st.SetIndex(u.Index(i(1))))
	case "getidx":
		idx, err := st.Index()
		if err != nil {
			return ErrClass(err)
		}
		return indexVal(idx)
	case "setcfg":
		base, _ := st.Config()
		return okOr(st.SetConfig(cfgWith(base, i(1))))
	case "getcfg":
		cfg, err := st.Config()
		if err != nil {
			return ErrClass(err)
		}
		return cfgVal(cfg)
	case "setshallow":
		l, _ := op[1].([]any)
		hs := make([]plumbing.Hash, 0, len(l))
		for _, x := range l {
			hs = append(hs, u.Hash(int(num(x))))
		}
		return okOr(st.SetShallow(hs))
	case "getshallow":
		return u.hashSeq(st.Shallow())
	case "applog":
		rs, ok := st.(storer.ReflogStorer)
		if !ok {
			return lib.Sym("eXnoreflog")
		}
		return okOr(rs.AppendReflog(rn(1), u.logEntry(i(2))))
	case "getlog":
		rs, ok := st.(storer.ReflogStorer)
		if !ok {
			return lib.Sym("eXnoreflog")
		}
		return logSeq(rs.Reflog(rn(1)))
	case "dellog":
		rs, ok := st.(storer.ReflogStorer)
		if !ok {
			return lib.Sym("eXnoreflog")
		}
		return okOr(rs.DeleteReflog(rn(1)))
	}
	panic("b10store: unknown op " + name)
}

func qtype(t int) plumbing.ObjectType {
	if t == 0 {
		return plumbing.AnyObject
	}
	return plumbing.ObjectType(int8(t))
}

// Run executes a list of calls and returns the list of results.
func (u *Universe) Run(st storage.Storer, ops []any) lib.Out {
	outs := make([]lib.Out, 0, len(ops))
	for _, o := range ops {
		outs = append(outs, u.Step(st, o.([]any)))
	}
	return lib.List(outs...)
}

// RefsListing is the canonical listing of all references of a storer.
func (u *Universe) RefsListing(st storage.Storer) lib.Out { return u.refList(st.IterReferences()) }

// ObjsListing is the canonical listing of all objects of a storer.
func (u *Universe) ObjsListing(st storage.Storer) lib.Out {
	return u.objList(st.IterEncodedObjects(plumbing.AnyObject))
}

// Snapshot reads the whole observable state of a storer (o_store in Coq).
func (u *Universe) Snapshot(st storage.Storer) lib.Out {
	idx, err := st.Index()
	var io_ lib.Out = indexVal(idx)
	if err != nil {
		io_ = ErrClass(err)
	}
	cfg, err := st.Config()
	var co lib.Out = cfgVal(cfg)
	if err != nil {
		co = ErrClass(err)
	}
	var logs []lib.Out
	if rs, ok := st.(storer.ReflogStorer); ok {
		for n := range u.Names {
			es, err := rs.Reflog(plumbing.ReferenceName(u.Names[n]))
			if err != nil {
				logs = append(logs, lib.Sym("G"+strconv.Itoa(n)+"_Xerr"))
				continue
			}
			if len(es) == 0 {
				continue
			}
			var l []string
			for _, e := range es {
				l = append(l, logVal(e))
			}
			logs = append(logs, join("G"+strconv.Itoa(n), l))
		}
	}
	return lib.List(
		u.refList(st.IterReferences()),
		u.objList(st.IterEncodedObjects(plumbing.AnyObject)),
		io_, co,
		u.hashSeq(st.Shallow()),
		lib.List(logs...),
	)
}

// ---------------------------------------------------------------- backends

// Backend describes how to build a storer: "memory", "memfs", "osfs",
// optionally followed by option letters after a colon:
//   x ExclusiveAccess, i UseInMemoryIdx, l LargeObjectThreshold=1, c no object cache (size 0),
//   2 sha256
type Backend struct {
	Kind string
	Opts string
	Dir  string // osfs: directory to remove afterwards
	fs   billy.Filesystem
	fo   filesystem.Options
}

func (b *Backend) newCache() cache.Object {
	if strings.Contains(b.Opts, "c") {
		return cache.NewObjectLRU(0)
	}
	return cache.NewObjectLRUDefault()
}

// Reopen closes a filesystem storer and opens a new one on the same files
// (a no-op for the memory backend, which has no persistent form).
func (b *Backend) Reopen(st storage.Storer) storage.Storer {
	if b.fs == nil {
		return st
	}
	if c, ok := st.(io.Closer); ok {
		c.Close()
	}
	return filesystem.NewStorageWithOptions(b.fs, b.newCache(), b.fo)
}

// Open builds a storer for the backend spec.
func Open(spec string) (storage.Storer, *Backend, error) {
	kind, opts, _ := strings.Cut(spec, ":")
	b := &Backend{Kind: kind, Opts: opts}
	format := formatcfg.SHA1
	if strings.Contains(opts, "2") {
		format = formatcfg.SHA256
	}
	if kind == "memory" {
		if format == formatcfg.SHA256 {
			return memory.NewStorage(memory.WithObjectFormat(format)), b, nil
		}
		return memory.NewStorage(), b, nil
	}
	var fs billy.Filesystem
	switch kind {
	case "memfs":
		fs = memfs.New()
	case "osfs":
		d, err := os.MkdirTemp("", "verif-b10-")
		if err != nil {
			return nil, nil, err
		}
		b.Dir = d
		fs = osfs.New(d)
	default:
		return nil, nil, fmt.Errorf("unknown backend %q", kind)
	}
	o := filesystem.Options{ObjectFormat: format}
	if strings.Contains(opts, "x") {
		o.ExclusiveAccess = true
	}
	if strings.Contains(opts, "i") {
		o.UseInMemoryIdx = true
	}
	if strings.Contains(opts, "l") {
		o.LargeObjectThreshold = 1
	}
	b.fs, b.fo = fs, o
	return filesystem.NewStorageWithOptions(fs, b.newCache(), o), b, nil
}

// Format is the object format selected by a backend spec.
func Format(spec string) formatcfg.ObjectFormat {
	_, opts, _ := strings.Cut(spec, ":")
	if strings.Contains(opts, "2") {
		return formatcfg.SHA256
	}
	return formatcfg.SHA1
}

// Close releases the storer and removes a temporary directory.
func (b *Backend) Close(st storage.Storer) {
	if c, ok := st.(io.Closer); ok {
		c.Close()
	}
	if b.Dir != "" {
		os.RemoveAll(b.Dir)
	}
}
