// Package c02lib: shared glue of the C02/C03 harness commands (commit/tag
// field rendering and construction from case fields).
package c02lib

import (
	"errors"
	"io"
	"time"

	"github.com/go-git/go-git/v6/plumbing"
	"github.com/go-git/go-git/v6/plumbing/object"

	"verif/harness/lib"
)

// Mem builds an in-memory encoded object of type t holding raw.
func Mem(t plumbing.ObjectType, raw []byte) *plumbing.MemoryObject {
	o := &plumbing.MemoryObject{}
	o.SetType(t)
	o.Write(raw)
	return o
}

// Content returns the bytes of an encoded object.
func Content(o plumbing.EncodedObject) []byte {
	r, err := o.Reader()
	if err != nil {
		panic(err)
	}
	defer r.Close()
	b, err := io.ReadAll(r)
	if err != nil {
		panic(err)
	}
	return b
}

// ErrClass maps decoder errors to the model's error enum.
func ErrClass(err error) lib.Out {
	switch {
	case errors.Is(err, object.ErrMalformedCommit), errors.Is(err, object.ErrMalformedTag):
		return lib.Err("malformed")
	case errors.Is(err, plumbing.ErrInvalidType):
		return lib.Err("invalid_type")
	case errors.Is(err, object.ErrUnsupportedObject):
		return lib.Err("unsupported")
	}
	return lib.Err("other")
}

// Ident renders a Signature as ( name email unix zone ) with zone the
// "-0700" rendering used by Encode and by signatureEqual.
func Ident(s object.Signature) lib.Out {
	return lib.List(lib.Str(s.Name), lib.Str(s.Email), lib.Int(s.When.Unix()), lib.Str(s.When.Format("-0700")))
}

func Hash(h plumbing.Hash) lib.Out { return lib.Bytes(h.Bytes()) }

// CommitFields renders the exported fields of a commit (not Hash).
func CommitFields(c *object.Commit) lib.Out {
	ps := []lib.Out{}
	for _, p := range c.ParentHashes {
		ps = append(ps, Hash(p))
	}
	xs := []lib.Out{}
	for _, x := range c.ExtraHeaders {
		xs = append(xs, lib.List(lib.Str(x.Key), lib.Str(x.Value)))
	}
	return lib.List(Hash(c.TreeHash), lib.List(ps...), Ident(c.Author), Ident(c.Committer),
		lib.Str(string(c.Encoding)), lib.List(xs...), lib.Str(c.Signature), lib.Str(c.SignatureSHA256), lib.Str(c.Message))
}

// TagFields renders the exported fields of a tag (not Hash).
func TagFields(t *object.Tag) lib.Out {
	return lib.List(Hash(t.Target), lib.Str(t.TargetType.String()), lib.Str(t.Name), Ident(t.Tagger),
		lib.Str(t.SignatureSHA256), lib.Str(t.Message), lib.Str(t.Signature))
}

// MkIdent builds a Signature from a case object {name,email,ts,tz} (hex, hex,
// unix seconds, zone offset in minutes); {"zero":true} gives the zero value.
func MkIdent(c lib.Case) object.Signature {
	if c == nil || c.Bool("zero") {
		return object.Signature{}
	}
	return object.Signature{Name: string(c.B("name")), Email: string(c.B("email")),
		When: time.Unix(c.I("ts"), 0).In(time.FixedZone("", int(c.I("tz"))*60))}
}

func MkHash(hexs string) plumbing.Hash {
	h, ok := plumbing.FromHex(hexs)
	if !ok {
		panic("bad hash in case")
	}
	return h
}

// MkCommit builds a commit from case fields.
func MkCommit(c lib.Case) *object.Commit {
	r := &object.Commit{TreeHash: MkHash(c.S("tree")), Author: MkIdent(c.M("author")), Committer: MkIdent(c.M("committer")),
		Encoding: object.MessageEncoding(c.B("enc")), Signature: string(c.B("sig")), SignatureSHA256: string(c.B("sig256")),
		Message: string(c.B("msg"))}
	for _, p := range c.SL("parents") {
		r.ParentHashes = append(r.ParentHashes, MkHash(p))
	}
	for _, x := range c.L("extras") {
		kv, _ := x.([]any)
		k, _ := kv[0].(string)
		v, _ := kv[1].(string)
		r.ExtraHeaders = append(r.ExtraHeaders, object.ExtraHeader{Key: string(lib.Unhex(k)), Value: string(lib.Unhex(v))})
	}
	return r
}

// MkTag builds a tag from case fields.
func MkTag(c lib.Case) *object.Tag {
	tt, err := plumbing.ParseObjectType(c.S("type"))
	if err != nil {
		panic("bad type in case")
	}
	return &object.Tag{Target: MkHash(c.S("target")), TargetType: tt, Name: string(c.B("name")), Tagger: MkIdent(c.M("tagger")),
		SignatureSHA256: string(c.B("sig256")), Message: string(c.B("msg")), Signature: string(c.B("sig"))}
}
