// Package porc builds scratch repositories from recipes with the git binary
// and snapshots them through go-git and through git (suites C27 C28 C33).
//
// A recipe gives the three flattened path maps directly:
//
//	head  : entries of the HEAD commit            {p, m, c}
//	index : entries of the staging area           {p, m, c, f}   f: "" | "ita" | "skip"
//	wt    : files of the working tree             {p, m, c, t}   t: "" | "touch" | "samestat"
//	dirs  : empty directories of the working tree
//
// m is "f" (regular), "x" (executable) or "l" (symlink, c = target); c is hex.
// Every file staged gets mtime T0 (long past); the final worktree keeps a
// staged file untouched when its wt entry equals the index entry and t == "",
// otherwise rewrites it (mtime T0+50, or T0+100 for "touch" = same content,
// or T0 again for "samestat" = content changed under identical size/mtime).
package porc

import (
	"bytes"
	"encoding/hex"
	"fmt"
	"os"
	"os/exec"
	"path/filepath"
	"sort"
	"strings"
	"time"

	"golang.org/x/sys/unix"
)

var T0 = time.Unix(1600000000, 0)

type Entry struct {
	P, M string
	C    []byte
	F    string // index: "", "ita", "skip"; wt: "", "touch", "samestat"
}

type Repo struct {
	Root string // scratch root (removed by Close)
	Dir  string // worktree
	Env  []string
}

func New() *Repo {
	root, err := os.MkdirTemp("", "verif-porc-")
	if err != nil {
		panic(err)
	}
	r := &Repo{Root: root, Dir: filepath.Join(root, "w")}
	os.MkdirAll(r.Dir, 0o755)
	r.Env = []string{"PATH=/usr/bin:/bin", "HOME=" + root, "GIT_CONFIG_NOSYSTEM=1", "GIT_CONFIG_GLOBAL=/dev/null",
		"GIT_AUTHOR_NAME=v", "GIT_AUTHOR_EMAIL=v@v", "GIT_COMMITTER_NAME=v", "GIT_COMMITTER_EMAIL=v@v",
		"GIT_AUTHOR_DATE=1600000000 +0000", "GIT_COMMITTER_DATE=1600000000 +0000", "LC_ALL=C", "GIT_OPTIONAL_LOCKS=0",
		"GIT_TERMINAL_PROMPT=0"}
	return r
}

func (r *Repo) Close() { os.RemoveAll(r.Root) }

// GitAt runs git in dir; returns stdout, and an error carrying stderr on failure.
func (r *Repo) GitAt(dir string, stdin []byte, args ...string) ([]byte, error) {
	cmd := exec.Command("/usr/bin/git", args...)
	cmd.Dir = dir
	cmd.Env = r.Env
	if stdin != nil {
		cmd.Stdin = bytes.NewReader(stdin)
	}
	var out, errb bytes.Buffer
	cmd.Stdout, cmd.Stderr = &out, &errb
	if err := cmd.Run(); err != nil {
		return out.Bytes(), fmt.Errorf("git %s: %v: %s", strings.Join(args, " "), err, errb.String())
	}
	return out.Bytes(), nil
}

func (r *Repo) Git(args ...string) []byte {
	out, err := r.GitAt(r.Dir, nil, args...)
	if err != nil {
		panic(err)
	}
	return out
}

func (r *Repo) GitIn(stdin []byte, args ...string) []byte {
	out, err := r.GitAt(r.Dir, stdin, args...)
	if err != nil {
		panic(err)
	}
	return out
}

// TryGit returns (stdout, ok).
func (r *Repo) TryGit(args ...string) ([]byte, bool) {
	out, err := r.GitAt(r.Dir, nil, args...)
	return out, err == nil
}

func (r *Repo) Path(p string) string { return filepath.Join(r.Dir, filepath.FromSlash(p)) }

// Put writes a file / symlink, replacing whatever is there, and stamps its mtime.
func (r *Repo) Put(e Entry, mtime time.Time) {
	full := r.Path(e.P)
	r.clearWay(e.P)
	os.RemoveAll(full)
	if err := os.MkdirAll(filepath.Dir(full), 0o755); err != nil {
		panic(err)
	}
	switch e.M {
	case "l":
		if err := os.Symlink(string(e.C), full); err != nil {
			panic(err)
		}
		ts := []unix.Timespec{unix.NsecToTimespec(mtime.UnixNano()), unix.NsecToTimespec(mtime.UnixNano())}
		if err := unix.UtimesNanoAt(unix.AT_FDCWD, full, ts, unix.AT_SYMLINK_NOFOLLOW); err != nil {
			panic(err)
		}
		return
	case "x":
		if err := os.WriteFile(full, e.C, 0o755); err != nil {
			panic(err)
		}
		os.Chmod(full, 0o755)
	default:
		if err := os.WriteFile(full, e.C, 0o644); err != nil {
			panic(err)
		}
		os.Chmod(full, 0o644)
	}
	if err := os.Chtimes(full, mtime, mtime); err != nil {
		panic(err)
	}
}

// clearWay removes files that sit where a parent directory of p is needed.
func (r *Repo) clearWay(p string) {
	parts := strings.Split(p, "/")
	for i := 1; i < len(parts); i++ {
		anc := r.Path(strings.Join(parts[:i], "/"))
		if fi, err := os.Lstat(anc); err == nil && !fi.IsDir() {
			os.Remove(anc)
		}
	}
}

// WipeWorktree removes everything except .git.
func (r *Repo) WipeWorktree() {
	ents, _ := os.ReadDir(r.Dir)
	for _, e := range ents {
		if e.Name() != ".git" {
			os.RemoveAll(filepath.Join(r.Dir, e.Name()))
		}
	}
}

func Entries(l []any) []Entry {
	var out []Entry
	for _, x := range l {
		m, _ := x.(map[string]any)
		e := Entry{}
		e.P, _ = m["p"].(string)
		e.M, _ = m["m"].(string)
		if e.M == "" {
			e.M = "f"
		}
		c, _ := m["c"].(string)
		b, err := hex.DecodeString(c)
		if err != nil {
			panic("bad hex in recipe")
		}
		e.C = b
		if f, ok := m["f"].(string); ok {
			e.F = f
		}
		if f, ok := m["t"].(string); ok {
			e.F = f
		}
		out = append(out, e)
	}
	return out
}

type Recipe struct {
	Format   string // "sha1" | "sha256"
	FileMode *bool  // core.fileMode (nil: git's default, true)
	AutoCRLF string
	Head     []Entry
	Index    []Entry
	NoIndex  bool // index = HEAD (no separate staging step)
	Wt       []Entry
	Dirs     []string
	Exclude  string
	Racy     bool // stamp .git/index with T0 (= the files' mtime): every stat match is racy
}

func pathsOf(es []Entry) []byte {
	var b bytes.Buffer
	for _, e := range es {
		b.WriteString(e.P)
		b.WriteByte(0)
	}
	return b.Bytes()
}

// Build materialises the recipe.
func (r *Repo) Build(rc *Recipe) {
	f := rc.Format
	if f == "" {
		f = "sha1"
	}
	// the repository skeleton is written by hand (one process spawn less per case)
	gd := r.Path(".git")
	for _, d := range []string{"objects/info", "objects/pack", "refs/heads", "refs/tags", "info"} {
		os.MkdirAll(filepath.Join(gd, d), 0o755)
	}
	os.WriteFile(filepath.Join(gd, "HEAD"), []byte("ref: refs/heads/main\n"), 0o644)
	cfg := "[core]\n\tbare = false\n\tlogallrefupdates = true\n\tsafecrlf = false\n"
	if f == "sha256" {
		cfg += "\trepositoryformatversion = 1\n"
	} else {
		cfg += "\trepositoryformatversion = 0\n"
	}
	fm := true
	if rc.FileMode != nil {
		fm = *rc.FileMode
	}
	cfg += fmt.Sprintf("\tfilemode = %v\n", fm)
	if rc.AutoCRLF != "" {
		cfg += "\tautocrlf = " + rc.AutoCRLF + "\n"
	}
	if f == "sha256" {
		cfg += "[extensions]\n\tobjectformat = sha256\n"
	}
	cfg += "[gc]\n\tauto = 0\n[maintenance]\n\tauto = false\n"
	os.WriteFile(filepath.Join(gd, "config"), []byte(cfg), 0o644)
	if rc.Exclude != "" {
		os.WriteFile(r.Path(".git/info/exclude"), []byte(rc.Exclude), 0o644)
	}
	// HEAD (staged with core.filemode on, so that modes are the recipe's)
	if len(rc.Head) > 0 {
		for _, e := range rc.Head {
			r.Put(e, T0)
		}
		r.GitIn(pathsOf(rc.Head), "-c", "core.filemode=true", "-c", "core.autocrlf=false", "add", "-f", "--pathspec-from-file=-", "--pathspec-file-nul")
		r.Git("commit", "-q", "--no-verify", "-m", "head")
	}
	// index
	if !rc.NoIndex {
		r.WipeWorktree()
		os.Remove(r.Path(".git/index"))
		var plain, ita, skip []Entry
		for _, e := range rc.Index {
			r.Put(e, T0)
			switch e.F {
			case "ita":
				ita = append(ita, e)
			case "skip":
				plain = append(plain, e)
				skip = append(skip, e)
			default:
				plain = append(plain, e)
			}
		}
		if len(plain) > 0 {
			r.GitIn(pathsOf(plain), "-c", "core.filemode=true", "-c", "core.autocrlf=false", "add", "-f", "--pathspec-from-file=-", "--pathspec-file-nul")
		}
		if len(ita) > 0 {
			r.GitIn(pathsOf(ita), "-c", "core.filemode=true", "add", "-f", "-N", "--pathspec-from-file=-", "--pathspec-file-nul")
		}
		if len(skip) > 0 {
			r.GitIn(pathsOf(skip), "update-index", "--skip-worktree", "-z", "--stdin")
		}
	}
	staged := map[string]Entry{}
	src := rc.Index
	if rc.NoIndex {
		src = rc.Head
	}
	for _, e := range src {
		staged[e.P] = e
	}
	// worktree
	want := map[string]Entry{}
	for _, e := range rc.Wt {
		want[e.P] = e
	}
	for p, s := range staged {
		w, ok := want[p]
		if ok && w.M == s.M && bytes.Equal(w.C, s.C) && w.F == "" {
			continue // left exactly as staged
		}
		os.RemoveAll(r.Path(p))
	}
	r.pruneEmptyDirs(r.Dir)
	var order []string
	for p := range want {
		order = append(order, p)
	}
	sort.Strings(order)
	for _, p := range order {
		w := want[p]
		s, ok := staged[p]
		if ok && w.M == s.M && bytes.Equal(w.C, s.C) && w.F == "" {
			if _, err := os.Lstat(r.Path(p)); err == nil {
				continue
			}
		}
		mt := T0.Add(50 * time.Second)
		switch w.F {
		case "touch":
			mt = T0.Add(100 * time.Second)
		case "samestat":
			mt = T0
		}
		r.Put(w, mt)
	}
	for _, d := range rc.Dirs {
		r.clearWay(d + "/x")
		os.MkdirAll(r.Path(d), 0o755)
	}
	if rc.Racy {
		os.Chtimes(r.Path(".git/index"), T0, T0)
	}
}

func (r *Repo) pruneEmptyDirs(dir string) bool {
	ents, _ := os.ReadDir(dir)
	empty := true
	for _, e := range ents {
		if e.Name() == ".git" && dir == r.Dir {
			empty = false
			continue
		}
		if e.IsDir() {
			if !r.pruneEmptyDirs(filepath.Join(dir, e.Name())) {
				empty = false
			}
		} else {
			empty = false
		}
	}
	if empty && dir != r.Dir {
		os.Remove(dir)
	}
	return empty
}

// GitStatus: records of `git status --porcelain=v1 -z`, sorted, as "XY path".
func (r *Repo) GitStatus() ([]string, error) {
	out, err := r.GitAt(r.Dir, nil, "-c", "status.renames=false", "-c", "core.quotepath=false", "status", "--porcelain=v1", "-z",
		"--untracked-files=all", "--ignored=no", "--no-renames")
	if err != nil {
		return nil, err
	}
	var recs []string
	for _, rec := range bytes.Split(out, []byte{0}) {
		if len(rec) > 0 {
			recs = append(recs, string(rec))
		}
	}
	sort.Strings(recs)
	return recs, nil
}

// GitIndex: `git ls-files -s -z` records "mode id stage\tpath", in index order.
func (r *Repo) GitIndex() []string {
	out := r.Git("ls-files", "-s", "-z")
	var recs []string
	for _, rec := range bytes.Split(out, []byte{0}) {
		if len(rec) > 0 {
			recs = append(recs, string(rec))
		}
	}
	return recs
}
