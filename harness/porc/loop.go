package porc

import (
	"bufio"
	"encoding/json"
	"fmt"
	"os"
	"runtime/debug"
	"sync"
	"time"

	"verif/harness/lib"
)

type reply struct {
	ID    any     `json:"id"`
	Out   string  `json:"out"`
	Panic string  `json:"panic,omitempty"`
	Ms    float64 `json:"ms"`
	Extra any     `json:"extra,omitempty"`
}

// Main is lib.Main with a worker pool: recipe cases spend their time in git
// child processes, so they are run concurrently; replies carry their id and
// are written in completion order.
func Main(h lib.Handler, workers int) {
	in := bufio.NewReaderSize(os.Stdin, 1<<20)
	dec := json.NewDecoder(in)
	dec.UseNumber()
	var cases []lib.Case
	for {
		var c lib.Case
		if err := dec.Decode(&c); err != nil {
			break
		}
		cases = append(cases, c)
	}
	w := bufio.NewWriterSize(os.Stdout, 1<<20)
	defer w.Flush()
	enc := json.NewEncoder(w)
	var mu sync.Mutex
	var wg sync.WaitGroup
	ch := make(chan lib.Case)
	for i := 0; i < workers; i++ {
		wg.Add(1)
		go func() {
			defer wg.Done()
			for c := range ch {
				r := reply{ID: c["id"]}
				t0 := time.Now()
				func() {
					defer func() {
						if e := recover(); e != nil {
							r.Out = "( panic )"
							r.Panic = fmt.Sprint(e) + "\n" + string(debug.Stack())
						}
					}()
					o, extra := h(c)
					r.Out = lib.Render(o)
					r.Extra = extra
				}()
				r.Ms = float64(time.Since(t0).Microseconds()) / 1000
				mu.Lock()
				enc.Encode(r)
				mu.Unlock()
			}
		}()
	}
	for _, c := range cases {
		ch <- c
	}
	close(ch)
	wg.Wait()
}
