// Package b17util: object construction shared by the c44/c45/c46 harness commands.
package b17util

import (
	"strconv"

	"github.com/go-git/go-git/v6/plumbing"
	"github.com/go-git/go-git/v6/plumbing/filemode"
	"github.com/go-git/go-git/v6/plumbing/object"
	"github.com/go-git/go-git/v6/plumbing/storer"

	"verif/harness/lib"
)

// StoreBlob stores content as a blob and returns its id.
func StoreBlob(s storer.EncodedObjectStorer, content []byte) plumbing.Hash {
	o := s.NewEncodedObject()
	o.SetType(plumbing.BlobObject)
	w, err := o.Writer()
	if err != nil {
		panic(err)
	}
	w.Write(content)
	w.Close()
	h, err := s.SetEncodedObject(o)
	if err != nil {
		panic(err)
	}
	return h
}

// StoreTree stores the tree described by spec (see cmd/c44) and returns its id.
//   entry = {"n": hexname, "m": "100644", "c": hexcontent}   blob (stored)
//         | {"n": hexname, "m": "40000",  "t": tree}          sub tree
//         | {"n": hexname, "m": "160000", "h": hex20}         gitlink (not stored)
// Entries are written in the order given (the generator sorts canonically).
func StoreTree(s storer.EncodedObjectStorer, spec []any) plumbing.Hash {
	t := &object.Tree{}
	for _, x := range spec {
		e := lib.AsCase(x)
		m64, err := strconv.ParseUint(e.S("m"), 8, 32)
		if err != nil {
			panic("bad mode in case")
		}
		mode := filemode.FileMode(m64)
		var h plumbing.Hash
		switch {
		case e["t"] != nil:
			h = StoreTree(s, e.L("t"))
		case e["h"] != nil:
			h = plumbing.NewHash(e.S("h"))
		default:
			h = StoreBlob(s, e.B("c"))
		}
		t.Entries = append(t.Entries, object.TreeEntry{Name: string(e.B("n")), Mode: mode, Hash: h})
	}
	o := s.NewEncodedObject()
	if err := t.Encode(o); err != nil {
		panic(err)
	}
	h, err := s.SetEncodedObject(o)
	if err != nil {
		panic(err)
	}
	return h
}
