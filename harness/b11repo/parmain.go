package b11repo

import (
	"bufio"
	"encoding/json"
	"fmt"
	"os"
	"runtime"
	"runtime/debug"
	"sync"
	"time"

	"verif/harness/lib"
)

type parReply struct {
	ID    any     `json:"id"`
	Out   string  `json:"out"`
	Panic string  `json:"panic,omitempty"`
	Ms    float64 `json:"ms"`
	Extra any     `json:"extra,omitempty"`
}

// ParallelMain is lib.Main with a worker pool: cases are independent (each one
// builds its own scratch repository), replies are written in input order and in
// the same format.
func ParallelMain(h lib.Handler) {
	in := bufio.NewReaderSize(os.Stdin, 1<<20)
	dec := json.NewDecoder(in)
	dec.UseNumber()
	var cases []lib.Case
	for {
		var c lib.Case
		if err := dec.Decode(&c); err != nil {
			break
		}
		cases = append(cases, c)
	}
	workers := runtime.NumCPU() / 2
	if workers < 1 {
		workers = 1
	}
	if workers > 6 {
		workers = 6
	}
	replies := make([]parReply, len(cases))
	done := make([]chan struct{}, len(cases))
	for i := range done {
		done[i] = make(chan struct{})
	}
	var next int
	var mu sync.Mutex
	for w := 0; w < workers; w++ {
		go func() {
			for {
				mu.Lock()
				i := next
				next++
				mu.Unlock()
				if i >= len(cases) {
					return
				}
				c := cases[i]
				r := parReply{ID: c["id"]}
				t0 := time.Now()
				func() {
					defer func() {
						if e := recover(); e != nil {
							r.Out = "( panic )"
							r.Panic = fmt.Sprint(e) + "\n" + string(debug.Stack())
						}
					}()
					o, extra := h(c)
					r.Out = lib.Render(o)
					r.Extra = extra
				}()
				r.Ms = float64(time.Since(t0).Microseconds()) / 1000
				replies[i] = r
				close(done[i])
			}
		}()
	}
	w := bufio.NewWriterSize(os.Stdout, 1<<20)
	defer w.Flush()
	enc := json.NewEncoder(w)
	for i := range cases {
		<-done[i]
		enc.Encode(replies[i])
		w.Flush()
	}
}
