// Package b11repo materialises the abstract repository descriptions used by the
// C21 and C22 suites (objects with numeric ids referencing lower ids, where each
// object is stored, refs, HEAD, shallow, index) with go-git's own writers.
package b11repo

import (
	"fmt"
	"io"
	"os"
	"path/filepath"
	"sort"
	"strconv"
	"time"

	"github.com/go-git/go-billy/v6/osfs"

	"github.com/go-git/go-git/v6/plumbing"
	"github.com/go-git/go-git/v6/plumbing/cache"
	"github.com/go-git/go-git/v6/plumbing/filemode"
	"github.com/go-git/go-git/v6/plumbing/format/index"
	"github.com/go-git/go-git/v6/plumbing/format/packfile"
	"github.com/go-git/go-git/v6/storage/filesystem"
	"github.com/go-git/go-git/v6/storage/memory"

	"verif/harness/lib"
)

var (
	OldTime   = time.Date(2001, 1, 1, 0, 0, 0, 0, time.UTC)
	Threshold = time.Date(2010, 1, 1, 0, 0, 0, 0, time.UTC)
)

// Obj is one object of a case.
type Obj struct {
	Kind string
	At   []string
	Old  bool
	Hash plumbing.Hash
	Raw  []byte
	Typ  plumbing.ObjectType
}

func Must(err error) {
	if err != nil {
		panic("harness: " + err.Error())
	}
}

// Objects computes raw contents and ids of the case's objects (nothing is stored).
func Objects(c lib.Case) []*Obj {
	var objs []*Obj
	for _, x := range c.L("objects") {
		o := lib.AsCase(x)
		d := &Obj{Kind: o.S("k"), At: o.SL("at"), Old: o.Bool("old")}
		switch d.Kind {
		case "blob":
			d.Typ, d.Raw = plumbing.BlobObject, o.B("data")
		case "tree":
			d.Typ = plumbing.TreeObject
			for _, ex := range o.L("entries") {
				e := lib.AsCase(ex)
				d.Raw = append(d.Raw, []byte(e.S("mode")+" "+string(e.B("name"))+"\x00")...)
				d.Raw = append(d.Raw, objs[e.I("ref")].Hash.Bytes()...)
			}
		case "commit":
			d.Typ = plumbing.CommitObject
			s := "tree " + objs[o.I("tree")].Hash.String() + "\n"
			for _, p := range o.L("parents") {
				n, _ := strconv.Atoi(fmt.Sprint(p))
				s += "parent " + objs[n].Hash.String() + "\n"
			}
			s += "author A <a@example.org> 1000000000 +0000\ncommitter A <a@example.org> 1000000000 +0000\n\n" + o.S("msg") + "\n"
			d.Raw = []byte(s)
		case "tag":
			d.Typ = plumbing.TagObject
			t := objs[o.I("target")]
			d.Raw = []byte("object " + t.Hash.String() + "\ntype " + t.Typ.String() + "\ntag " + o.S("msg") + "\ntagger A <a@example.org> 1000000000 +0000\n\nm\n")
		default:
			panic("object kind")
		}
		m := &plumbing.MemoryObject{}
		m.SetType(d.Typ)
		m.Write(d.Raw)
		d.Hash = m.Hash()
		objs = append(objs, d)
	}
	return objs
}

func (d *Obj) Mem() plumbing.EncodedObject {
	m := &plumbing.MemoryObject{}
	m.SetType(d.Typ)
	m.Write(d.Raw)
	return m
}

func Open(dir string, exclusive bool) *filesystem.Storage {
	return filesystem.NewStorageWithOptions(osfs.New(dir), cache.NewObjectLRUDefault(), filesystem.Options{ExclusiveAccess: exclusive})
}

// MemStore holds every object of the case (source for pack encoders).
func MemStore(objs []*Obj) *memory.Storage {
	mem := memory.NewStorage()
	for _, d := range objs {
		_, err := mem.SetEncodedObject(d.Mem())
		Must(err)
	}
	return mem
}

// Build writes the repository described by c into dir (a bare layout) and
// returns the objects and the names of the packs written (case name -> hash).
func Build(dir string, c lib.Case) ([]*Obj, map[string]plumbing.Hash) {
	objs := Objects(c)
	st := Open(dir, false)
	Must(st.Init())
	mem := MemStore(objs)
	packs := map[string]plumbing.Hash{}
	for _, px := range c.L("packs") {
		p := lib.AsCase(px)
		var hs []plumbing.Hash
		for _, d := range objs {
			for _, a := range d.At {
				if a == p.S("name") {
					hs = append(hs, d.Hash)
				}
			}
		}
		if len(hs) == 0 {
			continue
		}
		var w io.WriteCloser
		var err error
		if p.Bool("promisor") {
			w, err = st.PromisorPackfileWriter("")
		} else {
			w, err = st.PackfileWriter()
		}
		Must(err)
		ph, err := packfile.NewEncoder(w, mem, false).Encode(hs, uint(p.I("window")))
		Must(err)
		Must(w.Close())
		packs[p.S("name")] = ph
		if p.Bool("old") {
			Must(os.Chtimes(filepath.Join(dir, "objects", "pack", "pack-"+ph.String()+".pack"), OldTime, OldTime))
		}
	}
	for _, d := range objs {
		for _, a := range d.At {
			if a == "loose" {
				_, err := st.SetEncodedObject(d.Mem())
				Must(err)
				if d.Old {
					h := d.Hash.String()
					Must(os.Chtimes(filepath.Join(dir, "objects", h[:2], h[2:]), OldTime, OldTime))
				}
			}
		}
	}
	for _, rx := range c.L("refs") {
		r := lib.AsCase(rx)
		if s := r.S("sym"); s != "" {
			Must(st.SetReference(plumbing.NewSymbolicReference(plumbing.ReferenceName(r.S("name")), plumbing.ReferenceName(s))))
		} else {
			Must(st.SetReference(plumbing.NewHashReference(plumbing.ReferenceName(r.S("name")), objs[r.I("ref")].Hash)))
		}
	}
	if h := c.M("head"); h != nil {
		if s := h.S("sym"); s != "" {
			Must(st.SetReference(plumbing.NewSymbolicReference(plumbing.HEAD, plumbing.ReferenceName(s))))
		} else {
			Must(st.SetReference(plumbing.NewHashReference(plumbing.HEAD, objs[h.I("ref")].Hash)))
		}
	}
	var sh []plumbing.Hash
	for _, x := range c.L("shallow") {
		n, _ := strconv.Atoi(fmt.Sprint(x))
		sh = append(sh, objs[n].Hash)
	}
	if len(sh) > 0 {
		Must(st.SetShallow(sh))
	}
	if ix := c.L("index"); len(ix) > 0 {
		Must(st.SetIndex(Index(objs, ix)))
	}
	Must(st.Close())
	return objs, packs
}

// Index builds an index from case entries {path, ref, mode}.
func Index(objs []*Obj, ix []any) *index.Index {
	idx := &index.Index{Version: 2}
	for _, ex := range ix {
		e := lib.AsCase(ex)
		m, err := filemode.New(e.S("mode"))
		Must(err)
		idx.Entries = append(idx.Entries, &index.Entry{Name: string(e.B("path")), Hash: objs[e.I("ref")].Hash, Mode: m})
	}
	sort.Slice(idx.Entries, func(i, j int) bool { return idx.Entries[i].Name < idx.Entries[j].Name })
	return idx
}
