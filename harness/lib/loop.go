package lib

import (
	"bufio"
	"encoding/json"
	"fmt"
	"os"
	"runtime/debug"
	"time"
)

// Case is one JSON object of a case file; fields are suite specific.
type Case map[string]any

func (c Case) S(k string) string {
	v, _ := c[k].(string)
	return v
}
func (c Case) B(k string) []byte { return Unhex(c.S(k)) }
func (c Case) I(k string) int64 {
	switch v := c[k].(type) {
	case float64:
		return int64(v)
	case json.Number:
		n, _ := v.Int64()
		return n
	case string:
		var n int64
		fmt.Sscan(v, &n)
		return n
	}
	return 0
}
func (c Case) U(k string) uint64 {
	switch v := c[k].(type) {
	case float64:
		return uint64(v)
	case json.Number:
		var n uint64
		fmt.Sscan(v.String(), &n)
		return n
	case string:
		var n uint64
		fmt.Sscan(v, &n)
		return n
	}
	return 0
}
func (c Case) Bool(k string) bool { v, _ := c[k].(bool); return v }
func (c Case) L(k string) []any   { v, _ := c[k].([]any); return v }
func (c Case) SL(k string) []string {
	var r []string
	for _, x := range c.L(k) {
		s, _ := x.(string)
		r = append(r, s)
	}
	return r
}
func (c Case) M(k string) Case {
	v, _ := c[k].(map[string]any)
	return Case(v)
}
func AsCase(x any) Case { v, _ := x.(map[string]any); return Case(v) }

type reply struct {
	ID    any     `json:"id"`
	Out   string  `json:"out"`
	Panic string  `json:"panic,omitempty"`
	Ms    float64 `json:"ms"`
	Extra any     `json:"extra,omitempty"`
}

// Handler runs the implementation on one case and returns the projected
// observable (and optionally extra, uncompared, data for oracles).
type Handler func(c Case) (Out, any)

// Main reads one JSON case per line on stdin and answers one JSON line each.
// A panic in the implementation is an observable ("panic"), not a crash.
func Main(h Handler) {
	in := bufio.NewReaderSize(os.Stdin, 1<<20)
	w := bufio.NewWriterSize(os.Stdout, 1<<20)
	defer w.Flush()
	dec := json.NewDecoder(in)
	dec.UseNumber()
	enc := json.NewEncoder(w)
	for {
		var c Case
		if err := dec.Decode(&c); err != nil {
			break
		}
		r := reply{ID: c["id"]}
		t0 := time.Now()
		func() {
			defer func() {
				if e := recover(); e != nil {
					r.Out = "( panic )"
					r.Panic = fmt.Sprint(e) + "\n" + string(debug.Stack())
				}
			}()
			o, extra := h(c)
			r.Out = Render(o)
			r.Extra = extra
		}()
		r.Ms = float64(time.Since(t0).Microseconds()) / 1000
		enc.Encode(r)
		w.Flush()
	}
}
