// Package lib is the shared glue of the correspondence harness: the canonical
// observable grammar (mirrors coq/theories/Base/Out.v) and the case loop.
package lib

import (
	"encoding/hex"
	"strconv"
	"strings"
)

// Out is a canonical observable value; Render gives the text compared with
// the Coq model's rendering.
type Out interface{ render(b *strings.Builder) }

type sym string
type byt []byte
type num string
type list []Out

func (s sym) render(b *strings.Builder)  { b.WriteString(string(s)) }
func (s byt) render(b *strings.Builder)  { b.WriteByte('x'); b.WriteString(hex.EncodeToString(s)) }
func (s num) render(b *strings.Builder)  { b.WriteString(string(s)) }
func (l list) render(b *strings.Builder) {
	b.WriteByte('(')
	for _, x := range l {
		b.WriteByte(' ')
		x.render(b)
	}
	b.WriteString(" )")
}

func Sym(s string) Out      { return sym(s) }
func Bytes(b []byte) Out    { return byt(b) }
func Str(s string) Out      { return byt([]byte(s)) }
func Int(n int64) Out       { return num(strconv.FormatInt(n, 10)) }
func Uint(n uint64) Out     { return num(strconv.FormatUint(n, 10)) }
func List(xs ...Out) Out    { return list(xs) }
func Ok(xs ...Out) Out      { return list(append([]Out{sym("ok")}, xs...)) }
func Err(class string) Out  { return list([]Out{sym("err"), sym(class)}) }
func Bool(b bool) Out {
	if b {
		return sym("true")
	}
	return sym("false")
}
func Some(x Out) Out { return list([]Out{sym("some"), x}) }
func None() Out      { return sym("none") }

func Render(o Out) string {
	var b strings.Builder
	o.render(&b)
	return b.String()
}

// Unhex decodes a hex field of a case; panics on malformed input (harness bug).
func Unhex(s string) []byte {
	b, err := hex.DecodeString(s)
	if err != nil {
		panic("bad hex in case: " + err.Error())
	}
	return b
}
