// Package vsync is a drop-in for the parts of package sync used by
// internal/sharedfile and x/fdpool.  The C24 harness builds those two packages
// with `go build -overlay`, the overlay being the CURRENT source with the
// import "sync" redirected here; nothing else in the source changes.  A
// Mutex.Lock at lock depth 0 of a scheduled goroutine is a yield point: the
// goroutine reports the mutex it is about to take and parks on a channel until
// the schedule releases it.  One model step = one outermost critical section.
package vsync

import "sync"

type (
	WaitGroup = sync.WaitGroup
	Once      = sync.Once
	RWMutex   = sync.RWMutex
	Locker    = sync.Locker
	Cond      = sync.Cond
	Map       = sync.Map
	Pool      = sync.Pool
)

func NewCond(l Locker) *Cond { return sync.NewCond(l) }
func OnceFunc(f func()) func() { return sync.OnceFunc(f) }
func OnceValue[T any](f func() T) func() T { return sync.OnceValue(f) }
func OnceValues[T1, T2 any](f func() (T1, T2)) func() (T1, T2) { return sync.OnceValues(f) }

// Hooks installed by the scheduler.  BeforeLock runs before the real lock is
// taken, AfterLock right after, AfterUnlock after the real unlock.
var (
	BeforeLock  func(m *Mutex)
	AfterLock   func(m *Mutex)
	AfterUnlock func(m *Mutex)
)

type Mutex struct{ mu sync.Mutex }

func (m *Mutex) Lock() {
	if h := BeforeLock; h != nil {
		h(m)
	}
	m.mu.Lock()
	if h := AfterLock; h != nil {
		h(m)
	}
}

func (m *Mutex) Unlock() {
	m.mu.Unlock()
	if h := AfterUnlock; h != nil {
		h(m)
	}
}

func (m *Mutex) TryLock() bool {
	ok := m.mu.TryLock()
	if ok {
		if h := AfterLock; h != nil {
			h(m)
		}
	}
	return ok
}
