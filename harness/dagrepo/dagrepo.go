// Package dagrepo materialises the abstract commit DAG of a case (parents by
// node number, committer timestamps) as real commit objects in a go-git
// storage, and maps hashes back to node numbers (batch b16: C42 C43 C47).
package dagrepo

import (
	"crypto/sha1"
	"fmt"
	"sort"
	"time"

	"github.com/go-git/go-git/v6/plumbing"
	"github.com/go-git/go-git/v6/plumbing/object"
	"github.com/go-git/go-git/v6/storage"
	"github.com/go-git/go-git/v6/storage/memory"

	"verif/harness/lib"
)

type Repo struct {
	S      storage.Storer
	N      int
	Hashes map[int]plumbing.Hash // node -> hash (also for absent parents >= N)
	Index  map[plumbing.Hash]int
	Tree   plumbing.Hash
}

func (r *Repo) Hash(n int) plumbing.Hash {
	if h, ok := r.Hashes[n]; ok {
		return h
	}
	// absent commit: a well-formed id that is not in the store
	sum := sha1.Sum([]byte(fmt.Sprintf("absent commit %d", n)))
	h, _ := plumbing.FromBytes(sum[:])
	r.Hashes[n] = h
	r.Index[h] = n
	return h
}

func (r *Repo) Commit(n int) *object.Commit {
	c, err := object.GetCommit(r.S, r.Hash(n))
	if err != nil {
		panic(fmt.Sprintf("harness: node %d not loadable: %v", n, err))
	}
	return c
}

func (r *Repo) Node(h plumbing.Hash) int {
	if n, ok := r.Index[h]; ok {
		return n
	}
	return -1
}

func (r *Repo) Nodes(cs []*object.Commit) lib.Out {
	xs := make([]lib.Out, 0, len(cs))
	for _, c := range cs {
		xs = append(xs, lib.Int(int64(r.Node(c.Hash))))
	}
	return lib.List(xs...)
}

func (r *Repo) SortedNodes(cs []*object.Commit) lib.Out {
	ns := make([]int, 0, len(cs))
	for _, c := range cs {
		ns = append(ns, r.Node(c.Hash))
	}
	sort.Ints(ns)
	xs := make([]lib.Out, 0, len(ns))
	for _, n := range ns {
		xs = append(xs, lib.Int(int64(n)))
	}
	return lib.List(xs...)
}

// Msg is the commit message of node i unless the case gives one.
func Msg(i int) string { return fmt.Sprintf("node %d\n", i) }

// Build stores an empty tree and one commit per node; parents must have a
// smaller number than the child or be >= len(par) (absent).
func Build(s storage.Storer, par [][]int, times []int64, msgs []string) *Repo {
	if s == nil {
		s = memory.NewStorage()
	}
	r := &Repo{S: s, N: len(par), Hashes: map[int]plumbing.Hash{}, Index: map[plumbing.Hash]int{}}
	to := s.NewEncodedObject()
	if err := (&object.Tree{}).Encode(to); err != nil {
		panic(err)
	}
	th, err := s.SetEncodedObject(to)
	if err != nil {
		panic(err)
	}
	r.Tree = th
	for i, ps := range par {
		var t int64
		if i < len(times) {
			t = times[i]
		}
		sig := object.Signature{Name: "V", Email: "v@example.com", When: time.Unix(t, 0).UTC()}
		msg := Msg(i)
		if i < len(msgs) {
			msg = msgs[i]
		}
		c := &object.Commit{Author: sig, Committer: sig, Message: msg, TreeHash: th}
		for _, p := range ps {
			if p < r.N && p >= i {
				panic("harness: case is not topologically numbered")
			}
			c.ParentHashes = append(c.ParentHashes, r.Hash(p))
		}
		o := s.NewEncodedObject()
		if err := c.Encode(o); err != nil {
			panic(err)
		}
		h, err := s.SetEncodedObject(o)
		if err != nil {
			panic(err)
		}
		r.Hashes[i] = h
		r.Index[h] = i
	}
	return r
}

// FromCase reads "par" and "times" of a case.
func FromCase(c lib.Case) *Repo {
	var par [][]int
	for _, x := range c.L("par") {
		var ps []int
		if l, ok := x.([]any); ok {
			for _, y := range l {
				ps = append(ps, int(lib.Case{"v": y}.I("v")))
			}
		}
		par = append(par, ps)
	}
	var times []int64
	for _, x := range c.L("times") {
		times = append(times, lib.Case{"v": x}.I("v"))
	}
	var msgs []string
	for _, x := range c.SL("msgs") {
		msgs = append(msgs, string(lib.Unhex(x)))
	}
	return Build(nil, par, times, msgs)
}

func Ints(c lib.Case, k string) []int {
	var r []int
	for _, x := range c.L(k) {
		r = append(r, int(lib.Case{"v": x}.I("v")))
	}
	return r
}
