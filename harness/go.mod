module verif/harness

go 1.26.0

require github.com/go-git/go-git/v6 v6.0.0

require (
	github.com/ProtonMail/go-crypto v1.4.1 // indirect
	github.com/cloudflare/circl v1.6.3 // indirect
	github.com/emirpasic/gods v1.18.1 // indirect
	github.com/go-git/gcfg/v2 v2.0.2 // indirect
	github.com/go-git/go-billy/v6 v6.0.0-alpha.2 // indirect
	github.com/kevinburke/ssh_config v1.6.0 // indirect
	github.com/klauspost/cpuid/v2 v2.3.0 // indirect
	github.com/pjbgf/sha1cd v0.6.0 // indirect
	github.com/sergi/go-diff v1.4.0 // indirect
	golang.org/x/crypto v0.55.0 // indirect
	golang.org/x/sync v0.22.0 // indirect
	golang.org/x/sys v0.47.0 // indirect
)

replace github.com/go-git/go-git/v6 => /repo
