module verif/harness

go 1.26.0

// superset of go-git's own requirements so that no harness command ever needs to edit this file
require (
	github.com/go-git/go-git/v6 v6.0.0
	github.com/Microsoft/go-winio v0.6.2
	github.com/ProtonMail/go-crypto v1.4.1
	github.com/anmitsu/go-shlex v0.0.0-20200514113438-38f4b401e2be
	github.com/armon/go-socks5 v0.0.0-20160902184237-e75332964ef5
	github.com/cloudflare/circl v1.6.3
	github.com/davecgh/go-spew v1.1.1
	github.com/emirpasic/gods v1.18.1
	github.com/gliderlabs/ssh v0.3.8
	github.com/go-git/gcfg/v2 v2.0.2
	github.com/go-git/go-billy/v6 v6.0.0-alpha.2
	github.com/go-git/go-git-fixtures/v6 v6.0.0-alpha.1
	github.com/kevinburke/ssh_config v1.6.0
	github.com/klauspost/cpuid/v2 v2.3.0
	github.com/pjbgf/sha1cd v0.6.0
	github.com/pmezard/go-difflib v1.0.0
	github.com/sergi/go-diff v1.4.0
	github.com/stretchr/testify v1.11.1
	golang.org/x/crypto v0.55.0
	golang.org/x/net v0.58.0
	golang.org/x/sync v0.22.0
	golang.org/x/sys v0.47.0
	golang.org/x/text v0.41.0
	gopkg.in/yaml.v3 v3.0.1
)

replace github.com/go-git/go-git/v6 => /repo
