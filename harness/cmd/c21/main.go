// c21: implementation side of the C21 correspondence (crash prefixes).
// A case describes a repository (as for C22) and one mutating operation.  The
// operation runs on a storage whose filesystem is wrapped by the recording
// wrapper b11rec; the canonical mutation trace is the compared observable, and
// every prefix of the raw mutation sequence (with a torn variant of each
// write) is materialised in a scratch directory and judged by go-git
// (open, references, object walk, index, config) and optionally `git fsck`.
package main

import (
	"fmt"
	"io"
	"os"
	"os/exec"
	"path/filepath"
	"regexp"
	"sort"
	"strconv"
	"strings"
	"time"

	"github.com/go-git/go-billy/v6/memfs"
	"github.com/go-git/go-billy/v6/osfs"

	git "github.com/go-git/go-git/v6"
	"github.com/go-git/go-git/v6/config"
	"github.com/go-git/go-git/v6/plumbing"
	"github.com/go-git/go-git/v6/plumbing/cache"
	"github.com/go-git/go-git/v6/plumbing/filemode"
	"github.com/go-git/go-git/v6/plumbing/format/packfile"
	"github.com/go-git/go-git/v6/plumbing/object"
	"github.com/go-git/go-git/v6/storage/filesystem"

	"verif/harness/b11rec"
	"verif/harness/b11repo"
	"verif/harness/lib"
)

var must = b11repo.Must

func atoi(x any) int { n, _ := strconv.Atoi(fmt.Sprint(x)); return n }

// runOp performs the case's operation on st; objs are the case's objects.
func runOp(c lib.Case, st *filesystem.Storage, objs []*b11repo.Obj) error {
	switch c.S("op") {
	case "setobj":
		_, err := st.SetEncodedObject(objs[c.I("obj")].Mem())
		return err
	case "packwrite":
		var hs []plumbing.Hash
		for _, x := range c.L("ids") {
			hs = append(hs, objs[atoi(x)].Hash)
		}
		var w io.WriteCloser
		var err error
		if c.Bool("promisor") {
			w, err = st.PromisorPackfileWriter("")
		} else {
			w, err = st.PackfileWriter()
		}
		if err != nil {
			return err
		}
		if _, err := packfile.NewEncoder(w, b11repo.MemStore(objs), false).Encode(hs, 0); err != nil {
			w.Close()
			return err
		}
		return w.Close()
	case "setref":
		return st.SetReference(mkRef(c, objs))
	case "casref":
		old := plumbing.NewHashReference(plumbing.ReferenceName(c.S("name")), objs[c.I("old")].Hash)
		return st.CheckAndSetReference(mkRef(c, objs), old)
	case "rmref":
		return st.RemoveReference(plumbing.ReferenceName(c.S("name")))
	case "packrefs":
		return st.PackRefs()
	case "setindex":
		return st.SetIndex(b11repo.Index(objs, c.L("newindex")))
	case "setconfig":
		cfg, err := st.Config()
		if err != nil {
			return err
		}
		cfg.Remotes["origin"] = &config.RemoteConfig{Name: "origin", URLs: []string{"https://example.org/" + c.S("url")}}
		return st.SetConfig(cfg)
	case "setshallow":
		var hs []plumbing.Hash
		for _, x := range c.L("ids") {
			hs = append(hs, objs[atoi(x)].Hash)
		}
		return st.SetShallow(hs)
	case "commit":
		// a worktree commit: the index of the case is committed on top of HEAD
		wt := memfs.New()
		repo, err := git.Open(st, wt)
		if err != nil {
			return err
		}
		w, err := repo.Worktree()
		if err != nil {
			return err
		}
		_, err = w.Commit(c.S("msg")+"\n", &git.CommitOptions{AllowEmptyCommits: true,
			Author: &object.Signature{Name: "A", Email: "a@example.org", When: time.Unix(1000000000, 0).UTC()}})
		return err
	case "repack", "prune":
		repo, err := git.Open(st, nil)
		if err != nil {
			return err
		}
		if c.S("op") == "prune" {
			opt := git.PruneOptions{Handler: repo.DeleteObject}
			if c.Bool("threshold") {
				opt.OnlyObjectsOlderThan = b11repo.Threshold
			}
			return repo.Prune(opt)
		}
		cfg := &git.RepackConfig{UseRefDeltas: c.Bool("refdeltas")}
		if c.Bool("threshold") {
			cfg.OnlyDeletePacksOlderThan = b11repo.Threshold
		}
		return repo.RepackObjects(cfg)
	}
	panic("op " + c.S("op"))
}

func mkRef(c lib.Case, objs []*b11repo.Obj) *plumbing.Reference {
	if s := c.S("sym"); s != "" {
		return plumbing.NewSymbolicReference(plumbing.ReferenceName(c.S("name")), plumbing.ReferenceName(s))
	}
	return plumbing.NewHashReference(plumbing.ReferenceName(c.S("name")), objs[c.I("ref")].Hash)
}

// ---- canonical trace ----

var (
	looseRe = regexp.MustCompile(`^objects/([0-9a-f]{2})/([0-9a-f]{38})$`)
	packRe  = regexp.MustCompile(`^objects/pack/pack-([0-9a-f]{40})\.(pack|idx|rev|promisor)$`)
	tmpRe   = regexp.MustCompile(`^(.*/)?(tmp_obj_|tmp_pack_|tmp-packed-refs|\.tmp)[^/]*$`)
)

type canon struct {
	byHash map[string]int
	packs  map[string]string
	tmps   map[string]string
}

func (k *canon) path(p string) string {
	if m := looseRe.FindStringSubmatch(p); m != nil {
		if i, ok := k.byHash[m[1]+m[2]]; ok {
			return "objects/#" + strconv.Itoa(i)
		}
		return "objects/#?"
	}
	if m := packRe.FindStringSubmatch(p); m != nil {
		n, ok := k.packs[m[1]]
		if !ok {
			n = "P" + strconv.Itoa(len(k.packs))
			k.packs[m[1]] = n
		}
		return "objects/pack/pack-" + n + "." + m[2]
	}
	base := filepath.Base(p)
	kind := ""
	switch {
	case strings.HasPrefix(base, "tmp_obj_"):
		kind = "objects/pack/tmp_obj"
	case strings.HasPrefix(base, "tmp_pack_"):
		kind = "objects/pack/tmp_pack"
	case strings.HasPrefix(base, "._packed-refs") || filepath.Dir(p) == ".tmp":
		kind = "tmp_packed-refs"
	}
	if kind != "" {
		n, ok := k.tmps[p]
		if !ok {
			cnt := 0
			for _, v := range k.tmps {
				if strings.HasPrefix(v, kind+"#") {
					cnt++
				}
			}
			n = kind + "#" + strconv.Itoa(cnt)
			k.tmps[p] = n
		}
		return n
	}
	return p
}

// judge says whether the directory is a readable, connected repository for
// go-git: "" or the first reason why not.
func judge(dir string) string {
	st := filesystem.NewStorageWithOptions(osfs.New(dir), cache.NewObjectLRUDefault(), filesystem.Options{})
	defer st.Close()
	it, err := st.IterReferences()
	if err != nil {
		return "refs: " + err.Error()
	}
	var roots []plumbing.Hash
	err = it.ForEach(func(r *plumbing.Reference) error {
		if r.Type() == plumbing.HashReference {
			roots = append(roots, r.Hash())
		}
		return nil
	})
	if err != nil {
		return "refs: " + err.Error()
	}
	sh, err := st.Shallow()
	if err != nil {
		return "shallow: " + err.Error()
	}
	shallow := map[plumbing.Hash]bool{}
	for _, h := range sh {
		shallow[h] = true
	}
	seen := map[plumbing.Hash]bool{}
	todo := roots
	for len(todo) > 0 {
		h := todo[len(todo)-1]
		todo = todo[:len(todo)-1]
		if seen[h] {
			continue
		}
		seen[h] = true
		o, err := object.GetObject(st, h)
		if err != nil {
			return "missing: " + h.String() + ": " + err.Error()
		}
		switch o := o.(type) {
		case *object.Commit:
			todo = append(todo, o.TreeHash)
			if !shallow[h] {
				todo = append(todo, o.ParentHashes...)
			}
		case *object.Tree:
			for _, e := range o.Entries {
				if e.Mode != filemode.Submodule {
					todo = append(todo, e.Hash)
				}
			}
		case *object.Tag:
			todo = append(todo, o.Target)
		case *object.Blob:
			r, err := o.Reader()
			if err != nil {
				return "missing: " + h.String() + ": " + err.Error()
			}
			_, err = io.Copy(io.Discard, r)
			r.Close()
			if err != nil {
				return "missing: " + h.String() + ": " + err.Error()
			}
		}
	}
	if _, err := st.Index(); err != nil {
		return "index: " + err.Error()
	}
	if _, err := st.Config(); err != nil {
		return "config: " + err.Error()
	}
	return ""
}

func fsck(dir string) string {
	cmd := exec.Command("git", "--git-dir", dir, "fsck", "--no-dangling", "--no-progress", "--connectivity-only")
	cmd.Env = append(os.Environ(), "GIT_CONFIG_NOSYSTEM=1", "HOME=/nonexistent", "LC_ALL=C")
	out, err := cmd.CombinedOutput()
	if err == nil {
		return ""
	}
	l := strings.Split(strings.TrimSpace(string(out)), "\n")
	return "fsck: " + l[0]
}

// ---- canonical events ----

type cev struct {
	kind  string
	paths []string
	raw   []int // indices of the raw events merged into this one
}

func extOrder(p string) int {
	for i, x := range []string{".pack", ".idx", ".rev", ".promisor"} {
		if strings.HasSuffix(p, x) {
			return i
		}
	}
	return 9
}

func canonical(op string, evs []b11rec.Event, k *canon) []cev {
	var out []cev
	group := func(p string) string {
		switch {
		case (op == "prune" || op == "repack") && strings.HasPrefix(p, "objects/#"):
			return "objs"
		case (op == "prune" || op == "repack") && strings.HasPrefix(p, "objects/pack/pack-"):
			return "packs"
		case op == "packrefs" && strings.HasPrefix(p, "refs/"):
			return "refs"
		}
		return ""
	}
	lastGroup := ""
	for i, e := range evs {
		p := k.path(e.Path)
		switch e.Op {
		case "open":
			lastGroup = ""
			continue // opening an existing file for writing mutates nothing
		case "write":
			if n := len(out); n > 0 && out[n-1].kind == "write" && out[n-1].paths[0] == p {
				out[n-1].raw = append(out[n-1].raw, i)
			} else {
				out = append(out, cev{"write", []string{p}, []int{i}})
			}
			lastGroup = ""
		case "remove":
			g := group(p)
			if n := len(out); g != "" && n > 0 && out[n-1].kind == "removeset" && lastGroup == g {
				out[n-1].paths = append(out[n-1].paths, p)
				out[n-1].raw = append(out[n-1].raw, i)
			} else if g != "" {
				out = append(out, cev{"removeset", []string{p}, []int{i}})
			} else {
				out = append(out, cev{"remove", []string{p}, []int{i}})
			}
			lastGroup = g
		case "rename":
			out = append(out, cev{"rename", []string{p, k.path(e.Path2)}, []int{i}})
			lastGroup = ""
		case "mkdir":
			lastGroup = ""
			continue // directories carry no repository content; implicit in the model
		default:
			out = append(out, cev{e.Op, []string{p}, []int{i}})
			lastGroup = ""
		}
	}
	for i := range out {
		if out[i].kind == "removeset" {
			ps := out[i].paths
			sort.Slice(ps, func(a, b int) bool {
				na, nb := strings.TrimPrefix(ps[a], "objects/#"), strings.TrimPrefix(ps[b], "objects/#")
				if ia, ea := strconv.Atoi(na); ea == nil {
					if ib, eb := strconv.Atoi(nb); eb == nil {
						return ia < ib
					}
				}
				sa, sb := strings.TrimSuffix(ps[a], filepath.Ext(ps[a])), strings.TrimSuffix(ps[b], filepath.Ext(ps[b]))
				if strings.HasPrefix(ps[a], "objects/pack/") && sa != sb {
					return sa < sb
				}
				if strings.HasPrefix(ps[a], "objects/pack/") {
					return extOrder(ps[a]) < extOrder(ps[b])
				}
				return ps[a] < ps[b]
			})
		}
	}
	return out
}

func run(c lib.Case) (lib.Out, any) {
	dir, err := os.MkdirTemp("", "vc21-")
	must(err)
	defer os.RemoveAll(dir)
	pre := filepath.Join(dir, "pre")
	live := filepath.Join(dir, "live")
	objs, packs := b11repo.Build(pre, c)
	if pk := c.L("packed"); len(pk) > 0 {
		var lines []string
		for _, x := range pk {
			r := lib.AsCase(x)
			lines = append(lines, objs[r.I("ref")].Hash.String()+" "+r.S("name")+"\n")
		}
		must(os.WriteFile(filepath.Join(pre, "packed-refs"), []byte(strings.Join(lines, "")), 0o644))
	} else if c.Bool("packed_empty") {
		must(os.WriteFile(filepath.Join(pre, "packed-refs"), nil, 0o644))
	}
	must(b11rec.CopyTree(pre, live))
	rec := &b11rec.Rec{}
	st := filesystem.NewStorageWithOptions(b11rec.New(osfs.New(live), rec), cache.NewObjectLRUDefault(), filesystem.Options{})
	rec.On = true
	opErr := runOp(c, st, objs)
	rec.On = false
	st.Close()
	k := &canon{byHash: map[string]int{}, packs: map[string]string{}, tmps: map[string]string{}}
	for i, d := range objs {
		k.byHash[d.Hash.String()] = i
	}
	var names []string
	for n := range packs {
		names = append(names, n)
	}
	sort.Strings(names)
	for _, n := range names {
		k.packs[packs[n].String()] = n
	}
	evs := rec.Events
	cevs := canonical(c.S("op"), evs, k)
	var trace []lib.Out
	for _, e := range cevs {
		items := []lib.Out{lib.Sym(e.kind)}
		for _, p := range e.paths {
			items = append(items, lib.Str(p))
		}
		trace = append(trace, lib.List(items...))
	}
	extra := map[string]any{"raw_events": len(evs)}
	if opErr != nil {
		extra["error"] = opErr.Error()
	}

	// every crash state, judged
	thorough := c.Bool("all_states")
	useFsck := c.Bool("fsck")
	work := filepath.Join(dir, "work")
	must(b11rec.CopyTree(pre, work))
	rp := b11rec.NewReplayer(work)
	defer rp.Close()
	states := 0
	var reasons []string
	verdict := func(where string) bool {
		states++
		r := judge(work)
		if r == "" && useFsck && (strings.HasPrefix(where, "after") || strings.HasPrefix(where, "initial") || strings.HasSuffix(where, "torn")) {
			r = fsck(work)
		}
		if r != "" {
			if len(reasons) < 12 {
				reasons = append(reasons, where+": "+r)
			}
			return false
		}
		return true
	}
	initial := verdict("initial")
	type pair struct{ Mid, After bool }
	var vs []pair
	ri := 0
	for ci, e := range cevs {
		// raw events before this canonical event that were dropped (open, mkdir) are applied silently
		for ri < e.raw[0] {
			must(rp.Apply(evs[ri], 0, len(evs[ri].Data)))
			ri++
		}
		mid := true
		for j, idx := range e.raw {
			for ri < idx {
				must(rp.Apply(evs[ri], 0, len(evs[ri].Data)))
				ri++
			}
			ev := evs[idx]
			last := j == len(e.raw)-1
			where := fmt.Sprintf("event %d (%s %s) part %d/%d", ci, e.kind, e.paths[0], j+1, len(e.raw))
			if ev.Op == "write" {
				sample := thorough || j == 0 || last || j == len(e.raw)/2
				half := len(ev.Data) / 2
				must(rp.Apply(ev, 0, half))
				if sample && !verdict(where+" torn") {
					mid = false
				}
				must(rp.Apply(ev, half, len(ev.Data)))
				if !last && sample && !verdict(where) {
					mid = false
				}
			} else {
				must(rp.Apply(ev, 0, 0))
				if !last && !verdict(where) {
					mid = false
				}
			}
			ri = idx + 1
		}
		after := verdict(fmt.Sprintf("after event %d (%s %s)", ci, e.kind, e.paths[0]))
		vs = append(vs, pair{mid, after})
	}
	var vl [][2]bool
	for _, v := range vs {
		vl = append(vl, [2]bool{v.Mid, v.After})
	}
	extra["initial"] = initial
	extra["verdicts"] = vl
	extra["reasons"] = reasons
	extra["states"] = states
	return lib.List(trace...), extra
}

func main() {
	b11repo.ParallelMain(func(c lib.Case) (lib.Out, any) {
		if c.Bool("dump") {
			return dump(c)
		}
		return run(c)
	})
}
func dump(c lib.Case) (lib.Out, any) {
	dir, err := os.MkdirTemp("", "vc21-")
	must(err)
	defer os.RemoveAll(dir)
	objs, packs := b11repo.Build(dir, c)
	rec := &b11rec.Rec{}
	st := filesystem.NewStorageWithOptions(b11rec.New(osfs.New(dir), rec), cache.NewObjectLRUDefault(), filesystem.Options{})
	rec.On = true
	opErr := runOp(c, st, objs)
	rec.On = false
	st.Close()
	k := &canon{byHash: map[string]int{}, packs: map[string]string{}, tmps: map[string]string{}}
	for i, d := range objs {
		k.byHash[d.Hash.String()] = i
	}
	var names []string
	for n := range packs {
		names = append(names, n)
	}
	sort.Strings(names)
	for _, n := range names {
		k.packs[packs[n].String()] = n
	}
	var lines []string
	for _, e := range rec.Events {
		l := e.Op + " " + k.path(e.Path)
		if e.Op == "rename" {
			l += " -> " + k.path(e.Path2)
		}
		if e.Op == "write" {
			l += fmt.Sprintf(" [%d@%d]", len(e.Data), e.Off)
		}
		if e.Op == "create" || e.Op == "open" {
			l += fmt.Sprintf(" flag=%x", e.Flag)
		}
		lines = append(lines, l)
	}
	es := ""
	if opErr != nil {
		es = opErr.Error()
	}
	return lib.Ok(), map[string]any{"trace": lines, "error": es}
}


