// c38: implementation side of the C38 correspondence: Remote.PushContext driven
// through a recording transport (client.WithTransport), so the whole of
// sendPack — refspec handling, command construction, update rules, object
// selection, pack encoding — runs on the real code.
package main

import (
	"context"
	"errors"
	"io"
	"sort"
	"strings"

	git "github.com/go-git/go-git/v6"
	"github.com/go-git/go-git/v6/config"
	"github.com/go-git/go-git/v6/plumbing"
	"github.com/go-git/go-git/v6/plumbing/client"
	"github.com/go-git/go-git/v6/plumbing/format/packfile"
	"github.com/go-git/go-git/v6/plumbing/protocol/capability"
	"github.com/go-git/go-git/v6/plumbing/protocol/packp"
	"github.com/go-git/go-git/v6/plumbing/transport"
	"github.com/go-git/go-git/v6/storage"
	"github.com/go-git/go-git/v6/storage/memory"

	"verif/harness/lib"
)

var types = map[string]plumbing.ObjectType{
	"commit": plumbing.CommitObject, "tree": plumbing.TreeObject,
	"blob": plumbing.BlobObject, "tag": plumbing.TagObject,
}

type recSession struct {
	caps  *capability.List
	refs  []*plumbing.Reference
	cmds  []*packp.Command
	objs  []plumbing.Hash
	atom  bool
	opts  []string
	calls int
}

func (s *recSession) Capabilities() *capability.List { return s.caps }
func (s *recSession) GetRemoteRefs(context.Context, *transport.GetRemoteRefsOptions) (*transport.RemoteRefs, error) {
	return &transport.RemoteRefs{References: s.refs}, nil
}
func (s *recSession) Fetch(context.Context, storage.Storer, *transport.FetchRequest) error {
	return errors.New("harness: unexpected Fetch")
}
func (s *recSession) Push(_ context.Context, _ storage.Storer, req *transport.PushRequest) error {
	s.calls++
	s.cmds = req.Commands
	s.atom = req.Atomic
	s.opts = req.Options
	if req.Packfile != nil {
		st := memory.NewStorage()
		if err := packfile.UpdateObjectStorage(st, req.Packfile); err != nil {
			io.Copy(io.Discard, req.Packfile)
			return errors.New("harness: pack unreadable: " + err.Error())
		}
		req.Packfile.Close()
		for h := range st.Objects {
			s.objs = append(s.objs, h)
		}
	}
	return nil
}
func (s *recSession) Close() error { return nil }

type recTransport struct{ s *recSession }

func (t *recTransport) Handshake(context.Context, *transport.Request) (transport.Session, error) {
	return t.s, nil
}

func isRevlistErr(m string) bool {
	for _, p := range []string{"getting ", "commit ", "decoding ", "diffing ", "collecting ", "unsupported object"} {
		if strings.HasPrefix(m, p) {
			return true
		}
	}
	return false
}

func main() {
	lib.Main(func(c lib.Case) (lib.Out, any) {
		st := memory.NewStorage()
		ids := map[plumbing.Hash]int64{plumbing.ZeroHash: 0}
		hashOf := map[int64]plumbing.Hash{0: plumbing.ZeroHash}
		for k, v := range c.M("hashes") {
			var id int64
			for _, ch := range k {
				id = id*10 + int64(ch-'0')
			}
			h := plumbing.NewHash(v.(string))
			ids[h] = id
			hashOf[id] = h
		}
		for _, x := range c.L("objs") {
			o := lib.AsCase(x)
			mo := &plumbing.MemoryObject{}
			mo.SetType(types[o.S("t")])
			mo.Write(o.B("data"))
			h, err := st.SetEncodedObject(mo)
			if err != nil || h != hashOf[o.I("id")] {
				panic("harness: cannot store object")
			}
		}
		idOf := func(x any) int64 { return lib.Case{"v": x}.I("v") }
		var sh []plumbing.Hash
		for _, x := range c.L("shallow") {
			sh = append(sh, hashOf[idOf(x)])
		}
		if len(sh) > 0 {
			st.SetShallow(sh)
		}
		mkref := func(x any) *plumbing.Reference {
			l := x.([]any)
			name := plumbing.ReferenceName(lib.Unhex(l[0].(string)))
			if l[1].(string) == "s" {
				return plumbing.NewSymbolicReference(name, plumbing.ReferenceName(lib.Unhex(l[2].(string))))
			}
			return plumbing.NewHashReference(name, hashOf[idOf(l[2])])
		}
		for _, x := range c.L("local") {
			if err := st.SetReference(mkref(x)); err != nil {
				panic(err)
			}
		}
		sess := &recSession{caps: &capability.List{}}
		sess.caps.Set(string(capability.ReportStatus))
		sess.caps.Set(string(capability.OFSDelta))
		if c.Bool("delete_refs_cap") {
			sess.caps.Set(string(capability.DeleteRefs))
		}
		for _, x := range c.L("remote") {
			sess.refs = append(sess.refs, mkref(x))
		}
		rem := git.NewRemote(st, &config.RemoteConfig{
			Name: "origin", URLs: []string{"fake://host/repo"},
			Fetch: []config.RefSpec{"+refs/heads/*:refs/remotes/origin/*"},
		})
		o := &git.PushOptions{
			RemoteName: "origin", Force: c.Bool("force"), Prune: c.Bool("prune"), FollowTags: c.Bool("follow_tags"),
			Atomic:        c.Bool("atomic"),
			ClientOptions: []client.Option{client.WithTransport("fake", &recTransport{sess})},
		}
		for _, s := range c.SL("specs") {
			o.RefSpecs = append(o.RefSpecs, config.RefSpec(lib.Unhex(s)))
		}
		if l := c.M("lease"); l != nil {
			o.ForceWithLease = &git.ForceWithLease{RefName: plumbing.ReferenceName(l.B("ref")), Hash: hashOf[l.I("id")]}
		}
		err := rem.PushContext(context.Background(), o)
		if err != nil {
			m := err.Error()
			switch {
			case errors.Is(err, git.NoErrAlreadyUpToDate):
				return lib.Err("uptodate"), m
			case errors.Is(err, git.ErrDeleteRefNotSupported):
				return lib.Err("delete_unsupported"), m
			case errors.Is(err, config.ErrRefSpecMalformedSeparator), errors.Is(err, config.ErrRefSpecMalformedWildcard):
				return lib.Err("invalid"), m
			case isRevlistErr(m):
				return lib.Err("revlist"), m
			case strings.HasPrefix(m, "harness:"):
				panic(m)
			default:
				return lib.Err("rejected"), m
			}
		}
		if sess.calls != 1 {
			panic("harness: Push called " + string(rune('0'+sess.calls)) + " times")
		}
		type cm struct {
			n        string
			old, new int64
		}
		var cs []cm
		for _, k := range sess.cmds {
			o, ok1 := ids[k.Old]
			n, ok2 := ids[k.New]
			if !ok1 || !ok2 {
				panic("harness: command hash unknown to the generator")
			}
			cs = append(cs, cm{string(k.Name), o, n})
		}
		sort.Slice(cs, func(i, j int) bool {
			if cs[i].n != cs[j].n {
				return cs[i].n < cs[j].n
			}
			if cs[i].old != cs[j].old {
				return cs[i].old < cs[j].old
			}
			return cs[i].new < cs[j].new
		})
		var co []lib.Out
		for _, k := range cs {
			co = append(co, lib.List(lib.Str(k.n), lib.Int(k.old), lib.Int(k.new)))
		}
		var os []int64
		for _, h := range sess.objs {
			id, ok := ids[h]
			if !ok {
				panic("harness: packed object unknown to the generator")
			}
			os = append(os, id)
		}
		sort.Slice(os, func(i, j int) bool { return os[i] < os[j] })
		var oo []lib.Out
		for _, v := range os {
			oo = append(oo, lib.Int(v))
		}
		// local remote-tracking references after the push (updateRemoteReferenceStorage)
		return lib.Ok(lib.List(co...), lib.List(oo...)), nil
	})
}
