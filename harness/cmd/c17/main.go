// c17: implementation side of the C17 correspondence (storage backends).
// case: {backends: [backend spec, ...], names, objs, ops: calls on the storer,
//        where ["reopen"] closes and reopens a filesystem storer on the same files}
// observable: ( ( (results) snapshot ) per backend )
package main

import (
	"verif/harness/b10store"
	"verif/harness/lib"
)

func main() {
	lib.Main(func(c lib.Case) (lib.Out, any) {
		// the first backend is the memory storer; the others are filesystem storers under
		// different options.  When all filesystem observables are equal, one is reported;
		// otherwise all of them (which no model observable can match).
		var outs []lib.Out
		distinct := map[string]bool{}
		for i, spec := range c.SL("backends") {
			o := runOne(c, spec)
			if i > 0 {
				r := lib.Render(o)
				if distinct[r] {
					continue
				}
				distinct[r] = true
			}
			outs = append(outs, o)
		}
		return lib.List(outs...), nil
	})
}

func runOne(c lib.Case, spec string) (out lib.Out) {
	u := b10store.NewUniverse(c, b10store.Format(spec))
	st, be, err := b10store.Open(spec)
	if err != nil {
		panic(err)
	}
	defer func() { be.Close(st) }()
	var results []lib.Out
	for _, x := range c.L("ops") {
		op := x.([]any)
		if name, _ := op[0].(string); name == "reopen" {
			st = be.Reopen(st)
			results = append(results, lib.Sym("ok"))
			continue
		}
		results = append(results, u.Step(st, op))
	}
	return lib.List(lib.List(results...), u.Snapshot(st))
}
