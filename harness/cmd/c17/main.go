// c17: implementation side of the C17 correspondence (storage backends).
// case: {backends: [backend spec, ...], names, objs, ops: calls on the storer,
//        where ["reopen"] closes and reopens a filesystem storer on the same files}
// observable: ( ( (results) snapshot ) per backend )
package main

import (
	"errors"
	"os"
	"sort"
	"strconv"
	"strings"

	"github.com/go-git/go-git/v6/plumbing"
	"github.com/go-git/go-git/v6/plumbing/storer"
	"github.com/go-git/go-git/v6/storage"

	"verif/harness/b10store"
	"verif/harness/lib"
)

func main() {
	lib.Main(func(c lib.Case) (lib.Out, any) {
		// the first backend is the memory storer; the others are filesystem storers under
		// different options.  When all filesystem observables are equal, one is reported;
		// otherwise all of them (which no model observable can match).
		var outs []lib.Out
		distinct := map[string]bool{}
		for i, spec := range c.SL("backends") {
			o := runOne(c, spec)
			if i > 0 {
				r := lib.Render(o)
				if distinct[r] {
					continue
				}
				distinct[r] = true
			}
			outs = append(outs, o)
		}
		return lib.List(outs...), nil
	})
}

func runOne(c lib.Case, spec string) (out lib.Out) {
	u := b10store.NewUniverse(c, b10store.Format(spec))
	st, be, err := b10store.Open(spec)
	if err != nil {
		panic(err)
	}
	defer func() { be.Close(st) }()
	var results []lib.Out
	for _, x := range c.L("ops") {
		op := x.([]any)
		if name, _ := op[0].(string); name == "reopen" {
			st = be.Reopen(st)
			results = append(results, lib.Sym("ok"))
			continue
		}
		if o, ok := looseStep(u, st, spec, op); ok {
			results = append(results, o)
			continue
		}
		results = append(results, u.Step(st, op))
	}
	return lib.List(lib.List(results...), u.Snapshot(st))
}

// looseStep answers the calls of storer.LooseObjectStorer:
//   ["delobj", k]   DeleteLooseObject(hash of k): ok | eNE (no such loose object file) |
//                   eNS (the memory storer refuses: no loose objects)
//   ["eachhash"]    ForEachObjectHash: I(_<k>)* — every id seen, sorted, duplicates kept
func looseStep(u *b10store.Universe, st storage.Storer, spec string, op []any) (lib.Out, bool) {
	name, _ := op[0].(string)
	if name != "delobj" && name != "eachhash" {
		return nil, false
	}
	los, ok := st.(storer.LooseObjectStorer)
	if !ok {
		return lib.Sym("eXnoloose"), true
	}
	if name == "delobj" {
		var k int64
		switch v := op[1].(type) {
		case float64:
			k = int64(v)
		case interface{ Int64() (int64, error) }:
			k, _ = v.Int64()
		}
		err := los.DeleteLooseObject(u.Hash(int(k)))
		switch {
		case err == nil:
			return lib.Sym("ok"), true
		case errors.Is(err, os.ErrNotExist):
			return lib.Sym("eNE"), true
		case strings.HasPrefix(spec, "memory"):
			return lib.Sym("eNS"), true
		}
		return b10store.ErrClass(err), true
	}
	var ids []int
	unknown := 0
	err := los.ForEachObjectHash(func(h plumbing.Hash) error {
		if i, ok := u.IdxOf(h); ok {
			ids = append(ids, i)
		} else {
			unknown++
		}
		return nil
	})
	if err != nil {
		return b10store.ErrClass(err), true
	}
	sort.Ints(ids)
	var b strings.Builder
	b.WriteString("I")
	for _, i := range ids {
		b.WriteString("_" + strconv.Itoa(i))
	}
	for i := 0; i < unknown; i++ {
		b.WriteString("_Xunknown")
	}
	return lib.Sym(b.String()), true
}
