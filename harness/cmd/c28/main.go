// c28: implementation side of the C28 correspondence: one porcelain operation
// (add / add-all / rm / mv / clean / commit) applied by go-git to a repository
// built from a recipe, next to the equivalent git command applied to a copy.
package main

import (
	"bytes"
	"io"
	"os"
	"path/filepath"
	"sort"
	"strings"
	"time"

	git "github.com/go-git/go-git/v6"
	"github.com/go-git/go-git/v6/plumbing"
	"github.com/go-git/go-git/v6/plumbing/filemode"
	"github.com/go-git/go-git/v6/plumbing/object"
	"golang.org/x/sys/unix"

	"verif/harness/lib"
	"verif/harness/porc"
)

func recipe(c lib.Case) *porc.Recipe {
	rc := &porc.Recipe{Format: c.S("fmt"), AutoCRLF: c.S("autocrlf"), Exclude: string(c.B("exclude")), Racy: c.Bool("racy"),
		NoIndex: c.Bool("noindex")}
	if v, ok := c["filemode"].(bool); ok {
		rc.FileMode = &v
	}
	rc.Head = porc.Entries(c.L("head"))
	rc.Index = porc.Entries(c.L("index"))
	rc.Wt = porc.Entries(c.L("wt"))
	rc.Dirs = c.SL("dirs")
	return rc
}

// copyTree copies src to dst keeping modes, symlinks and mtimes.
func copyTree(src, dst string) {
	filepath.Walk(src, func(p string, fi os.FileInfo, err error) error {
		if err != nil {
			panic(err)
		}
		rel, _ := filepath.Rel(src, p)
		to := filepath.Join(dst, rel)
		switch {
		case fi.IsDir():
			os.MkdirAll(to, 0o755)
		case fi.Mode()&os.ModeSymlink != 0:
			t, _ := os.Readlink(p)
			os.Symlink(t, to)
			ts := []unix.Timespec{unix.NsecToTimespec(fi.ModTime().UnixNano()), unix.NsecToTimespec(fi.ModTime().UnixNano())}
			unix.UtimesNanoAt(unix.AT_FDCWD, to, ts, unix.AT_SYMLINK_NOFOLLOW)
		default:
			b, err := os.ReadFile(p)
			if err != nil {
				panic(err)
			}
			os.WriteFile(to, b, fi.Mode().Perm())
			os.Chmod(to, fi.Mode().Perm())
			os.Chtimes(to, fi.ModTime(), fi.ModTime())
		}
		return nil
	})
}

type ent struct {
	path, mode string
	data       []byte
}

func modeName(m filemode.FileMode) string {
	switch m {
	case filemode.Regular:
		return "f"
	case filemode.Executable:
		return "x"
	case filemode.Symlink:
		return "l"
	case filemode.Submodule:
		return "s"
	case filemode.Dir:
		return "d"
	}
	return "other"
}

func blob(r *git.Repository, h plumbing.Hash) []byte {
	b, err := r.BlobObject(h)
	if err != nil {
		return []byte("<missing " + h.String() + ">")
	}
	rd, err := b.Reader()
	if err != nil {
		return []byte("<unreadable>")
	}
	defer rd.Close()
	d, _ := io.ReadAll(rd)
	return d
}

// indexOf lists the index of the repository at dir: (path, mode, content, stage).
func indexOf(dir string) ([]ent, error) {
	r, err := git.PlainOpen(dir)
	if err != nil {
		return nil, err
	}
	defer r.Close()
	idx, err := r.Storer.Index()
	if err != nil {
		return nil, err
	}
	var out []ent
	for _, e := range idx.Entries {
		m := modeName(e.Mode)
		if e.Stage != 0 {
			m += "#" + string(rune('0'+int(e.Stage)))
		}
		out = append(out, ent{e.Name, m, blob(r, e.Hash)})
	}
	sort.Slice(out, func(i, j int) bool { return out[i].path < out[j].path })
	return out, nil
}

func worktreeOf(dir string) []ent {
	var out []ent
	filepath.Walk(dir, func(p string, fi os.FileInfo, err error) error {
		if err != nil {
			return nil
		}
		rel, _ := filepath.Rel(dir, p)
		if rel == ".git" {
			return filepath.SkipDir
		}
		rel = filepath.ToSlash(rel)
		switch {
		case fi.IsDir():
			if rel != "." {
				if es, _ := os.ReadDir(p); len(es) == 0 {
					out = append(out, ent{rel, "d", nil})
				}
			}
		case fi.Mode()&os.ModeSymlink != 0:
			t, _ := os.Readlink(p)
			out = append(out, ent{rel, "l", []byte(t)})
		default:
			b, _ := os.ReadFile(p)
			m := "f"
			if fi.Mode().Perm()&0o100 != 0 {
				m = "x"
			}
			out = append(out, ent{rel, m, b})
		}
		return nil
	})
	sort.Slice(out, func(i, j int) bool { return out[i].path < out[j].path })
	return out
}

func treeOf(r *git.Repository, h plumbing.Hash) []ent {
	t, err := r.TreeObject(h)
	if err != nil {
		return []ent{{"<no tree>", "other", nil}}
	}
	var out []ent
	w := object.NewTreeWalker(t, true, nil)
	defer w.Close()
	for {
		name, e, err := w.Next()
		if err != nil {
			break
		}
		if e.Mode == filemode.Dir {
			continue
		}
		out = append(out, ent{name, modeName(e.Mode), blob(r, e.Hash)})
	}
	sort.Slice(out, func(i, j int) bool { return out[i].path < out[j].path })
	return out
}

func render(es []ent) lib.Out {
	var l []lib.Out
	for _, e := range es {
		if e.mode == "d" {
			continue // empty directories are compared by the oracle only
		}
		l = append(l, lib.List(lib.Str(e.path), lib.Sym(strings.ReplaceAll(e.mode, "#", "_stage")), lib.Bytes(e.data)))
	}
	return lib.List(l...)
}

func plain(es []ent) []string {
	var l []string
	for _, e := range es {
		l = append(l, e.mode+" "+e.path+" "+string(bytes.ToValidUTF8(e.data, []byte("?"))))
	}
	return l
}

// prepareHead shapes the history and HEAD of the repository (before it is copied):
// hist 2: a second commit on top of the first; hist 3: HEAD's commit is a merge of
// its predecessor and a side commit; hk "detached": HEAD holds the hash; merge:
// .git/MERGE_HEAD names an unrelated commit.  Returns the names of the known commits.
func prepareHead(a *porc.Repo, c lib.Case) map[string]string {
	known := map[string]string{}
	rev := func(x string) string { return strings.TrimSpace(string(a.Git("rev-parse", x))) }
	hist := c.I("hist")
	if hist >= 1 {
		switch hist {
		case 2:
			p := rev("HEAD")
			known[p] = "p"
			h2 := strings.TrimSpace(string(a.Git("commit-tree", "HEAD^{tree}", "-p", p, "-m", "second")))
			a.Git("update-ref", "HEAD", h2)
		case 3:
			p := rev("HEAD")
			known[p] = "p"
			side := strings.TrimSpace(string(a.Git("commit-tree", "HEAD^{tree}", "-p", p, "-m", "side")))
			known[side] = "s"
			m := strings.TrimSpace(string(a.Git("commit-tree", "HEAD^{tree}", "-p", p, "-p", side, "-m", "merge")))
			a.Git("update-ref", "HEAD", m)
		}
		known[rev("HEAD")] = "h"
		if c.S("hk") == "detached" {
			a.Git("update-ref", "--no-deref", "HEAD", rev("HEAD"))
		}
		if c.Bool("merge") {
			// an unrelated root commit: `git commit` drops a MERGE_HEAD that is a descendant of HEAD (reduce_heads)
			m := strings.TrimSpace(string(a.Git("commit-tree", "HEAD^{tree}", "-m", "other")))
			known[m] = "m"
			os.WriteFile(a.Path(".git/MERGE_HEAD"), []byte(m+"\n"), 0o644)
			os.WriteFile(a.Path(".git/MERGE_MODE"), nil, 0o644)
			os.WriteFile(a.Path(".git/MERGE_MSG"), []byte("merge\n"), 0o644)
		}
	}
	return known
}

// headObs renders what a commit attempt did: result, parents of the new commit,
// kind of HEAD, whether HEAD / the branch now point at a new commit.
func headObs(res string, parents []string, known map[string]string, sym bool, headHash, branchHash string) lib.Out {
	var ps []lib.Out
	if res == "ok" {
		for _, p := range parents {
			n, ok := known[p]
			if !ok {
				n = "other"
			}
			ps = append(ps, lib.Sym(n))
		}
	}
	kind := "det"
	if sym {
		kind = "sym"
	}
	isNew := func(h string) bool { _, k := known[h]; return h != "" && !k }
	if res != "ok" {
		return lib.List(lib.Sym(res), lib.List(), lib.Sym(kind), lib.Bool(false), lib.Bool(false))
	}
	return lib.List(lib.Sym(res), lib.List(ps...), lib.Sym(kind), lib.Bool(isNew(headHash)), lib.Bool(isNew(branchHash)))
}

func commitHead(a, b *porc.Repo, c lib.Case, known map[string]string, extra map[string]any) (lib.Out, any) {
	// ---- go-git on A
	repo, err := git.PlainOpen(a.Dir)
	if err != nil {
		return lib.Err("open"), err.Error()
	}
	w, err := repo.Worktree()
	if err != nil {
		return lib.Err("worktree"), err.Error()
	}
	h, operr := w.Commit("msg", &git.CommitOptions{Author: sig, Committer: sig, AllowEmptyCommits: c.Bool("allow"), Amend: c.Bool("amend")})
	res := "ok"
	var parents []string
	if operr != nil {
		res = "err"
		if operr == git.ErrEmptyCommit {
			res = "empty"
		}
		extra["err"] = operr.Error()
	} else if co, e2 := repo.CommitObject(h); e2 == nil {
		for _, p := range co.ParentHashes {
			parents = append(parents, p.String())
		}
		extra["tree_id"] = co.TreeHash.String()
	} else {
		res = "err"
		extra["err"] = e2.Error()
	}
	sym := false
	headHash, branchHash := "", ""
	if ref, e2 := repo.Storer.Reference(plumbing.HEAD); e2 == nil {
		sym = ref.Type() == plumbing.SymbolicReference
	}
	if ref, e2 := repo.Head(); e2 == nil {
		headHash = ref.Hash().String()
	}
	if ref, e2 := repo.Storer.Reference(plumbing.ReferenceName("refs/heads/main")); e2 == nil {
		branchHash = ref.Hash().String()
	}
	repo.Close()
	out := headObs(res, parents, known, sym, headHash, branchHash)

	// ---- git on B
	args := []string{"commit", "-q", "--no-verify", "-m", "msg"}
	if c.Bool("allow") {
		args = append(args, "--allow-empty")
	}
	if c.Bool("amend") {
		args = append(args, "--amend")
	}
	before, _ := b.GitAt(b.Dir, nil, "rev-parse", "-q", "--verify", "HEAD")
	_, gerr := b.GitAt(b.Dir, nil, args...)
	gres := "ok"
	if gerr != nil {
		extra["giterr"] = gerr.Error()
		gres = "err"
		after, _ := b.GitAt(b.Dir, nil, "rev-parse", "-q", "--verify", "HEAD")
		if string(before) != string(after) {
			gres = "err-but-moved"
		} else if !strings.Contains(gerr.Error(), "fatal:") && !strings.Contains(gerr.Error(), "error:") {
			// exit status 1 without an error message: nothing to commit / the amended commit would be empty
			gres = "empty"
		}
	}
	var gparents []string
	gsym := false
	ghead, gbranch := "", ""
	if _, e2 := b.GitAt(b.Dir, nil, "symbolic-ref", "-q", "HEAD"); e2 == nil {
		gsym = true
	}
	if o, e2 := b.GitAt(b.Dir, nil, "rev-list", "--parents", "-n", "1", "HEAD"); e2 == nil {
		f := strings.Fields(string(o))
		if len(f) > 0 {
			ghead = f[0]
			gparents = f[1:]
		}
	}
	if o, e2 := b.GitAt(b.Dir, nil, "rev-parse", "-q", "--verify", "refs/heads/main"); e2 == nil {
		gbranch = strings.TrimSpace(string(o))
	}
	if gres == "ok" {
		o, _ := b.GitAt(b.Dir, nil, "rev-parse", "HEAD^{tree}")
		extra["git_tree_id"] = strings.TrimSpace(string(o))
	}
	extra["git_obs"] = lib.Render(headObs(gres, gparents, known, gsym, ghead, gbranch))
	extra["obs"] = lib.Render(out)
	return out, extra
}

var sig = &object.Signature{Name: "v", Email: "v@v", When: time.Unix(1600000100, 0).UTC()}

func main() {
	porc.Main(func(c lib.Case) (lib.Out, any) {
		a := porc.New()
		defer a.Close()
		a.Build(recipe(c))
		op := c.S("op")
		var known map[string]string
		if op == "commithead" {
			known = prepareHead(a, c)
		}
		// the copy git works on
		b := &porc.Repo{Root: a.Root, Dir: filepath.Join(a.Root, "g"), Env: a.Env}
		copyTree(a.Dir, b.Dir)
		extra := map[string]any{}
		if op == "commithead" {
			return commitHead(a, b, c, known, extra)
		}

		// ---- go-git on A
		repo, err := git.PlainOpen(a.Dir)
		if err != nil {
			return lib.Err("open"), err.Error()
		}
		w, err := repo.Worktree()
		if err != nil {
			return lib.Err("worktree"), err.Error()
		}
		var operr error
		var tree []ent
		switch op {
		case "add":
			_, operr = w.Add(c.S("path"))
		case "addall":
			operr = w.AddWithOptions(&git.AddOptions{All: true})
		case "addglob":
			operr = w.AddGlob(c.S("path"))
		case "rmglob":
			operr = w.RemoveGlob(c.S("path"))
		case "rm":
			_, operr = w.Remove(c.S("path"))
		case "mv":
			_, operr = w.Move(c.S("path"), c.S("to"))
		case "clean":
			operr = w.Clean(&git.CleanOptions{Dir: c.Bool("dir")})
		case "commit":
			var h plumbing.Hash
			h, operr = w.Commit("msg", &git.CommitOptions{Author: sig, Committer: sig, AllowEmptyCommits: true})
			if operr == nil {
				co, err := repo.CommitObject(h)
				if err != nil {
					operr = err
				} else {
					tree = treeOf(repo, co.TreeHash)
					extra["tree_id"] = co.TreeHash.String()
					ref, _ := repo.Head()
					extra["head_is_commit"] = ref != nil && ref.Hash() == h
					extra["head_name"] = ""
					if ref != nil {
						extra["head_name"] = ref.Name().String()
					}
					extra["parents"] = len(co.ParentHashes)
				}
			}
		default:
			panic("unknown op " + op)
		}
		repo.Close()
		if operr != nil {
			extra["err"] = operr.Error()
		}
		ia, ierr := indexOf(a.Dir)
		if ierr != nil {
			extra["index_err_a"] = ierr.Error()
		}
		wa := worktreeOf(a.Dir)
		// git must be able to read what go-git wrote
		if out, e2 := a.GitAt(a.Dir, nil, "ls-files", "-s"); e2 != nil {
			extra["git_cannot_read_index"] = e2.Error()
		} else {
			extra["git_ls_a"] = strings.Count(string(out), "\n")
		}

		// ---- git on B
		var gerr error
		switch op {
		case "add":
			_, gerr = b.GitAt(b.Dir, nil, "add", "--", c.S("path"))
		case "addall":
			_, gerr = b.GitAt(b.Dir, nil, "add", "-A")
		case "addglob":
			// what a shell makes of the unquoted pattern: its expansion in the worktree (Go's own
			// path/filepath.Glob, independent of go-billy's), the repository directory left out
			ms, _ := filepath.Glob(filepath.Join(b.Dir, filepath.FromSlash(c.S("path"))))
			args := []string{"add", "--"}
			for _, m := range ms {
				rel, _ := filepath.Rel(b.Dir, m)
				rel = filepath.ToSlash(rel)
				if rel == ".git" || strings.HasPrefix(rel, ".git/") {
					continue
				}
				args = append(args, ":(literal)"+rel)
			}
			if len(args) == 2 {
				gerr = os.ErrNotExist
			} else {
				_, gerr = b.GitAt(b.Dir, nil, args...)
			}
		case "rmglob":
			_, gerr = b.GitAt(b.Dir, nil, "rm", "-r", "-f", "-q", "--", c.S("path"))
		case "rm":
			_, gerr = b.GitAt(b.Dir, nil, "rm", "-r", "-f", "-q", "--", c.S("path"))
		case "mv":
			_, gerr = b.GitAt(b.Dir, nil, "mv", "--", c.S("path"), c.S("to"))
		case "clean":
			args := []string{"clean", "-f", "-q"}
			if c.Bool("dir") {
				args = append(args, "-d")
			}
			_, gerr = b.GitAt(b.Dir, nil, args...)
		case "commit":
			var out []byte
			out, gerr = b.GitAt(b.Dir, nil, "write-tree")
			extra["git_tree_id"] = strings.TrimSpace(string(out))
		}
		if gerr != nil {
			extra["giterr"] = gerr.Error()
		}
		ib, ierrb := indexOf(b.Dir)
		if ierrb != nil {
			extra["index_err_b"] = ierrb.Error()
		}
		wb := worktreeOf(b.Dir)
		extra["a_index"], extra["b_index"] = plain(ia), plain(ib)
		extra["a_wt"], extra["b_wt"] = plain(wa), plain(wb)
		if op == "mv" || op == "add" || op == "addall" || op == "addglob" {
			sa, _ := a.GitStatus()
			b2 := b
			out, _ := b2.GitAt(b.Dir, nil, "-c", "core.quotepath=false", "status", "--porcelain=v1", "-z", "--untracked-files=all", "--no-renames")
			var sb []string
			for _, rec := range bytes.Split(out, []byte{0}) {
				if len(rec) > 0 {
					sb = append(sb, string(rec))
				}
			}
			sort.Strings(sb)
			extra["a_status"], extra["b_status"] = sa, sb
		}
		res := lib.Sym("ok")
		if operr != nil {
			res = lib.Sym("err")
		}
		if op == "commit" {
			var id []byte
			if tid, ok := extra["tree_id"].(string); ok && operr == nil {
				id = lib.Unhex(tid)
			}
			return lib.List(res, render(tree), lib.Bytes(id)), extra
		}
		return lib.List(res, render(ia), render(wa)), extra
	}, 16)
}
