// c12: implementation side of the C12 correspondence (index file codec).
//
//	kind "dec": bytes -> Decoder.Decode -> canonical rendering of the Index
//	kind "enc": in-memory Index -> Encoder.Encode -> bytes, and the decode of those bytes
package main

import (
	"bytes"
	"crypto"
	"crypto/sha1"
	"crypto/sha256"
	"errors"
	"io"
	"sort"
	"strconv"
	"time"

	"github.com/go-git/go-git/v6/plumbing"
	"github.com/go-git/go-git/v6/plumbing/filemode"
	"github.com/go-git/go-git/v6/plumbing/format/index"
	"github.com/go-git/go-git/v6/plumbing/hash"
	"github.com/go-git/go-git/v6/utils/binary"

	"verif/harness/lib"
)

func hasher(hs int64) hash.Hash {
	if hs == 32 {
		return hash.New(crypto.SHA256)
	}
	return hash.New(crypto.SHA1)
}

func errClass(err error) string {
	var ne *strconv.NumError
	switch {
	case err == nil:
		return "ok"
	case errors.Is(err, io.EOF), errors.Is(err, io.ErrUnexpectedEOF):
		return "eof"
	case errors.Is(err, index.ErrMalformedSignature):
		return "malformed_signature"
	case errors.Is(err, index.ErrUnsupportedVersion):
		return "unsupported_version"
	case errors.Is(err, index.ErrMalformedIndexFile):
		return "malformed"
	case errors.Is(err, index.ErrUnknownExtension):
		return "unknown_extension"
	case errors.Is(err, index.ErrInvalidChecksum):
		return "invalid_checksum"
	case errors.Is(err, binary.ErrIntegerOverflow):
		return "overflow"
	case errors.Is(err, index.ErrInvalidTimestamp):
		return "invalid_timestamp"
	case errors.As(err, &ne):
		return "syntax"
	}
	return "other"
}

// long byte strings are compared by length and a 32-bit polynomial digest (mirrors Model/IndexFile.obytes)
func obytes(b []byte) lib.Out {
	if len(b) <= 64 {
		return lib.Bytes(b)
	}
	var h uint64
	for _, c := range b {
		h = (h*1000003 + uint64(c) + 1) % 4294967291
	}
	return lib.List(lib.Sym("long"), lib.Int(int64(len(b))), lib.Uint(h))
}

func tm(t time.Time) (lib.Out, lib.Out) {
	if t.IsZero() {
		return lib.Int(0), lib.Int(0)
	}
	return lib.Int(t.Unix()), lib.Int(int64(t.Nanosecond()))
}

func renderEntry(e *index.Entry) lib.Out {
	cs, cn := tm(e.CreatedAt)
	ms, mn := tm(e.ModifiedAt)
	return lib.List(obytes([]byte(e.Name)), lib.Int(int64(e.Stage)), cs, cn, ms, mn,
		lib.Uint(uint64(e.Dev)), lib.Uint(uint64(e.Inode)), lib.Uint(uint64(e.Mode)),
		lib.Uint(uint64(e.UID)), lib.Uint(uint64(e.GID)), lib.Uint(uint64(e.Size)),
		lib.Bytes(e.Hash.Bytes()), lib.Bool(e.SkipWorktree), lib.Bool(e.IntentToAdd))
}

func renderIndex(idx *index.Index) lib.Out {
	var es []lib.Out
	for _, e := range idx.Entries {
		es = append(es, renderEntry(e))
	}
	cache := lib.None()
	if idx.Cache != nil {
		var ts []lib.Out
		for _, t := range idx.Cache.Entries {
			ts = append(ts, lib.List(lib.Str(t.Path), lib.Int(int64(t.Entries)), lib.Int(int64(t.Trees)), lib.Bytes(t.Hash.Bytes())))
		}
		cache = lib.Some(lib.List(ts...))
	}
	reuc := lib.None()
	if idx.ResolveUndo != nil {
		var rs []lib.Out
		for _, r := range idx.ResolveUndo.Entries {
			var st []int
			for s := range r.Stages {
				st = append(st, int(s))
			}
			sort.Ints(st)
			var ss []lib.Out
			for _, s := range st {
				ss = append(ss, lib.List(lib.Int(int64(s)), lib.Bytes(r.Stages[index.Stage(s)].Bytes())))
			}
			rs = append(rs, lib.List(lib.Str(r.Path), lib.List(ss...)))
		}
		reuc = lib.Some(lib.List(rs...))
	}
	eoie := lib.None()
	if idx.EndOfIndexEntry != nil {
		eoie = lib.Some(lib.List(lib.Uint(uint64(idx.EndOfIndexEntry.Offset)), lib.Bytes(idx.EndOfIndexEntry.Hash.Bytes())))
	}
	return lib.Ok(lib.Uint(uint64(idx.Version)), lib.List(es...), cache, reuc, eoie)
}

func decode(data []byte, hs int64, skip bool) lib.Out {
	var opts []index.Option
	if skip {
		opts = append(opts, index.WithSkipHash())
	}
	idx := &index.Index{}
	err := index.NewDecoder(bytes.NewReader(data), hasher(hs), opts...).Decode(idx)
	if err != nil {
		return lib.Err(errClass(err))
	}
	return renderIndex(idx)
}

func mkTime(s, n int64, zero bool) time.Time {
	if zero {
		return time.Time{}
	}
	return time.Unix(s, n)
}

func mkIndex(c lib.Case, hs int64) *index.Index {
	idx := &index.Index{Version: uint32(c.U("version"))}
	for _, x := range c.L("entries") {
		e := lib.AsCase(x)
		h := make([]byte, hs)
		copy(h, e.B("hash"))
		id, _ := plumbing.FromBytes(h)
		idx.Entries = append(idx.Entries, &index.Entry{
			Name: string(e.B("name")), Stage: index.Stage(e.I("stage")), Hash: id,
			CreatedAt:  mkTime(e.I("cs"), e.I("cn"), e.Bool("czero")),
			ModifiedAt: mkTime(e.I("ms"), e.I("mn"), e.Bool("mzero")),
			Dev:        uint32(e.U("dev")), Inode: uint32(e.U("ino")), Mode: filemode.FileMode(e.U("mode")),
			UID: uint32(e.U("uid")), GID: uint32(e.U("gid")), Size: uint32(e.U("size")),
			SkipWorktree: e.Bool("skip"), IntentToAdd: e.Bool("ita"),
		})
	}
	return idx
}

func sum(hs int64, b []byte) []byte {
	if hs == 32 {
		s := sha256.Sum256(b)
		return s[:]
	}
	s := sha1.Sum(b)
	return s[:]
}

// an observable whose text is long is replaced by its length and a digest (mirrors Model/IndexFile.c12_short:
// coqc cannot read back a rendered value of more than a few 10^4 characters); the full text goes to extra["full"]
const shortLimit = 20000

func short(o lib.Out, extra map[string]any) (lib.Out, any) {
	s := lib.Render(o)
	if len(s) <= shortLimit {
		return o, extra
	}
	var h uint64
	for i := 0; i < len(s); i++ {
		h = (h*1000003 + uint64(s[i]) + 1) % 4294967291
	}
	extra["full"] = s
	return lib.List(lib.Sym("long"), lib.Int(int64(len(s))), lib.Uint(h)), extra
}

func main() {
	lib.Main(func(c lib.Case) (lib.Out, any) {
		hs := c.I("hs")
		if hs == 0 {
			hs = 20
		}
		switch c.S("kind") {
		case "dec":
			data := c.B("data")
			first := decode(data, hs, c.Bool("skiphash"))
			distinct := map[string]bool{lib.Render(first): true}
			for i := 0; i < int(c.I("repeat")); i++ {
				distinct[lib.Render(decode(data, hs, c.Bool("skiphash")))] = true
			}
			var all []string
			for k := range distinct {
				all = append(all, k)
			}
			sort.Strings(all)
			if len(all) == 1 {
				all = nil
			}
			return short(first, map[string]any{"distinct": len(distinct), "all": all})
		case "enc":
			idx := mkIndex(c, hs)
			var buf bytes.Buffer
			var opts []index.Option
			if c.Bool("skiphash") {
				opts = append(opts, index.WithSkipHash())
			}
			err := index.NewEncoder(&buf, hasher(hs), opts...).Encode(idx)
			if err != nil {
				return lib.Err(errClass(err)), nil
			}
			b := buf.Bytes()
			if int64(len(b)) < hs {
				return lib.Err("short"), nil
			}
			body, trailer := b[:int64(len(b))-hs], b[int64(len(b))-hs:]
			want := sum(hs, body)
			if c.Bool("skiphash") {
				want = make([]byte, hs)
			}
			back := decode(b, hs, false)
			return lib.Ok(obytes(body), lib.Bool(bytes.Equal(trailer, want)), back),
				map[string]any{"file": lib.Render(lib.Bytes(b))}
		}
		return lib.Err("bad_kind"), nil
	})
}
