// lookups.go: "decode, then every lookup API" targets. The Fuzz* mirrors in
// main.go replicate the repository's fuzz bodies, which probe a decoded
// structure with a fixed hash / a fixed offset only. The targets below take
// the same bytes and drive EVERY accessor of the decoded structure with
// arguments derived from the input itself (each name / offset / index that the
// tables mention, its neighbours, and the values one below / at / one past
// each table's length), so that a structurally valid file whose length, offset
// or count fields sit on a boundary reaches the code that dereferences them.
//
// Names are "verif/<format>.Lookups": they are not repository Fuzz entry points.
package main

import (
	"bytes"
	"crypto"
	_ "crypto/sha256"
	"encoding/binary"
	"hash"
	"io"
	"io/fs"
	"math"
	"os"
	"path/filepath"
	"time"

	"github.com/go-git/go-billy/v6/memfs"
	"github.com/go-git/go-billy/v6/osfs"

	"github.com/go-git/go-git/v6/plumbing"
	"github.com/go-git/go-git/v6/plumbing/cache"
	"github.com/go-git/go-git/v6/plumbing/format/commitgraph"
	formatcfg "github.com/go-git/go-git/v6/plumbing/format/config"
	"github.com/go-git/go-git/v6/plumbing/format/idxfile"
	"github.com/go-git/go-git/v6/plumbing/format/index"
	"github.com/go-git/go-git/v6/plumbing/format/packfile"
	"github.com/go-git/go-git/v6/plumbing/format/revfile"
	ghash "github.com/go-git/go-git/v6/plumbing/hash"
	"github.com/go-git/go-git/v6/plumbing/object"
	"github.com/go-git/go-git/v6/plumbing/protocol/packp/sideband"
	"github.com/go-git/go-git/v6/storage/filesystem/mmap"
	"github.com/go-git/go-git/v6/storage/memory"
)

const maxProbe = 2048 // names / offsets / indexes probed per structure

// marks records which stages accepted the input of the current case (reported
// as extra["marks"]; used to tell that the boundary files are structurally valid).
var marks = map[string]int{}

func mark(k string) { marks[k]++ }

// calls counts the API calls a lookups target made on the decoded structure:
// the allocation budget of such a case grows with it (extra["calls"]).
var calls int

type memInput struct {
	*bytes.Reader
	n int64
}
type memInfo struct{ n int64 }

func (f memInfo) Name() string       { return "idx" }
func (f memInfo) Size() int64        { return f.n }
func (f memInfo) Mode() fs.FileMode  { return 0o444 }
func (f memInfo) ModTime() time.Time { return time.Time{} }
func (f memInfo) IsDir() bool        { return false }
func (f memInfo) Sys() any           { return nil }

func (i memInput) Stat() (fs.FileInfo, error) { return memInfo{i.n}, nil }

func raOpener(b []byte) func() (idxfile.ReadAtCloser, error) {
	return func() (idxfile.ReadAtCloser, error) { return nopCloserReaderAt{bytes.NewReader(b)}, nil }
}

func hasherOf(hs int) hash.Hash {
	if hs == 32 {
		return ghash.New(crypto.SHA256)
	}
	return ghash.New(crypto.SHA1)
}

func hsOf(a args, i int) int {
	if a.byte(i) == 32 {
		return 32
	}
	return 20
}

// idxNames reads the object names straight out of the idx v2 layout (count
// from the last fanout entry, clipped to what the file holds).
func idxNames(f []byte, hs int) []plumbing.Hash {
	if len(f) < 1032 {
		return nil
	}
	n := int(binary.BigEndian.Uint32(f[1028:1032]))
	var out []plumbing.Hash
	for i := 0; i < n && i < maxProbe && 1032+(i+1)*hs <= len(f); i++ {
		if h, ok := plumbing.FromBytes(f[1032+i*hs : 1032+(i+1)*hs]); ok {
			out = append(out, h)
		}
	}
	return out
}

func neighbours(hs []plumbing.Hash, size int) []plumbing.Hash {
	out := append([]plumbing.Hash{}, hs...)
	for _, h := range hs {
		b := append([]byte{}, h.Bytes()...)
		b[len(b)-1]++
		if n, ok := plumbing.FromBytes(b); ok {
			out = append(out, n)
		}
		b[len(b)-1] -= 2
		if n, ok := plumbing.FromBytes(b); ok {
			out = append(out, n)
		}
	}
	for _, fill := range []byte{0x00, 0xff, 0xab} {
		if n, ok := plumbing.FromBytes(bytes.Repeat([]byte{fill}, size)); ok {
			out = append(out, n)
		}
	}
	return out
}

func drainEntries(it idxfile.EntryIter, err error) []*idxfile.Entry {
	if err != nil || it == nil {
		return nil
	}
	defer it.Close()
	var es []*idxfile.Entry
	for range 1 << 16 {
		e, err := it.Next()
		if err != nil {
			break
		}
		es = append(es, e)
	}
	return es
}

// askIndex drives the whole idxfile.Index interface.
func askIndex(ix idxfile.Index, probes []plumbing.Hash, hs int) {
	offs := []int64{0, 1, 11, 12, 42, math.MaxInt32, 1 << 31, 1<<31 + 1, math.MaxUint32, 1 << 32, math.MaxInt64, -1, math.MinInt64}
	calls += 4*len(probes) + 16
	for _, h := range probes {
		_, _ = ix.Contains(h)
		_ = ix.MayContain(h)
		if o, err := ix.FindOffset(h); err == nil && len(offs) < 3*maxProbe {
			offs = append(offs, o, o-1, o+1)
		}
		_, _ = ix.FindCRC32(h)
	}
	_, _ = ix.Count()
	for _, e := range drainEntries(ix.Entries()) {
		if len(offs) < 4*maxProbe {
			offs = append(offs, int64(e.Offset))
		}
	}
	calls += 2 * len(offs)
	for _, o := range offs {
		_, _ = ix.FindHash(o)
	}
	_ = drainEntries(ix.EntriesByOffset())
	prefixes := [][]byte{nil, {}, {0x00}, {0xff}, bytes.Repeat([]byte{0xff}, hs), bytes.Repeat([]byte{0}, hs+1)}
	for i, h := range probes {
		if i >= 8 {
			break
		}
		b := h.Bytes()
		prefixes = append(prefixes, b[:1], b[:2], b[:len(b)-1], b, append(append([]byte{}, b...), 0))
	}
	for _, p := range prefixes {
		_ = drainEntries(ix.EntriesWithPrefix(p))
	}
	// the second round runs with the offset->hash map of MemoryIndex built
	for _, o := range offs {
		_, _ = ix.FindHash(o)
	}
}

var tmpDir string

func tmp() string {
	if tmpDir == "" {
		tmpDir, _ = os.MkdirTemp("", "verif-c53-")
	}
	return tmpDir
}

func emptyPack(hs int) []byte {
	p := []byte("PACK\x00\x00\x00\x02\x00\x00\x00\x00")
	h := hasherOf(hs)
	h.Write(p)
	return h.Sum(p)
}

// openScanner maps pack/idx/rev written to real files.
func openScanner(hs int, pack, idxb, revb []byte) *mmap.PackScanner {
	d := tmp()
	_ = os.WriteFile(filepath.Join(d, "p.pack"), pack, 0o644)
	_ = os.WriteFile(filepath.Join(d, "p.idx"), idxb, 0o644)
	_ = os.WriteFile(filepath.Join(d, "p.rev"), revb, 0o644)
	bfs := osfs.New(d)
	pf, e1 := bfs.Open("p.pack")
	xf, e2 := bfs.Open("p.idx")
	rf, e3 := bfs.Open("p.rev")
	if e1 != nil || e2 != nil || e3 != nil {
		panic("harness: cannot open temp files")
	}
	sc, err := mmap.NewPackScanner(hs, pf, xf, rf)
	if err != nil {
		pf.Close()
		xf.Close()
		rf.Close()
		return nil
	}
	return sc
}

func readObj(o plumbing.EncodedObject, err error) {
	calls++
	if err != nil || o == nil {
		return
	}
	_ = o.Type()
	_ = o.Size()
	_ = o.Hash()
	r, err := o.Reader()
	if err != nil {
		return
	}
	_, _ = io.Copy(io.Discard, io.LimitReader(r, 64<<20))
	_ = r.Close()
}

func idxLookups(a args) {
	idxb, revb := a.bytes(0), a.bytes(1)
	hs := hsOf(a, 2)
	probes := neighbours(idxNames(idxb, hs), hs)

	m := idxfile.NewMemoryIndex(hs)
	if err := idxfile.NewDecoder(memInput{bytes.NewReader(idxb), int64(len(idxb))}, hasherOf(hs)).Decode(m); err == nil {
		mark("idx.memory")
		askIndex(m, probes, hs)
		var buf bytes.Buffer
		_ = idxfile.Encode(&buf, hasherOf(hs), m)
		buf.Reset()
		_ = revfile.Encode(&buf, hasherOf(hs), m)
	}

	var packHash plumbing.Hash
	if len(idxb) >= 2*hs {
		packHash.ResetBySize(hs)
		_, _ = packHash.Write(idxb[len(idxb)-2*hs : len(idxb)-hs])
	}
	var openRev func() (idxfile.ReadAtCloser, error)
	if len(revb) > 0 {
		openRev = raOpener(revb)
	}
	if lz, err := idxfile.NewLazyIndex(raOpener(idxb), openRev, packHash); err == nil {
		mark("idx.lazy")
		askIndex(lz, probes, hs)
		_ = lz.Close()
	}

	if len(revb) > 0 {
		var count int64
		if len(idxb) >= 1032 {
			count = int64(binary.BigEndian.Uint32(idxb[1028:1032]))
		}
		for _, c := range []int64{count, count - 1, count + 1, 0} {
			if c < 0 || c > 1<<20 {
				continue
			}
			out := make(chan uint32, 64)
			done := make(chan struct{})
			go func() {
				defer close(done)
				for range out {
				}
			}()
			_ = revfile.Decode(bytes.NewReader(revb), c, packHash, out)
			<-done
		}
	}

	if sc := openScanner(hs, emptyPack(hs), idxb, revb); sc != nil {
		mark("idx.mmap")
		func() {
			defer sc.Close()
			for _, h := range probes {
				if o, err := sc.FindOffset(h); err == nil {
					_, _ = sc.FindHash(o)
					_, _ = sc.FindHash(o + 1)
				}
			}
			for _, o := range []uint64{0, 12, 1 << 31, math.MaxUint32, 1 << 32, math.MaxInt64, math.MaxUint64} {
				_, _ = sc.FindHash(o)
			}
		}()
	}
}

// packLookups: scan, parse (building an idx as `git index-pack` would), then
// every read path of packfile.Packfile and mmap.PackScanner over the pack. An
// optional second argument is an idx to use instead of the one derived from
// the pack (its offsets may point anywhere).
func packLookups(a args) {
	pack, givenIdx := a.bytes(0), a.bytes(1)
	hs := hsOf(a, 2)
	of := formatcfg.SHA1
	var sopts []packfile.ScannerOption
	if hs == 32 {
		of = formatcfg.SHA256
		sopts = append(sopts, packfile.WithSHA256())
	}

	s := packfile.NewScanner(bytes.NewReader(pack), sopts...)
	for range 1 << 16 {
		if !s.Scan() {
			break
		}
		d := s.Data()
		_ = d.Section
		_ = d.Value()
	}
	_ = s.Error()

	var idxb, revb []byte
	w := new(idxfile.Writer)
	st := memory.NewStorage(memory.WithObjectFormat(of))
	_, perr := packfile.NewParser(bytes.NewReader(pack), packfile.WithScannerObservers(w), packfile.WithObjectFormat(of), packfile.WithStorage(st)).Parse()
	if perr == nil {
		mark("pack.parse")
		if ix, err := w.Index(); err == nil {
			var ib, rb bytes.Buffer
			if idxfile.Encode(&ib, hasherOf(hs), ix) == nil {
				idxb = ib.Bytes()
			}
			if revfile.Encode(&rb, hasherOf(hs), ix) == nil {
				revb = rb.Bytes()
			}
		}
	}
	if len(givenIdx) > 0 {
		idxb = givenIdx
	}
	if idxb == nil {
		return
	}
	ix := idxfile.NewMemoryIndex(hs)
	if err := idxfile.NewDecoder(memInput{bytes.NewReader(idxb), int64(len(idxb))}, hasherOf(hs)).Decode(ix); err != nil {
		return
	}
	mark("pack.idx")
	ents := drainEntries(ix.Entries())
	offs := []int64{0, 1, 11, 12, 13, int64(len(pack)) - int64(hs) - 1, int64(len(pack)) - int64(hs), int64(len(pack)) - 1, int64(len(pack)), int64(len(pack)) + 1, math.MaxInt32, math.MaxInt64, -1}
	for _, e := range ents {
		offs = append(offs, int64(e.Offset), int64(e.Offset)-1, int64(e.Offset)+1)
	}

	for _, withFs := range []bool{false, true} {
		bfs := memfs.New()
		f, err := bfs.Create("p.pack")
		if err != nil {
			panic("harness: memfs create")
		}
		_, _ = f.Write(pack)
		_ = f.Close()
		f, err = bfs.Open("p.pack")
		if err != nil {
			panic("harness: memfs open")
		}
		opts := []packfile.PackfileOption{packfile.WithIdx(ix), packfile.WithCache(cache.NewObjectLRUDefault()), packfile.WithObjectIDSize(hs)}
		if withFs {
			opts = append(opts, packfile.WithFs(bfs))
		}
		p := packfile.NewPackfile(f, opts...)
		_, _ = p.ID()
		for _, e := range ents {
			readObj(p.Get(e.Hash))
		}
		calls += len(offs)
		for _, o := range offs {
			_, _ = p.GetSizeByOffset(o)
			readObj(p.GetByOffset(o))
		}
		if it, err := p.GetAll(); err == nil {
			for range 1 << 16 {
				o, err := it.Next()
				if err != nil {
					break
				}
				readObj(o, nil)
			}
			it.Close()
		}
		for _, t := range []plumbing.ObjectType{plumbing.CommitObject, plumbing.TreeObject, plumbing.BlobObject, plumbing.TagObject} {
			if it, err := p.GetByType(t); err == nil {
				for range 1 << 16 {
					o, err := it.Next()
					if err != nil {
						break
					}
					readObj(o, nil)
				}
				it.Close()
			}
		}
		_ = p.Close()
	}

	if revb == nil {
		var rb bytes.Buffer
		if revfile.Encode(&rb, hasherOf(hs), ix) == nil {
			revb = rb.Bytes()
		}
	}
	if sc := openScanner(hs, pack, idxb, revb); sc != nil {
		mark("pack.mmap")
		func() {
			defer sc.Close()
			for _, e := range ents {
				readObj(sc.Get(e.Hash))
			}
			for _, o := range offs {
				if o >= 0 {
					readObj(sc.GetByOffset(uint64(o)))
				}
			}
		}()
	}
}

func indexLookups(a args) {
	data := a.bytes(0)
	hs := hsOf(a, 1)
	for _, skip := range []bool{false, true} {
		idx := &index.Index{}
		var opts []index.Option
		if skip {
			opts = append(opts, index.WithSkipHash())
		}
		if err := index.NewDecoder(bytes.NewReader(data), hasherOf(hs), opts...).Decode(idx); err != nil {
			continue
		}
		mark("index.decode")
		for i, e := range idx.Entries {
			if i >= maxProbe {
				break
			}
			_, _ = idx.Entry(e.Name)
			_ = e.String()
		}
		_, _ = idx.Entry("")
		_, _ = idx.Glob("*")
		_ = idx.String()
		var buf bytes.Buffer
		_ = index.NewEncoder(&buf, hasherOf(hs)).Encode(idx)
	}
}

func cgLookups(a args) {
	data := a.bytes(0)
	idx, err := commitgraph.OpenFileIndex(struct {
		io.ReaderAt
		io.Closer
	}{bytes.NewReader(data), io.NopCloser(nil)})
	if err != nil {
		return
	}
	defer idx.Close()
	mark("cg.open")
	hashes := idx.Hashes()
	n := uint32(min(len(hashes), maxProbe))
	idxs := []uint32{0, 1, n - 1, n, n + 1, uint32(len(hashes)), uint32(len(hashes)) + 1, 0x6fffffff, 0x70000000, 0x7fffffff, 0x80000000, math.MaxUint32}
	for i := range n {
		idxs = append(idxs, i)
	}
	_ = idx.HasGenerationV2()
	_ = idx.MaximumNumberOfHashes()
	calls += 3 * len(idxs)
	for _, i := range idxs {
		_, _ = idx.GetHashByIndex(i)
		if cd, err := idx.GetCommitDataByIndex(i); err == nil && cd != nil {
			mark("cg.data")
			_ = cd.GenerationV2Data()
		}
	}
	for _, h := range neighbours(hashes[:n], 20) {
		if i, err := idx.GetIndexByHash(h); err == nil {
			_, _ = idx.GetCommitDataByIndex(i)
		}
	}
}

func deltaAppliers(a args) {
	src, delta := a.bytes(0), a.bytes(1)
	if _, err := packfile.PatchDelta(src, delta); err == nil {
		mark("delta.patch")
	}

	base := &plumbing.MemoryObject{}
	base.SetType(plumbing.BlobObject)
	_, _ = base.Write(src)
	if rc, err := packfile.ReaderFromDelta(base, bytes.NewReader(delta)); err == nil {
		_, _ = io.Copy(io.Discard, io.LimitReader(rc, 256<<20))
		_ = rc.Close()
	}
	target := &plumbing.MemoryObject{}
	_ = packfile.ApplyDelta(target, base, bytes.NewBuffer(append([]byte{}, delta...)))
}

func objectLookups(a args) {
	kind, data := a.byte(0), a.bytes(1)
	mo := &plumbing.MemoryObject{}
	out := &plumbing.MemoryObject{}
	switch kind % 4 {
	case 0:
		mo.SetType(plumbing.CommitObject)
		_, _ = mo.Write(data)
		c := &object.Commit{}
		if c.Decode(mo) == nil {
			mark("object.decode")
			_ = c.Encode(out)
			_ = c.EncodeWithoutSignature(&plumbing.MemoryObject{})
			_ = c.String()
			_ = c.NumParents()
		}
	case 1:
		mo.SetType(plumbing.TreeObject)
		_, _ = mo.Write(data)
		t := &object.Tree{}
		if t.Decode(mo) == nil {
			mark("object.decode")
			_ = t.Encode(out) // FindEntry / Files need a storer: not a decoder of the input
		}
	case 2:
		mo.SetType(plumbing.TagObject)
		_, _ = mo.Write(data)
		t := &object.Tag{}
		if t.Decode(mo) == nil {
			mark("object.decode")
			_ = t.Encode(out)
			_ = t.EncodeWithoutSignature(&plumbing.MemoryObject{})
		}
	case 3:
		mo.SetType(plumbing.BlobObject)
		_, _ = mo.Write(data)
		b := &object.Blob{}
		if b.Decode(mo) == nil {
			_ = b.Encode(out)
		}
	}
}

func sidebandDemux(a args) {
	data := a.bytes(1)
	t := sideband.Sideband64k
	if a.byte(0)%2 == 1 {
		t = sideband.Sideband
	}
	d := sideband.NewDemuxer(t, bytes.NewReader(data))
	var prog bytes.Buffer
	d.Progress = &prog
	buf := make([]byte, 1+int(a.byte(0))*17)
	for range 1 << 14 {
		if _, err := d.Read(buf); err != nil {
			break
		}
	}
}

func init() {
	reg("verif/idx.Lookups", idxLookups)
	reg("verif/pack.Lookups", packLookups)
	reg("verif/index.Lookups", indexLookups)
	reg("verif/commitgraph.Lookups", cgLookups)
	reg("verif/delta.Appliers", deltaAppliers)
	reg("verif/object.Lookups", objectLookups)
	reg("verif/sideband.Demux", sidebandDemux)
}
