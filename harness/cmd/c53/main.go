// c53: mirror of every `func Fuzz*(f *testing.F)` entry point of go-git. The
// fuzz functions live in *_test.go files and cannot be called, so each fuzz
// BODY is replicated here on top of the exported API (plus a few `verif`
// tagged re-exports: object.VerifC53ParseSignedBytes,
// packp.VerifC53ParseLsRefsLine, x/verifc53.ParseRevision).
//
// Targets are registered under "<package dir>.<FuzzName>". One JSON case
//
//	{"id":…, "target": name, "args": [hex, …], "deadline_ms": N}
//
// runs the target once on the given arguments and reports done / panic / hang
// together with time and allocation figures.
//
// *testing.T usage: `t.Cleanup(f)` becomes `defer f()`; a failing assertion
// (t.Fatalf, require.*, assert.Fail) becomes a panic of type fuzzAssert, which
// is reported like a panic with the text prefixed by "fuzz-assert: " and
// extra["assert"] = true.
//
// Limits of the isolation: only a panic on the target's own goroutine is
// recovered. A panic on a goroutine spawned by the code under test, or a Go
// runtime fatal error (stack exhaustion, out of memory, concurrent map
// access), kills the process; the driver sees a missing reply for that case.
// After a "hang" the leaked goroutine keeps running (and allocating) in the
// background; later alloc/mallocs figures of the same process may include its
// allocations.
package main

import (
	"bufio"
	"bytes"
	"crypto"
	"fmt"
	"io"
	"os"
	"runtime"
	"runtime/debug"
	"sort"
	"strings"
	"testing/fstest"
	"time"


	"github.com/go-git/go-git/v6/plumbing"
	"github.com/go-git/go-git/v6/plumbing/format/commitgraph"
	format "github.com/go-git/go-git/v6/plumbing/format/config"
	"github.com/go-git/go-git/v6/plumbing/format/gitignore"
	"github.com/go-git/go-git/v6/plumbing/format/idxfile"
	"github.com/go-git/go-git/v6/plumbing/format/index"
	"github.com/go-git/go-git/v6/plumbing/format/objfile"
	"github.com/go-git/go-git/v6/plumbing/format/packfile"
	pfutil "github.com/go-git/go-git/v6/plumbing/format/packfile/util"
	"github.com/go-git/go-git/v6/plumbing/format/pktline"
	"github.com/go-git/go-git/v6/plumbing/format/reflog"
	"github.com/go-git/go-git/v6/plumbing/format/revfile"
	"github.com/go-git/go-git/v6/plumbing/hash"
	"github.com/go-git/go-git/v6/plumbing/object"
	"github.com/go-git/go-git/v6/plumbing/protocol/capability"
	"github.com/go-git/go-git/v6/plumbing/protocol/packp"
	"github.com/go-git/go-git/v6/plumbing/transport"
	"github.com/go-git/go-git/v6/x/verifc53"

	"verif/harness/lib"
)

// ---------------------------------------------------------------------------
// argument conversion

type args [][]byte

func (a args) at(i int) []byte {
	if i < len(a) {
		return a[i]
	}
	return nil
}

// bytes never returns nil (go's fuzzing engine hands []byte{}, not nil); the
// slice is the freshly hex-decoded case argument, owned by this case.
func (a args) bytes(i int) []byte {
	if b := a.at(i); b != nil {
		return b
	}
	return []byte{}
}
func (a args) str(i int) string { return string(a.at(i)) }
func (a args) byte(i int) byte {
	if b := a.at(i); len(b) > 0 {
		return b[0]
	}
	return 0
}
func (a args) u64(i int) uint64 {
	b := a.at(i)
	if len(b) > 8 {
		b = b[:8]
	}
	var n uint64
	for _, x := range b {
		n = n<<8 | uint64(x)
	}
	return n
}
func (a args) i64(i int) int64 { return int64(a.u64(i)) }

// fuzzAssert is the panic value standing for a failed *testing.T assertion
// of the original fuzz body.
type fuzzAssert string

func failf(f string, xs ...any) { panic(fuzzAssert(fmt.Sprintf(f, xs...))) }
func requireNoError(err error, msg string) {
	if err != nil {
		failf("require.NoError: %s: %v", msg, err)
	}
}

// ---------------------------------------------------------------------------
// trivial test helpers re-implemented

// nopCloserReaderAt mirrors the idxfile test helper of the same name.
type nopCloserReaderAt struct{ *bytes.Reader }

func (nopCloserReaderAt) Close() error { return nil }

// ---------------------------------------------------------------------------
// targets

var targets = map[string]func(a args){}

var unsupported = map[string]string{
	"x/plumbing/worktree.FuzzAdd":  "the fuzz body loads the go-git-fixtures repository (a module the harness does not require); it validates worktree names, not repository or network bytes",
	"x/plumbing/worktree.FuzzOpen": "the fuzz body loads the go-git-fixtures repository (a module the harness does not require)",
}

func reg(name string, f func(a args)) { targets[name] = f }

func init() {
	// ---- plumbing/format/pktline -------------------------------------------
	reg("plumbing/format/pktline.FuzzRead", func(a args) {
		data := a.bytes(0)
		for _, size := range []int{0, 1, pktline.LenSize - 1, pktline.LenSize, pktline.MaxSize} {
			buf := make([]byte, size)
			if len(buf) >= pktline.LenSize+1+len("RR ") {
				copy(buf[pktline.LenSize+1:], "RR ")
			}
			_, _ = pktline.Read(bytes.NewReader(data), buf)
		}
	})
	reg("plumbing/format/pktline.FuzzPeekLine", func(a args) {
		data := a.bytes(0)
		_, _, _ = pktline.PeekLine(bufio.NewReader(bytes.NewReader(data)))
	})
	reg("plumbing/format/pktline.FuzzReadLine", func(a args) {
		data := a.bytes(0)
		r := bytes.NewReader(data)
		for {
			before := r.Len()
			_, _, err := pktline.ReadLine(r)
			if err != nil || r.Len() == 0 || r.Len() == before {
				break
			}
		}
	})
	reg("plumbing/format/pktline.FuzzScanner", func(a args) {
		data := a.bytes(0)
		sc := pktline.NewScanner(bytes.NewReader(data))
		for range 100 {
			if !sc.Scan() {
				break
			}
			_, _, _ = sc.Len(), sc.Bytes(), sc.Text()
		}
		_ = sc.Err()
	})

	// ---- plumbing/protocol/capability --------------------------------------
	reg("plumbing/protocol/capability.FuzzListDecode", func(a args) {
		data := a.bytes(0)
		var l capability.List
		capability.DecodeList(data, &l)
	})

	// ---- plumbing/protocol/packp -------------------------------------------
	reg("plumbing/protocol/packp.FuzzAdvRefsDecode", func(a args) {
		ar := &packp.AdvRefs{}
		_ = ar.Decode(bytes.NewReader(a.bytes(0)))
	})
	reg("plumbing/protocol/packp.FuzzUlReqDecode", func(a args) {
		ur := &packp.UploadRequest{}
		_ = ur.Decode(bytes.NewReader(a.bytes(0)))
	})
	reg("plumbing/protocol/packp.FuzzUpdReqDecode", func(a args) {
		ur := &packp.UpdateRequests{}
		_ = ur.Decode(bytes.NewReader(a.bytes(0)))
	})
	reg("plumbing/protocol/packp.FuzzServerResponseDecode", func(a args) {
		sr := &packp.ServerResponse{}
		_ = sr.Decode(bytes.NewReader(a.bytes(0)))
	})
	reg("plumbing/protocol/packp.FuzzShallowUpdateDecode", func(a args) {
		su := &packp.ShallowUpdate{}
		_ = su.Decode(bytes.NewReader(a.bytes(0)))
	})
	reg("plumbing/protocol/packp.FuzzReportStatusDecode", func(a args) {
		rs := &packp.ReportStatus{}
		_ = rs.Decode(bytes.NewReader(a.bytes(0)))
	})
	reg("plumbing/protocol/packp.FuzzGitProtoDecode", func(a args) {
		gp := &packp.GitProtoRequest{}
		_ = gp.Decode(bytes.NewReader(a.bytes(0)))
	})
	reg("plumbing/protocol/packp.FuzzPushOptionsDecode", func(a args) {
		po := &packp.PushOptions{}
		_ = po.Decode(bytes.NewReader(a.bytes(0)))
	})
	reg("plumbing/protocol/packp.FuzzFetchArgsDecode", func(a args) {
		fa := &packp.FetchArgs{}
		_ = fa.Decode(bytes.NewReader(a.bytes(0)))
	})
	reg("plumbing/protocol/packp.FuzzFetchOutputDecode", func(a args) {
		fo := &packp.FetchOutput{}
		_ = fo.Decode(bytes.NewReader(a.bytes(0)))
	})
	reg("plumbing/protocol/packp.FuzzCommandRequestDecode", func(a args) {
		cr := &packp.CommandRequest{Args: &packp.LsRefsArgs{}}
		_ = cr.Decode(bytes.NewReader(a.bytes(0)))
	})
	reg("plumbing/protocol/packp.FuzzCapabilityAdvDecode", func(a args) {
		ca := &packp.CapabilityAdv{}
		_ = ca.Decode(bytes.NewReader(a.bytes(0)))
	})
	reg("plumbing/protocol/packp.FuzzLsRefsArgsDecode", func(a args) {
		la := &packp.LsRefsArgs{}
		_ = la.Decode(bytes.NewReader(a.bytes(0)))
	})
	reg("plumbing/protocol/packp.FuzzLsRefsOutputDecode", func(a args) {
		lo := &packp.LsRefsOutput{}
		_ = lo.Decode(bytes.NewReader(a.bytes(0)))
	})
	reg("plumbing/protocol/packp.FuzzParseLsRefsLine", func(a args) {
		_, _ = packp.VerifC53ParseLsRefsLine(a.str(0))
	})

	// ---- plumbing/object ---------------------------------------------------
	reg("plumbing/object.FuzzCommitDecode", func(a args) {
		mo := &plumbing.MemoryObject{}
		mo.SetType(plumbing.CommitObject)
		_, _ = mo.Write(a.bytes(0))
		_ = (&object.Commit{}).Decode(mo)
	})
	reg("plumbing/object.FuzzTreeDecode", func(a args) {
		mo := &plumbing.MemoryObject{}
		mo.SetType(plumbing.TreeObject)
		_, _ = mo.Write(a.bytes(0))
		_ = (&object.Tree{}).Decode(mo)
	})
	reg("plumbing/object.FuzzTagDecode", func(a args) {
		mo := &plumbing.MemoryObject{}
		mo.SetType(plumbing.TagObject)
		_, _ = mo.Write(a.bytes(0))
		_ = (&object.Tag{}).Decode(mo)
	})
	reg("plumbing/object.FuzzBlobDecode", func(a args) {
		mo := &plumbing.MemoryObject{}
		mo.SetType(plumbing.BlobObject)
		_, _ = mo.Write(a.bytes(0))
		_ = (&object.Blob{}).Decode(mo)
	})
	reg("plumbing/object.FuzzParseSignedBytes", func(a args) {
		object.VerifC53ParseSignedBytes(a.bytes(0))
	})

	// ---- plumbing/format/objfile -------------------------------------------
	reg("plumbing/format/objfile.FuzzReader", func(a args) {
		data := a.bytes(0)
		r, err := objfile.NewReader(bytes.NewReader(data), format.SHA1)
		if err != nil {
			return
		}
		defer r.Close()
		if _, _, err = r.Header(); err != nil {
			return
		}
		_, _ = io.Copy(io.Discard, r)
		_ = r.Hash()
	})
	reg("plumbing/format/objfile.FuzzWriterReaderRoundTrip", func(a args) {
		typeIdx, size := a.byte(0), a.i64(1)
		types := []plumbing.ObjectType{
			plumbing.BlobObject,
			plumbing.TreeObject,
			plumbing.CommitObject,
			plumbing.TagObject,
		}
		ot := types[int(typeIdx)%len(types)]

		var buf bytes.Buffer
		w := objfile.NewWriter(&buf, format.SHA1)
		if err := w.WriteHeader(ot, size); err != nil {
			return
		}

		const bodyCap = 1 << 14
		body := size
		if body < 0 || body > bodyCap {
			body = 0
		}
		if body > 0 {
			if _, err := w.Write(bytes.Repeat([]byte{0xab}, int(body))); err != nil {
				return
			}
		}
		if err := w.Close(); err != nil {
			return
		}

		r, err := objfile.NewReader(&buf, format.SHA1)
		if err != nil {
			return
		}
		defer func() { _ = r.Close() }() // t.Cleanup

		gotType, gotSize, err := r.Header()
		if err != nil {
			return
		}
		if gotType != ot {
			return
		}
		if gotSize != size {
			return
		}
		if body > 0 {
			_, _ = io.Copy(io.Discard, r)
		}
	})

	// ---- plumbing/format/config --------------------------------------------
	reg("plumbing/format/config.FuzzDecoder", func(a args) {
		d := format.NewDecoder(bytes.NewReader(a.bytes(0)))
		cfg := &format.Config{}
		d.Decode(cfg)
	})

	// ---- plumbing/format/reflog --------------------------------------------
	reg("plumbing/format/reflog.FuzzDecode", func(a args) {
		entries, err := reflog.Decode(bytes.NewReader(a.bytes(0)))
		if err != nil {
			return
		}
		for _, e := range entries {
			var buf bytes.Buffer
			if err := reflog.Encode(&buf, e); err != nil {
				failf("failed to encode successfully decoded entry: %v", err)
			}
		}
	})

	// ---- plumbing/format/revfile -------------------------------------------
	reg("plumbing/format/revfile.FuzzDecode", func(a args) {
		data := a.bytes(0)
		out := make(chan uint32, 64)
		done := make(chan struct{})
		go func() {
			defer close(done)
			for v := range out {
				_ = v
			}
		}()

		var packID plumbing.Hash
		_ = revfile.Decode(bytes.NewReader(data), 0, packID, out)
		<-done
	})

	// ---- plumbing/format/idxfile -------------------------------------------
	reg("plumbing/format/idxfile.FuzzLazyIndex", func(a args) {
		idxData, revData := a.bytes(0), a.bytes(1)
		var packHash plumbing.Hash

		for _, hs := range []int{20, 32} {
			if len(idxData) >= hs*2 {
				packHash.ResetBySize(hs)
				_, _ = packHash.Write(idxData[len(idxData)-hs*2 : len(idxData)-hs])
			}
		}

		openIdx := func() (idxfile.ReadAtCloser, error) {
			return nopCloserReaderAt{bytes.NewReader(idxData)}, nil
		}
		var openRev func() (idxfile.ReadAtCloser, error)
		if len(revData) > 0 {
			openRev = func() (idxfile.ReadAtCloser, error) {
				return nopCloserReaderAt{bytes.NewReader(revData)}, nil
			}
		}

		idx, err := idxfile.NewLazyIndex(openIdx, openRev, packHash)
		if err != nil {
			return
		}
		defer idx.Close()

		testHash := plumbing.NewHash("abcdef1234567890abcdef1234567890abcdef12")
		_, _ = idx.Contains(testHash)
		_, _ = idx.FindOffset(testHash)
		_, _ = idx.FindCRC32(testHash)
		_, _ = idx.FindHash(42)
		_, _ = idx.Count()

		if iter, err := idx.Entries(); err == nil {
			for range 100 {
				if _, err := iter.Next(); err != nil {
					break
				}
			}
			_ = iter.Close()
		}

		if iter, err := idx.EntriesByOffset(); err == nil {
			for range 100 {
				if _, err := iter.Next(); err != nil {
					break
				}
			}
			_ = iter.Close()
		}
	})
	reg("plumbing/format/idxfile.FuzzMemoryIndex", func(a args) {
		idxData := a.bytes(0)
		in, err := fstest.MapFS{"idx": {Data: idxData}}.Open("idx")
		if err != nil {
			return
		}
		idx := new(idxfile.MemoryIndex)
		d := idxfile.NewDecoder(in, hash.New(crypto.SHA1))
		if err := d.Decode(idx); err != nil {
			return
		}

		testHash := plumbing.NewHash("abcdef1234567890abcdef1234567890abcdef12")
		_, _ = idx.Contains(testHash)
		_, _ = idx.FindOffset(testHash)
		_, _ = idx.FindCRC32(testHash)
		_, _ = idx.FindHash(42)
		_, _ = idx.Count()

		if iter, err := idx.Entries(); err == nil {
			for range 100 {
				if _, err := iter.Next(); err != nil {
					break
				}
			}
			_ = iter.Close()
		}

		if iter, err := idx.EntriesByOffset(); err == nil {
			for range 100 {
				if _, err := iter.Next(); err != nil {
					break
				}
			}
			_ = iter.Close()
		}
	})

	// ---- plumbing/format/commitgraph ---------------------------------------
	reg("plumbing/format/commitgraph.FuzzOpenFileIndex", func(a args) {
		data := a.bytes(0)
		idx, err := commitgraph.OpenFileIndex(struct {
			io.ReaderAt
			io.Closer
		}{
			bytes.NewReader(data),
			io.NopCloser(nil),
		})
		if err != nil {
			return
		}
		defer idx.Close()

		hashes := idx.Hashes()
		const maxIters = 4096
		n := min(len(hashes), maxIters)
		for i := range n {
			_, _ = idx.GetIndexByHash(hashes[i])
			_, _ = idx.GetHashByIndex(uint32(i))
			_, _ = idx.GetCommitDataByIndex(uint32(i))
		}
	})
	reg("plumbing/format/commitgraph.FuzzEncoderRoundTrip", func(a args) {
		numCommits, octopusMod, gv2Mod := a.byte(0), a.byte(1), a.byte(2)
		const maxN = 64
		n := int(numCommits) % (maxN + 1)
		mem := commitgraph.NewMemoryIndex()

		hashes := make([]plumbing.Hash, n)
		for i := range n {
			hashes[i] = plumbing.NewHash(fmt.Sprintf("%040x", uint64(i+1)))
		}
		for i := range n {
			cd := &commitgraph.CommitData{
				TreeHash:   hashes[i],
				Generation: uint64(i + 1),
			}
			if octopusMod > 1 && i >= 3 && i%int(octopusMod) == 0 {
				cd.ParentHashes = []plumbing.Hash{hashes[i-1], hashes[i-2], hashes[i-3]}
			} else if i >= 1 {
				cd.ParentHashes = []plumbing.Hash{hashes[i-1]}
			}
			if gv2Mod > 0 && i%(int(gv2Mod)+1) == 0 {
				cd.GenerationV2 = 0x100000001
			} else {
				cd.GenerationV2 = uint64(i + 1)
			}
			mem.Add(hashes[i], cd)
		}

		var buf bytes.Buffer
		if err := commitgraph.NewEncoder(&buf).Encode(mem); err != nil {
			return
		}
		out, err := commitgraph.OpenFileIndex(struct {
			io.ReaderAt
			io.Closer
		}{
			bytes.NewReader(buf.Bytes()),
			io.NopCloser(nil),
		})
		if err != nil {
			return
		}
		defer func() { _ = out.Close() }() // t.Cleanup

		for i := range n {
			_, _ = out.GetCommitDataByIndex(uint32(i))
		}
	})

	// ---- plumbing/format/packfile/util -------------------------------------
	reg("plumbing/format/packfile/util.FuzzVariableLengthSize", func(a args) {
		first, tail := a.byte(0), a.bytes(1)
		_, _ = pfutil.VariableLengthSize(first, bytes.NewReader(tail))
	})
	reg("plumbing/format/packfile/util.FuzzDecodeLEB128", func(a args) {
		_, _, _ = pfutil.DecodeLEB128(a.bytes(0))
	})

	// ---- plumbing/format/packfile ------------------------------------------
	reg("plumbing/format/packfile.FuzzParser", func(a args) {
		p := packfile.NewParser(bytes.NewReader(a.bytes(0)))
		_, _ = p.Parse()
	})
	reg("plumbing/format/packfile.FuzzScanner", func(a args) {
		s := packfile.NewScanner(bytes.NewReader(a.bytes(0)))
		for s.Scan() {
			d := s.Data()
			_ = d.Section
			_ = d.Value()
		}
		_ = s.Error()
	})
	reg("plumbing/format/packfile.FuzzPatchDelta", func(a args) {
		packfile.PatchDelta(a.bytes(0), a.bytes(1))
	})
	reg("plumbing/format/packfile.FuzzDiffDelta", func(a args) {
		src, tgt := a.bytes(0), a.bytes(1)
		delta := packfile.DiffDelta(src, tgt)
		if len(src) == 0 {
			return
		}
		_, _ = packfile.PatchDelta(src, delta)
	})

	// ---- plumbing/format/index ---------------------------------------------
	reg("plumbing/format/index.FuzzDecoder", func(a args) {
		idx := &index.Index{}
		h := hash.New(crypto.SHA1)
		d := index.NewDecoder(bytes.NewReader(a.bytes(0)), h, index.WithSkipHash())
		_ = d.Decode(idx)
	})

	// ---- plumbing/format/gitignore -----------------------------------------
	reg("plumbing/format/gitignore.FuzzMatch", func(a args) {
		pattern, path := a.str(0), a.str(1)
		p := gitignore.ParsePattern(pattern, nil)

		isDir := strings.HasSuffix(path, "/")
		segments := strings.Split(strings.Trim(path, "/"), "/")
		if len(segments) == 1 && segments[0] == "" {
			segments = nil
		}

		_ = p.Match(segments, isDir)
	})

	// ---- plumbing/transport ------------------------------------------------
	reg("plumbing/transport.FuzzParseURL", func(a args) {
		transport.ParseURL(a.str(0))
	})

	// ---- internal/revision -------------------------------------------------
	reg("internal/revision.FuzzParser", func(a args) {
		_ = verifc53.ParseRevision(a.bytes(0))
	})

}

// selftests exercise the runner itself (not listed by __list__).
var selftests = map[string]func(a args){
	"__selftest_panic__":  func(a args) { var m map[string]int; m[a.str(0)] = 1 },
	"__selftest_assert__": func(a args) { failf("selftest %q", a.str(0)) },
	"__selftest_hang__":   func(a args) { select {} },
	"__selftest_alloc__": func(a args) { // allocates args[0] (big-endian) bytes
		b := make([]byte, a.u64(0))
		for i := 0; i < len(b); i += 4096 {
			b[i] = 1
		}
		runtime.KeepAlive(b)
	},
}

// ---------------------------------------------------------------------------
// runner

type jv = map[string]any

type outcome struct {
	panicked bool
	assert   bool
	text     string
}

func firstLines(s string, n int) string {
	lines := strings.SplitN(s, "\n", n+1)
	if len(lines) > n {
		lines = lines[:n]
	}
	return strings.Join(lines, "\n")
}

func run(f func(a args), a args, deadline time.Duration) (string, *outcome) {
	done := make(chan *outcome, 1)
	go func() {
		o := &outcome{}
		defer func() {
			if e := recover(); e != nil {
				o.panicked = true
				msg := fmt.Sprint(e)
				if fa, ok := e.(fuzzAssert); ok {
					o.assert = true
					msg = "fuzz-assert: " + string(fa)
				}
				o.text = msg + "\n" + firstLines(string(debug.Stack()), 20)
			}
			done <- o
		}()
		f(a)
	}()
	timer := time.NewTimer(deadline)
	defer timer.Stop()
	select {
	case o := <-done:
		if o.panicked {
			return "panic", o
		}
		return "done", o
	case <-timer.C:
		// the goroutine is leaked and keeps running; see the package comment
		return "hang", &outcome{}
	}
}

func sortedTargets() []string {
	names := make([]string, 0, len(targets))
	for n := range targets {
		names = append(names, n)
	}
	sort.Strings(names)
	return names
}

func main() {
	defer func() {
		if tmpDir != "" {
			os.RemoveAll(tmpDir)
		}
	}()
	lib.Main(func(c lib.Case) (lib.Out, any) {
		if c.S("kind") == "varint" {
			return varintCase(c)
		}
		name := c.S("target")
		switch name {
		case "__list__":
			return lib.Sym("done"), jv{"targets": sortedTargets(), "unsupported": unsupported}
		case "__seeds__":
			return lib.Sym("done"), jv{"seeds": seeds}
		}
		f, ok := targets[name]
		if !ok {
			f, ok = selftests[name]
		}
		if !ok {
			extra := jv{}
			if why, un := unsupported[name]; un {
				extra["unsupported"] = why
			}
			return lib.Sym("unknown_target"), extra
		}
		var a args
		total := 0
		for _, h := range c.SL("args") {
			b := lib.Unhex(h)
			total += len(b)
			a = append(a, b)
		}
		deadline := time.Duration(c.I("deadline_ms")) * time.Millisecond
		if deadline <= 0 {
			deadline = 5000 * time.Millisecond
		}

		marks = map[string]int{}
		calls = 0
		var m0, m1 runtime.MemStats
		runtime.ReadMemStats(&m0)
		t0 := time.Now()
		res, o := run(f, a, deadline)
		el := time.Since(t0)
		runtime.ReadMemStats(&m1)

		extra := jv{
			"alloc":     m1.TotalAlloc - m0.TotalAlloc,
			"mallocs":   m1.Mallocs - m0.Mallocs,
			"ms":        float64(el.Microseconds()) / 1000,
			"input_len": total,
		}
		if res != "hang" && len(marks) > 0 { // after a hang the leaked goroutine may still write the map
			extra["marks"] = marks
			extra["calls"] = calls
		}
		switch res {
		case "panic":
			extra["panic"] = o.text
			if o.assert {
				extra["assert"] = true
			}
			return lib.List(lib.Sym("panic")), extra
		case "hang":
			return lib.Sym("hang"), extra
		}
		return lib.Sym("done"), extra
	})
}
