package main

// Literal seed corpus of the go-git fuzz targets: what each FuzzXxx adds with
// f.Add(...), as hex argument lists. Seeds read from go-git-fixtures (the
// basic packfile for packfile.FuzzParser / FuzzScanner, the basic index for
// index.FuzzDecoder, the commit-graph fixtures for
// commitgraph.FuzzOpenFileIndex) are NOT reproduced. Seeds built by helper
// code in the test files are rebuilt here by copying the helper logic.
//
// Argument encoding (inverse of the conversion in main.go): []byte / string as
// is, byte and uint8 as one byte, int64 as 8 bytes big-endian.

import (
	"bytes"
	"compress/zlib"
	"crypto/sha1"
	"encoding/binary"
	"encoding/hex"
	"fmt"
	"io"
	"strings"

	"github.com/go-git/go-git/v6/plumbing"
	"github.com/go-git/go-git/v6/plumbing/format/commitgraph"
	format "github.com/go-git/go-git/v6/plumbing/format/config"
	"github.com/go-git/go-git/v6/plumbing/format/packfile"
	gogitbinary "github.com/go-git/go-git/v6/utils/binary"
)

var seeds = map[string][][]string{}

func seed(target string, xs ...[]byte) {
	row := make([]string, len(xs))
	for i, x := range xs {
		row[i] = hex.EncodeToString(x)
	}
	seeds[target] = append(seeds[target], row)
}

func seedS(target string, xs ...string) {
	bs := make([][]byte, len(xs))
	for i, x := range xs {
		bs[i] = []byte(x)
	}
	seed(target, bs...)
}

func be64(n int64) []byte {
	var b [8]byte
	binary.BigEndian.PutUint64(b[:], uint64(n))
	return b[:]
}

// packfile object-header constants (plumbing/format/packfile/common.go)
const (
	firstLengthBits = uint8(4)
	lengthBits      = uint8(7)
	maskFirstLength = 15
	maskContinue    = 0x80
	maskLength      = uint8(127)
)

// ---- copies of plumbing/format/idxfile/fuzz_helpers.go ---------------------

func buildMinimalIdx(count, hashSize int) []byte {
	var buf bytes.Buffer
	buf.Write([]byte{0xff, 't', 'O', 'c'})
	_ = binary.Write(&buf, binary.BigEndian, uint32(2))

	for range 256 {
		_ = binary.Write(&buf, binary.BigEndian, uint32(count))
	}

	for i := range count {
		h := make([]byte, hashSize)
		h[1] = byte(i >> 8)
		h[2] = byte(i)
		buf.Write(h)
	}

	buf.Write(make([]byte, count*4))

	for i := range count {
		_ = binary.Write(&buf, binary.BigEndian, uint32(i*100))
	}

	packChecksum := make([]byte, hashSize)
	packChecksum[0] = 0xAA
	buf.Write(packChecksum)
	buf.Write(make([]byte, hashSize))

	return buf.Bytes()
}

func buildMinimalRev(count, hashSize int) []byte {
	var buf bytes.Buffer
	buf.Write([]byte{'R', 'I', 'D', 'X'})
	_ = binary.Write(&buf, binary.BigEndian, uint32(1))
	hashID := uint32(1)
	if hashSize == 32 {
		hashID = 2
	}
	_ = binary.Write(&buf, binary.BigEndian, hashID)
	for i := range count {
		_ = binary.Write(&buf, binary.BigEndian, uint32(i))
	}

	buf.Write(make([]byte, hashSize*2))
	return buf.Bytes()
}

func buildOOBOffset64Idx() []byte {
	const hashSize = 20

	var buf bytes.Buffer
	buf.Write([]byte{0xff, 't', 'O', 'c'}) // idxHeader
	_ = binary.Write(&buf, binary.BigEndian, uint32(2))

	for range 256 {
		_ = binary.Write(&buf, binary.BigEndian, uint32(2))
	}

	name1 := make([]byte, hashSize)
	name1[hashSize-1] = 0x01
	name2 := make([]byte, hashSize)
	name2[hashSize-1] = 0x02
	buf.Write(name1)
	buf.Write(name2)

	buf.Write(make([]byte, 8))

	_ = binary.Write(&buf, binary.BigEndian, uint32(0x80000005))
	_ = binary.Write(&buf, binary.BigEndian, uint32(0))

	_ = binary.Write(&buf, binary.BigEndian, uint64(0x12345678))

	buf.Write(make([]byte, hashSize))

	sum := sha1.Sum(buf.Bytes())
	buf.Write(sum[:])
	return buf.Bytes()
}

func init() {
	// ---- pktline -----------------------------------------------------------
	for _, t := range []string{"FuzzRead", "FuzzPeekLine", "FuzzReadLine", "FuzzScanner"} {
		n := "plumbing/format/pktline." + t
		for _, s := range []string{"", "0000", "0001", "0002", "0003", "0004", "0005a",
			"0008ERR ", "000cERR EOF\n", "fff1", "0008XRR 0005E"} {
			seedS(n, s)
		}
	}

	// ---- capability --------------------------------------------------------
	for _, s := range []string{"multi_ack", "multi_ack thin-pack", "agent=git/2.0", ""} {
		seedS("plumbing/protocol/capability.FuzzListDecode", s)
	}

	// ---- packp -------------------------------------------------------------
	pp := func(name string, ss ...string) {
		for _, s := range ss {
			seedS("plumbing/protocol/packp."+name, s)
		}
	}
	pp("FuzzAdvRefsDecode",
		"003b6ecf0ef2c2dffb796033e5a02219af86ec6584e5 HEAD\x00ofs-delta0000", "")
	pp("FuzzUlReqDecode",
		"0032want 0000000000000000000000000000000000000000\n0000", "0000", "")
	{
		oldHash := "1ecf0ef2c2dffb796033e5a02219af86ec6584e5"
		newHash := "2ecf0ef2c2dffb796033e5a02219af86ec6584e5"
		payload := oldHash + " " + newHash + " refs/heads/main\x00report-status"
		frame := fmt.Sprintf("%04x%s0000", len(payload)+4, payload)
		pp("FuzzUpdReqDecode", frame, "0000", "")
	}
	pp("FuzzServerResponseDecode", "0008NAK\n", "")
	pp("FuzzShallowUpdateDecode", "0034shallow aaaaaaaaaaaaaaaaaaaaaaaaaaaaaaaaaaaaaaaa0000", "")
	pp("FuzzReportStatusDecode", "000eunpack ok\n0019ok refs/heads/master\n0000", "")
	pp("FuzzGitProtoDecode", "002ecommand pathname\x00host=host\x00\x00param1\x00param2\x00", "")
	pp("FuzzPushOptionsDecode", "0015SomeKey=SomeValue0000", "")
	pp("FuzzFetchArgsDecode",
		"0032want 6ecf0ef2c2dffb796033e5a02219af86ec6584e5\n0009done\n0000",
		"0000",
		"0032want 6ecf0ef2c2dffb796033e5a02219af86ec6584e5\n0038deepen-not 6ecf0ef2c2dffb796033e5a02219af86ec6584e5\n0038deepen-not 6ecf0ef2c2dffb796033e5a02219af86ec6584e5\n0038deepen-not 6ecf0ef2c2dffb796033e5a02219af86ec6584e5\n0000",
		"")
	pp("FuzzFetchOutputDecode",
		"0014acknowledgments\n0008NAK\n0000",
		"0014acknowledgments\n000aready\n0001000dpackfile\n0000",
		"0011shallow-info\n0035shallow 6ecf0ef2c2dffb796033e5a02219af86ec6584e5\n0001000dpackfile\n0000",
		"0010wanted-refs\n003d6ecf0ef2c2dffb796033e5a02219af86ec6584e5 refs/heads/main\n0001000dpackfile\n0000",
		"0012packfile-uris\n00446ecf0ef2c2dffb796033e5a02219af86ec6584e5 https://example/p.pack\n0001000dpackfile\n0000",
		"0012packfile-uris\n00446ecf0ef2c2dffb796033e5a02219af86ec6584e5 https://example/p.pack\n00446ecf0ef2c2dffb796033e5a02219af86ec6584e5 https://example/p.pack\n00446ecf0ef2c2dffb796033e5a02219af86ec6584e5 https://example/p.pack\n0001000dpackfile\n0000",
		"")
	pp("FuzzCommandRequestDecode",
		"0014command=ls-refs\n0017object-format=sha1\n00010014ref-prefix HEAD\n0000", "0000", "")
	pp("FuzzCapabilityAdvDecode",
		"000eversion 2\n000cls-refs\n0017object-format=sha1\n0000", "000eversion 2\n0000", "")
	pp("FuzzLsRefsArgsDecode", "0009peel\n000csymrefs\n0014ref-prefix HEAD\n0000", "0000", "")
	pp("FuzzLsRefsOutputDecode",
		"003d6ecf0ef2c2dffb796033e5a02219af86ec6584e5 refs/heads/main\n00506ecf0ef2c2dffb796033e5a02219af86ec6584e5 HEAD symref-target:refs/heads/main\n0000",
		"")
	{
		const oid = "6ecf0ef2c2dffb796033e5a02219af86ec6584e5"
		pp("FuzzParseLsRefsLine",
			oid+" refs/heads/main",
			oid+" HEAD symref-target:refs/heads/main",
			oid+" refs/tags/v1 peeled:"+oid,
			"")
	}

	// ---- object ------------------------------------------------------------
	seedS("plumbing/object.FuzzCommitDecode",
		"tree 0000000000000000000000000000000000000000\n"+
			"author a <a> 0 +0000\n"+
			"committer c <c> 0 +0000\n"+
			"\n"+
			"msg\n")
	seedS("plumbing/object.FuzzCommitDecode", "")
	seed("plumbing/object.FuzzTreeDecode", append([]byte("100644 a\x00"), make([]byte, 20)...))
	seedS("plumbing/object.FuzzTreeDecode", "")
	seedS("plumbing/object.FuzzTagDecode",
		"object 0000000000000000000000000000000000000000\n"+
			"type commit\n"+
			"tag v1\n"+
			"tagger t <t> 0 +0000\n"+
			"\n"+
			"msg\n")
	seedS("plumbing/object.FuzzTagDecode", "")
	seedS("plumbing/object.FuzzBlobDecode", "hello\x00world\x01\x02")
	seedS("plumbing/object.FuzzBlobDecode", "")
	// openPGPSignatureFormat[0], x509SignatureFormat[0], sshSignatureFormat[0]
	seedS("plumbing/object.FuzzParseSignedBytes", "-----BEGIN PGP SIGNATURE-----")
	seedS("plumbing/object.FuzzParseSignedBytes", "-----BEGIN SIGNED MESSAGE-----")
	seedS("plumbing/object.FuzzParseSignedBytes", "-----BEGIN SSH SIGNATURE-----")

	// ---- objfile -----------------------------------------------------------
	{
		addSeed := func(payload []byte) {
			var buf bytes.Buffer
			w := zlib.NewWriter(&buf)
			_, _ = w.Write(payload)
			_ = w.Close()
			seed("plumbing/format/objfile.FuzzReader", buf.Bytes())
		}
		addSeed([]byte("blob 5\x00hello"))
		addSeed([]byte("tree 0\x00"))
		addSeed([]byte("commit 0\x00"))
		addSeed([]byte("tag 0\x00"))
		addSeed(bytes.Repeat([]byte{'b'}, 1024))
		addSeed(append([]byte("blob "), bytes.Repeat([]byte{'0'}, 1024)...))
		seed("plumbing/format/objfile.FuzzReader", []byte{})
	}
	{
		n := "plumbing/format/objfile.FuzzWriterReaderRoundTrip"
		seed(n, []byte{0}, be64(0))
		seed(n, []byte{1}, be64(5))
		seed(n, []byte{2}, be64(1<<62))
		seed(n, []byte{3}, be64(-1))
	}

	// config.FuzzDecoder and transport.FuzzParseURL add no seeds.

	// ---- reflog ------------------------------------------------------------
	for _, s := range []string{
		"0000000000000000000000000000000000000000 aaaaaaaaaaaaaaaaaaaaaaaaaaaaaaaaaaaaaaaa Author Name <author@example.com> 1234567890 +0000\tcommit (initial): Initial commit\n",
		"aaaaaaaaaaaaaaaaaaaaaaaaaaaaaaaaaaaaaaaa bbbbbbbbbbbbbbbbbbbbbbbbbbbbbbbbbbbbbbbb Author <a@b.com> 1234567890 +0000\n",
		strings.Repeat("a", 64) + " " + strings.Repeat("b", 64) + " Author <a@b.com> 1234567890 +0000\tcommit: test\n",
		"not a valid reflog line",
		"",
		"ZZZZZZZZZZZZZZZZZZZZZZZZZZZZZZZZZZZZZZZZ aaaaaaaaaaaaaaaaaaaaaaaaaaaaaaaaaaaaaaaa Author <a@b.com> 1234567890 +0000\n",
		"0000000000000000000000000000000000000000 aaaaaaaaaaaaaaaaaaaaaaaaaaaaaaaaaaaaaaaa Author <a@b.com> notanumber +0000\n",
	} {
		seedS("plumbing/format/reflog.FuzzDecode", s)
	}

	// ---- revfile -----------------------------------------------------------
	seedS("plumbing/format/revfile.FuzzDecode", "RIDX\x00\x00\x00\x01\x00\x00\x00\x01")
	seedS("plumbing/format/revfile.FuzzDecode", "")

	// ---- idxfile -----------------------------------------------------------
	{
		n := "plumbing/format/idxfile.FuzzLazyIndex"
		seed(n, buildMinimalIdx(3, 20), buildMinimalRev(3, 20))
		seed(n, buildMinimalIdx(0, 20), buildMinimalRev(0, 20))
		seed(n, []byte{0xff, 't', 'O', 'c', 0, 0, 0, 2}, []byte{})
		seed(n, []byte{}, []byte{})
		m := "plumbing/format/idxfile.FuzzMemoryIndex"
		seed(m, buildOOBOffset64Idx())
		seed(m, buildMinimalIdx(3, 20))
		seed(m, buildMinimalIdx(0, 20))
		seed(m, []byte{0xff, 't', 'O', 'c', 0, 0, 0, 2})
		seed(m, []byte{})
	}

	// ---- commitgraph -------------------------------------------------------
	{
		seedMismatchedChunkCount := func(declared uint8, entries []commitgraph.ChunkType) []byte {
			var buf bytes.Buffer
			buf.WriteString("CGPH")
			buf.WriteByte(1)
			buf.WriteByte(1)
			buf.WriteByte(declared)
			buf.WriteByte(0)
			offset := uint64(8 + len(entries)*12)
			for _, c := range entries {
				buf.Write(c.Signature())
				_ = gogitbinary.WriteUint64(&buf, offset)
				offset += 16
			}
			return buf.Bytes()
		}
		seedGenerationOverflowPastChunk := func() []byte {
			mem := commitgraph.NewMemoryIndex()
			mem.Add(plumbing.NewHash("aaaaaaaaaaaaaaaaaaaaaaaaaaaaaaaaaaaaaaaa"),
				&commitgraph.CommitData{
					TreeHash:     plumbing.NewHash("bbbbbbbbbbbbbbbbbbbbbbbbbbbbbbbbbbbbbbbb"),
					Generation:   1,
					GenerationV2: 0x100000001,
				})
			var buf bytes.Buffer
			if err := commitgraph.NewEncoder(&buf).Encode(mem); err != nil {
				return nil
			}
			raw := buf.Bytes()

			numChunks := int(raw[6])
			const tocBase = 8
			const tocEntrySize = 12
			for i := range numChunks {
				base := tocBase + i*tocEntrySize
				if string(raw[base:base+4]) == "GDA2" {
					gda2Offset := int(binary.BigEndian.Uint64(raw[base+4:]))
					binary.BigEndian.PutUint32(raw[gda2Offset:], 0x80000000|0x7FFFFFFF)
					break
				}
			}
			return raw
		}
		n := "plumbing/format/commitgraph.FuzzOpenFileIndex"
		seedS(n, "CGPH\x01\x01\x00\x00")
		seed(n, seedMismatchedChunkCount(2, []commitgraph.ChunkType{
			commitgraph.OIDFanoutChunk, commitgraph.OIDLookupChunk, commitgraph.CommitDataChunk,
			commitgraph.GenerationDataChunk, commitgraph.ExtraEdgeListChunk,
		}))
		seed(n, seedGenerationOverflowPastChunk())
		seed(n, []byte{})

		m := "plumbing/format/commitgraph.FuzzEncoderRoundTrip"
		seed(m, []byte{0}, []byte{0}, []byte{0})
		seed(m, []byte{1}, []byte{0}, []byte{0})
		seed(m, []byte{5}, []byte{3}, []byte{2})
		seed(m, []byte{255}, []byte{0}, []byte{0})
	}

	// ---- packfile/util -----------------------------------------------------
	{
		n := "plumbing/format/packfile/util.FuzzVariableLengthSize"
		seed(n, []byte{0x90}, []byte{0x80, 0x80, 0x80, 0x80, 0x80, 0x80, 0x80, 0x80, 0x80})
		seed(n, []byte{0x80}, []byte{0x01})
		seed(n, []byte{0x00}, []byte{})
		m := "plumbing/format/packfile/util.FuzzDecodeLEB128"
		seed(m, []byte{0x01})
		seed(m, []byte{0x80, 0x01})
		seed(m, bytes.Repeat([]byte{0x80}, 12))
	}

	// ---- packfile.FuzzParser -----------------------------------------------
	{
		n := "plumbing/format/packfile.FuzzParser"
		var overflow bytes.Buffer
		overflow.WriteString("PACK")
		_ = binary.Write(&overflow, binary.BigEndian, uint32(2))
		_ = binary.Write(&overflow, binary.BigEndian, uint32(1))
		overflow.WriteByte(0x90)
		overflow.Write(bytes.Repeat([]byte{0x80}, 9))
		sum := sha1.Sum(overflow.Bytes())
		overflow.Write(sum[:])
		seed(n, overflow.Bytes())

		base := []byte("a stable base payload used by the OFS-delta entry")
		mid := []byte("a stable base payload modified by the OFS-delta entry")
		leaf := []byte("a stable base payload modified twice for the REF-delta")

		midHasher := plumbing.NewHasher(format.SHA1, plumbing.BlobObject, int64(len(mid)))
		_, _ = midHasher.Write(mid)
		midHash := midHasher.Sum()

		var pack bytes.Buffer
		h := sha1.New()
		w := io.MultiWriter(&pack, h)

		_, _ = w.Write([]byte("PACK"))
		_ = binary.Write(w, binary.BigEndian, uint32(2))
		_ = binary.Write(w, binary.BigEndian, uint32(3))

		writeHeader := func(typ plumbing.ObjectType, size int64) {
			c := byte((int64(typ) << firstLengthBits) | (size & int64(maskFirstLength)))
			size >>= firstLengthBits
			for size != 0 {
				_, _ = w.Write([]byte{c | maskContinue})
				c = byte(size & int64(maskLength))
				size >>= lengthBits
			}
			_, _ = w.Write([]byte{c})
		}
		writeZlib := func(payload []byte) {
			zw := zlib.NewWriter(w)
			_, _ = zw.Write(payload)
			_ = zw.Close()
		}

		obj1Offset := int64(pack.Len())
		writeHeader(plumbing.BlobObject, int64(len(base)))
		writeZlib(base)

		obj2Offset := int64(pack.Len())
		delta12 := packfile.DiffDelta(base, mid)
		writeHeader(plumbing.OFSDeltaObject, int64(len(delta12)))
		_ = gogitbinary.WriteVariableWidthInt(w, obj2Offset-obj1Offset)
		writeZlib(delta12)

		delta23 := packfile.DiffDelta(mid, leaf)
		writeHeader(plumbing.REFDeltaObject, int64(len(delta23)))
		_, _ = midHash.WriteTo(w)
		writeZlib(delta23)

		_, _ = pack.Write(h.Sum(nil))
		seed(n, pack.Bytes())
	}

	// ---- packfile.FuzzScanner ----------------------------------------------
	{
		n := "plumbing/format/packfile.FuzzScanner"
		var minimal bytes.Buffer
		minimal.WriteString("PACK")
		_ = binary.Write(&minimal, binary.BigEndian, uint32(2))
		_ = binary.Write(&minimal, binary.BigEndian, uint32(0))
		sum := sha1.Sum(minimal.Bytes())
		minimal.Write(sum[:])
		seed(n, minimal.Bytes())

		var ofsSelfRef bytes.Buffer
		h := sha1.New()
		w := io.MultiWriter(&ofsSelfRef, h)
		_, _ = w.Write([]byte("PACK"))
		_ = binary.Write(w, binary.BigEndian, uint32(2))
		_ = binary.Write(w, binary.BigEndian, uint32(1))
		_, _ = w.Write([]byte{byte(plumbing.OFSDeltaObject) << firstLengthBits})
		_, _ = w.Write([]byte{0x0C})
		zw := zlib.NewWriter(w)
		_ = zw.Close()
		_, _ = ofsSelfRef.Write(h.Sum(nil))
		seed(n, ofsSelfRef.Bytes())

		seed(n, []byte{})
	}

	// ---- packfile.FuzzPatchDelta / FuzzDiffDelta ---------------------------
	{
		n := "plumbing/format/packfile.FuzzPatchDelta"
		seedS(n, "some value", "\n\f\fsomenewvalue")
		seedS(n, "some value", "\n\x0e\x0evalue")
		seedS(n, "some value", "\n\x0e\x0eva")
		seedS(n, "some value", "\n\x80\x80\x80\x80\x80\x802\x7fvalue")
		seedS(n, "AAAAAAAAAA", "\n\n\aBBBBBBB\aCCCCCCC")
		seedS(n, "AAAAAAAAAA", "\n\n\x90\a\x90\a")

		m := "plumbing/format/packfile.FuzzDiffDelta"
		seed(m, []byte{}, []byte{})
		seed(m, []byte("foo"), []byte("bar"))
		seed(m, bytes.Repeat([]byte("abc"), 1024), bytes.Repeat([]byte("abc"), 1024))
		seed(m, []byte("ab"), bytes.Repeat([]byte("x"), 4096))
		seed(m, bytes.Repeat([]byte("x"), 4096), []byte("ab"))
		seed(m, bytes.Repeat([]byte("AB"), 8192), bytes.Repeat([]byte("BA"), 8192))
	}

	// ---- index -------------------------------------------------------------
	{
		n := "plumbing/format/index.FuzzDecoder"
		seedS(n, "DIRC\x00\x00\x00\x02\x00\x00\x00\x00")
		seedS(n, "DIRC\x00\x00\x00\x03\x00\x00\x00\x00")
		seedS(n, "DIRC\x00\x00\x00\x04\x00\x00\x00\x00")
		seed(n, []byte{})
		treeExt := []byte("DIRC\x00\x00\x00\x02\x00\x00\x00\x00" +
			"TREE\x00\x00\x00\x19" +
			"\x000 0\n")
		treeExt = append(treeExt, make([]byte, 20)...)
		treeExt = append(treeExt, make([]byte, 20)...)
		seed(n, treeExt)
	}

	// ---- gitignore ---------------------------------------------------------
	for _, s := range []struct{ pattern, path string }{
		{"foo", "foo"},
		{"!foo", "foo"},
		{"*.go", "main.go"},
		{"**/bar", "foo/bar"},
		{"foo/**/bar", "foo/x/y/bar"},
		{"build/", "build/out"},
		{`foo\*`, "foo*"},
		{"[abc]", "a"},
		{"[!abc]", "d"},
		{"[a-z]", "m"},
		{"[[:alpha:]]", "A"},
		{"[[:digit:]]", "5"},
		{"[[:unknown:]]", "x"},
		{"[", "["},
		{"[unterminated", "x"},
		{`\`, `\`},
		{"", ""},
		{"a/b/c", "a/b/c"},
	} {
		seedS("plumbing/format/gitignore.FuzzMatch", s.pattern, s.path)
	}

	// ---- internal/revision -------------------------------------------------
	for _, s := range []string{
		"@{2016-12-16T21:42:47Z}", "@~3", "v0.99.8^{}", "master:./README",
		"HEAD^{/fix nasty bug}", "HEAD^{/[A-", ":/fix nasty bug", ":/[A-",
	} {
		seedS("internal/revision.FuzzParser", s)
	}

	// ---- x/plumbing/worktree -----------------------------------------------
	for _, s := range []string{
		"test", "test-worktree", "test123", "TEST-123", "", "test worktree",
		"test@worktree", "test/worktree", "test.worktree", "test_worktree",
		"-", "a", "123", "test-", "-test", "../../../test",
	} {
		seedS("x/plumbing/worktree.FuzzAdd", s)
	}
	for _, s := range []string{
		"gitdir: /path/to/worktree", "gitdir: .", "gitdir:", "gitdir", "",
		"invalid content", "gitdir: /very/long/path/to/worktree/directory/structure",
		"gitdir: ../relative/path", "gitdir: \n", "gitdir: path\nwith\nnewlines",
		"../../path", "../../path\n",
	} {
		seedS("x/plumbing/worktree.FuzzOpen", s)
	}
}
