package main

import (
	"bytes"
	"errors"
	"io"

	"github.com/go-git/go-git/v6/plumbing/format/packfile/util"

	"verif/harness/lib"
)

// varintCase answers the model-comparable observable of the variable-length
// integer decoders (Model/C53Varint.v): ( ok num restlen ) | ( err class ).
func varintCase(c lib.Case) (lib.Out, any) {
	data := c.B("hex")
	cls := func(err error) lib.Out {
		switch {
		case errors.Is(err, util.ErrLengthOverflow):
			return lib.Err("overflow")
		case errors.Is(err, io.EOF):
			return lib.Err("eof")
		}
		return lib.Err("other")
	}
	switch c.S("fn") {
	case "leb":
		n, rest, err := util.DecodeLEB128(data)
		if err != nil {
			return cls(err), nil
		}
		return lib.Ok(lib.Uint(uint64(n)), lib.Int(int64(len(rest)))), nil
	case "leb_reader":
		r := bytes.NewReader(data)
		n, err := util.DecodeLEB128FromReader(r)
		if err != nil {
			return cls(err), nil
		}
		return lib.Ok(lib.Uint(uint64(n)), lib.Int(int64(r.Len()))), nil
	case "vls":
		r := bytes.NewReader(data)
		n, err := util.VariableLengthSize(byte(c.I("first")), r)
		if err != nil {
			return cls(err), nil
		}
		return lib.Ok(lib.Uint(n), lib.Int(int64(r.Len()))), nil
	}
	return lib.Err("fn"), nil
}
