// c06: implementation side of the C06 correspondence (delta appliers, DiffDelta).
package main

import (
	"bytes"
	"crypto/sha1"
	"encoding/hex"
	"errors"
	"fmt"
	"io"
	"testing/iotest"

	"github.com/go-git/go-git/v6/plumbing"
	"github.com/go-git/go-git/v6/plumbing/format/packfile"
	packutil "github.com/go-git/go-git/v6/plumbing/format/packfile/util"

	"verif/harness/lib"
)

// Expand decodes the compact byte-string encoding of a case field: a list of
// [hex pattern, repeat count] segments.
func Expand(v any) []byte {
	var out []byte
	segs, _ := v.([]any)
	for _, s := range segs {
		p, _ := s.([]any)
		if len(p) != 2 {
			panic("bad segment")
		}
		pat := lib.Unhex(p[0].(string))
		n := lib.Case{"n": p[1]}.I("n")
		for i := int64(0); i < n; i++ {
			out = append(out, pat...)
		}
	}
	return out
}

func class(err error) string {
	switch {
	case err == nil:
		return "ok"
	case errors.Is(err, packutil.ErrLengthOverflow):
		return "overflow"
	case errors.Is(err, packfile.ErrInvalidDelta):
		return "invalid"
	case errors.Is(err, packfile.ErrDeltaCmd):
		return "cmd"
	case errors.Is(err, io.EOF), errors.Is(err, io.ErrUnexpectedEOF):
		return "eof"
	}
	return "other:" + err.Error()
}

// adler mirrors Model/Delta.adler
func adler(b []byte) uint64 {
	a, s := uint64(1), uint64(0)
	for _, x := range b {
		a = (a + uint64(x)) % 65521
		s = (s + a) % 65521
	}
	return s*65536 + a
}

func outBytes(b []byte) lib.Out {
	if len(b) > 2048 {
		return lib.List(lib.Sym("big"), lib.Int(int64(len(b))), lib.Uint(adler(b)))
	}
	return lib.Bytes(b)
}

func res(b []byte, err error) lib.Out {
	if err != nil {
		return lib.Err("reject")
	}
	return lib.Ok(outBytes(b))
}

// oid is git's blob id of b ("" when the applier failed): what the git oracle compares
func oid(b []byte, err error) string {
	if err != nil {
		return ""
	}
	return blobHash(uint(len(b)), b)
}

// otherReaderAt hides the concrete *bytes.Reader type (patchDeltaWriter only
// checks the source size for *bytes.Reader bases).
type otherReaderAt struct{ r *bytes.Reader }

func (o otherReaderAt) ReadAt(p []byte, off int64) (int, error) { return o.r.ReadAt(p, off) }

func chunked(b []byte, chunk int64) io.Reader {
	r := io.Reader(bytes.NewReader(b))
	switch {
	case chunk == 1:
		return iotest.OneByteReader(r)
	case chunk == 2:
		return iotest.HalfReader(r)
	case chunk == 3:
		return iotest.DataErrReader(r)
	}
	return r
}

func stream(src, delta []byte, chunk int64) ([]byte, error) {
	base := &plumbing.MemoryObject{}
	base.SetType(plumbing.BlobObject)
	base.Write(src)
	rc, err := packfile.ReaderFromDelta(base, chunked(delta, chunk))
	if err != nil {
		return nil, err
	}
	defer rc.Close()
	return io.ReadAll(rc)
}

func blobHash(declared uint, b []byte) string {
	h := sha1.New()
	fmt.Fprintf(h, "blob %d\x00", declared)
	h.Write(b)
	return hex.EncodeToString(h.Sum(nil))
}

func main() {
	lib.Main(func(c lib.Case) (lib.Out, any) {
		src := Expand(c["src"])
		switch c.S("kind") {
		case "apply":
			delta := Expand(c["delta"])
			chunk := c.I("chunk")
			extra := map[string]any{}
			b1, e1 := packfile.VerifPatchDelta(src, delta)
			b2, e2 := packfile.PatchDelta(src, delta)
			b3, e3 := stream(src, delta, chunk)
			b4, sz4, h4, e4 := packfile.VerifPatchDeltaWriter(bytes.NewReader(src), chunked(delta, chunk))
			b5, sz5, h5, e5 := packfile.VerifPatchDeltaWriter(otherReaderAt{bytes.NewReader(src)}, chunked(delta, chunk))
			extra["classes"] = []string{class(e1), class(e2), class(e3), class(e4), class(e5)}
			extra["oids"] = []string{oid(b1, e1), oid(b2, e2), oid(b3, e3), oid(b4, e4), oid(b5, e5)}
			extra["lens"] = []int{len(b1), len(b2), len(b3), len(b4), len(b5)}
			extra["adlers"] = []uint64{adler(b1), adler(b2), adler(b3), adler(b4), adler(b5)}
			// the hash and size the parser's applier reports must describe the bytes it wrote
			if e4 == nil {
				extra["writer_bytes_consistent"] = int(sz4) == len(b4) && h4.String() == blobHash(sz4, b4)
			}
			if e5 == nil {
				extra["writer_other_consistent"] = int(sz5) == len(b5) && h5.String() == blobHash(sz5, b5)
			}
			if e4 != nil {
				b4 = nil
			}
			if e5 != nil {
				b5 = nil
			}
			return lib.List(res(b1, e1), res(b2, e2), res(b3, e3), res(b4, e4), res(b5, e5)), extra
		case "diff":
			tgt := Expand(c["tgt"])
			d := packfile.DiffDelta(src, tgt)
			extra := map[string]any{}
			b1, e1 := packfile.VerifPatchDelta(src, d)
			b3, e3 := stream(src, d, 0)
			b4, _, _, e4 := packfile.VerifPatchDeltaWriter(bytes.NewReader(src), bytes.NewReader(d))
			extra["roundtrip"] = []bool{e1 == nil && bytes.Equal(b1, tgt), e3 == nil && bytes.Equal(b3, tgt), e4 == nil && bytes.Equal(b4, tgt)}
			extra["delta"] = hex.EncodeToString(d)
			if len(tgt) <= 2048 {
				// the candidate function of the delta index (small targets only; large ones are
				// reconstructed from the copy commands of the delta)
				c := packfile.VerifFindMatches(src, tgt)
				if c == nil {
					c = [][2]int{}
				}
				extra["cands"] = c
			}
			return lib.Ok(outBytes(d)), extra
		}
		return lib.Err("badcase"), nil
	})
}
