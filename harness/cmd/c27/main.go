// c27: implementation side of the C27 correspondence: Worktree.Status of a
// repository built from a recipe, next to `git status --porcelain=v1 -z`.
package main

import (
	"os"
	"sort"
	"time"

	git "github.com/go-git/go-git/v6"

	"verif/harness/lib"
	"verif/harness/porc"
)

func recipe(c lib.Case) *porc.Recipe {
	rc := &porc.Recipe{Format: c.S("fmt"), AutoCRLF: c.S("autocrlf"), Exclude: string(c.B("exclude")), Racy: c.Bool("racy"),
		NoIndex: c.Bool("noindex")}
	if v, ok := c["filemode"].(bool); ok {
		rc.FileMode = &v
	}
	rc.Head = porc.Entries(c.L("head"))
	rc.Index = porc.Entries(c.L("index"))
	rc.Wt = porc.Entries(c.L("wt"))
	rc.Dirs = c.SL("dirs")
	return rc
}

func code(b git.StatusCode) string {
	switch b {
	case git.Unmodified:
		return "unmod"
	case git.Untracked:
		return "untracked"
	}
	return string([]byte{byte(b)})
}

// tsOf reads a [seconds, nanoseconds] pair.
func tsOf(c lib.Case, k string) time.Time {
	l := c.L(k)
	if len(l) != 2 {
		panic("bad time stamp " + k)
	}
	return time.Unix(lib.Case{"s": l[0]}.I("s"), lib.Case{"n": l[1]}.I("n"))
}

// stamp gives one tracked file explicit sub-second time stamps: the entry is
// refreshed while the file (content as staged) carries emt, then the file is
// replaced (new inode, so git's own stat check cannot be fooled) by content c
// with mtime wmt, and .git/index is stamped imt.
func stamp(r *porc.Repo, st lib.Case) {
	full := r.Path(st.S("p"))
	emt, wmt, imt := tsOf(st, "emt"), tsOf(st, "wmt"), tsOf(st, "imt")
	if err := os.Chtimes(full, emt, emt); err != nil {
		panic(err)
	}
	r.Git("update-index", "--refresh")
	fi, err := os.Lstat(full)
	if err != nil {
		panic(err)
	}
	tmp := full + ".verif-tmp"
	if err := os.WriteFile(tmp, st.B("c"), fi.Mode().Perm()); err != nil {
		panic(err)
	}
	os.Chmod(tmp, fi.Mode().Perm())
	if err := os.Rename(tmp, full); err != nil {
		panic(err)
	}
	if err := os.Chtimes(full, wmt, wmt); err != nil {
		panic(err)
	}
	if err := os.Chtimes(r.Path(".git/index"), imt, imt); err != nil {
		panic(err)
	}
}

func main() {
	porc.Main(func(c lib.Case) (lib.Out, any) {
		r := porc.New()
		defer r.Close()
		r.Build(recipe(c))
		if st := c.M("stamp"); st != nil {
			stamp(r, st)
		}
		repo, err := git.PlainOpen(r.Dir)
		if err != nil {
			return lib.Err("open"), err.Error()
		}
		defer repo.Close()
		w, err := repo.Worktree()
		if err != nil {
			return lib.Err("worktree"), err.Error()
		}
		st, err := w.Status()
		extra := map[string]any{}
		var out lib.Out
		if err != nil {
			out = lib.Err("status")
			extra["err"] = err.Error()
		} else {
			var paths []string
			for p, fs := range st {
				if fs.Staging == git.Unmodified && fs.Worktree == git.Unmodified {
					continue
				}
				paths = append(paths, p)
			}
			sort.Strings(paths)
			var recs []lib.Out
			var plain []string
			for _, p := range paths {
				fs := st[p]
				recs = append(recs, lib.List(lib.Str(p), lib.Sym(code(fs.Staging)), lib.Sym(code(fs.Worktree))))
				plain = append(plain, string([]byte{byte(fs.Staging), byte(fs.Worktree)})+" "+p)
			}
			out = lib.Ok(recs...)
			extra["gogit"] = plain
		}
		gs, gerr := r.GitStatus()
		if gerr != nil {
			extra["giterr"] = gerr.Error()
		}
		extra["git"] = gs
		return out, extra
	}, 16)
}
