// c11: implementation side of the C11 correspondence (every stored object
// reads back identically on every read path).  A case names a repository built
// by the git binary (path of its .git directory), a combination of storage
// options and a sequence of reads; every read answers one canonical observable,
// plus (uncompared) details for the git oracle.
package main

import (
	"crypto/sha1"
	"encoding/hex"
	"errors"
	"io"
	"sort"

	"github.com/go-git/go-billy/v6"
	"github.com/go-git/go-billy/v6/osfs"

	"github.com/go-git/go-git/v6/plumbing"
	"github.com/go-git/go-git/v6/plumbing/cache"
	"github.com/go-git/go-git/v6/plumbing/format/idxfile"
	"github.com/go-git/go-git/v6/plumbing/format/packfile"
	"github.com/go-git/go-git/v6/plumbing/hash"
	"github.com/go-git/go-git/v6/storage/filesystem"
	"github.com/go-git/go-git/v6/x/fdpool"

	"verif/harness/lib"

	"crypto"
)

func typeOf(s string) plumbing.ObjectType {
	switch s {
	case "blob":
		return plumbing.BlobObject
	case "tree":
		return plumbing.TreeObject
	case "commit":
		return plumbing.CommitObject
	case "tag":
		return plumbing.TagObject
	}
	return plumbing.AnyObject
}

func class(err error) lib.Out {
	switch {
	case errors.Is(err, plumbing.ErrObjectNotFound):
		return lib.Err("notfound")
	default:
		return lib.Err("other")
	}
}

// fnv: Fletcher-style digest (two 32-bit running sums), continued from h
func fnv(h uint64, b []byte) uint64 {
	s1, s2 := uint32(h), uint32(h>>32)
	for _, c := range b {
		s1 += uint32(c)
		s2 += s1
	}
	return uint64(s2)<<32 | uint64(s1)
}

const fnvInit = 1

type objInfo struct {
	ID   string `json:"id"`
	Type string `json:"type"`
	Size int64  `json:"size"`
	Sha1 string `json:"sha1"`
	fnv  uint64
}

// readObj reads the object fully: type, size, content digest.
func readObj(o plumbing.EncodedObject) (objInfo, error) {
	var oi objInfo
	rd, err := o.Reader()
	if err != nil {
		return oi, err
	}
	defer rd.Close()
	b, err := io.ReadAll(rd)
	if err != nil {
		return oi, err
	}
	s := sha1.Sum(b)
	oi = objInfo{ID: o.Hash().String(), Type: o.Type().String(), Size: o.Size(), Sha1: hex.EncodeToString(s[:]), fnv: fnv(fnvInit, b)}
	if int64(len(b)) != o.Size() {
		return oi, errors.New("size differs from content length")
	}
	return oi, nil
}

func tnum(t string) int64 {
	switch t {
	case "commit":
		return 1
	case "tree":
		return 2
	case "blob":
		return 3
	case "tag":
		return 4
	}
	return 0
}

// digest of one listed object, order-independent when summed
func objDigest(oi objInfo) uint64 {
	id, _ := hex.DecodeString(oi.ID)
	h := fnv(fnvInit, id)
	h = fnv(h, []byte{byte(tnum(oi.Type))})
	return h + oi.fnv
}

func main() {
	lib.Main(func(c lib.Case) (lib.Out, any) {
		o := c.M("opts")
		var fs billy.Filesystem
		if o.Bool("mmap") {
			fs = osfs.New(c.S("repo"), osfs.WithMmap())
		} else {
			fs = osfs.New(c.S("repo"))
		}
		var oc cache.Object
		switch o.S("cache") {
		case "tiny":
			oc = cache.NewObjectLRU(cache.FileSize(o.I("cachesize")))
		case "default":
			oc = cache.NewObjectLRUDefault()
		}
		opts := filesystem.Options{
			ExclusiveAccess:      o.Bool("excl"),
			UseInMemoryIdx:       o.Bool("memidx"),
			LargeObjectThreshold: o.I("lot"),
			AlternatesFS:         osfs.New("/"),
		}
		if p := o.I("pool"); p >= 0 {
			opts.Pool = fdpool.New(int(p))
		}
		st := filesystem.NewStorageWithOptions(fs, oc, opts)
		defer st.Close()
		s := st.ObjectStorage
		var outs []lib.Out
		var details []any
		for _, x := range c.L("reads") {
			rd := lib.AsCase(x)
			var out lib.Out
			var det any
			switch rd.S("op") {
			case "get":
				obj, err := s.EncodedObject(typeOf(rd.S("t")), plumbing.NewHash(rd.S("id")))
				if err != nil {
					out, det = class(err), err.Error()
					break
				}
				oi, err := readObj(obj)
				if err != nil {
					out, det = class(err), err.Error()
					break
				}
				out, det = lib.Ok(lib.Int(tnum(oi.Type)), lib.Int(oi.Size), lib.Uint(oi.fnv)), oi
			case "size":
				n, err := s.EncodedObjectSize(plumbing.NewHash(rd.S("id")))
				if err != nil {
					out, det = class(err), err.Error()
					break
				}
				out, det = lib.Ok(lib.Int(n)), n
			case "has":
				err := s.HasEncodedObject(plumbing.NewHash(rd.S("id")))
				if err == nil {
					out = lib.Bool(true)
				} else if errors.Is(err, plumbing.ErrObjectNotFound) {
					out = lib.Bool(false)
				} else {
					out, det = class(err), err.Error()
				}
			case "iter":
				it, err := s.IterEncodedObjects(typeOf(rd.S("t")))
				if err != nil {
					out, det = class(err), err.Error()
					break
				}
				var list []objInfo
				var sum uint64
				err = it.ForEach(func(obj plumbing.EncodedObject) error {
					oi, err := readObj(obj)
					if err != nil {
						return err
					}
					list = append(list, oi)
					sum += objDigest(oi)
					return nil
				})
				if err != nil {
					out, det = class(err), err.Error()
					break
				}
				sort.Slice(list, func(i, j int) bool { return list[i].ID < list[j].ID })
				out, det = lib.Ok(lib.Int(int64(len(list))), lib.Uint(sum)), list
			case "prefix":
				hs, err := s.HashesWithPrefix(rd.B("p"))
				if err != nil {
					out, det = class(err), err.Error()
					break
				}
				var ids []string
				var sum uint64
				for _, h := range hs {
					ids = append(ids, h.String())
					sum += fnv(fnvInit, h.Bytes())
				}
				sort.Strings(ids)
				out, det = lib.Ok(lib.Int(int64(len(ids))), lib.Uint(sum)), ids
			case "off":
				// a stand-alone Packfile over one pack of the repository: read by offset
				out, det = byOffset(fs, oc, rd)
			default:
				out = lib.Err("badop")
			}
			outs = append(outs, out)
			details = append(details, det)
		}
		return lib.List(outs...), details
	})
}

func byOffset(fs billy.Filesystem, oc cache.Object, rd lib.Case) (lib.Out, any) {
	base := "objects/pack/pack-" + rd.S("pack")
	f, err := fs.Open(base + ".pack")
	if err != nil {
		return lib.Err("other"), err.Error()
	}
	fi, err := fs.Open(base + ".idx")
	if err != nil {
		f.Close()
		return lib.Err("other"), err.Error()
	}
	idx := idxfile.NewMemoryIndex(20)
	if err := idxfile.NewDecoder(fi, hash.New(crypto.SHA1)).Decode(idx); err != nil {
		f.Close()
		fi.Close()
		return lib.Err("other"), err.Error()
	}
	fi.Close()
	opts := []packfile.PackfileOption{packfile.WithIdx(idx), packfile.WithCache(oc)}
	if rd.Bool("fs") {
		opts = append(opts, packfile.WithFs(fs))
	}
	p := packfile.NewPackfile(f, opts...)
	defer p.Close()
	obj, err := p.GetByOffset(rd.I("off"))
	if err != nil {
		return class(err), err.Error()
	}
	oi, err := readObj(obj)
	if err != nil {
		return class(err), err.Error()
	}
	return lib.Ok(lib.Int(tnum(oi.Type)), lib.Int(oi.Size), lib.Uint(oi.fnv)), oi
}
