// c24inner: executes C24 schedules on the real internal/sharedfile + x/fdpool
// pair at critical-section granularity.
//
// It is built by harness/cmd/c24 with `go build -overlay`, the overlay being
// the current source of the two packages with the import "sync" redirected to
// verif/harness/vsync (nothing else is changed), and runs every case inside a
// testing/synctest bubble, so the grace timer is driven by a fake clock.
// The harness owns open(), the ReadAtCloser and time.
//
// Scheduling is cooperative: exactly one goroutine (the driver or one thread)
// runs at a time; a thread parks before each outermost Mutex.Lock and the
// driver decides who goes next.  Replies are written to fd 3.
package main

import (
	"bufio"
	"encoding/json"
	"errors"
	"fmt"
	"io/fs"
	"os"
	"runtime/debug"
	"strings"
	"sync"
	"testing"
	"testing/synctest"
	"time"

	"github.com/go-git/go-git/v6/x/fdpool"
	"github.com/go-git/go-git/v6/x/verifhooks"

	"verif/harness/lib"
	"verif/harness/vsync"
)

type handle struct {
	id, file int
	closed   bool
}

func (*handle) ReadAt(p []byte, off int64) (int, error) { return 0, nil }
func (*handle) Read(p []byte) (int, error)              { return 0, nil }
func (h *handle) Close() error {
	h.closed = true
	return nil
}

type event struct {
	done   bool
	result lib.Out
	panic  string
}

type thread struct {
	id     int // user thread id; -1 for a timer callback
	file   int // file of the operation / of the timer
	op     string
	wake   chan struct{}
	ev     chan event
	depth  int
	parked *vsync.Mutex
}

type hold struct {
	t, f int
	h    *handle
}

type world struct {
	capacity int
	pool     *fdpool.Pool
	files    []*verifhooks.SharedFile
	pooled   []bool
	muOwner  map[*vsync.Mutex]int // file index, -1 = pool
	handles  []*handle
	failNext []bool
	threads  map[int]*thread
	timers   [][]*thread // per file: started callbacks parked at s.mu, oldest first
	holds    []hold
	idleAt   []time.Time // fake time at which refs last dropped to zero
	grace    time.Duration
	cur      *thread
	timerMod bool
	notes    []string
}

var w *world

var timerReg sync.Mutex // several grace timers may start in parallel during a sleep

var errOpen = errors.New("harness: open fails")

func (w *world) note(f string, a ...any) { w.notes = append(w.notes, fmt.Sprintf(f, a...)) }

// ---- vsync hooks --------------------------------------------------------

func beforeLock(m *vsync.Mutex) {
	if w == nil {
		return
	}
	if w.timerMod {
		// a grace-timer callback started by the (fake) clock: it parks before s.mu
		timerReg.Lock()
		f, ok := w.muOwner[m]
		if !ok || f < 0 {
			w.note("timer goroutine at an unknown mutex")
			timerReg.Unlock()
			return
		}
		t := &thread{id: -1, file: f, op: "timer", wake: make(chan struct{}), ev: make(chan event, 1), parked: m}
		w.timers[f] = append(w.timers[f], t)
		timerReg.Unlock()
		<-t.wake
		t.parked = nil
		return
	}
	t := w.cur
	if t == nil || t.depth > 0 {
		return // the driver itself (snapshots), or a nested lock inside a critical section
	}
	t.parked = m
	t.ev <- event{}
	<-t.wake
	t.parked = nil
}

func afterLock(m *vsync.Mutex) {
	if w != nil && !w.timerMod && w.cur != nil {
		w.cur.depth++
	}
}

func afterUnlock(m *vsync.Mutex) {
	if w != nil && !w.timerMod && w.cur != nil {
		w.cur.depth--
		if w.cur.id == -1 && w.cur.depth == 0 {
			w.cur.ev <- event{done: true}
		}
	}
}

// ---- driver --------------------------------------------------------------

// resume lets t run until it parks again or its operation ends.
func (w *world) resume(t *thread) event {
	w.cur = t
	t.wake <- struct{}{}
	e := <-t.ev
	w.cur = nil
	return e
}

func (w *world) spawn(id, f int, op string, body func() lib.Out) *thread {
	t := &thread{id: id, file: f, op: op, wake: make(chan struct{}), ev: make(chan event, 1)}
	w.threads[id] = t
	go func() {
		<-t.wake
		var e event
		e.done = true
		func() {
			defer func() {
				if r := recover(); r != nil {
					e.panic = fmt.Sprint(r) + "\n" + string(debug.Stack())
					e.result = lib.Sym("panic")
				}
			}()
			e.result = body()
		}()
		t.ev <- e
	}()
	return t
}

func (w *world) openFn(f int) func() (verifhooks.ReadAtCloser, error) {
	return func() (verifhooks.ReadAtCloser, error) {
		if w.failNext[f] {
			w.failNext[f] = false
			return nil, errOpen
		}
		h := &handle{id: len(w.handles), file: f}
		w.handles = append(w.handles, h)
		return h, nil
	}
}

func (w *world) currentHandle(f int) *handle {
	for i := len(w.handles) - 1; i >= 0; i-- {
		if h := w.handles[i]; h.file == f && !h.closed {
			return h
		}
	}
	return nil
}

type snap struct {
	files    []lib.Out // per file: ( handle refs closed inlru )
	order    []lib.Out // LRU, front first
	open     int // open handles of pooled files
	openAll  int
	pinned   int // pooled files with refs > 0
	inflight int
	idleOpen int // descriptors open with no reader on files that no pool governs (grace timer's job)
	viol     []string
}

func (w *world) snapshot() snap {
	var s snap
	var fl []lib.Out
	regd := map[*fdpool.Handle]int{}
	for i, sf := range w.files {
		st := sf.VerifState()
		regd[sf.VerifPoolHandle()] = i
		h := w.currentHandle(i)
		var ho lib.Out = lib.None()
		if h != nil {
			ho = lib.Some(lib.Int(int64(h.id)))
		}
		if (h != nil) != st.Open {
			s.viol = append(s.viol, fmt.Sprintf("handle-mismatch file %d: s.file!=nil is %v, open harness handle %v", i, st.Open, h != nil))
		}
		n := 0
		for _, x := range w.handles {
			if x.file == i && !x.closed {
				n++
			}
		}
		if n > 1 {
			s.viol = append(s.viol, fmt.Sprintf("descriptor-leak file %d: %d handles open at once", i, n))
		}
		inlru := false
		if w.pool != nil && w.pooled[i] {
			inlru = w.pool.VerifRegistered(sf.VerifPoolHandle())
		}
		fl = append(fl, lib.List(ho, lib.Int(int64(st.Refs)), lib.Bool(st.Closed), lib.Bool(inlru)))
		s.openAll += n
		if st.Open && st.Refs == 0 && !st.Closed && !(w.pooled[i] && w.capacity > 0) {
			s.idleOpen++
		}
		if w.pooled[i] {
			s.open += n
			if st.Refs > 0 {
				s.pinned++
			}
		}
		// C24_pinned_open on the implementation: a handle handed to a reader that has
		// not released it is still open, unless the owner was closed
		for _, hd := range w.holds {
			if hd.f == i && !st.Closed && hd.h.closed {
				s.viol = append(s.viol, fmt.Sprintf("pinned-open: thread %d holds handle %d of file %d, which was closed under it", hd.t, hd.h.id, i))
			}
		}
		if st.Closed && n > 0 {
			s.viol = append(s.viol, fmt.Sprintf("close-final: file %d is closed but a descriptor is still open", i))
		}
		if st.Refs < 0 {
			s.viol = append(s.viol, fmt.Sprintf("negative refs on file %d", i))
		}
	}
	var order []lib.Out
	seen := map[int]bool{}
	if w.pool != nil {
		for _, h := range w.pool.VerifOrder() {
			i, ok := regd[h]
			if !ok {
				i = -1
			}
			if seen[i] {
				s.viol = append(s.viol, fmt.Sprintf("lru-wf: member %d is linked twice", i))
			}
			seen[i] = true
			order = append(order, lib.Int(int64(i)))
		}
		for i, sf := range w.files {
			if w.pooled[i] && w.pool.VerifRegistered(sf.VerifPoolHandle()) != seen[i] {
				s.viol = append(s.viol, fmt.Sprintf("lru-wf: member %d: token registered=%v but linked=%v", i, !seen[i], seen[i]))
			}
		}
		if w.capacity > 0 && len(order) > w.capacity {
			s.viol = append(s.viol, fmt.Sprintf("lru-wf: %d members registered, capacity %d", len(order), w.capacity))
		}
	}
	// in-flight evictions: an Acquire parked at the s.mu of ANOTHER file
	for _, t := range w.threads {
		if t.op == "acq" && t.parked != nil {
			if o, ok := w.muOwner[t.parked]; ok && o >= 0 && o != t.file {
				s.inflight++
			}
		}
	}
	s.files, s.order = fl, order
	return s
}

type cmd struct {
	op   string
	a, b int
	fail bool
}

func parseCmds(c lib.Case) []cmd {
	var r []cmd
	for _, x := range c.L("cmds") {
		l, _ := x.([]any)
		if len(l) == 0 {
			continue
		}
		k := cmd{}
		k.op, _ = l[0].(string)
		num := func(i int) int {
			if i < len(l) {
				switch v := l[i].(type) {
				case json.Number:
					n, _ := v.Int64()
					return int(n)
				case float64:
					return int(v)
				}
			}
			return 0
		}
		k.a, k.b = num(1), num(2)
		if len(l) > 3 {
			k.fail, _ = l[3].(bool)
		}
		r = append(r, k)
	}
	return r
}

func (w *world) newestHold(t, f int) *handle {
	for i := len(w.holds) - 1; i >= 0; i-- {
		if w.holds[i].t == t && w.holds[i].f == f {
			return w.holds[i].h
		}
	}
	return nil
}

// finish turns the end of a thread's operation into the command status.
func (w *world) finish(t *thread, e event, panics *[]string) lib.Out {
	if !e.done {
		return lib.Sym("parked")
	}
	delete(w.threads, t.id)
	if e.panic != "" {
		*panics = append(*panics, e.panic)
	}
	return e.result
}

func (w *world) runCase(c lib.Case) (lib.Out, any, string) {
	w.capacity = int(c.I("cap"))
	grace := time.Duration(c.I("grace")) * time.Second
	w.grace = grace
	w.pool = fdpool.New(w.capacity)
	w.muOwner = map[*vsync.Mutex]int{}
	pm, ok := w.pool.VerifMutex().(*vsync.Mutex)
	if !ok {
		panic("x/fdpool was not built through the vsync overlay")
	}
	w.muOwner[pm] = -1
	for i, p := range c.L("pooled") {
		pl, _ := p.(bool)
		w.pooled = append(w.pooled, pl)
		var pool *fdpool.Pool
		if pl {
			pool = w.pool
		}
		sf := verifhooks.NewSharedFile(w.openFn(i), grace, pool)
		sm, ok := sf.VerifMutex().(*vsync.Mutex)
		if !ok {
			panic("internal/sharedfile was not built through the vsync overlay")
		}
		w.muOwner[sm] = i
		w.files = append(w.files, sf)
	}
	nf := len(w.files)
	w.failNext = make([]bool, nf)
	w.idleAt = make([]time.Time, nf)
	w.timers = make([][]*thread, nf)
	w.threads = map[int]*thread{}
	var outs []lib.Out
	var extra []map[string]any
	var panics []string
	prev := w.snapshot()

	for _, k := range parseCmds(c) {
		status := lib.Sym("skip")
		switch k.op {
		case "acq", "close", "rnow", "rel":
			t, f := k.a, k.b
			if f < 0 || f >= nf || w.threads[t] != nil {
				break
			}
			sf := w.files[f]
			var th *thread
			switch k.op {
			case "acq":
				w.failNext[f] = k.fail
				wasClosed := sf.VerifState().Closed
				th = w.spawn(t, f, "acq", func() lib.Out {
					r, err := sf.Acquire()
					if wasClosed && err == nil {
						w.note("close-final: Acquire succeeded on file %d after Close", f)
					}
					if errors.Is(err, fs.ErrClosed) {
						return lib.Err("closed")
					}
					if err != nil {
						return lib.Err("open")
					}
					h, _ := r.(*handle)
					if h == nil {
						return lib.Err("foreign-handle")
					}
					w.holds = append(w.holds, hold{t, f, h})
					return lib.List(lib.Sym("ok"), lib.Int(int64(h.id)))
				})
			case "close":
				th = w.spawn(t, f, "close", func() lib.Out { sf.Close(); return lib.Sym("done") })
			case "rnow":
				th = w.spawn(t, f, "rnow", func() lib.Out { sf.ReleaseNow(); return lib.Sym("done") })
			case "rel":
				idx := -1
				for i, hd := range w.holds { // oldest hold of t on f
					if hd.t == t && hd.f == f {
						idx = i
						break
					}
				}
				if idx < 0 {
					break
				}
				w.holds = append(w.holds[:idx:idx], w.holds[idx+1:]...)
				th = w.spawn(t, f, "rel", func() lib.Out { sf.Release(); return lib.Sym("done") })
			}
			if th == nil {
				break
			}
			e := w.resume(th) // runs to the first Lock (nothing has happened yet)
			if !e.done {
				e = w.resume(th) // the first critical section
			}
			w.failNext[f] = false
			status = w.finish(th, e, &panics)
		case "step":
			th := w.threads[k.a]
			if th == nil {
				break
			}
			status = w.finish(th, w.resume(th), &panics)
		case "sleep":
			w.timerMod = true
			time.Sleep(time.Duration(k.a) * time.Second)
			synctest.Wait()
			w.timerMod = false
			status = lib.Sym("done")
		case "fire":
			f := k.a
			if f < 0 || f >= nf || len(w.timers[f]) == 0 {
				break
			}
			th := w.timers[f][0]
			w.timers[f] = w.timers[f][1:]
			w.resume(th)
			status = lib.Sym("done")
		}
		s := w.snapshot()
		// C24_grace_respected on the implementation: a timer callback closes a descriptor
		// only after a full grace period without a reader
		for i, sf := range w.files {
			st := sf.VerifState()
			was := lib.Render(prev.files[i])
			if st.Refs == 0 && !strings.Contains(was, " 0 false ") && !strings.Contains(was, " 0 true ") {
				w.idleAt[i] = time.Now()
			}
			if k.op == "fire" && k.a == i && strings.HasPrefix(was, "( ( some") && !st.Open && !st.Closed {
				if idle := time.Since(w.idleAt[i]); idle < w.grace {
					s.viol = append(s.viol, fmt.Sprintf("grace: timer closed file %d after %v idle, grace period %v", i, idle, w.grace))
				}
			}
		}
		// observation: the status and only what changed (files, then the LRU order)
		obs := []lib.Out{status}
		for i := range s.files {
			if lib.Render(s.files[i]) != lib.Render(prev.files[i]) {
				obs = append(obs, lib.List(lib.Int(int64(i)), s.files[i]))
			}
		}
		if lib.Render(lib.List(s.order...)) != lib.Render(lib.List(prev.order...)) {
			obs = append(obs, lib.List(append([]lib.Out{lib.Sym("lru")}, s.order...)...))
		}
		prev = s
		outs = append(outs, lib.List(obs...))
		extra = append(extra, map[string]any{"open": s.open, "open_all": s.openAll, "pinned": s.pinned, "inflight": s.inflight, "idle_open": s.idleOpen, "viol": s.viol})
	}
	// drain: a bubble must end with no goroutine left behind
	undrained := 0
	for len(w.threads) > 0 {
		for id, th := range w.threads {
			undrained++
			if e := w.resume(th); e.done {
				delete(w.threads, id)
			}
		}
	}
	for _, sf := range w.files {
		th := w.spawn(-2, 0, "close", func() lib.Out { sf.Close(); return nil })
		for {
			if e := w.resume(th); e.done {
				break
			}
		}
		delete(w.threads, -2)
	}
	for f := range w.timers {
		for _, th := range w.timers[f] {
			undrained++
			w.resume(th)
		}
	}
	return lib.List(outs...), map[string]any{"steps": extra, "undrained": undrained, "notes": w.notes}, firstOf(panics)
}

func firstOf(l []string) string {
	if len(l) > 0 {
		return l[0]
	}
	return ""
}

type reply struct {
	ID    any     `json:"id"`
	Out   string  `json:"out"`
	Panic string  `json:"panic,omitempty"`
	Ms    float64 `json:"ms"`
	Extra any     `json:"extra,omitempty"`
}

func main() {
	out := os.NewFile(3, "replies")
	if out == nil {
		fmt.Fprintln(os.Stderr, "c24inner: fd 3 is not open")
		os.Exit(2)
	}
	vsync.BeforeLock, vsync.AfterLock, vsync.AfterUnlock = beforeLock, afterLock, afterUnlock
	wr := bufio.NewWriterSize(out, 1<<20)
	enc := json.NewEncoder(wr)
	test := func(t *testing.T) {
		dec := json.NewDecoder(bufio.NewReaderSize(os.Stdin, 1<<20))
		dec.UseNumber()
		for {
			var c lib.Case
			if err := dec.Decode(&c); err != nil {
				break
			}
			r := reply{ID: c["id"]}
			t0 := time.Now()
			synctest.Test(t, func(t *testing.T) {
				defer func() {
					if e := recover(); e != nil {
						r.Out = "( panic )"
						r.Panic = fmt.Sprint(e) + "\n" + string(debug.Stack())
					}
					w = nil
				}()
				w = &world{}
				o, extra, pn := w.runCase(c)
				r.Out, r.Extra, r.Panic = lib.Render(o), extra, pn
			})
			r.Ms = float64(time.Since(t0).Microseconds()) / 1000
			enc.Encode(r)
			wr.Flush()
		}
	}
	testing.Main(func(pat, str string) (bool, error) { return true, nil },
		[]testing.InternalTest{{Name: "c24", F: test}}, nil, nil)
}
