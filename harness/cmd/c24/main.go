// c24: implementation side of the C24 correspondence (internal/sharedfile +
// x/fdpool).  This command only prepares and supervises the real executor,
// cmd/c24/inner: it copies the CURRENT source files of the two packages from
// the repository under test, redirects their import of "sync" to
// verif/harness/vsync (a one-token change made on the syntax tree: import
// path only), builds cmd/c24/inner with `go build -overlay` against that
// repository, and pipes the cases through it.  No yield point is committed
// into go-git; the scheduling points are the Mutex.Lock calls themselves.
package main

import (
	"bytes"
	"crypto/sha256"
	"encoding/hex"
	"encoding/json"
	"fmt"
	"go/parser"
	"go/token"
	"io"
	"os"
	"os/exec"
	"path/filepath"
	"sort"
	"strings"
)

func die(f string, a ...any) {
	fmt.Fprintf(os.Stderr, "c24: "+f+"\n", a...)
	os.Exit(2)
}

var pkgs = []string{"internal/sharedfile", "x/fdpool"}

func main() {
	exe, err := os.Executable()
	if err != nil {
		die("%v", err)
	}
	harness := filepath.Dir(filepath.Dir(exe))
	repo := os.Getenv("VERIF_REPO")
	if repo == "" {
		repo = "/repo"
	}
	repo, _ = filepath.EvalSymlinks(repo)
	tmp, err := os.MkdirTemp("", "verif-c24-")
	if err != nil {
		die("%v", err)
	}
	defer os.RemoveAll(tmp)

	replace := map[string]string{}
	n := 0
	for _, p := range pkgs {
		ents, err := os.ReadDir(filepath.Join(repo, p))
		if err != nil {
			die("%v", err)
		}
		var names []string
		for _, e := range ents {
			if !e.IsDir() && strings.HasSuffix(e.Name(), ".go") && !strings.HasSuffix(e.Name(), "_test.go") {
				names = append(names, e.Name())
			}
		}
		sort.Strings(names)
		for _, name := range names {
			path := filepath.Join(repo, p, name)
			src, err := os.ReadFile(path)
			if err != nil {
				die("%v", err)
			}
			fset := token.NewFileSet()
			f, err := parser.ParseFile(fset, path, src, parser.ImportsOnly)
			if err != nil {
				continue // the compiler will report it
			}
			for _, im := range f.Imports {
				if im.Path.Value != `"sync"` {
					continue
				}
				if im.Name != nil && im.Name.Name != "sync" {
					die("%s imports sync under the name %s: not handled", path, im.Name.Name)
				}
				start, end := fset.Position(im.Pos()).Offset, fset.Position(im.End()).Offset
				out := append(append(append([]byte{}, src[:start]...), []byte(`sync "verif/harness/vsync"`)...), src[end:]...)
				dst := filepath.Join(tmp, fmt.Sprintf("ov%d_%s", n, name))
				n++
				if err := os.WriteFile(dst, out, 0o644); err != nil {
					die("%v", err)
				}
				replace[path] = dst
			}
		}
	}
	if len(replace) == 0 {
		die("no file of %v imports sync: nothing to schedule", pkgs)
	}
	ov, _ := json.Marshal(map[string]any{"Replace": replace})
	ovPath := filepath.Join(tmp, "overlay.json")
	os.WriteFile(ovPath, ov, 0o644)

	// the executor is cached under the hash of everything that goes into it
	key := sha256.New()
	for _, d := range []string{filepath.Join(repo, "internal/sharedfile"), filepath.Join(repo, "x/fdpool"), filepath.Join(repo, "x/verifhooks"),
		filepath.Join(harness, "vsync"), filepath.Join(harness, "lib"), filepath.Join(harness, "cmd/c24/inner"), filepath.Join(harness, "cmd/c24")} {
		ents, _ := os.ReadDir(d)
		for _, e := range ents {
			if !e.IsDir() && strings.HasSuffix(e.Name(), ".go") && !strings.HasSuffix(e.Name(), "_test.go") {
				b, _ := os.ReadFile(filepath.Join(d, e.Name()))
				fmt.Fprintf(key, "%s/%s %d\n", d, e.Name(), len(b))
				key.Write(b)
			}
		}
	}
	for _, f := range []string{filepath.Join(repo, "go.mod"), filepath.Join(harness, "go.mod")} {
		b, _ := os.ReadFile(f)
		key.Write(b)
	}
	cacheDir := filepath.Join(harness, "..", ".cache", "c24inner")
	os.MkdirAll(cacheDir, 0o755)
	bin := filepath.Join(cacheDir, hex.EncodeToString(key.Sum(nil))[:32])
	if _, err := os.Stat(bin); err == nil {
		runInner(bin)
		return
	}
	final := bin
	bin = filepath.Join(tmp, "c24inner")
	args := []string{"build"}
	if repo != "/repo" {
		alt := filepath.Join(harness, "alt.mod")
		if _, err := os.Stat(alt); err == nil {
			args = append(args, "-modfile", alt)
		}
	}
	args = append(args, "-tags", "verif", "-overlay", ovPath, "-o", bin, "./cmd/c24/inner")
	build := exec.Command("go", args...)
	build.Dir = harness
	var berr bytes.Buffer
	build.Stdout, build.Stderr = &berr, &berr
	if err := build.Run(); err != nil {
		die("go %s: %v\n%s", strings.Join(args, " "), err, berr.String())
	}

	// publish atomically; keep the cache small
	if old, _ := filepath.Glob(filepath.Join(cacheDir, "*")); len(old) > 8 {
		for _, o := range old {
			os.Remove(o)
		}
	}
	if err := copyFile(bin, final+".tmp"+fmt.Sprint(os.Getpid())); err == nil {
		os.Rename(final+".tmp"+fmt.Sprint(os.Getpid()), final)
	}
	runInner(bin)
}

func copyFile(src, dst string) error {
	b, err := os.ReadFile(src)
	if err != nil {
		return err
	}
	return os.WriteFile(dst, b, 0o755)
}

func runInner(bin string) {
	pr, pw, err := os.Pipe()
	if err != nil {
		die("%v", err)
	}
	run := exec.Command(bin)
	run.Stdin = os.Stdin
	run.Stdout = os.Stderr // "PASS"/"FAIL" chatter of package testing
	run.Stderr = os.Stderr
	run.ExtraFiles = []*os.File{pw}
	if err := run.Start(); err != nil {
		die("%v", err)
	}
	pw.Close()
	io.Copy(os.Stdout, pr)
	if err := run.Wait(); err != nil {
		fmt.Fprintf(os.Stderr, "c24: executor: %v\n", err)
		os.Exit(1)
	}
}
