// c48: implementation side of the C48 correspondence (git config files:
// format/config Encoder and Decoder, config.Config Marshal/Unmarshal and the
// boolean / numeric readers).
package main

import (
	"bytes"
	"encoding/hex"
	"sort"

	"github.com/go-git/go-git/v6/config"
	"github.com/go-git/go-git/v6/plumbing"
	format "github.com/go-git/go-git/v6/plumbing/format/config"

	"verif/harness/lib"
)

func hx(s string) string { return hex.EncodeToString([]byte(s)) }

// flat: every option of a format.Config in structure order:
// [section, has-subsection, subsection, key, value] (strings hex encoded)
func flat(cfg *format.Config) [][]any {
	out := [][]any{}
	for _, s := range cfg.Sections {
		for _, o := range s.Options {
			out = append(out, []any{hx(s.Name), false, "", hx(o.Key), hx(o.Value)})
		}
		for _, ss := range s.Subsections {
			for _, o := range ss.Options {
				out = append(out, []any{hx(s.Name), true, hx(ss.Name), hx(o.Key), hx(o.Value)})
			}
		}
	}
	return out
}

func decode(b []byte) (*format.Config, error) {
	cfg := format.New()
	err := format.NewDecoder(bytes.NewReader(b)).Decode(cfg)
	return cfg, err
}

func opts(l []any) format.Options {
	var r format.Options
	for _, x := range l {
		kv, _ := x.([]any)
		k, _ := kv[0].(string)
		v, _ := kv[1].(string)
		r = append(r, &format.Option{Key: string(lib.Unhex(k)), Value: string(lib.Unhex(v))})
	}
	return r
}

func doEncode(c lib.Case) (lib.Out, any) {
	cfg := format.New()
	for _, x := range c.L("secs") {
		sc := lib.AsCase(x)
		s := &format.Section{Name: string(sc.B("n")), Options: opts(sc.L("o"))}
		for _, y := range sc.L("s") {
			ssc := lib.AsCase(y)
			s.Subsections = append(s.Subsections, &format.Subsection{Name: string(ssc.B("n")), Options: opts(ssc.L("o"))})
		}
		cfg.Sections = append(cfg.Sections, s)
	}
	var buf bytes.Buffer
	if err := format.NewEncoder(&buf).Encode(cfg); err != nil {
		return lib.Err("encode"), nil
	}
	back, err := decode(buf.Bytes())
	extra := map[string]any{}
	if err != nil {
		extra["readback_err"] = err.Error()
	} else {
		extra["readback"] = flat(back)
	}
	return lib.Bytes(buf.Bytes()), extra
}

func doDecode(c lib.Case) (lib.Out, any) {
	cfg, err := decode(c.B("file"))
	if err != nil {
		return lib.Err("decode"), map[string]any{"err": err.Error()}
	}
	return lib.Ok(), map[string]any{"entries": flat(cfg)}
}

func optbool(o config.OptBool) lib.Out { return lib.Sym(o.String()) }

func doInterp(c lib.Case) (lib.Out, any) {
	cfg := config.NewConfig()
	if err := cfg.Unmarshal(c.B("file")); err != nil {
		return lib.Err("unmarshal"), map[string]any{"err": err.Error()}
	}
	switch c.S("kind") {
	case "bare":
		return lib.Bool(cfg.Core.IsBare), nil
	case "filemode":
		return lib.Bool(cfg.Core.FileMode), nil
	case "ntfs":
		return optbool(cfg.Core.ProtectNTFS), nil
	case "hfs":
		return optbool(cfg.Core.ProtectHFS), nil
	case "taggpg":
		return optbool(cfg.Tag.GpgSign), nil
	case "commitgpg":
		return optbool(cfg.Commit.GpgSign), nil
	case "skiphash":
		return optbool(cfg.Index.SkipHash), nil
	case "allowunreach":
		return optbool(cfg.UploadArchive.AllowUnreachable), nil
	case "wtconfig":
		return lib.Bool(cfg.Extensions.WorktreeConfig), nil
	case "window":
		return lib.Ok(lib.Uint(uint64(cfg.Pack.Window))), nil
	case "readrev":
		return lib.Bool(cfg.Pack.ReadReverseIndex), nil
	case "writerev":
		return lib.Bool(cfg.Pack.WriteReverseIndex), nil
	case "mirror":
		r := cfg.Remotes["r"]
		if r == nil {
			return lib.Err("noremote"), nil
		}
		return lib.Bool(r.Mirror), nil
	case "promisor":
		r := cfg.Remotes["r"]
		if r == nil {
			return lib.Err("noremote"), nil
		}
		return lib.Bool(r.Promisor), nil
	}
	return lib.Err("kind"), nil
}

func strs(c lib.Case, k string) []string {
	var r []string
	for _, h := range c.SL(k) {
		r = append(r, string(lib.Unhex(h)))
	}
	return r
}

func hxs(l []string) []string {
	r := []string{}
	for _, s := range l {
		r = append(r, hx(s))
	}
	return r
}

// observe: the typed fields of a config.Config the marshal suite sets
func observe(cfg *config.Config) map[string]any {
	o := map[string]any{
		"bare": cfg.Core.IsBare, "worktree": hx(cfg.Core.Worktree), "autocrlf": hx(cfg.Core.AutoCRLF),
		"filemode": cfg.Core.FileMode, "hookspath": hx(cfg.Core.HooksPath),
		"uname": hx(cfg.User.Name), "uemail": hx(cfg.User.Email), "window": uint64(cfg.Pack.Window),
		"defaultbranch": hx(cfg.Init.DefaultBranch),
	}
	rem := []any{}
	var names []string
	for n := range cfg.Remotes {
		names = append(names, n)
	}
	sort.Strings(names)
	for _, n := range names {
		r := cfg.Remotes[n]
		var f []string
		for _, rs := range r.Fetch {
			f = append(f, rs.String())
		}
		rem = append(rem, map[string]any{"name": hx(r.Name), "urls": hxs(r.URLs), "fetch": hxs(f), "mirror": r.Mirror})
	}
	o["remotes"] = rem
	br := []any{}
	names = nil
	for n := range cfg.Branches {
		names = append(names, n)
	}
	sort.Strings(names)
	for _, n := range names {
		b := cfg.Branches[n]
		br = append(br, map[string]any{"name": hx(b.Name), "remote": hx(b.Remote), "merge": hx(string(b.Merge)), "rebase": hx(b.Rebase), "description": hx(b.Description)})
	}
	o["branches"] = br
	sm := []any{}
	names = nil
	for n := range cfg.Submodules {
		names = append(names, n)
	}
	sort.Strings(names)
	for _, n := range names {
		m := cfg.Submodules[n]
		sm = append(sm, map[string]any{"name": hx(m.Name), "url": hx(m.URL), "branch": hx(m.Branch)})
	}
	o["submodules"] = sm
	us := []any{}
	for _, u := range cfg.URLs {
		us = append(us, map[string]any{"name": hx(u.Name), "insteadof": hxs(u.InsteadOfs)})
	}
	o["urls"] = us
	return o
}

func doMarshal(c lib.Case) (lib.Out, any) {
	cfg := config.NewConfig()
	cfg.Core.IsBare = c.Bool("bare")
	cfg.Core.Worktree = string(c.B("worktree"))
	cfg.Core.AutoCRLF = string(c.B("autocrlf"))
	cfg.Core.FileMode = c.Bool("filemode")
	cfg.Core.HooksPath = string(c.B("hookspath"))
	cfg.User.Name = string(c.B("uname"))
	cfg.User.Email = string(c.B("uemail"))
	cfg.Pack.Window = uint(c.U("window"))
	cfg.Init.DefaultBranch = string(c.B("defaultbranch"))
	for _, x := range c.L("remotes") {
		rc := lib.AsCase(x)
		r := &config.RemoteConfig{Name: string(rc.B("name")), URLs: strs(rc, "urls"), Mirror: rc.Bool("mirror")}
		for _, f := range strs(rc, "fetch") {
			r.Fetch = append(r.Fetch, config.RefSpec(f))
		}
		cfg.Remotes[r.Name] = r
	}
	for _, x := range c.L("branches") {
		bc := lib.AsCase(x)
		b := &config.Branch{Name: string(bc.B("name")), Remote: string(bc.B("remote")),
			Merge: plumbing.ReferenceName(bc.B("merge")), Rebase: string(bc.B("rebase")), Description: string(bc.B("description"))}
		cfg.Branches[b.Name] = b
	}
	for _, x := range c.L("submodules") {
		mc := lib.AsCase(x)
		m := &config.Submodule{Name: string(mc.B("name")), Path: string(mc.B("path")), URL: string(mc.B("url")), Branch: string(mc.B("branch"))}
		cfg.Submodules[m.Name] = m
	}
	for _, x := range c.L("urls") {
		uc := lib.AsCase(x)
		cfg.URLs = append(cfg.URLs, &config.URL{Name: string(uc.B("name")), InsteadOfs: strs(uc, "insteadof")})
	}
	b, err := cfg.Marshal()
	if err != nil {
		return lib.Err("marshal"), map[string]any{"err": err.Error()}
	}
	extra := map[string]any{"bytes": hex.EncodeToString(b)}
	back := config.NewConfig()
	if err := back.Unmarshal(b); err != nil {
		extra["readback_err"] = err.Error()
	} else {
		extra["readback"] = observe(back)
	}
	return lib.Ok(), extra
}

// doOpts: the option operations behind SetOption / AddOption / RemoveOption on a
// Subsection (several values) and, for single values, on a Section too.
func doOpts(c lib.Case) (lib.Out, any) {
	ss := &format.Subsection{Name: "x", Options: opts(c.L("os"))}
	sec := &format.Section{Name: "x", Options: opts(c.L("os"))}
	secOK := true
	for _, x := range c.L("ops") {
		oc := lib.AsCase(x)
		k := string(oc.B("k"))
		vs := strs(oc, "vs")
		switch oc.S("kind") {
		case "set":
			ss.SetOption(k, vs...)
			if len(vs) == 1 {
				sec.SetOption(k, vs[0])
			} else {
				secOK = false
			}
		case "add":
			ss.AddOption(k, vs[0])
			sec.AddOption(k, vs[0])
		default:
			ss.RemoveOption(k)
			sec.RemoveOption(k)
		}
	}
	list := func(os format.Options) lib.Out {
		var l []lib.Out
		for _, o := range os {
			l = append(l, lib.List(lib.Str(o.Key), lib.Str(o.Value)))
		}
		return lib.List(l...)
	}
	var reads []lib.Out
	for _, h := range c.SL("reads") {
		k := string(lib.Unhex(h))
		var all []lib.Out
		for _, v := range ss.OptionAll(k) {
			all = append(all, lib.Str(v))
		}
		reads = append(reads, lib.List(lib.Str(ss.Option(k)), lib.List(all...)))
	}
	if secOK && lib.Render(list(sec.Options)) != lib.Render(list(ss.Options)) {
		return lib.Err("section_differs_from_subsection"), nil
	}
	return lib.Ok(list(ss.Options), lib.List(reads...)), nil
}

func has(c lib.Case, k string) bool { _, ok := c[k]; return ok }

// doRMW: Unmarshal a file, change some typed fields, Marshal, read back.
func doRMW(c lib.Case) (lib.Out, any) {
	cfg := config.NewConfig()
	if err := cfg.Unmarshal(c.B("file")); err != nil {
		return lib.Err("unmarshal"), map[string]any{"err": err.Error()}
	}
	before := observe(cfg)
	m := c.M("mut")
	if has(m, "bare") {
		cfg.Core.IsBare = m.Bool("bare")
	}
	if has(m, "filemode") {
		cfg.Core.FileMode = m.Bool("filemode")
	}
	if has(m, "worktree") {
		cfg.Core.Worktree = string(m.B("worktree"))
	}
	if has(m, "autocrlf") {
		cfg.Core.AutoCRLF = string(m.B("autocrlf"))
	}
	if has(m, "hookspath") {
		cfg.Core.HooksPath = string(m.B("hookspath"))
	}
	if has(m, "uname") {
		cfg.User.Name = string(m.B("uname"))
	}
	if has(m, "uemail") {
		cfg.User.Email = string(m.B("uemail"))
	}
	if has(m, "defaultbranch") {
		cfg.Init.DefaultBranch = string(m.B("defaultbranch"))
	}
	if has(m, "window") {
		cfg.Pack.Window = uint(m.U("window"))
	}
	for _, x := range m.L("remotes") {
		rc := lib.AsCase(x)
		name := string(rc.B("name"))
		r := cfg.Remotes[name]
		if r == nil {
			r = &config.RemoteConfig{Name: name}
			cfg.Remotes[name] = r
		}
		if has(rc, "urls") {
			r.URLs = strs(rc, "urls")
		}
		if has(rc, "fetch") {
			r.Fetch = nil
			for _, f := range strs(rc, "fetch") {
				r.Fetch = append(r.Fetch, config.RefSpec(f))
			}
		}
		if has(rc, "mirror") {
			r.Mirror = rc.Bool("mirror")
		}
	}
	for _, x := range m.L("branches") {
		bc := lib.AsCase(x)
		name := string(bc.B("name"))
		b := cfg.Branches[name]
		if b == nil {
			b = &config.Branch{Name: name}
			cfg.Branches[name] = b
		}
		if has(bc, "remote") {
			b.Remote = string(bc.B("remote"))
		}
		if has(bc, "merge") {
			b.Merge = plumbing.ReferenceName(bc.B("merge"))
		}
		if has(bc, "rebase") {
			b.Rebase = string(bc.B("rebase"))
		}
		if has(bc, "description") {
			b.Description = string(bc.B("description"))
		}
	}
	for _, x := range m.L("urls") {
		uc := lib.AsCase(x)
		name := string(uc.B("name"))
		found := false
		for _, u := range cfg.URLs {
			if u.Name == name {
				u.InsteadOfs = strs(uc, "insteadof")
				found = true
			}
		}
		if !found {
			cfg.URLs = append(cfg.URLs, &config.URL{Name: name, InsteadOfs: strs(uc, "insteadof")})
		}
	}
	b, err := cfg.Marshal()
	if err != nil {
		return lib.Err("marshal"), map[string]any{"err": err.Error()}
	}
	extra := map[string]any{"bytes": hex.EncodeToString(b), "before": before}
	back := config.NewConfig()
	if err := back.Unmarshal(b); err != nil {
		extra["readback_err"] = err.Error()
	} else {
		extra["readback"] = observe(back)
	}
	return lib.Ok(), extra
}

func main() {
	lib.Main(func(c lib.Case) (lib.Out, any) {
		switch c.S("op") {
		case "encode":
			return doEncode(c)
		case "decode":
			return doDecode(c)
		case "interp":
			return doInterp(c)
		case "marshal":
			return doMarshal(c)
		case "opts":
			return doOpts(c)
		case "rmw":
			return doRMW(c)
		}
		return lib.Err("op"), nil
	})
}
