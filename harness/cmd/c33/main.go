// c33: implementation side of the C33 correspondence: the path routing of
// dotgit.RepositoryFilesystem (per-worktree vs common directory), the files
// x/plumbing/worktree.Add lays down, and isolation / git recognition of linked
// worktrees on real repositories.
package main

import (
	"os"
	"path/filepath"
	"sort"
	"strings"
	"time"

	"github.com/go-git/go-billy/v6/memfs"
	"github.com/go-git/go-billy/v6/osfs"
	git "github.com/go-git/go-git/v6"
	"github.com/go-git/go-git/v6/plumbing"
	"github.com/go-git/go-git/v6/plumbing/cache"
	"github.com/go-git/go-git/v6/plumbing/object"
	"github.com/go-git/go-git/v6/storage/filesystem"
	"github.com/go-git/go-git/v6/storage/filesystem/dotgit"
	xworktree "github.com/go-git/go-git/v6/x/plumbing/worktree"

	"verif/harness/lib"
	"verif/harness/porc"
)

var sig = &object.Signature{Name: "v", Email: "v@v", When: time.Unix(1600000100, 0).UTC()}

func route(p string) string {
	priv, common := memfs.New(), memfs.New()
	rfs := dotgit.NewRepositoryFilesystem(priv, common)
	f, err := rfs.Create(p)
	if err != nil {
		return "error"
	}
	f.Close()
	_, e1 := priv.Lstat(p)
	_, e2 := common.Lstat(p)
	switch {
	case e1 == nil && e2 != nil:
		return "private"
	case e2 == nil && e1 != nil:
		return "common"
	}
	return "both"
}

func norm(s string, r *porc.Repo) string {
	root, _ := filepath.EvalSymlinks(r.Root)
	s = strings.ReplaceAll(s, root, "$R")
	return strings.ReplaceAll(s, r.Root, "$R")
}

func read(p string) string {
	b, err := os.ReadFile(p)
	if err != nil {
		return "<missing>"
	}
	return string(b)
}

// mainRepo: git init + one commit with a file, at r.Dir.
func mainRepo(r *porc.Repo) string {
	rc := &porc.Recipe{Head: []porc.Entry{{P: "f", M: "f", C: []byte("1\n")}, {P: "d/g", M: "f", C: []byte("2\n")}}, NoIndex: true,
		Wt: []porc.Entry{{P: "f", M: "f", C: []byte("1\n")}, {P: "d/g", M: "f", C: []byte("2\n")}}}
	r.Build(rc)
	return strings.TrimSpace(string(r.Git("rev-parse", "HEAD")))
}

func snapshot(r *porc.Repo, dir string) map[string]any {
	m := map[string]any{}
	out, err := r.GitAt(dir, nil, "rev-parse", "HEAD")
	m["head"] = strings.TrimSpace(string(out))
	if err != nil {
		m["head"] = "error: " + err.Error()
	}
	out, _ = r.GitAt(dir, nil, "symbolic-ref", "-q", "HEAD")
	m["branch"] = strings.TrimSpace(string(out))
	out, _ = r.GitAt(dir, nil, "ls-files", "-s")
	m["index"] = string(out)
	out, err = r.GitAt(dir, nil, "status", "--porcelain=v1")
	m["status"] = string(out)
	if err != nil {
		m["status"] = "error: " + err.Error()
	}
	var files []string
	filepath.Walk(dir, func(p string, fi os.FileInfo, err error) error {
		if err != nil {
			return nil
		}
		rel, _ := filepath.Rel(dir, p)
		if rel == ".git" {
			if fi.IsDir() {
				return filepath.SkipDir
			}
			return nil
		}
		if !fi.IsDir() {
			files = append(files, rel+"="+read(p))
		}
		return nil
	})
	sort.Strings(files)
	m["files"] = files
	return m
}

func main() {
	porc.Main(func(c lib.Case) (lib.Out, any) {
		switch c.S("op") {
		case "route":
			return lib.Sym(route(string(c.B("path")))), nil
		case "layout":
			r := porc.New()
			defer r.Close()
			commit := mainRepo(r)
			name := c.S("name")
			wtDir := filepath.Join(r.Root, "lw-"+name)
			os.MkdirAll(wtDir, 0o755)
			st := filesystem.NewStorage(osfs.New(filepath.Join(r.Dir, ".git")), cache.NewObjectLRUDefault())
			defer st.Close()
			mgr, err := xworktree.New(st)
			if err != nil {
				return lib.Err("new"), err.Error()
			}
			var opts []xworktree.Option
			if c.Bool("detached") {
				opts = append(opts, xworktree.WithDetachedHead())
			}
			if err := mgr.Add(osfs.New(wtDir), name, opts...); err != nil {
				return lib.Err("add"), err.Error()
			}
			meta := filepath.Join(r.Dir, ".git", "worktrees", name)
			extra := map[string]any{}
			out, e := r.GitAt(r.Dir, nil, "worktree", "list", "--porcelain")
			extra["worktree_list"] = norm(string(out), r)
			if e != nil {
				extra["worktree_list_err"] = e.Error()
			}
			extra["lw"] = snapshot(r, wtDir)
			extra["main"] = snapshot(r, r.Dir)
			extra["commit"] = commit
			names, _ := mgr.List()
			extra["gogit_list"] = names
			out, e = r.GitAt(wtDir, nil, "fsck", "--no-dangling")
			if e != nil {
				extra["fsck_err"] = e.Error()
			}
			return lib.Ok(
				lib.Str(norm(read(filepath.Join(meta, "commondir")), r)),
				lib.Str(norm(read(filepath.Join(meta, "gitdir")), r)),
				lib.Str(strings.ReplaceAll(read(filepath.Join(meta, "HEAD")), commit, "$C")),
				lib.Str(norm(read(filepath.Join(wtDir, ".git")), r)),
			), extra
		case "isolation":
			r := porc.New()
			defer r.Close()
			mainRepo(r)
			st := filesystem.NewStorage(osfs.New(filepath.Join(r.Dir, ".git")), cache.NewObjectLRUDefault())
			defer st.Close()
			mgr, err := xworktree.New(st)
			if err != nil {
				return lib.Err("new"), err.Error()
			}
			dirs := map[string]string{"main": r.Dir}
			for _, n := range []string{"wa", "wb"} {
				d := filepath.Join(r.Root, n)
				os.MkdirAll(d, 0o755)
				if err := mgr.Add(osfs.New(d), n); err != nil {
					return lib.Err("add"), err.Error()
				}
				dirs[n] = d
			}
			before := map[string]any{}
			for n, d := range dirs {
				before[n] = snapshot(r, d)
			}
			// operations inside worktree wa through go-git
			ra, err := mgr.Open(osfs.New(dirs["wa"]))
			if err != nil {
				return lib.Err("open"), err.Error()
			}
			wa, err := ra.Worktree()
			if err != nil {
				return lib.Err("worktree"), err.Error()
			}
			extra := map[string]any{}
			for i, step := range c.SL("steps") {
				var err error
				switch step {
				case "commit":
					os.WriteFile(filepath.Join(dirs["wa"], "new"+string(rune('0'+i))), []byte("n\n"), 0o644)
					if _, err = wa.Add("new" + string(rune('0'+i))); err == nil {
						_, err = wa.Commit("c", &git.CommitOptions{Author: sig, Committer: sig})
					}
				case "modify":
					os.WriteFile(filepath.Join(dirs["wa"], "f"), []byte("changed\n"), 0o644)
					_, err = wa.Add("f")
				case "reset":
					err = wa.Reset(&git.ResetOptions{Mode: git.HardReset})
				case "branch":
					err = wa.Checkout(&git.CheckoutOptions{Branch: plumbing.NewBranchReferenceName("topic"), Create: true})
				case "tag":
					h, e2 := ra.Head()
					err = e2
					if e2 == nil {
						_, err = ra.CreateTag("t"+string(rune('0'+i)), h.Hash(), nil)
					}
				}
				if err != nil {
					extra["step_err"] = step + ": " + err.Error()
				}
			}
			ra.Close()
			after := map[string]any{}
			for n, d := range dirs {
				after[n] = snapshot(r, d)
			}
			out, _ := r.GitAt(r.Dir, nil, "for-each-ref", "--format=%(refname) %(objectname)")
			extra["refs_from_main"] = string(out)
			out, _ = r.GitAt(dirs["wb"], nil, "for-each-ref", "--format=%(refname) %(objectname)")
			extra["refs_from_wb"] = string(out)
			out, e := r.GitAt(r.Dir, nil, "worktree", "list", "--porcelain")
			extra["worktree_list"] = norm(string(out), r)
			if e != nil {
				extra["worktree_list_err"] = e.Error()
			}
			if _, e := r.GitAt(r.Dir, nil, "fsck", "--no-dangling"); e != nil {
				extra["fsck_err"] = e.Error()
			}
			extra["before"], extra["after"] = before, after
			return lib.Sym("done"), extra
		case "reopen":
			// a linked worktree wa (with one commit of its own) and a bystander wb; then the admin data of wa is
			// damaged in some way, wa's directory is opened again and used; every OTHER worktree is observed through git
			r := porc.New()
			defer r.Close()
			mainRepo(r)
			st := filesystem.NewStorage(osfs.New(filepath.Join(r.Dir, ".git")), cache.NewObjectLRUDefault())
			defer st.Close()
			mgr, err := xworktree.New(st)
			if err != nil {
				return lib.Err("new"), err.Error()
			}
			dirs := map[string]string{"main": r.Dir}
			for _, n := range []string{"wa", "wb"} {
				d := filepath.Join(r.Root, n)
				os.MkdirAll(d, 0o755)
				if err := mgr.Add(osfs.New(d), n); err != nil {
					return lib.Err("add"), err.Error()
				}
				dirs[n] = d
			}
			if ra, err := mgr.Open(osfs.New(dirs["wa"])); err == nil {
				if wa, err := ra.Worktree(); err == nil {
					os.WriteFile(filepath.Join(dirs["wa"], "first"), []byte("1\n"), 0o644)
					wa.Add("first")
					wa.Commit("first", &git.CommitOptions{Author: sig, Committer: sig})
				}
				ra.Close()
			}
			admin := filepath.Join(r.Dir, ".git", "worktrees", "wa")
			extra := map[string]any{}
			switch c.S("damage") {
			case "none":
			case "removed": // worktree.Remove: the admin directory goes, the worktree directory stays
				if err := mgr.Remove("wa"); err != nil {
					extra["damage_err"] = err.Error()
				}
			case "admin-deleted": // the same by hand (rm -rf .git/worktrees/wa, what `git worktree prune` leaves)
				os.RemoveAll(admin)
			case "dotgit-dangling": // .git names an admin directory that never existed
				os.WriteFile(filepath.Join(dirs["wa"], ".git"), []byte("gitdir: "+filepath.Join(r.Dir, ".git", "worktrees", "nosuch")+"\n"), 0o644)
			case "dotgit-elsewhere": // .git names a directory outside this repository
				other := filepath.Join(r.Root, "other", ".git", "worktrees", "wa")
				os.MkdirAll(other, 0o755)
				os.WriteFile(filepath.Join(dirs["wa"], ".git"), []byte("gitdir: "+other+"\n"), 0o644)
			case "dotgit-relative": // a relative pointer, as git itself accepts (and writes with worktree.useRelativePaths)
				os.WriteFile(filepath.Join(dirs["wa"], ".git"), []byte("gitdir: ../w/.git/worktrees/wa\n"), 0o644)
			case "dotgit-relative-gone":
				os.RemoveAll(admin)
				os.WriteFile(filepath.Join(dirs["wa"], ".git"), []byte("gitdir: ../w/.git/worktrees/wa\n"), 0o644)
			case "dotgit-crlf": // trailing CR LF and blanks are trimmed
				os.WriteFile(filepath.Join(dirs["wa"], ".git"), []byte("gitdir: "+admin+" \r\n"), 0o644)
			case "gitdir-missing":
				os.Remove(filepath.Join(admin, "gitdir"))
			case "gitdir-dangling":
				os.WriteFile(filepath.Join(admin, "gitdir"), []byte(filepath.Join(r.Root, "gone", ".git")+"\n"), 0o644)
			case "gitdir-elsewhere":
				os.WriteFile(filepath.Join(admin, "gitdir"), []byte(filepath.Join(dirs["wb"], ".git")+"\n"), 0o644)
			case "commondir-missing":
				os.Remove(filepath.Join(admin, "commondir"))
			case "commondir-dangling":
				os.WriteFile(filepath.Join(admin, "commondir"), []byte("../../../gone\n"), 0o644)
			case "commondir-elsewhere":
				os.WriteFile(filepath.Join(admin, "commondir"), []byte(filepath.Join(r.Root, "other", ".git")+"\n"), 0o644)
			case "head-missing":
				os.Remove(filepath.Join(admin, "HEAD"))
			default:
				panic("unknown damage")
			}
			others := []string{"main", "wb"}
			before := map[string]any{}
			for _, n := range others {
				before[n] = snapshot(r, dirs[n])
			}
			opened := "err"
			ra, err := mgr.Open(osfs.New(dirs["wa"]))
			if err != nil {
				extra["open_err"] = err.Error()
			} else {
				// which storage is the repository wired to?
				if fst, ok := ra.Storer.(*filesystem.Storage); ok {
					root := fst.Filesystem().Root()
					switch root {
					case filepath.Join(r.Dir, ".git"):
						opened = "main"
					case admin:
						opened = "dual"
					default:
						opened = "other"
						extra["storage_root"] = norm(root, r)
					}
				}
				if wa, err := ra.Worktree(); err != nil {
					extra["worktree_err"] = err.Error()
				} else {
					for i, step := range c.SL("steps") {
						var err error
						switch step {
						case "commit":
							fn := "again" + string(rune('0'+i))
							os.WriteFile(filepath.Join(dirs["wa"], fn), []byte("n\n"), 0o644)
							if _, err = wa.Add(fn); err == nil {
								_, err = wa.Commit("c", &git.CommitOptions{Author: sig, Committer: sig})
							}
						case "reset":
							err = wa.Reset(&git.ResetOptions{Mode: git.HardReset})
						case "add":
							os.WriteFile(filepath.Join(dirs["wa"], "f"), []byte("changed\n"), 0o644)
							_, err = wa.Add("f")
						case "checkout":
							err = wa.Checkout(&git.CheckoutOptions{Branch: plumbing.NewBranchReferenceName("again"), Create: true, Force: true})
						}
						if err != nil {
							extra["step_err"] = step + ": " + err.Error()
						}
					}
				}
				ra.Close()
			}
			after := map[string]any{}
			for _, n := range others {
				after[n] = snapshot(r, dirs[n])
			}
			extra["before"], extra["after"] = before, after
			return lib.Sym(opened), extra
		}
		panic("unknown op")
	}, 8)
}
