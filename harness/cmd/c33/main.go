// c33: implementation side of the C33 correspondence: the path routing of
// dotgit.RepositoryFilesystem (per-worktree vs common directory), the files
// x/plumbing/worktree.Add lays down, and isolation / git recognition of linked
// worktrees on real repositories.
package main

import (
	"os"
	"path/filepath"
	"sort"
	"strings"
	"time"

	"github.com/go-git/go-billy/v6/memfs"
	"github.com/go-git/go-billy/v6/osfs"
	git "github.com/go-git/go-git/v6"
	"github.com/go-git/go-git/v6/plumbing"
	"github.com/go-git/go-git/v6/plumbing/cache"
	"github.com/go-git/go-git/v6/plumbing/object"
	"github.com/go-git/go-git/v6/storage/filesystem"
	"github.com/go-git/go-git/v6/storage/filesystem/dotgit"
	xworktree "github.com/go-git/go-git/v6/x/plumbing/worktree"

	"verif/harness/lib"
	"verif/harness/porc"
)

var sig = &object.Signature{Name: "v", Email: "v@v", When: time.Unix(1600000100, 0).UTC()}

func route(p string) string {
	priv, common := memfs.New(), memfs.New()
	rfs := dotgit.NewRepositoryFilesystem(priv, common)
	f, err := rfs.Create(p)
	if err != nil {
		return "error"
	}
	f.Close()
	_, e1 := priv.Lstat(p)
	_, e2 := common.Lstat(p)
	switch {
	case e1 == nil && e2 != nil:
		return "private"
	case e2 == nil && e1 != nil:
		return "common"
	}
	return "both"
}

func norm(s string, r *porc.Repo) string {
	root, _ := filepath.EvalSymlinks(r.Root)
	s = strings.ReplaceAll(s, root, "$R")
	return strings.ReplaceAll(s, r.Root, "$R")
}

func read(p string) string {
	b, err := os.ReadFile(p)
	if err != nil {
		return "<missing>"
	}
	return string(b)
}

// mainRepo: git init + one commit with a file, at r.Dir.
func mainRepo(r *porc.Repo) string {
	rc := &porc.Recipe{Head: []porc.Entry{{P: "f", M: "f", C: []byte("1\n")}, {P: "d/g", M: "f", C: []byte("2\n")}}, NoIndex: true,
		Wt: []porc.Entry{{P: "f", M: "f", C: []byte("1\n")}, {P: "d/g", M: "f", C: []byte("2\n")}}}
	r.Build(rc)
	return strings.TrimSpace(string(r.Git("rev-parse", "HEAD")))
}

func snapshot(r *porc.Repo, dir string) map[string]any {
	m := map[string]any{}
	out, err := r.GitAt(dir, nil, "rev-parse", "HEAD")
	m["head"] = strings.TrimSpace(string(out))
	if err != nil {
		m["head"] = "error: " + err.Error()
	}
	out, _ = r.GitAt(dir, nil, "symbolic-ref", "-q", "HEAD")
	m["branch"] = strings.TrimSpace(string(out))
	out, _ = r.GitAt(dir, nil, "ls-files", "-s")
	m["index"] = string(out)
	out, err = r.GitAt(dir, nil, "status", "--porcelain=v1")
	m["status"] = string(out)
	if err != nil {
		m["status"] = "error: " + err.Error()
	}
	var files []string
	filepath.Walk(dir, func(p string, fi os.FileInfo, err error) error {
		if err != nil {
			return nil
		}
		rel, _ := filepath.Rel(dir, p)
		if rel == ".git" {
			if fi.IsDir() {
				return filepath.SkipDir
			}
			return nil
		}
		if !fi.IsDir() {
			files = append(files, rel+"="+read(p))
		}
		return nil
	})
	sort.Strings(files)
	m["files"] = files
	return m
}

func main() {
	porc.Main(func(c lib.Case) (lib.Out, any) {
		switch c.S("op") {
		case "route":
			return lib.Sym(route(string(c.B("path")))), nil
		case "layout":
			r := porc.New()
			defer r.Close()
			commit := mainRepo(r)
			name := c.S("name")
			wtDir := filepath.Join(r.Root, "lw-"+name)
			os.MkdirAll(wtDir, 0o755)
			st := filesystem.NewStorage(osfs.New(filepath.Join(r.Dir, ".git")), cache.NewObjectLRUDefault())
			defer st.Close()
			mgr, err := xworktree.New(st)
			if err != nil {
				return lib.Err("new"), err.Error()
			}
			var opts []xworktree.Option
			if c.Bool("detached") {
				opts = append(opts, xworktree.WithDetachedHead())
			}
			if err := mgr.Add(osfs.New(wtDir), name, opts...); err != nil {
				return lib.Err("add"), err.Error()
			}
			meta := filepath.Join(r.Dir, ".git", "worktrees", name)
			extra := map[string]any{}
			out, e := r.GitAt(r.Dir, nil, "worktree", "list", "--porcelain")
			extra["worktree_list"] = norm(string(out), r)
			if e != nil {
				extra["worktree_list_err"] = e.Error()
			}
			extra["lw"] = snapshot(r, wtDir)
			extra["main"] = snapshot(r, r.Dir)
			extra["commit"] = commit
			names, _ := mgr.List()
			extra["gogit_list"] = names
			out, e = r.GitAt(wtDir, nil, "fsck", "--no-dangling")
			if e != nil {
				extra["fsck_err"] = e.Error()
			}
			return lib.Ok(
				lib.Str(norm(read(filepath.Join(meta, "commondir")), r)),
				lib.Str(norm(read(filepath.Join(meta, "gitdir")), r)),
				lib.Str(strings.ReplaceAll(read(filepath.Join(meta, "HEAD")), commit, "$C")),
				lib.Str(norm(read(filepath.Join(wtDir, ".git")), r)),
			), extra
		case "isolation":
			r := porc.New()
			defer r.Close()
			mainRepo(r)
			st := filesystem.NewStorage(osfs.New(filepath.Join(r.Dir, ".git")), cache.NewObjectLRUDefault())
			defer st.Close()
			mgr, err := xworktree.New(st)
			if err != nil {
				return lib.Err("new"), err.Error()
			}
			dirs := map[string]string{"main": r.Dir}
			for _, n := range []string{"wa", "wb"} {
				d := filepath.Join(r.Root, n)
				os.MkdirAll(d, 0o755)
				if err := mgr.Add(osfs.New(d), n); err != nil {
					return lib.Err("add"), err.Error()
				}
				dirs[n] = d
			}
			before := map[string]any{}
			for n, d := range dirs {
				before[n] = snapshot(r, d)
			}
			// operations inside worktree wa through go-git
			ra, err := mgr.Open(osfs.New(dirs["wa"]))
			if err != nil {
				return lib.Err("open"), err.Error()
			}
			wa, err := ra.Worktree()
			if err != nil {
				return lib.Err("worktree"), err.Error()
			}
			extra := map[string]any{}
			for i, step := range c.SL("steps") {
				var err error
				switch step {
				case "commit":
					os.WriteFile(filepath.Join(dirs["wa"], "new"+string(rune('0'+i))), []byte("n\n"), 0o644)
					if _, err = wa.Add("new" + string(rune('0'+i))); err == nil {
						_, err = wa.Commit("c", &git.CommitOptions{Author: sig, Committer: sig})
					}
				case "modify":
					os.WriteFile(filepath.Join(dirs["wa"], "f"), []byte("changed\n"), 0o644)
					_, err = wa.Add("f")
				case "reset":
					err = wa.Reset(&git.ResetOptions{Mode: git.HardReset})
				case "branch":
					err = wa.Checkout(&git.CheckoutOptions{Branch: plumbing.NewBranchReferenceName("topic"), Create: true})
				case "tag":
					h, e2 := ra.Head()
					err = e2
					if e2 == nil {
						_, err = ra.CreateTag("t"+string(rune('0'+i)), h.Hash(), nil)
					}
				}
				if err != nil {
					extra["step_err"] = step + ": " + err.Error()
				}
			}
			ra.Close()
			after := map[string]any{}
			for n, d := range dirs {
				after[n] = snapshot(r, d)
			}
			out, _ := r.GitAt(r.Dir, nil, "for-each-ref", "--format=%(refname) %(objectname)")
			extra["refs_from_main"] = string(out)
			out, _ = r.GitAt(dirs["wb"], nil, "for-each-ref", "--format=%(refname) %(objectname)")
			extra["refs_from_wb"] = string(out)
			out, e := r.GitAt(r.Dir, nil, "worktree", "list", "--porcelain")
			extra["worktree_list"] = norm(string(out), r)
			if e != nil {
				extra["worktree_list_err"] = e.Error()
			}
			if _, e := r.GitAt(r.Dir, nil, "fsck", "--no-dangling"); e != nil {
				extra["fsck_err"] = e.Error()
			}
			extra["before"], extra["after"] = before, after
			return lib.Sym("done"), extra
		}
		panic("unknown op")
	}, 8)
}
