// c43: implementation side of the C43 correspondence: Repository.Log in every
// order with limits and --all, and the commit-graph node walkers over an
// object-backed and a commit-graph-backed index.
package main

import (
	"bytes"
	"errors"
	"fmt"
	"io"
	"sort"
	"time"

	git "github.com/go-git/go-git/v6"
	"github.com/go-git/go-git/v6/plumbing"
	fcg "github.com/go-git/go-git/v6/plumbing/format/commitgraph"
	"github.com/go-git/go-git/v6/plumbing/object"
	ocg "github.com/go-git/go-git/v6/plumbing/object/commitgraph"
	"github.com/go-git/go-git/v6/plumbing/storer"
	"github.com/go-git/go-git/v6/storage/memory"

	"verif/harness/dagrepo"
	"verif/harness/lib"
)

// sortedRefs makes reference iteration deterministic (sorted by name): the
// memory storage iterates a Go map.
type sortedRefs struct{ *memory.Storage }

func (s sortedRefs) IterReferences() (storer.ReferenceIter, error) {
	it, err := s.Storage.IterReferences()
	if err != nil {
		return nil, err
	}
	var refs []*plumbing.Reference
	_ = it.ForEach(func(r *plumbing.Reference) error { refs = append(refs, r); return nil })
	sort.Slice(refs, func(i, j int) bool { return refs[i].Name() < refs[j].Name() })
	return storer.NewReferenceSliceIter(refs), nil
}

func errOut(err error) lib.Out {
	if errors.Is(err, plumbing.ErrObjectNotFound) {
		return lib.Err("missing")
	}
	return lib.Err("other")
}

type rac struct{ *bytes.Reader }

func (rac) Close() error { return nil }

func optTime(c lib.Case, k string) *time.Time {
	if c[k] == nil {
		return nil
	}
	t := time.Unix(c.I(k), 0).UTC()
	return &t
}

func main() {
	lib.Main(func(c lib.Case) (lib.Out, any) {
		mem := memory.NewStorage()
		st := sortedRefs{mem}
		var par [][]int
		for _, x := range c.L("par") {
			var ps []int
			for _, y := range x.([]any) {
				ps = append(ps, int(lib.Case{"v": y}.I("v")))
			}
			par = append(par, ps)
		}
		var times []int64
		for _, x := range c.L("times") {
			times = append(times, lib.Case{"v": x}.I("v"))
		}
		r := dagrepo.Build(st, par, times, nil)
		switch c.S("kind") {
		case "log":
			tips := dagrepo.Ints(c, "tips")
			if len(tips) == 0 {
				tips = []int{int(c.I("from"))}
			}
			for i, t := range tips {
				name := plumbing.ReferenceName(fmt.Sprintf("refs/heads/b%02d", i))
				if err := st.SetReference(plumbing.NewHashReference(name, r.Hash(t))); err != nil {
					panic(err)
				}
			}
			if err := st.SetReference(plumbing.NewSymbolicReference(plumbing.HEAD, "refs/heads/b00")); err != nil {
				panic(err)
			}
			repo, err := git.Open(st, nil)
			if err != nil {
				panic(err)
			}
			o := &git.LogOptions{Order: git.LogOrder(c.I("order")), All: c.Bool("all"), Since: optTime(c, "since"), Until: optTime(c, "until")}
			if !o.All {
				o.From = r.Hash(int(c.I("from")))
			}
			if c["tail"] != nil {
				o.To = r.Hash(int(c.I("tail")))
			}
			it, err := repo.Log(o)
			if err != nil {
				return errOut(err), nil
			}
			var cs []*object.Commit
			err = it.ForEach(func(x *object.Commit) error { cs = append(cs, x); return nil })
			if err != nil {
				return lib.List(lib.Sym("err"), lib.Sym(errClass(err)), r.Nodes(cs)), nil
			}
			return lib.Ok(r.Nodes(cs)), nil
		case "node":
			// the same walk over an object-backed and a commit-graph-backed node index
			var outs []lib.Out
			for _, backed := range []string{"object", "graph"} {
				o := nodeWalk(r, st, par, times, backed, c.S("norder"), int(c.I("from")))
				outs = append(outs, o)
			}
			return lib.List(outs...), nil
		}
		return lib.Err("badcase"), nil
	})
}

func nodeWalk(r *dagrepo.Repo, st storer.EncodedObjectStorer, par [][]int, times []int64, backed, norder string, from int) lib.Out {
	var idx ocg.CommitNodeIndex
	if backed == "graph" {
		mi := fcg.NewMemoryIndex()
		gen := make([]uint64, len(par))
		gen2 := make([]uint64, len(par))
		for i, ps := range par {
			var g, g2 uint64
			for _, p := range ps {
				if p >= len(par) {
					return lib.Err("nograph")
				}
				if gen[p] > g {
					g = gen[p]
				}
				if gen2[p]+1 > g2 {
					g2 = gen2[p] + 1
				}
			}
			gen[i] = g + 1
			if uint64(times[i]) > g2 {
				g2 = uint64(times[i])
			}
			gen2[i] = g2
			cd := &fcg.CommitData{TreeHash: r.Tree, Generation: gen[i], GenerationV2: gen2[i], When: time.Unix(times[i], 0)}
			for _, p := range ps {
				cd.ParentHashes = append(cd.ParentHashes, r.Hash(p))
			}
			mi.Add(r.Hash(i), cd)
		}
		var buf bytes.Buffer
		if err := fcg.NewEncoder(&buf).Encode(mi); err != nil {
			return lib.Err("encode")
		}
		fi, err := fcg.OpenFileIndex(rac{bytes.NewReader(buf.Bytes())})
		if err != nil {
			return lib.Err("open")
		}
		idx = ocg.NewGraphCommitNodeIndex(fi, st)
	} else {
		idx = ocg.NewObjectCommitNodeIndex(st)
	}
	start, err := idx.Get(r.Hash(from))
	if err != nil {
		return errOut(err)
	}
	var it ocg.CommitNodeIter
	switch norder {
	case "ctime":
		it = ocg.NewCommitNodeIterCTime(start, nil, nil)
	case "topo":
		it = ocg.NewCommitNodeIterTopoOrder(start, nil, nil)
	case "date":
		it = ocg.NewCommitNodeIterDateOrder(start, nil, nil)
	case "author":
		it = ocg.NewCommitNodeIterAuthorDateOrder(start, nil, nil)
	default:
		return lib.Err("badcase")
	}
	var ns []lib.Out
	n := 0
	err = it.ForEach(func(x ocg.CommitNode) error {
		ns = append(ns, lib.Int(int64(r.Node(x.ID()))))
		n++
		if n > 10*len(par)+10 {
			return io.ErrNoProgress
		}
		return nil
	})
	if err != nil {
		return lib.List(lib.Sym("err"), lib.Sym(errClass(err)), lib.List(ns...))
	}
	return lib.Ok(lib.List(ns...))
}

func errClass(err error) string {
	if errors.Is(err, plumbing.ErrObjectNotFound) {
		return "missing"
	}
	if errors.Is(err, io.ErrNoProgress) {
		return "runaway"
	}
	return "other"
}
