// c20: implementation side of the C20 correspondence (cached index view vs on-disk index).
//
//	kind "store": operations on storage/filesystem.Storage itself: Index() handles, in-place
//	              mutation / replacement / append / removal through a handle, SetIndex, external
//	              rewrites of .git/index.  After every operation: what Index() returns now and
//	              what a cache-less decode of the file returns — except after operations marked
//	              "q" (quiet), where the harness does not touch the storage, so that the caller's
//	              next Index() is the cache miss (or hit) under test.
//	kind "porc":  worktree operations (Add, Remove, Move, Commit, Reset, Checkout, Status) with
//	              injected filesystem failures and external rewrites; same two views compared.
package main

import (
	"bytes"
	"crypto"
	"fmt"
	"io"
	"sort"
	"time"

	"github.com/go-git/go-billy/v6"
	"github.com/go-git/go-billy/v6/memfs"
	"github.com/go-git/go-billy/v6/util"
	git "github.com/go-git/go-git/v6"
	"github.com/go-git/go-git/v6/plumbing"
	"github.com/go-git/go-git/v6/plumbing/cache"
	"github.com/go-git/go-git/v6/plumbing/format/index"
	"github.com/go-git/go-git/v6/plumbing/hash"
	"github.com/go-git/go-git/v6/plumbing/object"
	"github.com/go-git/go-git/v6/storage/filesystem"

	"verif/harness/lib"
)

func must(err error) {
	if err != nil {
		panic("harness: " + err.Error())
	}
}

func nameOf(n int64) string { return fmt.Sprintf("f%05d", n) }
func hashOf(v int64) plumbing.Hash {
	b := make([]byte, 20)
	for i := range b {
		b[i] = byte(v)
	}
	b[0], b[1] = byte(v>>8), byte(v)
	h, _ := plumbing.FromBytes(b)
	return h
}
func valOf(h plumbing.Hash) int64 { b := h.Bytes(); return int64(b[0])<<8 | int64(b[1]) }
func idOf(name string) int64 {
	var n int64
	fmt.Sscanf(name, "f%d", &n)
	return n
}

// external writer: encodes entries and pads the file with an optional extension until its
// size was never seen before (the property's premise: an external rewrite changes size or mtime)
type extWriter struct {
	fs    billy.Filesystem
	sizes map[int64]bool
}

func (x *extWriter) note() {
	if fi, err := x.fs.Stat("index"); err == nil {
		x.sizes[fi.Size()] = true
	}
}

func (x *extWriter) write(es []*index.Entry) { x.writeExt(es, nil) }

// writeExt also stores an extension (signature + payload) before the size padding
func (x *extWriter) writeExt(es []*index.Entry, ext []byte) {
	var buf bytes.Buffer
	must(index.NewEncoder(&buf, hash.New(crypto.SHA1), index.WithSkipHash()).Encode(&index.Index{Version: 2, Entries: es}))
	body := buf.Bytes()[:buf.Len()-20]
	pad := 0
	for x.sizes[int64(len(body)+len(ext)+8+pad+20)] {
		pad++
	}
	var out bytes.Buffer
	out.Write(body)
	out.Write(ext)
	out.WriteString("ZZZZ")
	out.Write([]byte{byte(pad >> 24), byte(pad >> 16), byte(pad >> 8), byte(pad)})
	out.Write(make([]byte, pad))
	out.Write(make([]byte, 20)) // null trailer: checksum not verified
	must(util.WriteFile(x.fs, "index", out.Bytes(), 0o644))
	x.note()
}

func decodeDisk(fs billy.Filesystem) (*index.Index, error) {
	f, err := fs.Open("index")
	if err != nil {
		return &index.Index{Version: 2}, nil
	}
	defer f.Close()
	data, _ := io.ReadAll(f)
	idx := &index.Index{}
	if err := index.NewDecoder(bytes.NewReader(data), hash.New(crypto.SHA1)).Decode(idx); err != nil {
		return nil, err
	}
	return idx, nil
}

func pairs(idx *index.Index) lib.Out {
	var o []lib.Out
	for _, e := range idx.Entries {
		o = append(o, lib.List(lib.Int(idOf(e.Name)), lib.Int(valOf(e.Hash))))
	}
	return lib.List(o...)
}

func storeCase(c lib.Case) (lib.Out, any) {
	fs := memfs.New()
	st := filesystem.NewStorage(fs, cache.NewObjectLRUDefault())
	xw := &extWriter{fs, map[int64]bool{}}
	var handles []*index.Index
	var outs, exts []lib.Out
	hasExt := func(idx *index.Index) lib.Out {
		return lib.Bool(idx.Cache != nil || idx.ResolveUndo != nil || idx.EndOfIndexEntry != nil)
	}
	get := func(op lib.Case) (*index.Index, int) {
		h := int(op.I("h"))
		if h < 0 || h >= len(handles) {
			return nil, 0
		}
		return handles[h], int(op.I("k"))
	}
	for _, x := range c.L("ops") {
		op := lib.AsCase(x)
		switch op.S("op") {
		case "index":
			h, err := st.Index()
			must(err)
			handles = append(handles, h)
		case "mutate":
			if h, k := get(op); h != nil && k < len(h.Entries) {
				h.Entries[k].Hash = hashOf(op.I("v"))
			}
		case "replace":
			if h, k := get(op); h != nil && k < len(h.Entries) {
				h.Entries[k] = &index.Entry{Name: nameOf(op.I("n")), Hash: hashOf(op.I("v")), Mode: 0o100644}
			}
		case "append":
			if h, _ := get(op); h != nil {
				h.Entries = append(h.Entries, &index.Entry{Name: nameOf(op.I("n")), Hash: hashOf(op.I("v")), Mode: 0o100644})
			}
		case "remove":
			if h, k := get(op); h != nil && k < len(h.Entries) {
				h.Entries = append(h.Entries[:k], h.Entries[k+1:]...)
			}
		case "setindex":
			if h, _ := get(op); h != nil {
				must(st.SetIndex(h))
				xw.note()
			}
		case "external":
			var es []*index.Entry
			for _, y := range op.L("entries") {
				p, _ := y.([]any)
				es = append(es, &index.Entry{Name: nameOf(lib.Case{"x": p[0]}.I("x")), Hash: hashOf(lib.Case{"x": p[1]}.I("x")), Mode: 0o100644})
			}
			if op.Bool("ext") {
				// what git writes after write-tree: a cached-tree extension (here: one invalidated root entry)
				xw.writeExt(es, append([]byte("TREE\x00\x00\x00\x06"), []byte("\x00-1 0\n")...))
			} else {
				xw.write(es)
			}
		case "extdelete":
			_ = fs.Remove("index")
		case "drop":
			if h, _ := get(op); h != nil {
				h.Cache, h.ResolveUndo, h.EndOfIndexEntry = nil, nil, nil
			}
		}
		if op.Bool("q") {
			// quiet step: the harness does not read the index here, so the NEXT Index() call (the
			// caller's own, e.g. the first one after an external rewrite: a cache miss) is the
			// one whose result the following operations hold and modify
			outs = append(outs, lib.Sym("quiet"))
			exts = append(exts, lib.Sym("quiet"))
			continue
		}
		view, err := st.Index()
		must(err)
		disk, err := decodeDisk(fs)
		must(err)
		outs = append(outs, lib.List(pairs(view), pairs(disk)))
		exts = append(exts, lib.List(hasExt(view), hasExt(disk)))
	}
	return lib.List(lib.List(outs...), lib.List(exts...)), nil
}

// ---------------------------------------------------------------- porcelain with faults

func entryKey(e *index.Entry) string {
	return fmt.Sprintf("%s|%d|%s|%o|%d|%v|%v|%d.%d", e.Name, e.Stage, e.Hash, e.Mode, e.Size, e.SkipWorktree, e.IntentToAdd,
		e.ModifiedAt.Unix(), e.ModifiedAt.Nanosecond())
}

func canon(idx *index.Index) []string {
	var r []string
	for _, e := range idx.Entries {
		k := entryKey(e)
		if e.ModifiedAt.IsZero() {
			k = fmt.Sprintf("%s|%d|%s|%o|%d|%v|%v|0.0", e.Name, e.Stage, e.Hash, e.Mode, e.Size, e.SkipWorktree, e.IntentToAdd)
		}
		r = append(r, k)
	}
	sort.Strings(r)
	return r
}

func exts(idx *index.Index) string {
	return fmt.Sprintf("cache=%v reuc=%v eoie=%v", idx.Cache != nil, idx.ResolveUndo != nil, idx.EndOfIndexEntry != nil)
}

func porcCase(c lib.Case) (lib.Out, any) {
	raw := memfs.New()
	fl := &faults{}
	wtfs := newFaultFS(raw, fl)
	rawdot, err := raw.Chroot(".git")
	must(err)
	dot := newFaultFS(rawdot, fl)
	st := filesystem.NewStorage(dot, cache.NewObjectLRUDefault())
	r, err := git.Init(st, git.WithWorkTree(wtfs))
	must(err)
	w, err := r.Worktree()
	must(err)
	sig := &object.Signature{Name: "v", Email: "v@v", When: time.Unix(1700000000, 0).UTC()}
	for _, x := range c.L("files") {
		p, _ := x.([]any)
		must(util.WriteFile(raw, string(lib.Unhex(p[0].(string))), lib.Unhex(p[1].(string)), 0o644))
	}
	must(w.AddWithOptions(&git.AddOptions{All: true}))
	first, err := w.Commit("first", &git.CommitOptions{Author: sig, Committer: sig, AllowEmptyCommits: true})
	must(err)
	for _, x := range c.L("files2") {
		p, _ := x.([]any)
		must(util.WriteFile(raw, string(lib.Unhex(p[0].(string))), lib.Unhex(p[1].(string)), 0o644))
	}
	must(w.AddWithOptions(&git.AddOptions{All: true}))
	_, err = w.Commit("second", &git.CommitOptions{Author: sig, Committer: sig, AllowEmptyCommits: true})
	must(err)
	xw := &extWriter{rawdot, map[int64]bool{}}
	xw.note()

	var outs []lib.Out
	var log []map[string]any
	for i, x := range c.L("ops") {
		op := lib.AsCase(x)
		var err error
		name := string(op.B("name"))
		switch op.S("op") {
		case "write":
			err = util.WriteFile(raw, name, op.B("content"), 0o644)
		case "delete":
			err = raw.Remove(name)
		case "fault":
			fl.arm(int(op.I("k")))
			continue
		case "add":
			_, err = w.Add(name)
		case "addall":
			err = w.AddWithOptions(&git.AddOptions{All: true})
		case "remove":
			_, err = w.Remove(name)
		case "move":
			_, err = w.Move(name, string(op.B("to")))
		case "commit":
			_, err = w.Commit("c", &git.CommitOptions{Author: sig, Committer: sig, AllowEmptyCommits: true})
		case "status":
			_, err = w.Status()
		case "reset":
			mode := map[string]git.ResetMode{"hard": git.HardReset, "mixed": git.MixedReset, "merge": git.MergeReset}[op.S("mode")]
			o := &git.ResetOptions{Mode: mode}
			if op.Bool("first") {
				o.Commit = first
			}
			err = w.Reset(o)
		case "checkout":
			err = w.Checkout(&git.CheckoutOptions{Hash: first, Force: op.Bool("force")})
		case "external":
			cur, derr := decodeDisk(rawdot)
			if derr == nil {
				es := cur.Entries
				switch op.S("how") {
				case "drop":
					if len(es) > 0 {
						es = es[1:]
					}
				case "hash":
					if len(es) > 0 {
						es[0].Hash = hashOf(op.I("v"))
					}
				case "tree":
					// what git writes after write-tree: a cached-tree extension (here: one invalidated root entry)
					xw.writeExt(es, append([]byte("TREE\x00\x00\x00\x06"), []byte("\x00-1 0\n")...))
					es = nil
				default:
					es = append(es, &index.Entry{Name: "ext-" + fmt.Sprint(i), Hash: hashOf(op.I("v")), Mode: 0o100644})
				}
				if es != nil {
					xw.write(es)
				}
			}
		}
		fired := fl.fired
		fl.disarm()
		xw.note()
		if op.Bool("q") {
			// quiet step (see storeCase): the next Index() is the one inside the following operation
			st2 := "ok"
			es := ""
			if err != nil {
				st2, es = "err", err.Error()
			}
			outs = append(outs, lib.List(lib.Sym(st2), lib.Sym("quiet")))
			log = append(log, map[string]any{"op": op.S("op"), "err": es, "eq": "quiet", "detail": "", "faults_fired": fired})
			continue
		}
		view, verr := st.Index()
		disk, derr := decodeDisk(rawdot)
		eq := "equal"
		detail := ""
		switch {
		case verr != nil && derr != nil:
			eq = "both_fail"
		case verr != nil:
			eq, detail = "view_fails", verr.Error()
		case derr != nil:
			eq, detail = "disk_corrupt_view_ok", derr.Error()
		default:
			a, b := canon(view), canon(disk)
			if fmt.Sprint(a) != fmt.Sprint(b) {
				eq = "entries_differ"
				for k := 0; k < len(a) || k < len(b); k++ {
					if k >= len(a) || k >= len(b) || a[k] != b[k] {
						va, vb := "-", "-"
						if k < len(a) {
							va = a[k]
						}
						if k < len(b) {
							vb = b[k]
						}
						detail = "cached " + va + " / disk " + vb
						break
					}
				}
			} else if exts(view) != exts(disk) {
				eq, detail = "extensions_differ", "cached "+exts(view)+" / disk "+exts(disk)
			}
		}
		es := ""
		if err != nil {
			es = err.Error()
		}
		st2 := "ok"
		if err != nil {
			st2 = "err"
		}
		outs = append(outs, lib.List(lib.Sym(st2), lib.Sym(eq)))
		log = append(log, map[string]any{"op": op.S("op"), "err": es, "eq": eq, "detail": detail, "faults_fired": fired})
	}
	return lib.List(outs...), log
}

func main() {
	lib.Main(func(c lib.Case) (lib.Out, any) {
		if c.S("kind") == "store" {
			return storeCase(c)
		}
		return porcCase(c)
	})
}
