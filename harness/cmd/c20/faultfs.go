package main

import (
	"errors"
	iofs "io/fs"

	"github.com/go-git/go-billy/v6"
)

// faultfs wraps a billy.Filesystem: every filesystem call and every file
// Read/Write/Close is counted; when armed, the k-th counted call from the
// moment of arming fails with errInjected (single shot).  All wrappers created
// from one faults value (chroots, worktree and .git) share the counter.
var errInjected = errors.New("verif: injected I/O failure")

type faults struct {
	armed  bool
	remain int
	calls  int
	fired  int
}

func (f *faults) arm(k int) { f.armed, f.remain = true, k }
func (f *faults) disarm()   { f.armed = false }
func (f *faults) hit() bool {
	f.calls++
	if !f.armed {
		return false
	}
	f.remain--
	if f.remain <= 0 {
		f.armed = false
		f.fired++
		return true
	}
	return false
}

type faultfs struct {
	billy.Filesystem
	f *faults
}

func newFaultFS(fs billy.Filesystem, f *faults) *faultfs { return &faultfs{fs, f} }

func (s *faultfs) wrap(file billy.File, err error) (billy.File, error) {
	if err != nil {
		return nil, err
	}
	return &faultfile{file, s.f}, nil
}

func (s *faultfs) Create(n string) (billy.File, error) {
	if s.f.hit() {
		return nil, errInjected
	}
	return s.wrap(s.Filesystem.Create(n))
}

func (s *faultfs) Open(n string) (billy.File, error) {
	if s.f.hit() {
		return nil, errInjected
	}
	return s.wrap(s.Filesystem.Open(n))
}

func (s *faultfs) OpenFile(n string, flag int, perm iofs.FileMode) (billy.File, error) {
	if s.f.hit() {
		return nil, errInjected
	}
	return s.wrap(s.Filesystem.OpenFile(n, flag, perm))
}

func (s *faultfs) TempFile(dir, prefix string) (billy.File, error) {
	if s.f.hit() {
		return nil, errInjected
	}
	return s.wrap(s.Filesystem.TempFile(dir, prefix))
}

func (s *faultfs) Stat(n string) (iofs.FileInfo, error) {
	if s.f.hit() {
		return nil, errInjected
	}
	return s.Filesystem.Stat(n)
}

func (s *faultfs) Lstat(n string) (iofs.FileInfo, error) {
	if s.f.hit() {
		return nil, errInjected
	}
	return s.Filesystem.Lstat(n)
}

func (s *faultfs) Rename(a, b string) error {
	if s.f.hit() {
		return errInjected
	}
	return s.Filesystem.Rename(a, b)
}

func (s *faultfs) Remove(n string) error {
	if s.f.hit() {
		return errInjected
	}
	return s.Filesystem.Remove(n)
}

func (s *faultfs) ReadDir(n string) ([]iofs.DirEntry, error) {
	if s.f.hit() {
		return nil, errInjected
	}
	return s.Filesystem.ReadDir(n)
}

func (s *faultfs) MkdirAll(n string, perm iofs.FileMode) error {
	if s.f.hit() {
		return errInjected
	}
	return s.Filesystem.MkdirAll(n, perm)
}

func (s *faultfs) Readlink(n string) (string, error) {
	if s.f.hit() {
		return "", errInjected
	}
	return s.Filesystem.Readlink(n)
}

func (s *faultfs) Symlink(t, l string) error {
	if s.f.hit() {
		return errInjected
	}
	return s.Filesystem.Symlink(t, l)
}

func (s *faultfs) Chroot(p string) (billy.Filesystem, error) {
	fs, err := s.Filesystem.Chroot(p)
	if err != nil {
		return nil, err
	}
	return &faultfs{fs, s.f}, nil
}

type faultfile struct {
	billy.File
	f *faults
}

func (x *faultfile) Read(p []byte) (int, error) {
	if x.f.hit() {
		return 0, errInjected
	}
	return x.File.Read(p)
}

func (x *faultfile) Write(p []byte) (int, error) {
	if x.f.hit() {
		// a torn write: half of the buffer reaches the file
		n, _ := x.File.Write(p[:len(p)/2])
		return n, errInjected
	}
	return x.File.Write(p)
}

func (x *faultfile) Close() error {
	if x.f.hit() {
		_ = x.File.Close()
		return errInjected
	}
	return x.File.Close()
}
