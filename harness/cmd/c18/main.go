// c18: implementation side of the C18 correspondence (objects are readable
// immediately after a successful write).  A case is a history of object / pack
// writers opened and closed, interleaved with lookups, on ONE filesystem
// storage; every step answers one canonical observable.
package main

import (
	"bytes"
	"errors"
	"fmt"
	"io"
	"os"
	"sort"

	"github.com/go-git/go-billy/v6"
	"github.com/go-git/go-billy/v6/memfs"
	"github.com/go-git/go-billy/v6/osfs"

	"github.com/go-git/go-git/v6/plumbing"
	"github.com/go-git/go-git/v6/plumbing/cache"
	formatcfg "github.com/go-git/go-git/v6/plumbing/format/config"
	"github.com/go-git/go-git/v6/plumbing/format/packfile"
	"github.com/go-git/go-git/v6/storage/filesystem"
	"github.com/go-git/go-git/v6/storage/filesystem/dotgit"
	"github.com/go-git/go-git/v6/storage/memory"

	"verif/harness/lib"
)

const nObjects = 6

type obj struct {
	typ  plumbing.ObjectType
	data []byte
	h    plumbing.Hash
}

var universe []obj
var byHash = map[plumbing.Hash]int{}

func init() {
	blob0 := []byte("object-0\n")
	oh := plumbing.FromObjectFormat(formatcfg.SHA1)
	h0, _ := oh.Compute(plumbing.BlobObject, blob0)
	for k := 0; k < nObjects; k++ {
		var o obj
		if k < 4 {
			o.typ = plumbing.BlobObject
			o.data = bytes.Repeat([]byte(fmt.Sprintf("object-%d\n", k)), 1+3*k)
		} else {
			o.typ = plumbing.TreeObject
			o.data = append([]byte(fmt.Sprintf("100644 f%d\x00", k)), h0.Bytes()...)
		}
		o.h, _ = oh.Compute(o.typ, o.data)
		universe = append(universe, o)
		byHash[o.h] = k
	}
}

// buildPack encodes the objects ks (sorted, distinct) with go-git's encoder (window 0: no deltas).
func buildPack(ks []int) ([]byte, plumbing.Hash) {
	ms := memory.NewStorage()
	var hs []plumbing.Hash
	for _, k := range ks {
		o := ms.NewEncodedObject()
		o.SetType(universe[k].typ)
		o.SetSize(int64(len(universe[k].data)))
		w, _ := o.Writer()
		w.Write(universe[k].data)
		w.Close()
		h, err := ms.SetEncodedObject(o)
		if err != nil {
			panic(err)
		}
		hs = append(hs, h)
	}
	var buf bytes.Buffer
	e := packfile.NewEncoder(&buf, ms, false)
	ph, err := e.Encode(hs, 0)
	if err != nil {
		panic(err)
	}
	return buf.Bytes(), ph
}

func class(err error) lib.Out {
	switch {
	case err == nil:
		return lib.Sym("ok")
	case errors.Is(err, plumbing.ErrObjectNotFound):
		return lib.Err("notfound")
	case errors.Is(err, dotgit.ErrPackfileNotFound):
		return lib.Err("packnotfound")
	case errors.Is(err, os.ErrNotExist):
		return lib.Err("notexist")
	default:
		return lib.Err("other")
	}
}

func mask(ks []int) uint64 {
	var m uint64
	for _, k := range ks {
		m |= 1 << k
	}
	return m
}

// unmask: bit mask -> sorted object numbers
func unmask(m uint64) []int {
	var r []int
	for k := 0; k < nObjects; k++ {
		if m&(1<<k) != 0 {
			r = append(r, k)
		}
	}
	return r
}

type run struct {
	s     *filesystem.ObjectStorage
	ow    map[int]io.WriteCloser
	pw    map[int]io.WriteCloser
	packs map[plumbing.Hash][]int
	errs  []string
}

func typeOf(s string) plumbing.ObjectType {
	switch s {
	case "blob":
		return plumbing.BlobObject
	case "tree":
		return plumbing.TreeObject
	case "commit":
		return plumbing.CommitObject
	}
	return plumbing.AnyObject
}

func (r *run) note(err error) {
	if err != nil {
		r.errs = append(r.errs, err.Error())
	}
}

// readBack checks that o's content is exactly the universe content of k.
func readBack(o plumbing.EncodedObject, k int) error {
	if o.Type() != universe[k].typ || o.Size() != int64(len(universe[k].data)) {
		return fmt.Errorf("type/size differ")
	}
	rd, err := o.Reader()
	if err != nil {
		return err
	}
	defer rd.Close()
	b, err := io.ReadAll(rd)
	if err != nil {
		return err
	}
	if !bytes.Equal(b, universe[k].data) {
		return fmt.Errorf("content differs")
	}
	return nil
}

func (r *run) step(st lib.Case) lib.Out {
	k := int(st.I("k"))
	w := int(st.I("w"))
	switch st.S("op") {
	case "newobj":
		if r.ow[w] != nil {
			return lib.Err("badslot")
		}
		wr, err := r.s.RawObjectWriter(universe[k].typ, int64(len(universe[k].data)))
		if err != nil {
			r.note(err)
			return class(err)
		}
		if _, err := wr.Write(universe[k].data); err != nil {
			r.note(err)
			return class(err)
		}
		r.ow[w] = wr
		return lib.Sym("ok")
	case "failobj":
		// RawObjectWriter rejects the header after NewObject has run: the writer is abandoned, never closed
		var wr io.WriteCloser
		var err error
		if st.Bool("badtype") {
			wr, err = r.s.RawObjectWriter(plumbing.InvalidObject, 3)
		} else {
			wr, err = r.s.RawObjectWriter(universe[k].typ, -1)
		}
		if err == nil {
			wr.Close()
			return lib.Sym("ok")
		}
		return class(err)
	case "closeobj":
		if r.ow[w] == nil {
			return lib.Err("badslot")
		}
		err := r.ow[w].Close()
		r.ow[w] = nil
		r.note(err)
		return class(err)
	case "set":
		o := r.s.NewEncodedObject()
		o.SetType(universe[k].typ)
		o.SetSize(int64(len(universe[k].data)))
		wr, _ := o.Writer()
		wr.Write(universe[k].data)
		wr.Close()
		h, err := r.s.SetEncodedObject(o)
		r.note(err)
		if err == nil && h != universe[k].h {
			return lib.Err("other")
		}
		return class(err)
	case "newpack":
		if r.pw[w] != nil {
			return lib.Err("badslot")
		}
		ids := unmask(st.U("p"))
		wr, err := r.s.PackfileWriter()
		if err != nil {
			r.note(err)
			return class(err)
		}
		if len(ids) > 0 {
			data, ph := buildPack(ids)
			r.packs[ph] = ids
			if _, err := io.Copy(wr, bytes.NewReader(data)); err != nil {
				r.note(err)
				return class(err)
			}
		}
		r.pw[w] = wr
		return lib.Sym("ok")
	case "closepack":
		if r.pw[w] == nil {
			return lib.Err("badslot")
		}
		err := r.pw[w].Close()
		r.pw[w] = nil
		r.note(err)
		return class(err)
	case "has":
		err := r.s.HasEncodedObject(universe[k].h)
		if err == nil {
			return lib.Bool(true)
		}
		if errors.Is(err, plumbing.ErrObjectNotFound) {
			return lib.Bool(false)
		}
		r.note(err)
		return class(err)
	case "size":
		n, err := r.s.EncodedObjectSize(universe[k].h)
		if err != nil {
			r.note(err)
			return class(err)
		}
		if n != int64(len(universe[k].data)) {
			return lib.Err("other")
		}
		return lib.Sym("ok")
	case "get":
		o, err := r.s.EncodedObject(typeOf(st.S("t")), universe[k].h)
		if err != nil {
			r.note(err)
			return class(err)
		}
		if err := readBack(o, k); err != nil {
			r.note(err)
			return class(err)
		}
		return lib.Sym("ok")
	case "iter":
		it, err := r.s.IterEncodedObjects(typeOf(st.S("t")))
		if err != nil {
			r.note(err)
			return class(err)
		}
		var got uint64
		err = it.ForEach(func(o plumbing.EncodedObject) error {
			k, ok := byHash[o.Hash()]
			if !ok {
				return fmt.Errorf("unknown object %s", o.Hash())
			}
			if got&(1<<k) != 0 {
				return fmt.Errorf("object %d listed twice", k)
			}
			if err := readBack(o, k); err != nil {
				return err
			}
			got |= 1 << k
			return nil
		})
		if err != nil {
			r.note(err)
			return class(err)
		}
		return lib.Ok(lib.Uint(got))
	case "prefix":
		n := int(st.I("n"))
		hs, err := r.s.HashesWithPrefix(universe[k].h.Bytes()[:n])
		if err != nil {
			r.note(err)
			return class(err)
		}
		cnt := 0
		for _, h := range hs {
			if h == universe[k].h {
				cnt++
			}
		}
		return lib.Int(int64(cnt))
	case "packs":
		ps, err := r.s.ObjectPacks()
		if err != nil {
			r.note(err)
			return class(err)
		}
		var masks []uint64
		for _, p := range ps {
			ids, ok := r.packs[p]
			if !ok {
				return lib.Err("other")
			}
			masks = append(masks, mask(ids))
		}
		sort.Slice(masks, func(i, j int) bool { return masks[i] < masks[j] })
		var o []lib.Out
		for _, m := range masks {
			o = append(o, lib.Uint(m))
		}
		return lib.Ok(lib.List(o...))
	case "del":
		err := r.s.DeleteLooseObject(universe[k].h)
		if err != nil {
			r.note(err)
		}
		return class(err)
	case "reindex":
		err := r.s.Reindex()
		r.note(err)
		return class(err)
	}
	return lib.Err("badop")
}

func main() {
	lib.Main(func(c lib.Case) (lib.Out, any) {
		var fs billy.Filesystem
		var dir string
		if c.S("fs") == "mem" {
			fs = memfs.New()
		} else {
			d, err := os.MkdirTemp("", "verif-c18-")
			if err != nil {
				panic(err)
			}
			dir = d
			defer os.RemoveAll(dir)
			fs = osfs.New(dir)
		}
		opts := filesystem.Options{ExclusiveAccess: c.Bool("excl"), UseInMemoryIdx: c.Bool("memidx")}
		// initial content is written through a separate storage instance (plain options)
		r := &run{ow: map[int]io.WriteCloser{}, pw: map[int]io.WriteCloser{}, packs: map[plumbing.Hash][]int{}}
		{
			st0 := filesystem.NewStorageWithOptions(fs, cache.NewObjectLRUDefault(), filesystem.Options{})
			if err := st0.Init(); err != nil {
				panic(err)
			}
			r0 := &run{s: st0.ObjectStorage, ow: r.ow, pw: r.pw, packs: r.packs}
			for _, k := range unmask(c.U("loose")) {
				r0.step(lib.Case{"op": "set", "k": float64(k)})
			}
			for _, p := range c.L("packs") {
				r0.step(lib.Case{"op": "newpack", "w": float64(9), "p": p})
				r0.step(lib.Case{"op": "closepack", "w": float64(9)})
			}
			if len(r0.errs) > 0 {
				panic(fmt.Sprint("init failed: ", r0.errs))
			}
			st0.Close()
		}
		st := filesystem.NewStorageWithOptions(fs, cache.NewObjectLRUDefault(), opts)
		r.s = st.ObjectStorage
		var outs []lib.Out
		for _, x := range c.L("steps") {
			outs = append(outs, r.step(lib.AsCase(x)))
		}
		for _, w := range r.ow {
			if w != nil {
				w.Close()
			}
		}
		for _, w := range r.pw {
			if w != nil {
				w.Close()
			}
		}
		st.Close()
		return lib.List(outs...), map[string]any{"errs": r.errs}
	})
}
