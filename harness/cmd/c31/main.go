// c31: implementation side of the C31 correspondence (utils/convert: GetStat,
// Stat.IsBinary, the two EOL writers under explicit chunking; and the real
// checkout / add flows of Worktree with core.autocrlf).
package main

import (
	"bytes"
	"fmt"
	"io"
	"time"

	"github.com/go-git/go-billy/v6"
	"github.com/go-git/go-billy/v6/memfs"
	git "github.com/go-git/go-git/v6"
	"github.com/go-git/go-git/v6/plumbing/object"
	"github.com/go-git/go-git/v6/storage/memory"
	"github.com/go-git/go-git/v6/utils/convert"

	"verif/harness/lib"
)

// evReader replays a script of Read results for a 1-byte buffer.
type evReader struct {
	evs []int64
	i   int
}

func (r *evReader) Read(p []byte) (int, error) {
	if r.i >= len(r.evs) {
		return 0, io.EOF
	}
	e := r.evs[r.i]
	r.i++
	switch {
	case e < 256:
		p[0] = byte(e)
		return 1, nil
	case e < 512:
		return 0, nil
	default:
		p[0] = byte(e - 512)
		return 1, io.EOF
	}
}

func ints(c lib.Case, k string) []int64 {
	var r []int64
	for _, x := range c.L(k) {
		r = append(r, lib.Case{"v": x}.I("v"))
	}
	return r
}

func statOut(s convert.Stat) lib.Out {
	return lib.Ok(lib.Uint(uint64(s.NUL)), lib.Uint(uint64(s.LoneCR)), lib.Uint(uint64(s.LoneLF)), lib.Uint(uint64(s.CRLF)),
		lib.Uint(uint64(s.Printable)), lib.Uint(uint64(s.NonPrintable)), lib.Bool(s.IsBinary()))
}

func writerOut(w io.Writer, buf *bytes.Buffer, chunks []string) lib.Out {
	var ns []lib.Out
	for _, ch := range chunks {
		n, err := w.Write(lib.Unhex(ch))
		if err != nil {
			return lib.Err("write")
		}
		ns = append(ns, lib.Int(int64(n)))
	}
	return lib.Ok(lib.Bytes(buf.Bytes()), lib.List(ns...))
}

func acName(n int64) string {
	switch n {
	case 2:
		return "true"
	case 1:
		return "input"
	}
	return "false"
}

type repo struct {
	r  *git.Repository
	w  *git.Worktree
	fs billy.Filesystem
}

func newRepo() *repo {
	fs := memfs.New()
	r, err := git.Init(memory.NewStorage(), git.WithWorkTree(fs))
	if err != nil {
		panic(err)
	}
	w, err := r.Worktree()
	if err != nil {
		panic(err)
	}
	return &repo{r, w, fs}
}

func (p *repo) setAC(ac string) {
	cfg, err := p.r.Config()
	if err != nil {
		panic(err)
	}
	cfg.Core.AutoCRLF = ac
	if err := p.r.SetConfig(cfg); err != nil {
		panic(err)
	}
}

func (p *repo) write(name string, data []byte) {
	f, err := p.fs.Create(name)
	if err != nil {
		panic(err)
	}
	if _, err := f.Write(data); err != nil {
		panic(err)
	}
	f.Close()
}

func (p *repo) read(name string) []byte {
	f, err := p.fs.Open(name)
	if err != nil {
		panic(err)
	}
	defer f.Close()
	b, err := io.ReadAll(f)
	if err != nil {
		panic(err)
	}
	return b
}

// staged returns the content of the blob staged at name.
func (p *repo) staged(name string) ([]byte, error) {
	idx, err := p.r.Storer.Index()
	if err != nil {
		return nil, err
	}
	e, err := idx.Entry(name)
	if err != nil {
		return nil, err
	}
	b, err := p.r.BlobObject(e.Hash)
	if err != nil {
		return nil, err
	}
	rd, err := b.Reader()
	if err != nil {
		return nil, err
	}
	defer rd.Close()
	return io.ReadAll(rd)
}

var sig = &object.Signature{Name: "v", Email: "v@v", When: time.Unix(1700000000, 0).UTC()}

// commitRaw stores data as the blob of "f" (autocrlf off) and commits it.
func (p *repo) commitRaw(data []byte) {
	p.setAC("false")
	p.write("f", data)
	if _, err := p.w.Add("f"); err != nil {
		panic(err)
	}
	if _, err := p.w.Commit("c", &git.CommitOptions{Author: sig, Committer: sig, AllowEmptyCommits: true}); err != nil {
		panic(err)
	}
}

func (p *repo) checkout(ac string) ([]byte, error) {
	p.setAC(ac)
	if err := p.fs.Remove("f"); err != nil {
		return nil, err
	}
	if err := p.w.Reset(&git.ResetOptions{Mode: git.HardReset}); err != nil {
		return nil, err
	}
	return p.read("f"), nil
}

func main() {
	lib.Main(func(c lib.Case) (lib.Out, any) {
		switch c.S("op") {
		case "stat":
			s, err := convert.GetStat(&evReader{evs: ints(c, "evs")})
			if err != nil {
				return lib.Err("read"), nil
			}
			return statOut(s), nil
		case "isbin":
			s := convert.Stat{NUL: uint(c.U("nul")), LoneCR: uint(c.U("lonecr")), LoneLF: uint(c.U("lonelf")),
				CRLF: uint(c.U("crlf")), Printable: uint(c.U("pr")), NonPrintable: uint(c.U("np"))}
			return lib.Bool(s.IsBinary()), nil
		case "lfw":
			var buf bytes.Buffer
			return writerOut(convert.NewLFWriter(&buf), &buf, c.SL("chunks")), nil
		case "crlfw":
			var buf bytes.Buffer
			return writerOut(convert.NewCRLFWriter(&buf), &buf, c.SL("chunks")), nil
		case "checkout":
			p := newRepo()
			p.commitRaw(c.B("data"))
			b, err := p.checkout(acName(c.I("ac")))
			if err != nil {
				return lib.Err("checkout"), err.Error()
			}
			return lib.Ok(lib.Bytes(b)), nil
		case "add":
			p := newRepo()
			if pr, ok := c["prior"].(string); ok {
				p.commitRaw(lib.Unhex(pr))
			}
			p.setAC(acName(c.I("ac")))
			p.write("f", c.B("data"))
			if _, err := p.w.Add("f"); err != nil {
				return lib.Err("add"), err.Error()
			}
			b, err := p.staged("f")
			if err != nil {
				return lib.Err("staged"), err.Error()
			}
			return lib.Ok(lib.Bytes(b)), nil
		case "roundtrip":
			p := newRepo()
			p.commitRaw(c.B("data"))
			ac := acName(c.I("ac"))
			if _, err := p.checkout(ac); err != nil {
				return lib.Err("checkout"), err.Error()
			}
			if _, err := p.w.Add("f"); err != nil {
				return lib.Err("add"), err.Error()
			}
			b, err := p.staged("f")
			if err != nil {
				return lib.Err("staged"), err.Error()
			}
			st, err := p.w.Status()
			clean := err == nil && st.IsClean()
			return lib.Ok(lib.Bytes(b)), map[string]any{"clean_after_readd": clean}
		}
		panic(fmt.Sprint("unknown op ", c.S("op")))
	})
}
