// c47: implementation side of the C47 correspondence: internal/revision's
// parser (through x/verifhooks) and Repository.ResolveRevision over a
// filesystem storage (billy memfs) holding the case's raw objects.
package main

import (
	"errors"
	"io"
	"strings"

	"github.com/go-git/go-billy/v6/memfs"
	git "github.com/go-git/go-git/v6"
	"github.com/go-git/go-git/v6/plumbing"
	"github.com/go-git/go-git/v6/plumbing/cache"
	"github.com/go-git/go-git/v6/storage/filesystem"
	"github.com/go-git/go-git/v6/x/verifhooks"

	"verif/harness/lib"
)

func parseOut(s string) lib.Out {
	items, err := verifhooks.ParseRevision(s)
	if err != nil {
		return lib.Err("invalid")
	}
	var xs []lib.Out
	for _, it := range items {
		switch it.Kind {
		case "ref":
			xs = append(xs, lib.List(lib.Sym("ref"), lib.Str(it.Text)))
		case "tilde":
			xs = append(xs, lib.List(lib.Sym("tilde"), lib.Int(int64(it.N))))
		case "caret":
			xs = append(xs, lib.List(lib.Sym("caret"), lib.Int(int64(it.N))))
		case "caretreg":
			xs = append(xs, lib.List(lib.Sym("caretreg"), lib.Str(it.Text), lib.Bool(it.Negate)))
		case "carettype":
			xs = append(xs, lib.List(lib.Sym("carettype"), lib.Str(it.Text)))
		default:
			xs = append(xs, lib.Sym("other"))
		}
	}
	return lib.Ok(lib.List(xs...))
}

func main() {
	lib.Main(func(c lib.Case) (lib.Out, any) {
		switch c.S("op") {
		case "parse":
			return parseOut(string(c.B("expr"))), nil
		case "resolve":
			st := filesystem.NewStorage(memfs.New(), cache.NewObjectLRUDefault())
			index := map[plumbing.Hash]int{}
			for i, x := range c.L("objects") {
				o := lib.AsCase(x)
				t, err := plumbing.ParseObjectType(o.S("type"))
				if err != nil {
					panic(err)
				}
				eo := st.NewEncodedObject()
				eo.SetType(t)
				w, err := eo.Writer()
				if err != nil {
					panic(err)
				}
				if _, err := w.Write(o.B("data")); err != nil {
					panic(err)
				}
				w.Close()
				h, err := st.SetEncodedObject(eo)
				if err != nil {
					panic(err)
				}
				if h.String() != o.S("id") {
					return lib.Err("hashmismatch"), nil
				}
				if o["node"] != nil {
					index[h] = int(o.I("node"))
				}
				_ = i
			}
			for _, x := range c.L("refs") {
				r := lib.AsCase(x)
				name := plumbing.ReferenceName(r.S("name"))
				var ref *plumbing.Reference
				if r.S("sym") != "" {
					ref = plumbing.NewSymbolicReference(name, plumbing.ReferenceName(r.S("sym")))
				} else {
					ref = plumbing.NewHashReference(name, plumbing.NewHash(r.S("hash")))
				}
				if err := st.SetReference(ref); err != nil {
					return lib.Err("setref"), nil
				}
			}
			repo, err := git.Open(st, nil)
			if err != nil {
				return lib.Err("open"), nil
			}
			var outs []lib.Out
			for _, e := range c.SL("exprs") {
				h, err := repo.ResolveRevision(plumbing.Revision(string(lib.Unhex(e))))
				switch {
				case err == nil:
					n, ok := index[*h]
					if !ok {
						outs = append(outs, lib.Err("notacommit"))
					} else {
						outs = append(outs, lib.Ok(lib.Int(int64(n))))
					}
				case errors.Is(err, plumbing.ErrReferenceNotFound):
					outs = append(outs, lib.Err("notfound"))
				case strings.HasPrefix(err.Error(), "Revision invalid"):
					outs = append(outs, lib.Err("invalid"))
				case errors.Is(err, io.EOF), errors.Is(err, plumbing.ErrObjectNotFound):
					outs = append(outs, lib.Err("fail"))
				default:
					outs = append(outs, lib.Err("fail"))
				}
			}
			return lib.List(outs...), nil
		}
		return lib.Err("badcase"), nil
	})
}
