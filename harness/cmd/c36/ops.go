package main

import (
	"net/url"

	"bufio"
	"bytes"
	"context"
	"errors"
	"fmt"
	"github.com/go-git/go-git/v6/plumbing/protocol"
	"github.com/go-git/go-git/v6/plumbing/transport/file"
	"io"
	"sort"

	"github.com/go-git/go-git/v6/plumbing"
	"github.com/go-git/go-git/v6/plumbing/format/pktline"
	"github.com/go-git/go-git/v6/plumbing/protocol/capability"
	"github.com/go-git/go-git/v6/plumbing/protocol/packp"
	"github.com/go-git/go-git/v6/plumbing/transport"
	"github.com/go-git/go-git/v6/storage/memory"

	"verif/harness/lib"
)

func loadStore(c lib.Case) (*memory.Storage, map[plumbing.Hash]int64, map[int64]plumbing.Hash) {
	st := memory.NewStorage()
	ids := map[plumbing.Hash]int64{plumbing.ZeroHash: 0}
	hashOf := map[int64]plumbing.Hash{0: plumbing.ZeroHash}
	for k, v := range c.M("hashes") {
		var id int64
		for _, ch := range k {
			id = id*10 + int64(ch-'0')
		}
		h := plumbing.NewHash(v.(string))
		ids[h] = id
		hashOf[id] = h
	}
	for _, x := range c.L("objs") {
		o := lib.AsCase(x)
		mo := &plumbing.MemoryObject{}
		mo.SetType(types[o.S("t")])
		mo.Write(o.B("data"))
		if _, err := st.SetEncodedObject(mo); err != nil {
			panic(err)
		}
	}
	return st, ids, hashOf
}

func idList(c lib.Case, k string, hashOf map[int64]plumbing.Hash) []plumbing.Hash {
	var r []plumbing.Hash
	for _, x := range c.L(k) {
		r = append(r, hashOf[lib.Case{"v": x}.I("v")])
	}
	return r
}

func sortedIDs(hs []plumbing.Hash, ids map[plumbing.Hash]int64) lib.Out {
	var v []int64
	for _, h := range hs {
		id, ok := ids[h]
		if !ok {
			panic("harness: hash unknown to the generator")
		}
		v = append(v, id)
	}
	sort.Slice(v, func(i, j int) bool { return v[i] < v[j] })
	o := make([]lib.Out, len(v))
	for i, x := range v {
		o[i] = lib.Int(x)
	}
	return lib.List(o...)
}

// op=shallow: transport.getShallowCommits
func shallowOp(c lib.Case) (lib.Out, any) {
	st, ids, hashOf := loadStore(c)
	sh, un, err := transport.VerifGetShallowCommits(st, idList(c, "heads", hashOf), int(c.I("depth")))
	if err != nil {
		return lib.Err("walk"), err.Error()
	}
	return lib.Ok(sortedIDs(sh, ids), sortedIDs(un, ids)), nil
}

// ---- op=negotiate: NegotiatePack against a scripted server ----

// scriptConn is both ends of the wire: what the client writes is parsed when
// the client next reads; the answer follows the acknowledgement table.
type scriptConn struct {
	in        bytes.Buffer // written by the client, not yet parsed
	out       bytes.Buffer // answers not yet read
	ids       map[plumbing.Hash]int64
	table     map[plumbing.Hash]packp.ACKStatus
	stateless bool
	gotReq    bool
	rounds    []lib.Out
	finished  bool
	err       error
}

func (s *scriptConn) Write(p []byte) (int, error) { return s.in.Write(p) }
func (s *scriptConn) Close() error                { return nil }

func (s *scriptConn) Read(p []byte) (int, error) {
	if s.out.Len() == 0 {
		s.process()
	}
	if s.out.Len() == 0 {
		return 0, io.EOF
	}
	return s.out.Read(p)
}

func (s *scriptConn) process() {
	if s.in.Len() == 0 || s.finished {
		return
	}
	rd := bufio.NewReader(bytes.NewReader(s.in.Bytes()))
	s.in.Reset()
	sawReq := false
	if !s.gotReq || s.stateless {
		var ur packp.UploadRequest
		if err := ur.Decode(rd); err != nil {
			s.err = fmt.Errorf("harness: decoding upload-request: %w", err)
			return
		}
		s.gotReq = true
		sawReq = true
	}
	var uh packp.UploadHaves
	if err := uh.Decode(rd); err != nil {
		s.err = fmt.Errorf("harness: decoding haves: %w", err)
		return
	}
	var v []int64
	for _, h := range uh.Haves {
		v = append(v, s.ids[h])
	}
	sort.Slice(v, func(i, j int) bool { return v[i] < v[j] })
	var ho []lib.Out
	var sortedHaves []plumbing.Hash
	for i, x := range v {
		if i > 0 && v[i-1] == x {
			continue
		}
		ho = append(ho, lib.Int(x))
	}
	// answer in id order so that both sides apply the acknowledgements identically
	byID := map[int64]plumbing.Hash{}
	for _, h := range uh.Haves {
		byID[s.ids[h]] = h
	}
	for i, x := range v {
		if i > 0 && v[i-1] == x {
			continue
		}
		sortedHaves = append(sortedHaves, byID[x])
	}
	s.rounds = append(s.rounds, lib.List(lib.List(ho...), lib.Bool(uh.Done), lib.Bool(sawReq)))
	if uh.Done || len(uh.Haves) > 0 {
		for _, h := range sortedHaves {
			if stt, ok := s.table[h]; ok {
				if stt == 0 {
					continue // a plain ACK would end the response; only sent as the final answer
				}
				pktline.Writef(&s.out, "ACK %s %s\n", h, stt)
			}
		}
		pktline.WriteString(&s.out, "NAK\n")
	}
	if uh.Done {
		s.finished = true
	}
}

func negotiateOp(c lib.Case) (lib.Out, any) {
	_, ids, hashOf := loadStore(c)
	st := memory.NewStorage()
	conn := &scriptConn{ids: ids, table: map[plumbing.Hash]packp.ACKStatus{}, stateless: c.Bool("stateless")}
	for _, x := range c.L("acks") {
		l := x.([]any)
		var stt packp.ACKStatus
		switch l[1].(string) {
		case "continue":
			stt = packp.ACKContinue
		case "common":
			stt = packp.ACKCommon
		case "ready":
			stt = packp.ACKReady
		}
		conn.table[hashOf[lib.Case{"v": l[0]}.I("v")]] = stt
	}
	var caps capability.List
	caps.Set(string(capability.MultiACKDetailed))
	caps.Set(string(capability.OFSDelta))
	req := &transport.FetchRequest{Wants: idList(c, "wants", hashOf), Haves: idList(c, "haves", hashOf)}
	_, err := transport.NegotiatePack(context.Background(), st, caps, c.Bool("stateless"), conn, conn, req)
	if conn.err != nil {
		panic(conn.err.Error())
	}
	nochange := errors.Is(err, transport.ErrNoChange)
	if err != nil && !nochange {
		return lib.Err("fail"), err.Error()
	}
	if !nochange {
		conn.process()
	}
	return lib.Ok(lib.Bool(nochange), lib.List(conn.rounds...)), nil
}

// op=v2serve: a client store (objects held, shallow list) fetches from the go-git upload-pack server over the in-process
// file transport with the given protocol version, wants, haves and depth — no Remote logic in between.  Observable:
// the objects gained and the shallow list afterwards.
func v2serveOp(c lib.Case) (lib.Out, any) {
	srv, ids, hashOf := loadStore(c)
	cl := memory.NewStorage()
	has := map[int64]bool{}
	for _, x := range c.L("client_objs") {
		has[lib.Case{"v": x}.I("v")] = true
	}
	for _, x := range c.L("objs") {
		o := lib.AsCase(x)
		if !has[o.I("id")] {
			continue
		}
		mo := &plumbing.MemoryObject{}
		mo.SetType(types[o.S("t")])
		mo.Write(o.B("data"))
		cl.SetEncodedObject(mo)
	}
	before := map[plumbing.Hash]bool{}
	for h := range cl.Objects {
		before[h] = true
	}
	if sh := idList(c, "shallow", hashOf); len(sh) > 0 {
		cl.SetShallow(sh)
	}
	tr := file.NewTransport(file.Options{Loader: transport.MapLoader{"/srv": srv}})
	v := protocol.V2
	if c.I("proto") == 0 {
		v = protocol.V0
	}
	sess, err := tr.Handshake(context.Background(), &transport.Request{URL: &url.URL{Scheme: "file", Path: "/srv"},
		Command: transport.UploadPackService, Protocol: v})
	if err != nil {
		return lib.Err("handshake"), err.Error()
	}
	defer sess.Close()
	err = sess.Fetch(context.Background(), cl, &transport.FetchRequest{Wants: idList(c, "wants", hashOf),
		Haves: idList(c, "haves", hashOf), Depth: int(c.I("depth"))})
	if errors.Is(err, transport.ErrNoChange) {
		return lib.Err("nochange"), nil
	}
	if err != nil {
		return lib.Err("fail"), err.Error()
	}
	var gained []plumbing.Hash
	for h := range cl.Objects {
		if !before[h] {
			gained = append(gained, h)
		}
	}
	shl, _ := cl.Shallow()
	uniq := map[plumbing.Hash]bool{}
	var su []plumbing.Hash
	for _, h := range shl {
		if !uniq[h] {
			uniq[h] = true
			su = append(su, h)
		}
	}
	return lib.Ok(sortedIDs(gained, ids), sortedIDs(su, ids)), nil
}
