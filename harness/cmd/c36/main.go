// c36: implementation side of the C36 (and the wire part of C38)
// correspondence.
//
//	c36 serve upload-pack|receive-pack <dir>   go-git as the server of a git client
//	                                           (git fetch --upload-pack=..., git push --receive-pack=...)
//	c36 (no arguments)                         case loop:
//	  op=fetchlogic  Remote.FetchContext through a scripted transport: want computation, refspec
//	                 mapping, tag modes, prune, local reference update
//	  op=shallow     transport.getShallowCommits (verif export)
//	  op=negotiate   transport.NegotiatePack against a scripted server
//	  op=wire        go-git client fetch/push between on-disk repositories, the server being
//	                 go-git (file transport) or the git binary (spawned upload-pack/receive-pack)
package main

import (
	"context"
	"errors"
	"fmt"
	"io"
	"os"
	"os/exec"
	"sort"
	"strings"

	"github.com/go-git/go-billy/v6/osfs"
	git "github.com/go-git/go-git/v6"
	"github.com/go-git/go-git/v6/config"
	"github.com/go-git/go-git/v6/plumbing"
	"github.com/go-git/go-git/v6/plumbing/cache"
	"github.com/go-git/go-git/v6/plumbing/client"
	"github.com/go-git/go-git/v6/plumbing/protocol"
	"github.com/go-git/go-git/v6/plumbing/protocol/capability"
	"github.com/go-git/go-git/v6/plumbing/transport"
	"github.com/go-git/go-git/v6/storage"
	"github.com/go-git/go-git/v6/storage/filesystem"
	"github.com/go-git/go-git/v6/storage/memory"

	"verif/harness/lib"
)

// ---------------------------------------------------------------- go-git as server

func openStorage(dir string) *filesystem.Storage {
	if st, err := os.Stat(dir + "/.git"); err == nil && st.IsDir() {
		dir += "/.git"
	}
	return filesystem.NewStorage(osfs.New(dir), cache.NewObjectLRUDefault())
}

func serve(args []string) int {
	if len(args) != 2 {
		fmt.Fprintln(os.Stderr, "usage: c36 serve upload-pack|receive-pack <dir>")
		return 2
	}
	st := openStorage(args[1])
	defer st.Close()
	var err error
	proto := os.Getenv("GIT_PROTOCOL")
	switch args[0] {
	case "upload-pack":
		err = transport.UploadPack(context.Background(), st, io.NopCloser(os.Stdin), os.Stdout, &transport.UploadPackRequest{GitProtocol: proto})
	case "receive-pack":
		err = transport.ReceivePack(context.Background(), st, io.NopCloser(os.Stdin), os.Stdout, &transport.ReceivePackRequest{GitProtocol: proto})
	default:
		err = errors.New("unknown service")
	}
	if err != nil {
		fmt.Fprintln(os.Stderr, "c36 serve:", err)
		return 1
	}
	return 0
}

// ---------------------------------------------------------------- the git binary as server

type execConn struct {
	cmd *exec.Cmd
	in  io.WriteCloser
	out io.ReadCloser
}

func (c *execConn) Reader() io.Reader      { return c.out }
func (c *execConn) Writer() io.WriteCloser { return c.in }
func (c *execConn) Close() error {
	c.in.Close()
	io.Copy(io.Discard, c.out)
	c.cmd.Wait()
	return nil
}

type gitExecTransport struct{}

func (gitExecTransport) Handshake(ctx context.Context, req *transport.Request) (transport.Session, error) {
	svc := strings.TrimPrefix(req.Command, "git-")
	cmd := exec.Command("/usr/bin/git", svc, req.URL.Path)
	cmd.Env = append(os.Environ(), "GIT_CONFIG_NOSYSTEM=1", "GIT_CONFIG_GLOBAL=/dev/null", "HOME=/nonexistent")
	if p := transport.GitProtocolEnv(req.Protocol); p != "" {
		cmd.Env = append(cmd.Env, "GIT_PROTOCOL="+p)
	}
	in, _ := cmd.StdinPipe()
	out, _ := cmd.StdoutPipe()
	cmd.Stderr = os.Stderr
	if err := cmd.Start(); err != nil {
		return nil, err
	}
	return transport.NewStreamSession(&execConn{cmd, in, out}, req.Command)
}

func tagMode(s string) plumbing.TagMode {
	switch s {
	case "all":
		return plumbing.AllTags
	case "none":
		return plumbing.NoTags
	}
	return plumbing.TagFollowing
}

func errOut(err error) (lib.Out, any) {
	switch {
	case err == nil:
		return lib.Ok(), nil
	case errors.Is(err, git.NoErrAlreadyUpToDate):
		return lib.Err("uptodate"), err.Error()
	case errors.Is(err, git.ErrForceNeeded):
		return lib.Err("force_needed"), err.Error()
	}
	return lib.Err("fail"), err.Error()
}

func wire(c lib.Case) (lib.Out, any) {
	repo, err := git.PlainOpen(c.S("client_dir"))
	if err != nil {
		panic("harness: open client: " + err.Error())
	}
	defer repo.Close()
	url := c.S("server_dir")
	var copts []client.Option
	if c.S("server") == "git" {
		url = "gitexec://" + c.S("server_dir")
		copts = append(copts, client.WithTransport("gitexec", gitExecTransport{}))
	}
	var specs []config.RefSpec
	for _, s := range c.SL("specs") {
		specs = append(specs, config.RefSpec(s))
	}
	rem, err := repo.Remote("origin")
	if err != nil {
		rem, err = repo.CreateRemote(&config.RemoteConfig{Name: "origin", URLs: []string{url},
			Fetch: []config.RefSpec{"+refs/heads/*:refs/remotes/origin/*"}})
		if err != nil {
			panic("harness: create remote: " + err.Error())
		}
	}
	switch c.S("mode") {
	case "fetch":
		err = rem.FetchContext(context.Background(), &git.FetchOptions{
			RemoteName: "origin", RemoteURL: url, RefSpecs: specs, Depth: int(c.I("depth")), Tags: tagMode(c.S("tags")),
			Force: c.Bool("force"), Prune: c.Bool("prune"), ClientOptions: copts,
		})
	case "push":
		o := &git.PushOptions{RemoteName: "origin", RemoteURL: url, RefSpecs: specs, Force: c.Bool("force"),
			Prune: c.Bool("prune"), FollowTags: c.Bool("follow_tags"), Atomic: c.Bool("atomic"), ClientOptions: copts}
		if l := c.M("lease"); l != nil {
			o.ForceWithLease = &git.ForceWithLease{RefName: plumbing.ReferenceName(l.S("ref")), Hash: plumbing.NewHash(l.S("hash"))}
		}
		err = rem.PushContext(context.Background(), o)
	default:
		panic("harness: unknown mode")
	}
	return errOut(err)
}

// ---------------------------------------------------------------- fetch decision logic over a scripted transport

type fetchSession struct {
	caps   *capability.List
	refs   []*plumbing.Reference
	server *memory.Storage
	wants  []plumbing.Hash
	haves  []plumbing.Hash
	depth  int
	itags  bool
	calls  int
}

func (s *fetchSession) Capabilities() *capability.List { return s.caps }
func (s *fetchSession) GetRemoteRefs(context.Context, *transport.GetRemoteRefsOptions) (*transport.RemoteRefs, error) {
	return &transport.RemoteRefs{References: s.refs}, nil
}
func (s *fetchSession) Fetch(_ context.Context, st storage.Storer, req *transport.FetchRequest) error {
	s.calls++
	s.wants = append([]plumbing.Hash(nil), req.Wants...)
	s.haves = append([]plumbing.Hash(nil), req.Haves...)
	s.depth = req.Depth
	s.itags = req.IncludeTags
	// a correct server: the client ends up with every object the server has
	for _, o := range s.server.Objects {
		if _, err := st.SetEncodedObject(o); err != nil {
			return err
		}
	}
	return nil
}
func (s *fetchSession) Push(context.Context, storage.Storer, *transport.PushRequest) error {
	return errors.New("harness: unexpected Push")
}
func (s *fetchSession) Close() error { return nil }

type fetchTransport struct{ s *fetchSession }

func (t *fetchTransport) Handshake(context.Context, *transport.Request) (transport.Session, error) {
	return t.s, nil
}

var types = map[string]plumbing.ObjectType{
	"commit": plumbing.CommitObject, "tree": plumbing.TreeObject,
	"blob": plumbing.BlobObject, "tag": plumbing.TagObject,
}

func fetchLogic(c lib.Case) (lib.Out, any) {
	cl, srv := memory.NewStorage(), memory.NewStorage()
	ids := map[plumbing.Hash]int64{plumbing.ZeroHash: 0}
	hashOf := map[int64]plumbing.Hash{0: plumbing.ZeroHash}
	for k, v := range c.M("hashes") {
		var id int64
		for _, ch := range k {
			id = id*10 + int64(ch-'0')
		}
		h := plumbing.NewHash(v.(string))
		ids[h] = id
		hashOf[id] = h
	}
	idOf := func(x any) int64 { return lib.Case{"v": x}.I("v") }
	clientHas := map[int64]bool{}
	for _, x := range c.L("client_objs") {
		clientHas[idOf(x)] = true
	}
	for _, x := range c.L("objs") {
		o := lib.AsCase(x)
		mk := func() *plumbing.MemoryObject {
			mo := &plumbing.MemoryObject{}
			mo.SetType(types[o.S("t")])
			mo.Write(o.B("data"))
			return mo
		}
		if _, err := srv.SetEncodedObject(mk()); err != nil {
			panic(err)
		}
		if clientHas[o.I("id")] {
			cl.SetEncodedObject(mk())
		}
	}
	var sh []plumbing.Hash
	for _, x := range c.L("shallow") {
		sh = append(sh, hashOf[idOf(x)])
	}
	if len(sh) > 0 {
		cl.SetShallow(sh)
	}
	mkref := func(x any) *plumbing.Reference {
		l := x.([]any)
		name := plumbing.ReferenceName(lib.Unhex(l[0].(string)))
		if l[1].(string) == "s" {
			return plumbing.NewSymbolicReference(name, plumbing.ReferenceName(lib.Unhex(l[2].(string))))
		}
		return plumbing.NewHashReference(name, hashOf[idOf(l[2])])
	}
	for _, x := range c.L("local") {
		if err := cl.SetReference(mkref(x)); err != nil {
			panic(err)
		}
	}
	sess := &fetchSession{caps: &capability.List{}, server: srv}
	for _, k := range []capability.Capability{capability.MultiACKDetailed, capability.Sideband64k, capability.OFSDelta,
		capability.Shallow, capability.IncludeTag, capability.AllowTipSHA1InWant, capability.AllowReachableSHA1InWant} {
		sess.caps.Set(string(k))
	}
	for _, x := range c.L("remote") {
		sess.refs = append(sess.refs, mkref(x))
	}
	var fspecs []config.RefSpec
	for _, s := range c.SL("config_specs") {
		fspecs = append(fspecs, config.RefSpec(lib.Unhex(s)))
	}
	rem := git.NewRemote(cl, &config.RemoteConfig{Name: "origin", URLs: []string{"fake://host/repo"}, Fetch: fspecs})
	o := &git.FetchOptions{
		RemoteName: "origin", Depth: int(c.I("depth")), Tags: tagMode(c.S("tags")), Force: c.Bool("force"), Prune: c.Bool("prune"),
		ClientOptions: []client.Option{client.WithTransport("fake", &fetchTransport{sess})},
	}
	for _, s := range c.SL("specs") {
		o.RefSpecs = append(o.RefSpecs, config.RefSpec(lib.Unhex(s)))
	}
	err := rem.FetchContext(context.Background(), o)
	cls := "ok"
	switch {
	case err == nil:
	case errors.Is(err, git.NoErrAlreadyUpToDate):
		cls = "uptodate"
	case errors.Is(err, git.ErrForceNeeded):
		cls = "force_needed"
	case errors.Is(err, git.ErrRemoteRefNotFound):
		cls = "ref_not_found"
	case errors.Is(err, config.ErrRefSpecMalformedSeparator), errors.Is(err, config.ErrRefSpecMalformedWildcard):
		cls = "invalid"
	case errors.Is(err, git.ErrExactSHA1NotSupported):
		cls = "sha_unsupported"
	default:
		cls = "fail"
	}
	msg := ""
	if err != nil {
		msg = err.Error()
	}
	if strings.HasPrefix(msg, "harness:") {
		panic(msg)
	}
	// observable: class, wants, final local references
	switch cls {
	case "invalid", "ref_not_found", "fail", "sha_unsupported":
		return lib.List(lib.Sym(cls)), msg
	}
	var ws []int64
	for _, h := range sess.wants {
		ws = append(ws, ids[h])
	}
	sort.Slice(ws, func(i, j int) bool { return ws[i] < ws[j] })
	var wo []lib.Out
	for _, v := range ws {
		wo = append(wo, lib.Int(v))
	}
	type rf struct {
		n string
		o lib.Out
	}
	var rs []rf
	it, _ := cl.IterReferences()
	it.ForEach(func(r *plumbing.Reference) error {
		if r.Type() == plumbing.SymbolicReference {
			rs = append(rs, rf{string(r.Name()), lib.List(lib.Str(string(r.Name())), lib.Sym("s"), lib.Str(string(r.Target())))})
		} else {
			id, ok := ids[r.Hash()]
			if !ok {
				panic("harness: reference hash unknown to the generator")
			}
			rs = append(rs, rf{string(r.Name()), lib.List(lib.Str(string(r.Name())), lib.Sym("h"), lib.Int(id))})
		}
		return nil
	})
	sort.Slice(rs, func(i, j int) bool { return rs[i].n < rs[j].n })
	var ro []lib.Out
	for _, r := range rs {
		ro = append(ro, r.o)
	}
	extra := map[string]any{"msg": msg, "fetch_calls": sess.calls, "depth": sess.depth, "include_tags": sess.itags}
	var hs []int64
	for _, h := range sess.haves {
		hs = append(hs, ids[h])
	}
	extra["haves"] = hs
	return lib.List(lib.Sym(cls), lib.List(wo...), lib.List(ro...)), extra
}

func main() {
	if len(os.Args) > 1 && os.Args[1] == "serve" {
		os.Exit(serve(os.Args[2:]))
	}
	lib.Main(func(c lib.Case) (lib.Out, any) {
		switch c.S("op") {
		case "wire":
			return wire(c)
		case "fetchlogic":
			return fetchLogic(c)
		case "shallow":
			return shallowOp(c)
		case "negotiate":
			return negotiateOp(c)
		case "v2serve":
			return v2serveOp(c)
		case "noop":
			return lib.Ok(), nil
		}
		panic("harness: unknown op " + c.S("op"))
	})
}

var _ = protocol.V2
