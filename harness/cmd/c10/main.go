// c10: implementation side of the C10 correspondence (pack index codec and
// the three index readers: idxfile.MemoryIndex, idxfile.LazyIndex,
// mmap.PackScanner; revfile codec).
//
// case kinds
//
//	build : {hs, entries:[{h,o,c}], pack, queries}  Writer.Add* -> Index -> Encode / revfile.Encode,
//	        then every reader answers the queries on the produced bytes
//	file  : {hs, idx, rev, pack, queries}           the readers on given (possibly corrupt) bytes
//	rev   : {hs, rev, count, pack}                  revfile.Decode
package main

import (
	"bytes"
	"crypto"
	"crypto/sha1"
	_ "crypto/sha256" // the root package git registers it for every application
	"encoding/binary"
	"encoding/hex"
	"errors"
	"hash"
	"io"
	"io/fs"
	"os"
	"path/filepath"
	"sort"
	"strconv"
	"time"

	"github.com/go-git/go-billy/v6/osfs"

	"github.com/go-git/go-git/v6/plumbing"
	"github.com/go-git/go-git/v6/plumbing/format/idxfile"
	"github.com/go-git/go-git/v6/plumbing/format/revfile"
	ghash "github.com/go-git/go-git/v6/plumbing/hash"
	"github.com/go-git/go-git/v6/storage/filesystem/mmap"

	"verif/harness/lib"
)

// ---- in-memory files

type memInput struct {
	*bytes.Reader
	n int64
}
type memInfo struct{ n int64 }

func (f memInfo) Name() string       { return "idx" }
func (f memInfo) Size() int64        { return f.n }
func (f memInfo) Mode() fs.FileMode  { return 0o444 }
func (f memInfo) ModTime() time.Time { return time.Time{} }
func (f memInfo) IsDir() bool        { return false }
func (f memInfo) Sys() any           { return nil }

func (i memInput) Stat() (fs.FileInfo, error) { return memInfo{i.n}, nil }

type memRA struct{ *bytes.Reader }

func (memRA) Close() error { return nil }

func opener(b []byte) func() (idxfile.ReadAtCloser, error) {
	return func() (idxfile.ReadAtCloser, error) { return memRA{bytes.NewReader(b)}, nil }
}

func hasher(hs int) hash.Hash {
	if hs == 32 {
		return ghash.New(crypto.SHA256)
	}
	return ghash.New(crypto.SHA1)
}

func mkHash(b []byte) (plumbing.Hash, bool) { return plumbing.FromBytes(b) }

// ---- rendering

func cls(err error) lib.Out {
	if errors.Is(err, plumbing.ErrObjectNotFound) || errors.Is(err, mmap.ErrObjectNotFound) {
		return lib.Err("notfound")
	}
	return lib.Err("malformed")
}

func canon(h plumbing.Hash) lib.Out {
	// the ID as bytes, and whether the Go value equals the canonical ObjectID of those bytes
	c, _ := plumbing.FromBytes(h.Bytes())
	if h == c {
		return lib.Bytes(h.Bytes())
	}
	return lib.List(lib.Sym("noncanonical"), lib.Bytes(h.Bytes()))
}

func entryOut(e *idxfile.Entry) lib.Out {
	return lib.List(canon(e.Hash), lib.Uint(e.Offset), lib.Uint(uint64(e.CRC32)))
}

func drain(it idxfile.EntryIter, err error, byOffset bool) lib.Out {
	if err != nil {
		return lib.List(cls(err))
	}
	defer it.Close()
	var es []*idxfile.Entry
	var end lib.Out = lib.Sym("eof")
	for n := 0; ; n++ {
		e, err := it.Next()
		if err == io.EOF {
			break
		}
		if err != nil {
			end = cls(err)
			break
		}
		if n > 1<<20 {
			end = lib.Sym("runaway")
			break
		}
		es = append(es, e)
	}
	if byOffset {
		// sort.Sort is not stable: canonicalise runs of equal offsets (only possible in corrupt files)
		for i := 0; i < len(es); {
			j := i
			for j < len(es) && es[j].Offset == es[i].Offset {
				j++
			}
			run := es[i:j]
			sort.SliceStable(run, func(a, b int) bool { return bytes.Compare(run[a].Hash.Bytes(), run[b].Hash.Bytes()) < 0 })
			i = j
		}
	}
	if len(es) > maxListed {
		// long listings are compared through a digest of (id, offset, crc) triples
		h := sha1.New()
		for _, e := range es {
			if c, _ := plumbing.FromBytes(e.Hash.Bytes()); e.Hash != c {
				h.Write([]byte("noncanonical"))
			}
			h.Write(e.Hash.Bytes())
			var b [12]byte
			binary.BigEndian.PutUint64(b[:8], e.Offset)
			binary.BigEndian.PutUint32(b[8:], e.CRC32)
			h.Write(b[:])
		}
		return lib.List(lib.Int(int64(len(es))), lib.Bytes(h.Sum(nil)), end)
	}
	var out []lib.Out
	for _, e := range es {
		out = append(out, entryOut(e))
	}
	out = append(out, end)
	return lib.List(out...)
}

const maxListed = 12

// ---- queries

type query struct {
	q string
	h plumbing.Hash
	o int64
	u uint64
	p []byte
}

func parseQueries(c lib.Case) []query {
	var qs []query
	for _, x := range c.L("queries") {
		m := lib.AsCase(x)
		q := query{q: m.S("q")}
		if hb := m.S("h"); hb != "" {
			q.h, _ = mkHash(lib.Unhex(hb))
		}
		if o := m.S("o"); o != "" {
			q.u, _ = strconv.ParseUint(o, 10, 64)
			q.o = int64(q.u)
		}
		q.p = lib.Unhex(m.S("p"))
		qs = append(qs, q)
	}
	return qs
}

func askIndex(ix idxfile.Index, qs []query) lib.Out {
	var out []lib.Out
	for _, q := range qs {
		var r lib.Out
		switch q.q {
		case "contains":
			ok, err := ix.Contains(q.h)
			if err != nil {
				r = cls(err)
			} else {
				r = lib.Bool(ok)
			}
		case "may":
			r = lib.Bool(ix.MayContain(q.h))
		case "offset":
			o, err := ix.FindOffset(q.h)
			if err != nil {
				r = cls(err)
			} else {
				r = lib.Ok(lib.Int(o))
			}
		case "crc":
			v, err := ix.FindCRC32(q.h)
			if err != nil {
				r = cls(err)
			} else {
				r = lib.Ok(lib.Uint(uint64(v)))
			}
		case "findhash":
			h, err := ix.FindHash(q.o)
			if err != nil {
				r = cls(err)
			} else {
				r = lib.Ok(canon(h))
			}
		case "count":
			n, err := ix.Count()
			if err != nil {
				r = cls(err)
			} else {
				r = lib.Ok(lib.Int(n))
			}
		case "entries":
			it, err := ix.Entries()
			r = drain(it, err, false)
		case "byoffset":
			it, err := ix.EntriesByOffset()
			r = drain(it, err, true)
		case "prefix":
			it, err := ix.EntriesWithPrefix(q.p)
			r = drain(it, err, false)
		default:
			r = lib.Sym("na")
		}
		out = append(out, r)
	}
	return lib.Ok(out...)
}

func askScanner(s *mmap.PackScanner, qs []query) lib.Out {
	var out []lib.Out
	for _, q := range qs {
		var r lib.Out
		switch q.q {
		case "offset":
			o, err := s.FindOffset(q.h)
			if err != nil {
				r = cls(err)
			} else {
				r = lib.Ok(lib.Int(int64(o)))
			}
		case "findhash":
			h, err := s.FindHash(q.u)
			if err != nil {
				r = cls(err)
			} else {
				r = lib.Ok(canon(h))
			}
		default:
			r = lib.Sym("na")
		}
		out = append(out, r)
	}
	return lib.Ok(out...)
}

var tmpDir string

func emptyPack(hs int) []byte {
	p := []byte("PACK\x00\x00\x00\x02\x00\x00\x00\x00")
	h := hasher(hs)
	h.Write(p)
	return h.Sum(p)
}

// readers runs the three readers on (idx, rev) bytes.
func readers(hs int, idxb, revb []byte, pack plumbing.Hash, qs []query) []lib.Out {
	var out []lib.Out
	// 1. MemoryIndex via Decoder
	m := idxfile.NewMemoryIndex(hs)
	if err := idxfile.NewDecoder(memInput{bytes.NewReader(idxb), int64(len(idxb))}, hasher(hs)).Decode(m); err != nil {
		out = append(out, lib.Err("reject"))
	} else {
		ans := askIndex(m, qs)
		// re-encoding what was decoded gives the bytes back
		var buf bytes.Buffer
		re := lib.Sym("reencode_err")
		m.IdxChecksum.ResetBySize(hs)
		if err := idxfile.Encode(&buf, hasher(hs), m); err == nil {
			re = lib.Bool(bytes.Equal(buf.Bytes(), idxb))
		}
		out = append(out, lib.List(lib.Sym("ok"), ans, re))
	}
	// 2. LazyIndex
	lz, err := idxfile.NewLazyIndex(opener(idxb), opener(revb), pack)
	if err != nil {
		out = append(out, lib.Err("reject"))
	} else {
		out = append(out, askIndex(lz, qs))
		lz.Close()
	}
	// 3. mmap.PackScanner (needs real files)
	if tmpDir == "" {
		tmpDir, _ = os.MkdirTemp("", "verif-c10-")
	}
	os.WriteFile(filepath.Join(tmpDir, "p.pack"), emptyPack(hs), 0o644)
	os.WriteFile(filepath.Join(tmpDir, "p.idx"), idxb, 0o644)
	os.WriteFile(filepath.Join(tmpDir, "p.rev"), revb, 0o644)
	bfs := osfs.New(tmpDir)
	pf, e1 := bfs.Open("p.pack")
	xf, e2 := bfs.Open("p.idx")
	rf, e3 := bfs.Open("p.rev")
	if e1 != nil || e2 != nil || e3 != nil {
		panic("harness: cannot open temp files")
	}
	sc, err := mmap.NewPackScanner(hs, pf, xf, rf)
	if err != nil {
		out = append(out, lib.Err("reject"))
		// NewPackScanner closes the files it mapped; close the rest (ignore errors)
		pf.Close()
		xf.Close()
		rf.Close()
	} else {
		func() {
			defer sc.Close()
			out = append(out, askScanner(sc, qs))
		}()
	}
	return out
}

func main() {
	defer func() {
		if tmpDir != "" {
			os.RemoveAll(tmpDir)
		}
	}()
	lib.Main(func(c lib.Case) (lib.Out, any) {
		hs := int(c.I("hs"))
		switch c.S("kind") {
		case "build":
			w := new(idxfile.Writer)
			ents := c.L("entries")
			w.OnHeader(uint32(len(ents)))
			for _, x := range ents {
				m := lib.AsCase(x)
				h, ok := mkHash(m.B("h"))
				if !ok {
					panic("harness: bad hash length")
				}
				w.Add(h, m.U("o"), uint32(m.U("c")))
			}
			pack, _ := mkHash(c.B("pack"))
			if err := w.OnFooter(pack); err != nil {
				return lib.Err("create"), nil
			}
			idx, err := w.Index()
			if err != nil {
				return lib.Err("create"), nil
			}
			qs := parseQueries(c)
			var ib, rb bytes.Buffer
			if err := idxfile.Encode(&ib, hasher(hs), idx); err != nil {
				return lib.Err("encode"), nil
			}
			if err := revfile.Encode(&rb, hasher(hs), idx); err != nil {
				return lib.Err("revencode"), nil
			}
			// the trailing checksums stand for the files in the compared observable (they are the
			// digests of everything before them); the bytes themselves go to the oracle
			out := []lib.Out{lib.Bytes(ib.Bytes()[ib.Len()-hs:]), lib.Bytes(rb.Bytes()[rb.Len()-hs:]), askIndex(idx, qs)}
			out = append(out, readers(hs, ib.Bytes(), rb.Bytes(), pack, qs)...)
			return lib.Ok(out...), map[string]string{"idx": hex.EncodeToString(ib.Bytes()), "rev": hex.EncodeToString(rb.Bytes())}
		case "file":
			pack, _ := mkHash(c.B("pack"))
			return lib.Ok(readers(hs, c.B("idx"), c.B("rev"), pack, parseQueries(c))...), nil
		case "rev":
			pack, _ := mkHash(c.B("pack"))
			ch := make(chan uint32, 1<<16)
			var got []lib.Out
			done := make(chan struct{})
			go func() {
				for v := range ch {
					got = append(got, lib.Uint(uint64(v)))
				}
				close(done)
			}()
			err := revfile.Decode(bytes.NewReader(c.B("rev")), c.I("count"), pack, ch)
			<-done
			if err != nil {
				return lib.Err("reject"), nil
			}
			return lib.Ok(got...), nil
		}
		return lib.Sym("badcase"), nil
	})
}
