// c01: implementation side of the C01 correspondence (object IDs and loose
// objects).  Every case runs on a fresh in-memory filesystem; the loose file a
// write leaves behind is reported both inflated (compared with the model) and
// deflated (handed to the git binary by the python oracle).
package main

import (
	"bytes"
	"compress/zlib"
	"encoding/hex"
	"errors"
	"io"
	"os"
	"sort"
	"strings"

	"github.com/go-git/go-billy/v6"
	"github.com/go-git/go-billy/v6/memfs"
	"github.com/go-git/go-billy/v6/util"

	git "github.com/go-git/go-git/v6"
	"github.com/go-git/go-git/v6/plumbing"
	"github.com/go-git/go-git/v6/plumbing/cache"
	format "github.com/go-git/go-git/v6/plumbing/format/config"
	"github.com/go-git/go-git/v6/plumbing/format/objfile"
	"github.com/go-git/go-git/v6/storage/filesystem"
	"github.com/go-git/go-git/v6/storage/memory"

	"verif/harness/lib"
)

func objFormat(s string) format.ObjectFormat {
	if s == "sha256" {
		return format.SHA256
	}
	return format.SHA1
}

func otype(s string) plumbing.ObjectType {
	switch s {
	case "commit":
		return plumbing.CommitObject
	case "tree":
		return plumbing.TreeObject
	case "blob":
		return plumbing.BlobObject
	case "tag":
		return plumbing.TagObject
	case "ofs-delta":
		return plumbing.OFSDeltaObject
	case "ref-delta":
		return plumbing.REFDeltaObject
	case "any":
		return plumbing.AnyObject
	}
	return plumbing.InvalidObject
}

func errClass(err error) lib.Out {
	switch {
	case err == nil:
		return lib.Sym("noerr")
	case errors.Is(err, plumbing.ErrInvalidType):
		return lib.Err("invalid_type")
	case errors.Is(err, objfile.ErrNegativeSize):
		return lib.Err("negative_size")
	case errors.Is(err, objfile.ErrHeaderTooLong):
		return lib.Err("header_too_long")
	case errors.Is(err, objfile.ErrHeader):
		return lib.Err("header")
	case errors.Is(err, objfile.ErrOverflow):
		return lib.Err("overflow")
	case errors.Is(err, objfile.ErrClosed):
		return lib.Err("closed")
	case errors.Is(err, memory.ErrUnsupportedObjectType):
		return lib.Err("unsupported_type")
	}
	return lib.Err("other")
}

func idOut(h plumbing.Hash) lib.Out {
	if h.IsZero() {
		return lib.Sym("zero")
	}
	return lib.Bytes(h.Bytes())
}

func inflate(b []byte) ([]byte, error) {
	r, err := zlib.NewReader(bytes.NewReader(b))
	if err != nil {
		return nil, err
	}
	defer r.Close()
	return io.ReadAll(r)
}

// looseFiles lists objects/xx/yyyy files of a storage filesystem.
func looseFiles(fs billy.Filesystem) []string {
	var res []string
	dirs, err := fs.ReadDir("objects")
	if err != nil {
		return nil
	}
	for _, d := range dirs {
		if !d.IsDir() || len(d.Name()) != 2 {
			continue
		}
		if _, err := hex.DecodeString(d.Name()); err != nil {
			continue
		}
		files, _ := fs.ReadDir(fs.Join("objects", d.Name()))
		for _, f := range files {
			res = append(res, fs.Join("objects", d.Name(), f.Name()))
		}
	}
	sort.Strings(res)
	return res
}

func fileOut(fs billy.Filesystem, extra map[string]any) lib.Out {
	files := looseFiles(fs)
	if len(files) == 0 {
		return lib.Sym("nofile")
	}
	if len(files) > 1 {
		return lib.List(lib.Sym("files"), lib.Int(int64(len(files))))
	}
	raw, err := util.ReadFile(fs, files[0])
	if err != nil {
		return lib.Err("readfile")
	}
	name := strings.ReplaceAll(strings.TrimPrefix(files[0], "objects/"), "/", "")
	nb, _ := hex.DecodeString(name)
	extra["rel"] = files[0]
	extra["deflated"] = hex.EncodeToString(raw)
	inf, err := inflate(raw)
	if err != nil {
		return lib.List(lib.Sym("file"), lib.Bytes(nb), lib.Err("zlib"))
	}
	return lib.List(lib.Sym("file"), lib.Bytes(nb), lib.Bytes(inf))
}

func newFS(f format.ObjectFormat) (billy.Filesystem, *filesystem.Storage) {
	fs := memfs.New()
	st := filesystem.NewStorageWithOptions(fs, cache.NewObjectLRUDefault(), filesystem.Options{ObjectFormat: f})
	return fs, st
}

type hasher interface{ Hash() plumbing.Hash }

func doWrite(c lib.Case) (lib.Out, any) {
	entry := c.S("entry")
	f := objFormat(c.S("fmt"))
	t := otype(c.S("type"))
	size := c.I("size")
	var chunks [][]byte
	for _, s := range c.SL("chunks") {
		chunks = append(chunks, lib.Unhex(s))
	}
	all := bytes.Join(chunks, nil)
	extra := map[string]any{}
	res := func(id plumbing.Hash, err error, file lib.Out) lib.Out {
		return lib.List(lib.Sym("w"), idOut(id), errClass(err), file)
	}
	switch entry {
	case "compute":
		h, err := plumbing.FromObjectFormat(f).Compute(t, all)
		if err != nil {
			return lib.Err("compute"), nil
		}
		return lib.Bytes(h.Bytes()), nil
	case "hasher":
		h := plumbing.NewHasher(f, t, size)
		for _, ch := range chunks {
			h.Write(ch)
		}
		return lib.Bytes(h.Sum().Bytes()), nil
	case "raw", "lazy":
		fs, st := newFS(f)
		var w io.WriteCloser
		var err error
		if entry == "raw" {
			w, err = st.RawObjectWriter(t, size)
		} else {
			var wh func(plumbing.ObjectType, int64) error
			w, wh, err = st.LazyWriter()
			if err == nil {
				err = wh(t, size)
			}
		}
		if err != nil {
			// the writer is not closed: Close on a writer without a header is outside the model
			return res(plumbing.ZeroHash, err, fileOut(fs, extra)), extra
		}
		var werr error
		for _, ch := range chunks {
			if _, e := w.Write(ch); e != nil {
				werr = e
				break
			}
		}
		if e := w.Close(); e != nil {
			return lib.Err("close"), nil
		}
		id := w.(hasher).Hash()
		return res(id, werr, fileOut(fs, extra)), extra
	case "set_stale":
		fs, fst := newFS(f)
		o := fst.NewEncodedObject()
		o.SetType(t)
		if len(chunks) == 0 {
			return lib.Err("entry"), nil
		}
		o.SetSize(int64(len(chunks[0])))
		w, _ := o.Writer()
		w.Write(chunks[0])
		_ = o.Hash() // caches the hash
		for _, ch := range chunks[1:] {
			w.Write(ch)
		}
		w.Close()
		id, err := fst.SetEncodedObject(o)
		return res(id, err, fileOut(fs, extra)), extra
	case "set", "set_late", "mem", "mem_late":
		var o plumbing.EncodedObject
		var fs billy.Filesystem
		var fst *filesystem.Storage
		var mst *memory.Storage
		if strings.HasPrefix(entry, "set") {
			fs, fst = newFS(f)
			o = fst.NewEncodedObject()
		} else {
			mst = memory.NewStorage(memory.WithObjectFormat(f))
			o = mst.NewEncodedObject()
		}
		o.SetType(t)
		late := strings.HasSuffix(entry, "_late")
		if !late {
			o.SetSize(size)
		}
		w, _ := o.Writer()
		for _, ch := range chunks {
			w.Write(ch)
		}
		w.Close()
		if late {
			o.SetSize(size)
		}
		if fst != nil {
			id, err := fst.SetEncodedObject(o)
			return res(id, err, fileOut(fs, extra)), extra
		}
		id, err := mst.SetEncodedObject(o)
		// the stored object must be retrievable under the returned ID with the same bytes
		if err == nil && !id.IsZero() {
			got, gerr := mst.EncodedObject(plumbing.AnyObject, id)
			if gerr != nil {
				extra["mem_lookup"] = "missing"
			} else {
				r, _ := got.Reader()
				b, _ := io.ReadAll(r)
				extra["mem_lookup"] = got.Type().String() + " " + hex.EncodeToString(b)
			}
		}
		return res(id, err, lib.Sym("nofile")), extra
	case "add":
		fs := memfs.New()
		wt := memfs.New()
		st := filesystem.NewStorageWithOptions(fs, cache.NewObjectLRUDefault(), filesystem.Options{ObjectFormat: f})
		repo, err := git.Init(st, git.WithWorkTree(wt), git.WithObjectFormat(f))
		if err != nil {
			return lib.Err("init"), map[string]any{"error": err.Error()}
		}
		if err := util.WriteFile(wt, "f", all, 0o644); err != nil {
			return lib.Err("writefile"), nil
		}
		w, err := repo.Worktree()
		if err != nil {
			return lib.Err("worktree"), nil
		}
		id, err := w.Add("f")
		return res(id, err, fileOut(fs, extra)), extra
	}
	return lib.Err("entry"), nil
}

func doRead(c lib.Case) (lib.Out, any) {
	f := objFormat(c.S("fmt"))
	loose := c.B("loose")
	extra := map[string]any{}
	// (b) through the storage, under the name git gave the file
	if oid := c.S("oid"); oid != "" {
		fs, st := newFS(f)
		p := fs.Join("objects", oid[:2], oid[2:])
		if err := util.WriteFile(fs, p, loose, 0o444); err == nil {
			h, ok := plumbing.FromHex(oid)
			if !ok {
				extra["st_err"] = "bad oid"
			} else if o, err := st.EncodedObject(plumbing.AnyObject, h); err != nil {
				extra["st_err"] = err.Error()
			} else {
				r, _ := o.Reader()
				b, _ := io.ReadAll(r)
				r.Close()
				extra["st_type"] = o.Type().String()
				extra["st_size"] = o.Size()
				extra["st_content"] = hex.EncodeToString(b)
				extra["st_hash"] = o.Hash().String()
			}
		}
	}
	// (a) objfile.Reader on the deflated bytes
	r, err := objfile.NewReader(bytes.NewReader(loose), f)
	if err != nil {
		return lib.Err("zlib"), extra
	}
	defer r.Close()
	t, size, err := r.Header()
	if err != nil {
		return errClass(err), extra
	}
	content, err := io.ReadAll(r)
	if err != nil {
		return lib.Err("read"), extra
	}
	return lib.Ok(lib.Bytes(t.Bytes()), lib.Int(size), lib.Bytes(content), lib.Bytes(r.Hash().Bytes())), extra
}

func main() {
	_ = os.Stderr
	lib.Main(func(c lib.Case) (lib.Out, any) {
		switch c.S("kind") {
		case "write":
			return doWrite(c)
		case "read":
			return doRead(c)
		}
		return lib.Err("kind"), nil
	})
}
