// c01: implementation side of the C01 correspondence (object IDs and loose
// objects).  Every case runs on a fresh in-memory filesystem; the loose file a
// write leaves behind is reported both inflated (compared with the model) and
// deflated (handed to the git binary by the python oracle).
package main

import (
	"bytes"
	"compress/zlib"
	"encoding/hex"
	"errors"
	"io"
	"os"
	"os/exec"
	"path/filepath"
	"sort"
	"strings"

	"github.com/go-git/go-billy/v6"
	"github.com/go-git/go-billy/v6/memfs"
	"github.com/go-git/go-billy/v6/osfs"
	"github.com/go-git/go-billy/v6/util"

	git "github.com/go-git/go-git/v6"
	"github.com/go-git/go-git/v6/plumbing"
	"github.com/go-git/go-git/v6/plumbing/cache"
	format "github.com/go-git/go-git/v6/plumbing/format/config"
	"github.com/go-git/go-git/v6/plumbing/format/objfile"
	"github.com/go-git/go-git/v6/storage/filesystem"
	"github.com/go-git/go-git/v6/storage/memory"

	"verif/harness/lib"
)

func objFormat(s string) format.ObjectFormat {
	if s == "sha256" {
		return format.SHA256
	}
	return format.SHA1
}

func otype(s string) plumbing.ObjectType {
	switch s {
	case "commit":
		return plumbing.CommitObject
	case "tree":
		return plumbing.TreeObject
	case "blob":
		return plumbing.BlobObject
	case "tag":
		return plumbing.TagObject
	case "ofs-delta":
		return plumbing.OFSDeltaObject
	case "ref-delta":
		return plumbing.REFDeltaObject
	case "any":
		return plumbing.AnyObject
	}
	return plumbing.InvalidObject
}

func errClass(err error) lib.Out {
	switch {
	case err == nil:
		return lib.Sym("noerr")
	case errors.Is(err, plumbing.ErrInvalidType):
		return lib.Err("invalid_type")
	case errors.Is(err, objfile.ErrNegativeSize):
		return lib.Err("negative_size")
	case errors.Is(err, objfile.ErrHeaderTooLong):
		return lib.Err("header_too_long")
	case errors.Is(err, objfile.ErrHeader):
		return lib.Err("header")
	case errors.Is(err, objfile.ErrOverflow):
		return lib.Err("overflow")
	case errors.Is(err, objfile.ErrClosed):
		return lib.Err("closed")
	case errors.Is(err, memory.ErrUnsupportedObjectType):
		return lib.Err("unsupported_type")
	}
	return lib.Err("other")
}

func idOut(h plumbing.Hash) lib.Out {
	if h.IsZero() {
		return lib.Sym("zero")
	}
	return lib.Bytes(h.Bytes())
}

func inflate(b []byte) ([]byte, error) {
	r, err := zlib.NewReader(bytes.NewReader(b))
	if err != nil {
		return nil, err
	}
	defer r.Close()
	return io.ReadAll(r)
}

// looseFiles lists objects/xx/yyyy files of a storage filesystem.
func looseFiles(fs billy.Filesystem) []string {
	var res []string
	dirs, err := fs.ReadDir("objects")
	if err != nil {
		return nil
	}
	for _, d := range dirs {
		if !d.IsDir() || len(d.Name()) != 2 {
			continue
		}
		if _, err := hex.DecodeString(d.Name()); err != nil {
			continue
		}
		files, _ := fs.ReadDir(fs.Join("objects", d.Name()))
		for _, f := range files {
			res = append(res, fs.Join("objects", d.Name(), f.Name()))
		}
	}
	sort.Strings(res)
	return res
}

func fileOut(fs billy.Filesystem, extra map[string]any) lib.Out {
	files := looseFiles(fs)
	if len(files) == 0 {
		return lib.Sym("nofile")
	}
	if len(files) > 1 {
		return lib.List(lib.Sym("files"), lib.Int(int64(len(files))))
	}
	raw, err := util.ReadFile(fs, files[0])
	if err != nil {
		return lib.Err("readfile")
	}
	name := strings.ReplaceAll(strings.TrimPrefix(files[0], "objects/"), "/", "")
	nb, _ := hex.DecodeString(name)
	extra["rel"] = files[0]
	extra["deflated"] = hex.EncodeToString(raw)
	inf, err := inflate(raw)
	if err != nil {
		return lib.List(lib.Sym("file"), lib.Bytes(nb), lib.Err("zlib"))
	}
	return lib.List(lib.Sym("file"), lib.Bytes(nb), lib.Bytes(inf))
}

func newFS(f format.ObjectFormat) (billy.Filesystem, *filesystem.Storage) {
	fs := memfs.New()
	st := filesystem.NewStorageWithOptions(fs, cache.NewObjectLRUDefault(), filesystem.Options{ObjectFormat: f})
	return fs, st
}

// cfgFormat: "" = unset, "sha1", "sha256"
func cfgFormat(s string) format.ObjectFormat {
	switch s {
	case "sha1":
		return format.SHA1
	case "sha256":
		return format.SHA256
	}
	return format.UnsetObjectFormat
}

// history of a storage: constructor option, optional pre-existing config file,
// SetObjectFormat calls.  Cases without a "ctor" field: format fixed at construction.
type history struct {
	ctor    format.ObjectFormat
	cfgfile string // "none" or the objectformat the file carries ("" = file without one)
	switches []format.ObjectFormat
}

func historyOf(c lib.Case) history {
	if _, ok := c["ctor"]; !ok {
		return history{ctor: objFormat(c.S("fmt")), cfgfile: "none"}
	}
	h := history{ctor: cfgFormat(c.S("ctor")), cfgfile: c.S("cfgfile")}
	if h.cfgfile == "" {
		if _, ok := c["cfgfile"]; !ok {
			h.cfgfile = "none"
		}
	}
	for _, s := range c.SL("switch") {
		h.switches = append(h.switches, cfgFormat(s))
	}
	return h
}

func (h history) newFS() (billy.Filesystem, *filesystem.Storage) {
	fs := memfs.New()
	if h.cfgfile != "none" {
		txt := "[core]\n\tbare = true\n"
		if h.cfgfile != "" {
			txt = "[core]\n\trepositoryformatversion = 1\n\tbare = true\n[extensions]\n\tobjectformat = " + h.cfgfile + "\n"
		}
		util.WriteFile(fs, "config", []byte(txt), 0o644)
	}
	st := filesystem.NewStorageWithOptions(fs, cache.NewObjectLRUDefault(), filesystem.Options{ObjectFormat: h.ctor})
	return fs, st
}

// the run-time switch (what a clone of a SHA-256 remote does); errors (invalid
// format) leave the storage as it is
func (h history) apply(set func(format.ObjectFormat) error) {
	for _, of := range h.switches {
		_ = set(of)
	}
}

func (h history) newMem() *memory.Storage {
	var st *memory.Storage
	if h.ctor == format.UnsetObjectFormat {
		st = memory.NewStorage()
	} else {
		st = memory.NewStorage(memory.WithObjectFormat(h.ctor))
	}
	h.apply(st.SetObjectFormat)
	return st
}

type hasher interface{ Hash() plumbing.Hash }

// a SHA-1 or SHA-256 repository made by the git binary, cloned in-process
func cloneRepo(f format.ObjectFormat) (*git.Repository, string, func(), error) {
	tmp, err := os.MkdirTemp("", "verif-c01-clone-")
	if err != nil {
		return nil, "", nil, err
	}
	cleanup := func() { os.RemoveAll(tmp) }
	src := filepath.Join(tmp, "src")
	os.MkdirAll(src, 0o755)
	run := func(args ...string) error {
		cmd := exec.Command("/usr/bin/git", args...)
		cmd.Dir = src
		cmd.Env = append(os.Environ(), "GIT_CONFIG_NOSYSTEM=1", "GIT_CONFIG_GLOBAL=/dev/null", "HOME=/nonexistent",
			"GIT_AUTHOR_NAME=v", "GIT_AUTHOR_EMAIL=v@v", "GIT_COMMITTER_NAME=v", "GIT_COMMITTER_EMAIL=v@v",
			"GIT_AUTHOR_DATE=1700000000 +0000", "GIT_COMMITTER_DATE=1700000000 +0000")
		if out, err := cmd.CombinedOutput(); err != nil {
			return errors.New("git " + strings.Join(args, " ") + ": " + string(out))
		}
		return nil
	}
	of := "sha1"
	if f == format.SHA256 {
		of = "sha256"
	}
	if err := run("init", "-q", "--object-format="+of, "-b", "main", "."); err != nil {
		cleanup()
		return nil, "", nil, err
	}
	os.WriteFile(filepath.Join(src, "seed.txt"), []byte("seed\n"), 0o644)
	if err := run("add", "seed.txt"); err == nil {
		err = run("commit", "-q", "-m", "seed")
	}
	dst := filepath.Join(tmp, "dst")
	r, err := git.PlainClone(dst, &git.CloneOptions{URL: src})
	if err != nil {
		cleanup()
		return nil, "", nil, err
	}
	return r, dst, cleanup, nil
}

func doWrite(c lib.Case) (lib.Out, any) {
	entry := c.S("entry")
	f := objFormat(c.S("fmt"))
	t := otype(c.S("type"))
	size := c.I("size")
	var chunks [][]byte
	for _, s := range c.SL("chunks") {
		chunks = append(chunks, lib.Unhex(s))
	}
	all := bytes.Join(chunks, nil)
	extra := map[string]any{}
	res := func(id plumbing.Hash, err error, file lib.Out) lib.Out {
		return lib.List(lib.Sym("w"), idOut(id), errClass(err), file)
	}
	switch entry {
	case "compute":
		h, err := plumbing.FromObjectFormat(f).Compute(t, all)
		if err != nil {
			return lib.Err("compute"), nil
		}
		return lib.Bytes(h.Bytes()), nil
	case "hasher":
		h := plumbing.NewHasher(f, t, size)
		for _, ch := range chunks {
			h.Write(ch)
		}
		return lib.Bytes(h.Sum().Bytes()), nil
	case "raw", "lazy", "clone_raw", "clone_lazy":
		var fs billy.Filesystem
		var st *filesystem.Storage
		if strings.HasPrefix(entry, "clone_") {
			r, dst, cleanup, err := cloneRepo(f)
			if err != nil {
				return lib.Err("clone"), map[string]any{"error": err.Error()}
			}
			defer cleanup()
			fs = osfs.New(filepath.Join(dst, ".git"))
			st = r.Storer.(*filesystem.Storage)
			entry = strings.TrimPrefix(entry, "clone_")
		} else {
			h := historyOf(c)
			fs, st = h.newFS()
			h.apply(st.SetObjectFormat)
		}
		var w io.WriteCloser
		var err error
		if entry == "raw" {
			w, err = st.RawObjectWriter(t, size)
		} else {
			var wh func(plumbing.ObjectType, int64) error
			w, wh, err = st.LazyWriter()
			if err == nil {
				err = wh(t, size)
			}
		}
		if err != nil {
			// the writer is not closed: Close on a writer without a header is outside the model
			return res(plumbing.ZeroHash, err, fileOut(fs, extra)), extra
		}
		var werr error
		for _, ch := range chunks {
			if _, e := w.Write(ch); e != nil {
				werr = e
				break
			}
		}
		if e := w.Close(); e != nil {
			return lib.Err("close"), nil
		}
		id := w.(hasher).Hash()
		return res(id, werr, fileOut(fs, extra)), extra
	case "set_stale":
		fs, fst := newFS(f)
		o := fst.NewEncodedObject()
		o.SetType(t)
		if len(chunks) == 0 {
			return lib.Err("entry"), nil
		}
		o.SetSize(int64(len(chunks[0])))
		w, _ := o.Writer()
		w.Write(chunks[0])
		_ = o.Hash() // caches the hash
		for _, ch := range chunks[1:] {
			w.Write(ch)
		}
		w.Close()
		id, err := fst.SetEncodedObject(o)
		return res(id, err, fileOut(fs, extra)), extra
	case "set", "set_late", "mem", "mem_late", "clone_set":
		var o plumbing.EncodedObject
		var fs billy.Filesystem
		var fst *filesystem.Storage
		var mst *memory.Storage
		if entry == "clone_set" {
			r, dst, cleanup, err := cloneRepo(f)
			if err != nil {
				return lib.Err("clone"), map[string]any{"error": err.Error()}
			}
			defer cleanup()
			fs = osfs.New(filepath.Join(dst, ".git"))
			fst = r.Storer.(*filesystem.Storage)
			o = fst.NewEncodedObject()
			entry = "set"
		} else if strings.HasPrefix(entry, "set") {
			h := historyOf(c)
			fs, fst = h.newFS()
			h.apply(fst.SetObjectFormat)
			o = fst.NewEncodedObject()
		} else {
			mst = historyOf(c).newMem()
			o = mst.NewEncodedObject()
		}
		o.SetType(t)
		late := strings.HasSuffix(entry, "_late")
		if !late {
			o.SetSize(size)
		}
		w, _ := o.Writer()
		for _, ch := range chunks {
			w.Write(ch)
		}
		w.Close()
		if late {
			o.SetSize(size)
		}
		if fst != nil {
			id, err := fst.SetEncodedObject(o)
			return res(id, err, fileOut(fs, extra)), extra
		}
		id, err := mst.SetEncodedObject(o)
		// the stored object must be retrievable under the returned ID with the same bytes
		if err == nil && !id.IsZero() {
			got, gerr := mst.EncodedObject(plumbing.AnyObject, id)
			if gerr != nil {
				extra["mem_lookup"] = "missing"
			} else {
				r, _ := got.Reader()
				b, _ := io.ReadAll(r)
				extra["mem_lookup"] = got.Type().String() + " " + hex.EncodeToString(b)
			}
		}
		return res(id, err, lib.Sym("nofile")), extra
	case "clone_add":
		repo, dst, cleanup, err := cloneRepo(f)
		if err != nil {
			return lib.Err("clone"), map[string]any{"error": err.Error()}
		}
		defer cleanup()
		if err := os.WriteFile(filepath.Join(dst, "f"), all, 0o644); err != nil {
			return lib.Err("writefile"), nil
		}
		w, err := repo.Worktree()
		if err != nil {
			return lib.Err("worktree"), nil
		}
		id, err := w.Add("f")
		return res(id, err, fileOut(osfs.New(filepath.Join(dst, ".git")), extra)), extra
	case "add":
		h := historyOf(c)
		fs, st := h.newFS()
		wt := memfs.New()
		repo, err := git.Init(st, git.WithWorkTree(wt))
		if err != nil {
			return lib.Err("init"), map[string]any{"error": err.Error()}
		}
		h.apply(st.SetObjectFormat) // after Init, like the clone path
		if err := util.WriteFile(wt, "f", all, 0o644); err != nil {
			return lib.Err("writefile"), nil
		}
		w, err := repo.Worktree()
		if err != nil {
			return lib.Err("worktree"), nil
		}
		id, err := w.Add("f")
		return res(id, err, fileOut(fs, extra)), extra
	}
	return lib.Err("entry"), nil
}

func doRead(c lib.Case) (lib.Out, any) {
	f := objFormat(c.S("fmt"))
	loose := c.B("loose")
	extra := map[string]any{}
	// (b) through the storage, under the name git gave the file
	if oid := c.S("oid"); oid != "" {
		fs, st := newFS(f)
		p := fs.Join("objects", oid[:2], oid[2:])
		if err := util.WriteFile(fs, p, loose, 0o444); err == nil {
			h, ok := plumbing.FromHex(oid)
			if !ok {
				extra["st_err"] = "bad oid"
			} else if o, err := st.EncodedObject(plumbing.AnyObject, h); err != nil {
				extra["st_err"] = err.Error()
			} else {
				r, _ := o.Reader()
				b, _ := io.ReadAll(r)
				r.Close()
				extra["st_type"] = o.Type().String()
				extra["st_size"] = o.Size()
				extra["st_content"] = hex.EncodeToString(b)
				extra["st_hash"] = o.Hash().String()
			}
		}
	}
	// (a) objfile.Reader on the deflated bytes
	r, err := objfile.NewReader(bytes.NewReader(loose), f)
	if err != nil {
		return lib.Err("zlib"), extra
	}
	defer r.Close()
	t, size, err := r.Header()
	if err != nil {
		return errClass(err), extra
	}
	content, err := io.ReadAll(r)
	if err != nil {
		return lib.Err("read"), extra
	}
	return lib.Ok(lib.Bytes(t.Bytes()), lib.Int(size), lib.Bytes(content), lib.Bytes(r.Hash().Bytes())), extra
}

func main() {
	_ = os.Stderr
	lib.Main(func(c lib.Case) (lib.Out, any) {
		switch c.S("kind") {
		case "write":
			return doWrite(c)
		case "read":
			return doRead(c)
		}
		return lib.Err("kind"), nil
	})
}
