// c22: implementation side of the C22 correspondence (Repository.Prune /
// Repository.RepackObjects keep every object reachable from refs, HEAD and the
// index).  A case describes a repository abstractly (objects with numeric
// ids referencing lower ids, where each object is stored, refs, HEAD, shallow,
// index); the harness materialises it in a scratch directory with go-git's
// own writers, runs the operation on a freshly opened repository, and reports
// what is left (by id) as seen by a freshly opened storage.
package main

import (
	"crypto"
	"crypto/sha1"
	"encoding/hex"
	"errors"
	"fmt"
	"io"
	"os"
	"os/exec"
	"path/filepath"
	"sort"
	"strconv"
	"strings"


	git "github.com/go-git/go-git/v6"
	"github.com/go-git/go-git/v6/plumbing"
	"github.com/go-git/go-git/v6/plumbing/format/idxfile"
	ghash "github.com/go-git/go-git/v6/plumbing/hash"
	"github.com/go-git/go-git/v6/storage/filesystem"

	"verif/harness/b11repo"
	"verif/harness/lib"
)

type objDesc = b11repo.Obj

var must = b11repo.Must

func openStorage(dir string, exclusive bool) *filesystem.Storage { return b11repo.Open(dir, exclusive) }

type snapshot struct {
	loose, packed []int
	digest        map[int]string // id -> type:sha1(content) of what a fresh storage reads
}

func snap(dir string, objs []*objDesc) snapshot {
	st := openStorage(dir, false)
	defer st.Close()
	byHash := map[plumbing.Hash]int{}
	for i, d := range objs {
		byHash[d.Hash] = i
	}
	s := snapshot{digest: map[int]string{}}
	looseSet := map[int]bool{}
	must(st.ForEachObjectHash(func(h plumbing.Hash) error {
		if i, ok := byHash[h]; ok {
			looseSet[i] = true
		} else {
			looseSet[-1] = true
		}
		return nil
	}))
	packedSet := map[int]bool{}
	packs, err := st.ObjectPacks()
	must(err)
	for _, p := range packs {
		f, err := os.Open(filepath.Join(dir, "objects", "pack", "pack-"+p.String()+".idx"))
		if err != nil {
			packedSet[-2] = true
			continue
		}
		idx := idxfile.NewMemoryIndex(len(p.Bytes()))
		err = idxfile.NewDecoder(f, ghash.New(crypto.SHA1)).Decode(idx)
		f.Close()
		if err != nil {
			packedSet[-3] = true
			continue
		}
		n := 0
		for i, d := range objs {
			if ok, err := idx.Contains(d.Hash); err == nil && ok {
				packedSet[i] = true
				n++
			}
		}
		if cnt, err := idx.Count(); err != nil || int(cnt) != n {
			packedSet[-1] = true
		}
	}
	for i := range looseSet {
		s.loose = append(s.loose, i)
	}
	for i := range packedSet {
		s.packed = append(s.packed, i)
	}
	sort.Ints(s.loose)
	sort.Ints(s.packed)
	for i, d := range objs {
		o, err := st.EncodedObject(plumbing.AnyObject, d.Hash)
		if err != nil {
			continue
		}
		r, err := o.Reader()
		if err != nil {
			s.digest[i] = "unreadable"
			continue
		}
		b, err := io.ReadAll(r)
		r.Close()
		if err != nil {
			s.digest[i] = "unreadable"
			continue
		}
		sum := sha1.Sum(b)
		s.digest[i] = o.Type().String() + ":" + hex.EncodeToString(sum[:])
	}
	return s
}

func ints(xs []int) lib.Out {
	var l []lib.Out
	for _, x := range xs {
		l = append(l, lib.Int(int64(x)))
	}
	return lib.List(l...)
}

func fsck(dir string) []string {
	cmd := exec.Command("git", "--git-dir", dir, "fsck", "--strict", "--no-dangling", "--no-progress")
	cmd.Env = append(os.Environ(), "GIT_CONFIG_NOSYSTEM=1", "HOME=/nonexistent", "LC_ALL=C")
	out, _ := cmd.CombinedOutput()
	var lines []string
	for _, l := range strings.Split(string(out), "\n") {
		if l != "" {
			lines = append(lines, l)
		}
	}
	sort.Strings(lines)
	return lines
}

func class(err error) string {
	msg := err.Error()
	switch {
	case strings.HasPrefix(msg, "getting object"), strings.HasPrefix(msg, "unknown object"):
		return "walk"
	case errors.Is(err, plumbing.ErrObjectNotFound):
		return "encode"
	default:
		return "other"
	}
}

func packNames(dir string) []string {
	m, _ := filepath.Glob(filepath.Join(dir, "objects", "pack", "pack-*.pack"))
	var r []string
	for _, p := range m {
		r = append(r, filepath.Base(p))
	}
	sort.Strings(r)
	return r
}

// rounds of the case: either the explicit history or the single operation of the old schema
func rounds(c lib.Case) []lib.Case {
	var rs []lib.Case
	for _, x := range c.L("rounds") {
		rs = append(rs, lib.AsCase(x))
	}
	if len(rs) == 0 {
		rs = append(rs, lib.Case{"op": c.S("op"), "threshold": c.Bool("threshold"), "refdeltas": c.Bool("refdeltas")})
	}
	return rs
}

func run(c lib.Case) (lib.Out, any) {
	dir, err := os.MkdirTemp("", "vc22-")
	must(err)
	if os.Getenv("C22_KEEP") == "" {
		defer os.RemoveAll(dir)
	} else {
		fmt.Fprintln(os.Stderr, "kept", dir)
	}
	objs, _ := b11repo.Build(dir, c)
	if _, ok := c["window"]; ok {
		st := openStorage(dir, false)
		cfg, err := st.Config()
		must(err)
		cfg.Pack.Window = uint(c.I("window"))
		must(st.SetConfig(cfg))
		st.Close()
	}

	var fsckBefore []string
	if c.Bool("fsck") {
		fsckBefore = fsck(dir)
	}
	var outs []lib.Out
	var rex []map[string]any
	var idxExtra []any
	for _, x := range c.L("index") {
		idxExtra = append(idxExtra, x)
	}
	for _, r := range rounds(c) {
		switch r.S("op") {
		case "add":
			st := openStorage(dir, false)
			_, err := st.SetEncodedObject(objs[r.I("obj")].Mem())
			must(err)
			st.Close()
			continue
		case "stage":
			st := openStorage(dir, false)
			idxExtra = append(idxExtra, map[string]any{"path": r.S("path"), "ref": r["obj"], "mode": "100644"})
			must(st.SetIndex(b11repo.Index(objs, idxExtra)))
			st.Close()
			continue
		}
		before := snap(dir, objs)
		packsBefore := packNames(dir)
		var roundFsckBefore []string
		if c.Bool("fsck") {
			roundFsckBefore = fsck(dir)
		}
		// the operation, on a freshly opened repository
		st2 := openStorage(dir, c.Bool("exclusive"))
		repo, err := git.Open(st2, nil)
		must(err)
		var opErr error
		switch r.S("op") {
		case "prune":
			opt := git.PruneOptions{Handler: repo.DeleteObject}
			if r.Bool("threshold") {
				opt.OnlyObjectsOlderThan = b11repo.Threshold
			}
			opErr = repo.Prune(opt)
		case "repack":
			cfg := &git.RepackConfig{UseRefDeltas: r.Bool("refdeltas")}
			if r.Bool("threshold") {
				cfg.OnlyDeletePacksOlderThan = b11repo.Threshold
			}
			opErr = repo.RepackObjects(cfg)
		default:
			panic("op")
		}
		st2.Close()
		after := snap(dir, objs)
		ex := map[string]any{"op": r.S("op"), "before": before.digest, "after": after.digest,
			"loose_after": after.loose, "packed_after": after.packed, "packs_before": packsBefore, "packs_after": packNames(dir)}
		if c.Bool("fsck") {
			ex["fsck_before"] = roundFsckBefore
			ex["fsck_after"] = fsck(dir)
		}
		if opErr != nil {
			ex["error"] = opErr.Error()
			outs = append(outs, lib.Err(class(opErr)))
		} else {
			outs = append(outs, lib.Ok(ints(after.loose), ints(after.packed)))
		}
		rex = append(rex, ex)
	}
	extra := map[string]any{"rounds": rex}
	if c.Bool("fsck") {
		extra["fsck_before"] = fsckBefore
	}
	hs := map[string]string{}
	for i, d := range objs {
		hs[strconv.Itoa(i)] = d.Hash.String()
	}
	extra["hashes"] = hs
	return lib.List(outs...), extra
}

func main() { b11repo.ParallelMain(run) }
