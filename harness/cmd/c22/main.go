// c22: implementation side of the C22 correspondence (Repository.Prune /
// Repository.RepackObjects keep every object reachable from refs, HEAD and the
// index).  A case describes a repository abstractly (objects with numeric
// ids referencing lower ids, where each object is stored, refs, HEAD, shallow,
// index); the harness materialises it in a scratch directory with go-git's
// own writers, runs the operation on a freshly opened repository, and reports
// what is left (by id) as seen by a freshly opened storage.
package main

import (
	"crypto"
	"crypto/sha1"
	"encoding/hex"
	"errors"
	"fmt"
	"io"
	"os"
	"os/exec"
	"path/filepath"
	"sort"
	"strconv"
	"strings"


	git "github.com/go-git/go-git/v6"
	"github.com/go-git/go-git/v6/plumbing"
	"github.com/go-git/go-git/v6/plumbing/format/idxfile"
	ghash "github.com/go-git/go-git/v6/plumbing/hash"
	"github.com/go-git/go-git/v6/storage/filesystem"

	"verif/harness/b11repo"
	"verif/harness/lib"
)

type objDesc = b11repo.Obj

var must = b11repo.Must

func openStorage(dir string, exclusive bool) *filesystem.Storage { return b11repo.Open(dir, exclusive) }

type snapshot struct {
	loose, packed []int
	digest        map[int]string // id -> type:sha1(content) of what a fresh storage reads
}

func snap(dir string, objs []*objDesc) snapshot {
	st := openStorage(dir, false)
	defer st.Close()
	byHash := map[plumbing.Hash]int{}
	for i, d := range objs {
		byHash[d.Hash] = i
	}
	s := snapshot{digest: map[int]string{}}
	looseSet := map[int]bool{}
	must(st.ForEachObjectHash(func(h plumbing.Hash) error {
		if i, ok := byHash[h]; ok {
			looseSet[i] = true
		} else {
			looseSet[-1] = true
		}
		return nil
	}))
	packedSet := map[int]bool{}
	packs, err := st.ObjectPacks()
	must(err)
	for _, p := range packs {
		f, err := os.Open(filepath.Join(dir, "objects", "pack", "pack-"+p.String()+".idx"))
		if err != nil {
			packedSet[-2] = true
			continue
		}
		idx := idxfile.NewMemoryIndex(len(p.Bytes()))
		err = idxfile.NewDecoder(f, ghash.New(crypto.SHA1)).Decode(idx)
		f.Close()
		if err != nil {
			packedSet[-3] = true
			continue
		}
		n := 0
		for i, d := range objs {
			if ok, err := idx.Contains(d.Hash); err == nil && ok {
				packedSet[i] = true
				n++
			}
		}
		if cnt, err := idx.Count(); err != nil || int(cnt) != n {
			packedSet[-1] = true
		}
	}
	for i := range looseSet {
		s.loose = append(s.loose, i)
	}
	for i := range packedSet {
		s.packed = append(s.packed, i)
	}
	sort.Ints(s.loose)
	sort.Ints(s.packed)
	for i, d := range objs {
		o, err := st.EncodedObject(plumbing.AnyObject, d.Hash)
		if err != nil {
			continue
		}
		r, err := o.Reader()
		if err != nil {
			s.digest[i] = "unreadable"
			continue
		}
		b, err := io.ReadAll(r)
		r.Close()
		if err != nil {
			s.digest[i] = "unreadable"
			continue
		}
		sum := sha1.Sum(b)
		s.digest[i] = o.Type().String() + ":" + hex.EncodeToString(sum[:])
	}
	return s
}

func ints(xs []int) lib.Out {
	var l []lib.Out
	for _, x := range xs {
		l = append(l, lib.Int(int64(x)))
	}
	return lib.List(l...)
}

func fsck(dir string) []string {
	cmd := exec.Command("git", "--git-dir", dir, "fsck", "--no-dangling", "--no-progress", "--connectivity-only")
	cmd.Env = append(os.Environ(), "GIT_CONFIG_NOSYSTEM=1", "HOME=/nonexistent", "LC_ALL=C")
	out, _ := cmd.CombinedOutput()
	var lines []string
	for _, l := range strings.Split(string(out), "\n") {
		if l != "" {
			lines = append(lines, l)
		}
	}
	sort.Strings(lines)
	return lines
}

func class(err error) string {
	msg := err.Error()
	switch {
	case strings.HasPrefix(msg, "getting object"), strings.HasPrefix(msg, "unknown object"):
		return "walk"
	case errors.Is(err, plumbing.ErrObjectNotFound):
		return "encode"
	default:
		return "other"
	}
}

func run(c lib.Case) (lib.Out, any) {
	dir, err := os.MkdirTemp("", "vc22-")
	must(err)
	if os.Getenv("C22_KEEP") == "" {
		defer os.RemoveAll(dir)
	} else {
		fmt.Fprintln(os.Stderr, "kept", dir)
	}
	objs, _ := b11repo.Build(dir, c)

	before := snap(dir, objs)
	var fsckBefore []string
	if c.Bool("fsck") {
		fsckBefore = fsck(dir)
	}

	// the operation, on a freshly opened repository
	st2 := openStorage(dir, c.Bool("exclusive"))
	repo, err := git.Open(st2, nil)
	must(err)
	var opErr error
	switch c.S("op") {
	case "prune":
		opt := git.PruneOptions{Handler: repo.DeleteObject}
		if c.Bool("threshold") {
			opt.OnlyObjectsOlderThan = b11repo.Threshold
		}
		opErr = repo.Prune(opt)
	case "repack":
		cfg := &git.RepackConfig{UseRefDeltas: c.Bool("refdeltas")}
		if c.Bool("threshold") {
			cfg.OnlyDeletePacksOlderThan = b11repo.Threshold
		}
		opErr = repo.RepackObjects(cfg)
	default:
		panic("op")
	}
	st2.Close()

	after := snap(dir, objs)
	extra := map[string]any{"before": before.digest, "after": after.digest,
		"loose_before": before.loose, "packed_before": before.packed, "loose_after": after.loose, "packed_after": after.packed}
	if c.Bool("fsck") {
		extra["fsck_before"] = fsckBefore
		extra["fsck_after"] = fsck(dir)
	}
	hs := map[string]string{}
	for i, d := range objs {
		hs[strconv.Itoa(i)] = d.Hash.String()
	}
	extra["hashes"] = hs
	if opErr != nil {
		extra["error"] = opErr.Error()
		return lib.Err(class(opErr)), extra
	}
	return lib.Ok(ints(after.loose), ints(after.packed)), extra
}

func main() { lib.Main(run) }
