// c22: implementation side of the C22 correspondence (Repository.Prune /
// Repository.RepackObjects keep every object reachable from refs, HEAD and the
// index).  A case describes a repository abstractly (objects with numeric
// ids referencing lower ids, where each object is stored, refs, HEAD, shallow,
// index); the harness materialises it in a scratch directory with go-git's
// own writers, runs the operation on a freshly opened repository, and reports
// what is left (by id) as seen by a freshly opened storage.
package main

import (
	"crypto"
	"crypto/sha1"
	"encoding/hex"
	"errors"
	"fmt"
	"io"
	"os"
	"os/exec"
	"path/filepath"
	"sort"
	"strconv"
	"strings"
	"time"

	"github.com/go-git/go-billy/v6/osfs"

	git "github.com/go-git/go-git/v6"
	"github.com/go-git/go-git/v6/plumbing"
	"github.com/go-git/go-git/v6/plumbing/cache"
	"github.com/go-git/go-git/v6/plumbing/filemode"
	"github.com/go-git/go-git/v6/plumbing/format/idxfile"
	ghash "github.com/go-git/go-git/v6/plumbing/hash"
	"github.com/go-git/go-git/v6/plumbing/format/index"
	"github.com/go-git/go-git/v6/plumbing/format/packfile"
	"github.com/go-git/go-git/v6/storage/filesystem"
	"github.com/go-git/go-git/v6/storage/memory"

	"verif/harness/lib"
)

var (
	oldTime   = time.Date(2001, 1, 1, 0, 0, 0, 0, time.UTC)
	threshold = time.Date(2010, 1, 1, 0, 0, 0, 0, time.UTC)
)

type objDesc struct {
	kind string
	at   []string
	old  bool
	hash plumbing.Hash
	raw  []byte
	typ  plumbing.ObjectType
}

func must(err error) {
	if err != nil {
		panic("harness: " + err.Error())
	}
}

func mkObjects(c lib.Case) []*objDesc {
	var objs []*objDesc
	for _, x := range c.L("objects") {
		o := lib.AsCase(x)
		d := &objDesc{kind: o.S("k"), at: o.SL("at"), old: o.Bool("old")}
		switch d.kind {
		case "blob":
			d.typ, d.raw = plumbing.BlobObject, o.B("data")
		case "tree":
			d.typ = plumbing.TreeObject
			for _, ex := range o.L("entries") {
				e := lib.AsCase(ex)
				d.raw = append(d.raw, []byte(e.S("mode")+" "+string(e.B("name"))+"\x00")...)
				d.raw = append(d.raw, objs[e.I("ref")].hash.Bytes()...)
			}
		case "commit":
			d.typ = plumbing.CommitObject
			s := "tree " + objs[o.I("tree")].hash.String() + "\n"
			for _, p := range o.L("parents") {
				n, _ := strconv.Atoi(fmt.Sprint(p))
				s += "parent " + objs[n].hash.String() + "\n"
			}
			s += "author A <a@example.org> 1000000000 +0000\ncommitter A <a@example.org> 1000000000 +0000\n\n" + o.S("msg") + "\n"
			d.raw = []byte(s)
		case "tag":
			d.typ = plumbing.TagObject
			t := objs[o.I("target")]
			d.raw = []byte("object " + t.hash.String() + "\ntype " + t.typ.String() + "\ntag " + o.S("msg") + "\ntagger A <a@example.org> 1000000000 +0000\n\nm\n")
		default:
			panic("object kind")
		}
		m := &plumbing.MemoryObject{}
		m.SetType(d.typ)
		m.Write(d.raw)
		d.hash = m.Hash()
		objs = append(objs, d)
	}
	return objs
}

func memObj(d *objDesc) plumbing.EncodedObject {
	m := &plumbing.MemoryObject{}
	m.SetType(d.typ)
	m.Write(d.raw)
	return m
}

func openStorage(dir string, exclusive bool) *filesystem.Storage {
	return filesystem.NewStorageWithOptions(osfs.New(dir), cache.NewObjectLRUDefault(), filesystem.Options{ExclusiveAccess: exclusive})
}

type snapshot struct {
	loose, packed []int
	digest        map[int]string // id -> type:sha1(content) of what a fresh storage reads
}

func snap(dir string, objs []*objDesc) snapshot {
	st := openStorage(dir, false)
	defer st.Close()
	byHash := map[plumbing.Hash]int{}
	for i, d := range objs {
		byHash[d.hash] = i
	}
	s := snapshot{digest: map[int]string{}}
	looseSet := map[int]bool{}
	must(st.ForEachObjectHash(func(h plumbing.Hash) error {
		if i, ok := byHash[h]; ok {
			looseSet[i] = true
		} else {
			looseSet[-1] = true
		}
		return nil
	}))
	packedSet := map[int]bool{}
	packs, err := st.ObjectPacks()
	must(err)
	for _, p := range packs {
		f, err := os.Open(filepath.Join(dir, "objects", "pack", "pack-"+p.String()+".idx"))
		if err != nil {
			packedSet[-2] = true
			continue
		}
		idx := idxfile.NewMemoryIndex(len(p.Bytes()))
		err = idxfile.NewDecoder(f, ghash.New(crypto.SHA1)).Decode(idx)
		f.Close()
		if err != nil {
			packedSet[-3] = true
			continue
		}
		n := 0
		for i, d := range objs {
			if ok, err := idx.Contains(d.hash); err == nil && ok {
				packedSet[i] = true
				n++
			}
		}
		if cnt, err := idx.Count(); err != nil || int(cnt) != n {
			packedSet[-1] = true
		}
	}
	for i := range looseSet {
		s.loose = append(s.loose, i)
	}
	for i := range packedSet {
		s.packed = append(s.packed, i)
	}
	sort.Ints(s.loose)
	sort.Ints(s.packed)
	for i, d := range objs {
		o, err := st.EncodedObject(plumbing.AnyObject, d.hash)
		if err != nil {
			continue
		}
		r, err := o.Reader()
		if err != nil {
			s.digest[i] = "unreadable"
			continue
		}
		b, err := io.ReadAll(r)
		r.Close()
		if err != nil {
			s.digest[i] = "unreadable"
			continue
		}
		sum := sha1.Sum(b)
		s.digest[i] = o.Type().String() + ":" + hex.EncodeToString(sum[:])
	}
	return s
}

func ints(xs []int) lib.Out {
	var l []lib.Out
	for _, x := range xs {
		l = append(l, lib.Int(int64(x)))
	}
	return lib.List(l...)
}

func fsck(dir string) []string {
	cmd := exec.Command("git", "--git-dir", dir, "fsck", "--no-dangling", "--no-progress", "--connectivity-only")
	cmd.Env = append(os.Environ(), "GIT_CONFIG_NOSYSTEM=1", "HOME=/nonexistent", "LC_ALL=C")
	out, _ := cmd.CombinedOutput()
	var lines []string
	for _, l := range strings.Split(string(out), "\n") {
		if l != "" {
			lines = append(lines, l)
		}
	}
	sort.Strings(lines)
	return lines
}

func class(err error) string {
	msg := err.Error()
	switch {
	case strings.HasPrefix(msg, "getting object"), strings.HasPrefix(msg, "unknown object"):
		return "walk"
	case errors.Is(err, plumbing.ErrObjectNotFound):
		return "encode"
	default:
		return "other"
	}
}

func run(c lib.Case) (lib.Out, any) {
	dir, err := os.MkdirTemp("", "vc22-")
	must(err)
	if os.Getenv("C22_KEEP") == "" {
		defer os.RemoveAll(dir)
	} else {
		fmt.Fprintln(os.Stderr, "kept", dir)
	}
	objs := mkObjects(c)
	st := openStorage(dir, false)
	must(st.Init())
	// everything goes to a memory storer first: source for the pack encoder
	mem := memory.NewStorage()
	for _, d := range objs {
		_, err := mem.SetEncodedObject(memObj(d))
		must(err)
	}
	// packs
	for _, px := range c.L("packs") {
		p := lib.AsCase(px)
		var hs []plumbing.Hash
		for _, d := range objs {
			for _, a := range d.at {
				if a == p.S("name") {
					hs = append(hs, d.hash)
				}
			}
		}
		if len(hs) == 0 {
			continue
		}
		var w io.WriteCloser
		if p.Bool("promisor") {
			w, err = st.PromisorPackfileWriter("")
		} else {
			w, err = st.PackfileWriter()
		}
		must(err)
		ph, err := packfile.NewEncoder(w, mem, false).Encode(hs, uint(p.I("window")))
		must(err)
		must(w.Close())
		if p.Bool("old") {
			must(os.Chtimes(filepath.Join(dir, "objects", "pack", "pack-"+ph.String()+".pack"), oldTime, oldTime))
		}
	}
	// loose objects
	for _, d := range objs {
		for _, a := range d.at {
			if a == "loose" {
				_, err := st.SetEncodedObject(memObj(d))
				must(err)
				if d.old {
					h := d.hash.String()
					must(os.Chtimes(filepath.Join(dir, "objects", h[:2], h[2:]), oldTime, oldTime))
				}
			}
		}
	}
	// refs, HEAD, shallow, index
	for _, rx := range c.L("refs") {
		r := lib.AsCase(rx)
		if s := r.S("sym"); s != "" {
			must(st.SetReference(plumbing.NewSymbolicReference(plumbing.ReferenceName(r.S("name")), plumbing.ReferenceName(s))))
		} else {
			must(st.SetReference(plumbing.NewHashReference(plumbing.ReferenceName(r.S("name")), objs[r.I("ref")].hash)))
		}
	}
	if h := c.M("head"); h != nil {
		if s := h.S("sym"); s != "" {
			must(st.SetReference(plumbing.NewSymbolicReference(plumbing.HEAD, plumbing.ReferenceName(s))))
		} else {
			must(st.SetReference(plumbing.NewHashReference(plumbing.HEAD, objs[h.I("ref")].hash)))
		}
	}
	var sh []plumbing.Hash
	for _, x := range c.L("shallow") {
		n, _ := strconv.Atoi(fmt.Sprint(x))
		sh = append(sh, objs[n].hash)
	}
	if len(sh) > 0 {
		must(st.SetShallow(sh))
	}
	if ix := c.L("index"); len(ix) > 0 {
		idx := &index.Index{Version: 2}
		for _, ex := range ix {
			e := lib.AsCase(ex)
			m, err := filemode.New(e.S("mode"))
			must(err)
			idx.Entries = append(idx.Entries, &index.Entry{Name: string(e.B("path")), Hash: objs[e.I("ref")].hash, Mode: m})
		}
		sort.Slice(idx.Entries, func(i, j int) bool { return idx.Entries[i].Name < idx.Entries[j].Name })
		must(st.SetIndex(idx))
	}
	must(st.Close())

	before := snap(dir, objs)
	var fsckBefore []string
	if c.Bool("fsck") {
		fsckBefore = fsck(dir)
	}

	// the operation, on a freshly opened repository
	st2 := openStorage(dir, c.Bool("exclusive"))
	repo, err := git.Open(st2, nil)
	must(err)
	var opErr error
	switch c.S("op") {
	case "prune":
		opt := git.PruneOptions{Handler: repo.DeleteObject}
		if c.Bool("threshold") {
			opt.OnlyObjectsOlderThan = threshold
		}
		opErr = repo.Prune(opt)
	case "repack":
		cfg := &git.RepackConfig{UseRefDeltas: c.Bool("refdeltas")}
		if c.Bool("threshold") {
			cfg.OnlyDeletePacksOlderThan = threshold
		}
		opErr = repo.RepackObjects(cfg)
	default:
		panic("op")
	}
	st2.Close()

	after := snap(dir, objs)
	extra := map[string]any{"before": before.digest, "after": after.digest,
		"loose_before": before.loose, "packed_before": before.packed, "loose_after": after.loose, "packed_after": after.packed}
	if c.Bool("fsck") {
		extra["fsck_before"] = fsckBefore
		extra["fsck_after"] = fsck(dir)
	}
	hs := map[string]string{}
	for i, d := range objs {
		hs[strconv.Itoa(i)] = d.hash.String()
	}
	extra["hashes"] = hs
	if opErr != nil {
		extra["error"] = opErr.Error()
		return lib.Err(class(opErr)), extra
	}
	return lib.Ok(ints(after.loose), ints(after.packed)), extra
}

func main() { lib.Main(run) }
