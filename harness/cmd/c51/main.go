// c51: implementation side of the C51 correspondence: commit-graph encoder
// (MemoryIndex + Encoder.Encode) and reader (OpenFileIndex[WithParent],
// GetCommitDataByIndex, GetHashByIndex, GetIndexByHash).
package main

import (
	"bytes"
	"crypto/sha1"
	"encoding/hex"
	"errors"
	"time"

	"github.com/go-git/go-git/v6/plumbing"
	cg "github.com/go-git/go-git/v6/plumbing/format/commitgraph"

	"verif/harness/lib"
)

type rac struct{ *bytes.Reader }

func (rac) Close() error { return nil }

func class(err error) string {
	switch {
	case errors.Is(err, cg.ErrMalformedCommitGraphFile):
		return "malformed"
	case errors.Is(err, cg.ErrUnsupportedVersion):
		return "version"
	case errors.Is(err, cg.ErrUnsupportedHash):
		return "hash"
	case errors.Is(err, plumbing.ErrObjectNotFound):
		return "notfound"
	}
	return "io"
}

func hashOf(s string) plumbing.Hash {
	h, ok := plumbing.FromHex(s)
	if !ok {
		panic("harness: bad hash " + s)
	}
	return h
}

func cdOut(d *cg.CommitData, err error) lib.Out {
	if err != nil {
		return lib.Err(class(err))
	}
	var pi, ph []lib.Out
	for _, i := range d.ParentIndexes {
		pi = append(pi, lib.Uint(uint64(i)))
	}
	for _, h := range d.ParentHashes {
		ph = append(ph, lib.Bytes(h.Bytes()))
	}
	return lib.List(lib.Bytes(d.TreeHash.Bytes()), lib.List(pi...), lib.List(ph...),
		lib.Uint(d.Generation), lib.Uint(d.GenerationV2), lib.Int(d.When.Unix()))
}

func dump(idx cg.Index, base uint32, cap int) lib.Out {
	n := int(idx.MaximumNumberOfHashes() - base)
	m := n
	if m > cap {
		m = cap
	}
	var cds, hs []lib.Out
	for i := 0; i < m; i++ {
		cds = append(cds, cdOut(idx.GetCommitDataByIndex(base+uint32(i))))
	}
	for i := 0; i < m; i++ {
		h, err := idx.GetHashByIndex(base + uint32(i))
		if err != nil {
			hs = append(hs, lib.Err(class(err)))
			continue
		}
		j, err := idx.GetIndexByHash(h)
		if err != nil {
			hs = append(hs, lib.List(lib.Bytes(h.Bytes()), lib.Err(class(err))))
		} else {
			hs = append(hs, lib.List(lib.Bytes(h.Bytes()), lib.Uint(uint64(j))))
		}
	}
	return lib.Ok(lib.Bool(idx.HasGenerationV2()), lib.Int(int64(n)), lib.List(cds...), lib.List(hs...))
}

func openDump(file []byte) lib.Out {
	idx, err := cg.OpenFileIndex(rac{bytes.NewReader(file)})
	if err != nil {
		return lib.Err(class(err))
	}
	return dump(idx, 0, 64)
}

// compact replaces a long observable by the length and a polynomial hash of
// its canonical text (mirrors Model/CommitGraph.v compact).
func compact(o lib.Out) lib.Out {
	s := lib.Render(o)
	if len(s) <= 300 {
		return o
	}
	const mask = uint64(2305843009213693951) // 2^61 - 1
	h := uint64(0)
	for i := 0; i < len(s); i++ {
		h = (h*1000003 + uint64(s[i]) + 1) & mask
	}
	return lib.List(lib.Sym("digest"), lib.Int(int64(len(s))), lib.Uint(h))
}

// rle renders bytes as runs of equal 4-byte words: ( ( count xword ) ... )
func rle(b []byte) lib.Out {
	var out []lib.Out
	var prev []byte
	n := uint64(0)
	flush := func() {
		if n > 0 {
			out = append(out, lib.List(lib.Uint(n), lib.Bytes(prev)))
		}
	}
	for i := 0; i < len(b); i += 4 {
		j := i + 4
		if j > len(b) {
			j = len(b)
		}
		w := b[i:j]
		if n > 0 && bytes.Equal(w, prev) {
			n++
			continue
		}
		flush()
		prev, n = w, 1
	}
	flush()
	return lib.List(out...)
}

func unrle(c lib.Case, k string) []byte {
	var b []byte
	for _, x := range c.L(k) {
		p := x.([]any)
		n := int(lib.Case{"v": p[0]}.I("v"))
		w := lib.Unhex(p[1].(string))
		for i := 0; i < n; i++ {
			b = append(b, w...)
		}
	}
	return b
}

func main() {
	lib.Main(func(c lib.Case) (lib.Out, any) {
		switch c.S("op") {
		case "encode":
			mi := cg.NewMemoryIndex()
			for _, x := range c.L("entries") {
				e := lib.AsCase(x)
				d := &cg.CommitData{TreeHash: hashOf(e.S("tree")), Generation: e.U("gen"), GenerationV2: e.U("gen2"),
					When: time.Unix(e.I("when"), 0)}
				for _, p := range e.SL("parents") {
					d.ParentHashes = append(d.ParentHashes, hashOf(p))
				}
				mi.Add(hashOf(e.S("hash")), d)
			}
			var buf bytes.Buffer
			if err := cg.NewEncoder(&buf).Encode(mi); err != nil {
				return lib.Err("encode"), nil
			}
			file := buf.Bytes()
			if len(file) < 20 {
				return lib.Err("short"), nil
			}
			body := file[:len(file)-20]
			sum := sha1.Sum(body)
			d := openDump(file)
			extra := map[string]any{"file": hex.EncodeToString(file), "trailer_ok": bytes.Equal(sum[:], file[len(file)-20:]),
				"dump": lib.Render(d)}
			return lib.List(compact(rle(body)), compact(d)), extra
		case "decode":
			d := openDump(unrle(c, "file"))
			return compact(d), map[string]any{"dump": lib.Render(d)}
		case "chain":
			// split commit-graph: files oldest first
			var idx cg.Index
			var outs []lib.Out
			var dumps []string
			for k := range c.L("files") {
				f := unrle(lib.Case{"f": c.L("files")[k]}, "f")
				var base uint32
				if idx != nil {
					base = idx.MaximumNumberOfHashes()
				}
				nx, err := cg.OpenFileIndexWithParent(rac{bytes.NewReader(f)}, idx)
				if err != nil {
					return lib.Err(class(err)), nil
				}
				idx = nx
				dumps = append(dumps, lib.Render(dump(idx, base, 64)))
				outs = append(outs, compact(dump(idx, base, 64)))
			}
			return lib.List(outs...), map[string]any{"dumps": dumps}
		}
		return lib.Err("badcase"), nil
	})
}
