// c41: implementation side of the C41 correspondence (ssh buildCommand).
package main

import (
	"net/url"

	"github.com/go-git/go-git/v6/plumbing/transport"
	"github.com/go-git/go-git/v6/plumbing/transport/ssh"

	"verif/harness/lib"
)

func main() {
	lib.Main(func(c lib.Case) (lib.Out, any) {
		req := &transport.Request{
			URL:     &url.URL{Path: string(c.B("path"))},
			Command: string(c.B("cmd")),
		}
		for _, a := range c.SL("args") {
			req.Args = append(req.Args, string(lib.Unhex(a)))
		}
		return lib.Bytes([]byte(ssh.VerifBuildCommand(req))), nil
	})
}
