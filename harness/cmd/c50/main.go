// c50: implementation side of the C50 correspondence (Repository.Archive ->
// internal/archive ResolveTreeish + WriteArchive).
//
// A case describes a tree (nested entries), a commit time/zone, the tree-ish
// kind, format, prefix and path filters.  The repository is built in memory
// with go-git, archived through the public API, and the archive is listed
// with the Go standard library readers (the python oracle lists the same
// bytes independently with tarfile / zipfile).
package main

import (
	"archive/tar"
	"archive/zip"
	"bytes"
	"compress/gzip"
	"encoding/hex"
	"fmt"
	"io"
	"strings"
	"time"

	git "github.com/go-git/go-git/v6"
	"github.com/go-git/go-git/v6/plumbing"
	"github.com/go-git/go-git/v6/storage/memory"

	"verif/harness/lib"
)

func put(st *memory.Storage, t plumbing.ObjectType, data []byte) plumbing.Hash {
	o := st.NewEncodedObject()
	o.SetType(t)
	w, _ := o.Writer()
	w.Write(data)
	w.Close()
	h, err := st.SetEncodedObject(o)
	if err != nil {
		panic(err)
	}
	return h
}

// raw git tree encoding; entries are given already in git order by the generator
func buildTree(st *memory.Storage, ents []any) plumbing.Hash {
	var buf bytes.Buffer
	for _, x := range ents {
		e := lib.AsCase(x)
		name := e.B("name")
		var mode string
		var h plumbing.Hash
		switch e.S("kind") {
		case "file":
			mode, h = "100644", put(st, plumbing.BlobObject, e.B("data"))
		case "exec":
			mode, h = "100755", put(st, plumbing.BlobObject, e.B("data"))
		case "link":
			mode, h = "120000", put(st, plumbing.BlobObject, e.B("data"))
		case "sub":
			mode = "160000"
			h, _ = plumbing.FromBytes(e.B("id"))
		case "dir":
			mode, h = "40000", buildTree(st, e.L("entries"))
		case "missingdir":
			mode = "40000"
			h, _ = plumbing.FromBytes(e.B("id"))
		default:
			panic("bad kind")
		}
		buf.WriteString(mode)
		buf.WriteByte(' ')
		buf.Write(name)
		buf.WriteByte(0)
		buf.Write(h.Bytes())
	}
	return put(st, plumbing.TreeObject, buf.Bytes())
}

func errClass(err error) lib.Out {
	m := err.Error()
	switch {
	case strings.Contains(m, "invalid archive prefix"):
		return lib.Err("prefix")
	case strings.Contains(m, "did not match any files"):
		return lib.Err("nomatch")
	case strings.Contains(m, "path not found in tree"):
		return lib.Err("subpath")
	case strings.Contains(m, "path is not a directory"):
		return lib.Err("notdir")
	case strings.Contains(m, "unsupported archive format"):
		return lib.Err("format")
	case strings.Contains(m, "symlink target too large"):
		return lib.Err("symlink")
	}
	return lib.Err("other")
}

// mt prints a modification time; a time within a day of the wall clock is the
// "current time" git archive uses for bare trees and is printed as -1
func mt(t time.Time) lib.Out {
	if d := time.Since(t); d > -24*time.Hour && d < 24*time.Hour {
		return lib.Int(-1)
	}
	return lib.Int(t.Unix())
}

func listTar(data []byte) (lib.Out, error) {
	tr := tar.NewReader(bytes.NewReader(data))
	var outs []lib.Out
	for {
		h, err := tr.Next()
		if err == io.EOF {
			break
		}
		if err != nil {
			return nil, err
		}
		body, err := io.ReadAll(tr)
		if err != nil {
			return nil, err
		}
		switch h.Typeflag {
		case tar.TypeXGlobalHeader:
			outs = append(outs, lib.List(lib.Sym("pax"), lib.Str(h.PAXRecords["comment"])))
		case tar.TypeDir:
			outs = append(outs, lib.List(lib.Sym("dir"), lib.Str(h.Name), lib.Int(h.Mode), mt(h.ModTime)))
		case tar.TypeSymlink:
			outs = append(outs, lib.List(lib.Sym("link"), lib.Str(h.Name), lib.Int(h.Mode), mt(h.ModTime), lib.Str(h.Linkname)))
		case tar.TypeReg:
			outs = append(outs, lib.List(lib.Sym("file"), lib.Str(h.Name), lib.Int(h.Mode), mt(h.ModTime), lib.Bytes(body)))
		default:
			outs = append(outs, lib.List(lib.Sym("other"), lib.Str(h.Name), lib.Int(int64(h.Typeflag))))
		}
	}
	return lib.Ok(outs...), nil
}

func listZip(data []byte) (lib.Out, error) {
	zr, err := zip.NewReader(bytes.NewReader(data), int64(len(data)))
	if err != nil {
		return nil, err
	}
	var outs []lib.Out
	if zr.Comment != "" {
		outs = append(outs, lib.List(lib.Sym("pax"), lib.Str(zr.Comment)))
	}
	for _, f := range zr.File {
		rc, err := f.Open()
		if err != nil {
			return nil, err
		}
		body, err := io.ReadAll(rc)
		rc.Close()
		if err != nil {
			return nil, err
		}
		unix := int64(f.ExternalAttrs >> 16)
		kind := "file"
		if strings.HasSuffix(f.Name, "/") {
			kind = "dir"
		} else if unix&0o170000 == 0o120000 {
			kind = "link"
		}
		switch kind {
		case "dir":
			outs = append(outs, lib.List(lib.Sym("dir"), lib.Str(f.Name), lib.Int(unix), mt(f.Modified)))
		case "link":
			outs = append(outs, lib.List(lib.Sym("link"), lib.Str(f.Name), lib.Int(unix), mt(f.Modified), lib.Bytes(body)))
		default:
			outs = append(outs, lib.List(lib.Sym("file"), lib.Str(f.Name), lib.Int(unix), mt(f.Modified), lib.Bytes(body)))
		}
	}
	return lib.Ok(outs...), nil
}

func main() {
	lib.Main(func(c lib.Case) (lib.Out, any) {
		st := memory.NewStorage()
		r, err := git.Init(st)
		if err != nil {
			panic(err)
		}
		root := buildTree(st, c.L("tree"))
		commit := fmt.Sprintf("tree %s\nauthor A <a@x> %d +0000\ncommitter C <c@x> %d %s\n\nm\n",
			root, c.I("time"), c.I("time"), c.S("zone"))
		ch := put(st, plumbing.CommitObject, []byte(commit))
		tag := fmt.Sprintf("object %s\ntype commit\ntag v1\ntagger T <t@x> %d +0000\n\nt\n", ch, c.I("time"))
		th := put(st, plumbing.TagObject, []byte(tag))
		st.SetReference(plumbing.NewHashReference("refs/heads/main", ch))
		st.SetReference(plumbing.NewHashReference("refs/tags/v1", th))
		st.SetReference(plumbing.NewSymbolicReference("HEAD", "refs/heads/main"))
		var treeish string
		switch c.S("treeish") {
		case "branch":
			treeish = "main"
		case "head":
			treeish = "HEAD"
		case "tag":
			treeish = "v1"
		case "commit":
			treeish = ch.String()
		case "tree":
			treeish = root.String()
		default: // "sub:<path>"
			treeish = "main:" + string(lib.Unhex(strings.TrimPrefix(c.S("treeish"), "sub:")))
		}
		var paths []string
		for _, p := range c.SL("paths") {
			paths = append(paths, string(lib.Unhex(p)))
		}
		rc, err := r.Archive(&git.ArchiveOptions{Format: c.S("format"), Prefix: string(c.B("prefix")), Treeish: treeish, Paths: paths})
		if err != nil {
			return errClass(err), map[string]any{"commit": ch.String(), "tree": root.String(), "err": err.Error()}
		}
		data, err := io.ReadAll(rc)
		rc.Close()
		extra := map[string]any{"commit": ch.String(), "tree": root.String(), "archive": hex.EncodeToString(data)}
		if err != nil {
			extra["err"] = err.Error()
			return errClass(err), extra
		}
		var out lib.Out
		switch c.S("format") {
		case "tar", "":
			out, err = listTar(data)
		case "tar.gz", "tgz":
			var gz *gzip.Reader
			gz, err = gzip.NewReader(bytes.NewReader(data))
			if err == nil {
				var raw []byte
				raw, err = io.ReadAll(gz)
				if err == nil {
					out, err = listTar(raw)
				}
			}
		case "zip":
			out, err = listZip(data)
		}
		if err != nil {
			extra["err"] = err.Error()
			return lib.Err("unreadable"), extra
		}
		return out, extra
	})
}
