// c52: implementation side of the C52 correspondence (reflog line codec).
//
//	op=enc : entry fields -> bytes written by reflog.Encode
//	op=dec : file bytes   -> entries returned by reflog.Decode (or the error class)
package main

import (
	"bytes"
	"time"

	"github.com/go-git/go-git/v6/plumbing"
	"github.com/go-git/go-git/v6/plumbing/format/reflog"

	"verif/harness/lib"
)

func hash(b []byte) plumbing.Hash {
	h, _ := plumbing.FromBytes(b)
	return h
}

func entryOut(e *reflog.Entry) lib.Out {
	_, off := e.Committer.When.Zone()
	return lib.List(
		lib.Bytes(e.OldHash.Bytes()), lib.Bytes(e.NewHash.Bytes()),
		lib.Str(e.Committer.Name), lib.Str(e.Committer.Email),
		lib.Int(e.Committer.When.Unix()), lib.Int(int64(off)),
		lib.Str(e.Message))
}

func main() {
	lib.Main(func(c lib.Case) (lib.Out, any) {
		switch c.S("op") {
		case "enc":
			e := &reflog.Entry{
				OldHash: hash(c.B("old")), NewHash: hash(c.B("new")),
				Committer: reflog.Signature{
					Name: string(c.B("name")), Email: string(c.B("email")),
					When: time.Unix(c.I("secs"), 0).In(time.FixedZone("", int(c.I("off")))),
				},
				Message: string(c.B("msg")),
			}
			var buf bytes.Buffer
			if err := reflog.Encode(&buf, e); err != nil {
				return lib.Err("encode"), nil
			}
			return lib.Ok(lib.Bytes(buf.Bytes())), nil
		case "dec":
			es, err := reflog.Decode(bytes.NewReader(c.B("file")))
			if err != nil {
				return lib.Err("malformed"), nil
			}
			outs := make([]lib.Out, 0, len(es))
			for _, e := range es {
				outs = append(outs, entryOut(e))
			}
			return lib.Ok(outs...), nil
		}
		return lib.Err("badop"), nil
	})
}
