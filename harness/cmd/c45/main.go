// c45: implementation side of the C45 correspondence (unified patch encoder, file stats).
//
// mode "hunks": {"ctx": n, "msg": hex, "files": [{"from": file|null, "to": file|null, "chunks": [[op, hexcontent]...]}]}
//     file = {"path": hex, "mode": "100644", "hash": hex20};  op = 0 Equal, 1 Add, 2 Delete; plus "binary": bool
//     -> custom diff.FilePatch values through diff.UnifiedEncoder and object.VerifFileStats
// mode "tree":  {"ctx": n, "a": tree, "b": tree, "renames": bool}   (tree as in cmd/c44)
//     -> object.DiffTreeWithOptions + Changes.Patch + UnifiedEncoder(ctx) + Patch.Stats
// mode "diff":  {"src": hex, "dst": hex} -> the chunk list of utils/diff.Do (extra only)
// out: ( ok xPATCH ( ( xNAME add del ) ... ) )
package main

import (
	"bytes"
	"context"
	"encoding/hex"
	"strconv"

	"github.com/go-git/go-git/v6/plumbing"
	"github.com/go-git/go-git/v6/plumbing/filemode"
	fdiff "github.com/go-git/go-git/v6/plumbing/format/diff"
	"github.com/go-git/go-git/v6/plumbing/object"
	"github.com/go-git/go-git/v6/storage/memory"
	"github.com/go-git/go-git/v6/utils/diff"
	"github.com/sergi/go-diff/diffmatchpatch"

	"verif/harness/b17util"
	"verif/harness/lib"
)

type file struct {
	path string
	mode filemode.FileMode
	hash plumbing.Hash
}

func (f *file) Hash() plumbing.Hash     { return f.hash }
func (f *file) Mode() filemode.FileMode { return f.mode }
func (f *file) Path() string            { return f.path }

type chunk struct {
	content string
	op      fdiff.Operation
}

func (c *chunk) Content() string       { return c.content }
func (c *chunk) Type() fdiff.Operation { return c.op }

type filePatch struct {
	from, to *file
	binary   bool
	chunks   []fdiff.Chunk
}

func (p *filePatch) IsBinary() bool { return p.binary }
func (p *filePatch) Files() (fdiff.File, fdiff.File) {
	var f, t fdiff.File
	if p.from != nil {
		f = p.from
	}
	if p.to != nil {
		t = p.to
	}
	return f, t
}
func (p *filePatch) Chunks() []fdiff.Chunk { return p.chunks }

type patch struct {
	msg string
	fps []fdiff.FilePatch
}

func (p *patch) FilePatches() []fdiff.FilePatch { return p.fps }
func (p *patch) Message() string                { return p.msg }

func mkFile(x any) *file {
	if x == nil {
		return nil
	}
	c := lib.AsCase(x)
	m, err := strconv.ParseUint(c.S("mode"), 8, 32)
	if err != nil {
		panic("bad mode in case")
	}
	return &file{path: string(c.B("path")), mode: filemode.FileMode(m), hash: plumbing.NewHash(c.S("hash"))}
}

func statsOut(st object.FileStats) lib.Out {
	var xs []lib.Out
	for _, s := range st {
		xs = append(xs, lib.List(lib.Str(s.Name), lib.Int(int64(s.Addition)), lib.Int(int64(s.Deletion))))
	}
	return lib.List(xs...)
}

func statsJSON(st object.FileStats) []map[string]any {
	r := []map[string]any{}
	for _, s := range st {
		r = append(r, map[string]any{"name": hex.EncodeToString([]byte(s.Name)), "add": s.Addition, "del": s.Deletion})
	}
	return r
}

func chunksJSON(cs []fdiff.Chunk) [][]any {
	r := [][]any{}
	for _, c := range cs {
		r = append(r, []any{int(c.Type()), hex.EncodeToString([]byte(c.Content()))})
	}
	return r
}

func main() {
	lib.Main(func(c lib.Case) (lib.Out, any) {
		ctx := int(c.I("ctx"))
		switch c.S("mode") {
		case "diff":
			ds := diff.Do(string(c.B("src")), string(c.B("dst")))
			r := [][]any{}
			for _, d := range ds {
				op := 0
				switch d.Type {
				case diffmatchpatch.DiffInsert:
					op = 1
				case diffmatchpatch.DiffDelete:
					op = 2
				}
				r = append(r, []any{op, hex.EncodeToString([]byte(d.Text))})
			}
			return lib.Ok(), map[string]any{"chunks": r}
		case "tree":
			s := memory.NewStorage()
			ha := b17util.StoreTree(s, c.L("a"))
			hb := b17util.StoreTree(s, c.L("b"))
			ta, err := object.GetTree(s, ha)
			if err != nil {
				panic(err)
			}
			tb, err := object.GetTree(s, hb)
			if err != nil {
				panic(err)
			}
			var opts *object.DiffTreeOptions
			if c.Bool("renames") {
				opts = object.DefaultDiffTreeOptions
			}
			changes, err := object.DiffTreeWithOptions(context.Background(), ta, tb, opts)
			if err != nil {
				return lib.Err("difftree"), map[string]any{"error": err.Error()}
			}
			p, err := changes.Patch()
			if err != nil {
				return lib.Err("patch"), map[string]any{"error": err.Error()}
			}
			var buf bytes.Buffer
			if err := fdiff.NewUnifiedEncoder(&buf, ctx).Encode(p); err != nil {
				return lib.Err("encode"), map[string]any{"error": err.Error()}
			}
			st := p.Stats()
			var files []map[string]any
			for _, fp := range p.FilePatches() {
				f, t := fp.Files()
				m := map[string]any{"chunks": chunksJSON(fp.Chunks()), "binary": fp.IsBinary()}
				if f != nil {
					m["from"] = hex.EncodeToString([]byte(f.Path()))
				}
				if t != nil {
					m["to"] = hex.EncodeToString([]byte(t.Path()))
				}
				files = append(files, m)
			}
			return lib.Ok(lib.Bytes(buf.Bytes()), statsOut(st)),
				map[string]any{"a": ha.String(), "b": hb.String(), "patch": hex.EncodeToString(buf.Bytes()), "stats": statsJSON(st), "files": files}
		default:
			p := &patch{msg: string(c.B("msg"))}
			for _, x := range c.L("files") {
				fc := lib.AsCase(x)
				fp := &filePatch{from: mkFile(fc["from"]), to: mkFile(fc["to"]), binary: fc.Bool("binary")}
				for _, y := range fc.L("chunks") {
					pair := y.([]any)
					op := lib.Case{"x": pair[0]}.I("x")
					fp.chunks = append(fp.chunks, &chunk{content: string(lib.Unhex(pair[1].(string))), op: fdiff.Operation(op)})
				}
				p.fps = append(p.fps, fp)
			}
			var buf bytes.Buffer
			if err := fdiff.NewUnifiedEncoder(&buf, ctx).Encode(p); err != nil {
				return lib.Err("encode"), map[string]any{"error": err.Error()}
			}
			st := object.VerifFileStats(p.fps)
			return lib.Ok(lib.Bytes(buf.Bytes()), statsOut(st)),
				map[string]any{"patch": hex.EncodeToString(buf.Bytes()), "stats": statsJSON(st)}
		}
	})
}
