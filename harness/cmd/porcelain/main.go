// porcelain: implementation side of the C25 / C29 / C30 correspondence.
//
// A case is a repository recipe (commits as flattened trees path -> (kind,
// content), refs, HEAD, an explicit index and an explicit worktree) plus an op
// sequence (checkout / reset through go-git, write / rm directly on the
// worktree).  The reply is, per op, the result class and a canonical snapshot
// (HEAD, refs, index, worktree); `extra` carries the same snapshots as JSON
// together with what the git binary says about the repository after each
// porcelain op (`git status --porcelain`, `git ls-files -s`, HEAD).
package main

import (
	"bytes"
	"errors"
	"fmt"
	"io"
	"os"
	"os/exec"
	"path/filepath"
	"sort"
	"strings"
	"time"

	"golang.org/x/sys/unix"

	git "github.com/go-git/go-git/v6"
	"github.com/go-git/go-git/v6/plumbing"
	"github.com/go-git/go-git/v6/plumbing/filemode"
	"github.com/go-git/go-git/v6/plumbing/format/index"
	"github.com/go-git/go-git/v6/plumbing/object"

	"verif/harness/lib"
)

type fent struct {
	path    string
	kind    string // f regular, x executable, l symlink
	content []byte
}

func entsOf(l []any) []fent {
	var r []fent
	for _, x := range l {
		t, _ := x.([]any)
		if len(t) != 3 {
			panic("bad entry in case")
		}
		p, _ := t[0].(string)
		k, _ := t[1].(string)
		c, _ := t[2].(string)
		r = append(r, fent{p, k, []byte(c)})
	}
	return r
}

func modeOf(kind string) filemode.FileMode {
	switch kind {
	case "x":
		return filemode.Executable
	case "l":
		return filemode.Symlink
	case "s":
		return filemode.Submodule
	}
	return filemode.Regular
}

// the commit a gitlink entry points at (never present in the object store)
var gitlinkHash = plumbing.NewHash("5151515151515151515151515151515151515151")

func kindOfMode(m filemode.FileMode) string {
	switch m {
	case filemode.Regular, filemode.Deprecated:
		return "f"
	case filemode.Executable:
		return "x"
	case filemode.Symlink:
		return "l"
	case filemode.Submodule:
		return "s"
	case filemode.Dir:
		return "d"
	}
	return "u"
}

type env struct {
	dir     string
	trees   []plumbing.Hash // root tree of commit i
	anyBlob plumbing.Hash   // some blob of the history
	commits []plumbing.Hash
	cidx    map[plumbing.Hash]int
	tick    int64
}

func (e *env) storeBlob(r *git.Repository, content []byte) plumbing.Hash {
	o := r.Storer.NewEncodedObject()
	o.SetType(plumbing.BlobObject)
	w, err := o.Writer()
	if err != nil {
		panic(err)
	}
	w.Write(content)
	w.Close()
	h, err := r.Storer.SetEncodedObject(o)
	if err != nil {
		panic(err)
	}
	return h
}

// storeTree writes the nested tree objects of a flattened tree.
func (e *env) storeTree(r *git.Repository, ents []fent, prefix string) plumbing.Hash {
	type sub struct{ ents []fent }
	var entries []object.TreeEntry
	subs := map[string]*sub{}
	var order []string
	for _, f := range ents {
		rel := strings.TrimPrefix(f.path, prefix)
		if i := strings.IndexByte(rel, '/'); i >= 0 {
			d := rel[:i]
			if subs[d] == nil {
				subs[d] = &sub{}
				order = append(order, d)
			}
			subs[d].ents = append(subs[d].ents, f)
			continue
		}
		if f.kind == "s" {
			entries = append(entries, object.TreeEntry{Name: rel, Mode: filemode.Submodule, Hash: gitlinkHash})
			continue
		}
		entries = append(entries, object.TreeEntry{Name: rel, Mode: modeOf(f.kind), Hash: e.storeBlob(r, f.content)})
	}
	for _, d := range order {
		entries = append(entries, object.TreeEntry{Name: d, Mode: filemode.Dir, Hash: e.storeTree(r, subs[d].ents, prefix+d+"/")})
	}
	sort.Sort(object.TreeEntrySorter(entries))
	t := &object.Tree{Entries: entries}
	o := r.Storer.NewEncodedObject()
	if err := t.Encode(o); err != nil {
		panic(err)
	}
	h, err := r.Storer.SetEncodedObject(o)
	if err != nil {
		panic(err)
	}
	return h
}

func (e *env) storeCommit(r *git.Repository, tree plumbing.Hash, n int) plumbing.Hash {
	sig := object.Signature{Name: "v", Email: "v@v", When: time.Unix(1000000000+int64(n), 0).UTC()}
	c := &object.Commit{Author: sig, Committer: sig, Message: fmt.Sprintf("c%d\n", n), TreeHash: tree}
	if n > 0 {
		c.ParentHashes = []plumbing.Hash{e.commits[n-1]}
	}
	o := r.Storer.NewEncodedObject()
	if err := c.Encode(o); err != nil {
		panic(err)
	}
	h, err := r.Storer.SetEncodedObject(o)
	if err != nil {
		panic(err)
	}
	return h
}

func (e *env) hashOf(i int64) plumbing.Hash {
	if i == -1 {
		return plumbing.ZeroHash
	}
	// 100 / 101: objects that exist but are no commits (root tree of commit 0, a blob)
	if i == 100 && len(e.trees) > 0 {
		return e.trees[0]
	}
	if i == 101 && !e.anyBlob.IsZero() {
		return e.anyBlob
	}
	if i < 0 || int(i) >= len(e.commits) {
		return plumbing.NewHash("deadbeefdeadbeefdeadbeefdeadbeefdeadbeef")
	}
	return e.commits[i]
}

func (e *env) deleteObject(h plumbing.Hash) {
	hs := h.String()
	os.Remove(filepath.Join(e.dir, ".git", "objects", hs[:2], hs[2:]))
}

func (e *env) writeWT(f fent) {
	p := filepath.Join(e.dir, filepath.FromSlash(f.path))
	os.RemoveAll(p)
	// an ancestor that is a file or a symlink is replaced by a directory (rm d; mkdir -p d/e)
	for d := filepath.Dir(p); len(d) > len(e.dir); d = filepath.Dir(d) {
		if fi, err := os.Lstat(d); err == nil && !fi.IsDir() {
			os.Remove(d)
		}
	}
	if err := os.MkdirAll(filepath.Dir(p), 0o755); err != nil {
		panic(err)
	}
	if f.kind == "d" || f.kind == "s" {
		if err := os.MkdirAll(p, 0o755); err != nil {
			panic(err)
		}
		return
	}
	e.tick++
	sec := 978307200 + e.tick // 2001-01-01 + tick: never equal to an index entry's mtime, always before the index file's
	if f.kind == "l" {
		if err := os.Symlink(string(f.content), p); err != nil {
			panic(err)
		}
		tv := []unix.Timeval{{Sec: sec}, {Sec: sec}}
		if err := unix.Lutimes(p, tv); err != nil {
			panic(err)
		}
		return
	}
	perm := os.FileMode(0o644)
	if f.kind == "x" {
		perm = 0o755
	}
	if err := os.WriteFile(p, f.content, perm); err != nil {
		panic(err)
	}
	os.Chmod(p, perm)
	t := time.Unix(sec, 0)
	os.Chtimes(p, t, t)
}

func (e *env) rmWT(path string) {
	p := filepath.Join(e.dir, filepath.FromSlash(path))
	os.RemoveAll(p)
	for d := filepath.Dir(p); d != e.dir && len(d) > len(e.dir); d = filepath.Dir(d) {
		if os.Remove(d) != nil {
			break
		}
	}
}

type snap struct {
	Head  []any   `json:"head"`
	Refs  [][]any `json:"refs"`
	Index [][]any `json:"index"`
	WT    [][]any `json:"wt"`
	Dirs  []string `json:"emptydirs,omitempty"`
	AllDirs []string `json:"dirs,omitempty"`
	// raw bytes of .git/HEAD, .git/packed-refs and every file below .git/refs
	Raw map[string]string `json:"raw"`
}

func (e *env) commitNo(h plumbing.Hash) int64 {
	if i, ok := e.cidx[h]; ok {
		return int64(i)
	}
	return -2
}

func (e *env) snapshot() (lib.Out, snap) {
	var s snap
	r, err := git.PlainOpen(e.dir)
	if err != nil {
		panic(err)
	}
	var head lib.Out = lib.Sym("none")
	s.Head = []any{"none"}
	if h, err := r.Storer.Reference(plumbing.HEAD); err == nil {
		if h.Type() == plumbing.SymbolicReference {
			head = lib.List(lib.Sym("sym"), lib.Str(string(h.Target())))
			s.Head = []any{"sym", string(h.Target())}
		} else {
			head = lib.List(lib.Sym("det"), lib.Int(e.commitNo(h.Hash())))
			s.Head = []any{"det", e.commitNo(h.Hash())}
		}
	}
	var refs []lib.Out
	it, err := r.Storer.IterReferences()
	if err != nil {
		panic(err)
	}
	type rr struct {
		n string
		c int64
	}
	var rl []rr
	it.ForEach(func(ref *plumbing.Reference) error {
		if ref.Name() == plumbing.HEAD || ref.Type() != plumbing.HashReference {
			return nil
		}
		rl = append(rl, rr{string(ref.Name()), e.commitNo(ref.Hash())})
		return nil
	})
	sort.Slice(rl, func(i, j int) bool { return rl[i].n < rl[j].n })
	for _, x := range rl {
		refs = append(refs, lib.List(lib.Str(x.n), lib.Int(x.c)))
		s.Refs = append(s.Refs, []any{x.n, x.c})
	}
	idx, err := r.Storer.Index()
	if err != nil {
		panic(err)
	}
	ents := append([]*index.Entry(nil), idx.Entries...)
	sort.SliceStable(ents, func(i, j int) bool { return ents[i].Name < ents[j].Name })
	var io_ []lib.Out
	for _, en := range ents {
		var content []byte
		kind := kindOfMode(en.Mode)
		if en.Mode == filemode.Submodule {
			if en.Hash != gitlinkHash {
				kind = "missing_s"
			}
		} else if b, err := r.BlobObject(en.Hash); err == nil {
			rd, _ := b.Reader()
			content, _ = io.ReadAll(rd)
			rd.Close()
		} else {
			kind = "missing_" + kind
		}
		if en.Stage != 0 || en.SkipWorktree || en.IntentToAdd {
			kind = "flagged_" + kind
		}
		io_ = append(io_, lib.List(lib.Str(en.Name), lib.Sym(kind), lib.Bytes(content)))
		s.Index = append(s.Index, []any{en.Name, kind, string(content)})
	}
	s.Raw = map[string]string{}
	for _, f := range []string{"HEAD", "packed-refs"} {
		if b, err := os.ReadFile(filepath.Join(e.dir, ".git", f)); err == nil {
			s.Raw[f] = string(b)
		}
	}
	filepath.Walk(filepath.Join(e.dir, ".git", "refs"), func(p string, fi os.FileInfo, err error) error {
		if err == nil && fi.Mode().IsRegular() {
			rel, _ := filepath.Rel(filepath.Join(e.dir, ".git"), p)
			b, _ := os.ReadFile(p)
			s.Raw[filepath.ToSlash(rel)] = string(b)
		}
		return nil
	})
	var wo []lib.Out
	var files []fent
	filepath.Walk(e.dir, func(p string, fi os.FileInfo, err error) error {
		if err != nil {
			return nil
		}
		rel, _ := filepath.Rel(e.dir, p)
		rel = filepath.ToSlash(rel)
		if rel == "." {
			return nil
		}
		if rel == ".git" {
			return filepath.SkipDir
		}
		switch {
		case fi.Mode()&os.ModeSymlink != 0:
			t, _ := os.Readlink(p)
			files = append(files, fent{rel, "l", []byte(t)})
		case fi.IsDir():
			s.AllDirs = append(s.AllDirs, rel)
			if l, _ := os.ReadDir(p); len(l) == 0 {
				s.Dirs = append(s.Dirs, rel)
			}
		case fi.Mode().IsRegular():
			b, _ := os.ReadFile(p)
			k := "f"
			if fi.Mode()&0o100 != 0 {
				k = "x"
			}
			files = append(files, fent{rel, k, b})
		default:
			files = append(files, fent{rel, "u", nil})
		}
		return nil
	})
	sort.Slice(files, func(i, j int) bool { return files[i].path < files[j].path })
	for _, f := range files {
		wo = append(wo, lib.List(lib.Str(f.path), lib.Sym(f.kind), lib.Bytes(f.content)))
		s.WT = append(s.WT, []any{f.path, f.kind, string(f.content)})
	}
	return lib.List(head, lib.List(refs...), lib.List(io_...), lib.List(wo...)), s
}

func classify(err error) string {
	switch {
	case err == nil:
		return "ok"
	case errors.Is(err, git.ErrBranchHashExclusive):
		return "branch_hash_exclusive"
	case errors.Is(err, git.ErrCreateRequiresBranch):
		return "create_requires_branch"
	case errors.Is(err, git.ErrUnstagedChanges):
		return "unstaged"
	case errors.Is(err, git.ErrLocalChanges):
		return "local_changes"
	case errors.Is(err, plumbing.ErrReferenceNotFound):
		return "ref_not_found"
	case errors.Is(err, plumbing.ErrObjectNotFound):
		return "object_not_found"
	case strings.Contains(err.Error(), "already exists"):
		return "branch_exists"
	case errors.Is(err, git.ErrEmptyCommit):
		return "empty_commit"
	}
	return "other"
}

func (e *env) gitOut(args ...string) string {
	cmd := exec.Command("/usr/bin/git", append([]string{"-c", "core.quotepath=false"}, args...)...)
	cmd.Dir = e.dir
	cmd.Env = []string{"GIT_CONFIG_NOSYSTEM=1", "HOME=" + e.dir + "/.git", "GIT_OPTIONAL_LOCKS=0", "LC_ALL=C", "PATH=/usr/bin:/bin", "GIT_CONFIG_GLOBAL=/dev/null"}
	var out, er bytes.Buffer
	cmd.Stdout, cmd.Stderr = &out, &er
	if err := cmd.Run(); err != nil {
		return "ERROR " + err.Error() + " " + er.String()
	}
	return out.String()
}

func run(c lib.Case) (lib.Out, any) {
	base := os.Getenv("VERIF_SCRATCH")
	if base == "" {
		if fi, err := os.Stat("/dev/shm"); err == nil && fi.IsDir() {
			if d, err := os.MkdirTemp("/dev/shm", "porc-probe-"); err == nil {
				os.Remove(d)
				base = "/dev/shm"
			}
		}
	}
	dir, err := os.MkdirTemp(base, "porc-")
	if err != nil {
		panic(err)
	}
	defer os.RemoveAll(dir)
	e := &env{dir: dir, cidx: map[plumbing.Hash]int{}}
	r, err := git.PlainInit(dir, false)
	if err != nil {
		panic(err)
	}
	for i, cm := range c.L("commits") {
		ents := entsOf(lib.AsCase(cm).L("tree"))
		th := e.storeTree(r, ents, "")
		h := e.storeCommit(r, th, i)
		e.trees = append(e.trees, th)
		e.commits = append(e.commits, h)
		e.cidx[h] = i
		if e.anyBlob.IsZero() && len(ents) > 0 {
			e.anyBlob = e.storeBlob(r, ents[0].content)
		}
	}
	for _, x := range c.L("refs") {
		t, _ := x.([]any)
		name, _ := t[0].(string)
		n := lib.Case{"n": t[1]}.I("n")
		if err := r.Storer.SetReference(plumbing.NewHashReference(plumbing.ReferenceName(name), e.hashOf(n))); err != nil {
			panic(err)
		}
	}
	hd := c.L("head")
	switch hd[0].(string) {
	case "sym":
		if err := r.Storer.SetReference(plumbing.NewSymbolicReference(plumbing.HEAD, plumbing.ReferenceName(hd[1].(string)))); err != nil {
			panic(err)
		}
	case "det":
		if err := r.Storer.SetReference(plumbing.NewHashReference(plumbing.HEAD, e.hashOf(lib.Case{"n": hd[1]}.I("n")))); err != nil {
			panic(err)
		}
	}
	idx := &index.Index{Version: 2}
	ie := entsOf(c.L("index"))
	sort.Slice(ie, func(i, j int) bool { return ie[i].path < ie[j].path })
	for _, f := range ie {
		if f.kind == "s" {
			idx.Entries = append(idx.Entries, &index.Entry{Name: f.path, Mode: filemode.Submodule, Hash: gitlinkHash})
			continue
		}
		idx.Entries = append(idx.Entries, &index.Entry{Name: f.path, Mode: modeOf(f.kind), Hash: e.storeBlob(r, f.content)})
	}
	if err := r.Storer.SetIndex(idx); err != nil {
		panic(err)
	}
	for _, f := range entsOf(c.L("wt")) {
		e.writeWT(f)
	}

	gitMode := c.S("git")
	if gitMode == "" {
		gitMode = "forced"
	}
	// corrupt the object store as the case asks: root trees, nested trees, blobs
	for _, x := range c.L("notree") {
		if n := int(lib.Case{"n": x}.I("n")); n >= 0 && n < len(e.trees) {
			e.deleteObject(e.trees[n])
		}
	}
	for _, x := range c.L("noobject") {
		t, _ := x.([]any)
		n := int(lib.Case{"n": t[0]}.I("n"))
		path, _ := t[1].(string)
		if n < 0 || n >= len(e.commits) {
			continue
		}
		if r2, err := git.PlainOpen(dir); err == nil {
			if co, err := r2.CommitObject(e.commits[n]); err == nil {
				if tr, err := co.Tree(); err == nil {
					if en, err := tr.FindEntry(path); err == nil {
						e.deleteObject(en.Hash)
					}
				}
			}
		}
	}
	for _, x := range c.L("nocommit") {
		if n := int(lib.Case{"n": x}.I("n")); n >= 0 && n < len(e.commits) {
			e.deleteObject(e.commits[n])
		}
	}
	var outs []lib.Out
	type step struct {
		Res  string `json:"res"`
		Err  string `json:"err,omitempty"`
		Snap snap   `json:"snap"`
		Git  any    `json:"git,omitempty"`
	}
	o0, s0 := e.snapshot()
	outs = append(outs, o0)
	steps := []step{{Res: "init", Snap: s0}}
	for _, x := range c.L("ops") {
		op := lib.AsCase(x)
		var err error
		porcelain := false
		switch op.S("op") {
		case "write":
			e.writeWT(fent{op.S("path"), op.S("kind"), []byte(op.S("content"))})
		case "rm":
			e.rmWT(op.S("path"))
		case "checkout":
			porcelain = true
			r, oerr := git.PlainOpen(dir)
			if oerr != nil {
				panic(oerr)
			}
			w, werr := r.Worktree()
			if werr != nil {
				panic(werr)
			}
			err = w.Checkout(&git.CheckoutOptions{
				Branch: plumbing.ReferenceName(op.S("branch")),
				Hash:   e.hashOf(op.I("hash")),
				Create: op.Bool("create"), Force: op.Bool("force"), Keep: op.Bool("keep"),
			})
		case "reset":
			porcelain = true
			r, oerr := git.PlainOpen(dir)
			if oerr != nil {
				panic(oerr)
			}
			w, werr := r.Worktree()
			if werr != nil {
				panic(werr)
			}
			mode := map[string]git.ResetMode{"mixed": git.MixedReset, "hard": git.HardReset, "merge": git.MergeReset,
				"soft": git.SoftReset, "keep": git.KeepReset}[op.S("mode")]
			err = w.Reset(&git.ResetOptions{Commit: e.hashOf(op.I("commit")), Mode: mode})
		case "add", "commit":
			porcelain = true
			r, oerr := git.PlainOpen(dir)
			if oerr != nil {
				panic(oerr)
			}
			w, werr := r.Worktree()
			if werr != nil {
				panic(werr)
			}
			if op.S("op") == "add" {
				_, err = w.Add(op.S("path"))
			} else {
				sig := &object.Signature{Name: "v", Email: "v@v", When: time.Unix(1000001000, 0).UTC()}
				_, err = w.Commit("c\n", &git.CommitOptions{Author: sig, Committer: sig, All: op.Bool("all")})
			}
		default:
			panic("unknown op " + op.S("op"))
		}
		o, s := e.snapshot()
		cls := classify(err)
		st := step{Res: cls, Snap: s}
		if err != nil {
			st.Err = err.Error()
		}
		forced := (op.S("op") == "checkout" && op.Bool("force")) || (op.S("op") == "reset" && op.S("mode") == "hard")
		if porcelain && (gitMode == "all" || (gitMode == "forced" && forced && err == nil)) {
			// one spawn: v2 status with the branch header carries HEAD's commit, staged and unstaged changes
			st.Git = map[string]string{
				"status2": e.gitOut("status", "--porcelain=v2", "--branch", "-z", "--untracked-files=all"),
			}
		}
		steps = append(steps, st)
		res := lib.Ok()
		if err != nil {
			res = lib.Err(cls)
		}
		outs = append(outs, lib.List(res, o))
	}
	hashes := make([]string, len(e.commits))
	for i, h := range e.commits {
		hashes[i] = h.String()
	}
	return lib.List(outs...), map[string]any{"steps": steps, "commits": hashes}
}

func main() { lib.Main(run) }
