// c14: implementation side of the C14 correspondence — every reference and
// reflog entry point of the filesystem storage is run on a candidate name
// over a recording billy.Filesystem; the observable is the set of paths the
// operation handed to the filesystem (or the refusal).
package main

import (
	"errors"
	iofs "io/fs"
	"os"
	"path"
	"path/filepath"
	"sort"
	"strings"

	"github.com/go-git/go-billy/v6"
	"github.com/go-git/go-billy/v6/memfs"
	"github.com/go-git/go-billy/v6/osfs"
	"github.com/go-git/go-git/v6/plumbing"
	"github.com/go-git/go-git/v6/storage/filesystem/dotgit"

	"verif/harness/lib"
)

// recfs records every path argument of every filesystem call.
type recfs struct {
	billy.Filesystem
	paths []string
}

func (r *recfs) rec(p string) { r.paths = append(r.paths, p) }

func (r *recfs) Create(n string) (billy.File, error) { r.rec(n); return r.Filesystem.Create(n) }
func (r *recfs) Open(n string) (billy.File, error)   { r.rec(n); return r.Filesystem.Open(n) }
func (r *recfs) OpenFile(n string, flag int, perm iofs.FileMode) (billy.File, error) {
	r.rec(n)
	return r.Filesystem.OpenFile(n, flag, perm)
}
func (r *recfs) Stat(n string) (iofs.FileInfo, error)  { r.rec(n); return r.Filesystem.Stat(n) }
func (r *recfs) Lstat(n string) (iofs.FileInfo, error) { r.rec(n); return r.Filesystem.Lstat(n) }
func (r *recfs) Rename(a, b string) error              { r.rec(a); r.rec(b); return r.Filesystem.Rename(a, b) }
func (r *recfs) Remove(n string) error                 { r.rec(n); return r.Filesystem.Remove(n) }
func (r *recfs) ReadDir(n string) ([]iofs.DirEntry, error) {
	r.rec(n)
	return r.Filesystem.ReadDir(n)
}
func (r *recfs) MkdirAll(n string, perm iofs.FileMode) error {
	r.rec(n)
	return r.Filesystem.MkdirAll(n, perm)
}
func (r *recfs) Symlink(t, l string) error         { r.rec(l); return r.Filesystem.Symlink(t, l) }
func (r *recfs) Readlink(l string) (string, error) { r.rec(l); return r.Filesystem.Readlink(l) }
func (r *recfs) TempFile(dir, prefix string) (billy.File, error) {
	f, err := r.Filesystem.TempFile(dir, prefix)
	if err == nil {
		r.rec(f.Name())
	} else {
		r.rec(path.Join(dir, prefix+"*"))
	}
	return f, err
}
func (r *recfs) Chroot(p string) (billy.Filesystem, error) { r.rec(p); return r.Filesystem.Chroot(p) }
func (r *recfs) Capabilities() billy.Capability            { return billy.Capabilities(r.Filesystem) }

const hashA = "1111111111111111111111111111111111111111"
const hashB = "2222222222222222222222222222222222222222"

func write(fs billy.Filesystem, p, content string) {
	f, err := fs.Create(p)
	if err != nil {
		panic("setup: " + err.Error())
	}
	f.Write([]byte(content))
	f.Close()
}

// symlinkCase exercises what the lexical theorem leaves out: a directory below
// refs/ (and logs/refs/) that is a symbolic link to a directory outside the
// repository holding a sentinel file.  Real directory, go-git's own BoundOS
// filesystem.  Observable: is the sentinel still intact after every entry point
// was run on <link>/sentinel, and did any new file appear outside?
func symlinkCase(c lib.Case) (lib.Out, any) {
	base, err := os.MkdirTemp("", "verif-c14-")
	if err != nil {
		panic(err)
	}
	defer os.RemoveAll(base)
	repo, outside := filepath.Join(base, "repo"), filepath.Join(base, "outside")
	os.MkdirAll(filepath.Join(repo, "refs", "heads"), 0o777)
	os.MkdirAll(filepath.Join(repo, "logs", "refs", "heads"), 0o777)
	os.MkdirAll(outside, 0o777)
	os.WriteFile(filepath.Join(repo, "HEAD"), []byte("ref: refs/heads/zz\n"), 0o666)
	sentinel := filepath.Join(outside, "sentinel")
	os.WriteFile(sentinel, []byte(hashA+"\n"), 0o666)
	os.Symlink(outside, filepath.Join(repo, "refs", "heads", "evil"))
	os.Symlink(outside, filepath.Join(repo, "logs", "refs", "heads", "evil"))
	d := dotgit.New(osfs.New(repo, osfs.WithBoundOS()))
	rn := plumbing.ReferenceName("refs/heads/evil/sentinel")
	res := map[string]string{}
	note := func(k string, err error) {
		if err != nil {
			res[k] = "err"
		} else {
			res[k] = "ok"
		}
	}
	r, err := d.Ref(rn)
	note("ref", err)
	leaked := err == nil && r != nil && r.Hash().String() == hashA
	note("set", d.SetRef(plumbing.NewHashReference(rn, plumbing.NewHash(hashB)), nil))
	note("setnew", d.SetRef(plumbing.NewHashReference("refs/heads/evil/planted", plumbing.NewHash(hashB)), nil))
	if f, err := d.ReflogWriter(rn); err == nil {
		f.Write([]byte("x"))
		f.Close()
		res["logwrite"] = "ok"
	} else {
		res["logwrite"] = "err"
	}
	note("logdel", d.DeleteReflog(rn))
	note("rm", d.RemoveRef(rn))
	_, err = d.Refs()
	note("list", err)
	got, rerr := os.ReadFile(sentinel)
	intact := rerr == nil && string(got) == hashA+"\n"
	ents, _ := os.ReadDir(outside)
	return lib.List(lib.Sym("symlink"), lib.Bool(intact), lib.Bool(leaked), lib.Int(int64(len(ents)))), res
}

func main() {
	lib.Main(func(c lib.Case) (lib.Out, any) {
		if c.Bool("symlink") {
			return symlinkCase(c)
		}
		if c.Bool("symtree") {
			return symtreeCase(c)
		}
		name := string(c.B("name"))
		inner := memfs.New()
		inner.MkdirAll("refs", 0o777)
		write(inner, "HEAD", "ref: refs/heads/zz\n")
		valid := dotgit.VerifValidReferenceName(plumbing.ReferenceName(name)) == nil
		pop := c.Bool("pop") && valid
		if pop {
			pk := hashB + " refs/heads/zz\n"
			if !strings.ContainsAny(name, " ") {
				pk += hashA + " " + name + "\n"
			}
			write(inner, "packed-refs", pk)
			if name != "HEAD" {
				write(inner, name, hashA+"\n")
			}
			write(inner, path.Join("logs", name), "")
		}
		rec := &recfs{Filesystem: inner}
		d := dotgit.New(rec)
		rn := plumbing.ReferenceName(name)
		var err error
		switch c.S("op") {
		case "set":
			err = d.SetRef(plumbing.NewHashReference(rn, plumbing.NewHash(hashB)), nil)
		case "cas":
			err = d.SetRef(plumbing.NewHashReference(rn, plumbing.NewHash(hashB)), plumbing.NewHashReference(rn, plumbing.NewHash(hashA)))
		case "ref":
			_, err = d.Ref(rn)
		case "rm":
			err = d.RemoveRef(rn)
		case "list":
			_, err = d.Refs()
		case "pack":
			err = d.PackRefs()
		case "logread":
			var f billy.File
			f, err = d.ReflogReader(rn)
			if f != nil {
				f.Close()
			}
		case "logwrite":
			var f billy.File
			f, err = d.ReflogWriter(rn)
			if f != nil {
				f.Close()
			}
		case "logdel":
			err = d.DeleteReflog(rn)
		default:
			panic("unknown op")
		}
		seen := map[string]bool{}
		var ps []string
		for _, p := range rec.paths {
			if strings.HasPrefix(path.Base(p), "._packed-refs") {
				p = "<tmp>"
			}
			if !seen[p] {
				seen[p] = true
				ps = append(ps, p)
			}
		}
		sort.Strings(ps)
		outs := []lib.Out{}
		for _, p := range ps {
			outs = append(outs, lib.Str(p))
		}
		extra := map[string]any{"valid": valid, "raw": rec.paths}
		if err != nil {
			extra["err"] = err.Error()
		}
		if errors.Is(err, dotgit.ErrReferenceNameEscape) {
			return lib.List(append([]lib.Out{lib.Sym("refused")}, outs...)...), extra
		}
		_ = os.ErrNotExist
		return lib.List(append([]lib.Out{lib.Sym("touched")}, outs...)...), extra
	})
}
