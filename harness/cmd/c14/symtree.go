// symtree: the part of C14 the lexical theorem leaves out, judged directly on
// the implementation.  A real repository directory (opened the way go-git
// opens repositories: osfs BoundOS, filesystem.NewStorage) whose refs/ and
// logs/ trees contain symbolic links to directories and files elsewhere in
// .git (hooks, info, objects/info) and outside of it; sentinel files sit at
// every target.  One entry point of the property is run; the observable is
// what happened OUTSIDE refs/**, logs/**, packed-refs and the all-caps slots
// (full before/after snapshot), and which sentinel was presented as a
// reference.
package main

import (
	"errors"
	"fmt"
	iofs "io/fs"
	"os"
	"path/filepath"
	"regexp"
	"sort"
	"strings"
	"time"

	"github.com/go-git/go-billy/v6/osfs"
	"github.com/go-git/go-git/v6/plumbing"
	"github.com/go-git/go-git/v6/plumbing/cache"
	"github.com/go-git/go-git/v6/plumbing/format/reflog"
	"github.com/go-git/go-git/v6/storage/filesystem"
	"github.com/go-git/go-git/v6/storage/filesystem/dotgit"

	"verif/harness/lib"
)

var capsSlot = regexp.MustCompile(`^[A-Z_]+$`)

// sentinel hash of the i-th sentinel directory: recognisable when it comes back as a reference value
func sentHash(i int) string { return fmt.Sprintf("5e471e1%033x", i+1) }

var sentDirs = []string{".git/hooks", ".git/info", ".git/objects/info", ".git/hooks/sub", "outside", "outside/deep"}

// allowed reports whether the path (relative to base) is a slot the property lets reference storage use.
func allowed(rel string) bool {
	if !strings.HasPrefix(rel, ".git/") {
		return false
	}
	r := strings.TrimPrefix(rel, ".git/")
	first := strings.SplitN(r, "/", 2)[0]
	if first == "refs" || first == "logs" {
		return true
	}
	if first == ".tmp" { // billy's temp directory for the packed-refs temp file
		return true
	}
	if first == r && (capsSlot.MatchString(r) || strings.HasPrefix(r, "packed-refs") || strings.HasPrefix(r, "._packed-refs")) {
		return true
	}
	return false
}

// snapshot of everything outside the allowed slots; symlinks are not followed.
func snapshot(base string) map[string]string {
	m := map[string]string{}
	filepath.WalkDir(base, func(p string, d iofs.DirEntry, err error) error {
		if err != nil {
			return nil
		}
		rel, _ := filepath.Rel(base, p)
		rel = filepath.ToSlash(rel)
		if rel == "." {
			return nil
		}
		if allowed(rel) {
			if d.IsDir() {
				return filepath.SkipDir
			}
			return nil
		}
		switch {
		case d.Type()&iofs.ModeSymlink != 0:
			t, _ := os.Readlink(p)
			m[rel] = "L" + t
		case d.IsDir():
			m[rel] = "D"
		default:
			b, _ := os.ReadFile(p)
			m[rel] = "F" + string(b)
		}
		return nil
	})
	return m
}

func strs(xs []string) lib.Out {
	sort.Strings(xs)
	o := []lib.Out{}
	for _, x := range xs {
		o = append(o, lib.Str(x))
	}
	return lib.List(o...)
}

func symtreeCase(c lib.Case) (lib.Out, any) {
	base, err := os.MkdirTemp("", "verif-c14t-")
	if err != nil {
		panic(err)
	}
	defer os.RemoveAll(base)
	if b, err := filepath.EvalSymlinks(base); err == nil {
		base = b
	}
	git := filepath.Join(base, ".git")
	must := func(err error) {
		if err != nil {
			panic("setup: " + err.Error())
		}
	}
	wr := func(rel, content string) {
		p := filepath.Join(base, filepath.FromSlash(rel))
		must(os.MkdirAll(filepath.Dir(p), 0o777))
		must(os.WriteFile(p, []byte(content), 0o666))
	}
	wr(".git/HEAD", "ref: refs/heads/main\n")
	wr(".git/config", "[core]\n\trepositoryformatversion = 0\n\tbare = false\n")
	wr(".git/refs/heads/main", hashA+"\n")
	wr(".git/refs/heads/topic/one", hashB+"\n")
	wr(".git/refs/tags/v1", hashA+"\n")
	wr(".git/logs/HEAD", "")
	wr(".git/logs/refs/heads/main", "")
	wr(".git/objects/pack/.keep", "")
	if c.Bool("packed") {
		wr(".git/packed-refs", "# pack-refs with: peeled fully-peeled sorted \n"+hashB+" refs/heads/old\n"+hashA+" refs/tags/v0\n")
	}
	sentVals := map[string]string{}
	for i, d := range sentDirs {
		wr(d+"/pre-push", "#!/bin/sh\nexit 0\n")
		wr(d+"/exclude", "# exclude patterns\n*.o\n")
		wr(d+"/hashy", sentHash(i)+"\n")
		sentVals[sentHash(i)] = d + "/hashy"
	}
	for _, l := range c.L("links") {
		lk := lib.AsCase(l)
		at := filepath.Join(git, filepath.FromSlash(lk.S("at")))
		to := lk.S("to")
		if strings.HasPrefix(to, "ABS:") {
			to = filepath.Join(base, filepath.FromSlash(strings.TrimPrefix(to, "ABS:")))
		}
		must(os.MkdirAll(filepath.Dir(at), 0o777))
		must(os.Symlink(to, at))
	}
	before := snapshot(base)
	// the one file the name itself denotes once the operating system resolved the links (named operations)
	target := ""
	if nm := string(c.B("name")); nm != "" {
		p := filepath.Join(git, filepath.FromSlash(nm))
		if strings.HasPrefix(c.S("op"), "log") {
			p = filepath.Join(git, "logs", filepath.FromSlash(nm))
		}
		tail := ""
		for p != base && p != "/" {
			if real, err := filepath.EvalSymlinks(p); err == nil {
				if rel, err := filepath.Rel(base, filepath.Join(real, tail)); err == nil {
					target = filepath.ToSlash(rel)
				}
				break
			}
			tail = filepath.Join(filepath.Base(p), tail)
			p = filepath.Dir(p)
		}
	}

	sto := filesystem.NewStorage(osfs.New(git, osfs.WithBoundOS()), cache.NewObjectLRUDefault())
	rn := plumbing.ReferenceName(string(c.B("name")))
	type shown struct{ name, val string }
	var presented []shown // references the operation handed back
	var opErr error
	switch c.S("op") {
	case "ref":
		var r *plumbing.Reference
		r, opErr = sto.Reference(rn)
		if opErr == nil && r != nil {
			presented = append(presented, shown{r.Name().String(), r.Hash().String()})
		}
	case "set":
		opErr = sto.SetReference(plumbing.NewHashReference(rn, plumbing.NewHash(hashB)))
	case "cas":
		// the expected old value is whatever a read gives (so the swap goes through when the read does)
		old, _ := sto.Reference(rn)
		if old == nil {
			old = plumbing.NewHashReference(rn, plumbing.NewHash(hashA))
		}
		opErr = sto.CheckAndSetReference(plumbing.NewHashReference(rn, plumbing.NewHash(hashB)), old)
	case "rm":
		opErr = sto.RemoveReference(rn)
	case "list":
		it, err := sto.IterReferences()
		opErr = err
		if err == nil {
			opErr = it.ForEach(func(r *plumbing.Reference) error {
				presented = append(presented, shown{r.Name().String(), r.Hash().String()})
				return nil
			})
		}
	case "pack":
		opErr = sto.PackRefs()
	case "logread":
		var es []*reflog.Entry
		es, opErr = sto.Reflog(rn)
		for _, e := range es {
			presented = append(presented, shown{"logs/" + rn.String(), e.NewHash.String()})
		}
	case "logwrite":
		opErr = sto.AppendReflog(rn, &reflog.Entry{OldHash: plumbing.NewHash(hashA), NewHash: plumbing.NewHash(hashB),
			Committer: reflog.Signature{Name: "a", Email: "a@b", When: time.Unix(1700000000, 0).UTC()}, Message: "verif"})
	case "logdel":
		opErr = sto.DeleteReflog(rn)
	default:
		panic("unknown op")
	}
	_ = sto.Close()

	after := snapshot(base)
	var created, modified, deleted, leaked []string
	for p, v := range after {
		if o, ok := before[p]; !ok {
			created = append(created, p)
		} else if o != v {
			modified = append(modified, p)
		}
	}
	for p := range before {
		if _, ok := after[p]; !ok {
			deleted = append(deleted, p)
		}
	}
	// a presented reference leaks when it carries a sentinel's value, or when the file its name denotes
	// is, after the operating system resolved the links, not below .git/refs (resp. .git/logs).
	// packed-refs lines written by the operation are presented references too.
	if b, err := os.ReadFile(filepath.Join(git, "packed-refs")); err == nil {
		for _, l := range strings.Split(string(b), "\n") {
			f := strings.Fields(l)
			if len(f) == 2 && !strings.HasPrefix(l, "#") && !strings.HasPrefix(l, "^") {
				presented = append(presented, shown{f[1], f[0]})
			}
		}
	}
	seenLeak := map[string]bool{}
	for _, s := range presented {
		why := ""
		if at, ok := sentVals[s.val]; ok {
			why = s.name + " = value of " + at
		} else if real, err := filepath.EvalSymlinks(filepath.Join(git, filepath.FromSlash(s.name))); err == nil {
			rel, _ := filepath.Rel(base, real)
			rel = filepath.ToSlash(rel)
			if !allowed(rel) {
				why = s.name + " is " + rel
			}
		}
		if why != "" && !seenLeak[why] {
			seenLeak[why] = true
			leaked = append(leaked, why)
		}
	}
	status := "ok"
	switch {
	case errors.Is(opErr, dotgit.ErrReferenceNameEscape):
		status = "refused"
	case opErr != nil:
		status = "err"
	}
	extra := map[string]any{}
	if opErr != nil {
		extra["err"] = opErr.Error()
	}
	return lib.List(lib.Sym("symtree"), lib.Sym(status), lib.Str(target), strs(created), strs(modified), strs(deleted), strs(leaked)), extra
}
