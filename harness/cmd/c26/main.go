// c26: implementation side of the C26 correspondence (worktree path confinement).
//
// suites (field "suite"):
//   lexical  — validPath / ValidTreePath on one path string            -> ( true|false )
//   wfs      — calls on the validating worktreeFilesystem over a NAIVE, recording
//              OS filesystem (follows symlinks like the kernel, no containment of its own)
//   checkout — a repository whose trees are written as RAW bytes (any entry name),
//              pre-planted worktree files / symlinks, then worktree operations of go-git
//              running over the same naive recording filesystem
// For wfs / checkout the reply carries the footprint analysis: every filesystem call that
// reached the naive filesystem with the location it REALLY resolved to, classified as
// inside / escaped the worktree / inside a .git directory, plus sentinel integrity.
package main

import (
	"bytes"
	"crypto/sha1"
	"fmt"
	iofs "io/fs"
	"os"
	"path/filepath"
	"sort"
	"strings"

	"github.com/go-git/go-billy/v6"
	"github.com/go-git/go-billy/v6/osfs"

	git "github.com/go-git/go-git/v6"
	"github.com/go-git/go-git/v6/plumbing"
	"github.com/go-git/go-git/v6/plumbing/cache"
	"github.com/go-git/go-git/v6/plumbing/format/index"
	"github.com/go-git/go-git/v6/plumbing/object"
	"github.com/go-git/go-git/v6/storage/filesystem"

	"verif/harness/lib"
)

// ---------------------------------------------------------------- naive recording filesystem

type rec struct {
	Op   string `json:"op"`
	Path string `json:"path"`
	Real string `json:"real"` // where the kernel resolves the call (relative to the scratch dir)
	Mut  bool   `json:"mut"`
	Cls  string `json:"cls"` // inside | escape | dotgit — directory part resolved, final component as named
	// the same when the call follows a symlink in the final component (open, stat, readdir, mkdirall, chroot)
	ClsF string `json:"clsf"`
}

type rawfs struct {
	root    string // lexical root of this (possibly chrooted) filesystem
	top     string // the worktree root: what "inside" is judged against
	scratch string
	log     *[]rec
}

// resolve the directory part through the kernel's eyes: deepest existing ancestor is
// EvalSymlink'ed, the missing rest is appended; the final component is kept as named.
func realOf(abs string) string {
	dir, base := filepath.Split(filepath.Clean(abs))
	dir = filepath.Clean(dir)
	rest := ""
	for {
		if r, err := filepath.EvalSymlinks(dir); err == nil {
			return filepath.Join(r, rest, base)
		}
		if dir == "/" || dir == "." {
			return filepath.Join(dir, rest, base)
		}
		rest = filepath.Join(filepath.Base(dir), rest)
		dir = filepath.Dir(dir)
	}
}

func (f *rawfs) abs(p string) string { return filepath.Join(f.root, p) }

func (f *rawfs) classify(real string) string {
	realRoot, _ := filepath.EvalSymlinks(f.top)
	rel, err := filepath.Rel(realRoot, real)
	if err != nil || rel == ".." || strings.HasPrefix(rel, "../") {
		return "escape"
	}
	if rel != "." {
		parts := strings.Split(rel, "/")
		for i, c := range parts {
			if strings.ToLower(c) == ".git" && (i == 0 || i < len(parts)-1) {
				return "dotgit"
			}
		}
	}
	return "inside"
}

func (f *rawfs) note(op, p string, mut, followFinal bool) {
	abs := f.abs(p)
	real := realOf(abs)
	r := rec{Op: op, Path: p, Mut: mut, Cls: f.classify(real)}
	r.ClsF = r.Cls
	if followFinal {
		if rf, err := filepath.EvalSymlinks(abs); err == nil {
			r.ClsF = f.classify(rf)
			if r.ClsF != "inside" {
				real = rf
			}
		}
	}
	r.Real, _ = filepath.Rel(f.scratch, real)
	*f.log = append(*f.log, r)
}

func (f *rawfs) Create(n string) (billy.File, error) {
	return f.OpenFile(n, os.O_RDWR|os.O_CREATE|os.O_TRUNC, 0o666)
}
func (f *rawfs) Open(n string) (billy.File, error) { return f.OpenFile(n, os.O_RDONLY, 0) }
func (f *rawfs) OpenFile(n string, flag int, perm iofs.FileMode) (billy.File, error) {
	mut := flag&(os.O_WRONLY|os.O_RDWR|os.O_CREATE|os.O_TRUNC|os.O_APPEND) != 0
	f.note("openfile", n, mut, true)
	if flag&os.O_CREATE != 0 {
		os.MkdirAll(filepath.Dir(f.abs(n)), 0o755)
	}
	fh, err := os.OpenFile(f.abs(n), flag, perm)
	if err != nil {
		return nil, err
	}
	return fh, nil
}
func (f *rawfs) Stat(n string) (os.FileInfo, error)  { f.note("stat", n, false, true); return os.Stat(f.abs(n)) }
func (f *rawfs) Lstat(n string) (os.FileInfo, error) { f.note("lstat", n, false, false); return os.Lstat(f.abs(n)) }
func (f *rawfs) Rename(a, b string) error {
	f.note("rename-from", a, true, false)
	f.note("rename-to", b, true, false)
	os.MkdirAll(filepath.Dir(f.abs(b)), 0o755)
	return os.Rename(f.abs(a), f.abs(b))
}
func (f *rawfs) Remove(n string) error { f.note("remove", n, true, false); return os.Remove(f.abs(n)) }
func (f *rawfs) Join(e ...string) string { return filepath.Join(e...) }
func (f *rawfs) TempFile(dir, prefix string) (billy.File, error) {
	f.note("tempfile", dir, true, true)
	return os.CreateTemp(f.abs(dir), prefix)
}
func (f *rawfs) ReadDir(n string) ([]iofs.DirEntry, error) {
	f.note("readdir", n, false, true)
	return os.ReadDir(f.abs(n))
}
func (f *rawfs) MkdirAll(n string, perm iofs.FileMode) error {
	f.note("mkdirall", n, true, true)
	return os.MkdirAll(f.abs(n), perm)
}
func (f *rawfs) Symlink(target, link string) error {
	f.note("symlink", link, true, false)
	os.MkdirAll(filepath.Dir(f.abs(link)), 0o755)
	return os.Symlink(target, f.abs(link))
}
func (f *rawfs) Readlink(n string) (string, error) {
	f.note("readlink", n, false, false)
	return os.Readlink(f.abs(n))
}
func (f *rawfs) Chroot(p string) (billy.Filesystem, error) {
	f.note("chroot", p, false, true)
	return &rawfs{root: f.abs(p), top: f.top, scratch: f.scratch, log: f.log}, nil
}
func (f *rawfs) Root() string { return f.root }

// ---------------------------------------------------------------- scratch layout and sentinels

type layout struct {
	scratch, wt, outside string
}

func newLayout() layout {
	base := os.Getenv("VERIF_SCRATCH")
	if base == "" {
		if d, err := os.MkdirTemp("/dev/shm", "c26-probe-"); err == nil {
			os.Remove(d)
			base = "/dev/shm"
		}
	}
	d, err := os.MkdirTemp(base, "c26-")
	if err != nil {
		panic(err)
	}
	l := layout{d, filepath.Join(d, "wt"), filepath.Join(d, "outside")}
	os.MkdirAll(l.wt, 0o755)
	os.MkdirAll(filepath.Join(l.outside, "dir"), 0o755)
	os.WriteFile(filepath.Join(l.outside, "sentinel"), []byte("SENTINEL\n"), 0o644)
	os.WriteFile(filepath.Join(l.outside, "dir", "inner"), []byte("INNER\n"), 0o644)
	return l
}

// digest of everything outside the worktree's own files: outside/**, and (when present) wt/.git/**
func digestTree(root string, skip func(rel string) bool) string {
	var lines []string
	filepath.Walk(root, func(p string, fi os.FileInfo, err error) error {
		if err != nil {
			return nil
		}
		rel, _ := filepath.Rel(root, p)
		if skip != nil && skip(rel) {
			return nil
		}
		switch {
		case fi.Mode()&os.ModeSymlink != 0:
			t, _ := os.Readlink(p)
			lines = append(lines, "l "+rel+" "+t)
		case fi.IsDir():
			lines = append(lines, "d "+rel)
		default:
			b, _ := os.ReadFile(p)
			lines = append(lines, fmt.Sprintf("f %s %x", rel, sha1.Sum(b)))
		}
		return nil
	})
	sort.Strings(lines)
	return fmt.Sprintf("%x", sha1.Sum([]byte(strings.Join(lines, "\n"))))
}

func plant(l layout, items []any) {
	for _, x := range items {
		t, _ := x.([]any)
		p := filepath.Join(l.wt, string(lib.Unhex(t[0].(string))))
		kind := t[1].(string)
		arg := string(lib.Unhex(t[2].(string)))
		os.MkdirAll(filepath.Dir(p), 0o755)
		switch kind {
		case "d":
			os.MkdirAll(p, 0o755)
		case "l":
			// targets: "@outside/..." is rewritten to the absolute outside directory
			if strings.HasPrefix(arg, "@outside") {
				arg = l.outside + strings.TrimPrefix(arg, "@outside")
			}
			os.Symlink(arg, p)
		default:
			os.WriteFile(p, []byte(arg), 0o644)
		}
	}
}

type summary struct {
	Records   []rec    `json:"records"`            // only the calls that left the worktree or entered .git
	Calls     int      `json:"calls"`
	Results   []string `json:"results"`
	OutsideOK bool     `json:"outside_ok"`
	GitdirOK  bool     `json:"gitdir_ok"`
}

func summarize(log []rec, results []string, outsideOK, gitdirOK bool) (lib.Out, any) {
	s := summary{Calls: len(log), Results: results, OutsideOK: outsideOK, GitdirOK: gitdirOK}
	for _, r := range log {
		if r.Cls != "inside" || r.ClsF != "inside" {
			s.Records = append(s.Records, r)
		}
	}
	return lib.List(lib.Sym("calls"), lib.Int(int64(len(log)))), s
}

func errClass(err error) string {
	if err == nil {
		return "ok"
	}
	return "err: " + err.Error()
}

// ---------------------------------------------------------------- suite wfs

func runWFS(c lib.Case) (lib.Out, any) {
	l := newLayout()
	defer os.RemoveAll(l.scratch)
	plant(l, c.L("plant"))
	before := digestTree(l.outside, nil)
	var log []rec
	raw := &rawfs{root: l.wt, top: l.wt, scratch: l.scratch, log: &log}
	w := git.VerifWorktreeFilesystem(raw, c.Bool("ntfs"), c.Bool("hfs"))
	var results []string
	for _, x := range c.L("calls") {
		call := lib.AsCase(x)
		p := string(call.B("p"))
		var err error
		switch call.S("m") {
		case "create":
			var f billy.File
			if f, err = w.Create(p); err == nil {
				f.Write([]byte("written"))
				f.Close()
			}
		case "openfile":
			var f billy.File
			if f, err = w.OpenFile(p, os.O_WRONLY|os.O_CREATE|os.O_TRUNC, 0o644); err == nil {
				f.Write([]byte("written"))
				f.Close()
			}
		case "open":
			var f billy.File
			if f, err = w.Open(p); err == nil {
				f.Close()
			}
		case "remove":
			err = w.Remove(p)
		case "mkdirall":
			err = w.MkdirAll(p, 0o755)
		case "symlink":
			err = w.Symlink(string(call.B("q")), p)
		case "rename":
			err = w.Rename(p, string(call.B("q")))
		case "readdir":
			_, err = w.ReadDir(p)
		case "lstat":
			_, err = w.Lstat(p)
		case "stat":
			_, err = w.Stat(p)
		case "readlink":
			_, err = w.Readlink(p)
		case "chroot":
			_, err = w.Chroot(p)
		}
		results = append(results, errClass(err))
	}
	return summarize(log, results, digestTree(l.outside, nil) == before, true)
}

// ---------------------------------------------------------------- suite checkout

// raw tree writer: entries [name bytes, kind f|x|l|d|s, content | nested entries]
func storeRaw(r *git.Repository, typ plumbing.ObjectType, data []byte) plumbing.Hash {
	o := r.Storer.NewEncodedObject()
	o.SetType(typ)
	w, _ := o.Writer()
	w.Write(data)
	w.Close()
	h, err := r.Storer.SetEncodedObject(o)
	if err != nil {
		panic(err)
	}
	return h
}

func rawTree(r *git.Repository, ents []any) plumbing.Hash {
	type te struct {
		name []byte
		mode string
		h    plumbing.Hash
	}
	var tes []te
	for _, x := range ents {
		t, _ := x.([]any)
		name := lib.Unhex(t[0].(string))
		switch t[1].(string) {
		case "d":
			sub, _ := t[2].([]any)
			tes = append(tes, te{name, "40000", rawTree(r, sub)})
		case "x":
			tes = append(tes, te{name, "100755", storeRaw(r, plumbing.BlobObject, lib.Unhex(t[2].(string)))})
		case "l":
			tes = append(tes, te{name, "120000", storeRaw(r, plumbing.BlobObject, lib.Unhex(t[2].(string)))})
		case "s":
			tes = append(tes, te{name, "160000", plumbing.NewHash("1234567890123456789012345678901234567890")})
		default:
			tes = append(tes, te{name, "100644", storeRaw(r, plumbing.BlobObject, lib.Unhex(t[2].(string)))})
		}
	}
	sort.SliceStable(tes, func(i, j int) bool {
		a, b := string(tes[i].name), string(tes[j].name)
		if tes[i].mode == "40000" {
			a += "/"
		}
		if tes[j].mode == "40000" {
			b += "/"
		}
		return a < b
	})
	var buf bytes.Buffer
	for _, e := range tes {
		buf.WriteString(e.mode + " ")
		buf.Write(e.name)
		buf.WriteByte(0)
		buf.Write(e.h.Bytes())
	}
	return storeRaw(r, plumbing.TreeObject, buf.Bytes())
}

func runCheckout(c lib.Case) (lib.Out, any) {
	l := newLayout()
	defer os.RemoveAll(l.scratch)
	gitdir := filepath.Join(l.wt, ".git")
	var log []rec
	raw := &rawfs{root: l.wt, top: l.wt, scratch: l.scratch, log: &log}
	st := filesystem.NewStorage(osfs.New(gitdir), cache.NewObjectLRUDefault())
	r, err := git.Init(st, git.WithWorkTree(raw))
	if err != nil {
		panic(err)
	}
	cfg, _ := r.Config()
	cfg.Raw.Section("core").SetOption("protectNTFS", fmt.Sprint(c.Bool("ntfs")))
	cfg.Raw.Section("core").SetOption("protectHFS", fmt.Sprint(c.Bool("hfs")))
	r.SetConfig(cfg)
	var commits []plumbing.Hash
	for i, cm := range c.L("commits") {
		tree := rawTree(r, lib.AsCase(cm).L("tree"))
		body := fmt.Sprintf("tree %s\n", tree)
		if i > 0 {
			body += fmt.Sprintf("parent %s\n", commits[i-1])
		}
		body += "author v <v@v> 1000000000 +0000\ncommitter v <v@v> 1000000000 +0000\n\nc\n"
		commits = append(commits, storeRaw(r, plumbing.CommitObject, []byte(body)))
	}
	if len(commits) > 0 {
		r.Storer.SetReference(plumbing.NewHashReference("refs/heads/master", commits[0]))
		// start from commit 0 checked out the honest way when asked to
		if c.Bool("start0") {
			if w, err := r.Worktree(); err == nil {
				w.Reset(&git.ResetOptions{Commit: commits[0], Mode: git.HardReset})
			}
		}
	}
	plant(l, c.L("plant"))
	log = log[:0]
	outsideBefore := digestTree(l.outside, nil)
	// the repository's own files may legitimately change (index, HEAD, refs): only hooks/config/objects of
	// .git must not be written THROUGH THE WORKTREE filesystem — that is what the records say; here we
	// check the sentinel file planted inside .git
	os.WriteFile(filepath.Join(gitdir, "sentinel"), []byte("GITSENTINEL\n"), 0o644)
	os.MkdirAll(filepath.Join(gitdir, "hooks"), 0o755)
	sentinelDigest := func() string {
		return digestTree(gitdir, func(rel string) bool {
			return !(rel == "." || rel == "sentinel" || rel == "hooks" || strings.HasPrefix(rel, "hooks/") || rel == "config")
		})
	}
	gitBefore := sentinelDigest()
	var results []string
	for _, x := range c.L("ops") {
		op := lib.AsCase(x)
		// reopen: protect flags are read when the worktree is created
		r2, err := git.Open(st, raw)
		if err != nil {
			results = append(results, errClass(err))
			continue
		}
		w, err := r2.Worktree()
		if err != nil {
			results = append(results, errClass(err))
			continue
		}
		hash := plumbing.ZeroHash
		if n := int(op.I("commit")); n >= 0 && n < len(commits) {
			hash = commits[n]
		}
		p := string(op.B("p"))
		switch op.S("op") {
		case "checkout":
			err = w.Checkout(&git.CheckoutOptions{Hash: hash, Force: op.Bool("force")})
		case "reset":
			mode := map[string]git.ResetMode{"hard": git.HardReset, "merge": git.MergeReset, "mixed": git.MixedReset, "keep": git.KeepReset}[op.S("mode")]
			err = w.Reset(&git.ResetOptions{Commit: hash, Mode: mode})
		case "add":
			_, err = w.Add(p)
		case "remove":
			_, err = w.Remove(p)
		case "move":
			_, err = w.Move(p, string(op.B("q")))
		case "clean":
			err = w.Clean(&git.CleanOptions{Dir: true})
		case "status":
			_, err = w.Status()
		case "submodules":
			var subs git.Submodules
			if subs, err = w.Submodules(); err == nil {
				err = subs.Init()
			}
		case "setindex":
			// an index whose entry names are hostile (as a hostile .git/index would have)
			idx := &index.Index{Version: 2}
			for _, n := range op.SL("names") {
				idx.Entries = append(idx.Entries, &index.Entry{Name: string(lib.Unhex(n)), Mode: 0o100644,
					Hash: storeRaw(r, plumbing.BlobObject, []byte("idx"))})
			}
			err = r2.Storer.SetIndex(idx)
		}
		results = append(results, errClass(err))
	}
	_ = object.Tree{}
	return summarize(log, results, digestTree(l.outside, nil) == outsideBefore, sentinelDigest() == gitBefore)
}

func main() {
	lib.Main(func(c lib.Case) (lib.Out, any) {
		switch c.S("suite") {
		case "wfs":
			return runWFS(c)
		case "checkout":
			return runCheckout(c)
		}
		p := string(c.B("path"))
		var err error
		if c.S("fn") == "tree" {
			err = git.VerifValidTreePath(p)
		} else {
			err = git.VerifValidPath(c.Bool("ntfs"), c.Bool("hfs"), p)
		}
		return lib.Bool(err == nil), nil
	})
}
