// c15: implementation side of the C15 correspondence — the filesystem
// reference store (storage/filesystem ReferenceStorage over dotgit.DotGit on a
// real directory) driven by operation sequences; the final state is shown to
// the git binary.
package main

import (
	"bytes"
	"compress/zlib"
	"crypto/sha1"
	"encoding/hex"
	"errors"
	"fmt"
	"os"
	"os/exec"
	"path/filepath"
	"sort"
	"strings"

	"github.com/go-git/go-billy/v6/osfs"
	"github.com/go-git/go-git/v6/plumbing"
	"github.com/go-git/go-git/v6/plumbing/cache"
	"github.com/go-git/go-git/v6/storage"
	"github.com/go-git/go-git/v6/storage/filesystem"
	"github.com/go-git/go-git/v6/storage/filesystem/dotgit"

	"verif/harness/lib"
)

func errClass(err error) lib.Out {
	switch {
	case errors.Is(err, dotgit.ErrReferenceNameEscape):
		return lib.Err("escape")
	case errors.Is(err, storage.ErrReferenceHasChanged):
		return lib.Err("changed")
	case errors.Is(err, plumbing.ErrReferenceNotFound):
		return lib.Err("notfound")
	case errors.Is(err, dotgit.ErrPackedRefsBadFormat):
		return lib.Err("badpacked")
	case errors.Is(err, dotgit.ErrEmptyRefFile):
		return lib.Err("empty")
	case errors.Is(err, dotgit.ErrIsDir):
		return lib.Err("isdir")
	}
	return lib.Err("fs")
}

func mkRef(name string, v lib.Case) *plumbing.Reference {
	if v == nil {
		return nil
	}
	if s, ok := v["sym"].(string); ok {
		return plumbing.NewSymbolicReference(plumbing.ReferenceName(name), plumbing.ReferenceName(string(lib.Unhex(s))))
	}
	return plumbing.NewHashReference(plumbing.ReferenceName(name), plumbing.NewHash(v.S("h")))
}

func refOut(r *plumbing.Reference) lib.Out {
	switch r.Type() {
	case plumbing.SymbolicReference:
		return lib.List(lib.Str(string(r.Name())), lib.Sym("sym"), lib.Str(string(r.Target())))
	case plumbing.HashReference:
		return lib.List(lib.Str(string(r.Name())), lib.Sym("hash"), lib.Str(r.Hash().String()))
	}
	return lib.List(lib.Str(string(r.Name())), lib.Sym("invalid"))
}

func writeObj(dir, typ string, body []byte) string {
	raw := append([]byte(fmt.Sprintf("%s %d\x00", typ, len(body))), body...)
	sum := sha1.Sum(raw)
	h := hex.EncodeToString(sum[:])
	var z bytes.Buffer
	w := zlib.NewWriter(&z)
	w.Write(raw)
	w.Close()
	p := filepath.Join(dir, "objects", h[:2], h[2:])
	os.MkdirAll(filepath.Dir(p), 0o777)
	os.WriteFile(p, z.Bytes(), 0o444)
	return h
}

// the generator's value pool, as loose objects so that git accepts the refs:
// the empty tree, commits "v0".."v7" and two annotated tags (of v0 and v1)
func writePool(dir string) {
	tree := writeObj(dir, "tree", nil)
	var hs []string
	for i := 0; i < 8; i++ {
		hs = append(hs, writeObj(dir, "commit", []byte(fmt.Sprintf("tree %s\nauthor V <v@example.com> 0 +0000\ncommitter V <v@example.com> 0 +0000\n\nv%d\n", tree, i))))
	}
	for i := 0; i < 2; i++ {
		writeObj(dir, "tag", []byte(fmt.Sprintf("object %s\ntype commit\ntag t%d\ntagger V <v@example.com> 0 +0000\n\nm\n", hs[i], i)))
	}
}

func snapshot(dir string) (files [][2]string, dirs []string) {
	filepath.Walk(dir, func(p string, fi os.FileInfo, err error) error {
		if err != nil {
			return nil
		}
		rel, _ := filepath.Rel(dir, p)
		if rel == "." {
			return nil
		}
		if rel == "objects" {
			return filepath.SkipDir
		}
		if fi.IsDir() {
			dirs = append(dirs, hex.EncodeToString([]byte(rel)))
		} else {
			b, _ := os.ReadFile(p)
			files = append(files, [2]string{hex.EncodeToString([]byte(rel)), hex.EncodeToString(b)})
		}
		return nil
	})
	return
}

func gitRun(dir string, args ...string) (string, int) {
	cmd := exec.Command("/usr/bin/git", append([]string{"--git-dir=" + dir}, args...)...)
	cmd.Env = []string{"PATH=/usr/bin:/bin", "HOME=" + dir, "GIT_CONFIG_NOSYSTEM=1", "LC_ALL=C"}
	cmd.Dir = dir
	out, err := cmd.Output()
	rc := 0
	if err != nil {
		rc = 1
		if ee, ok := err.(*exec.ExitError); ok {
			rc = ee.ExitCode()
		}
	}
	return string(out), rc
}

func main() {
	// the value pool lives in one shared object directory, borrowed by every
	// case directory through objects/info/alternates
	poolDir, err := os.MkdirTemp("", "verif-c15-pool-")
	if err != nil {
		panic(err)
	}
	defer os.RemoveAll(poolDir)
	writePool(poolDir)
	lib.Main(func(c lib.Case) (lib.Out, any) {
		dir, err := os.MkdirTemp("", "verif-c15-")
		if err != nil {
			panic(err)
		}
		defer os.RemoveAll(dir)
		for _, d := range []string{"objects/info", "objects/pack", "refs/heads", "refs/tags"} {
			os.MkdirAll(filepath.Join(dir, d), 0o777)
		}
		os.WriteFile(filepath.Join(dir, "objects/info/alternates"), []byte(filepath.Join(poolDir, "objects")+"\n"), 0o666)
		init := c.M("init")
		for _, e := range init.L("files") {
			pair := e.([]any)
			p := filepath.Join(dir, string(lib.Unhex(pair[0].(string))))
			os.MkdirAll(filepath.Dir(p), 0o777)
			if err := os.WriteFile(p, lib.Unhex(pair[1].(string)), 0o666); err != nil {
				panic(err)
			}
		}
		for _, e := range init.SL("dirs") {
			os.MkdirAll(filepath.Join(dir, string(lib.Unhex(e))), 0o777)
		}
		st := filesystem.NewStorage(osfs.New(dir, osfs.WithBoundOS()), cache.NewObjectLRUDefault())
		defer st.Close()

		var outs []lib.Out
		for _, o := range c.L("ops") {
			op := lib.AsCase(o)
			name := string(lib.Unhex(op.S("name")))
			switch op.S("op") {
			case "set":
				r := mkRef(name, op.M("val"))
				var err error
				if old := op.M("old"); old != nil {
					err = st.CheckAndSetReference(r, mkRef(name, old))
				} else {
					err = st.SetReference(r)
				}
				if err != nil {
					outs = append(outs, errClass(err))
				} else {
					outs = append(outs, lib.Ok())
				}
			case "ref":
				r, err := st.Reference(plumbing.ReferenceName(name))
				if err != nil {
					outs = append(outs, errClass(err))
				} else {
					outs = append(outs, lib.Ok(refOut(r)))
				}
			case "refs":
				it, err := st.IterReferences()
				if err != nil {
					outs = append(outs, errClass(err))
					break
				}
				var rs []*plumbing.Reference
				it.ForEach(func(r *plumbing.Reference) error { rs = append(rs, r); return nil })
				sort.SliceStable(rs, func(i, j int) bool { return rs[i].Name() < rs[j].Name() })
				l := []lib.Out{}
				for _, r := range rs {
					l = append(l, refOut(r))
				}
				outs = append(outs, lib.Ok(lib.List(l...)))
			case "rm":
				if err := st.RemoveReference(plumbing.ReferenceName(name)); err != nil {
					outs = append(outs, errClass(err))
				} else {
					outs = append(outs, lib.Ok())
				}
			case "pack":
				if err := st.PackRefs(); err != nil {
					outs = append(outs, errClass(err))
				} else {
					outs = append(outs, lib.Ok())
				}
			default:
				panic("unknown op " + op.S("op"))
			}
		}
		extra := map[string]any{}
		if c.Bool("snapshot") {
			f, d := snapshot(dir)
			extra["files"], extra["dirs"] = f, d
		}
		if c.Bool("git") {
			o, rc := gitRun(dir, "show-ref", "--head", "-d")
			extra["show_ref"], extra["show_ref_rc"] = o, rc
			sym := map[string]string{}
			if it, err := st.IterReferences(); err == nil {
				it.ForEach(func(r *plumbing.Reference) error {
					if r.Type() == plumbing.SymbolicReference {
						if o, rc := gitRun(dir, "symbolic-ref", string(r.Name())); rc == 0 {
							sym[hex.EncodeToString([]byte(r.Name()))] = hex.EncodeToString([]byte(strings.TrimSuffix(o, "\n")))
						} else {
							sym[hex.EncodeToString([]byte(r.Name()))] = "!"
						}
					}
					return nil
				})
			}
			extra["symbolic"] = sym
		}
		return lib.List(outs...), extra
	})
}
