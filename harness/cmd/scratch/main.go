package main

import (
	"fmt"

	"github.com/go-git/go-git/v6/config"
)

func main() {
	s := config.RefSpec("+refs/heads/*:refs/remotes/origin/*")
	r := s.Reverse()
	fmt.Println(r, r.Src(), r.Match("refs/remotes/origin/x"), r.Dst("refs/remotes/origin/x"), r.IsForceUpdate())
	s2 := config.RefSpec("+refs/heads/a:refs/heads/b")
	fmt.Println(s2.Reverse(), s2.Reverse().Src(), s2.Reverse().Dst(""))
}
