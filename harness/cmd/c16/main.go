// c16: implementation side of the C16 correspondence: concurrent
// DotGit.SetRef (check-and-set and unconditional), DotGit.Ref and
// DotGit.PackRefs on one reference, interleaved at filesystem-call granularity.
//
// No yield point exists inside go-git: every thread gets its own DotGit (its
// own "process") over its own instance of a billy.Filesystem wrapper sharing
// one on-disk directory; the wrapper parks the calling goroutine before each
// call that touches the loose reference file or packed-refs until the schedule
// releases it.  flock is the real flock of osfs; the wrapper only keeps a
// table of holders so that the driver knows when a Lock call would block.
package main

import (
	"errors"
	"fmt"
	"io/fs"
	"os"
	"path"
	"path/filepath"
	"runtime/debug"
	"strconv"
	"strings"
	"syscall"
	"time"

	"github.com/go-git/go-billy/v6"
	"github.com/go-git/go-billy/v6/osfs"
	"github.com/go-git/go-git/v6/plumbing"
	"github.com/go-git/go-git/v6/storage"
	"github.com/go-git/go-git/v6/storage/filesystem/dotgit"

	"verif/harness/lib"
)

const (
	refName    = "refs/heads/main"
	loosePath  = "refs/heads/main"
	looseDir   = "refs/heads"
	packedPath = "packed-refs"
)

// ---- values -------------------------------------------------------------

type value struct {
	sym bool
	n   int64
}

func (v value) out() lib.Out {
	if v.sym {
		return lib.List(lib.Sym("s"), lib.Int(v.n))
	}
	return lib.List(lib.Sym("h"), lib.Int(v.n))
}

func (v value) ref() *plumbing.Reference {
	if v.sym {
		return plumbing.NewSymbolicReference(refName, plumbing.ReferenceName(fmt.Sprintf("refs/heads/t%d", v.n)))
	}
	return plumbing.NewHashReference(refName, plumbing.NewHash(fmt.Sprintf("%040x", v.n)))
}

func (v value) content() string {
	if v.sym {
		return fmt.Sprintf("ref: refs/heads/t%d\n", v.n)
	}
	return fmt.Sprintf("%040x\n", v.n)
}

func parseValue(c lib.Case) *value {
	if c == nil {
		return nil
	}
	return &value{sym: c.S("t") == "s", n: c.I("n")}
}

// text of a loose file / packed line -> value out, or garbage
func decode(s string) lib.Out {
	s = strings.TrimSpace(s)
	if t, ok := strings.CutPrefix(s, "ref: refs/heads/t"); ok {
		if n, err := strconv.ParseInt(t, 10, 64); err == nil {
			return value{true, n}.out()
		}
	}
	if len(s) == 40 {
		if n, err := strconv.ParseInt(strings.TrimLeft(s, "0"), 16, 64); err == nil {
			return value{false, n}.out()
		}
	}
	return lib.Sym("garbage")
}

func refOut(r *plumbing.Reference) lib.Out {
	if r.Type() == plumbing.SymbolicReference {
		return decode("ref: " + string(r.Target()))
	}
	return decode(r.Hash().String())
}

// ---- scheduler ------------------------------------------------------------

type event struct {
	done   bool
	result lib.Out
	panic  string
}

type thread struct {
	id      int
	wake    chan struct{}
	ev      chan event
	at      string // the call the thread is parked before
	lockKey uint64 // inode the pending Lock call is for (at == "lock")
	done    bool
	result  lib.Out
	first   int // index of the first / last executed step (for the oracle)
	last    int
}

type world struct {
	root    string
	threads []*thread
	holder  map[uint64]int // inode -> thread holding its flock
	cur     *thread
	free    bool // no scheduling (set-up, final read)
	panics  []string
}

func (w *world) yield(at string, key uint64) {
	t := w.cur
	if w.free || t == nil {
		return
	}
	t.at, t.lockKey = at, key
	t.ev <- event{}
	<-t.wake
	t.at = ""
}

func (w *world) resume(t *thread) event {
	w.cur = t
	t.wake <- struct{}{}
	var e event
	select {
	case e = <-t.ev:
	case <-time.After(20 * time.Second):
		e = event{done: true, result: lib.Err("hang")}
		t.done = true
	}
	w.cur = nil
	if e.done {
		t.done, t.result = true, e.result
		if e.panic != "" {
			w.panics = append(w.panics, e.panic)
		}
	}
	return e
}

// ---- the filesystem wrapper -------------------------------------------------

type sfs struct {
	billy.Filesystem
	w *world
}

type sfile struct {
	billy.File
	w       *world
	p       string
	ino     uint64
	read    bool
	written bool
	locked  bool
}

func clean(p string) string { return path.Clean(filepath.ToSlash(p)) }

func interesting(p string) bool { return p == loosePath || p == packedPath }

func (w *world) inoOf(p string) uint64 {
	fi, err := os.Stat(filepath.Join(w.root, p))
	if err != nil {
		return 0
	}
	if st, ok := fi.Sys().(*syscall.Stat_t); ok {
		return st.Ino
	}
	return 0
}

func (f *sfs) wrap(file billy.File, err error, p string) (billy.File, error) {
	if err != nil || !interesting(p) {
		return file, err
	}
	return &sfile{File: file, w: f.w, p: p, ino: f.w.inoOf(p)}, nil
}

func (f *sfs) OpenFile(name string, flag int, perm fs.FileMode) (billy.File, error) {
	p := clean(name)
	if interesting(p) {
		f.w.yield("open", 0)
	}
	file, err := f.Filesystem.OpenFile(name, flag, perm)
	return f.wrap(file, err, p)
}

func (f *sfs) Open(name string) (billy.File, error) {
	p := clean(name)
	if interesting(p) {
		f.w.yield("open", 0)
	}
	file, err := f.Filesystem.Open(name)
	return f.wrap(file, err, p)
}

func (f *sfs) Create(name string) (billy.File, error) {
	p := clean(name)
	if interesting(p) {
		f.w.yield("open", 0)
	}
	file, err := f.Filesystem.Create(name)
	return f.wrap(file, err, p)
}

func (f *sfs) Stat(name string) (fs.FileInfo, error) {
	if clean(name) == loosePath {
		f.w.yield("stat", 0)
	}
	return f.Filesystem.Stat(name)
}

func (f *sfs) Lstat(name string) (fs.FileInfo, error) {
	if clean(name) == loosePath {
		f.w.yield("stat", 0)
	}
	return f.Filesystem.Lstat(name)
}

func (f *sfs) ReadDir(name string) ([]fs.DirEntry, error) {
	if clean(name) == looseDir {
		f.w.yield("readdir", 0)
	}
	return f.Filesystem.ReadDir(name)
}

func (f *sfs) Rename(from, to string) error {
	if interesting(clean(to)) || interesting(clean(from)) {
		f.w.yield("rename", 0)
	}
	return f.Filesystem.Rename(from, to)
}

func (f *sfs) Remove(name string) error {
	if interesting(clean(name)) {
		f.w.yield("remove", 0)
	}
	return f.Filesystem.Remove(name)
}

func (f *sfs) Capabilities() billy.Capability { return billy.Capabilities(f.Filesystem) }

func (f *sfile) Read(b []byte) (int, error) {
	if !f.read {
		f.read = true
		f.w.yield("read", 0)
	}
	return f.File.Read(b)
}

func (f *sfile) Write(b []byte) (int, error) {
	if !f.written {
		f.written = true
		f.w.yield("write", 0)
	}
	return f.File.Write(b)
}

func (f *sfile) Truncate(n int64) error {
	f.w.yield("truncate", 0)
	return f.File.Truncate(n)
}

func (f *sfile) Lock() error {
	l, ok := f.File.(billy.Locker)
	if !ok {
		return nil
	}
	f.w.yield("lock", f.ino)
	err := l.Lock()
	if err == nil && !f.w.free && f.w.cur != nil {
		f.locked = true
		f.w.holder[f.ino] = f.w.cur.id
	}
	return err
}

func (f *sfile) Unlock() error {
	l, ok := f.File.(billy.Locker)
	if !ok {
		return nil
	}
	if f.locked {
		f.w.yield("unlock", 0)
	}
	err := l.Unlock()
	if f.locked {
		f.locked = false
		delete(f.w.holder, f.ino)
	}
	return err
}

func (f *sfile) Close() error {
	if f.locked {
		f.w.yield("close", 0)
	}
	err := f.File.Close()
	if f.locked {
		f.locked = false
		delete(f.w.holder, f.ino)
	}
	return err
}

// ---- a case -------------------------------------------------------------------

func (w *world) disk() lib.Out {
	var lo, pk lib.Out
	b, err := os.ReadFile(filepath.Join(w.root, loosePath))
	switch {
	case err != nil:
		lo = lib.Sym("absent")
	case len(b) == 0:
		lo = lib.Sym("empty")
	default:
		lo = decode(string(b))
	}
	b, err = os.ReadFile(filepath.Join(w.root, packedPath))
	if err != nil {
		pk = lib.Sym("nofile")
	} else {
		pk = lib.Sym("noline")
		for _, line := range strings.Split(string(b), "\n") {
			if h, ok := strings.CutSuffix(line, " "+refName); ok {
				pk = decode(h)
			}
		}
	}
	return lib.List(lo, pk)
}

func classify(err error) lib.Out {
	switch {
	case err == nil:
		return lib.Sym("ok")
	case errors.Is(err, storage.ErrReferenceHasChanged):
		return lib.Err("changed")
	case errors.Is(err, plumbing.ErrReferenceNotFound):
		return lib.Err("notfound")
	case errors.Is(err, dotgit.ErrEmptyRefFile):
		return lib.Err("empty")
	}
	return lib.List(lib.Sym("err"), lib.Sym("other"), lib.Str(err.Error()))
}

func (w *world) spawn(id int, k lib.Case) *thread {
	t := &thread{id: id, wake: make(chan struct{}), ev: make(chan event, 1), first: -1, last: -1}
	d := dotgit.New(&sfs{Filesystem: osfs.New(w.root), w: w})
	body := func() lib.Out {
		switch k.S("k") {
		case "cas":
			return classify(d.SetRef(parseValue(k.M("new")).ref(), parseValue(k.M("old")).ref()))
		case "set":
			return classify(d.SetRef(parseValue(k.M("new")).ref(), nil))
		case "read":
			r, err := d.Ref(refName)
			if err != nil {
				return classify(err)
			}
			return lib.List(lib.Sym("found"), refOut(r))
		case "pack":
			return classify(d.PackRefs())
		}
		return lib.Err("badkind")
	}
	go func() {
		<-t.wake
		e := event{done: true}
		func() {
			defer func() {
				if r := recover(); r != nil {
					e.panic = fmt.Sprint(r) + "\n" + string(debug.Stack())
					e.result = lib.Sym("panic")
				}
			}()
			e.result = body()
		}()
		t.ev <- e
	}()
	return t
}

// step runs one filesystem call of t; false = not enabled (finished or blocked)
func (w *world) step(t *thread, idx int) bool {
	if t.done {
		return false
	}
	if t.at == "lock" {
		if h, held := w.holder[t.lockKey]; held && h != t.id {
			return false
		}
	}
	if t.first < 0 {
		t.first = idx
	}
	t.last = idx
	w.resume(t)
	return true
}

func writeInit(root string, c lib.Case) {
	os.MkdirAll(filepath.Join(root, looseDir), 0o755)
	if lo := c.M("loose"); lo != nil {
		content := ""
		if v := parseValue(lo.M("v")); lo["v"] != nil && v != nil {
			content = v.content()
		}
		os.WriteFile(filepath.Join(root, loosePath), []byte(content), 0o644)
	}
	if pk := c.M("packed"); pk != nil {
		content := "# pack-refs with: peeled fully-peeled sorted \n"
		if v := parseValue(pk.M("v")); pk["v"] != nil && v != nil {
			content += strings.TrimSpace(v.content()) + " " + refName + "\n"
		}
		os.WriteFile(filepath.Join(root, packedPath), []byte(content), 0o644)
	}
}

func runCase(c lib.Case) (lib.Out, any) {
	root, err := os.MkdirTemp("", "verif-c16-")
	if err != nil {
		panic(err)
	}
	defer os.RemoveAll(root)
	w := &world{root: root, holder: map[uint64]int{}}
	writeInit(root, c)
	for i, k := range c.L("threads") {
		t := w.spawn(i, lib.AsCase(k))
		w.threads = append(w.threads, t)
		w.resume(t) // up to the first filesystem call of interest: nothing shared has happened
	}
	var steps []lib.Out
	var trace []map[string]any
	prev := lib.Render(w.disk())
	idx := 0
	do := func(tid int, record bool) {
		if tid < 0 || tid >= len(w.threads) {
			if record {
				steps = append(steps, lib.Sym("skip"))
			}
			return
		}
		t := w.threads[tid]
		at := t.at
		ok := w.step(t, idx)
		idx++
		d := w.disk()
		ds := lib.Render(d)
		if record {
			switch {
			case !ok:
				steps = append(steps, lib.Sym("skip"))
			case ds == prev:
				steps = append(steps, lib.Sym("ok"))
			default:
				steps = append(steps, lib.List(lib.Sym("ok"), d))
			}
		}
		if ok {
			trace = append(trace, map[string]any{"i": idx - 1, "t": tid, "at": at, "disk": ds})
		}
		prev = ds
	}
	for _, x := range c.L("sched") {
		do(int(lib.Case{"x": x}.I("x")), true)
	}
	for round := 0; round < 40; round++ {
		for tid := range w.threads {
			do(tid, false)
		}
	}
	var results []lib.Out
	var ops []map[string]any
	for i, t := range w.threads {
		if !t.done {
			t.result = lib.Sym("running")
		}
		results = append(results, t.result)
		ops = append(ops, map[string]any{"t": i, "first": t.first, "last": t.last, "result": lib.Render(t.result)})
	}
	// a sequential reader afterwards
	w.free = true
	var final lib.Out
	r, err := dotgit.New(osfs.New(root)).Ref(refName)
	if err != nil {
		final = classify(err)
	} else {
		final = lib.List(lib.Sym("found"), refOut(r))
	}
	extra := map[string]any{"ops": ops, "trace": trace, "final": lib.Render(final)}
	if len(w.panics) > 0 {
		extra["panic"] = w.panics[0]
	}
	return lib.List(lib.List(steps...), lib.List(results...), w.disk(), final), extra
}

func main() {
	lib.Main(func(c lib.Case) (lib.Out, any) { return runCase(c) })
}
