// c39: implementation side of the C39 correspondence (transport.ReceivePack).
// case: {base, names, objs, init: calls on the store, report: bool,
//        cmds: [[name, old, new]] (object index, -1 = zero id, >= len(objs) = an id of no object),
//        pack: [object indices] | null (no parsable pack follows), reject: bool}
// observable: ( ok|err  report|none  (post cmds)|none  refs  objects )
package main

import (
	"bytes"
	"context"
	"errors"
	"fmt"
	"io"
	"sort"
	"strconv"
	"strings"

	"github.com/go-git/go-git/v6/plumbing"
	"github.com/go-git/go-git/v6/plumbing/format/packfile"
	"github.com/go-git/go-git/v6/plumbing/format/pktline"
	"github.com/go-git/go-git/v6/plumbing/protocol/packp"
	"github.com/go-git/go-git/v6/plumbing/transport"
	"github.com/go-git/go-git/v6/storage/memory"
	"github.com/go-git/go-git/v6/utils/ioutil"

	"verif/harness/b10store"
	"verif/harness/lib"
)

func num(x any) int {
	switch v := x.(type) {
	case float64:
		return int(v)
	case interface{ Int64() (int64, error) }:
		n, _ := v.Int64()
		return int(n)
	}
	return 0
}

func main() {
	lib.Main(func(c lib.Case) (lib.Out, any) {
		spec := c.S("base")
		u := b10store.NewUniverse(c, b10store.Format(spec))
		st, be, err := b10store.Open(spec)
		if err != nil {
			panic(err)
		}
		defer be.Close(st)
		u.Run(st, c.L("init"))

		id := func(k int) plumbing.Hash {
			if k < 0 {
				return plumbing.ZeroHash
			}
			return u.Hash(k)
		}
		type cmd struct{ name, old, new int }
		var cmds []cmd
		for _, x := range c.L("cmds") {
			p := x.([]any)
			cmds = append(cmds, cmd{num(p[0]), num(p[1]), num(p[2])})
		}

		// the request on the wire
		var req bytes.Buffer
		caps := ""
		if c.Bool("report") {
			caps = " report-status"
		}
		for i, k := range cmds {
			line := fmt.Sprintf("%s %s %s", id(k.old), id(k.new), u.Names[k.name])
			if i == 0 {
				pktline.Writef(&req, "%s\x00%s", line, caps)
			} else {
				pktline.Write(&req, []byte(line))
			}
		}
		pktline.WriteFlush(&req)
		if pk, ok := c["pack"].([]any); ok {
			src := memory.NewStorage()
			var hs []plumbing.Hash
			for _, x := range pk {
				h, err := src.SetEncodedObject(u.Obj(num(x)))
				if err != nil {
					panic(err)
				}
				hs = append(hs, h)
			}
			enc := packfile.NewEncoder(&req, src, false)
			if _, err := enc.Encode(hs, 10); err != nil {
				panic(err)
			}
		}

		var out bytes.Buffer
		var post lib.Out = lib.Sym("none")
		opts := &transport.ReceivePackRequest{StatelessRPC: true}
		if c.Bool("reject") {
			opts.Hooks.PreReceive = func(context.Context, *transport.PreReceiveInfo) error {
				return errors.New("refused by policy")
			}
		}
		opts.Hooks.PostReceive = func(_ context.Context, info *transport.PostReceiveInfo) error {
			var l []lib.Out
			for _, k := range info.Commands {
				l = append(l, lib.Sym("c"+nameIdx(u, string(k.Name))+"_"+hashIdx(u, k.Old)+"_"+hashIdx(u, k.New)))
			}
			post = lib.List(l...)
			return nil
		}
		rerr := transport.ReceivePack(context.Background(), st, io.NopCloser(&req), ioutil.WriteNopCloser(&out), opts)

		var result lib.Out = lib.Sym("ok")
		if rerr != nil {
			result = lib.Sym("err")
		}
		var report lib.Out = lib.Sym("none")
		if out.Len() > 0 {
			rs := &packp.ReportStatus{}
			if err := rs.Decode(bytes.NewReader(out.Bytes())); err != nil {
				report = lib.Sym("undecodable")
			} else {
				type ent struct {
					n  int
					ok bool
				}
				var es []ent
				for _, cs := range rs.CommandStatuses {
					n := 1 << 20
					for i, nm := range u.Names {
						if nm == string(cs.ReferenceName) {
							n = i
						}
					}
					es = append(es, ent{n, cs.Status == "ok"})
				}
				// canonical order: by name, keeping the order of entries of one name
				sort.SliceStable(es, func(i, j int) bool { return es[i].n < es[j].n })
				kg := func(b bool) string {
					if b {
						return "k"
					}
					return "g"
				}
				var b strings.Builder
				b.WriteString("R" + kg(rs.UnpackStatus == "ok"))
				for _, e := range es {
					b.WriteString("_" + strconv.Itoa(e.n) + kg(e.ok))
				}
				report = lib.Sym(b.String())
			}
		}
		return lib.List(result, report, post, u.RefsListing(st), u.ObjsListing(st)), nil
	})
}

func nameIdx(u *b10store.Universe, n string) string {
	for i, nm := range u.Names {
		if nm == n {
			return strconv.Itoa(i)
		}
	}
	return "Xname"
}

func hashIdx(u *b10store.Universe, h plumbing.Hash) string {
	if h.IsZero() {
		return "z"
	}
	if k, ok := u.IdxOf(h); ok {
		return strconv.Itoa(k)
	}
	return "Xhash"
}
