// c07: implementation side of the C07 correspondence (packfile Encoder, DeltaSelector).
package main

import (
	"bytes"
	"compress/zlib"
	"crypto/sha1"
	"crypto/sha256"
	"encoding/binary"
	"encoding/hex"
	"fmt"
	"hash"
	"io"
	"os"
	"os/exec"
	"path/filepath"

	"github.com/go-git/go-billy/v6/osfs"
	"github.com/go-git/go-git/v6/plumbing"
	"github.com/go-git/go-git/v6/plumbing/cache"
	formatcfg "github.com/go-git/go-git/v6/plumbing/format/config"
	"github.com/go-git/go-git/v6/plumbing/format/packfile"
	"github.com/go-git/go-git/v6/plumbing/storer"
	"github.com/go-git/go-git/v6/storage/filesystem"
	"github.com/go-git/go-git/v6/storage/memory"

	"verif/harness/lib"
)

func expand(v any) []byte {
	var out []byte
	segs, _ := v.([]any)
	for _, s := range segs {
		p, _ := s.([]any)
		pat := lib.Unhex(p[0].(string))
		n := lib.Case{"n": p[1]}.I("n")
		for i := int64(0); i < n; i++ {
			out = append(out, pat...)
		}
	}
	return out
}

func typeOf(s string) plumbing.ObjectType {
	switch s {
	case "commit":
		return plumbing.CommitObject
	case "tree":
		return plumbing.TreeObject
	case "tag":
		return plumbing.TagObject
	}
	return plumbing.BlobObject
}

type passthrough struct{ otps []*packfile.ObjectToPack }

func (p passthrough) ObjectsToPack([]plumbing.Hash, uint) ([]*packfile.ObjectToPack, error) {
	return p.otps, nil
}

// ---- an independent, minimal pack reader (structure only; deltas are resolved with PatchDelta's
// buffer sibling through the public API)
type entry struct {
	off     int64
	typ     int
	size    uint64
	baseOff int64  // OFS_DELTA: absolute offset of the base
	baseID  []byte // REF_DELTA
	data    []byte // inflated payload
}

func readPack(p []byte, hashLen int) (count uint32, es []entry, trailerOK bool, err error) {
	if len(p) < 12+hashLen || string(p[:4]) != "PACK" {
		return 0, nil, false, fmt.Errorf("bad header")
	}
	if binary.BigEndian.Uint32(p[4:8]) != 2 {
		return 0, nil, false, fmt.Errorf("bad version")
	}
	count = binary.BigEndian.Uint32(p[8:12])
	body := p[:len(p)-hashLen]
	var h hash.Hash
	if hashLen == 32 {
		h = sha256.New()
	} else {
		h = sha1.New()
	}
	h.Write(body)
	trailerOK = bytes.Equal(h.Sum(nil), p[len(p)-hashLen:])
	pos := int64(12)
	for pos < int64(len(body)) {
		e := entry{off: pos}
		c := body[pos]
		pos++
		e.typ = int(c>>4) & 7
		e.size = uint64(c & 15)
		shift := uint(4)
		for c&0x80 != 0 {
			c = body[pos]
			pos++
			e.size |= uint64(c&0x7f) << shift
			shift += 7
		}
		switch e.typ {
		case 6:
			c = body[pos]
			pos++
			v := int64(c & 0x7f)
			for c&0x80 != 0 {
				c = body[pos]
				pos++
				v = ((v + 1) << 7) | int64(c&0x7f)
			}
			e.baseOff = e.off - v
		case 7:
			e.baseID = body[pos : pos+int64(hashLen)]
			pos += int64(hashLen)
		}
		br := bytes.NewReader(body[pos:])
		zr, zerr := zlib.NewReader(br)
		if zerr != nil {
			return count, es, trailerOK, zerr
		}
		e.data, zerr = io.ReadAll(zr)
		if zerr != nil {
			return count, es, trailerOK, zerr
		}
		pos = int64(len(body)) - int64(br.Len())
		if uint64(len(e.data)) != e.size {
			return count, es, trailerOK, fmt.Errorf("entry at %d: inflated %d bytes, header says %d", e.off, len(e.data), e.size)
		}
		es = append(es, e)
	}
	return count, es, trailerOK, nil
}

func objID(hashLen int, typ plumbing.ObjectType, b []byte) string {
	var h hash.Hash
	if hashLen == 32 {
		h = sha256.New()
	} else {
		h = sha1.New()
	}
	fmt.Fprintf(h, "%s %d\x00", typ.String(), len(b))
	h.Write(b)
	return hex.EncodeToString(h.Sum(nil))
}

type resolved struct {
	typ  plumbing.ObjectType
	data []byte
	id   string
}

func main() {
	lib.Main(func(c lib.Case) (lib.Out, any) {
		hashLen := 20
		of := formatcfg.SHA1
		if c.S("format") == "sha256" {
			hashLen, of = 32, formatcfg.SHA256
		}
		extra := map[string]any{}
		var st storer.EncodedObjectStorer
		var keys = map[string]int{} // object id -> key (index into objs)
		var objs []plumbing.EncodedObject
		dir := c.S("repo")
		if ph := c.S("packhex"); ph != "" {
			// a repository holding one pack prepared by the generator (so that stored deltas can be reused);
			// the index is written by git itself
			tmp, err := os.MkdirTemp("", "verif-c07-")
			if err != nil {
				panic(err)
			}
			defer os.RemoveAll(tmp)
			dir = filepath.Join(tmp, "r.git")
			args := []string{"init", "-q", "--bare"}
			if hashLen == 32 {
				args = append(args, "--object-format=sha256")
			}
			if out, err := exec.Command("/usr/bin/git", append(args, dir)...).CombinedOutput(); err != nil {
				panic("git init: " + string(out))
			}
			pb := lib.Unhex(ph)
			pp := filepath.Join(dir, "objects", "pack", "pack-"+hex.EncodeToString(pb[len(pb)-hashLen:])+".pack")
			if err := os.WriteFile(pp, pb, 0o644); err != nil {
				panic(err)
			}
			cmd := exec.Command("/usr/bin/git", "--git-dir", dir, "index-pack", pp)
			if out, err := cmd.CombinedOutput(); err != nil {
				return lib.Err("setup"), map[string]any{"error": "git index-pack refused the prepared pack: " + string(out)}
			}
		}
		if dir != "" {
			// objects already stored (and packed) by git; objs lists their ids
			fs := filesystem.NewStorage(osfs.New(dir), cache.NewObjectLRUDefault())
			defer fs.Close()
			st = fs
			for i, id := range c.SL("ids") {
				keys[id] = i
				o, err := fs.EncodedObject(plumbing.AnyObject, plumbing.NewHash(id))
				if err != nil {
					return lib.Err("missing"), map[string]any{"error": err.Error()}
				}
				objs = append(objs, o)
			}
		} else {
			ms := memory.NewStorage(memory.WithObjectFormat(of))
			st = ms
			for i, x := range c.L("objs") {
				oc := lib.AsCase(x)
				o := ms.NewEncodedObject()
				o.SetType(typeOf(oc.S("type")))
				data := expand(oc["data"])
				o.SetSize(int64(len(data)))
				w, _ := o.Writer()
				w.Write(data)
				w.Close()
				if _, err := ms.SetEncodedObject(o); err != nil {
					return lib.Err("store"), map[string]any{"error": err.Error()}
				}
				id := o.Hash().String()
				if _, dup := keys[id]; !dup {
					keys[id] = i
				}
				objs = append(objs, o)
			}
		}
		useRef := c.Bool("ref")
		var otps []*packfile.ObjectToPack
		switch c.S("kind") {
		case "graph":
			nodes := c.L("nodes")
			for _, x := range nodes {
				nc := lib.AsCase(x)
				o := objs[nc.I("obj")]
				otps = append(otps, &packfile.ObjectToPack{Object: o, Original: o})
			}
			for i, x := range nodes {
				nc := lib.AsCase(x)
				b := nc.I("base")
				if b < 0 {
					continue
				}
				d, err := packfile.GetDelta(otps[b].Original, otps[i].Original)
				if err != nil {
					return lib.Err("getdelta"), map[string]any{"error": err.Error()}
				}
				otps[i].SetDelta(otps[b], d)
			}
			for i, x := range nodes {
				if lib.AsCase(x).Bool("clean") && otps[i].IsDelta() {
					otps[i].SaveOriginalMetadata()
					otps[i].CleanOriginal()
				}
			}
		case "limit":
			// leaf: DeltaSelector.deltaSizeLimit on a grid
			var outs []lib.Out
			for _, x := range c.L("args") {
				a := x.([]any)
				v := func(i int) int64 { return lib.Case{"v": a[i]}.I("v") }
				outs = append(outs, lib.Int(packfile.VerifDeltaSizeLimit(v(0), int(v(1)), int(v(2)), v(3) != 0)))
			}
			return lib.List(outs...), nil
		case "select":
			var hs []plumbing.Hash
			for _, k := range c.L("order") {
				hs = append(hs, objs[lib.Case{"k": k}.I("k")].Hash())
			}
			sel := packfile.NewDeltaSelector(st)
			var err error
			otps, err = sel.ObjectsToPack(hs, uint(c.I("window")))
			if err != nil {
				return lib.Err("select"), map[string]any{"error": err.Error()}
			}
			if c.Bool("sel") {
				// what the selection model needs: per requested object (uid = position in the request) its id key,
				// type, size and the id key of the base when the storer hands it out as a stored delta; the order
				// of the returned slice; the size of getDelta's output for every in-window pair of a group
				window := int(c.I("window"))
				uidOf := map[string]int{}
				var info [][]int64
				for u, h := range hs {
					uidOf[h.String()] = u
					o := objs[keys[h.String()]]
					stored, actual := int64(-1), int64(0)
					if dos, ok := st.(storer.DeltaObjectStorer); ok && window > 0 {
						if d, derr := dos.DeltaObject(plumbing.AnyObject, h); derr == nil {
							if do, isd := d.(plumbing.DeltaObject); isd {
								actual = do.ActualSize()
								if k, known := keys[do.BaseHash().String()]; known {
									stored = int64(k)
								} else {
									stored = 999999
								}
							}
						}
					}
					info = append(info, []int64{int64(keys[h.String()]), int64(o.Type()), o.Size(), stored, actual})
				}
				var ord []int64
				for _, o := range otps {
					ord = append(ord, int64(uidOf[o.Hash().String()]))
				}
				var dsz [][]int64
				if window > 0 {
					inReq := map[int64]bool{}
					for _, x := range info {
						inReq[x[0]] = true
					}
					for i := range otps {
						ti := info[ord[i]]
						if ti[1] != int64(plumbing.BlobObject) && ti[1] != int64(plumbing.TreeObject) {
							continue
						}
						if ti[3] >= 0 && inReq[ti[3]] {
							continue // reused delta: never a target
						}
						for j := i - 1; j >= 0 && i-j < window; j-- {
							bi := info[ord[j]]
							if bi[1] != ti[1] {
								break
							}
							d, derr := packfile.GetDelta(objs[bi[0]], objs[ti[0]])
							if derr != nil {
								return lib.Err("getdelta"), map[string]any{"error": derr.Error()}
							}
							dsz = append(dsz, []int64{ord[j], ord[i], d.Size()})
						}
					}
				}
				extra["sel"] = map[string]any{"objs": info, "order": ord, "dsz": dsz}
			}
		default:
			return lib.Err("badcase"), nil
		}
		// the selected graph: per ObjectToPack its object key, the index of its base in the list, its depth
		idx := map[*packfile.ObjectToPack]int{}
		for i, o := range otps {
			idx[o] = i
		}
		var graph [][]int64
		for _, o := range otps {
			b := int64(-1)
			if o.Base != nil {
				if j, ok := idx[o.Base]; ok {
					b = int64(j)
				} else {
					b = -2 // base outside the list
				}
			}
			graph = append(graph, []int64{int64(keys[o.Hash().String()]), b, int64(o.Depth)})
		}
		extra["graph"] = graph
		var graphOut []lib.Out
		for _, g := range graph {
			b := lib.Sym("none")
			if g[1] >= 0 {
				b = lib.Int(g[1])
			} else if g[1] == -2 {
				b = lib.Sym("outside")
			}
			graphOut = append(graphOut, lib.List(lib.Int(g[0]), b, lib.Int(g[2])))
		}

		var buf bytes.Buffer
		enc := packfile.NewEncoder(&buf, st, useRef, packfile.WithObjectSelector(passthrough{otps}))
		ph, err := enc.Encode(nil, 10)
		if err != nil {
			return lib.Err("encode"), map[string]any{"error": err.Error(), "graph": graph}
		}
		pack := buf.Bytes()
		extra["pack"] = hex.EncodeToString(pack)
		extra["packhash"] = ph.String()

		count, es, trailerOK, perr := readPack(pack, hashLen)
		if perr != nil {
			return lib.Err("unreadable"), map[string]any{"error": perr.Error(), "pack": extra["pack"], "graph": graph}
		}
		// resolve entries in order (bases must precede their deltas) and name them by object key
		byOff := map[int64]*resolved{}
		byID := map[string]*resolved{}
		var outs []lib.Out
		for _, e := range es {
			var r resolved
			kind := "full"
			baseKey := int64(-1)
			switch e.typ {
			case 1, 2, 3, 4:
				r.typ = plumbing.ObjectType(e.typ)
				r.data = e.data
			case 6, 7:
				kind = "delta"
				var b *resolved
				if e.typ == 6 {
					b = byOff[e.baseOff]
				} else {
					b = byID[hex.EncodeToString(e.baseID)]
				}
				if b == nil {
					return lib.Err("base-not-before-delta"), map[string]any{"at": e.off, "pack": extra["pack"], "graph": graph}
				}
				out, derr := packfile.VerifPatchDelta(b.data, e.data)
				if derr != nil {
					return lib.Err("delta-does-not-apply"), map[string]any{"at": e.off, "error": derr.Error(), "pack": extra["pack"], "graph": graph}
				}
				r.typ, r.data = b.typ, out
				if k, ok := keys[b.id]; ok {
					baseKey = int64(k)
				}
			default:
				return lib.Err("bad-entry-type"), map[string]any{"at": e.off, "pack": extra["pack"]}
			}
			r.id = objID(hashLen, r.typ, r.data)
			rr := r
			byOff[e.off] = &rr
			byID[r.id] = &rr
			k, ok := keys[r.id]
			if !ok {
				return lib.Err("unknown-object-in-pack"), map[string]any{"at": e.off, "id": r.id, "pack": extra["pack"], "graph": graph}
			}
			if kind == "full" {
				outs = append(outs, lib.List(lib.Int(int64(k)), lib.Sym("full")))
			} else {
				outs = append(outs, lib.List(lib.Int(int64(k)), lib.Sym("delta"), lib.Int(baseKey)))
			}
		}
		encOut := lib.Ok(lib.List(lib.Sym("count"), lib.Uint(uint64(count))), lib.List(outs...),
			lib.List(lib.Sym("trailer"), lib.Bool(trailerOK && ph.String() == hex.EncodeToString(pack[len(pack)-hashLen:]))))
		if c.Bool("sel") {
			return lib.List(lib.List(graphOut...), encOut), extra
		}
		return encOut, extra
	})
}
