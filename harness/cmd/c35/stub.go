// stub mode of the c35 command: a scripted peer for a real git client or
// server process (C-git side of C35).  `c35 stub <plan.json>` talks on
// stdin/stdout (git's ext:: transport connects them to the git client);
// the plan is a list of steps
//
//	{"send": "<file>"}            write the file's bytes
//	{"recv_flush": "<file>"}      read pkt-lines up to and including a flush-pkt, save the raw bytes
//	{"recv_pkts": n, "to": file}  read n pkt-lines
//	{"recv_all_n": n, "to": file} read exactly n bytes
//	{"recv_all": "<file>"}        read until EOF
//
// It never interprets the bytes: what is sent was produced by go-git's
// encoders beforehand, what is received is decoded by go-git afterwards.
package main

import (
	"bufio"
	"encoding/json"
	"io"
	"os"
	"strconv"
)

type stubStep struct {
	Send      string `json:"send"`
	RecvFlush string `json:"recv_flush"`
	RecvPkts  int    `json:"recv_pkts"`
	To        string `json:"to"`
	RecvAll   string `json:"recv_all"`
	RecvN     int    `json:"recv_all_n"`
}

// readPkt reads one pkt-line (raw bytes, header included); flush/delim/response-end are 4 bytes
func readPkt(r *bufio.Reader) ([]byte, int, error) {
	hdr := make([]byte, 4)
	if _, err := io.ReadFull(r, hdr); err != nil {
		return nil, -1, err
	}
	n, err := strconv.ParseUint(string(hdr), 16, 32)
	if err != nil {
		return hdr, -1, err
	}
	if n < 4 {
		return hdr, int(n), nil
	}
	body := make([]byte, n-4)
	if _, err := io.ReadFull(r, body); err != nil {
		return append(hdr, body...), int(n), err
	}
	return append(hdr, body...), int(n), nil
}

func stubMain(plan string) int {
	data, err := os.ReadFile(plan)
	if err != nil {
		return 3
	}
	var steps []stubStep
	if err := json.Unmarshal(data, &steps); err != nil {
		return 3
	}
	in := bufio.NewReader(os.Stdin)
	out := os.Stdout
	for _, s := range steps {
		switch {
		case s.Send != "":
			b, err := os.ReadFile(s.Send)
			if err != nil {
				return 4
			}
			if _, err := out.Write(b); err != nil {
				return 5
			}
		case s.RecvFlush != "":
			var acc []byte
			for {
				p, n, err := readPkt(in)
				acc = append(acc, p...)
				if err != nil || n == 0 {
					break
				}
			}
			_ = os.WriteFile(s.RecvFlush, acc, 0o644)
		case s.RecvPkts > 0:
			var acc []byte
			for i := 0; i < s.RecvPkts; i++ {
				p, _, err := readPkt(in)
				acc = append(acc, p...)
				if err != nil {
					break
				}
			}
			_ = os.WriteFile(s.To, acc, 0o644)
		case s.RecvN > 0:
			b := make([]byte, s.RecvN)
			n, _ := io.ReadFull(in, b)
			_ = os.WriteFile(s.To, b[:n], 0o644)
		case s.RecvAll != "":
			b, _ := io.ReadAll(in)
			_ = os.WriteFile(s.RecvAll, b, 0o644)
		}
	}
	return 0
}
