// Protocol v2 messages of the C35 correspondence: CapabilityAdv, CommandRequest
// (Args nil / *LsRefsArgs / *FetchArgs), LsRefsOutput, FetchOutput.  Mirrors
// Model/PackpV2.v: decoders report the value and the number of bytes they
// left unread in the reader.
package main

import (
	"bytes"
	"errors"
	"io"
	"time"
	"unicode"

	"github.com/go-git/go-git/v6/plumbing"
	"github.com/go-git/go-git/v6/plumbing/format/pktline"
	"github.com/go-git/go-git/v6/plumbing/protocol"
	"github.com/go-git/go-git/v6/plumbing/protocol/capability"
	"github.com/go-git/go-git/v6/plumbing/protocol/packp"

	"verif/harness/lib"
	"verif/harness/pkutil"
)

func derr2(err error) lib.Out {
	var mr *packp.MalformedResponseError
	if errors.As(err, &mr) {
		return lib.Err("malformed")
	}
	var el *pktline.ErrorLine
	switch {
	case errors.As(err, &el):
		return lib.Err("errline")
	case errors.Is(err, io.ErrUnexpectedEOF):
		return lib.Err("unexpected_eof")
	case errors.Is(err, io.EOF):
		return lib.Err("eof")
	case errors.Is(err, pktline.ErrInvalidPktLen):
		return lib.Err("invalid_pktlen")
	}
	return lib.Err("other")
}

func oLsArgs(a *packp.LsRefsArgs) (lib.Out, any) {
	jp := []string{}
	for _, p := range a.RefPrefixes {
		jp = append(jp, hx(p))
	}
	return lib.List(lib.Bool(a.Peel), lib.Bool(a.Symrefs), lib.Bool(a.Unborn), oStrs(a.RefPrefixes)),
		jv{"peel": a.Peel, "symrefs": a.Symrefs, "unborn": a.Unborn, "prefixes": jp}
}

func oFetchArgs(a *packp.FetchArgs) (lib.Out, any) {
	since := lib.None()
	var jsince any
	if !a.DeepenSince.IsZero() {
		since = lib.Some(lib.Int(a.DeepenSince.Unix()))
		jsince = a.DeepenSince.Unix()
	}
	jn := []string{}
	for _, s := range a.DeepenNot {
		jn = append(jn, hx(s))
	}
	flags := []bool{a.Done, a.ThinPack, a.NoProgress, a.IncludeTag, a.OFSDelta, a.DeepenRelative, a.WaitForDone}
	var of []lib.Out
	for _, f := range flags {
		of = append(of, lib.Bool(f))
	}
	return lib.List(oHashes(a.Wants), oHashes(a.Haves), lib.List(of...), oHashes(a.Shallows), lib.Int(int64(a.Deepen)), since,
			oStrs(a.DeepenNot), lib.Str(string(a.Filter))),
		jv{"wants": jHashes(a.Wants), "haves": jHashes(a.Haves), "flags": flags, "shallows": jHashes(a.Shallows),
			"deepen": a.Deepen, "since": jsince, "not": jn, "filter": hx(string(a.Filter))}
}

// decode2 decodes one v2 message kind; -> observable ( ok value rest ) + JSON value
func decode2(msg string, r *pkutil.ChunkReader) (lib.Out, any) {
	fin := func(o lib.Out, v any) (lib.Out, any) {
		return lib.Ok(o, lib.Int(int64(r.Remaining()))), jv{"v": v, "rest": r.Remaining()}
	}
	switch msg {
	case "capadv":
		ca := &packp.CapabilityAdv{}
		if err := ca.Decode(r); err != nil {
			return derr2(err), nil
		}
		return fin(lib.List(lib.Int(int64(ca.Version)), oCaps(&ca.Capabilities)), jv{"version": int(ca.Version), "caps": jCaps(&ca.Capabilities)})
	case "cmd-nil", "cmd-lsrefs", "cmd-fetch":
		c := &packp.CommandRequest{}
		var ls *packp.LsRefsArgs
		var fa *packp.FetchArgs
		switch msg {
		case "cmd-lsrefs":
			ls = &packp.LsRefsArgs{}
			c.Args = ls
		case "cmd-fetch":
			fa = &packp.FetchArgs{}
			c.Args = fa
		}
		if err := c.Decode(r); err != nil {
			return derr2(err), nil
		}
		var oa lib.Out = lib.Sym("nil")
		var ja any
		if ls != nil {
			oa, ja = oLsArgs(ls)
		} else if fa != nil {
			oa, ja = oFetchArgs(fa)
		}
		return fin(lib.List(lib.Str(c.Command), oCaps(&c.Capabilities), oa), jv{"command": hx(c.Command), "caps": jCaps(&c.Capabilities), "args": ja})
	case "lsargs":
		a := &packp.LsRefsArgs{}
		if err := a.Decode(r); err != nil {
			return derr2(err), nil
		}
		o, j := oLsArgs(a)
		return fin(o, j)
	case "fetchargs":
		a := &packp.FetchArgs{}
		if err := a.Decode(r); err != nil {
			return derr2(err), nil
		}
		o, j := oFetchArgs(a)
		return fin(o, j)
	case "lsout":
		lo := &packp.LsRefsOutput{}
		if err := lo.Decode(r); err != nil {
			return derr2(err), nil
		}
		var os []lib.Out
		jr := [][]any{}
		for _, ref := range lo.References {
			if ref.Type() == plumbing.SymbolicReference {
				os = append(os, lib.List(lib.Str(ref.Name().String()), lib.Sym("sym"), lib.Str(ref.Target().String())))
				jr = append(jr, []any{hx(ref.Name().String()), true, hx(ref.Target().String())})
			} else {
				os = append(os, lib.List(lib.Str(ref.Name().String()), lib.Sym("hash"), oHash(ref.Hash())))
				jr = append(jr, []any{hx(ref.Name().String()), false, hx(ref.Hash().String())})
			}
		}
		return fin(lib.List(os...), jr)
	case "fetchout":
		fo := &packp.FetchOutput{}
		if err := fo.Decode(r); err != nil {
			return derr2(err), nil
		}
		acks, sh, wr, uris := lib.None(), lib.None(), lib.None(), lib.None()
		j := jv{"packfile": fo.Packfile, "acks": nil, "shallow": nil, "wanted": nil, "uris": nil}
		if fo.Acknowledgments != nil {
			acks = lib.Some(lib.List(oHashes(fo.Acknowledgments.ACKs), lib.Bool(fo.Acknowledgments.Ready)))
			j["acks"] = jv{"hashes": jHashes(fo.Acknowledgments.ACKs), "ready": fo.Acknowledgments.Ready}
		}
		if fo.ShallowInfo != nil {
			sh = lib.Some(lib.List(oHashes(fo.ShallowInfo.Shallows), oHashes(fo.ShallowInfo.Unshallows)))
			j["shallow"] = jv{"sh": jHashes(fo.ShallowInfo.Shallows), "un": jHashes(fo.ShallowInfo.Unshallows)}
		}
		if fo.WantedRefs != nil {
			var os []lib.Out
			jw := [][]string{}
			for _, ref := range fo.WantedRefs.Refs {
				os = append(os, lib.List(lib.Str(ref.Name().String()), oHash(ref.Hash())))
				jw = append(jw, []string{hx(ref.Name().String()), ref.Hash().String()})
			}
			wr = lib.Some(lib.List(os...))
			j["wanted"] = jw
		}
		if fo.PackfileURIs != nil {
			ju := []string{}
			for _, u := range fo.PackfileURIs.URIs {
				ju = append(ju, hx(u))
			}
			uris = lib.Some(oStrs(fo.PackfileURIs.URIs))
			j["uris"] = ju
		}
		return fin(lib.List(acks, sh, wr, uris, lib.Bool(fo.Packfile)), j)
	}
	return lib.Err("kind"), nil
}

func hashesOf(v []any) []plumbing.Hash {
	var r []plumbing.Hash
	for _, x := range v {
		s, _ := x.(string)
		r = append(r, plumbing.NewHash(string(lib.Unhex(s))))
	}
	return r
}

func strsOf(v []any) []string {
	var r []string
	for _, x := range v {
		s, _ := x.(string)
		r = append(r, string(lib.Unhex(s)))
	}
	return r
}

func lsArgsOf(m lib.Case) *packp.LsRefsArgs {
	return &packp.LsRefsArgs{Peel: m.Bool("peel"), Symrefs: m.Bool("symrefs"), Unborn: m.Bool("unborn"), RefPrefixes: strsOf(m.L("prefixes"))}
}

func fetchArgsOf(m lib.Case) *packp.FetchArgs {
	fl := m.L("flags")
	flag := func(i int) bool {
		if i < len(fl) {
			b, _ := fl[i].(bool)
			return b
		}
		return false
	}
	a := &packp.FetchArgs{Wants: hashesOf(m.L("wants")), Haves: hashesOf(m.L("haves")), Done: flag(0), ThinPack: flag(1),
		NoProgress: flag(2), IncludeTag: flag(3), OFSDelta: flag(4), Shallows: hashesOf(m.L("shallows")), Deepen: int(m.I("deepen")),
		DeepenRelative: flag(5), DeepenNot: strsOf(m.L("not")), Filter: packp.Filter(m.B("filter")), WaitForDone: flag(6)}
	if v, ok := m["since"]; ok && v != nil {
		a.DeepenSince = time.Unix(m.I("since"), 0).UTC()
	}
	return a
}

// which decoder reads back what encode2 wrote
func decKind(c lib.Case) string {
	if c.S("msg") == "cmd" {
		return "cmd-" + c.S("args")
	}
	return c.S("msg")
}

func encode2(c lib.Case, w io.Writer) error {
	switch c.S("msg") {
	case "capadv":
		ca := &packp.CapabilityAdv{Version: protocol.Version(c.I("version")), Capabilities: capsOf(c)}
		return ca.Encode(w)
	case "cmd":
		cr := &packp.CommandRequest{Command: string(c.B("command")), Capabilities: capsOf(c)}
		switch c.S("args") {
		case "lsrefs":
			cr.Args = lsArgsOf(lib.AsCase(c["ls"]))
		case "fetch":
			cr.Args = fetchArgsOf(lib.AsCase(c["fetch"]))
		}
		return cr.Encode(w)
	case "lsargs":
		return lsArgsOf(lib.AsCase(c["ls"])).Encode(w)
	case "fetchargs":
		return fetchArgsOf(lib.AsCase(c["fetch"])).Encode(w)
	case "lsout":
		lo := &packp.LsRefsOutput{}
		for _, x := range c.L("refs") {
			e, _ := x.([]any)
			n, _ := e[0].(string)
			sym, _ := e[1].(bool)
			v, _ := e[2].(string)
			if sym {
				lo.References = append(lo.References, plumbing.NewSymbolicReference(plumbing.ReferenceName(lib.Unhex(n)), plumbing.ReferenceName(lib.Unhex(v))))
			} else {
				lo.References = append(lo.References, plumbing.NewHashReference(plumbing.ReferenceName(lib.Unhex(n)), plumbing.NewHash(string(lib.Unhex(v)))))
			}
		}
		return lo.Encode(w)
	case "fetchout":
		fo := &packp.FetchOutput{Packfile: c.Bool("packfile")}
		if v := c["acks"]; v != nil {
			m := lib.AsCase(v)
			fo.Acknowledgments = &packp.Acknowledgments{ACKs: hashesOf(m.L("hashes")), Ready: m.Bool("ready")}
		}
		if v := c["shallow"]; v != nil {
			m := lib.AsCase(v)
			fo.ShallowInfo = &packp.ShallowInfo{Shallows: hashesOf(m.L("sh")), Unshallows: hashesOf(m.L("un"))}
		}
		if v := c["wanted"]; v != nil {
			fo.WantedRefs = &packp.WantedRefs{}
			for _, x := range c.L("wanted") {
				e, _ := x.([]any)
				n, _ := e[0].(string)
				h, _ := e[1].(string)
				fo.WantedRefs.Refs = append(fo.WantedRefs.Refs, plumbing.NewHashReference(plumbing.ReferenceName(lib.Unhex(n)), plumbing.NewHash(string(lib.Unhex(h)))))
			}
		}
		if v := c["uris"]; v != nil {
			fo.PackfileURIs = &packp.PackfileURIs{URIs: strsOf(c.L("uris"))}
		}
		return fo.Encode(w)
	}
	return errors.New("kind")
}

// rt2: encode a v2 value, decode the encoding again from a chunked reader
func rt2(c lib.Case) (lib.Out, any) {
	var w bytes.Buffer
	if err := encode2(c, &w); err != nil {
		cls := "encode"
		if errors.Is(err, pktline.ErrPayloadTooLong) {
			cls = "too_long"
		}
		return lib.List(lib.Err(cls)), jv{"enc": cls, "err": err.Error()}
	}
	enc := bytes.Clone(w.Bytes())
	o, v := decode2(decKind(c), pkutil.NewChunkReader(enc, pkutil.Ints(c.L("chunks"))))
	return lib.List(lib.Ok(pkutil.OBytes(enc)), o), jv{"enc": "ok", "bytes": hx(string(enc)), "value": v}
}

// unitab: digest of the maximal intervals of unicode.IsGraphic (Model/C35UniTable.v ranges_digest)
func unitab() lib.Out {
	const m = 4294967291
	var n, x, y uint64
	in := false
	var lo rune
	for r := rune(0); r <= unicode.MaxRune+1; r++ {
		g := r <= unicode.MaxRune && unicode.IsGraphic(r)
		if g && !in {
			lo, in = r, true
		} else if !g && in {
			n++
			x = (x*31 + uint64(lo)) % m
			y = (y*37 + uint64(r-1)) % m
			in = false
		}
	}
	return lib.List(lib.Uint(n), lib.Uint(x), lib.Uint(y))
}

var _ = capability.Agent
