// c35: implementation side of the C35 correspondence (packp message codecs and
// capability lists): decode raw bytes, or encode a value and decode it again.
package main

import (
	"bytes"
	"encoding/hex"
	"errors"
	"io"
	"os"
	"time"

	"github.com/go-git/go-git/v6/plumbing"
	"github.com/go-git/go-git/v6/plumbing/format/pktline"
	"github.com/go-git/go-git/v6/plumbing/protocol"
	"github.com/go-git/go-git/v6/plumbing/protocol/capability"
	"github.com/go-git/go-git/v6/plumbing/protocol/packp"

	"verif/harness/lib"
	"verif/harness/pkutil"
)

func derr(err error) lib.Out {
	var ud *packp.ErrUnexpectedData
	var el *pktline.ErrorLine
	switch {
	case errors.Is(err, packp.ErrEmptyInput):
		return lib.Err("empty_input")
	case errors.Is(err, packp.ErrEmptyAdvRefs):
		return lib.Err("empty_advrefs")
	case errors.As(err, &ud):
		return lib.Err("unexpected_data")
	case errors.As(err, &el):
		return lib.Err("errline")
	case errors.Is(err, io.ErrUnexpectedEOF):
		return lib.Err("unexpected_eof")
	case errors.Is(err, io.EOF):
		return lib.Err("eof")
	case errors.Is(err, pktline.ErrInvalidPktLen):
		return lib.Err("invalid_pktlen")
	case errors.Is(err, packp.ErrInvalidPushOption):
		return lib.Err("invalid_option")
	}
	return lib.Err("other")
}

func oHash(h plumbing.Hash) lib.Out { return lib.Str(h.String()) }

func oHashes(hs []plumbing.Hash) lib.Out {
	var o []lib.Out
	for _, h := range hs {
		o = append(o, oHash(h))
	}
	return lib.List(o...)
}

func oCaps(l *capability.List) lib.Out {
	var o []lib.Out
	for _, name := range l.All() {
		e := []lib.Out{lib.Str(name)}
		for _, v := range l.Get(name) {
			e = append(e, lib.Str(v))
		}
		o = append(o, lib.List(e...))
	}
	return lib.List(o...)
}

func oStrs(ss []string) lib.Out {
	var o []lib.Out
	for _, s := range ss {
		o = append(o, lib.Str(s))
	}
	return lib.List(o...)
}

type jv = map[string]any

func jHashes(hs []plumbing.Hash) []string {
	r := []string{}
	for _, h := range hs {
		r = append(r, h.String())
	}
	return r
}

func jCaps(l *capability.List) [][]string {
	r := [][]string{}
	for _, name := range l.All() {
		e := []string{hx(name)}
		for _, v := range l.Get(name) {
			e = append(e, hx(v))
		}
		r = append(r, e)
	}
	return r
}

func hx(s string) string { return hex.EncodeToString([]byte(s)) }

// decode one message kind from r; returns observable + JSON value
func decode(msg string, r io.Reader) (lib.Out, any) {
	switch msg {
	case "advrefs":
		a := &packp.AdvRefs{}
		if err := a.Decode(r); err != nil {
			return derr(err), nil
		}
		var refs []lib.Out
		jrefs := [][]string{}
		for _, ref := range a.References {
			refs = append(refs, lib.List(lib.Str(ref.Name().String()), oHash(ref.Hash())))
			jrefs = append(jrefs, []string{hx(ref.Name().String()), ref.Hash().String()})
		}
		return lib.Ok(lib.Int(int64(a.Version)), oCaps(&a.Capabilities), lib.List(refs...), oHashes(a.Shallows)),
			jv{"version": int(a.Version), "caps": jCaps(&a.Capabilities), "refs": jrefs, "shallows": jHashes(a.Shallows)}
	case "report":
		s := &packp.ReportStatus{}
		if err := s.Decode(r); err != nil {
			return derr(err), nil
		}
		var cs []lib.Out
		jcs := [][]string{}
		for _, c := range s.CommandStatuses {
			cs = append(cs, lib.List(lib.Str(c.ReferenceName.String()), lib.Str(c.Status)))
			jcs = append(jcs, []string{hx(c.ReferenceName.String()), hx(c.Status)})
		}
		return lib.Ok(lib.Str(s.UnpackStatus), lib.List(cs...)), jv{"unpack": hx(s.UnpackStatus), "cmds": jcs}
	case "shupd":
		u := &packp.ShallowUpdate{}
		if err := u.Decode(r); err != nil {
			return derr(err), nil
		}
		return lib.Ok(oHashes(u.Shallows), oHashes(u.Unshallows)), jv{"shallows": jHashes(u.Shallows), "unshallows": jHashes(u.Unshallows)}
	case "uphav":
		u := &packp.UploadHaves{}
		if err := u.Decode(r); err != nil {
			return derr(err), nil
		}
		return lib.Ok(oHashes(u.Haves), lib.Bool(u.Done)), jv{"haves": jHashes(u.Haves), "done": u.Done}
	case "pushopts":
		o := &packp.PushOptions{}
		if err := o.Decode(r); err != nil {
			return derr(err), nil
		}
		js := []string{}
		for _, s := range o.Options {
			js = append(js, hx(s))
		}
		return lib.Ok(oStrs(o.Options)), jv{"opts": js}
	case "srvresp":
		s := &packp.ServerResponse{}
		if err := s.Decode(r); err != nil {
			return derr(err), nil
		}
		var as []lib.Out
		jas := [][]any{}
		for _, a := range s.ACKs {
			as = append(as, lib.List(oHash(a.Hash), lib.Int(int64(a.Status))))
			jas = append(jas, []any{a.Hash.String(), int(a.Status)})
		}
		return lib.Ok(lib.List(as...)), jv{"acks": jas}
	case "updreq":
		u := &packp.UpdateRequests{}
		if err := u.Decode(r); err != nil {
			return derr(err), nil
		}
		var cs []lib.Out
		jcs := [][]string{}
		for _, c := range u.Commands {
			cs = append(cs, lib.List(lib.Str(c.Name.String()), oHash(c.Old), oHash(c.New)))
			jcs = append(jcs, []string{hx(c.Name.String()), c.Old.String(), c.New.String()})
		}
		return lib.Ok(oCaps(&u.Capabilities), lib.List(cs...), oHashes(u.Shallows)),
			jv{"caps": jCaps(&u.Capabilities), "cmds": jcs, "shallows": jHashes(u.Shallows)}
	case "ulreq":
		u := &packp.UploadRequest{}
		if err := u.Decode(r); err != nil {
			return derr(err), nil
		}
		since := lib.None()
		var jsince any
		if !u.Depth.DeepenSince.IsZero() {
			since = lib.Some(lib.Int(u.Depth.DeepenSince.Unix()))
			jsince = u.Depth.DeepenSince.Unix()
		}
		jn := []string{}
		for _, s := range u.Depth.DeepenNot {
			jn = append(jn, hx(s))
		}
		return lib.Ok(oCaps(&u.Capabilities), oHashes(u.Wants), oHashes(u.Shallows), lib.Int(int64(u.Depth.Deepen)), since,
				oStrs(u.Depth.DeepenNot), lib.Str(string(u.Filter))),
			jv{"caps": jCaps(&u.Capabilities), "wants": jHashes(u.Wants), "shallows": jHashes(u.Shallows), "deepen": u.Depth.Deepen,
				"since": jsince, "not": jn, "filter": hx(string(u.Filter))}
	}
	return lib.Err("kind"), nil
}

func hashes(c lib.Case, k string) []plumbing.Hash {
	var r []plumbing.Hash
	for _, s := range c.SL(k) {
		r = append(r, plumbing.NewHash(string(lib.Unhex(s))))
	}
	return r
}

func capsOf(c lib.Case) capability.List {
	var l capability.List
	for _, x := range c.L("caps") {
		e, _ := x.([]any)
		if len(e) == 0 {
			continue
		}
		name, _ := e[0].(string)
		var vals []string
		for _, v := range e[1:] {
			s, _ := v.(string)
			vals = append(vals, string(lib.Unhex(s)))
		}
		l.Add(string(lib.Unhex(name)), vals...)
	}
	return l
}

// encode the value described by the case
func encode(c lib.Case, w io.Writer) error {
	switch c.S("msg") {
	case "advrefs":
		a := &packp.AdvRefs{Version: protocol.Version(c.I("version")), Capabilities: capsOf(c), Shallows: hashes(c, "shallows")}
		for _, x := range c.L("refs") {
			e, _ := x.([]any)
			n, _ := e[0].(string)
			h, _ := e[1].(string)
			a.References = append(a.References, plumbing.NewHashReference(plumbing.ReferenceName(lib.Unhex(n)), plumbing.NewHash(string(lib.Unhex(h)))))
		}
		return a.Encode(w)
	case "report":
		s := &packp.ReportStatus{UnpackStatus: string(c.B("unpack"))}
		for _, x := range c.L("cmds") {
			e, _ := x.([]any)
			n, _ := e[0].(string)
			st, _ := e[1].(string)
			s.CommandStatuses = append(s.CommandStatuses, &packp.CommandStatus{ReferenceName: plumbing.ReferenceName(lib.Unhex(n)), Status: string(lib.Unhex(st))})
		}
		return s.Encode(w)
	case "shupd":
		u := &packp.ShallowUpdate{Shallows: hashes(c, "shallows"), Unshallows: hashes(c, "unshallows")}
		return u.Encode(w)
	case "uphav":
		u := &packp.UploadHaves{Haves: hashes(c, "haves"), Done: c.Bool("done")}
		return u.Encode(w)
	case "pushopts":
		o := &packp.PushOptions{}
		for _, s := range c.SL("opts") {
			o.Options = append(o.Options, string(lib.Unhex(s)))
		}
		return o.Encode(w)
	case "srvresp":
		s := &packp.ServerResponse{}
		for _, x := range c.L("acks") {
			e, _ := x.([]any)
			h, _ := e[0].(string)
			s.ACKs = append(s.ACKs, packp.ACK{Hash: plumbing.NewHash(string(lib.Unhex(h))), Status: packp.ACKStatus(lib.Case{"v": e[1]}.I("v"))})
		}
		return s.Encode(w)
	case "updreq":
		u := &packp.UpdateRequests{Capabilities: capsOf(c), Shallows: hashes(c, "shallows")}
		for _, x := range c.L("cmds") {
			e, _ := x.([]any)
			n, _ := e[0].(string)
			o, _ := e[1].(string)
			nw, _ := e[2].(string)
			u.Commands = append(u.Commands, &packp.Command{Name: plumbing.ReferenceName(lib.Unhex(n)),
				Old: plumbing.NewHash(string(lib.Unhex(o))), New: plumbing.NewHash(string(lib.Unhex(nw)))})
		}
		return u.Encode(w)
	case "ulreq":
		u := &packp.UploadRequest{Capabilities: capsOf(c), Wants: hashes(c, "wants"), Shallows: hashes(c, "shallows")}
		u.Depth.Deepen = int(c.I("deepen"))
		if _, ok := c["since"]; ok && c["since"] != nil {
			u.Depth.DeepenSince = time.Unix(c.I("since"), 0).UTC()
		}
		for _, s := range c.SL("not") {
			u.Depth.DeepenNot = append(u.Depth.DeepenNot, string(lib.Unhex(s)))
		}
		u.Filter = packp.Filter(c.B("filter"))
		return u.Encode(w)
	}
	return errors.New("kind")
}

func main() {
	if len(os.Args) == 3 && os.Args[1] == "stub" {
		os.Exit(stubMain(os.Args[2]))
	}
	lib.Main(handle)
}

func handle(c lib.Case) (lib.Out, any) {
	{
		chunks := pkutil.Ints(c.L("chunks"))
		switch c.S("kind") {
		case "multi": // several values of one scenario (C-git): ( out1 out2 … )
			var outs []lib.Out
			var extras []any
			for _, x := range c.L("parts") {
				o, e := handle(lib.AsCase(x))
				outs = append(outs, o)
				extras = append(extras, e)
			}
			return lib.List(outs...), jv{"parts": extras}
		case "dec2":
			o, v := decode2(c.S("msg"), pkutil.NewChunkReader(c.B("hex"), chunks))
			return o, jv{"value": v}
		case "rt2":
			return rt2(c)
		case "unitab":
			return unitab(), nil
		case "dec":
			o, v := decode(c.S("msg"), pkutil.NewChunkReader(c.B("hex"), chunks))
			return o, jv{"value": v}
		case "caps":
			var l capability.List
			capability.DecodeList(c.B("hex"), &l)
			return lib.List(oCaps(&l), lib.Str(l.String())), jv{"caps": jCaps(&l)}
		case "rt":
			var w bytes.Buffer
			if err := encode(c, &w); err != nil {
				cls := "encode"
				switch {
				case errors.Is(err, pktline.ErrPayloadTooLong) && !errors.Is(err, packp.ErrInvalidPushOption):
					cls = "too_long"
				case errors.Is(err, packp.ErrDeepenMutuallyExclusive):
					cls = "exclusive"
				case c.S("msg") == "ulreq" && len(c.SL("wants")) == 0:
					cls = "empty_wants"
				}
				return lib.List(lib.Err(cls)), jv{"enc": cls, "err": err.Error()}
			}
			enc := bytes.Clone(w.Bytes())
			o, v := decode(c.S("msg"), pkutil.NewChunkReader(enc, chunks))
			return lib.List(lib.Ok(pkutil.OBytes(enc)), o), jv{"enc": "ok", "bytes": hx(string(enc)), "value": v}
		}
		return lib.Err("bad_case"), nil
	}
}
