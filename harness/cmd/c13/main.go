// c13: implementation side of the C13 correspondence
// (plumbing.ReferenceName.Validate on a batch of names).
package main

import (
	"github.com/go-git/go-git/v6/plumbing"

	"verif/harness/lib"
)

func main() {
	lib.Main(func(c lib.Case) (lib.Out, any) {
		names := c.SL("names")
		v := make([]byte, len(names))
		for i, h := range names {
			if plumbing.ReferenceName(string(lib.Unhex(h))).Validate() == nil {
				v[i] = 1
			}
		}
		return lib.Bytes(v), nil
	})
}
