// c44: implementation side of the C44 correspondence (tree diff + rename detection).
//
// case: {"a": tree, "b": tree, "mode": "plain"|"exact"|"content", "score": n, "limit": n}
//   tree  = [entry...] in the order the tree object lists them (python sorts canonically)
//   entry = {"n": hexname, "m": "100644", "c": hexcontent}   blob (stored)
//         | {"n": hexname, "m": "40000",  "t": tree}          sub tree
//         | {"n": hexname, "m": "160000", "h": hex20}         gitlink (not stored)
// out:  ( ok ( chg from to ) ... ) sorted by change name, from/to = none | ( path mode hash )
//       mode "content": conservation projection ( ok ( froms... ) ( tos... ) ( same-path modifies ... ) )
package main

import (
	"bytes"
	"context"
	"sort"
	"strconv"

	"github.com/go-git/go-git/v6/plumbing/object"
	"github.com/go-git/go-git/v6/storage/memory"

	"verif/harness/b17util"
	"verif/harness/lib"
)

type ent struct {
	Path string `json:"path"`
	Mode string `json:"mode"`
	Hash string `json:"hash"`
}
type chg struct {
	From *ent `json:"from"`
	To   *ent `json:"to"`
}

func mkEnt(e object.ChangeEntry) *ent {
	if e == (object.ChangeEntry{}) {
		return nil
	}
	return &ent{Path: lib.Render(lib.Bytes([]byte(e.Name)))[1:], Mode: strconv.FormatUint(uint64(e.TreeEntry.Mode), 8), Hash: e.TreeEntry.Hash.String()}
}

func entOut(e *ent) lib.Out {
	if e == nil {
		return lib.None()
	}
	m, _ := strconv.ParseUint(e.Mode, 8, 32)
	return lib.List(lib.Bytes(lib.Unhex(e.Path)), lib.Uint(m), lib.Bytes(lib.Unhex(e.Hash)))
}

func name(c chg) []byte {
	if c.To != nil {
		return lib.Unhex(c.To.Path)
	}
	return lib.Unhex(c.From.Path)
}

func sortEnts(es []*ent) {
	sort.SliceStable(es, func(i, j int) bool { return bytes.Compare(lib.Unhex(es[i].Path), lib.Unhex(es[j].Path)) < 0 })
}

func main() {
	lib.Main(func(c lib.Case) (lib.Out, any) {
		s := memory.NewStorage()
		ha := b17util.StoreTree(s, c.L("a"))
		hb := b17util.StoreTree(s, c.L("b"))
		ta, err := object.GetTree(s, ha)
		if err != nil {
			panic(err)
		}
		tb, err := object.GetTree(s, hb)
		if err != nil {
			panic(err)
		}
		var opts *object.DiffTreeOptions
		switch c.S("mode") {
		case "exact":
			opts = &object.DiffTreeOptions{DetectRenames: true, RenameScore: uint(c.U("score")), RenameLimit: uint(c.U("limit")), OnlyExactRenames: true}
		case "content":
			opts = &object.DiffTreeOptions{DetectRenames: true, RenameScore: uint(c.U("score")), RenameLimit: uint(c.U("limit"))}
		}
		changes, err := object.DiffTreeWithOptions(context.Background(), ta, tb, opts)
		extra := map[string]any{"a": ha.String(), "b": hb.String()}
		if err != nil {
			extra["error"] = err.Error()
			return lib.Err("difftree"), extra
		}
		var cs []chg
		for _, ch := range changes {
			cs = append(cs, chg{From: mkEnt(ch.From), To: mkEnt(ch.To)})
		}
		sort.SliceStable(cs, func(i, j int) bool { return bytes.Compare(name(cs[i]), name(cs[j])) < 0 })
		extra["changes"] = cs
		if c.S("mode") == "content" {
			var froms, tos []*ent
			var same []chg
			for _, ch := range cs {
				if ch.From != nil {
					froms = append(froms, ch.From)
				}
				if ch.To != nil {
					tos = append(tos, ch.To)
				}
				if ch.From != nil && ch.To != nil && ch.From.Path == ch.To.Path {
					same = append(same, ch)
				}
			}
			sortEnts(froms)
			sortEnts(tos)
			var fo, to, so []lib.Out
			for _, e := range froms {
				fo = append(fo, entOut(e))
			}
			for _, e := range tos {
				to = append(to, entOut(e))
			}
			for _, ch := range same {
				so = append(so, lib.List(entOut(ch.From), entOut(ch.To)))
			}
			return lib.Ok(lib.List(fo...), lib.List(to...), lib.List(so...)), extra
		}
		var outs []lib.Out
		for _, ch := range cs {
			outs = append(outs, lib.List(lib.Sym("chg"), entOut(ch.From), entOut(ch.To)))
		}
		return lib.Ok(outs...), extra
	})
}
