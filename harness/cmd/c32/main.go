// c32: implementation side of the C32 correspondence (sparse checkout).
//
//	kind "skip": Index.SkipUnless on a list of names -> skip flags
//	kind "hist": a repository with two commits (trees a, b), a fresh worktree
//	             with untracked files, then a history of checkout / reset
//	             operations with sparse directories; after every operation the
//	             index (name, skip, blob content) and the worktree files are
//	             observed.
package main

import (
	"errors"
	"io"
	"os"
	"sort"
	"time"

	"github.com/go-git/go-billy/v6"
	"github.com/go-git/go-billy/v6/memfs"
	"github.com/go-git/go-billy/v6/util"
	git "github.com/go-git/go-git/v6"
	"github.com/go-git/go-git/v6/plumbing"
	"github.com/go-git/go-git/v6/plumbing/format/index"
	"github.com/go-git/go-git/v6/plumbing/object"
	"github.com/go-git/go-git/v6/storage/memory"

	"verif/harness/lib"
)

func strs(hexes []string) []string {
	var r []string
	for _, h := range hexes {
		r = append(r, string(lib.Unhex(h)))
	}
	return r
}

func skipCase(c lib.Case) lib.Out {
	idx := &index.Index{Version: 2}
	for _, n := range strs(c.SL("names")) {
		idx.Entries = append(idx.Entries, &index.Entry{Name: n, SkipWorktree: c.Bool("preskip")})
	}
	idx.SkipUnless(strs(c.SL("dirs")))
	var out []lib.Out
	for _, e := range idx.Entries {
		out = append(out, lib.Bool(e.SkipWorktree))
	}
	return lib.List(out...)
}

type file struct{ name, content string }

func files(c lib.Case, k string) []file {
	var r []file
	for _, x := range c.L(k) {
		p, _ := x.([]any)
		n, _ := p[0].(string)
		d, _ := p[1].(string)
		r = append(r, file{string(lib.Unhex(n)), string(lib.Unhex(d))})
	}
	return r
}

func must(err error) {
	if err != nil {
		panic("harness: " + err.Error())
	}
}

func writeFile(fs billy.Filesystem, f file) {
	must(util.WriteFile(fs, f.name, []byte(f.content), 0o644))
}

func commitTree(r *git.Repository, fs billy.Filesystem, fl []file, msg string) plumbing.Hash {
	w, err := r.Worktree()
	must(err)
	ents, err := fs.ReadDir("")
	must(err)
	for _, e := range ents {
		if e.Name() == ".git" {
			continue
		}
		must(util.RemoveAll(fs, e.Name()))
	}
	for _, f := range fl {
		writeFile(fs, f)
	}
	must(w.AddWithOptions(&git.AddOptions{All: true}))
	sig := &object.Signature{Name: "v", Email: "v@v", When: time.Unix(1700000000, 0).UTC()}
	h, err := w.Commit(msg, &git.CommitOptions{Author: sig, Committer: sig, AllowEmptyCommits: true})
	must(err)
	return h
}

func walk(fs billy.Filesystem, dir string, out *[]file) {
	ents, err := fs.ReadDir(dir)
	if err != nil {
		return
	}
	for _, e := range ents {
		p := e.Name()
		if dir != "" {
			p = dir + "/" + e.Name()
		}
		if e.IsDir() {
			walk(fs, p, out)
			continue
		}
		f, err := fs.Open(p)
		if err != nil {
			*out = append(*out, file{p, "?open"})
			continue
		}
		b, _ := io.ReadAll(f)
		f.Close()
		*out = append(*out, file{p, string(b)})
	}
}

func errClass(err error) string {
	switch {
	case err == nil:
		return "ok"
	case errors.Is(err, git.ErrSparseResetDirectoryNotFound):
		return "sparse_dir_not_found"
	case errors.Is(err, git.ErrUnstagedChanges):
		return "unstaged"
	case errors.Is(err, git.ErrLocalChanges):
		return "local_changes"
	case errors.Is(err, object.ErrEntryNotFound), errors.Is(err, object.ErrFileNotFound), errors.Is(err, object.ErrDirectoryNotFound):
		return "entry_not_found"
	case errors.Is(err, os.ErrNotExist):
		return "not_exist"
	}
	return "other"
}

func observe(r *git.Repository, fs billy.Filesystem) (lib.Out, lib.Out) {
	idx, err := r.Storer.Index()
	must(err)
	es := append([]*index.Entry(nil), idx.Entries...)
	sort.SliceStable(es, func(i, j int) bool { return es[i].Name < es[j].Name })
	var io_ []lib.Out
	for _, e := range es {
		content := "?missing"
		if b, err := r.BlobObject(e.Hash); err == nil {
			rd, _ := b.Reader()
			d, _ := io.ReadAll(rd)
			rd.Close()
			content = string(d)
		}
		io_ = append(io_, lib.List(lib.Str(e.Name), lib.Bool(e.SkipWorktree), lib.Str(content)))
	}
	var fl []file
	walk(fs, "", &fl)
	sort.Slice(fl, func(i, j int) bool { return fl[i].name < fl[j].name })
	var wo []lib.Out
	for _, f := range fl {
		wo = append(wo, lib.List(lib.Str(f.name), lib.Str(f.content)))
	}
	return lib.List(io_...), lib.List(wo...)
}

func histCase(c lib.Case) (lib.Out, any) {
	st := memory.NewStorage()
	fs0 := memfs.New()
	r0, err := git.Init(st, git.WithWorkTree(fs0))
	must(err)
	ha := commitTree(r0, fs0, files(c, "a"), "a")
	hb := commitTree(r0, fs0, files(c, "b"), "b")
	must(st.SetReference(plumbing.NewHashReference("refs/heads/a", ha)))
	must(st.SetReference(plumbing.NewHashReference("refs/heads/b", hb)))
	must(st.SetReference(plumbing.NewSymbolicReference(plumbing.HEAD, "refs/heads/a")))
	must(st.SetIndex(&index.Index{Version: 2}))
	// fresh worktree over the same object store (as after clone --no-checkout)
	fs := memfs.New()
	r, err := git.Open(st, fs)
	must(err)
	for _, f := range files(c, "untracked") {
		writeFile(fs, f)
	}
	w, err := r.Worktree()
	must(err)
	var outs []lib.Out
	var errs []string
	for _, x := range c.L("ops") {
		op := lib.AsCase(x)
		dirs := strs(op.SL("dirs"))
		th := ha
		if op.S("to") == "b" {
			th = hb
		}
		var err error
		switch op.S("op") {
		case "checkout":
			// by hash (detached HEAD): Reset moves the current branch, so branch names do not stay put
			err = w.Checkout(&git.CheckoutOptions{Hash: th, Force: op.Bool("force"), SparseCheckoutDirectories: dirs})
		case "reset":
			mode := map[string]git.ResetMode{"hard": git.HardReset, "merge": git.MergeReset, "keep": git.KeepReset, "mixed": git.MixedReset}[op.S("mode")]
			err = w.Reset(&git.ResetOptions{Commit: th, Mode: mode, SparseDirs: dirs, SkipSparseDirValidation: op.Bool("sv")})
		case "write":
			writeFile(fs, file{string(op.B("name")), string(op.B("content"))})
		case "modify":
			if fi, serr := fs.Lstat(string(op.B("name"))); serr == nil && !fi.IsDir() {
				writeFile(fs, file{string(op.B("name")), string(op.B("content"))})
			}
		}
		es := ""
		if err != nil {
			es = err.Error()
		}
		errs = append(errs, es)
		if errClass(err) == "entry_not_found" {
			// partial effects of a failed checkoutChange are not modelled: the history stops here
			outs = append(outs, lib.List(lib.Sym("entry_not_found")))
			break
		}
		io_, wo := observe(r, fs)
		outs = append(outs, lib.List(lib.Sym(errClass(err)), io_, wo))
	}
	return lib.List(outs...), errs
}

func main() {
	lib.Main(func(c lib.Case) (lib.Out, any) {
		if c.S("kind") == "skip" {
			return skipCase(c), nil
		}
		return histCase(c)
	})
}
