// c19: implementation side of the C19 correspondence (storage/transactional).
// case: {base: backend spec, names, objs, init: calls on the base, pack: bool,
//        ops: calls on the transaction}
// observable: ( (results of ops) (base before Commit) (Commit result) (base after Commit) )
package main

import (
	"github.com/go-git/go-git/v6/storage/memory"
	"github.com/go-git/go-git/v6/storage/transactional"

	"verif/harness/b10store"
	"verif/harness/lib"
)

func main() {
	lib.Main(func(c lib.Case) (lib.Out, any) {
		spec := c.S("base")
		u := b10store.NewUniverse(c, b10store.Format(spec))
		base, be, err := b10store.Open(spec)
		if err != nil {
			panic(err)
		}
		defer be.Close(base)
		u.Run(base, c.L("init"))
		if c.Bool("pack") {
			base.PackRefs()
		}
		tx := transactional.NewStorage(base, memory.NewStorage())
		results := u.Run(tx, c.L("ops"))
		pre := u.Snapshot(base)
		var commit lib.Out = lib.Sym("ok")
		if err := tx.Commit(); err != nil {
			commit = b10store.ErrClass(err)
		}
		post := u.Snapshot(base)
		return lib.List(results, pre, commit, post), nil
	})
}
