// c03: implementation side of the C03 correspondence (signature payloads).
//
//	op=cpay raw          -> ( ok payload sig sig256 nblocks ) | ( err class )   decoded commit, EncodeWithoutSignature
//	op=tpay raw          -> ( ok payload sig sig256 nblocks ) | ( err class )   decoded tag
//	op=cmut raw mut val  -> ( ok matches payload )   commit decoded, one exported field mutated, EncodeWithoutSignature
//	op=tmut raw mut val  -> ( ok matches payload )
//	op=cverify pre post where payload -> ( ok accepted ) | ( err class )   a real OpenPGP signature over payload is
//	op=tverify pre post where payload                                      embedded (header where / inline) between
//	                                      pre and post, the object decoded and Commit.Verify / Tag.Verify run with the
//	                                      matching public key; extra = {raw, sig}: the object and the armored signature
//	op=psb  raw          -> ( pos nblocks )          parseSignedBytes / countSignatureBlocks
//	op=strip raw         -> payload                  stripHeaderSignatures
package main

import (
	"bytes"
	"encoding/hex"
	"strings"
	"sync"
	"time"

	"github.com/ProtonMail/go-crypto/openpgp"
	"github.com/ProtonMail/go-crypto/openpgp/armor"
	"github.com/ProtonMail/go-crypto/openpgp/packet"

	"github.com/go-git/go-git/v6/plumbing"
	"github.com/go-git/go-git/v6/plumbing/object"

	"verif/harness/c02lib"
	"verif/harness/lib"
)

func mutIdent(s *object.Signature, what string, val []byte, n int64) bool {
	switch what {
	case "name":
		s.Name = string(val)
	case "email":
		s.Email = string(val)
	case "ts":
		s.When = time.Unix(n, 0).In(s.When.Location())
	case "tz":
		s.When = s.When.In(time.FixedZone("", int(n)*60))
	case "nsec":
		s.When = s.When.Add(time.Duration(n))
	default:
		return false
	}
	return true
}

// one throw-away OpenPGP key per harness process
var (
	keyOnce sync.Once
	entity  *openpgp.Entity
	keyRing string
)

func pgpKey() {
	keyOnce.Do(func() {
		cfg := &packet.Config{Algorithm: packet.PubKeyAlgoEdDSA}
		e, err := openpgp.NewEntity("verif", "", "verif@example.com", cfg)
		if err != nil {
			panic(err)
		}
		var b bytes.Buffer
		w, err := armor.Encode(&b, openpgp.PublicKeyType, nil)
		if err != nil {
			panic(err)
		}
		if err := e.Serialize(w); err != nil {
			panic(err)
		}
		w.Close()
		entity, keyRing = e, b.String()
	})
}

// armored detached signature over payload, LF-terminated
func pgpSign(payload []byte) []byte {
	pgpKey()
	var b bytes.Buffer
	if err := openpgp.ArmoredDetachSign(&b, entity, bytes.NewReader(payload), nil); err != nil {
		panic(err)
	}
	s := b.Bytes()
	if !bytes.HasSuffix(s, []byte("\n")) {
		s = append(s, '\n')
	}
	return s
}

// embed places an armored block as a header value (continuation lines) or inline
func embed(where string, sig []byte) []byte {
	if where == "inline" {
		return sig
	}
	return []byte(where + " " + strings.ReplaceAll(strings.TrimSuffix(string(sig), "\n"), "\n", "\n ") + "\n")
}

func main() {
	lib.Main(func(c lib.Case) (lib.Out, any) {
		raw := c.B("raw")
		switch c.S("op") {
		case "cverify", "tverify":
			sig := pgpSign(c.B("payload"))
			obj := append(append(append([]byte{}, c.B("pre")...), embed(c.S("where"), sig)...), c.B("post")...)
			extra := map[string]string{"raw": hex.EncodeToString(obj), "sig": hex.EncodeToString(sig)}
			var err error
			if c.S("op") == "cverify" {
				cm := &object.Commit{}
				if derr := cm.Decode(c02lib.Mem(plumbing.CommitObject, obj)); derr != nil {
					return c02lib.ErrClass(derr), extra
				}
				_, err = cm.Verify(keyRing)
			} else {
				t := &object.Tag{}
				if derr := t.Decode(c02lib.Mem(plumbing.TagObject, obj)); derr != nil {
					return c02lib.ErrClass(derr), extra
				}
				_, err = t.Verify(keyRing)
			}
			return lib.Ok(lib.Bool(err == nil)), extra
		case "cpay", "cmut":
			cm := &object.Commit{}
			if err := cm.Decode(c02lib.Mem(plumbing.CommitObject, raw)); err != nil {
				return c02lib.ErrClass(err), nil
			}
			if c.S("op") == "cmut" {
				val, n := c.B("val"), c.I("n")
				switch m := c.S("mut"); m {
				case "none":
				case "msg":
					cm.Message = string(val)
				case "tree":
					cm.TreeHash = c02lib.MkHash(string(val))
				case "addparent":
					cm.ParentHashes = append(cm.ParentHashes, c02lib.MkHash(string(val)))
				case "dropparents":
					cm.ParentHashes = nil
				case "enc":
					cm.Encoding = object.MessageEncoding(val)
				case "addextra":
					cm.ExtraHeaders = append(cm.ExtraHeaders, object.ExtraHeader{Key: "x-verif", Value: string(val)})
				case "dropextras":
					cm.ExtraHeaders = nil
				case "sig":
					cm.Signature = string(val)
				case "sig256":
					cm.SignatureSHA256 = string(val)
				case "hash":
					cm.Hash = plumbing.ZeroHash
				default:
					if len(m) > 2 && m[:2] == "a." {
						mutIdent(&cm.Author, m[2:], val, n)
					} else if len(m) > 2 && m[:2] == "c." {
						mutIdent(&cm.Committer, m[2:], val, n)
					} else {
						return lib.Err("bad_mut"), nil
					}
				}
			}
			o := &plumbing.MemoryObject{}
			ms := object.VerifC03CommitMatchesSource(cm)
			if err := cm.EncodeWithoutSignature(o); err != nil {
				return lib.Err("encode"), nil
			}
			if c.S("op") == "cmut" {
				return lib.Ok(lib.Bool(ms), lib.Bytes(c02lib.Content(o))), nil
			}
			return lib.Ok(lib.Bytes(c02lib.Content(o)), lib.Str(cm.Signature), lib.Str(cm.SignatureSHA256),
				lib.Int(int64(object.VerifC03CountSignatureBlocks([]byte(cm.Signature))))), nil
		case "tpay", "tmut":
			t := &object.Tag{}
			if err := t.Decode(c02lib.Mem(plumbing.TagObject, raw)); err != nil {
				return c02lib.ErrClass(err), nil
			}
			if c.S("op") == "tmut" {
				val, n := c.B("val"), c.I("n")
				switch m := c.S("mut"); m {
				case "none":
				case "msg":
					t.Message = string(val)
				case "name":
					t.Name = string(val)
				case "target":
					t.Target = c02lib.MkHash(string(val))
				case "type":
					tt, _ := plumbing.ParseObjectType(string(val))
					t.TargetType = tt
				case "sig":
					t.Signature = string(val)
				case "sig256":
					t.SignatureSHA256 = string(val)
				case "hash":
					t.Hash = plumbing.ZeroHash
				default:
					if len(m) > 2 && m[:2] == "t." {
						mutIdent(&t.Tagger, m[2:], val, n)
					} else {
						return lib.Err("bad_mut"), nil
					}
				}
			}
			o := &plumbing.MemoryObject{}
			ms := object.VerifC03TagMatchesSource(t)
			if err := t.EncodeWithoutSignature(o); err != nil {
				return lib.Err("encode"), nil
			}
			if c.S("op") == "tmut" {
				return lib.Ok(lib.Bool(ms), lib.Bytes(c02lib.Content(o))), nil
			}
			return lib.Ok(lib.Bytes(c02lib.Content(o)), lib.Str(t.Signature), lib.Str(t.SignatureSHA256),
				lib.Int(int64(object.VerifC03CountSignatureBlocks([]byte(t.Signature))))), nil
		case "psb":
			pos, _ := object.VerifC03ParseSignedBytes(raw)
			return lib.List(lib.Int(int64(pos)), lib.Int(int64(object.VerifC03CountSignatureBlocks(raw)))), nil
		case "strip":
			var w bytes.Buffer
			if err := object.VerifC03StripHeaderSignatures(&w, bytes.NewReader(raw)); err != nil {
				return lib.Err("io"), nil
			}
			return lib.Bytes(w.Bytes()), nil
		}
		return lib.Err("bad_op"), nil
	})
}
