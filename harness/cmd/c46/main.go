// c46: implementation side of the C46 correspondence (blame).
//
// mode "blame": {"commits": [{"parents": [idx...], "when": unix, "content": hex | null}...], "head": idx}
//     commits are listed parents-first; each commit's tree holds the file "f" (when content != null)
//     and a constant file "keep".  -> git.Blame(head, "f")
//     out: ( ok ( idx ... ) true ) — per final line the index of the commit it is attributed to; the constant
//     true stands for "the recorded go-diff answers satisfy the oracle contract", which the model evaluates
//     extra: per line text (hex), the commit ids, the go-diff chunk shapes for every (parent, child) edge
// mode "diff": {"pairs": [[srchex, dsthex]...]} -> extra.diffs: [[ [op, nlines]... ]...] of utils/diff.Do
//     (op: 0 Equal, 1 Add, 2 Delete) — lets the generator record the line-diff oracle's answers in the case
package main

import (
	"fmt"
	"strings"
	"time"

	git "github.com/go-git/go-git/v6"
	"github.com/go-git/go-git/v6/plumbing"
	"github.com/go-git/go-git/v6/plumbing/filemode"
	"github.com/go-git/go-git/v6/plumbing/object"
	"github.com/go-git/go-git/v6/storage/memory"
	"github.com/go-git/go-git/v6/utils/diff"
	"github.com/sergi/go-diff/diffmatchpatch"

	"verif/harness/b17util"
	"verif/harness/lib"
)

func countLines(s string) int {
	if s == "" {
		return 0
	}
	n := strings.Count(s, "\n")
	if strings.HasSuffix(s, "\n") {
		return n
	}
	return n + 1
}

func shape(src, dst string) [][]int {
	r := [][]int{}
	for _, d := range diff.Do(src, dst) {
		op := 0
		switch d.Type {
		case diffmatchpatch.DiffInsert:
			op = 1
		case diffmatchpatch.DiffDelete:
			op = 2
		}
		r = append(r, []int{op, countLines(d.Text)})
	}
	return r
}

func main() {
	lib.Main(func(c lib.Case) (lib.Out, any) {
		if c.S("mode") == "diff" {
			var ds [][][]int
			for _, p := range c.L("pairs") {
				pp := p.([]any)
				ds = append(ds, shape(string(lib.Unhex(pp[0].(string))), string(lib.Unhex(pp[1].(string)))))
			}
			return lib.Ok(), map[string]any{"diffs": ds}
		}
		s := memory.NewStorage()
		keep := b17util.StoreBlob(s, []byte("keep\n"))
		var ids []plumbing.Hash
		label := map[plumbing.Hash]int{}
		for i, x := range c.L("commits") {
			cc := lib.AsCase(x)
			t := &object.Tree{}
			if cc["content"] != nil {
				t.Entries = append(t.Entries, object.TreeEntry{Name: "f", Mode: filemode.Regular, Hash: b17util.StoreBlob(s, cc.B("content"))})
			}
			t.Entries = append(t.Entries, object.TreeEntry{Name: "keep", Mode: filemode.Regular, Hash: keep})
			to := s.NewEncodedObject()
			if err := t.Encode(to); err != nil {
				panic(err)
			}
			th, err := s.SetEncodedObject(to)
			if err != nil {
				panic(err)
			}
			when := time.Unix(cc.I("when"), 0).UTC()
			sig := object.Signature{Name: "A U Thor", Email: "a@x", When: when}
			cm := &object.Commit{Author: sig, Committer: sig, Message: fmt.Sprintf("c%d\n", i), TreeHash: th}
			for _, p := range cc.L("parents") {
				cm.ParentHashes = append(cm.ParentHashes, ids[lib.Case{"x": p}.I("x")])
			}
			co := s.NewEncodedObject()
			if err := cm.Encode(co); err != nil {
				panic(err)
			}
			h, err := s.SetEncodedObject(co)
			if err != nil {
				panic(err)
			}
			ids = append(ids, h)
			label[h] = i
		}
		head, err := object.GetCommit(s, ids[c.I("head")])
		if err != nil {
			panic(err)
		}
		var idhex []string
		for _, h := range ids {
			idhex = append(idhex, h.String())
		}
		res, err := git.Blame(head, "f")
		if err != nil {
			return lib.Err("blame"), map[string]any{"error": err.Error(), "ids": idhex}
		}
		var outs []lib.Out
		var lines []string
		var who []int
		for _, l := range res.Lines {
			i, ok := label[l.Hash]
			if !ok {
				i = -1
			}
			outs = append(outs, lib.Int(int64(i)))
			who = append(who, i)
			lines = append(lines, lib.Render(lib.Str(l.Text))[1:])
		}
		return lib.Ok(lib.List(outs...), lib.Bool(true)), map[string]any{"ids": idhex, "who": who, "lines": lines}
	})
}
