// c02: implementation side of the C02 correspondence (commit / tag codecs).
//
//	op=cdec  raw      -> ( ok fields reenc )      | ( err class )
//	op=tdec  raw      -> ( ok fields reenc )      | ( err class )
//	op=cenc  fields   -> ( ok bytes redecoded )   (redecoded = ( ok fields ) | ( err class ))
//	op=tenc  fields   -> ( ok bytes redecoded )
//	op=ident raw      -> ( name email unix zone ) Signature.Decode of raw
package main

import (
	"github.com/go-git/go-git/v6/plumbing"
	"github.com/go-git/go-git/v6/plumbing/object"

	"verif/harness/c02lib"
	"verif/harness/lib"
)

func decCommit(raw []byte) (*object.Commit, lib.Out) {
	c := &object.Commit{}
	if err := c.Decode(c02lib.Mem(plumbing.CommitObject, raw)); err != nil {
		return nil, c02lib.ErrClass(err)
	}
	return c, nil
}

func decTag(raw []byte) (*object.Tag, lib.Out) {
	t := &object.Tag{}
	if err := t.Decode(c02lib.Mem(plumbing.TagObject, raw)); err != nil {
		return nil, c02lib.ErrClass(err)
	}
	return t, nil
}

func main() {
	lib.Main(func(c lib.Case) (lib.Out, any) {
		switch c.S("op") {
		case "cdec":
			cm, e := decCommit(c.B("raw"))
			if e != nil {
				return e, nil
			}
			o := &plumbing.MemoryObject{}
			if err := cm.Encode(o); err != nil {
				return lib.Err("encode"), nil
			}
			return lib.Ok(c02lib.CommitFields(cm), lib.Bytes(c02lib.Content(o))), nil
		case "tdec":
			t, e := decTag(c.B("raw"))
			if e != nil {
				return e, nil
			}
			o := &plumbing.MemoryObject{}
			if err := t.Encode(o); err != nil {
				return lib.Err("encode"), nil
			}
			return lib.Ok(c02lib.TagFields(t), lib.Bytes(c02lib.Content(o))), nil
		case "cenc":
			cm := c02lib.MkCommit(c)
			o := &plumbing.MemoryObject{}
			if err := cm.Encode(o); err != nil {
				return lib.Err("encode"), nil
			}
			b := c02lib.Content(o)
			var re lib.Out
			if d, e := decCommit(b); e != nil {
				re = e
			} else {
				re = lib.Ok(c02lib.CommitFields(d))
			}
			return lib.Ok(lib.Bytes(b), re), nil
		case "tenc":
			t := c02lib.MkTag(c)
			o := &plumbing.MemoryObject{}
			if err := t.Encode(o); err != nil {
				return lib.Err("encode"), nil
			}
			b := c02lib.Content(o)
			var re lib.Out
			if d, e := decTag(b); e != nil {
				re = e
			} else {
				re = lib.Ok(c02lib.TagFields(d))
			}
			return lib.Ok(lib.Bytes(b), re), nil
		case "ident":
			var s object.Signature
			s.Decode(c.B("raw"))
			return c02lib.Ident(s), nil
		}
		return lib.Err("bad_op"), nil
	})
}
