// c34: implementation side of the C34 correspondence (pkt-line framing and
// sideband multiplexing under arbitrary chunking and read sizes).
package main

import (
	"bufio"
	"bytes"
	"errors"
	"io"

	"github.com/go-git/go-git/v6/plumbing/format/pktline"
	"github.com/go-git/go-git/v6/plumbing/protocol/packp/sideband"

	"verif/harness/lib"
	"verif/harness/pkutil"
)

type item struct {
	L   int    `json:"l"`
	N   int    `json:"n"`
	Sha string `json:"sha"`
	Err string `json:"err"`
}

func ord(l int, payload []byte, err error) (lib.Out, item) {
	return lib.List(lib.Int(int64(l)), pkutil.OBytes(payload), pkutil.PErr(err, payload, true)),
		item{L: l, N: len(payload), Sha: pkutil.Sha(payload), Err: pkutil.PErrName(err)}
}

// readAll: repeated pktline.Read / ReadLine until io.EOF or an error that
// consumed nothing (Model/PktLine.v read_all).
func readAll(cr *pkutil.ChunkReader, bufsz int, useReadLine bool) (lib.Out, []item) {
	var outs []lib.Out
	var items []item
	for i := 0; ; i++ {
		before := cr.Remaining()
		var l int
		var payload []byte
		var err error
		if useReadLine {
			l, payload, err = pktline.ReadLine(cr)
		} else {
			buf := make([]byte, bufsz)
			l, err = pktline.Read(cr, buf)
			if l >= pktline.LenSize {
				payload = buf[pktline.LenSize:l]
			}
		}
		o, it := ord(l, payload, err)
		outs = append(outs, o)
		items = append(items, it)
		if errors.Is(err, io.EOF) || cr.Remaining() >= before {
			break
		}
	}
	return lib.List(outs...), items
}

func scanAll(cr *pkutil.ChunkReader) (lib.Out, []item) {
	var outs []lib.Out
	var items []item
	sc := pktline.NewScanner(cr)
	for {
		ok := sc.Scan()
		o, it := ord(sc.Len(), bytes.Clone(sc.Bytes()), sc.Err())
		outs = append(outs, o)
		items = append(items, it)
		if !ok {
			break
		}
	}
	return lib.List(outs...), items
}

type progSink struct{ bytes.Buffer }

func derr(err error) lib.Out {
	if errors.Is(err, sideband.ErrMaxPackedExceeded) {
		return lib.Sym("max_exceeded")
	}
	o := pkutil.PErr(err, nil, false)
	if lib.Render(o) == "other" {
		return lib.Sym("proto")
	}
	return o
}

func demux(t sideband.Type, stream []byte, chunks []int, prog bool, sizes []int) (lib.Out, map[string]any) {
	cr := pkutil.NewChunkReader(stream, chunks)
	d := sideband.NewDemuxer(t, cr)
	var sink progSink
	if prog {
		d.Progress = &sink
	}
	var reads []lib.Out
	var all []byte
	var ns []int
	final := "nil"
	for _, n := range sizes {
		buf := make([]byte, n)
		k, err := d.Read(buf)
		reads = append(reads, lib.List(pkutil.OBytes(buf[:k]), derr(err)))
		all = append(all, buf[:k]...)
		ns = append(ns, k)
		if err != nil {
			final = lib.Render(derr(err))
			break
		}
	}
	return lib.Ok(lib.List(reads...), pkutil.OBytes(sink.Bytes())),
		map[string]any{"data_sha": pkutil.Sha(all), "data_len": len(all), "prog_sha": pkutil.Sha(sink.Bytes()),
			"prog_len": sink.Len(), "final": final, "ns": ns, "rest": cr.Remaining()}
}

func main() {
	lib.Main(func(c lib.Case) (lib.Out, any) {
		chunks := pkutil.Ints(c.L("chunks"))
		switch c.S("kind") {
		case "rt":
			var w bytes.Buffer
			for _, x := range c.L("pkts") {
				p := lib.AsCase(x)
				var err error
				switch p.S("t") {
				case "data":
					_, err = pktline.Write(&w, pkutil.Pieces(p.L("pieces")))
				case "flush":
					err = pktline.WriteFlush(&w)
				case "delim":
					err = pktline.WriteDelim(&w)
				case "rend":
					err = pktline.WriteResponseEnd(&w)
				case "err":
					_, err = pktline.WriteError(&w, errors.New(string(p.B("text"))))
				}
				if err != nil {
					if errors.Is(err, pktline.ErrPayloadTooLong) {
						return lib.Err("too_long"), map[string]any{"enc": "too_long"}
					}
					return lib.Err("other"), map[string]any{"enc": err.Error()}
				}
			}
			stream := bytes.Clone(w.Bytes())
			bufsz := int(c.I("bufsz"))
			o, items := readAll(pkutil.NewChunkReader(stream, chunks), bufsz, c.Bool("readline"))
			return lib.Ok(pkutil.OBytes(stream), o), map[string]any{"enc": "ok", "stream_sha": pkutil.Sha(stream), "stream_len": len(stream), "items": items}
		case "raw":
			o, items := readAll(pkutil.NewChunkReader(pkutil.Pieces(c.L("pieces")), chunks), int(c.I("bufsz")), c.Bool("readline"))
			return o, map[string]any{"items": items}
		case "scan":
			o, items := scanAll(pkutil.NewChunkReader(pkutil.Pieces(c.L("pieces")), chunks))
			return o, map[string]any{"items": items}
		case "peek":
			br := bufio.NewReaderSize(pkutil.NewChunkReader(pkutil.Pieces(c.L("pieces")), chunks), int(c.I("bufsize")))
			l, p, err := pktline.PeekLine(br)
			o, it := ord(l, p, err)
			// peeking consumes nothing: a following ReadLine sees the same packet
			return o, map[string]any{"items": []item{it}}
		case "sb":
			t := sideband.Type(c.I("type"))
			var w bytes.Buffer
			m := sideband.NewMuxer(t, &w)
			for _, x := range c.L("writes") {
				wr := lib.AsCase(x)
				p := pkutil.Pieces(wr.L("pieces"))
				n, err := m.WriteChannel(sideband.Channel(wr.I("ch")), p)
				if err != nil {
					if errors.Is(err, pktline.ErrPayloadTooLong) {
						return lib.List(lib.Err("too_long")), map[string]any{"enc": "too_long"}
					}
					return lib.List(lib.Err("other")), map[string]any{"enc": err.Error()}
				}
				if n != len(p) {
					return lib.List(lib.Err("short_write")), map[string]any{"enc": "short_write"}
				}
			}
			muxed := bytes.Clone(w.Bytes())
			stream := muxed
			if c.Bool("flush") {
				stream = append(bytes.Clone(muxed), []byte("0000")...)
			}
			o, extra := demux(t, stream, chunks, c.Bool("prog"), pkutil.Ints(c.L("sizes")))
			extra["enc"] = "ok"
			extra["mux_len"] = len(muxed)
			// packet structure of the muxed stream, for the oracle
			var plens []int
			sc := pktline.NewScanner(bytes.NewReader(muxed))
			for sc.Scan() {
				plens = append(plens, sc.Len())
			}
			extra["plens"] = plens
			return lib.List(lib.Ok(pkutil.OBytes(muxed)), o), extra
		case "sbraw":
			o, extra := demux(sideband.Type(c.I("type")), pkutil.Pieces(c.L("pieces")), chunks, c.Bool("prog"), pkutil.Ints(c.L("sizes")))
			return o, extra
		}
		return lib.Err("bad_case"), nil
	})
}
