// gotrans regenerates coq/theories/Gen/*.v from /repo's current working tree.
//
// For every spec file gotrans/<Name>.json it writes Gen/<Name>.v holding
//   - integer / string constants evaluated by the Go type checker (go/types),
//   - byte and integer tables (package-level array/slice composite literals),
//   - "leaf" functions from a deliberately small Go subset (if / switch / return /
//     := over integer, byte, bool expressions; no loops; calls only to other
//     translated leaves) as Gallina definitions over Z with explicit wrap-around,
//   - the list of selector call expressions inside named functions ("calls").
// Anything outside the subset is an error reported in the JSON summary (last
// line of stdout) under "untranslated"; it is never silently skipped.
// A Gen file is rewritten only when its content changes.
package main

import (
	"bytes"
	"encoding/json"
	"flag"
	"fmt"
	"go/ast"
	"go/constant"
	"go/importer"
	"go/parser"
	"go/token"
	"go/types"
	"os"
	"path/filepath"
	"sort"
	"strings"
)

type item struct {
	Pkg     string   `json:"pkg"`     // directory relative to the repo root
	Prefix  string   `json:"prefix"`  // Coq name prefix (default: last path element)
	Consts  []string `json:"consts"`  // integer / string / bool constants (or vars with constant initialisers)
	Tables  []string `json:"tables"`  // package-level []T{...} / [N]T{...} / map-free composite literals of ints, bytes or strings
	Funcs   []string `json:"funcs"`   // leaf functions ("Recv.Method" for methods)
	Calls   []string `json:"calls"`   // functions whose selector-call list is emitted
}
type spec struct {
	Items []item `json:"items"`
}

type summary struct {
	Files        []string `json:"files"`
	Consts       int      `json:"consts"`
	Tables       int      `json:"tables"`
	Funcs        int      `json:"funcs"`
	Calls        int      `json:"calls"`
	Untranslated []string `json:"untranslated"`
	Changed      []string `json:"changed"`
}

type fakeImporter struct{ real types.Importer }

const modPath = "github.com/go-git/go-git/v6"

var repoRoot string
var pkgCache = map[string]*pkgInfo{}
var loading = map[string]bool{}

func (f fakeImporter) Import(path string) (*types.Package, error) {
	if path == modPath || strings.HasPrefix(path, modPath+"/") {
		rel := strings.TrimPrefix(strings.TrimPrefix(path, modPath), "/")
		if rel == "" {
			rel = "."
		}
		if !loading[rel] {
			if p, err := loadPkg(rel); err == nil && p.pkg != nil {
				return p.pkg, nil
			}
		}
	}
	// the standard library is cheap to import from export data / source for the few
	// packages whose constants matter; everything else is an empty placeholder:
	// leaves only use basic types and package-local names.
	switch path {
	case "math", "unicode/utf8", "unicode":
		if p, err := f.real.Import(path); err == nil {
			return p, nil
		}
	}
	name := path[strings.LastIndex(path, "/")+1:]
	p := types.NewPackage(path, name)
	p.MarkComplete()
	return p, nil
}

type pkgInfo struct {
	fset  *token.FileSet
	files []*ast.File
	info  *types.Info
	pkg   *types.Package
}

func loadPkg(rel string) (*pkgInfo, error) {
	if p, ok := pkgCache[rel]; ok {
		return p, nil
	}
	loading[rel] = true
	defer delete(loading, rel)
	p, err := loadPkgDir(filepath.Join(repoRoot, rel), modPath+"/"+rel)
	if err == nil {
		pkgCache[rel] = p
	}
	return p, err
}

func loadPkgDir(dir, importPath string) (*pkgInfo, error) {
	fset := token.NewFileSet()
	ents, err := os.ReadDir(dir)
	if err != nil {
		return nil, err
	}
	var files []*ast.File
	for _, e := range ents {
		n := e.Name()
		if !strings.HasSuffix(n, ".go") || strings.HasSuffix(n, "_test.go") {
			continue
		}
		src, err := os.ReadFile(filepath.Join(dir, n))
		if err != nil {
			return nil, err
		}
		// skip files excluded on linux/amd64 and verif-only hook files
		hdr := string(src)
		if i := strings.Index(hdr, "\npackage "); i >= 0 {
			hdr = hdr[:i]
		}
		if strings.Contains(hdr, "//go:build") {
			line := hdr[strings.Index(hdr, "//go:build"):]
			line = strings.SplitN(line, "\n", 2)[0]
			if strings.Contains(line, "verif") || strings.Contains(line, "windows") && !strings.Contains(line, "!windows") ||
				strings.Contains(line, "plan9") && !strings.Contains(line, "!plan9") || strings.Contains(line, "js") && !strings.Contains(line, "!js") ||
				strings.Contains(line, "wasip1") && !strings.Contains(line, "!wasip1") || strings.Contains(line, "ignore") {
				continue
			}
		}
		for _, suf := range []string{"_windows.go", "_plan9.go", "_js.go", "_wasip1.go", "_darwin.go", "_bsd.go"} {
			if strings.HasSuffix(n, suf) {
				goto next
			}
		}
		{
			f, err := parser.ParseFile(fset, filepath.Join(dir, n), src, parser.SkipObjectResolution)
			if err != nil {
				return nil, err
			}
			files = append(files, f)
		}
	next:
	}
	if len(files) == 0 {
		return nil, fmt.Errorf("no Go files in %s", dir)
	}
	info := &types.Info{Types: map[ast.Expr]types.TypeAndValue{}, Defs: map[*ast.Ident]types.Object{}, Uses: map[*ast.Ident]types.Object{}}
	conf := types.Config{Importer: fakeImporter{importer.ForCompiler(fset, "source", nil)}, Error: func(error) {}, FakeImportC: true}
	pkg, _ := conf.Check(importPath, fset, files, info)
	return &pkgInfo{fset, files, info, pkg}, nil
}

// ---- emission ----

type emitter struct {
	p       *pkgInfo
	prefix  string
	buf     *bytes.Buffer
	done    map[string]bool
	pending []string // consts referenced by leaves, emitted before them
	errs    *[]string
	funcs   map[string]bool // leaves available for calls
	listed  map[string]bool
	inprog  map[string]bool
	structVars map[string]bool
	sum     *summary
}

func coqName(prefix, name string) string {
	return prefix + "_" + strings.ReplaceAll(name, ".", "_")
}

func zlit(v constant.Value) string {
	s := v.ExactString()
	if strings.HasPrefix(s, "-") {
		return "(" + s + ")"
	}
	return s
}

func coqString(s string) string {
	// emitted as a byte list so that any byte is representable
	var b strings.Builder
	b.WriteString("[")
	for i := 0; i < len(s); i++ {
		if i > 0 {
			b.WriteString("; ")
		}
		fmt.Fprintf(&b, "%d", s[i])
	}
	b.WriteString("]")
	return b.String()
}

func (e *emitter) constDef(name string) bool {
	if e.done["c:"+name] {
		return true
	}
	obj := e.p.pkg.Scope().Lookup(name)
	if obj == nil {
		*e.errs = append(*e.errs, e.prefix+"."+name+": no such package-level name")
		return false
	}
	var val constant.Value
	switch o := obj.(type) {
	case *types.Const:
		val = o.Val()
	case *types.Var:
		// var with a constant initialiser
		for _, f := range e.p.files {
			for _, d := range f.Decls {
				gd, ok := d.(*ast.GenDecl)
				if !ok || gd.Tok != token.VAR {
					continue
				}
				for _, s := range gd.Specs {
					vs := s.(*ast.ValueSpec)
					for i, id := range vs.Names {
						if id.Name == name && i < len(vs.Values) {
							if tv, ok := e.p.info.Types[vs.Values[i]]; ok && tv.Value != nil {
								val = tv.Value
							}
						}
					}
				}
			}
		}
	}
	if val == nil {
		*e.errs = append(*e.errs, e.prefix+"."+name+": not a constant")
		return false
	}
	e.done["c:"+name] = true
	cn := coqName(e.prefix, name)
	switch val.Kind() {
	case constant.Int:
		fmt.Fprintf(e.buf, "Definition %s : Z := %s.\n", cn, zlit(val))
	case constant.String:
		fmt.Fprintf(e.buf, "Definition %s : list Z := %s.\n", cn, coqString(constant.StringVal(val)))
	case constant.Bool:
		fmt.Fprintf(e.buf, "Definition %s : bool := %v.\n", cn, constant.BoolVal(val))
	case constant.Float:
		if i, ok := constant.Int64Val(constant.ToInt(val)); ok && constant.ToInt(val).Kind() == constant.Int {
			fmt.Fprintf(e.buf, "Definition %s : Z := %d.\n", cn, i)
		} else {
			*e.errs = append(*e.errs, e.prefix+"."+name+": non-integral float constant")
			return false
		}
	default:
		*e.errs = append(*e.errs, e.prefix+"."+name+": unsupported constant kind")
		return false
	}
	e.sum.Consts++
	return true
}

func (e *emitter) tableDef(name string) {
	for _, f := range e.p.files {
		for _, d := range f.Decls {
			gd, ok := d.(*ast.GenDecl)
			if !ok || gd.Tok != token.VAR {
				continue
			}
			for _, s := range gd.Specs {
				vs := s.(*ast.ValueSpec)
				for i, id := range vs.Names {
					if id.Name != name || i >= len(vs.Values) {
						continue
					}
					elems, kind, ok := e.tableElems(vs.Values[i])
					if !ok {
						*e.errs = append(*e.errs, e.prefix+"."+name+": table outside the subset")
						return
					}
					ty := "list Z"
					if kind == "string" {
						ty = "list (list Z)"
					} else if kind == "pairs" {
						ty = "list (list Z * Z)"
					} else if strings.HasPrefix(kind, "tuple") {
						n := 0
						fmt.Sscanf(kind, "tuple%d", &n)
						ty = "list (" + strings.TrimSuffix(strings.Repeat("Z * ", n), " * ") + ")"
					}
					fmt.Fprintf(e.buf, "Definition %s : %s := [%s].\n", coqName(e.prefix, name), ty, strings.Join(elems, "; "))
					e.sum.Tables++
					return
				}
			}
		}
	}
	*e.errs = append(*e.errs, e.prefix+"."+name+": table not found")
}

func (e *emitter) tableElems(x ast.Expr) ([]string, string, bool) {
	// []byte("...") / string constant
	if tv, ok := e.p.info.Types[x]; ok && tv.Value != nil && tv.Value.Kind() == constant.String {
		s := constant.StringVal(tv.Value)
		var out []string
		for i := 0; i < len(s); i++ {
			out = append(out, fmt.Sprint(s[i]))
		}
		return out, "int", true
	}
	if call, ok := x.(*ast.CallExpr); ok && len(call.Args) == 1 {
		return e.tableElems(call.Args[0])
	}
	cl, ok := x.(*ast.CompositeLit)
	if !ok {
		return nil, "", false
	}
	var out []string
	kind := "int"
	for _, el := range cl.Elts {
		if kv, ok := el.(*ast.KeyValueExpr); ok {
			// map[string]int-like or indexed array: emit (key bytes, value) pairs for string keys
			ktv, ok1 := e.p.info.Types[kv.Key]
			vtv, ok2 := e.p.info.Types[kv.Value]
			if ok1 && ktv.Value != nil && ktv.Value.Kind() == constant.String {
				v := "0"
				if ok2 && vtv.Value != nil && vtv.Value.Kind() == constant.Int {
					v = zlit(vtv.Value)
				} else if ok2 && vtv.Value != nil && vtv.Value.Kind() == constant.Bool {
					if constant.BoolVal(vtv.Value) {
						v = "1"
					}
				} else if _, isStruct := kv.Value.(*ast.CompositeLit); isStruct {
					v = "1"
				} else {
					return nil, "", false
				}
				kind = "pairs"
				out = append(out, "("+coqString(constant.StringVal(ktv.Value))+", "+v+")")
				continue
			}
			return nil, "", false
		}
		if scl, ok := el.(*ast.CompositeLit); ok {
			// struct literal with constant fields -> tuple, in the order written (all elements must
			// use the same field order; keyed fields are checked against the struct's declaration order)
			var fields []string
			st, _ := e.p.info.Types[scl].Type.Underlying().(*types.Struct)
			for i, f := range scl.Elts {
				v := f
				if kv, ok := f.(*ast.KeyValueExpr); ok {
					v = kv.Value
					if id, ok := kv.Key.(*ast.Ident); !ok || st == nil || i >= st.NumFields() || st.Field(i).Name() != id.Name {
						return nil, "", false
					}
				}
				ftv, ok := e.p.info.Types[v]
				if !ok || ftv.Value == nil || ftv.Value.Kind() != constant.Int {
					return nil, "", false
				}
				fields = append(fields, zlit(ftv.Value))
			}
			if st == nil || len(fields) != st.NumFields() || len(fields) < 2 {
				return nil, "", false
			}
			kind = fmt.Sprintf("tuple%d", len(fields))
			out = append(out, "("+strings.Join(fields, ", ")+")")
			continue
		}
		tv, ok := e.p.info.Types[el]
		if !ok || tv.Value == nil {
			return nil, "", false
		}
		switch tv.Value.Kind() {
		case constant.Int:
			out = append(out, zlit(tv.Value))
		case constant.String:
			kind = "string"
			out = append(out, coqString(constant.StringVal(tv.Value)))
		default:
			return nil, "", false
		}
	}
	return out, kind, true
}

// ---- leaf functions ----

type unsupported struct{ msg string }

func bad(format string, a ...any) { panic(unsupported{fmt.Sprintf(format, a...)}) }

func (e *emitter) findFunc(name string) *ast.FuncDecl {
	recv, fn := "", name
	if i := strings.Index(name, "."); i >= 0 {
		recv, fn = name[:i], name[i+1:]
	}
	for _, f := range e.p.files {
		for _, d := range f.Decls {
			fd, ok := d.(*ast.FuncDecl)
			if !ok || fd.Name.Name != fn {
				continue
			}
			r := ""
			if fd.Recv != nil && len(fd.Recv.List) == 1 {
				t := fd.Recv.List[0].Type
				if s, ok := t.(*ast.StarExpr); ok {
					t = s.X
				}
				if id, ok := t.(*ast.Ident); ok {
					r = id.Name
				}
			}
			if r == recv {
				return fd
			}
		}
	}
	return nil
}

func intWidth(t types.Type) (bits int, signed bool, ok bool) {
	b, isb := t.Underlying().(*types.Basic)
	if !isb {
		return 0, false, false
	}
	switch b.Kind() {
	case types.Int8:
		return 8, true, true
	case types.Int16:
		return 16, true, true
	case types.Int32:
		return 32, true, true
	case types.Int64, types.Int:
		return 64, true, true
	case types.Uint8:
		return 8, false, true
	case types.Uint16:
		return 16, false, true
	case types.Uint32:
		return 32, false, true
	case types.Uint64, types.Uint, types.Uintptr:
		return 64, false, true
	case types.UntypedInt, types.UntypedRune:
		return 0, true, true
	}
	return 0, false, false
}

func isErrorType(t types.Type) bool {
	n, ok := t.(*types.Named)
	return ok && n.Obj().Name() == "error" && n.Obj().Pkg() == nil
}

func (e *emitter) coqType(t types.Type) string {
	if isErrorType(t) {
		return "bool" // true = a non-nil error is returned
	}
	if _, _, ok := intWidth(t); ok {
		return "Z"
	}
	if b, ok := t.Underlying().(*types.Basic); ok {
		if b.Info()&types.IsBoolean != 0 {
			return "bool"
		}
		if b.Info()&types.IsString != 0 {
			return "list Z"
		}
	}
	if s, ok := t.Underlying().(*types.Slice); ok {
		if _, _, ok := intWidth(s.Elem()); ok {
			return "list Z"
		}
	}
	if a, ok := t.Underlying().(*types.Array); ok {
		if _, _, ok := intWidth(a.Elem()); ok {
			return "list Z"
		}
	}
	bad("type %s outside the subset", t)
	return ""
}

func (e *emitter) wrap(t types.Type, s string) string {
	bits, signed, ok := intWidth(t)
	if !ok || bits == 0 {
		return s
	}
	if signed {
		return fmt.Sprintf("(wraps %d %s)", bits, s)
	}
	return fmt.Sprintf("(wrapu %d %s)", bits, s)
}

func (e *emitter) typeOf(x ast.Expr) types.Type {
	tv, ok := e.p.info.Types[x]
	if !ok || tv.Type == nil {
		bad("no type information for expression at %s", e.p.fset.Position(x.Pos()))
	}
	return tv.Type
}

func (e *emitter) expr(x ast.Expr) string {
	if tv, ok := e.p.info.Types[x]; ok && tv.Value != nil {
		switch tv.Value.Kind() {
		case constant.Int:
			// keep a reference to a named package constant visible (so proofs see the name)
			if id, ok := x.(*ast.Ident); ok {
				if obj := e.p.info.Uses[id]; obj != nil && obj.Pkg() == e.p.pkg && obj.Parent() == e.p.pkg.Scope() {
					if e.constDef(id.Name) {
						return coqName(e.prefix, id.Name)
					}
				}
			}
			return zlit(tv.Value)
		case constant.Bool:
			return fmt.Sprint(constant.BoolVal(tv.Value))
		case constant.String:
			return coqString(constant.StringVal(tv.Value))
		}
	}
	switch v := x.(type) {
	case *ast.ParenExpr:
		return e.expr(v.X)
	case *ast.Ident:
		if v.Name == "true" || v.Name == "false" {
			return v.Name
		}
		return "v_" + v.Name
	case *ast.BasicLit:
		bad("literal %s", v.Value)
	case *ast.UnaryExpr:
		a := e.expr(v.X)
		switch v.Op {
		case token.NOT:
			return "(negb " + a + ")"
		case token.SUB:
			return e.wrap(e.typeOf(x), "(- "+a+")")
		case token.XOR:
			bits, signed, _ := intWidth(e.typeOf(x))
			if signed || bits == 0 {
				return e.wrap(e.typeOf(x), "(- "+a+" - 1)")
			}
			return fmt.Sprintf("(Z.lxor %s (2^%d - 1))", a, bits)
		case token.ADD:
			return a
		}
		bad("unary operator %s", v.Op)
	case *ast.BinaryExpr:
		a, b := e.expr(v.X), e.expr(v.Y)
		t := e.typeOf(x)
		switch v.Op {
		case token.LAND:
			return "(" + a + " && " + b + ")"
		case token.LOR:
			return "(" + a + " || " + b + ")"
		case token.EQL, token.NEQ, token.LSS, token.LEQ, token.GTR, token.GEQ:
			ot := e.typeOf(v.X)
			op := map[token.Token]string{token.EQL: "=?", token.NEQ: "=?", token.LSS: "<?", token.LEQ: "<=?", token.GTR: ">?", token.GEQ: ">=?"}[v.Op]
			if bt, ok := ot.Underlying().(*types.Basic); ok && bt.Info()&types.IsBoolean != 0 {
				r := "(Bool.eqb " + a + " " + b + ")"
				if v.Op == token.NEQ {
					r = "(negb " + r + ")"
				}
				return r
			}
			if bt, ok := ot.Underlying().(*types.Basic); ok && bt.Info()&types.IsString != 0 {
				if v.Op != token.EQL && v.Op != token.NEQ {
					bad("string ordering")
				}
				r := "(list_eqb " + a + " " + b + ")"
				if v.Op == token.NEQ {
					r = "(negb " + r + ")"
				}
				return r
			}
			if _, _, ok := intWidth(ot); !ok {
				bad("comparison of %s", ot)
			}
			r := "(" + a + " " + op + " " + b + ")"
			if v.Op == token.NEQ {
				r = "(negb " + r + ")"
			}
			return r
		case token.ADD:
			return e.wrap(t, "("+a+" + "+b+")")
		case token.SUB:
			return e.wrap(t, "("+a+" - "+b+")")
		case token.MUL:
			return e.wrap(t, "("+a+" * "+b+")")
		case token.QUO:
			return e.wrap(t, "(Z.quot "+a+" "+b+")")
		case token.REM:
			return e.wrap(t, "(Z.rem "+a+" "+b+")")
		case token.AND:
			return "(Z.land " + a + " " + b + ")"
		case token.OR:
			return "(Z.lor " + a + " " + b + ")"
		case token.XOR:
			return "(Z.lxor " + a + " " + b + ")"
		case token.AND_NOT:
			return "(Z.ldiff " + a + " " + b + ")"
		case token.SHL:
			bits, _, _ := intWidth(t)
			if bits == 0 {
				return "(Z.shiftl " + a + " " + b + ")"
			}
			return e.wrap(t, fmt.Sprintf("(goshl %d %s %s)", bits, a, b))
		case token.SHR:
			return "(Z.shiftr " + a + " " + b + ")"
		}
		bad("binary operator %s", v.Op)
	case *ast.CallExpr:
		// conversion
		if tv, ok := e.p.info.Types[v.Fun]; ok && tv.IsType() && len(v.Args) == 1 {
			at := e.typeOf(v.Args[0])
			if _, _, ok := intWidth(tv.Type); ok {
				if _, _, ok := intWidth(at); ok {
					return e.wrap(tv.Type, e.expr(v.Args[0]))
				}
			}
			if e.coqType(tv.Type) == "list Z" && e.coqType(at) == "list Z" {
				return e.expr(v.Args[0])
			}
			bad("conversion %s -> %s", at, tv.Type)
		}
		if id, ok := v.Fun.(*ast.Ident); ok {
			if id.Name == "len" && len(v.Args) == 1 {
				return "(Z.of_nat (List.length " + e.expr(v.Args[0]) + "))"
			}
			if id.Name == "min" || id.Name == "max" {
				r := e.expr(v.Args[0])
				for _, a := range v.Args[1:] {
					r = "(Z." + id.Name + " " + r + " " + e.expr(a) + ")"
				}
				return r
			}
			if !e.funcs[id.Name] && e.listed[id.Name] && !e.inprog[id.Name] {
				e.funcDef(id.Name)
			}
			if e.funcs[id.Name] {
				var args []string
				for _, a := range v.Args {
					args = append(args, e.expr(a))
				}
				return "(" + coqName(e.prefix, id.Name) + " " + strings.Join(args, " ") + ")"
			}
			bad("call to %s (not a translated leaf)", id.Name)
		}
		bad("call expression outside the subset")
	case *ast.SelectorExpr:
		if id, ok := v.X.(*ast.Ident); ok && e.structVars[id.Name] {
			return "v_" + id.Name + "_" + v.Sel.Name
		}
		bad("selector expression %s outside the subset", v.Sel.Name)
	case *ast.IndexExpr:
		return "(nthZ " + e.expr(v.X) + " " + e.expr(v.Index) + ")"
	}
	bad("expression %T outside the subset", x)
	return ""
}

// stmts translates a statement list ending in a return on every path.
// rest is what follows (for fallthrough of if-without-else).
func (e *emitter) stmts(list []ast.Stmt, results *types.Tuple) string {
	if len(list) == 0 {
		bad("path without return")
	}
	s, rest := list[0], list[1:]
	switch v := s.(type) {
	case *ast.ReturnStmt:
		if len(v.Results) == 0 {
			bad("naked return")
		}
		var rs []string
		for i, r := range v.Results {
			if results != nil && i < results.Len() && isErrorType(results.At(i).Type()) {
				if id, ok := r.(*ast.Ident); ok && id.Name == "nil" {
					rs = append(rs, "false")
				} else {
					rs = append(rs, "true")
				}
				continue
			}
			rs = append(rs, e.expr(r))
		}
		if len(rs) == 1 {
			return rs[0]
		}
		return "(" + strings.Join(rs, ", ") + ")"
	case *ast.IfStmt:
		if v.Init != nil {
			as, ok := v.Init.(*ast.AssignStmt)
			if !ok {
				bad("if-init outside the subset")
			}
			return e.assign(as, func() string { return e.ifStmt(v, rest, results) })
		}
		return e.ifStmt(v, rest, results)
	case *ast.AssignStmt:
		return e.assign(v, func() string { return e.stmts(rest, results) })
	case *ast.DeclStmt:
		gd := v.Decl.(*ast.GenDecl)
		if gd.Tok != token.VAR && gd.Tok != token.CONST {
			bad("declaration outside the subset")
		}
		out := ""
		closers := 0
		for _, sp := range gd.Specs {
			vs := sp.(*ast.ValueSpec)
			for i, id := range vs.Names {
				val := "0"
				if i < len(vs.Values) {
					val = e.expr(vs.Values[i])
				} else if obj := e.p.info.Defs[id]; obj != nil && e.coqType(obj.Type()) == "bool" {
					val = "false"
				} else if obj != nil && e.coqType(obj.Type()) == "list Z" {
					val = "[]"
				}
				out += "(let v_" + id.Name + " := " + val + " in "
				closers++
			}
		}
		return out + e.stmts(rest, results) + strings.Repeat(")", closers)
	case *ast.SwitchStmt:
		if v.Init != nil {
			bad("switch-init")
		}
		var tag string
		if v.Tag != nil {
			tag = e.expr(v.Tag)
		}
		var deflt []ast.Stmt
		hasDefault := false
		type arm struct {
			cond string
			body []ast.Stmt
		}
		var arms []arm
		for _, c := range v.Body.List {
			cc := c.(*ast.CaseClause)
			for _, st := range cc.Body {
				if br, ok := st.(*ast.BranchStmt); ok && br.Tok == token.FALLTHROUGH {
					bad("fallthrough")
				}
			}
			if cc.List == nil {
				deflt, hasDefault = cc.Body, true
				continue
			}
			var conds []string
			for _, x := range cc.List {
				if v.Tag != nil {
					conds = append(conds, "("+tag+" =? "+e.expr(x)+")")
				} else {
					conds = append(conds, e.expr(x))
				}
			}
			arms = append(arms, arm{"(" + strings.Join(conds, " || ") + ")", cc.Body})
		}
		tail := func() string {
			if hasDefault {
				return e.stmts(append(append([]ast.Stmt{}, deflt...), rest...), results)
			}
			return e.stmts(rest, results)
		}
		out := ""
		for _, a := range arms {
			out += "(if " + a.cond + " then " + e.stmts(append(append([]ast.Stmt{}, a.body...), rest...), results) + " else "
		}
		return out + tail() + strings.Repeat(")", len(arms))
	case *ast.BlockStmt:
		return e.stmts(append(append([]ast.Stmt{}, v.List...), rest...), results)
	case *ast.ExprStmt:
		bad("expression statement (side effect) outside the subset")
	}
	bad("statement %T outside the subset", s)
	return ""
}

func (e *emitter) convertTo(t types.Type, x ast.Expr, s string) string {
	// untyped constants returned into a typed result need no wrap; typed values already wrapped
	return s
}

func (e *emitter) ifStmt(v *ast.IfStmt, rest []ast.Stmt, results *types.Tuple) string {
	cond := e.expr(v.Cond)
	thenB := e.stmts(append(append([]ast.Stmt{}, v.Body.List...), rest...), results)
	var elseB string
	switch el := v.Else.(type) {
	case nil:
		elseB = e.stmts(rest, results)
	case *ast.BlockStmt:
		elseB = e.stmts(append(append([]ast.Stmt{}, el.List...), rest...), results)
	case *ast.IfStmt:
		elseB = e.stmts(append([]ast.Stmt{el}, rest...), results)
	}
	return "(if " + cond + " then " + thenB + " else " + elseB + ")"
}

func (e *emitter) assign(as *ast.AssignStmt, k func() string) string {
	if len(as.Lhs) != len(as.Rhs) {
		bad("tuple assignment")
	}
	out := ""
	for i := range as.Lhs {
		id, ok := as.Lhs[i].(*ast.Ident)
		if !ok {
			bad("assignment to non-identifier")
		}
		rhs := e.expr(as.Rhs[i])
		switch as.Tok {
		case token.DEFINE, token.ASSIGN:
		case token.ADD_ASSIGN, token.SUB_ASSIGN, token.MUL_ASSIGN, token.OR_ASSIGN, token.AND_ASSIGN, token.SHL_ASSIGN, token.SHR_ASSIGN, token.XOR_ASSIGN:
			op := map[token.Token]token.Token{token.ADD_ASSIGN: token.ADD, token.SUB_ASSIGN: token.SUB, token.MUL_ASSIGN: token.MUL, token.OR_ASSIGN: token.OR,
				token.AND_ASSIGN: token.AND, token.SHL_ASSIGN: token.SHL, token.SHR_ASSIGN: token.SHR, token.XOR_ASSIGN: token.XOR}[as.Tok]
			be := &ast.BinaryExpr{X: as.Lhs[i], Op: op, Y: as.Rhs[i]}
			// type of the result is the type of the left operand
			e.p.info.Types[be] = e.p.info.Types[as.Lhs[i]]
			if _, ok := e.p.info.Types[as.Lhs[i]]; !ok {
				if obj := e.p.info.Uses[id]; obj != nil {
					e.p.info.Types[be] = types.TypeAndValue{Type: obj.Type()}
					e.p.info.Types[as.Lhs[i]] = types.TypeAndValue{Type: obj.Type()}
				}
			}
			rhs = e.expr(be)
		default:
			bad("assignment operator %s", as.Tok)
		}
		if id.Name == "_" {
			continue
		}
		out += "(let v_" + id.Name + " := " + rhs + " in "
	}
	return out + k() + strings.Repeat(")", strings.Count(out, "(let v_"))
}

func (e *emitter) funcDef(name string) {
	if e.funcs[name] || e.inprog[name] {
		return
	}
	e.inprog[name] = true
	defer delete(e.inprog, name)
	fd := e.findFunc(name)
	if fd == nil || fd.Body == nil {
		*e.errs = append(*e.errs, e.prefix+"."+name+": function not found")
		return
	}
	defer func() {
		if r := recover(); r != nil {
			if u, ok := r.(unsupported); ok {
				*e.errs = append(*e.errs, e.prefix+"."+name+": "+u.msg)
				return
			}
			panic(r)
		}
	}()
	obj, _ := e.p.info.Defs[fd.Name].(*types.Func)
	if obj == nil {
		bad("no type information")
	}
	sig := obj.Type().(*types.Signature)
	var params []string
	addParam := func(n string, t types.Type) {
		if st, ok := t.Underlying().(*types.Struct); ok {
			// a struct is flattened into one parameter per field the body actually reads
			// (v_<name>_<Field>); an unread field of any type is simply not a parameter
			used := map[string]bool{}
			ast.Inspect(fd.Body, func(nd ast.Node) bool {
				if se, ok := nd.(*ast.SelectorExpr); ok {
					if id, ok := se.X.(*ast.Ident); ok && id.Name == n {
						used[se.Sel.Name] = true
					}
				}
				return true
			})
			for i := 0; i < st.NumFields(); i++ {
				if used[st.Field(i).Name()] {
					params = append(params, "(v_"+n+"_"+st.Field(i).Name()+" : "+e.coqType(st.Field(i).Type())+")")
				}
			}
			e.structVars[n] = true
			return
		}
		params = append(params, "(v_"+n+" : "+e.coqType(t)+")")
	}
	e.structVars = map[string]bool{}
	if fd.Recv != nil && len(fd.Recv.List) == 1 && len(fd.Recv.List[0].Names) == 1 && sig.Recv() != nil {
		rt := sig.Recv().Type()
		if p, ok := rt.(*types.Pointer); ok {
			rt = p.Elem()
		}
		addParam(fd.Recv.List[0].Names[0].Name, rt)
	}
	for i := 0; i < sig.Params().Len(); i++ {
		p := sig.Params().At(i)
		n := p.Name()
		if n == "" || n == "_" {
			n = fmt.Sprintf("unused%d", i)
		}
		addParam(n, p.Type())
	}
	var rts []string
	for i := 0; i < sig.Results().Len(); i++ {
		rts = append(rts, e.coqType(sig.Results().At(i).Type()))
	}
	if len(rts) == 0 {
		bad("no result")
	}
	var tmp bytes.Buffer
	saved := e.buf
	// constants referenced by the body are emitted (into saved) before the definition
	e.buf = saved
	body := e.stmts(fd.Body.List, sig.Results())
	e.buf = saved
	fmt.Fprintf(&tmp, "Definition %s %s : %s :=\n  %s.\n", coqName(e.prefix, name), strings.Join(params, " "), strings.Join(rts, " * "), body)
	e.buf.Write(tmp.Bytes())
	e.funcs[name] = true
	e.sum.Funcs++
}

func (e *emitter) callsDef(name string) {
	fd := e.findFunc(name)
	if fd == nil || fd.Body == nil {
		*e.errs = append(*e.errs, e.prefix+"."+name+": function not found (calls)")
		return
	}
	var calls []string
	ast.Inspect(fd.Body, func(n ast.Node) bool {
		if c, ok := n.(*ast.CallExpr); ok {
			var b bytes.Buffer
			if err := printExpr(&b, c.Fun); err == nil {
				calls = append(calls, b.String())
			}
		}
		return true
	})
	var qs []string
	for _, c := range calls {
		qs = append(qs, `"`+strings.ReplaceAll(c, `"`, `""`)+`"%string`)
	}
	fmt.Fprintf(e.buf, "Definition %s_calls : list string := [%s].\n", coqName(e.prefix, name), strings.Join(qs, "; "))
	e.sum.Calls++
}

func printExpr(b *bytes.Buffer, x ast.Expr) error {
	switch v := x.(type) {
	case *ast.Ident:
		b.WriteString(v.Name)
	case *ast.SelectorExpr:
		if err := printExpr(b, v.X); err != nil {
			return err
		}
		b.WriteString("." + v.Sel.Name)
	case *ast.CallExpr:
		if err := printExpr(b, v.Fun); err != nil {
			return err
		}
		b.WriteString("(")
		for i, a := range v.Args {
			if i > 0 {
				b.WriteString(",")
			}
			if err := printExpr(b, a); err != nil {
				b.WriteString("_")
			}
		}
		b.WriteString(")")
	case *ast.ParenExpr:
		return printExpr(b, v.X)
	case *ast.StarExpr:
		b.WriteString("*")
		return printExpr(b, v.X)
	case *ast.IndexExpr:
		return printExpr(b, v.X)
	default:
		return fmt.Errorf("unprintable")
	}
	return nil
}

func main() {
	repo := flag.String("repo", "/repo", "repository root")
	out := flag.String("out", "", "output directory (coq/theories/Gen)")
	_ = flag.String("cache", "", "unused (kept for compatibility)")
	specDir := flag.String("spec", "", "directory of spec files (default: <out>/../../../gotrans)")
	flag.Parse()
	if *specDir == "" {
		*specDir = filepath.Join(*out, "..", "..", "..", "gotrans")
	}
	os.MkdirAll(*out, 0o755)
	sum := summary{Untranslated: []string{}, Changed: []string{}}
	specs, _ := filepath.Glob(filepath.Join(*specDir, "*.json"))
	sort.Strings(specs)
	repoRoot = *repo
	for _, sf := range specs {
		var sp spec
		data, err := os.ReadFile(sf)
		if err == nil {
			err = json.Unmarshal(data, &sp)
		}
		name := strings.TrimSuffix(filepath.Base(sf), ".json")
		if err != nil {
			sum.Untranslated = append(sum.Untranslated, name+": bad spec: "+err.Error())
			continue
		}
		var buf bytes.Buffer
		fmt.Fprintf(&buf, "(* GENERATED by harness/cmd/gotrans from the Go sources of the repository's working tree\n   (spec gotrans/%s.json). Do not edit: rewritten on every check. *)\n", name)
		buf.WriteString("From Coq Require Import ZArith List Bool String.\nFrom GoGit Require Import Base.GoInt.\nImport ListNotations.\nLocal Open Scope Z_scope.\nLocal Open Scope bool_scope.\n\n")
		for _, it := range sp.Items {
			p, err := loadPkg(it.Pkg)
			if err != nil {
				sum.Untranslated = append(sum.Untranslated, it.Pkg+": "+err.Error())
				continue
			}
			prefix := it.Prefix
			if prefix == "" {
				prefix = filepath.Base(it.Pkg)
			}
			fmt.Fprintf(&buf, "(* ---- %s ---- *)\n", it.Pkg)
			e := &emitter{p: p, prefix: prefix, buf: &buf, done: map[string]bool{}, errs: &sum.Untranslated, funcs: map[string]bool{}, listed: map[string]bool{}, inprog: map[string]bool{}, sum: &sum}
			for _, f := range it.Funcs {
				e.listed[f] = true
			}
			for _, c := range it.Consts {
				e.constDef(c)
			}
			for _, t := range it.Tables {
				e.tableDef(t)
			}
			for _, f := range it.Funcs {
				e.funcDef(f)
			}
			for _, f := range it.Calls {
				e.callsDef(f)
			}
			buf.WriteString("\n")
		}
		dst := filepath.Join(*out, name+".v")
		old, _ := os.ReadFile(dst)
		if !bytes.Equal(old, buf.Bytes()) {
			if err := os.WriteFile(dst, buf.Bytes(), 0o644); err != nil {
				sum.Untranslated = append(sum.Untranslated, "write "+dst+": "+err.Error())
			}
			sum.Changed = append(sum.Changed, name)
		}
		sum.Files = append(sum.Files, name+".v")
	}
	js, _ := json.Marshal(sum)
	fmt.Println(string(js))
	if len(sum.Untranslated) > 0 {
		os.Exit(2)
	}
}
