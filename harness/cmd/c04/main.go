// c04: implementation side of the C04 correspondence (tree codec).
//
//	op=dec : raw tree bytes -> entries returned by Tree.Decode (or the error class)
//	op=enc : entries (optionally sorted with TreeEntrySorter first) -> bytes written
//	         by Tree.Encode, or the Validate verdict (invalid, duplicate?, unsorted?)
package main

import (
	"errors"
	"io"
	"sort"

	"github.com/go-git/go-git/v6/plumbing"
	"github.com/go-git/go-git/v6/plumbing/filemode"
	"github.com/go-git/go-git/v6/plumbing/object"

	"verif/harness/lib"
)

func main() {
	lib.Main(func(c lib.Case) (lib.Out, any) {
		switch c.S("op") {
		case "dec":
			o := &plumbing.MemoryObject{}
			o.SetType(plumbing.TreeObject)
			o.Write(c.B("raw"))
			t := &object.Tree{}
			if err := t.Decode(o); err != nil {
				return lib.Err("malformed"), nil
			}
			outs := make([]lib.Out, 0, len(t.Entries))
			for _, e := range t.Entries {
				outs = append(outs, lib.List(lib.Uint(uint64(e.Mode)), lib.Str(e.Name), lib.Bytes(e.Hash.Bytes())))
			}
			return lib.Ok(outs...), nil
		case "enc":
			t := &object.Tree{}
			for _, x := range c.L("entries") {
				e := lib.AsCase(x)
				h, _ := plumbing.FromBytes(e.B("hash"))
				t.Entries = append(t.Entries, object.TreeEntry{Name: string(e.B("name")), Mode: filemode.FileMode(e.U("mode")), Hash: h})
			}
			if c.Bool("sort") {
				sort.Sort(object.TreeEntrySorter(t.Entries))
			}
			o := &plumbing.MemoryObject{}
			if err := t.Encode(o); err != nil {
				return lib.List(lib.Sym("invalid"), lib.Bool(errors.Is(err, object.ErrDuplicateEntry)), lib.Bool(errors.Is(err, object.ErrEntriesNotSorted))), nil
			}
			r, _ := o.Reader()
			b, _ := io.ReadAll(r)
			return lib.Ok(lib.Bytes(b)), nil
		}
		return lib.Err("badop"), nil
	})
}
