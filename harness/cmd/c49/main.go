// c49: implementation side of the C49 correspondence (gitignore).
//
// ops:
//
//	dowild  {p,t,flags}                         -> ( ok <code> )
//	parse   {line,domain[]}                     -> ( ok (domain) (segs) incl dironly isglob )
//	pmatch  {line,domain[],path[],isdir}        -> nomatch | exclude | include
//	ignore  {exclude?,files[{dir[],content}],queries[{path[],isdir}]}
//	        the walk go-git's status performs: NewScope(RootPatterns(fs)), then
//	        Scope.Descend for every directory on the way (readOwn = DirPatterns
//	        when the directory holds a .gitignore), then Scope.Match.
//	        -> ( ok v… ) one boolean per query
//	flat    same case, but the deprecated flat API: NewMatcher(ReadPatterns(fs)).Match
package main

import (
	"encoding/hex"
	"strings"

	"github.com/go-git/go-billy/v6"
	"github.com/go-git/go-billy/v6/memfs"
	"github.com/go-git/go-billy/v6/util"
	"github.com/go-git/go-git/v6/plumbing/format/gitignore"

	"verif/harness/lib"
)

func comps(xs []string) []string {
	var r []string
	for _, x := range xs {
		r = append(r, string(lib.Unhex(x)))
	}
	return r
}

func strs(xs []string) lib.Out {
	var r []lib.Out
	for _, x := range xs {
		r = append(r, lib.Str(x))
	}
	return lib.List(r...)
}

func wmCode(c int) lib.Out {
	switch c {
	case 0:
		return lib.Sym("match")
	case 1:
		return lib.Sym("nomatch")
	case -1:
		return lib.Sym("abort_all")
	case -2:
		return lib.Sym("abort_starstar")
	}
	return lib.Sym("other")
}

func buildFS(c lib.Case) (billy.Filesystem, map[string]bool) {
	fs := memfs.New()
	has := map[string]bool{}
	if ex, ok := c["exclude"].(string); ok {
		_ = fs.MkdirAll(".git/info", 0o755)
		_ = util.WriteFile(fs, ".git/info/exclude", lib.Unhex(ex), 0o644)
	}
	for _, f := range c.L("files") {
		fc := lib.AsCase(f)
		dir := comps(fc.SL("dir"))
		d := strings.Join(dir, "/")
		if d != "" {
			_ = fs.MkdirAll(d, 0o755)
		}
		_ = util.WriteFile(fs, fs.Join(append(append([]string{}, dir...), gitignore.IgnoreFile)...), fc.B("content"), 0o644)
		has[d] = true
	}
	return fs, has
}

// materialize creates the queried directories and files in fs
func materialize(fs billy.Filesystem, c lib.Case) {
	for _, q := range c.L("queries") {
		qc := lib.AsCase(q)
		path := comps(qc.SL("path"))
		p := strings.Join(path, "/")
		if qc.Bool("isdir") {
			_ = fs.MkdirAll(p, 0o755)
		} else {
			if len(path) > 1 {
				_ = fs.MkdirAll(strings.Join(path[:len(path)-1], "/"), 0o755)
			}
			if _, err := fs.Stat(p); err != nil {
				_ = util.WriteFile(fs, p, nil, 0o644)
			}
		}
	}
}

// decider names the pattern that decides path (classification aid only, not a
// compared observable): the last pattern whose Match is not NoMatch.  With
// onlyExclude it is reported only when it excludes (a Descend step).
func decider(ps []gitignore.Pattern, path []string, isDir bool, level int, onlyExclude bool) any {
	for i := len(ps) - 1; i >= 0; i-- {
		r := ps[i].Match(path, isDir)
		if r == gitignore.NoMatch {
			continue
		}
		if onlyExclude && r != gitignore.Exclude {
			return nil
		}
		dom, segs, incl, dirOnly, _, ok := gitignore.VerifPatternFields(ps[i])
		if !ok {
			return nil
		}
		t := strings.Join(segs, "/")
		if dirOnly {
			t += "/"
		}
		anc := false
		for k := 1; k < len(path); k++ {
			if ps[i].Match(path[:k], true) != gitignore.NoMatch {
				anc = true
			}
		}
		return map[string]any{"pat": hex.EncodeToString([]byte(t)), "neg": incl, "level": level, "dom": len(dom), "idx": i, "anc": anc}
	}
	return nil
}

func main() {
	lib.Main(func(c lib.Case) (lib.Out, any) {
		switch c.S("op") {
		case "dowild":
			return lib.Ok(wmCode(gitignore.VerifDowild(string(c.B("p")), string(c.B("t")), int(c.I("flags"))))), nil
		case "parse":
			p := gitignore.ParsePattern(string(c.B("line")), comps(c.SL("domain")))
			dom, segs, incl, dirOnly, isGlob, ok := gitignore.VerifPatternFields(p)
			if !ok {
				return lib.Err("type"), nil
			}
			return lib.Ok(strs(dom), strs(segs), lib.Bool(incl), lib.Bool(dirOnly), lib.Bool(isGlob)), nil
		case "pmatch":
			p := gitignore.ParsePattern(string(c.B("line")), comps(c.SL("domain")))
			switch p.Match(comps(c.SL("path")), c.Bool("isdir")) {
			case gitignore.NoMatch:
				return lib.Sym("nomatch"), nil
			case gitignore.Exclude:
				return lib.Sym("exclude"), nil
			case gitignore.Include:
				return lib.Sym("include"), nil
			}
			return lib.Sym("other"), nil
		case "ignore":
			fs, has := buildFS(c)
			root, err := gitignore.RootPatterns(fs)
			if err != nil {
				return lib.Err("root"), nil
			}
			var res []lib.Out
			var why []any
			for _, q := range c.L("queries") {
				qc := lib.AsCase(q)
				path := comps(qc.SL("path"))
				scope := gitignore.NewScope(root)
				var by any
				for k := 0; k < len(path); k++ {
					dir := path[:k]
					if by == nil && !scope.Excluded() {
						by = decider(scope.Patterns(), dir, true, k, true)
					}
					var readOwn func() ([]gitignore.Pattern, error)
					if has[strings.Join(dir, "/")] {
						d := append([]string(nil), dir...)
						readOwn = func() ([]gitignore.Pattern, error) { return gitignore.DirPatterns(fs, d) }
					}
					scope, err = scope.Descend(dir, readOwn)
					if err != nil {
						return lib.Err("descend"), nil
					}
				}
				if by == nil && !scope.Excluded() {
					by = decider(scope.Patterns(), path, qc.Bool("isdir"), len(path), false)
				}
				why = append(why, by)
				res = append(res, lib.Bool(scope.Match(path, qc.Bool("isdir"))))
			}
			// the deprecated flat API on the same tree (an uncompared observable for the oracle):
			// NewMatcher(ReadPatterns(fs, nil)).Match
			extra := map[string]any{"why": why}
			materialize(fs, c)
			if ps, err := gitignore.ReadPatterns(fs, nil); err == nil {
				m := gitignore.NewMatcher(ps)
				var flat []bool
				for _, q := range c.L("queries") {
					qc := lib.AsCase(q)
					flat = append(flat, m.Match(comps(qc.SL("path")), qc.Bool("isdir")))
				}
				extra["flat"] = flat
			} else {
				extra["flat_err"] = err.Error()
			}
			return lib.Ok(res...), extra
		case "flat":
			fs, _ := buildFS(c)
			materialize(fs, c)
			ps, err := gitignore.ReadPatterns(fs, nil)
			if err != nil {
				return lib.Err("read"), nil
			}
			m := gitignore.NewMatcher(ps)
			var res []lib.Out
			for _, q := range c.L("queries") {
				qc := lib.AsCase(q)
				res = append(res, lib.Bool(m.Match(comps(qc.SL("path")), qc.Bool("isdir"))))
			}
			return lib.Ok(res...), nil
		}
		return lib.Err("op"), nil
	})
}
