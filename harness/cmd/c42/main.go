// c42: implementation side of the C42 correspondence (IsAncestor, MergeBase,
// Independents, isFastForward) on a DAG materialised in a memory storage.
package main

import (
	"errors"

	git "github.com/go-git/go-git/v6"
	"github.com/go-git/go-git/v6/plumbing"
	"github.com/go-git/go-git/v6/plumbing/object"

	"verif/harness/dagrepo"
	"verif/harness/lib"
)

func errOut(err error) lib.Out {
	if errors.Is(err, plumbing.ErrObjectNotFound) {
		return lib.Err("missing")
	}
	return lib.Err("other")
}

func main() {
	lib.Main(func(c lib.Case) (lib.Out, any) {
		r := dagrepo.FromCase(c)
		switch c.S("op") {
		case "anc":
			ok, err := r.Commit(int(c.I("a"))).IsAncestor(r.Commit(int(c.I("b"))))
			if err != nil {
				return errOut(err), nil
			}
			return lib.Ok(lib.Bool(ok)), nil
		case "mb":
			res, err := r.Commit(int(c.I("a"))).MergeBase(r.Commit(int(c.I("b"))))
			if err != nil {
				return errOut(err), nil
			}
			return lib.Ok(r.SortedNodes(res)), nil
		case "indep":
			var cs []*object.Commit
			for _, x := range dagrepo.Ints(c, "xs") {
				cs = append(cs, r.Commit(x))
			}
			res, err := object.Independents(cs)
			if err != nil {
				return errOut(err), nil
			}
			return lib.Ok(r.SortedNodes(res)), nil
		case "ff":
			var sh []plumbing.Hash
			for _, x := range dagrepo.Ints(c, "shallows") {
				sh = append(sh, r.Hash(x))
			}
			ok, err := git.VerifIsFastForward(r.S, r.Hash(int(c.I("old"))), r.Hash(int(c.I("new"))), sh)
			if err != nil {
				return errOut(err), nil
			}
			return lib.Ok(lib.Bool(ok)), nil
		}
		return lib.Err("badcase"), nil
	})
}
