// c08: implementation side of the C08/C09 correspondence (packfile.Parser +
// Scanner + idxfile.Writer/Encode + revfile.Encode).
//
// case kinds
//
//	ztable : {pack}                  Go's compress/zlib (stdlib only, no go-git code) at every offset:
//	                                 the table that instantiates the model's inflate section variable
//	parse  : {pack, fmt, mode, store:[{t,c}]}   Parser.Parse with an idxfile.Writer observer
package main

import (
	"bytes"
	"compress/zlib"
	"crypto"
	_ "crypto/sha256"
	"encoding/hex"
	"hash"
	"io"
	"sort"

	"github.com/go-git/go-billy/v6/memfs"

	_ "github.com/go-git/go-git/v6" // registers the hash implementations like every application
	"github.com/go-git/go-git/v6/plumbing"
	"github.com/go-git/go-git/v6/plumbing/cache"
	formatcfg "github.com/go-git/go-git/v6/plumbing/format/config"
	"github.com/go-git/go-git/v6/plumbing/format/idxfile"
	"github.com/go-git/go-git/v6/plumbing/format/packfile"
	"github.com/go-git/go-git/v6/plumbing/format/revfile"
	ghash "github.com/go-git/go-git/v6/plumbing/hash"
	"github.com/go-git/go-git/v6/plumbing/storer"
	"github.com/go-git/go-git/v6/storage/filesystem"
	"github.com/go-git/go-git/v6/storage/memory"

	"verif/harness/lib"
)

type onlyReader struct{ r io.Reader }

func (o onlyReader) Read(p []byte) (int, error) { return o.r.Read(p) }

type hdr struct {
	t    plumbing.ObjectType
	size int64
}

// headerObs records the (type, size) announced for every offset.
type headerObs struct{ at map[int64]hdr }

func (h *headerObs) OnHeader(uint32) error { return nil }
func (h *headerObs) OnInflatedObjectHeader(t plumbing.ObjectType, sz, pos int64) error {
	h.at[pos] = hdr{t, sz}
	return nil
}
func (h *headerObs) OnInflatedObjectContent(plumbing.Hash, int64, uint32, []byte) error { return nil }
func (h *headerObs) OnFooter(plumbing.Hash) error                                       { return nil }

func hasher(hs int) hash.Hash {
	if hs == 32 {
		return ghash.New(crypto.SHA256)
	}
	return ghash.New(crypto.SHA1)
}

func ztable(pack []byte) lib.Out {
	var rows []lib.Out
	for pos := 0; pos+2 <= len(pack); pos++ {
		// cheap pre-filter: zlib header (CM = 8, header check)
		if pack[pos]&0x0f != 8 || (uint(pack[pos])<<8|uint(pack[pos+1]))%31 != 0 {
			continue
		}
		br := bytes.NewReader(pack[pos:])
		zr, err := zlib.NewReader(br)
		if err != nil {
			continue
		}
		var out bytes.Buffer
		_, err = io.Copy(&out, io.LimitReader(zr, 1<<22))
		if err != nil {
			continue
		}
		// a stream longer than the cap is left out (the model then sees an inflate error)
		var one [1]byte
		if n, _ := zr.Read(one[:]); n != 0 {
			continue
		}
		consumed := len(pack) - pos - br.Len()
		rows = append(rows, lib.List(lib.Int(int64(pos)), lib.Bytes(out.Bytes()), lib.Int(int64(consumed))))
	}
	return lib.Ok(rows...)
}

func main() {
	lib.Main(func(c lib.Case) (lib.Out, any) {
		pack := c.B("pack")
		switch c.S("kind") {
		case "ztable":
			return ztable(pack), nil
		case "parse":
			hs := 20
			of := formatcfg.SHA1
			if c.S("fmt") == "sha256" {
				hs, of = 32, formatcfg.SHA256
			}
			var src io.Reader = bytes.NewReader(pack)
			var st storer.EncodedObjectStorer
			switch c.S("mode") {
			case "stream":
				src = onlyReader{bytes.NewReader(pack)}
			case "seek":
			case "memstore":
				st = memory.NewStorage(memory.WithObjectFormat(of))
			case "stream-memstore":
				src = onlyReader{bytes.NewReader(pack)}
				st = memory.NewStorage(memory.WithObjectFormat(of))
			case "fs-low":
				st = filesystem.NewStorageWithOptions(memfs.New(), cache.NewObjectLRUDefault(), filesystem.Options{ObjectFormat: of})
			case "fs-high":
				st = filesystem.NewStorageWithOptions(memfs.New(), cache.NewObjectLRUDefault(), filesystem.Options{ObjectFormat: of, HighMemoryMode: true})
			default:
				panic("harness: unknown mode")
			}
			for _, x := range c.L("store") {
				m := lib.AsCase(x)
				o := st.NewEncodedObject()
				t, _ := plumbing.ParseObjectType(m.S("t"))
				o.SetType(t)
				w, _ := o.Writer()
				w.Write(m.B("c"))
				w.Close()
				if _, err := st.SetEncodedObject(o); err != nil {
					panic("harness: cannot preload object: " + err.Error())
				}
			}
			w := new(idxfile.Writer)
			ho := &headerObs{at: map[int64]hdr{}}
			opts := []packfile.ParserOption{packfile.WithScannerObservers(w, ho), packfile.WithObjectFormat(of)}
			if st != nil {
				opts = append(opts, packfile.WithStorage(st))
			}
			sum, err := packfile.NewParser(src, opts...).Parse()
			if err != nil {
				return lib.Err("reject"), map[string]string{"error": err.Error()}
			}
			idx, err := w.Index()
			if err != nil {
				return lib.Err("index"), nil
			}
			var ib, rb bytes.Buffer
			if err := idxfile.Encode(&ib, hasher(hs), idx); err != nil {
				return lib.Err("idxencode"), nil
			}
			if err := revfile.Encode(&rb, hasher(hs), idx); err != nil {
				return lib.Err("revencode"), nil
			}
			it, err := idx.EntriesByOffset()
			if err != nil {
				return lib.Err("entries"), nil
			}
			var es []*idxfile.Entry
			for {
				e, err := it.Next()
				if err != nil {
					break
				}
				es = append(es, e)
			}
			sort.SliceStable(es, func(a, b int) bool { return es[a].Offset < es[b].Offset })
			if c.Bool("countonly") {
				// deep-chain cases: thousands of objects; the reply is the number of objects indexed, the idx/rev go to the oracle
				return lib.Ok(lib.Uint(uint64(len(es)))),
					map[string]string{"idx": hex.EncodeToString(ib.Bytes()), "rev": hex.EncodeToString(rb.Bytes())}
			}
			var rows []lib.Out
			for _, e := range es {
				h := ho.at[int64(e.Offset)]
				rows = append(rows, lib.List(lib.Uint(e.Offset), lib.Sym(h.t.String()), lib.Int(h.size), lib.Bytes(e.Hash.Bytes()), lib.Uint(uint64(e.CRC32))))
			}
			return lib.Ok(lib.Bytes(sum.Bytes()), lib.List(rows...), lib.Bytes(ib.Bytes()[ib.Len()-hs:]), lib.Bytes(rb.Bytes()[rb.Len()-hs:])),
				map[string]string{"idx": hex.EncodeToString(ib.Bytes()), "rev": hex.EncodeToString(rb.Bytes())}
		}
		return lib.Sym("badcase"), nil
	})
}
