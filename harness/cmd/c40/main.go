// c40: implementation side of the C40 correspondence (transport.FilesystemLoader
// confinement).  A case describes a directory tree below a scratch directory T
// (the loader's root is T/R, a sentinel repository lives in T/out), a request
// path and the loader flags; the token "@T@" inside request paths, gitfile
// contents and link targets stands for the scratch directory.
//
// Suites:
//   load  : run FilesystemLoader.Load through a recording billy wrapper
//   paths : leaf path functions (filepath.Clean/Join, BoundOS/ChrootHelper Chroot root)
package main

import (
	"bytes"
	"errors"
	"io"
	gofs "io/fs"
	"net/http"
	"net/http/httptest"
	"net/url"
	"os"
	"path/filepath"
	"sort"
	"strings"

	"github.com/go-git/go-billy/v6"
	"github.com/go-git/go-billy/v6/memfs"
	"github.com/go-git/go-billy/v6/osfs"

	"github.com/go-git/go-git/v6/backend"
	"github.com/go-git/go-git/v6/plumbing/transport"
	"github.com/go-git/go-git/v6/storage/filesystem"

	"verif/harness/lib"
)

// recFS records the absolute (root-joined) name of every path handed to the
// filesystem by the code under test.
type recFS struct {
	billy.Filesystem
	log *[]string
}

func (r recFS) rec(name string) {
	*r.log = append(*r.log, filepath.Join(r.Filesystem.Root(), name))
}
func (r recFS) Chroot(p string) (billy.Filesystem, error) {
	fs, err := r.Filesystem.Chroot(p)
	if err != nil {
		return nil, err
	}
	return recFS{fs, r.log}, nil
}
func (r recFS) Lstat(n string) (os.FileInfo, error) { r.rec(n); return r.Filesystem.Lstat(n) }
func (r recFS) Stat(n string) (os.FileInfo, error)  { r.rec(n); return r.Filesystem.Stat(n) }
func (r recFS) Open(n string) (billy.File, error)   { r.rec(n); return r.Filesystem.Open(n) }
func (r recFS) OpenFile(n string, f int, m gofs.FileMode) (billy.File, error) {
	r.rec(n)
	return r.Filesystem.OpenFile(n, f, m)
}
func (r recFS) Create(n string) (billy.File, error) { r.rec(n); return r.Filesystem.Create(n) }
func (r recFS) ReadDir(n string) ([]gofs.DirEntry, error) {
	r.rec(n)
	return r.Filesystem.ReadDir(n)
}
func (r recFS) Readlink(n string) (string, error) { r.rec(n); return r.Filesystem.Readlink(n) }
func (r recFS) MkdirAll(n string, m gofs.FileMode) error {
	r.rec(n)
	return r.Filesystem.MkdirAll(n, m)
}
func (r recFS) Remove(n string) error { r.rec(n); return r.Filesystem.Remove(n) }
func (r recFS) Rename(a, b string) error {
	r.rec(a)
	r.rec(b)
	return r.Filesystem.Rename(a, b)
}

var scratch = os.Getenv("C40_T")

func subst(b []byte) string { return string(bytes.ReplaceAll(b, []byte("@T@"), []byte(scratch))) }

const sentinel = "[verif]\n\tsentinel = OUTSIDE-c40\n"

type entry struct {
	p, k string
	c    string
}

func entries(c lib.Case) []entry {
	var es []entry
	for _, x := range c.L("tree") {
		e := lib.AsCase(x)
		es = append(es, entry{subst(e.B("p")), e.S("k"), subst(e.B("c"))})
	}
	// sentinel repositories outside the loader root (bare and non-bare)
	for _, d := range []string{"out/repo.git", "out/wt/.git", "out.git", "R.git"} {
		es = append(es, entry{d, "d", ""}, entry{d + "/config", "f", sentinel}, entry{d + "/HEAD", "f", "ref: refs/heads/outside\n"},
			entry{d + "/objects", "d", ""}, entry{d + "/refs", "d", ""})
	}
	return es
}

func buildOS(es []entry) error {
	os.RemoveAll(scratch)
	if err := os.MkdirAll(scratch, 0o755); err != nil {
		return err
	}
	for _, e := range es {
		p := filepath.Join(scratch, e.p)
		switch e.k {
		case "d":
			if err := os.MkdirAll(p, 0o755); err != nil {
				return err
			}
		case "f":
			os.MkdirAll(filepath.Dir(p), 0o755)
			if err := os.WriteFile(p, []byte(e.c), 0o644); err != nil {
				return err
			}
		case "l":
			os.MkdirAll(filepath.Dir(p), 0o755)
			if err := os.Symlink(e.c, p); err != nil {
				return err
			}
		}
	}
	return nil
}

func buildMem(es []entry) (billy.Filesystem, error) {
	m := memfs.New()
	for _, e := range es {
		p := filepath.Join(scratch, e.p)
		switch e.k {
		case "d":
			if err := m.MkdirAll(p, 0o755); err != nil {
				return nil, err
			}
		case "f":
			m.MkdirAll(filepath.Dir(p), 0o755)
			f, err := m.Create(p)
			if err != nil {
				return nil, err
			}
			f.Write([]byte(e.c))
			f.Close()
		case "l":
			m.MkdirAll(filepath.Dir(p), 0o755)
			if err := m.Symlink(e.c, p); err != nil {
				return nil, err
			}
		}
	}
	return m, nil
}

func class(err error) string {
	switch {
	case errors.Is(err, transport.ErrRepositoryNotFound):
		return "notfound"
	case strings.Contains(err.Error(), ".git file has no"):
		return "badgitfile"
	default:
		return "chroot"
	}
}

func uniq(xs []string) []string {
	sort.Strings(xs)
	var r []string
	for i, x := range xs {
		if i == 0 || x != xs[i-1] {
			r = append(r, x)
		}
	}
	return r
}

func load(c lib.Case) (lib.Out, any) {
	if scratch == "" || !strings.HasPrefix(scratch, "/") || strings.Count(scratch, "/") < 2 {
		panic("C40_T must name a scratch directory")
	}
	es := entries(c)
	root := filepath.Join(scratch, "R")
	var base billy.Filesystem
	kind := c.S("kind")
	switch kind {
	case "bound":
		if err := buildOS(es); err != nil {
			panic("cannot build tree: " + err.Error())
		}
		defer os.RemoveAll(scratch)
		base = osfs.New(root)
	case "chroot":
		m, err := buildMem(es)
		if err != nil {
			panic("cannot build tree: " + err.Error())
		}
		base, err = m.Chroot(root)
		if err != nil {
			panic(err)
		}
	default:
		panic("kind")
	}
	var log []string
	l := transport.NewFilesystemLoader(recFS{base, &log}, c.Bool("strict"))
	if c.S("via") == "http" {
		// the dumb-HTTP route of backend.Backend: GET <request path>/HEAD, served from the loaded repository
		b := backend.New(l)
		rw := httptest.NewRecorder()
		b.ServeHTTP(rw, &http.Request{Method: http.MethodGet, URL: &url.URL{Path: "/" + subst(c.B("req")) + "/HEAD"}, Header: http.Header{}})
		body := rw.Body.String()
		if len(body) > 256 {
			body = body[:256]
		}
		return lib.Ok(lib.Int(int64(rw.Code))), map[string]any{"touched": uniq(log), "http_status": rw.Code, "http_body": body}
	}
	st, err := l.Load(&url.URL{Path: subst(c.B("req"))})
	touched := uniq(log)
	extra := map[string]any{"touched": touched}
	if err != nil {
		extra["error"] = err.Error()
		return lib.Err(class(err)), extra
	}
	fst, ok := st.(*filesystem.Storage)
	if !ok {
		panic("not a filesystem storage")
	}
	fs := fst.Filesystem()
	got := fs.Root()
	extra["root"] = got
	if f, err := fs.Open("config"); err == nil {
		b, _ := io.ReadAll(io.LimitReader(f, 256))
		f.Close()
		extra["config"] = string(b)
	}
	if f, err := fs.Open("HEAD"); err == nil {
		b, _ := io.ReadAll(io.LimitReader(f, 256))
		f.Close()
		extra["head"] = string(b)
	}
	if kind == "bound" {
		if rp, err := filepath.EvalSymlinks(got); err == nil {
			extra["realroot"] = rp
		}
		if rr, err := filepath.EvalSymlinks(root); err == nil {
			extra["realR"] = rr
		}
		var real []string
		for _, p := range touched {
			q := p
			for {
				if rp, err := filepath.EvalSymlinks(q); err == nil {
					real = append(real, rp)
					break
				}
				if q == "/" || q == "." {
					break
				}
				q = filepath.Dir(q)
			}
		}
		extra["realtouched"] = uniq(real)
	}
	var tl []lib.Out
	for _, p := range touched {
		tl = append(tl, lib.Str(p))
	}
	return lib.Ok(lib.Str(got), lib.List(tl...)), extra
}

// paths: leaf functions of the path algebra the model relies on
func paths(c lib.Case) (lib.Out, any) {
	a, b := subst(c.B("a")), subst(c.B("b"))
	switch c.S("fn") {
	case "clean":
		return lib.Str(filepath.Clean(a)), nil
	case "join":
		return lib.Str(filepath.Join(a, b)), nil
	case "bound": // root of osfs.New(a).Chroot(b) when nothing exists below a
		fs, err := osfs.New(a).Chroot(b)
		if err != nil {
			return lib.Err("chroot"), nil
		}
		return lib.Ok(lib.Str(fs.Root())), nil
	case "chroot":
		m := memfs.New()
		base, err := m.Chroot(a)
		if err != nil {
			return lib.Err("chroot"), nil
		}
		fs, err := base.Chroot(b)
		if err != nil {
			return lib.Err("chroot"), nil
		}
		return lib.Ok(lib.Str(fs.Root())), nil
	}
	panic("fn")
}

func main() {
	lib.Main(func(c lib.Case) (lib.Out, any) {
		if c.S("fn") != "" {
			return paths(c)
		}
		return load(c)
	})
}
