package main

import (
	"errors"
	iofs "io/fs"

	"github.com/go-git/go-billy/v6"
)

// faultfs wraps a billy.Filesystem (after harness/cmd/c20/faultfs.go): every
// filesystem call and every file Read / Write / Close is counted; when armed,
// the k-th counted call fails with errInjected (single shot) and its
// description (method, path as seen from the repository root) is recorded.
// All wrappers created from one faults value (worktree, .git, chroots, files)
// share the counter.  A failing Write is torn: half of the buffer reaches the
// file.
var errInjected = errors.New("verif: injected I/O failure")

type faults struct {
	armed  bool
	remain int
	calls  int
	fired  string
	rec    bool     // record every call
	trace  []string // "Method path" per counted call
}

func (f *faults) arm(k int) { f.armed, f.remain, f.fired = true, k, "" }
func (f *faults) hit(method, path string) bool {
	f.calls++
	if f.rec {
		f.trace = append(f.trace, method+" "+path)
	}
	if !f.armed {
		return false
	}
	f.remain--
	if f.remain <= 0 {
		f.armed = false
		f.fired = method + " " + path
		return true
	}
	return false
}

type faultfs struct {
	billy.Filesystem
	f      *faults
	prefix string
}

func newFaultFS(fs billy.Filesystem, f *faults) *faultfs { return &faultfs{fs, f, ""} }

func (s *faultfs) p(n string) string {
	if s.prefix == "" {
		return n
	}
	return s.prefix + "/" + n
}

func (s *faultfs) wrap(n string, file billy.File, err error) (billy.File, error) {
	if err != nil {
		return nil, err
	}
	return &faultfile{file, s.f, s.p(n)}, nil
}

func (s *faultfs) Create(n string) (billy.File, error) {
	if s.f.hit("Create", s.p(n)) {
		return nil, errInjected
	}
	f, err := s.Filesystem.Create(n)
	return s.wrap(n, f, err)
}

func (s *faultfs) Open(n string) (billy.File, error) {
	if s.f.hit("Open", s.p(n)) {
		return nil, errInjected
	}
	f, err := s.Filesystem.Open(n)
	return s.wrap(n, f, err)
}

func (s *faultfs) OpenFile(n string, flag int, perm iofs.FileMode) (billy.File, error) {
	if s.f.hit("OpenFile", s.p(n)) {
		return nil, errInjected
	}
	f, err := s.Filesystem.OpenFile(n, flag, perm)
	return s.wrap(n, f, err)
}

func (s *faultfs) TempFile(dir, prefix string) (billy.File, error) {
	if s.f.hit("TempFile", s.p(dir+"/"+prefix)) {
		return nil, errInjected
	}
	f, err := s.Filesystem.TempFile(dir, prefix)
	if err != nil {
		return nil, err
	}
	return &faultfile{f, s.f, s.p(f.Name())}, nil
}

func (s *faultfs) Stat(n string) (iofs.FileInfo, error) {
	if s.f.hit("Stat", s.p(n)) {
		return nil, errInjected
	}
	return s.Filesystem.Stat(n)
}

func (s *faultfs) Lstat(n string) (iofs.FileInfo, error) {
	if s.f.hit("Lstat", s.p(n)) {
		return nil, errInjected
	}
	return s.Filesystem.Lstat(n)
}

func (s *faultfs) Rename(a, b string) error {
	if s.f.hit("Rename", s.p(b)) {
		return errInjected
	}
	return s.Filesystem.Rename(a, b)
}

func (s *faultfs) Remove(n string) error {
	if s.f.hit("Remove", s.p(n)) {
		return errInjected
	}
	return s.Filesystem.Remove(n)
}

func (s *faultfs) ReadDir(n string) ([]iofs.DirEntry, error) {
	if s.f.hit("ReadDir", s.p(n)) {
		return nil, errInjected
	}
	return s.Filesystem.ReadDir(n)
}

func (s *faultfs) MkdirAll(n string, perm iofs.FileMode) error {
	if s.f.hit("MkdirAll", s.p(n)) {
		return errInjected
	}
	return s.Filesystem.MkdirAll(n, perm)
}

func (s *faultfs) Readlink(n string) (string, error) {
	if s.f.hit("Readlink", s.p(n)) {
		return "", errInjected
	}
	return s.Filesystem.Readlink(n)
}

func (s *faultfs) Symlink(t, l string) error {
	if s.f.hit("Symlink", s.p(l)) {
		return errInjected
	}
	return s.Filesystem.Symlink(t, l)
}

func (s *faultfs) Chroot(p string) (billy.Filesystem, error) {
	fs, err := s.Filesystem.Chroot(p)
	if err != nil {
		return nil, err
	}
	return &faultfs{fs, s.f, s.p(p)}, nil
}

type faultfile struct {
	billy.File
	f    *faults
	path string
}

func (x *faultfile) Read(p []byte) (int, error) {
	if x.f.hit("Read", x.path) {
		return 0, errInjected
	}
	return x.File.Read(p)
}

func (x *faultfile) Write(p []byte) (int, error) {
	if x.f.hit("Write", x.path) {
		// a torn write: half of the buffer reaches the file
		n, _ := x.File.Write(p[:len(p)/2])
		return n, errInjected
	}
	return x.File.Write(p)
}

func (x *faultfile) Close() error {
	if x.f.hit("Close", x.path) {
		_ = x.File.Close()
		return errInjected
	}
	return x.File.Close()
}
