// c29ops: implementation side of the C29 extension (Restore, Add, Commit,
// Merge, Pull: "a refused porcelain operation changes nothing").
//
// A case is a repository recipe — commits as flattened trees with parent
// numbers (the first `nloc` are stored locally, all of them in the remote),
// refs, HEAD, an explicit index and worktree, whether user.name/email are
// configured — plus an op sequence:
//
//	restore {staged, worktree, files}      add {path}   addall   addbad
//	commit {all, allow_empty, author, amend}
//	merge {target, ff}                      pull {conf, reach, rrefs, rhead, refname}
//	write {path, kind, content}             rm {path}
//
// Plain mode: the reply is, per op, the result class and the canonical
// snapshot (HEAD, refs, index, worktree), compared with
// Model/PorcelainOps.c29ops_run; `extra` carries the snapshots as JSON for the
// before/after oracle.
//
// Fault mode ("fault": true): the LAST op is run once per k = 1..N through a
// fault-injecting billy.Filesystem wrapper around the worktree and .git (the
// k-th filesystem call fails; N = number of calls of the undisturbed run), each
// time on a fresh copy of the prepared repository; `extra` reports, per k, the
// result class, the failing call and which parts of the snapshot changed.
package main

import (
	"errors"
	"fmt"
	"io"
	"os"
	"path/filepath"
	"sort"
	"strings"
	"time"

	"golang.org/x/sys/unix"

	"github.com/go-git/go-billy/v6/osfs"
	git "github.com/go-git/go-git/v6"
	"github.com/go-git/go-git/v6/config"
	"github.com/go-git/go-git/v6/plumbing"
	"github.com/go-git/go-git/v6/plumbing/cache"
	"github.com/go-git/go-git/v6/plumbing/filemode"
	"github.com/go-git/go-git/v6/plumbing/format/index"
	"github.com/go-git/go-git/v6/plumbing/object"
	"github.com/go-git/go-git/v6/plumbing/transport"
	"github.com/go-git/go-git/v6/storage/filesystem"

	"verif/harness/lib"
)

type fent struct {
	path    string
	kind    string // f regular, x executable, l symlink
	content []byte
}

func entsOf(l []any) []fent {
	var r []fent
	for _, x := range l {
		t, _ := x.([]any)
		if len(t) != 3 {
			panic("bad entry in case")
		}
		p, _ := t[0].(string)
		k, _ := t[1].(string)
		c, _ := t[2].(string)
		r = append(r, fent{p, k, []byte(c)})
	}
	return r
}

func modeOf(kind string) filemode.FileMode {
	switch kind {
	case "x":
		return filemode.Executable
	case "l":
		return filemode.Symlink
	}
	return filemode.Regular
}

func kindOfMode(m filemode.FileMode) string {
	switch m {
	case filemode.Regular, filemode.Deprecated:
		return "f"
	case filemode.Executable:
		return "x"
	case filemode.Symlink:
		return "l"
	case filemode.Submodule:
		return "s"
	case filemode.Dir:
		return "d"
	}
	return "u"
}

type env struct {
	base    string // scratch root of the case
	dir     string // the repository (worktree) the ops run on
	rdir    string // the remote (bare)
	commits []plumbing.Hash
	cidx    map[plumbing.Hash]int
	tick    int64
	flt     *faults // non-nil: open through the fault wrapper
}

func must(err error) {
	if err != nil {
		panic(err)
	}
}

func storeBlob(r *git.Repository, content []byte) plumbing.Hash {
	o := r.Storer.NewEncodedObject()
	o.SetType(plumbing.BlobObject)
	w, err := o.Writer()
	must(err)
	w.Write(content)
	w.Close()
	h, err := r.Storer.SetEncodedObject(o)
	must(err)
	return h
}

// storeTree writes the nested tree objects of a flattened tree.
func storeTree(r *git.Repository, ents []fent, prefix string) plumbing.Hash {
	type sub struct{ ents []fent }
	var entries []object.TreeEntry
	subs := map[string]*sub{}
	var order []string
	for _, f := range ents {
		rel := strings.TrimPrefix(f.path, prefix)
		if i := strings.IndexByte(rel, '/'); i >= 0 {
			d := rel[:i]
			if subs[d] == nil {
				subs[d] = &sub{}
				order = append(order, d)
			}
			subs[d].ents = append(subs[d].ents, f)
			continue
		}
		entries = append(entries, object.TreeEntry{Name: rel, Mode: modeOf(f.kind), Hash: storeBlob(r, f.content)})
	}
	for _, d := range order {
		entries = append(entries, object.TreeEntry{Name: d, Mode: filemode.Dir, Hash: storeTree(r, subs[d].ents, prefix+d+"/")})
	}
	sort.Sort(object.TreeEntrySorter(entries))
	t := &object.Tree{Entries: entries}
	o := r.Storer.NewEncodedObject()
	must(t.Encode(o))
	h, err := r.Storer.SetEncodedObject(o)
	must(err)
	return h
}

func (e *env) storeCommit(r *git.Repository, tree plumbing.Hash, n int, parents []int64) plumbing.Hash {
	sig := object.Signature{Name: "v", Email: "v@v", When: time.Unix(1000000000+int64(n), 0).UTC()}
	c := &object.Commit{Author: sig, Committer: sig, Message: fmt.Sprintf("c%d\n", n), TreeHash: tree}
	for _, p := range parents {
		c.ParentHashes = append(c.ParentHashes, e.hashOf(p))
	}
	o := r.Storer.NewEncodedObject()
	must(c.Encode(o))
	h, err := r.Storer.SetEncodedObject(o)
	must(err)
	return h
}

func (e *env) hashOf(i int64) plumbing.Hash {
	if i == -1 {
		return plumbing.ZeroHash
	}
	if i < 0 || int(i) >= len(e.commits) {
		return plumbing.NewHash("deadbeefdeadbeefdeadbeefdeadbeefdeadbeef")
	}
	return e.commits[i]
}

func (e *env) writeWT(f fent) {
	p := filepath.Join(e.dir, filepath.FromSlash(f.path))
	os.RemoveAll(p)
	must(os.MkdirAll(filepath.Dir(p), 0o755))
	e.tick++
	sec := 978307200 + e.tick // 2001-01-01 + tick: never equal to a prepared index entry's mtime, always before the index file's
	if f.kind == "l" {
		must(os.Symlink(string(f.content), p))
		tv := []unix.Timeval{{Sec: sec}, {Sec: sec}}
		must(unix.Lutimes(p, tv))
		return
	}
	perm := os.FileMode(0o644)
	if f.kind == "x" {
		perm = 0o755
	}
	must(os.WriteFile(p, f.content, perm))
	os.Chmod(p, perm)
	t := time.Unix(sec, 0)
	os.Chtimes(p, t, t)
}

func (e *env) rmWT(path string) {
	p := filepath.Join(e.dir, filepath.FromSlash(path))
	os.RemoveAll(p)
	for d := filepath.Dir(p); d != e.dir && len(d) > len(e.dir); d = filepath.Dir(d) {
		if os.Remove(d) != nil {
			break
		}
	}
}

// open the repository the way the ops see it
func (e *env) open() *git.Repository {
	if e.flt == nil {
		r, err := git.PlainOpen(e.dir)
		must(err)
		return r
	}
	wt := newFaultFS(osfs.New(e.dir, osfs.WithBoundOS()), e.flt)
	dot, err := wt.Chroot(".git")
	must(err)
	st := filesystem.NewStorage(dot, cache.NewObjectLRUDefault())
	r, err := git.Open(st, wt)
	must(err)
	return r
}

type snap struct {
	Head  []any             `json:"head"`
	Refs  [][]any           `json:"refs"`
	Index [][]any           `json:"index"`
	WT    [][]any           `json:"wt"`
	Raw   map[string]string `json:"raw"`   // bytes of .git/HEAD, .git/packed-refs and every file below .git/refs except refs/remotes
	Stray []string          `json:"stray"` // lock / temporary files left in .git
}

func (e *env) commitNo(h plumbing.Hash) int64 {
	if i, ok := e.cidx[h]; ok {
		return int64(i)
	}
	return -2
}

// snapshot reads the repository with a fresh, undisturbed go-git handle; what
// cannot be read is reported as such (an injected fault may leave garbage).
func (e *env) snapshot() (lib.Out, snap) {
	var s snap
	r, err := git.PlainOpen(e.dir)
	must(err)
	var head lib.Out = lib.Sym("none")
	s.Head = []any{"none"}
	if h, err := r.Storer.Reference(plumbing.HEAD); err == nil {
		if h.Type() == plumbing.SymbolicReference {
			head = lib.List(lib.Sym("sym"), lib.Str(string(h.Target())))
			s.Head = []any{"sym", string(h.Target())}
		} else {
			head = lib.List(lib.Sym("det"), lib.Int(e.commitNo(h.Hash())))
			s.Head = []any{"det", e.commitNo(h.Hash())}
		}
	} else if !errors.Is(err, plumbing.ErrReferenceNotFound) {
		head = lib.Sym("unreadable")
		s.Head = []any{"unreadable", err.Error()}
	}
	var refs []lib.Out
	type rr struct {
		n string
		c int64
	}
	var rl []rr
	it, err := r.Storer.IterReferences()
	if err == nil {
		err = it.ForEach(func(ref *plumbing.Reference) error {
			if ref.Name() == plumbing.HEAD || ref.Type() != plumbing.HashReference {
				return nil
			}
			rl = append(rl, rr{string(ref.Name()), e.commitNo(ref.Hash())})
			return nil
		})
	}
	if err != nil {
		rl = append(rl, rr{"unreadable: " + err.Error(), -3})
	}
	sort.Slice(rl, func(i, j int) bool { return rl[i].n < rl[j].n })
	for _, x := range rl {
		refs = append(refs, lib.List(lib.Str(x.n), lib.Int(x.c)))
		s.Refs = append(s.Refs, []any{x.n, x.c})
	}
	var io_ []lib.Out
	idx, err := r.Storer.Index()
	if err != nil {
		io_ = append(io_, lib.Sym("unreadable"))
		s.Index = append(s.Index, []any{"unreadable", err.Error(), ""})
	} else {
		ents := append([]*index.Entry(nil), idx.Entries...)
		sort.SliceStable(ents, func(i, j int) bool { return ents[i].Name < ents[j].Name })
		for _, en := range ents {
			var content []byte
			kind := kindOfMode(en.Mode)
			if b, err := r.BlobObject(en.Hash); err == nil {
				rd, _ := b.Reader()
				content, _ = io.ReadAll(rd)
				rd.Close()
			} else {
				kind = "missing_" + kind
			}
			if en.Stage != 0 || en.SkipWorktree || en.IntentToAdd {
				kind = "flagged_" + kind
			}
			io_ = append(io_, lib.List(lib.Str(en.Name), lib.Sym(kind), lib.Bytes(content)))
			s.Index = append(s.Index, []any{en.Name, kind, string(content)})
		}
	}
	s.Raw = map[string]string{}
	for _, f := range []string{"HEAD", "packed-refs"} {
		if b, err := os.ReadFile(filepath.Join(e.dir, ".git", f)); err == nil {
			s.Raw[f] = string(b)
		}
	}
	filepath.Walk(filepath.Join(e.dir, ".git", "refs"), func(p string, fi os.FileInfo, err error) error {
		if err == nil && fi.Mode().IsRegular() {
			rel, _ := filepath.Rel(filepath.Join(e.dir, ".git"), p)
			rel = filepath.ToSlash(rel)
			if strings.HasPrefix(rel, "refs/remotes/") {
				return nil
			}
			b, _ := os.ReadFile(p)
			s.Raw[rel] = string(b)
		}
		return nil
	})
	s.Stray = []string{}
	if l, err := os.ReadDir(filepath.Join(e.dir, ".git")); err == nil {
		for _, d := range l {
			n := d.Name()
			if strings.HasSuffix(n, ".lock") || strings.HasPrefix(n, "tmp") || strings.HasPrefix(n, ".tmp") {
				s.Stray = append(s.Stray, n)
			}
		}
	}
	var wo []lib.Out
	var files []fent
	filepath.Walk(e.dir, func(p string, fi os.FileInfo, err error) error {
		if err != nil {
			return nil
		}
		rel, _ := filepath.Rel(e.dir, p)
		rel = filepath.ToSlash(rel)
		if rel == "." {
			return nil
		}
		if rel == ".git" {
			return filepath.SkipDir
		}
		switch {
		case fi.Mode()&os.ModeSymlink != 0:
			t, _ := os.Readlink(p)
			files = append(files, fent{rel, "l", []byte(t)})
		case fi.IsDir():
		case fi.Mode().IsRegular():
			b, _ := os.ReadFile(p)
			k := "f"
			if fi.Mode()&0o100 != 0 {
				k = "x"
			}
			files = append(files, fent{rel, k, b})
		default:
			files = append(files, fent{rel, "u", nil})
		}
		return nil
	})
	sort.Slice(files, func(i, j int) bool { return files[i].path < files[j].path })
	for _, f := range files {
		wo = append(wo, lib.List(lib.Str(f.path), lib.Sym(f.kind), lib.Bytes(f.content)))
		s.WT = append(s.WT, []any{f.path, f.kind, string(f.content)})
	}
	return lib.List(head, lib.List(refs...), lib.List(io_...), lib.List(wo...)), s
}

func classify(err error) string {
	switch {
	case err == nil:
		return "ok"
	case errors.Is(err, errInjected):
		return "injected"
	case errors.Is(err, git.ErrNoRestorePaths):
		return "no_restore_paths"
	case errors.Is(err, git.ErrRestoreWorktreeOnlyNotSupported):
		return "worktree_only"
	case errors.Is(err, git.ErrMissingAuthor):
		return "missing_author"
	case errors.Is(err, git.ErrEmptyCommit):
		return "empty_commit"
	case errors.Is(err, git.ErrUnsupportedMergeStrategy):
		return "unsupported_strategy"
	case errors.Is(err, git.ErrFastForwardMergeNotPossible):
		return "merge_not_possible"
	case errors.Is(err, git.ErrRemoteNotFound):
		return "remote_not_found"
	case errors.Is(err, transport.ErrEmptyRemoteRepository):
		return "empty_remote"
	case errors.Is(err, transport.ErrRepositoryNotFound):
		return "transport"
	case errors.Is(err, git.NoErrAlreadyUpToDate):
		return "already_up_to_date"
	case errors.Is(err, git.ErrNonFastForwardUpdate):
		return "non_fast_forward"
	case errors.Is(err, git.ErrUnstagedChanges):
		return "unstaged"
	case errors.Is(err, index.ErrEntryNotFound):
		return "entry_not_found"
	case errors.Is(err, plumbing.ErrReferenceNotFound):
		return "ref_not_found"
	case errors.Is(err, plumbing.ErrObjectNotFound):
		return "object_not_found"
	case strings.Contains(err.Error(), "mutual exclusive"), strings.Contains(err.Error(), "cannot be used together"):
		return "bad_options"
	}
	return "other"
}

// setRemote rewrites the remote section of the local configuration and the
// references of the remote repository for one pull op.
func (e *env) setRemote(op lib.Case) {
	r, err := git.PlainOpen(e.dir)
	must(err)
	cfg, err := r.Config()
	must(err)
	delete(cfg.Remotes, "origin")
	if op.Bool("conf") {
		url := e.rdir
		if !op.Bool("reach") {
			url = filepath.Join(e.base, "no-such-repository")
		}
		cfg.Remotes["origin"] = &config.RemoteConfig{Name: "origin", URLs: []string{url},
			Fetch: []config.RefSpec{"+refs/heads/*:refs/remotes/origin/*"}}
	}
	must(r.SetConfig(cfg))
	rr, err := git.PlainOpen(e.rdir)
	must(err)
	it, err := rr.Storer.IterReferences()
	must(err)
	var old []plumbing.ReferenceName
	it.ForEach(func(ref *plumbing.Reference) error { old = append(old, ref.Name()); return nil })
	for _, n := range old {
		if n != plumbing.HEAD {
			must(rr.Storer.RemoveReference(n))
		}
	}
	for _, x := range op.L("rrefs") {
		t, _ := x.([]any)
		name, _ := t[0].(string)
		n := lib.Case{"n": t[1]}.I("n")
		must(rr.Storer.SetReference(plumbing.NewHashReference(plumbing.ReferenceName(name), e.hashOf(n))))
	}
	rhead := op.S("rhead")
	if rhead == "" {
		rhead = "refs/heads/master"
	}
	must(rr.Storer.SetReference(plumbing.NewSymbolicReference(plumbing.HEAD, plumbing.ReferenceName(rhead))))
}

// runOp performs one porcelain op on an opened repository; a successful commit
// returns the new commit's id.
func (e *env) runOp(r *git.Repository, op lib.Case) (plumbing.Hash, error) {
	switch op.S("op") {
	case "merge":
		st := git.FastForwardMerge
		if !op.Bool("ff") {
			st = git.MergeStrategy(7)
		}
		return plumbing.ZeroHash, r.Merge(*plumbing.NewHashReference("refs/heads/incoming", e.hashOf(op.I("target"))), git.MergeOptions{Strategy: st})
	}
	w, err := r.Worktree()
	must(err)
	switch op.S("op") {
	case "restore":
		return plumbing.ZeroHash, w.Restore(&git.RestoreOptions{Staged: op.Bool("staged"), Worktree: op.Bool("worktree"), Files: op.SL("files")})
	case "add":
		_, err := w.Add(op.S("path"))
		return plumbing.ZeroHash, err
	case "addall":
		return plumbing.ZeroHash, w.AddWithOptions(&git.AddOptions{All: true})
	case "addbad":
		return plumbing.ZeroHash, w.AddWithOptions(&git.AddOptions{Path: "a", Glob: "*"})
	case "commit":
		o := &git.CommitOptions{All: op.Bool("all"), AllowEmptyCommits: op.Bool("allow_empty"), Amend: op.Bool("amend")}
		if op.Bool("author") {
			o.Author = &object.Signature{Name: "a", Email: "a@a", When: time.Unix(1100000000, 0).UTC()}
		}
		return w.Commit("msg\n", o)
	case "pull":
		return plumbing.ZeroHash, w.Pull(&git.PullOptions{RemoteName: "origin", ReferenceName: plumbing.ReferenceName(op.S("refname"))})
	}
	panic("unknown op " + op.S("op"))
}

func isEdit(op lib.Case) bool { return op.S("op") == "write" || op.S("op") == "rm" }

func scratchBase() string {
	base := os.Getenv("VERIF_SCRATCH")
	if base == "" {
		if fi, err := os.Stat("/dev/shm"); err == nil && fi.IsDir() {
			if d, err := os.MkdirTemp("/dev/shm", "c29ops-probe-"); err == nil {
				os.Remove(d)
				base = "/dev/shm"
			}
		}
	}
	return base
}

// build prepares the local and the remote repository of a case
func (e *env) build(c lib.Case) {
	must(os.MkdirAll(e.dir, 0o755))
	r, err := git.PlainInit(e.dir, false)
	must(err)
	rr, err := git.PlainInit(e.rdir, true)
	must(err)
	nloc := int(c.I("nloc"))
	for i, cm := range c.L("commits") {
		cc := lib.AsCase(cm)
		ents := entsOf(cc.L("tree"))
		var parents []int64
		for _, p := range cc.L("parents") {
			parents = append(parents, lib.Case{"n": p}.I("n"))
		}
		h := e.storeCommit(rr, storeTree(rr, ents, ""), i, parents)
		if i < nloc {
			if h2 := e.storeCommit(r, storeTree(r, ents, ""), i, parents); h2 != h {
				panic("commit ids differ between the two stores")
			}
		}
		e.commits = append(e.commits, h)
		e.cidx[h] = i
	}
	for _, x := range c.L("refs") {
		t, _ := x.([]any)
		name, _ := t[0].(string)
		n := lib.Case{"n": t[1]}.I("n")
		must(r.Storer.SetReference(plumbing.NewHashReference(plumbing.ReferenceName(name), e.hashOf(n))))
	}
	hd := c.L("head")
	switch hd[0].(string) {
	case "sym":
		must(r.Storer.SetReference(plumbing.NewSymbolicReference(plumbing.HEAD, plumbing.ReferenceName(hd[1].(string)))))
	case "det":
		must(r.Storer.SetReference(plumbing.NewHashReference(plumbing.HEAD, e.hashOf(lib.Case{"n": hd[1]}.I("n")))))
	}
	idx := &index.Index{Version: 2}
	ie := entsOf(c.L("index"))
	sort.Slice(ie, func(i, j int) bool { return ie[i].path < ie[j].path })
	for _, f := range ie {
		idx.Entries = append(idx.Entries, &index.Entry{Name: f.path, Mode: modeOf(f.kind), Hash: storeBlob(r, f.content)})
	}
	must(r.Storer.SetIndex(idx))
	if c.Bool("user") {
		cfg, err := r.Config()
		must(err)
		cfg.User.Name, cfg.User.Email = "u", "u@u"
		must(r.SetConfig(cfg))
	}
	for _, f := range entsOf(c.L("wt")) {
		e.writeWT(f)
	}
}

type step struct {
	Res  string `json:"res"`
	Err  string `json:"err,omitempty"`
	Snap snap   `json:"snap"`
}

// apply runs one op of a case undisturbed and records the new commit, if any
func (e *env) apply(op lib.Case) error {
	switch op.S("op") {
	case "write":
		e.writeWT(fent{op.S("path"), op.S("kind"), []byte(op.S("content"))})
		return nil
	case "rm":
		e.rmWT(op.S("path"))
		return nil
	case "pull":
		e.setRemote(op)
	}
	h, err := e.runOp(e.open(), op)
	if err == nil && op.S("op") == "commit" {
		e.cidx[h] = len(e.commits)
		e.commits = append(e.commits, h)
	}
	return err
}

func run(c lib.Case) (lib.Out, any) {
	base, err := os.MkdirTemp(scratchBase(), "c29ops-")
	must(err)
	defer os.RemoveAll(base)
	e := &env{base: base, dir: filepath.Join(base, "w"), rdir: filepath.Join(base, "remote.git"), cidx: map[plumbing.Hash]int{}}
	e.build(c)
	ops := c.L("ops")
	if c.Bool("fault") {
		return runFaults(e, c, ops)
	}
	var outs []lib.Out
	o0, s0 := e.snapshot()
	outs = append(outs, o0)
	steps := []step{{Res: "init", Snap: s0}}
	for _, x := range ops {
		op := lib.AsCase(x)
		err := e.apply(op)
		o, s := e.snapshot()
		cls := classify(err)
		st := step{Res: cls, Snap: s}
		if err != nil {
			st.Err = err.Error()
		}
		steps = append(steps, st)
		res := lib.Ok()
		if err != nil {
			res = lib.Err(cls)
		}
		outs = append(outs, lib.List(res, o))
	}
	return lib.List(outs...), map[string]any{"steps": steps}
}

// ---------------------------------------------------------------- injected faults

func copyTree(src, dst string) {
	must(filepath.Walk(src, func(p string, fi os.FileInfo, err error) error {
		if err != nil {
			return err
		}
		rel, _ := filepath.Rel(src, p)
		q := filepath.Join(dst, rel)
		ts := unix.NsecToTimeval(fi.ModTime().UnixNano())
		switch {
		case fi.Mode()&os.ModeSymlink != 0:
			t, err := os.Readlink(p)
			if err != nil {
				return err
			}
			if err := os.Symlink(t, q); err != nil {
				return err
			}
			return unix.Lutimes(q, []unix.Timeval{ts, ts})
		case fi.IsDir():
			return os.MkdirAll(q, 0o755)
		default:
			b, err := os.ReadFile(p)
			if err != nil {
				return err
			}
			if err := os.WriteFile(q, b, fi.Mode().Perm()); err != nil {
				return err
			}
			os.Chmod(q, fi.Mode().Perm())
			return os.Chtimes(q, fi.ModTime(), fi.ModTime())
		}
	}))
}

func snapDiff(a, b snap) []string {
	var d []string
	j := func(x any) string { return fmt.Sprint(x) }
	if j(a.Head) != j(b.Head) {
		d = append(d, "head")
	}
	if j(a.Refs) != j(b.Refs) {
		d = append(d, "refs")
	}
	if j(a.Raw) != j(b.Raw) {
		d = append(d, "raw")
	}
	if j(a.Index) != j(b.Index) {
		d = append(d, "index")
	}
	if j(a.WT) != j(b.WT) {
		d = append(d, "wt")
	}
	if j(a.Stray) != j(b.Stray) {
		d = append(d, "stray")
	}
	return d
}

// local view for Pull: remote-tracking references are what the fetch half keeps
func dropRemotes(s snap) snap {
	var refs [][]any
	for _, r := range s.Refs {
		if n, _ := r[0].(string); !strings.HasPrefix(n, "refs/remotes/") {
			refs = append(refs, r)
		}
	}
	s.Refs = refs
	return s
}

type faultRun struct {
	K    int      `json:"k"`
	Res  string   `json:"res"`
	Err  string   `json:"err,omitempty"`
	Call string   `json:"call"`
	Diff []string `json:"diff"`
	Snap *snap    `json:"snap,omitempty"`
}

func runFaults(e *env, c lib.Case, ops []any) (lib.Out, any) {
	if len(ops) == 0 {
		panic("fault case without ops")
	}
	for _, x := range ops[:len(ops)-1] {
		e.apply(lib.AsCase(x))
	}
	op := lib.AsCase(ops[len(ops)-1])
	if op.S("op") == "pull" {
		e.setRemote(op)
	}
	template := e.dir
	preOut, pre := e.snapshot()
	pre = dropRemotes(pre)
	var baseOut lib.Out
	runOnce := func(k int) (faultRun, int, []string) {
		w := filepath.Join(e.base, fmt.Sprintf("k%d", k))
		copyTree(template, w)
		defer os.RemoveAll(w)
		e.dir = w
		e.flt = &faults{}
		r := e.open() // opened undisturbed; only the calls of the op itself are counted
		e.flt.calls = 0
		if k > 0 {
			e.flt.arm(k)
		} else {
			e.flt.rec = true
		}
		var err error
		var pan any
		var h plumbing.Hash
		func() {
			defer func() { pan = recover() }()
			h, err = e.runOp(r, op)
		}()
		if k == 0 && err == nil && pan == nil && op.S("op") == "commit" {
			e.cidx[h] = len(e.commits) // the commit the undisturbed run made: numbered like the model's
		}
		postOut, post := e.snapshot()
		delete(e.cidx, h) // in the fault runs a commit made by the op itself is unknown (-2), as in the model's effect list
		post = dropRemotes(post)
		fr := faultRun{K: k, Res: classify(err), Call: e.flt.fired, Diff: snapDiff(pre, post)}
		if pan != nil {
			fr.Res, fr.Err = "panic", fmt.Sprint(pan)
		} else if err != nil {
			fr.Err = err.Error()
		}
		if len(fr.Diff) > 0 && fr.Res != "ok" {
			fr.Snap = &post
		}
		n, tr := e.flt.calls, e.flt.trace
		if k == 0 {
			baseOut = postOut
		}
		e.dir, e.flt = template, nil
		return fr, n, tr
	}
	base, n, trace := runOnce(0)
	// the first call that changes something observable (a reference, the index, a worktree file)
	first := 0
	for i, t := range trace {
		m, p, _ := strings.Cut(t, " ")
		switch m {
		case "Create", "OpenFile", "Write", "Rename", "Remove", "Symlink", "TempFile":
			if !strings.HasPrefix(p, ".git/objects") && p != ".git/config" && !strings.HasPrefix(p, ".git/refs/remotes") {
				first = i + 1
			}
		}
		if first > 0 {
			break
		}
	}
	var ks []int
	if l := c.L("ks"); len(l) > 0 {
		for _, x := range l {
			ks = append(ks, int(lib.Case{"n": x}.I("n")))
		}
	} else if m := int(c.I("maxk")); m > 0 && n > m {
		// quick tier: every call from just before the first observable store on, a sample of the earlier ones
		from := n + 1
		if first > 0 {
			from = first - 2
			if from < 1 {
				from = 1
			}
		}
		tail := n - from + 1
		pre := 12
		if tail > m-pre {
			stride := (tail + (m - pre) - 1) / (m - pre)
			for k := from + int(c.I("koff"))%stride; k <= n; k += stride {
				ks = append(ks, k)
			}
		} else {
			for k := from; k <= n; k++ {
				ks = append(ks, k)
			}
			pre = m - tail
		}
		if from > 1 {
			stride := (from - 1 + pre - 1) / pre
			var early []int
			for k := 1 + int(c.I("koff"))%stride; k < from; k += stride {
				early = append(early, k)
			}
			ks = append(early, ks...)
		}
	} else {
		for k := 1; k <= n; k++ {
			ks = append(ks, k)
		}
	}
	runs := []faultRun{}
	refusals, changed := 0, 0
	for _, k := range ks {
		fr, _, _ := runOnce(k)
		if fr.Res != "ok" {
			refusals++
			if len(fr.Diff) > 0 {
				changed++
			}
		}
		runs = append(runs, fr)
	}
	res := lib.Ok()
	if base.Res != "ok" {
		res = lib.Err(base.Res)
	}
	return lib.List(lib.Sym("faults"), res, preOut, baseOut),
		map[string]any{"pre": pre, "calls": n, "first_store": first, "base": base, "runs": runs, "refusals": refusals, "changed": changed}
}

func main() {
	// no configuration from outside the scratch repositories
	os.Setenv("GIT_CONFIG_GLOBAL", "")
	os.Setenv("GIT_CONFIG_NOSYSTEM", "1")
	lib.Main(run)
}
