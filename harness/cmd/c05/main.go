// c05: implementation side of the C05 correspondence (which SHA-1 is used on
// every hashing path, and what it answers on the published collisions).
//
// Two modes (environment variable C05_MODE):
//
//	digest (default): nothing is registered; raw / object digests and the
//	    behaviour on colliding pairs are reported as they are.
//	wiring: both hash registries are instrumented BEFORE any go-git code runs:
//	    go-git's plumbing/hash registry (the documented extension point) gets a
//	    recording wrapper around sha1cd, Go's crypto registry a recording wrapper
//	    around whatever crypto.SHA1 was (probed semantically first).  For each
//	    entry point the digests it emits (object IDs, pack / idx / rev / index /
//	    commit-graph trailers) are traced back to the instance that produced them.
package main

import (
	"bytes"
	"crypto"
	"crypto/sha1"
	"encoding/hex"
	"fmt"
	"hash"
	"io"
	"os"
	"path/filepath"
	"reflect"
	"sort"
	"strings"
	"sync"
	"time"
	"unsafe"

	"github.com/go-git/go-billy/v6"
	"github.com/go-git/go-billy/v6/memfs"
	"github.com/go-git/go-billy/v6/util"
	"github.com/pjbgf/sha1cd"

	"github.com/go-git/go-git/v6/plumbing"
	"github.com/go-git/go-git/v6/plumbing/cache"
	"github.com/go-git/go-git/v6/plumbing/format/commitgraph"
	format "github.com/go-git/go-git/v6/plumbing/format/config"
	"github.com/go-git/go-git/v6/plumbing/format/index"
	"github.com/go-git/go-git/v6/plumbing/format/objfile"
	"github.com/go-git/go-git/v6/plumbing/format/packfile"
	"github.com/go-git/go-git/v6/plumbing/format/revfile"
	githash "github.com/go-git/go-git/v6/plumbing/hash"
	"github.com/go-git/go-git/v6/storage/filesystem"
	"github.com/go-git/go-git/v6/storage/memory"
	mfs "github.com/go-git/go-git/v6/utils/merkletrie/filesystem"

	"verif/harness/lib"
)

// ---------------------------------------------------------------- spies

var (
	mu          sync.Mutex
	sums        = map[string]string{} // hex digest -> source of the instance that produced it
	cryptoPlain = "unprobed"
)

type spy struct {
	hash.Hash
	src string
}

func (s *spy) Sum(b []byte) []byte {
	r := s.Hash.Sum(b)
	mu.Lock()
	sums[hex.EncodeToString(r[len(b):])] = s.src
	mu.Unlock()
	return r
}

func resetSums() {
	mu.Lock()
	sums = map[string]string{}
	mu.Unlock()
}

func source(d []byte) string {
	mu.Lock()
	defer mu.Unlock()
	if s, ok := sums[hex.EncodeToString(d)]; ok {
		return s
	}
	return "unknown"
}

var shatteredDir string

func attackPair() ([]byte, []byte, bool) {
	// the two SHAttered prefixes, handed over by the runner (literals of Spec/ShaAttack.v) ...
	if v := strings.SplitN(os.Getenv("C05_SHATTERED"), ":", 2); len(v) == 2 {
		a, e1 := hex.DecodeString(v[0])
		b, e2 := hex.DecodeString(v[1])
		if e1 == nil && e2 == nil && len(a) == 320 && len(b) == 320 {
			return a, b, true
		}
	}
	// ... or read from the sha1cd test data
	a, e1 := os.ReadFile(filepath.Join(shatteredDir, "shattered-1.pdf"))
	b, e2 := os.ReadFile(filepath.Join(shatteredDir, "shattered-2.pdf"))
	if e1 != nil || e2 != nil || len(a) < 320 || len(b) < 320 {
		return nil, nil, false
	}
	return a[:320], b[:320], true
}

func sumOf(h hash.Hash, m []byte) []byte {
	h.Reset()
	h.Write(m)
	return h.Sum(nil)
}

func installSpies() {
	// what does Go's crypto registry hold for SHA-1?  decided by behaviour, not by type name
	inst := crypto.SHA1.New()
	if a, b, ok := attackPair(); ok {
		if bytes.Equal(sumOf(inst, a), sumOf(inst, b)) {
			cryptoPlain = "plain"
		} else {
			cryptoPlain = "cryptocd"
		}
	}
	crypto.RegisterHash(crypto.SHA1, func() hash.Hash { return &spy{Hash: sha1.New(), src: "crypto"} })
	if err := githash.RegisterHash(crypto.SHA1, func() hash.Hash { return &spy{Hash: sha1cd.New(), src: "registry"} }); err != nil {
		panic(err)
	}
}

// ---------------------------------------------------------------- reflective probe
// Hashers that an entry point keeps in struct fields are found by walking the
// value (unexported fields included) and probed by behaviour: a SHA-1 sized
// hash.Hash that answers the same digest on both SHAttered prefixes is plain.

var hashIface = reflect.TypeOf((*hash.Hash)(nil)).Elem()

func walk(v reflect.Value, depth int, seen map[uintptr]bool, out *[]hash.Hash) {
	if depth > 4 || !v.IsValid() {
		return
	}
	switch v.Kind() {
	case reflect.Ptr:
		if v.IsNil() || seen[v.Pointer()] {
			return
		}
		seen[v.Pointer()] = true
		walk(v.Elem(), depth+1, seen, out)
	case reflect.Interface:
		if v.IsNil() {
			return
		}
		if v.Type().Implements(hashIface) || v.Elem().Type().Implements(hashIface) {
			if v.CanInterface() {
				if h, ok := v.Interface().(hash.Hash); ok {
					*out = append(*out, h)
					return
				}
			}
		}
		walk(v.Elem(), depth+1, seen, out)
	case reflect.Struct:
		for i := 0; i < v.NumField(); i++ {
			f := v.Field(i)
			if !f.CanInterface() && f.CanAddr() {
				f = reflect.NewAt(f.Type(), unsafe.Pointer(f.UnsafeAddr())).Elem()
			}
			walk(f, depth+1, seen, out)
		}
	}
}

// probe returns "collides", "distinct" or "none" for the SHA-1 sized hashers reachable from x
func probe(x any) string {
	a, b, ok := attackPair()
	if !ok || x == nil {
		return "none"
	}
	var hs []hash.Hash
	walk(reflect.ValueOf(x), 0, map[uintptr]bool{}, &hs)
	res := "none"
	for _, h := range hs {
		if sp, ok := h.(*spy); ok {
			h = sp.Hash
		}
		if h.Size() != 20 {
			continue
		}
		if bytes.Equal(sumOf(h, a), sumOf(h, b)) {
			return "collides"
		}
		res = "distinct"
	}
	return res
}

// the object an entry point built, kept for the probe
var lastObject any

// verdict of a wiring case: where did the digests this entry point emitted come from
func verdict(digests [][]byte) lib.Out {
	if len(digests) == 0 {
		return lib.Err("nodigest")
	}
	seen := map[string]bool{}
	for _, d := range digests {
		seen[source(d)] = true
	}
	var ks []string
	for k := range seen {
		if k == "crypto" {
			k = cryptoPlain
		}
		ks = append(ks, k)
	}
	sort.Strings(ks)
	return lib.Ok(lib.Sym(strings.Join(ks, "_")))
}

// ---------------------------------------------------------------- fixtures

func otype(s string) plumbing.ObjectType {
	switch s {
	case "commit":
		return plumbing.CommitObject
	case "tree":
		return plumbing.TreeObject
	case "tag":
		return plumbing.TagObject
	}
	return plumbing.BlobObject
}

func newFS() (billy.Filesystem, *filesystem.Storage) {
	fs := memfs.New()
	st := filesystem.NewStorageWithOptions(fs, cache.NewObjectLRUDefault(), filesystem.Options{ObjectFormat: format.SHA1})
	return fs, st
}

// a small pack with three blobs, built by go-git's encoder over a memory storage
func buildPack(payloads [][]byte) ([]byte, plumbing.Hash, []plumbing.Hash, error) {
	st := memory.NewStorage()
	var hs []plumbing.Hash
	for _, p := range payloads {
		o := st.NewEncodedObject()
		o.SetType(plumbing.BlobObject)
		w, _ := o.Writer()
		w.Write(p)
		w.Close()
		h, err := st.SetEncodedObject(o)
		if err != nil {
			return nil, plumbing.ZeroHash, nil, err
		}
		hs = append(hs, h)
	}
	var buf bytes.Buffer
	enc := packfile.NewEncoder(&buf, st, false)
	ph, err := enc.Encode(hs, 10)
	lastEncoder = enc
	return buf.Bytes(), ph, hs, err
}

var lastEncoder *packfile.Encoder

func payloads(c lib.Case) [][]byte {
	m := c.B("msg")
	return [][]byte{append([]byte("one "), m...), append([]byte("two "), m...), []byte("three")}
}

func trailer(b []byte) []byte {
	if len(b) < 20 {
		return nil
	}
	return b[len(b)-20:]
}

// ---------------------------------------------------------------- entry points

// digests an entry point emits for the case's message (object IDs / checksums)
func runEntry(c lib.Case) ([][]byte, error) {
	e := c.S("entry")
	m := c.B("msg")
	t := otype(c.S("type"))
	switch e {
	case "plumbing.NewHasher":
		h := plumbing.NewHasher(format.SHA1, t, int64(len(m)))
		h.Write(m)
		lastObject = &h
		return [][]byte{h.Sum().Bytes()}, nil
	case "plumbing.NewHasher/unset":
		h := plumbing.NewHasher(format.UnsetObjectFormat, t, int64(len(m)))
		h.Write(m)
		lastObject = &h
		return [][]byte{h.Sum().Bytes()}, nil
	case "plumbing.FromObjectFormat":
		oh := plumbing.FromObjectFormat(format.SHA1)
		id, err := oh.Compute(t, m)
		lastObject = oh
		return [][]byte{id.Bytes()}, err
	case "plumbing.FromHash":
		oh, err := plumbing.FromHash(sha1.New())
		if err != nil {
			return nil, err
		}
		id, err := oh.Compute(t, m)
		lastObject = oh
		return [][]byte{id.Bytes()}, err
	case "plumbing.MemoryObject.Hash":
		o := &plumbing.MemoryObject{}
		o.SetType(t)
		o.Write(m)
		lastObject = o
		return [][]byte{o.Hash().Bytes()}, nil
	case "phash.New":
		h := githash.New(crypto.SHA1)
		h.Write(m)
		lastObject = &struct{ H hash.Hash }{h}
		return [][]byte{h.Sum(nil)}, nil
	case "phash.FromObjectFormat":
		h, err := githash.FromObjectFormat(format.SHA1)
		if err != nil {
			return nil, err
		}
		h.Write(m)
		return [][]byte{h.Sum(nil)}, nil
	case "memstorage.NewStorage":
		st := memory.NewStorage()
		o := st.NewEncodedObject()
		o.SetType(t)
		w, _ := o.Writer()
		w.Write(m)
		w.Close()
		id, err := st.SetEncodedObject(o)
		lastObject = o
		return [][]byte{id.Bytes()}, err
	case "objfile.Writer.prepareForWrite":
		var buf bytes.Buffer
		w := objfile.NewWriter(&buf, format.SHA1)
		if err := w.WriteHeader(t, int64(len(m))); err != nil {
			return nil, err
		}
		w.Write(m)
		w.Close()
		lastObject = w
		return [][]byte{w.Hash().Bytes()}, nil
	case "objfile.Reader.prepareForRead":
		var buf bytes.Buffer
		w := objfile.NewWriter(&buf, format.SHA1)
		w.WriteHeader(t, int64(len(m)))
		w.Write(m)
		w.Close()
		resetSums() // only the reader's digest counts
		r, err := objfile.NewReader(&buf, format.SHA1)
		if err != nil {
			return nil, err
		}
		defer r.Close()
		if _, _, err := r.Header(); err != nil {
			return nil, err
		}
		io.Copy(io.Discard, r)
		lastObject = r
		return [][]byte{r.Hash().Bytes()}, nil
	case "fsstorage.NewStorageWithOptions/object":
		// filesystem storage: NewEncodedObject (ObjectHasher of the storage) + SetEncodedObject (objfile writer)
		fs, st := newFS()
		o := st.NewEncodedObject()
		o.SetType(t)
		w, _ := o.Writer()
		w.Write(m)
		w.Close()
		id, err := st.SetEncodedObject(o)
		if err != nil {
			return nil, err
		}
		// the name of the loose file is the objfile writer's digest
		var names [][]byte
		dirs, _ := fs.ReadDir("objects")
		for _, d := range dirs {
			if len(d.Name()) == 2 {
				fl, _ := fs.ReadDir(fs.Join("objects", d.Name()))
				for _, f := range fl {
					if b, err := hex.DecodeString(d.Name() + f.Name()); err == nil {
						names = append(names, b)
					}
				}
			}
		}
		lastObject = st
		return append([][]byte{id.Bytes()}, names...), nil
	case "fsstorage.NewStorageWithOptions/index":
		fs, st := newFS()
		idx := &index.Index{Version: 2}
		en, err := idx.Add("f")
		if err != nil {
			return nil, err
		}
		en.Hash = plumbing.NewHash("e69de29bb2d1d6434b8b29ae775ad8c2e48c5391")
		en.Mode = 0o100644
		en.ModifiedAt = time.Unix(int64(len(m)), 0)
		en.Size = uint32(len(m))
		if err := st.SetIndex(idx); err != nil {
			return nil, err
		}
		b, err := util.ReadFile(fs, "index")
		if err != nil {
			return nil, err
		}
		lastObject = st
		return [][]byte{trailer(b)}, nil
	case "packfile.NewEncoder":
		_, ph, _, err := buildPack(payloads(c))
		lastObject = lastEncoder
		return [][]byte{ph.Bytes()}, err
	case "packfile.NewScanner":
		pack, _, _, err := buildPack(payloads(c))
		if err != nil {
			return nil, err
		}
		resetSums()
		s := packfile.NewScanner(bytes.NewReader(pack))
		var ds [][]byte
		for s.Scan() {
			d := s.Data()
			switch d.Section {
			case packfile.ObjectSection:
				oh := d.Value().(packfile.ObjectHeader)
				if !oh.Hash.IsZero() { // delta entries get no ID from the scanner
					ds = append(ds, oh.Hash.Bytes())
				}
			case packfile.FooterSection:
				ds = append(ds, d.Value().(plumbing.Hash).Bytes())
			}
		}
		lastObject = s
		return ds, s.Error()
	case "packfile.NewParser":
		pack, _, _, err := buildPack(payloads(c))
		if err != nil {
			return nil, err
		}
		resetSums()
		ob := &observer{}
		p := packfile.NewParser(bytes.NewReader(pack), packfile.WithScannerObservers(ob))
		ck, err := p.Parse()
		lastObject = p
		return append(ob.hashes, ck.Bytes()), err
	case "dotgit.PackWriter.save":
		pack, _, _, err := buildPack(payloads(c))
		if err != nil {
			return nil, err
		}
		fs, st := newFS()
		resetSums()
		w, err := st.PackfileWriter()
		if err != nil {
			return nil, err
		}
		if _, err := w.Write(pack); err != nil {
			return nil, err
		}
		if err := w.Close(); err != nil {
			return nil, err
		}
		var ds [][]byte
		files, _ := fs.ReadDir("objects/pack")
		for _, f := range files {
			if strings.HasSuffix(f.Name(), ".idx") || strings.HasSuffix(f.Name(), ".rev") {
				b, _ := util.ReadFile(fs, fs.Join("objects/pack", f.Name()))
				ds = append(ds, trailer(b))
			}
		}
		if len(ds) == 0 {
			return nil, fmt.Errorf("no idx/rev written")
		}
		return ds, nil
	case "revfile.readHashFunction":
		// write a pack through the storage to obtain a .rev file, then decode it
		pack, _, hs, err := buildPack(payloads(c))
		if err != nil {
			return nil, err
		}
		fs, st := newFS()
		w, err := st.PackfileWriter()
		if err != nil {
			return nil, err
		}
		w.Write(pack)
		if err := w.Close(); err != nil {
			return nil, err
		}
		files, _ := fs.ReadDir("objects/pack")
		for _, f := range files {
			if strings.HasSuffix(f.Name(), ".rev") {
				b, _ := util.ReadFile(fs, fs.Join("objects/pack", f.Name()))
				name := strings.TrimSuffix(strings.TrimPrefix(f.Name(), "pack-"), ".rev")
				resetSums()
				out := make(chan uint32, len(hs)+1)
				if err := revfile.Decode(bytes.NewReader(b), int64(len(hs)), plumbing.NewHash(name), out); err != nil {
					return nil, err
				}
				return [][]byte{trailer(b)}, nil
			}
		}
		return nil, fmt.Errorf("no rev file written")
	case "commitgraph.NewEncoder":
		mi := commitgraph.NewMemoryIndex()
		h := plumbing.FromObjectFormat(format.SHA1)
		id, _ := h.Compute(plumbing.CommitObject, m)
		mi.Add(id, &commitgraph.CommitData{TreeHash: plumbing.NewHash("4b825dc642cb6eb9a060e54bf8d69288fbee4904"), Generation: 1, When: time.Unix(1, 0)})
		resetSums()
		var buf bytes.Buffer
		cge := commitgraph.NewEncoder(&buf)
		if err := cge.Encode(mi); err != nil {
			return nil, err
		}
		lastObject = cge
		return [][]byte{trailer(buf.Bytes())}, nil
	case "fsnoder.node.doCalculateHashForRegular":
		wt := memfs.New()
		util.WriteFile(wt, "f", m, 0o644)
		root := mfs.NewRootNode(wt, nil)
		ch, err := root.Children()
		if err != nil || len(ch) != 1 {
			return nil, fmt.Errorf("children: %v", err)
		}
		hb := ch[0].Hash()
		if len(hb) < 20 {
			return nil, fmt.Errorf("short node hash")
		}
		return [][]byte{hb[:20]}, nil
	case "fsnoder.node.doCalculateHashForSymlink":
		wt := memfs.New()
		target := "t" + hex.EncodeToString(m)
		if len(target) > 200 {
			target = target[:200]
		}
		if err := wt.Symlink(target, "l"); err != nil {
			return nil, err
		}
		root := mfs.NewRootNode(wt, nil)
		ch, err := root.Children()
		if err != nil || len(ch) != 1 {
			return nil, fmt.Errorf("children: %v", err)
		}
		hb := ch[0].Hash()
		if len(hb) < 20 {
			return nil, fmt.Errorf("short node hash")
		}
		return [][]byte{hb[:20]}, nil
	}
	return nil, fmt.Errorf("unknown entry %q", e)
}

type observer struct{ hashes [][]byte }

func (o *observer) OnHeader(uint32) error                                  { return nil }
func (o *observer) OnInflatedObjectHeader(plumbing.ObjectType, int64, int64) error { return nil }
func (o *observer) OnInflatedObjectContent(h plumbing.Hash, _ int64, _ uint32, _ []byte) error {
	o.hashes = append(o.hashes, h.Bytes())
	return nil
}
func (o *observer) OnFooter(plumbing.Hash) error { return nil }

// raw hash.Hash handles that the public API exposes
func rawHandle(e string) (hash.Hash, error) {
	switch e {
	case "plumbing.NewHasher":
		return plumbing.NewHasher(format.SHA1, plumbing.BlobObject, 0).Hash, nil
	case "plumbing.NewHasher/unset":
		return plumbing.NewHasher(format.UnsetObjectFormat, plumbing.BlobObject, 0).Hash, nil
	case "phash.New":
		return githash.New(crypto.SHA1), nil
	case "phash.FromObjectFormat":
		return githash.FromObjectFormat(format.SHA1)
	case "stdlib":
		return sha1.New(), nil // reference point: the attack does collide on plain SHA-1
	}
	return nil, fmt.Errorf("no raw handle for %q", e)
}

func message(c lib.Case, k string) []byte {
	if f := c.S(k + "_file"); f != "" {
		b, err := os.ReadFile(filepath.Join(shatteredDir, f))
		if err != nil {
			panic("cannot read attack file: " + err.Error())
		}
		return append(b, c.B(k)...)
	}
	return c.B(k)
}

func main() {
	shatteredDir = os.Getenv("C05_FILES")
	wiring := os.Getenv("C05_MODE") == "wiring"
	if wiring {
		installSpies()
	}
	lib.Main(func(c lib.Case) (lib.Out, any) {
		switch c.S("kind") {
		case "raw":
			h, err := rawHandle(c.S("entry"))
			if err != nil {
				return lib.Err("entry"), err.Error()
			}
			return lib.Bytes(sumOf(h, message(c, "msg"))), nil
		case "pair":
			h, err := rawHandle(c.S("entry"))
			if err != nil {
				return lib.Err("entry"), err.Error()
			}
			d1 := sumOf(h, message(c, "m1"))
			d2 := sumOf(h, message(c, "m2"))
			extra := map[string]string{"d1": hex.EncodeToString(d1), "d2": hex.EncodeToString(d2), "type": fmt.Sprintf("%T", h)}
			if bytes.Equal(d1, d2) {
				return lib.Ok(lib.Sym("collides")), extra
			}
			return lib.Ok(lib.Sym("distinct")), extra
		case "obj":
			lastObject = nil
			ds, err := runEntry(c)
			if err != nil || len(ds) == 0 {
				return lib.Err("run"), fmt.Sprint(err)
			}
			return lib.Bytes(ds[0]), map[string]any{"probe": probe(lastObject)}
		case "wiring":
			if !wiring {
				return lib.Err("mode"), nil
			}
			resetSums()
			lastObject = nil
			ds, err := runEntry(c)
			if err != nil {
				return lib.Err("run"), err.Error()
			}
			var hx []string
			for _, d := range ds {
				hx = append(hx, hex.EncodeToString(d)+":"+source(d))
			}
			v := verdict(ds)
			return v, map[string]any{"digests": hx, "crypto_registry": cryptoPlain, "probe": probe(lastObject)}
		}
		return lib.Err("kind"), nil
	})
}
