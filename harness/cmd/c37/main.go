// c37: implementation side of the C37 correspondence (revlist.Objects over a
// store built from raw object bytes).
package main

import (
	"sort"
	"strings"

	"github.com/go-git/go-git/v6/plumbing"
	"github.com/go-git/go-git/v6/plumbing/revlist"
	"github.com/go-git/go-git/v6/storage/memory"

	"verif/harness/lib"
)

var types = map[string]plumbing.ObjectType{
	"commit": plumbing.CommitObject, "tree": plumbing.TreeObject,
	"blob": plumbing.BlobObject, "tag": plumbing.TagObject,
}

func errClass(err error) string {
	m := err.Error()
	switch {
	case strings.HasPrefix(m, "getting wanted object"):
		return "want"
	case strings.Contains(m, "has missing parent"):
		return "missing"
	case strings.HasPrefix(m, "getting parent commit"):
		return "parent"
	default:
		return "tree"
	}
}

func main() {
	lib.Main(func(c lib.Case) (lib.Out, any) {
		st := memory.NewStorage()
		ids := map[plumbing.Hash]int64{}
		hashOf := map[int64]plumbing.Hash{}
		for k, v := range c.M("hashes") {
			var id int64
			for _, ch := range k {
				id = id*10 + int64(ch-'0')
			}
			h := plumbing.NewHash(v.(string))
			ids[h] = id
			hashOf[id] = h
		}
		for _, x := range c.L("objs") {
			o := lib.AsCase(x)
			mo := &plumbing.MemoryObject{}
			mo.SetType(types[o.S("t")])
			mo.Write(o.B("data"))
			h, err := st.SetEncodedObject(mo)
			if err != nil {
				panic("harness: cannot store object: " + err.Error())
			}
			if h != hashOf[o.I("id")] {
				panic("harness: hash of object differs from the generator's")
			}
		}
		var sh []plumbing.Hash
		for _, x := range c.L("shallow") {
			sh = append(sh, hashOf[lib.Case{"v": x}.I("v")])
		}
		if len(sh) > 0 {
			if err := st.SetShallow(sh); err != nil {
				panic(err)
			}
		}
		conv := func(k string) []plumbing.Hash {
			var r []plumbing.Hash
			for _, x := range c.L(k) {
				r = append(r, hashOf[lib.Case{"v": x}.I("v")])
			}
			return r
		}
		res, err := revlist.Objects(st, conv("wants"), conv("haves"))
		if err != nil {
			return lib.Err(errClass(err)), err.Error()
		}
		var out []int64
		for _, h := range res {
			id, ok := ids[h]
			if !ok {
				panic("harness: result hash unknown to the generator: " + h.String())
			}
			out = append(out, id)
		}
		sort.Slice(out, func(i, j int) bool { return out[i] < out[j] })
		items := make([]lib.Out, len(out))
		for i, v := range out {
			items[i] = lib.Int(v)
		}
		return lib.Ok(items...), nil
	})
}
