// c23: implementation side of the C23 correspondence (concurrent reads on
// shared storage).  A case is a scenario: an initial repository, a set of
// goroutines on ONE storage instance A (lookups, Reindex, a PackfileWriter whose
// Close publishes through Notify) and on a second instance B of the same
// repository (packs / loose objects added from outside), plus background
// readers that keep reading every initial object, the references and the index
// file.  Every lookup answers found / notfound, projected to `any` when the
// object is neither in the initial repository nor absent from the final one.
package main

import (
	"bytes"
	"errors"
	"fmt"
	"io"
	"math/rand"
	"os"
	"os/exec"
	"runtime"
	"sync"
	"time"

	"github.com/go-git/go-billy/v6/osfs"

	"github.com/go-git/go-git/v6/plumbing"
	"github.com/go-git/go-git/v6/plumbing/cache"
	formatcfg "github.com/go-git/go-git/v6/plumbing/format/config"
	"github.com/go-git/go-git/v6/plumbing/format/index"
	"github.com/go-git/go-git/v6/plumbing/format/packfile"
	"github.com/go-git/go-git/v6/storage/filesystem"
	"github.com/go-git/go-git/v6/storage/memory"
	"github.com/go-git/go-git/v6/x/fdpool"

	"verif/harness/lib"
)

const nObjects = 10

type obj struct {
	data []byte
	h    plumbing.Hash
}

var universe []obj

func init() {
	oh := plumbing.FromObjectFormat(formatcfg.SHA1)
	for k := 0; k < nObjects; k++ {
		var o obj
		o.data = bytes.Repeat([]byte(fmt.Sprintf("object-%d\n", k)), 1+7*k)
		o.h, _ = oh.Compute(plumbing.BlobObject, o.data)
		universe = append(universe, o)
	}
}

func unmask(m uint64) []int {
	var r []int
	for k := 0; k < nObjects; k++ {
		if m&(1<<k) != 0 {
			r = append(r, k)
		}
	}
	return r
}

func memObj(k int) plumbing.EncodedObject {
	o := &plumbing.MemoryObject{}
	o.SetType(plumbing.BlobObject)
	o.SetSize(int64(len(universe[k].data)))
	w, _ := o.Writer()
	w.Write(universe[k].data)
	w.Close()
	return o
}

func buildPack(ks []int) []byte {
	ms := memory.NewStorage()
	var hs []plumbing.Hash
	for _, k := range ks {
		h, err := ms.SetEncodedObject(memObj(k))
		if err != nil {
			panic(err)
		}
		hs = append(hs, h)
	}
	var buf bytes.Buffer
	if _, err := packfile.NewEncoder(&buf, ms, false).Encode(hs, 0); err != nil {
		panic(err)
	}
	return buf.Bytes()
}

func writePack(s *filesystem.ObjectStorage, m uint64) error {
	w, err := s.PackfileWriter()
	if err != nil {
		return err
	}
	if _, err := io.Copy(w, bytes.NewReader(buildPack(unmask(m)))); err != nil {
		w.Close()
		return err
	}
	return w.Close()
}

type errs struct {
	mu sync.Mutex
	l  []string
}

func (e *errs) add(format string, a ...any) {
	e.mu.Lock()
	if len(e.l) < 20 {
		e.l = append(e.l, fmt.Sprintf(format, a...))
	}
	e.mu.Unlock()
}

// read performs one lookup of object k; found / not found / error
func read(s *filesystem.ObjectStorage, op string, k int) (bool, error) {
	h := universe[k].h
	switch op {
	case "has":
		err := s.HasEncodedObject(h)
		if err == nil {
			return true, nil
		}
		if errors.Is(err, plumbing.ErrObjectNotFound) {
			return false, nil
		}
		return false, err
	case "size":
		n, err := s.EncodedObjectSize(h)
		if err == nil {
			if n != int64(len(universe[k].data)) {
				return true, fmt.Errorf("size %d of object %d", n, k)
			}
			return true, nil
		}
		if errors.Is(err, plumbing.ErrObjectNotFound) {
			return false, nil
		}
		return false, err
	default:
		o, err := s.EncodedObject(plumbing.AnyObject, h)
		if err != nil {
			if errors.Is(err, plumbing.ErrObjectNotFound) {
				return false, nil
			}
			return false, err
		}
		rd, err := o.Reader()
		if err != nil {
			return true, err
		}
		b, err := io.ReadAll(rd)
		rd.Close()
		if err != nil {
			return true, err
		}
		if !bytes.Equal(b, universe[k].data) || o.Type() != plumbing.BlobObject {
			return true, fmt.Errorf("content of object %d differs", k)
		}
		return true, nil
	}
}

func main() {
	lib.Main(func(c lib.Case) (lib.Out, any) {
		dir, err := os.MkdirTemp("", "verif-c23-")
		if err != nil {
			panic(err)
		}
		defer os.RemoveAll(dir)
		o := c.M("opts")
		rng := rand.New(rand.NewSource(c.I("jitter")))
		var jmu sync.Mutex
		jitter := func() {
			jmu.Lock()
			r := rng.Intn(100)
			jmu.Unlock()
			switch {
			case r < 40:
			case r < 80:
				runtime.Gosched()
			default:
				time.Sleep(time.Duration(r-79) * 20 * time.Microsecond)
			}
		}
		// initial repository through a separate instance
		{
			st0 := filesystem.NewStorageWithOptions(osfs.New(dir), cache.NewObjectLRUDefault(), filesystem.Options{})
			if err := st0.Init(); err != nil {
				panic(err)
			}
			for _, k := range unmask(c.U("loose")) {
				if _, err := st0.SetEncodedObject(memObj(k)); err != nil {
					panic(err)
				}
			}
			for _, p := range c.L("packs") {
				if err := writePack(st0.ObjectStorage, lib.Case{"p": p}.U("p")); err != nil {
					panic(err)
				}
			}
			all0 := c.U("loose")
			for _, p := range c.L("packs") {
				all0 |= lib.Case{"p": p}.U("p")
			}
			for _, k := range unmask(all0) {
				ref := plumbing.NewHashReference(plumbing.ReferenceName(fmt.Sprintf("refs/heads/b%d", k)), universe[k].h)
				if err := st0.SetReference(ref); err != nil {
					panic(err)
				}
			}
			if err := st0.SetIndex(&index.Index{Version: 2}); err != nil {
				panic(err)
			}
			if err := st0.SetReference(plumbing.NewSymbolicReference(plumbing.HEAD, "refs/heads/main")); err != nil {
				panic(err)
			}
			st0.Close()
		}
		opts := filesystem.Options{UseInMemoryIdx: o.Bool("memidx"), LargeObjectThreshold: o.I("lot")}
		if p := o.I("pool"); p >= 0 {
			opts.Pool = fdpool.New(int(p))
		}
		var oc cache.Object
		if o.S("cache") == "tiny" {
			oc = cache.NewObjectLRU(cache.FileSize(64))
		}
		a := filesystem.NewStorageWithOptions(osfs.New(dir), oc, opts)
		b := filesystem.NewStorageWithOptions(osfs.New(dir), nil, filesystem.Options{})
		defer a.Close()
		defer b.Close()

		init := c.U("loose")
		for _, p := range c.L("packs") {
			init |= lib.Case{"p": p}.U("p")
		}
		final := init
		threads := c.L("threads")
		for _, t := range threads {
			tc := lib.AsCase(t)
			switch tc.S("kind") {
			case "notify", "extpack":
				final |= tc.U("p")
			case "extloose":
				final |= 1 << uint(tc.I("k"))
			}
		}
		var es errs
		var muA, muB sync.Mutex // one writer at a time per instance: the property is about concurrent READS
		results := make([]lib.Out, len(threads))
		var wg sync.WaitGroup
		start := make(chan struct{})
		stop := make(chan struct{})
		for i, t := range threads {
			tc := lib.AsCase(t)
			wg.Add(1)
			go func() {
				defer wg.Done()
				defer func() {
					if e := recover(); e != nil {
						es.add("thread %d panicked: %v", i, e)
					}
				}()
				<-start
				jitter()
				switch tc.S("kind") {
				case "lookup":
					k := int(tc.I("k"))
					found, err := read(a.ObjectStorage, tc.S("op"), k)
					if err != nil {
						es.add("lookup %s(%d): %v", tc.S("op"), k, err)
						results[i] = lib.Err("other")
						return
					}
					if init&(1<<k) != 0 || final&(1<<k) == 0 {
						results[i] = lib.Bool(found)
					} else {
						results[i] = lib.Sym("any")
					}
				case "reindex":
					if err := a.Reindex(); err != nil {
						es.add("reindex: %v", err)
					}
				case "notify":
					muA.Lock()
					err := writePack(a.ObjectStorage, tc.U("p"))
					muA.Unlock()
					if err != nil {
						es.add("pack writer on A: %v", err)
					}
				case "extpack":
					muB.Lock()
					err := writePack(b.ObjectStorage, tc.U("p"))
					muB.Unlock()
					if err != nil {
						es.add("pack writer on B: %v", err)
					}
				case "extloose":
					muB.Lock()
					_, err := b.SetEncodedObject(memObj(int(tc.I("k"))))
					muB.Unlock()
					if err != nil {
						es.add("loose writer on B: %v", err)
					}
				case "extrepack":
					// another process repacks: everything into one new pack, the old packs are deleted
					// (-k keeps unreachable objects: nothing stored disappears)
					muB.Lock()
					cmd := exec.Command("/usr/bin/git", "--git-dir", dir, "-c", "gc.auto=0", "-c", "pack.threads=1", "repack", "-a", "-d", "-k", "-q")
					cmd.Env = append(os.Environ(), "GIT_CONFIG_NOSYSTEM=1", "HOME=/nonexistent", "GIT_CONFIG_GLOBAL=/dev/null")
					out, err := cmd.CombinedOutput()
					muB.Unlock()
					if err != nil {
						es.add("harness: git repack failed: %v %s", err, out)
					}
				}
			}()
		}
		// background readers: every initial object, the references, the index file
		var bg sync.WaitGroup
		for r := 0; r < int(c.I("bg")); r++ {
			bg.Add(1)
			go func() {
				defer bg.Done()
				defer func() {
					if e := recover(); e != nil {
						es.add("background reader %d panicked: %v", r, e)
					}
				}()
				<-start
				ops := []string{"get", "has", "size"}
				for n := 0; ; n++ {
					select {
					case <-stop:
						return
					default:
					}
					for _, k := range unmask(init) {
						found, err := read(a.ObjectStorage, ops[(n+k+r)%3], k)
						if err != nil {
							es.add("background %s(%d): %v", ops[(n+k+r)%3], k, err)
						} else if !found {
							es.add("background %s(%d): stored object not found", ops[(n+k+r)%3], k)
						}
					}
					for _, k := range unmask(init) {
						ref, err := a.Reference(plumbing.ReferenceName(fmt.Sprintf("refs/heads/b%d", k)))
						if err != nil || ref.Hash() != universe[k].h {
							es.add("background reference read b%d: %v", k, err)
						}
						break
					}
					if _, err := a.Index(); err != nil {
						es.add("background index read: %v", err)
					}
					jitter()
				}
			}()
		}
		close(start)
		wg.Wait()
		close(stop)
		bg.Wait()
		// afterwards, sequentially: everything written is readable after a Reindex (sanity of the scenario)
		outs := []lib.Out{lib.Bool(false)}
		for i, t := range threads {
			if lib.AsCase(t).S("kind") == "lookup" {
				if results[i] == nil {
					results[i] = lib.Sym("unfinished")
				}
				outs = append(outs, results[i])
			}
		}
		return lib.List(outs...), map[string]any{"errs": es.l}
	})
}
